import Xsm.Model.Pythonic
/-!
Helper lemmas for C19 (`Xsm/Properties/C19.lean`): `_snake_to_camel`, the loader's `logic_map`,
the names the loader demands, the Python-definition compilers.  Core Lean only.
-/
namespace XSM.Py
open XSM

/-! ## `_snake_to_camel` -/

theorem toUpper_ne_us {c : Char} (h : c.toUpper = '_') : c = '_' := by
  unfold Char.toUpper at h
  split at h
  · rename_i hc
    have h2 := congrArg Char.val h
    simp at h2
    obtain ⟨h3, h4⟩ := hc
    have : c.val.toNat ≤ 122 := by simpa using UInt32.le_iff_toNat_le.mp h4
    have : 97 ≤ c.val.toNat := by simpa using UInt32.le_iff_toNat_le.mp h3
    have h5 := congrArg UInt32.toNat h2
    simp [UInt32.toNat_add] at h5
    have e : c.toNat = c.val.toNat := rfl
    rw [e] at h5
    omega
  · exact h

theorem toLower_ne_us {c : Char} (h : c.toLower = '_') : c = '_' := by
  unfold Char.toLower at h
  split at h
  · rename_i hc
    have h2 := congrArg Char.val h
    simp at h2
    obtain ⟨h3, h4⟩ := hc
    have : c.val.toNat ≤ 90 := by simpa using UInt32.le_iff_toNat_le.mp h4
    have : 65 ≤ c.val.toNat := by simpa using UInt32.le_iff_toNat_le.mp h3
    have h5 := congrArg UInt32.toNat h2
    simp [UInt32.toNat_add] at h5
    have e : c.toNat = c.val.toNat := rfl
    rw [e] at h5
    omega
  · exact h

theorem splitUs_of_no_us : ∀ (s : List Char), '_' ∉ s → splitUs s = (s, [])
  | [], _ => rfl
  | c :: cs, h => by
    have hc : c ≠ '_' := fun e => h (by simp [e])
    have ih := splitUs_of_no_us cs (fun m => h (List.mem_cons_of_mem _ m))
    simp [splitUs, hc, ih]

theorem splitUs_fst_no_us : ∀ (s : List Char), '_' ∉ (splitUs s).1
  | [] => by simp [splitUs]
  | c :: cs => by
    have ih := splitUs_fst_no_us cs
    unfold splitUs
    split
    · simp
    · rename_i hc
      simp only [List.mem_cons, not_or]
      exact ⟨fun e => hc e.symm, ih⟩

theorem splitUs_snd_no_us : ∀ (s : List Char), ∀ seg ∈ (splitUs s).2, '_' ∉ seg
  | [] => by simp [splitUs]
  | c :: cs => by
    have ih := splitUs_snd_no_us cs
    have ih1 := splitUs_fst_no_us cs
    unfold splitUs
    split
    · intro seg hseg
      simp only [List.mem_cons] at hseg
      rcases hseg with e | m
      · subst e; exact ih1
      · exact ih seg m
    · exact ih

theorem titleAux_no_us : ∀ (s : List Char) (b : Bool), '_' ∉ s → '_' ∉ titleAux b s
  | [], _, _ => by simp [titleAux]
  | c :: cs, b, h => by
    have hc : c ≠ '_' := fun e => h (by simp [e])
    have ih := titleAux_no_us cs c.isAlpha (fun m => h (List.mem_cons_of_mem _ m))
    unfold titleAux
    simp only [List.mem_cons, not_or]
    refine ⟨?_, ih⟩
    intro e
    cases b
    · exact hc (toUpper_ne_us (by simpa using e.symm))
    · exact hc (toLower_ne_us (by simpa using e.symm))

theorem titleAux_length : ∀ (s : List Char) (b : Bool), (titleAux b s).length = s.length
  | [], _ => rfl
  | c :: cs, b => by simp [titleAux, titleAux_length cs]

theorem snakeToCamel_of_no_underscore (s : List Char) (h : '_' ∉ s) : snakeToCamel s = s := by
  simp [snakeToCamel, splitUs_of_no_us s h]

theorem snakeToCamel_no_underscore (s : List Char) : '_' ∉ snakeToCamel s := by
  unfold snakeToCamel
  simp only [List.mem_append, List.mem_flatten, List.mem_map, not_or, not_exists, not_and]
  refine ⟨splitUs_fst_no_us s, ?_⟩
  intro l hl
  obtain ⟨seg, hseg, rfl⟩ := hl
  exact titleAux_no_us seg false (splitUs_snd_no_us s seg hseg)

theorem snakeToCamel_idem (s : List Char) : snakeToCamel (snakeToCamel s) = snakeToCamel s :=
  snakeToCamel_of_no_underscore _ (snakeToCamel_no_underscore s)

theorem splitUs_length : ∀ (s : List Char),
    (splitUs s).1.length + ((splitUs s).2.map List.length).sum + s.count '_' = s.length
  | [] => by simp [splitUs]
  | c :: cs => by
    have ih := splitUs_length cs
    unfold splitUs
    split
    · rename_i hc
      subst hc
      simp [List.count_cons]
      omega
    · rename_i hc
      have : (c == '_') = false := by simpa using hc
      simp [List.count_cons, this]
      omega

theorem flatten_title_length (segs : List (List Char)) :
    ((segs.map title).flatten).length = (segs.map List.length).sum := by
  induction segs with
  | nil => rfl
  | cons a rest ih => simp [title, titleAux_length, ih]

/-- every underscore disappears and nothing else does -/
theorem snakeToCamel_length (s : List Char) : (snakeToCamel s).length + s.count '_' = s.length := by
  have h := splitUs_length s
  unfold snakeToCamel
  rw [List.length_append, flatten_title_length]
  omega

/-- the part before the first underscore is copied unchanged -/
theorem snakeToCamel_prefix (h t : List Char) (hh : '_' ∉ h) :
    snakeToCamel (h ++ '_' :: t) = h ++ snakeToCamel ('_' :: t) := by
  induction h with
  | nil => rfl
  | cons c cs ih =>
    have hc : c ≠ '_' := fun e => hh (by simp [e])
    have ih' := ih (fun m => hh (List.mem_cons_of_mem _ m))
    unfold snakeToCamel at ih' ⊢
    simp only [List.cons_append, splitUs, hc, if_false, List.cons_append] at ih' ⊢
    simpa using ih'

/-! ## the loader's `logic_map` -/

theorem mem_logicMapWrites {scan : List String} {k c : String} :
    (k, c) ∈ logicMapWrites scan ↔ c ∈ scan ∧ isPublic c = true ∧ (k = c ∨ k = snakeToCamelS c) := by
  unfold logicMapWrites
  simp only [List.mem_flatMap, List.mem_filter, List.mem_cons, Prod.mk.injEq, List.not_mem_nil, or_false]
  constructor
  · rintro ⟨a, ⟨ha, hp⟩, h⟩
    rcases h with ⟨rfl, rfl⟩ | ⟨rfl, rfl⟩
    · exact ⟨ha, hp, Or.inl rfl⟩
    · exact ⟨ha, hp, Or.inr rfl⟩
  · rintro ⟨hc, hp, h⟩
    refine ⟨c, ⟨hc, hp⟩, ?_⟩
    rcases h with rfl | rfl
    · exact Or.inl ⟨rfl, rfl⟩
    · exact Or.inr ⟨rfl, rfl⟩

theorem lookupImpl_sound {scan : List String} {n c : String} (h : lookupImpl scan n = some c) :
    c ∈ scan ∧ isPublic c = true ∧ (c = n ∨ snakeToCamelS c = n) := by
  unfold lookupImpl at h
  simp only [Option.map_eq_some_iff] at h
  obtain ⟨kv, hf, rfl⟩ := h
  have hm := List.mem_of_find?_eq_some hf
  have hp := List.find?_some hf
  simp only [decide_eq_true_eq] at hp
  rw [List.mem_reverse] at hm
  obtain ⟨k, c⟩ := kv
  obtain ⟨h1, h2, h3⟩ := mem_logicMapWrites.mp hm
  simp only at hp
  subst hp
  exact ⟨h1, h2, h3.imp Eq.symm Eq.symm⟩

theorem lookupImpl_complete {scan : List String} {n c : String} (hc : c ∈ scan) (hp : isPublic c = true)
    (h : c = n ∨ snakeToCamelS c = n) : (lookupImpl scan n).isSome = true := by
  unfold lookupImpl
  rw [Option.isSome_map, List.find?_isSome]
  refine ⟨(n, c), ?_, by simp⟩
  rw [List.mem_reverse]
  exact mem_logicMapWrites.mpr ⟨hc, hp, h.imp Eq.symm Eq.symm⟩

/-- a later callable wins: the last entry of the scan that matches is the one bound -/
theorem lookupImpl_last {scan : List String} {n c : String} (hp : isPublic c = true)
    (h : c = n ∨ snakeToCamelS c = n) : lookupImpl (scan ++ [c]) n = some c := by
  unfold lookupImpl logicMapWrites
  simp only [List.filter_append, List.flatMap_append, List.reverse_append]
  have : List.filter isPublic [c] = [c] := by simp [hp]
  rw [this]
  simp only [List.flatMap_cons, List.flatMap_nil, List.append_nil, List.reverse_cons, List.reverse_nil, List.nil_append,
    List.cons_append, List.find?_cons]
  rcases h with rfl | rfl
  · by_cases e : snakeToCamelS c = c
    · simp [e]
    · simp [e]
  · simp

/-! ## what the loader demands -/

/-- `x` is a state of the subtree of `n` -/
inductive Sub : SNode → SNode → Prop
  | refl (n : SNode) : Sub n n
  | kid {d : StateDef} {kids : List (String × SNode)} {k : String} {c x : SNode} :
      (k, c) ∈ kids → Sub c x → Sub (.mk d kids) x

theorem findKid_mem : ∀ {ks : List (String × SNode)} {k : String} {c : SNode}, findKid k ks = some c → (k, c) ∈ ks
  | [], _, _, h => by simp [findKid] at h
  | (k', c') :: rest, k, c, h => by
    unfold findKid at h
    split at h
    · rename_i e
      cases h
      simp [e]
    · exact List.mem_cons_of_mem _ (findKid_mem h)

theorem sub_of_at : ∀ (p : Path) (n c : SNode), n.at p = some c → Sub n c
  | [], n, c, h => by
    cases n
    simp [SNode.at] at h
    subst h
    exact .refl _
  | k :: p, .mk d ks, c, h => by
    simp only [SNode.at] at h
    split at h
    · rename_i c' hc
      exact .kid (findKid_mem hc) (sub_of_at p c' c h)
    · cases h

theorem subDefsKids_of_mem : ∀ {kids : List (String × SNode)} {k : String} {c : SNode} {d : StateDef},
    (k, c) ∈ kids → d ∈ subDefs c → d ∈ subDefsKids kids
  | [], _, _, _, h, _ => by cases h
  | kc :: rest, k, c, d, h, hd => by
    rw [subDefsKids]
    rw [List.mem_append]
    rcases List.mem_cons.mp h with e | m
    · left
      subst e
      exact hd
    · right
      exact subDefsKids_of_mem m hd

theorem mem_subDefs_of_sub {n x : SNode} (h : Sub n x) : x.d ∈ subDefs n := by
  induction h with
  | refl n =>
    cases n
    simp [subDefs, SNode.d]
  | kid hm _ ih =>
    rw [subDefs]
    exact List.mem_cons_of_mem _ (subDefsKids_of_mem hm ih)

/-- `n` is a user predicate a guard depends on: a `named` leaf below composites -/
inductive NamedLeaf (n : String) : GuardExpr → Prop
  | named (p : Option J) : NamedLeaf n (.named n p)
  | and {cs : List GuardExpr} {c : GuardExpr} : c ∈ cs → NamedLeaf n c → NamedLeaf n (.and cs)
  | or {cs : List GuardExpr} {c : GuardExpr} : c ∈ cs → NamedLeaf n c → NamedLeaf n (.or cs)
  | not {c : GuardExpr} : NamedLeaf n c → NamedLeaf n (.not c)

mutual
theorem mem_guardNames_iff : ∀ (g : GuardExpr) (n : String), n ∈ guardNames g ↔ NamedLeaf n g
  | .named m p, n => by
    simp only [guardNames, List.mem_singleton]
    constructor
    · rintro rfl; exact .named p
    · intro h; cases h; rfl
  | .stateIn p, n => by
    simp only [guardNames, List.not_mem_nil, false_iff]
    intro h; cases h
  | .and cs, n => by
    rw [guardNames, mem_guardNamesL_iff cs n]
    constructor
    · rintro ⟨c, hc, hl⟩; exact .and hc hl
    · intro h; cases h with | and hc hl => exact ⟨_, hc, hl⟩
  | .or cs, n => by
    rw [guardNames, mem_guardNamesL_iff cs n]
    constructor
    · rintro ⟨c, hc, hl⟩; exact .or hc hl
    · intro h; cases h with | or hc hl => exact ⟨_, hc, hl⟩
  | .not c, n => by
    rw [guardNames, mem_guardNames_iff c n]
    constructor
    · intro h; exact .not h
    · intro h; cases h with | not hl => exact hl
theorem mem_guardNamesL_iff : ∀ (cs : List GuardExpr) (n : String), n ∈ guardNamesL cs ↔ ∃ c ∈ cs, NamedLeaf n c
  | [], n => by simp [guardNamesL]
  | c :: cs, n => by
    simp only [guardNamesL, List.mem_append, mem_guardNames_iff c n, mem_guardNamesL_iff cs n, List.mem_cons,
      exists_eq_or_imp]
end

theorem mem_defActions {d : StateDef} {n : String} :
    n ∈ defActions d ↔
      (∃ a ∈ mainActs d, a.type = n ∧ isSpawn n = false ∧ isBuiltin n = false)
      ∨ (∃ t ∈ invTrans d, ∃ a ∈ t.actions, a.type = n ∧ isSpawn n = false ∧ isBuiltin n = false) := by
  unfold defActions invActs
  simp only [List.mem_append, List.mem_map, List.mem_filter, List.mem_flatMap, Bool.and_eq_true, Bool.not_eq_true']
  constructor
  · rintro (⟨a, ⟨ha, h1, h2⟩, rfl⟩ | ⟨a, ⟨⟨t, ht, ha⟩, h1, h2⟩, rfl⟩)
    · exact Or.inl ⟨a, ha, rfl, h1, h2⟩
    · exact Or.inr ⟨t, ht, a, ha, rfl, h1, h2⟩
  · rintro (⟨a, ha, rfl, h1, h2⟩ | ⟨t, ht, a, ha, rfl, h1, h2⟩)
    · exact Or.inl ⟨a, ⟨ha, h1, h2⟩, rfl⟩
    · exact Or.inr ⟨a, ⟨⟨t, ht, ha⟩, h1, h2⟩, rfl⟩

theorem mem_defGuards {d : StateDef} {n : String} :
    n ∈ defGuards d ↔ ∃ t ∈ mainTrans d ++ invTrans d, ∃ g, t.guard = some g ∧ NamedLeaf n g := by
  unfold defGuards
  simp only [List.mem_flatMap]
  constructor
  · rintro ⟨t, ht, hn⟩
    unfold transGuardNames at hn
    split at hn
    · rename_i g hg
      exact ⟨t, ht, g, hg, (mem_guardNames_iff g n).mp hn⟩
    · cases hn
  · rintro ⟨t, ht, g, hg, hl⟩
    refine ⟨t, ht, ?_⟩
    unfold transGuardNames
    rw [hg]
    exact (mem_guardNames_iff g n).mpr hl

theorem mem_defServices {d : StateDef} {n : String} :
    n ∈ defServices d ↔
      (∃ a ∈ mainActs d, isSpawn a.type = true ∧ spawnKey a.type = n)
      ∨ (∃ i ∈ d.invoke, i.src = some n ∧ n ≠ "")
      ∨ (∃ t ∈ invTrans d, ∃ a ∈ t.actions, isSpawn a.type = true ∧ spawnKey a.type = n) := by
  unfold defServices invokeSrcs invActs
  simp only [List.mem_append, List.mem_map, List.mem_filter, List.mem_filterMap, List.mem_flatMap, or_assoc]
  constructor
  · rintro (⟨a, ⟨ha, hs⟩, rfl⟩ | ⟨i, hi, h⟩ | ⟨a, ⟨⟨t, ht, ha⟩, hs⟩, rfl⟩)
    · exact Or.inl ⟨a, ha, hs, rfl⟩
    · right; left
      refine ⟨i, hi, ?_⟩
      split at h
      · rename_i s hs
        split at h
        · cases h
        · rename_i hne
          cases h
          exact ⟨hs, hne⟩
      · cases h
    · exact Or.inr (Or.inr ⟨t, ht, a, ha, hs, rfl⟩)
  · rintro (⟨a, ha, hs, rfl⟩ | ⟨i, hi, hs, hne⟩ | ⟨t, ht, a, ha, hs, rfl⟩)
    · exact Or.inl ⟨a, ⟨ha, hs⟩, rfl⟩
    · right; left
      refine ⟨i, hi, ?_⟩
      simp [hs, hne]
    · exact Or.inr (Or.inr ⟨a, ⟨⟨t, ht, ha⟩, hs⟩, rfl⟩)

theorem mem_required_actions {m : Machine} {n : String} :
    n ∈ (required m).actions ↔ ∃ d ∈ subDefs m.root, n ∈ defActions d := by
  simp [required, List.mem_flatMap]
theorem mem_required_guards {m : Machine} {n : String} :
    n ∈ (required m).guards ↔ ∃ d ∈ subDefs m.root, n ∈ defGuards d := by
  simp [required, List.mem_flatMap]
theorem mem_required_services {m : Machine} {n : String} :
    n ∈ (required m).services ↔ ∃ d ∈ subDefs m.root, n ∈ defServices d := by
  simp [required, List.mem_flatMap]

/-! ## step 3 of discovery -/

theorem bindAll_ok {scan : List String} : ∀ {ns : List String} {bs : List (String × String)},
    bindAll scan ns = .ok bs → bs.map (·.1) = ns ∧ ∀ kv ∈ bs, lookupImpl scan kv.1 = some kv.2
  | [], bs, h => by
    simp [bindAll] at h
    subst h
    simp
  | n :: ns, bs, h => by
    unfold bindAll at h
    split at h
    · cases h
    · rename_i c hc
      split at h
      · cases h
      · rename_i bs' hbs
        cases h
        obtain ⟨h1, h2⟩ := bindAll_ok hbs
        refine ⟨by simp [h1], ?_⟩
        intro kv hkv
        rcases List.mem_cons.mp hkv with e | m
        · subst e; exact hc
        · exact h2 kv m

theorem bindAll_error_iff {scan : List String} : ∀ {ns : List String},
    (∃ e, bindAll scan ns = .error e) ↔ ∃ n ∈ ns, lookupImpl scan n = none
  | [] => by simp [bindAll]
  | n :: ns => by
    have ih := @bindAll_error_iff scan ns
    unfold bindAll
    cases hl : lookupImpl scan n with
    | none => simp [hl]
    | some c =>
      simp only [List.mem_cons, exists_eq_or_imp, hl, reduceCtorEq, false_or]
      rw [← ih]
      cases hb : bindAll scan ns with
      | error e => simp
      | ok bs => simp

theorem bindAll_error_mem {scan : List String} : ∀ {ns : List String} {e : String},
    bindAll scan ns = .error e → e ∈ ns ∧ lookupImpl scan e = none
  | [], e, h => by simp [bindAll] at h
  | n :: ns, e, h => by
    unfold bindAll at h
    split at h
    · rename_i hl
      cases h
      exact ⟨by simp, hl⟩
    · split at h
      · rename_i e' he
        cases h
        obtain ⟨h1, h2⟩ := bindAll_error_mem he
        exact ⟨List.mem_cons_of_mem _ h1, h2⟩
      · cases h

/-! ## the two compilers of a Python definition -/

mutual
theorem compileNode_congr (a1 a2 : Path → List PyTrans) : ∀ (n : PyNode) (pre : Path) (pp : Bool),
    (∀ p ∈ nodePaths pre n, a1 p = a2 p) → compileNode a1 pre pp n = compileNode a2 pre pp n
  | .mk s kids, pre, pp, h => by
    have hk := compileKids_congr a1 a2 kids (pre ++ [s.name]) s.parallel (fun p hp => h p (by simp [nodePaths, hp]))
    have h0 := h (pre ++ [s.name]) (by simp [nodePaths])
    simp only [compileNode, hk, h0]
theorem compileKids_congr (a1 a2 : Path → List PyTrans) : ∀ (ks : List PyNode) (pre : Path) (pp : Bool),
    (∀ p ∈ kidsPaths pre ks, a1 p = a2 p) → compileKids a1 pre pp ks = compileKids a2 pre pp ks
  | [], _, _, _ => by simp [compileKids]
  | n :: rest, pre, pp, h => by
    have h1 := compileNode_congr a1 a2 n pre pp (fun p hp => h p (by simp [kidsPaths, hp]))
    have h2 := compileKids_congr a1 a2 rest pre pp (fun p hp => h p (by simp [kidsPaths, hp]))
    simp only [compileKids, h1, h2]
end

theorem compileConfig_congr (a1 a2 : Path → List PyTrans) (ok1 ok2 : PyTrans → Bool) (d : PyDef)
    (ha : ∀ p ∈ d.paths, a1 p = a2 p) (hok : d.transitions.all ok1 = d.transitions.all ok2) :
    compileConfig a1 ok1 d = compileConfig a2 ok2 d := by
  unfold compileConfig
  rw [compileKids_congr a1 a2 d.states [] false ha, hok]

theorem inj_of_nodup_map {α β : Type} (f : α → β) : ∀ (l : List α), (l.map f).Nodup →
    ∀ a ∈ l, ∀ b ∈ l, f a = f b → a = b
  | [], _, a, ha, _, _, _ => by cases ha
  | x :: xs, h, a, ha, b, hb, e => by
    rw [List.map_cons, List.nodup_cons] at h
    obtain ⟨hx, hn⟩ := h
    rcases List.mem_cons.mp ha with rfl | ha'
    · rcases List.mem_cons.mp hb with rfl | hb'
      · rfl
      · exact absurd (List.mem_map.mpr ⟨b, hb', e.symm⟩) hx
    · rcases List.mem_cons.mp hb with rfl | hb'
      · exact absurd (List.mem_map.mpr ⟨a, ha', e⟩) hx
      · exact inj_of_nodup_map f xs hn a ha' b hb' e

/-- all State objects of the definition have pairwise different bare names -/
def UniqueNames (d : PyDef) : Prop := d.names.Nodup
/-- every `Transition` was declared on a State object that is part of the definition -/
def SourcesDeclared (d : PyDef) : Prop := ∀ t ∈ d.transitions, t.src ∈ d.paths

theorem att_agree (d : PyDef) (hu : UniqueNames d) (hs : SourcesDeclared d) :
    ∀ p ∈ d.paths, attByName d.transitions p = attByObj d.transitions p := by
  intro p hp
  unfold attByName attByObj
  apply List.filter_congr
  intro t ht
  have hinj := inj_of_nodup_map nameOf d.paths hu (t.src) (hs t ht) p hp
  by_cases e : t.src = p
  · simp [e]
  · have : nameOf t.src ≠ nameOf p := fun h => e (hinj h)
    simp [e, this]

theorem srcOk_agree (d : PyDef) (hs : SourcesDeclared d) :
    d.transitions.all (fun t => d.keys.contains (nameOf t.src)) = d.transitions.all (fun t => d.paths.contains t.src) := by
  have h1 : d.transitions.all (fun t => d.keys.contains (nameOf t.src)) = true := by
    rw [List.all_eq_true]
    intro t ht
    simp only [List.contains_eq_mem, decide_eq_true_eq, PyDef.keys, List.mem_append]
    left
    exact List.mem_map.mpr ⟨t.src, hs t ht, rfl⟩
  have h2 : d.transitions.all (fun t => d.paths.contains t.src) = true := by
    rw [List.all_eq_true]
    intro t ht
    simpa using hs t ht
  rw [h1, h2]

theorem compileImpl_eq_denote (d : PyDef) (hu : UniqueNames d) (hs : SourcesDeclared d) :
    compileImpl d = denote d :=
  compileConfig_congr _ _ _ _ d (att_agree d hu hs) (srcOk_agree d hs)

/-! projections used to state concrete (in)equalities of compiled configs (`J` has no `DecidableEq`) -/

/-- the config of the state at `path` (through the `states` objects) -/
def cfgAt : J → List String → Option J
  | j, [] => some j
  | j, k :: rest =>
    match j.get? "states" with
    | some ss => (match ss.get? k with | some c => cfgAt c rest | none => none)
    | none => none

/-- the event keys of the `on` object of the state at `path`, in order -/
def onKeysAt (r : Except String J) (path : List String) : List String :=
  match r with
  | .ok j => (match cfgAt j path with
              | some c => (objPairs ((c.get? "on").getD (.obj []))).map (·.1)
              | none => ["<no such state>"])
  | .error e => ["<error> " ++ e]

/-- how many transitions the state at `path` has for `ev` -/
def nTransAt (r : Except String J) (path : List String) (ev : String) : Nat :=
  match r with
  | .ok j => (match cfgAt j path with
              | some c => (match ((c.get? "on").getD (.obj [])).get? ev with
                           | some (.arr xs) => xs.length
                           | some _ => 1
                           | none => 0)
              | none => 0)
  | .error _ => 0

namespace Ex
/-- F17: top-level `a` (compound, children `idle`, `other`) and a top-level `idle`; `idle.to(a, event="GO")` is
    declared on the TOP-LEVEL `idle` -/
def f17 : PyDef :=
  { id := "m"
    states := [.mk { name := "a", initial := true } [.mk { name := "idle", initial := true } [], .mk { name := "other" } []],
               .mk { name := "idle" } []]
    transitions := [{ src := ["idle"], event := "GO", target := some ["a"] }] }

/-- the same definition with unique names -/
def f17ok : PyDef :=
  { f17 with states := [.mk { name := "a", initial := true } [.mk { name := "idle2", initial := true } [], .mk { name := "other" } []],
                        .mk { name := "idle" } []] }

/-- F19b: `State("a", on={"GO": "b"})` and `a.to(c, event="GO", guard="never")` -/
def overlap : PyDef :=
  { id := "m"
    states := [.mk { name := "a", initial := true, on := [("GO", .str "b")] } [], .mk { name := "b" } [], .mk { name := "c" } []]
    transitions := [{ src := ["a"], event := "GO", target := some ["c"], guard := some "never" }] }

/-- the builder given the same two declarations -/
def overlapB : BDef :=
  { id := "m"
    states := [("a", .obj [("on", .obj [("GO", .str "b")])]), ("b", .obj []), ("c", .obj [])]
    initial := some "a"
    transitions := [{ source := "a", event := "GO", target := .str "c", guard := some "never" }] }
end Ex

end XSM.Py
