import Xsm.Proofs.RootTarget
/-
From one transition to whole runs (async flavour; every send hook only enqueues).
-/
namespace XSM
open Spec

/-- the transition of a candidate is target-less / internal, or has a resolvable plain target
    (a state that is neither a history pseudo-state nor the root) -/
def CandPlain (m : Machine) (c : Cand) : Prop :=
  c.t.target = none ∨ c.t.target = some "" ∨
    (∃ tstr tgt nt, c.t.target = some tstr ∧ tstr ≠ "" ∧ resolveRobust m c.src tstr = some tgt ∧
      m.root.at tgt = some nt ∧ nt.kind ≠ .history ∧ tgt ≠ [])

/-- … or targets the machine root -/
def CandOK (m : Machine) (c : Cand) : Prop :=
  CandPlain m c ∨
    (∃ tstr, c.t.target = some tstr ∧ tstr ≠ "" ∧ resolveRobust m c.src tstr = some [] ∧
      m.root.kind ≠ .history)

/-- what selection must guarantee (discharged separately from `Select.lean`):
    sources are ancestors-or-self of active states, transitions are well-targeted -/
def SelSound (m : Machine) : Prop :=
  ∀ cfg env ev sel, Legal m.root cfg → selectTransitions m cfg env ev = .ok sel →
    ∀ c ∈ sel, CandOK m c ∧ ∃ q ∈ cfg, c.src <+: q

def SelSoundPlain (m : Machine) : Prop :=
  ∀ cfg env ev sel, Legal m.root cfg → selectTransitions m cfg env ev = .ok sel →
    ∀ c ∈ sel, CandPlain m c ∧ ∃ q ∈ cfg, c.src <+: q

theorem SelSoundPlain.toSelSound {m : Machine} (h : SelSoundPlain m) : SelSound m :=
  fun cfg env ev sel hl hs c hc => ⟨Or.inl (h cfg env ev sel hl hs c hc).1, (h cfg env ev sel hl hs c hc).2⟩

/-- one selected transition keeps the configuration legal — whether its actions succeed, raise or
    are missing (then it is rolled back) -/
theorem legal_microstep (h : Hooks) (hok : HooksOK h) (fl : Flavor) (m : Machine) (ev : Ev)
    (c : Cand) (s : St) (hwf : WF m.root) (hi : InitOK m.root)
    (hl : Legal m.root s.cfg) (hc : CandOK m c) (hsrc : c.src ∈ s.cfg) :
    Legal m.root (execute h fl m ev (planTransition m s.cfg s.hist c) s).cfg := by
  have internal_case : ∀ (as : List ActionRef),
      Legal m.root (execute h fl m ev { actions := as, internal := true } s).cfg := by
    intro as
    rw [execute_internal_cfg h hok fl m ev _ s rfl]; exact hl
  rcases hc with (hn | he | ⟨tstr, tgt, nt, ht, hne, hres, htgt, hnh, htne⟩) | ⟨tstr, ht, hne, hres, hk⟩
  · have : planTransition m s.cfg s.hist c = { actions := c.t.actions, internal := true } := by
      unfold planTransition; simp only [hn]
    rw [this]; exact internal_case _
  · have : planTransition m s.cfg s.hist c = { actions := c.t.actions, internal := true } := by
      unfold planTransition; simp only [he, if_true]
    rw [this]; exact internal_case _
  · by_cases hself : tgt = c.src ∧ c.t.reenter = false
    · have : planTransition m s.cfg s.hist c = { actions := c.t.actions, internal := true } := by
        unfold planTransition
        simp only [ht, hne, if_false, hres, hself.1, hself.2, Bool.not_false, Bool.and_true,
          decide_true, if_true]
      rw [this]; exact internal_case _
    · exact legal_microstep_plain h hok fl m ev c s hwf hi hl hsrc tstr ht hne tgt hres hself nt htgt hnh htne
  · by_cases hself : ([] : Path) = c.src ∧ c.t.reenter = false
    · have : planTransition m s.cfg s.hist c = { actions := c.t.actions, internal := true } := by
        unfold planTransition
        simp only [ht, hne, if_false, hres, hself.1, hself.2, Bool.not_false, Bool.and_true,
          decide_true, if_true]
      rw [this]; exact internal_case _
    · exact legal_microstep_root h hok fl m ev c s hwf hi hk hl tstr ht hne hres hself

theorem src_active {m : Machine} {cfg : List Path} (hL : Legal m.root cfg) {p q : Path}
    (hq : q ∈ cfg) (hp : p <+: q) : p ∈ cfg := prefix_closed hL.parent_active hp hq

theorem fail_cfg (s : St) (e : EErr) : (s.fail e).cfg = s.cfg := by
  unfold St.fail; split <;> rfl

theorem processEvent_inv (h : Hooks) (hok : HooksOK h) (fl : Flavor) (m : Machine) (u : UEnv) (ev : Ev)
    (hwf : WF m.root) (hi : InitOK m.root) (hsel : SelSound m) (s : St) (hl0 : Legal m.root s.cfg) :
    Legal m.root (processEvent h fl m u ev s).cfg := by
  unfold processEvent
  cases hs : selectTransitions m s.cfg (u.genv s.ctx ev.type) ev with
  | error e =>
    cases e with
    | missing n => simp only; rw [fail_cfg]; exact hl0
  | ok sel =>
    simp only
    have hall := hsel s.cfg (u.genv s.ctx ev.type) ev sel hl0 hs
    generalize hf : (fun (s : St) (c : Cand) =>
          if s.err.isSome then s
          else if finished s.status then s
          else if sel.length > 1 && !(s.cfg.contains c.src) then s
          else execute h fl m ev (planTransition m s.cfg s.hist c) s) = f
    -- fold invariant: legal; and with a single selected transition its source is still active
    have fold : ∀ (cs : List Cand) (s' : St), Legal m.root s'.cfg →
        (∀ c ∈ cs, CandOK m c) →
        (∀ c ∈ cs, ¬ sel.length > 1 → c.src ∈ s'.cfg) →
        (¬ sel.length > 1 → cs.length ≤ 1) →
        Legal m.root (cs.foldl f s').cfg := by
      intro cs
      induction cs with
      | nil => intro s' hl _ _ _; exact hl
      | cons c cs ih =>
        intro s' hl hok' hsrc hlen
        rw [List.foldl_cons]
        have htail : ¬ sel.length > 1 → cs = [] := by
          intro hgt
          have := hlen hgt
          cases cs with
          | nil => rfl
          | cons _ _ => simp at this
        by_cases herr : s'.err.isSome = true
        · have hfc : f s' c = s' := by rw [← hf]; simp only [herr, if_true]
          rw [hfc]
          by_cases hgt : sel.length > 1
          · exact ih s' hl (fun c' hc' => hok' c' (List.mem_cons_of_mem _ hc'))
              (fun c' _ hf' => absurd hgt hf') (fun hf' => absurd hgt hf')
          · rw [htail hgt]; exact hl
        · by_cases hfin : finished s'.status = true
          · have hfc : f s' c = s' := by rw [← hf]; simp only [herr, hfin, if_true]; simp
            rw [hfc]
            by_cases hgt : sel.length > 1
            · exact ih s' hl (fun c' hc' => hok' c' (List.mem_cons_of_mem _ hc'))
                (fun c' _ hf' => absurd hgt hf') (fun hf' => absurd hgt hf')
            · rw [htail hgt]; exact hl
          by_cases hgt : sel.length > 1
          · by_cases hcs : s'.cfg.contains c.src = true
            · have hmem : c.src ∈ s'.cfg := by simpa using hcs
              have hfc : f s' c = execute h fl m ev (planTransition m s'.cfg s'.hist c) s' := by
                rw [← hf]; simp [herr, hfin, hmem]
              rw [hfc]
              have hstep := legal_microstep h hok fl m ev c s' hwf hi hl (hok' c (by simp)) hmem
              exact ih _ hstep (fun c' hc' => hok' c' (List.mem_cons_of_mem _ hc'))
                (fun c' _ hf' => absurd hgt hf') (fun hf' => absurd hgt hf')
            · have hcs' : s'.cfg.contains c.src = false := by simpa using hcs
              have hnm : c.src ∉ s'.cfg := by simpa using hcs'
              have hfc : f s' c = s' := by
                rw [← hf]; simp [herr, hfin, hgt, hnm]
              rw [hfc]
              exact ih s' hl (fun c' hc' => hok' c' (List.mem_cons_of_mem _ hc'))
                (fun c' _ hf' => absurd hgt hf') (fun hf' => absurd hgt hf')
          · have hfc : f s' c = execute h fl m ev (planTransition m s'.cfg s'.hist c) s' := by
              rw [← hf]; simp [herr, hfin, hgt]
            rw [hfc, htail hgt]
            exact legal_microstep h hok fl m ev c s' hwf hi hl (hok' c (by simp)) (hsrc c (by simp) hgt)
    apply fold sel s hl0 (fun c hc => (hall c hc).1)
    · intro c hc _
      obtain ⟨q, hq, hp⟩ := (hall c hc).2
      exact src_active hl0 hq hp
    · intro hgt; omega

theorem transientLoop_inv (h : Hooks) (hok : HooksOK h) (fl : Flavor) (m : Machine) (u : UEnv)
    (hwf : WF m.root) (hi : InitOK m.root) (hsel : SelSound m) :
    ∀ (fuel : Nat) (s : St), Legal m.root s.cfg → Legal m.root (transientLoop h fl m u fuel s).cfg := by
  intro fuel
  induction fuel with
  | zero => intro s hl; exact hl
  | succ n ih =>
    intro s hl
    simp only [transientLoop]
    by_cases herr : s.err.isSome = true
    · simp only [herr, if_true]; exact hl
    · simp only [herr, Bool.false_eq_true, if_false]
      cases hs : selectTransitions m s.cfg (u.genv s.ctx "") (.user "") with
      | error e => cases e with | missing n => simp only; rw [fail_cfg]; exact hl
      | ok sel =>
        simp only
        split
        · exact ih _ (processEvent_inv h hok fl m u (.user "") hwf hi hsel s hl)
        · exact hl

-- ASYNC ------------------------------------------------------------------------------------------------
theorem asyncChainEnd_cfg (b : Nat) (s : St) : (asyncChainEnd b s).cfg = s.cfg := by
  unfold asyncChainEnd; split <;> rfl

theorem asyncProcess_inv (m : Machine) (u : UEnv) (e : Ev) (hwf : WF m.root) (hi : InitOK m.root)
    (hsel : SelSound m) (s : St) (hl : Legal m.root s.cfg) : Legal m.root (asyncProcess m u e s).cfg := by
  unfold asyncProcess
  have hl' : Legal m.root (emit ("#recv:" ++ e.type) s).cfg := hl
  have h1 := processEvent_inv (hooksAsync u m) (hooksAsync_ok u m) .async m u e hwf hi hsel _ hl'
  have h2 := transientLoop_inv (hooksAsync u m) (hooksAsync_ok u m) .async m u hwf hi hsel m.maxIterations _ h1
  simp only
  rw [asyncChainEnd_cfg]
  split <;> exact h2

theorem asyncStep_inv (m : Machine) (u : UEnv) (q : QEv) (hwf : WF m.root) (hi : InitOK m.root)
    (hsel : SelSound m) (s : St) (hl : Legal m.root s.cfg) : Legal m.root (asyncStep m u q s).cfg := by
  unfold asyncStep
  split
  · split
    · exact hl
    · exact asyncProcess_inv m u q.ev hwf hi hsel (asyncPurge s) hl
  · exact asyncProcess_inv m u q.ev hwf hi hsel s hl

theorem asyncDrain_inv (m : Machine) (u : UEnv) (hwf : WF m.root) (hi : InitOK m.root)
    (hsel : SelSound m) : ∀ (fuel : Nat) (s : St), Legal m.root s.cfg →
      Legal m.root (asyncDrain m u fuel s).cfg := by
  intro fuel
  induction fuel with
  | zero => intro s hl; simp only [asyncDrain]; split <;> exact hl
  | succ n ih =>
    intro s hl
    simp only [asyncDrain]
    split
    · exact hl
    · split
      · exact hl
      · rename_i q rest _
        exact ih _ (asyncStep_inv m u q hwf hi hsel { s with queue := rest } hl)

theorem asyncSend_inv (m : Machine) (u : UEnv) (e : Ev) (hwf : WF m.root) (hi : InitOK m.root)
    (hsel : SelSound m) (s : St) (hl : Legal m.root s.cfg) : Legal m.root (asyncSend m u e s).cfg := by
  unfold asyncSend
  split
  · exact asyncDrain_inv m u hwf hi hsel _ _ hl
  · exact hl

-- SYNC -------------------------------------------------------------------------------------------------
/-- one macrostep of the sync drain, as `drainLoop` spells it: `on_event_received`, `_process_event`, the
    eventless settling (`syncMacro` of `Xsm/Model/Lifecycle.lean` is this expression) -/
def drainMacro (m : Machine) (u : UEnv) (e : Ev) (s : St) : St :=
  transientLoop (hooksFlagged u m) .sync m u m.maxIterations
    (processEvent (hooksFlagged u m) .sync m u e (emit ("#recv:" ++ e.type) s))

theorem drainLoop_zero (m : Machine) (u : UEnv) (c : Nat) (s : St) :
    drainLoop m u 0 c s = if s.queue.isEmpty then s else { s with queue := [] } := by
  simp only [drainLoop]

theorem drainLoop_nil (m : Machine) (u : UEnv) (fuel c : Nat) (s : St) (hq : s.queue = []) :
    drainLoop m u (fuel + 1) c s = s := by
  cases s with
  | mk cfg hist queue status trace err ctx rd errors =>
    simp only at hq
    subst hq
    simp only [drainLoop]

theorem drainLoop_not_running (m : Machine) (u : UEnv) (fuel c : Nat) {s : St} (h : s.status ≠ "running") :
    drainLoop m u (fuel + 1) c s = if s.queue = [] then s else { s with queue := [] } := by
  simp only [drainLoop]
  split
  · rename_i hq; simp [hq]
  · rename_i q rest hq
    simp [h, hq]

/-- the cut: the head is marked and is the `maxIterations + 1`-st marked event dequeued since the counter
    was last at 0 — the marked entries are purged, the counter is reset, the loop goes on -/
theorem drainLoop_trip (m : Machine) (u : UEnv) (fuel c : Nat) (s : St) (q : QEv) (rest : List QEv)
    (hq : s.queue = q :: rest) (hrun : s.status = "running") (ht : syncTrips m c q = true) :
    drainLoop m u (fuel + 1) c s = drainLoop m u fuel 0 (syncPurge s) := by
  cases s with
  | mk cfg hist queue status trace err ctx rd errors =>
    simp only at hq hrun
    subst hq; subst hrun
    simp only [drainLoop, ne_eq, not_true_eq_false, if_false, ht, if_true]

/-- otherwise the head is dequeued and processed -/
theorem drainLoop_step (m : Machine) (u : UEnv) (fuel c : Nat) (s : St) (q : QEv) (rest : List QEv)
    (hq : s.queue = q :: rest) (hrun : s.status = "running") (ht : syncTrips m c q = false) :
    drainLoop m u (fuel + 1) c s =
      if (drainMacro m u q.ev { s with queue := rest }).err.isSome = true then drainMacro m u q.ev { s with queue := rest }
      else drainLoop m u fuel (chainedNext c q) (drainMacro m u q.ev { s with queue := rest }) := by
  cases s with
  | mk cfg hist queue status trace err ctx rd errors =>
    simp only at hq hrun
    subst hq; subst hrun
    simp only [drainLoop, drainMacro, ne_eq, not_true_eq_false, if_false, ht, Bool.false_eq_true]
    rfl

/-- the five ways one iteration of the drain can go -/
theorem drainLoop_cases (m : Machine) (u : UEnv) (P : Nat → Nat → St → Prop)
    (h0 : ∀ c s, P 0 c s)
    (hnil : ∀ fuel c s, s.queue = [] → P (fuel + 1) c s)
    (hdead : ∀ fuel c s, s.status ≠ "running" → P (fuel + 1) c s)
    (htrip : ∀ fuel c s q rest, s.queue = q :: rest → s.status = "running" → syncTrips m c q = true →
      P fuel 0 (syncPurge s) → P (fuel + 1) c s)
    (hstep : ∀ fuel c s q rest, s.queue = q :: rest → s.status = "running" → syncTrips m c q = false →
      ((drainMacro m u q.ev { s with queue := rest }).err.isSome = false →
        P fuel (chainedNext c q) (drainMacro m u q.ev { s with queue := rest })) → P (fuel + 1) c s) :
    ∀ fuel c s, P fuel c s := by
  intro fuel
  induction fuel with
  | zero => exact h0
  | succ n ih =>
    intro c s
    cases hq : s.queue with
    | nil => exact hnil n c s hq
    | cons q rest =>
      by_cases hrun : s.status = "running"
      · cases ht : syncTrips m c q with
        | true => exact htrip n c s q rest hq hrun ht (ih _ _)
        | false => exact hstep n c s q rest hq hrun ht (fun _ => ih _ _)
      · exact hdead n c s hrun

/-- **invariants of the drain**: a property of the state that survives every change of the queue alone and
    every macrostep survives the whole drain — whatever the fuel, the counter, cuts, errors -/
theorem drainLoop_ind (m : Machine) (u : UEnv) (P : St → Prop)
    (hqueue : ∀ s q, P s → P { s with queue := q })
    (hmacro : ∀ s e, P s → P (drainMacro m u e s)) :
    ∀ (fuel c : Nat) (s : St), P s → P (drainLoop m u fuel c s) := by
  apply drainLoop_cases m u (fun fuel c s => P s → P (drainLoop m u fuel c s))
  · intro c s hp; rw [drainLoop_zero]; split
    · exact hp
    · exact hqueue s [] hp
  · intro fuel c s hq hp; rw [drainLoop_nil m u fuel c s hq]; exact hp
  · intro fuel c s hr hp; rw [drainLoop_not_running m u fuel c hr]; split
    · exact hp
    · exact hqueue s [] hp
  · intro fuel c s q rest hq hr ht ih hp
    rw [drainLoop_trip m u fuel c s q rest hq hr ht]
    exact ih (hqueue s _ hp)
  · intro fuel c s q rest hq hr ht ih hp
    rw [drainLoop_step m u fuel c s q rest hq hr ht]
    have h2 := hmacro _ q.ev (hqueue s rest hp)
    split
    · exact h2
    · rename_i he
      exact ih (by simpa using he) h2

theorem drainLoop_inv (m : Machine) (u : UEnv) (hwf : WF m.root) (hi : InitOK m.root)
    (hsel : SelSound m) : ∀ (fuel c : Nat) (s : St), Legal m.root s.cfg →
      Legal m.root (drainLoop m u fuel c s).cfg := by
  apply drainLoop_ind m u (fun s => Legal m.root s.cfg)
  · intro s q hl; exact hl
  · intro s e hl
    have hl' : Legal m.root (emit ("#recv:" ++ e.type) s).cfg := hl
    have h1 := processEvent_inv (hooksFlagged u m) (hooksFlagged_ok u m) .sync m u e hwf hi hsel _ hl'
    exact transientLoop_inv (hooksFlagged u m) (hooksFlagged_ok u m) .sync m u hwf hi hsel
      m.maxIterations _ h1

theorem syncSend_inv (m : Machine) (u : UEnv) (e : Ev) (hwf : WF m.root) (hi : InitOK m.root)
    (hsel : SelSound m) (s : St) (hl : Legal m.root s.cfg) : Legal m.root (syncSend m u e s).cfg := by
  unfold syncSend sndUnflagged drainFlagged
  split
  · exact drainLoop_inv m u hwf hi hsel _ _ _ hl
  · exact hl

-- start ----------------------------------------------------------------------------------------------
theorem startEntries_eq (m : Machine) (hwf : WF m.root) (hi : InitOK m.root) :
    (startEntries m).2 = none ∧ (startEntries m).1.map (·.path) = enterDefault [] m.root := by
  unfold startEntries
  rw [dfltDescend_eq m [] m.root hwf hi]
  refine ⟨rfl, ?_⟩
  simp only [List.map_cons, List.map_map, tag, Function.comp_def, List.map_id']
  exact (enterDefault_cons [] m.root).symm

/-- the initial entry: if it raises no error, the configuration is the (legal) default descent -/
theorem initialEntry_legal (h : Hooks) (hok : HooksOK h) (fl : Flavor) (m : Machine) (ev : Option String)
    (hwf : WF m.root) (hi : InitOK m.root) (hk : m.root.kind ≠ .history) (s0 : St) (hc0 : s0.cfg = [])
    (hr : ((startEntries m).1.foldl (enterOne h fl m ev) s0).err = none) :
    Legal m.root ((startEntries m).1.foldl (enterOne h fl m ev) s0).cfg := by
  obtain ⟨_, hp⟩ := startEntries_eq m hwf hi
  have hv : ∀ e ∈ (startEntries m).1, (m.defAt e.path).isSome := by
    intro e hem
    have : e.path ∈ enterDefault [] m.root := by rw [← hp]; exact List.mem_map_of_mem hem
    obtain ⟨n, hn⟩ := enterDefault_at m.root [] m.root rfl hwf e.path this
    exact defAt_isSome_of_at hn
  obtain ⟨_, f2⟩ := enterFold_spec h hok fl m ev (startEntries m).1 s0 hv hr
  apply legal_enterDefault_root m.root hwf hk
  intro q
  rw [f2 q, hp, hc0]
  simp

/-- what a caller can observe after `start()`: either the library refused to start the machine
    (an error was raised: `err` is set) or the configuration is legal -/
def StartOK (m : Machine) (s : St) : Prop := s.err ≠ none ∨ Legal m.root s.cfg

/-- a run loop over an interpreter that is not running does nothing -/
theorem asyncDrain_of_not_running (m : Machine) (u : UEnv) (n : Nat) {s : St} (h : s.status ≠ "running") :
    asyncDrain m u n s = s := by
  cases n with
  | zero => simp [asyncDrain, h]
  | succ n => simp [asyncDrain, h]

/-- `asyncStart` in one piece: entry, settling, then the run loop (which does nothing unless the
    interpreter is still running — that is the `if self.status == "running": create_task(...)`) -/
theorem asyncStart_phases (m : Machine) (u : UEnv) (s : St) :
    asyncStart m u s =
      if (asyncStartEntered m u s).err.isSome then { asyncStartEntered m u s with status := "stopped" }
      else if (asyncStartSettled m u s).err.isSome then { asyncStartSettled m u s with status := "stopped" }
      else asyncDrain m u (asyncFuel m) (asyncStartSettled m u s) := by
  unfold asyncStart asyncStartSettle
  by_cases h1 : (asyncStartEntered m u s).err.isSome = true
  · simp only [h1, if_true]
    rw [if_neg (show ¬ ("stopped" : String) = "running" by decide)]
  · simp only [h1, Bool.false_eq_true, if_false]
    by_cases h2 : (asyncStartSettled m u s).err.isSome = true
    · simp only [h2, if_true]
      rw [if_neg (show ¬ ("stopped" : String) = "running" by decide)]
    · simp only [h2, Bool.false_eq_true, if_false]
      split
      · rfl
      · rename_i h; exact (asyncDrain_of_not_running m u _ h).symm

/-- the same with the two phases spelled out -/
theorem asyncStart_unfold (m : Machine) (u : UEnv) (s : St) :
    asyncStart m u s =
      (let s := { s with status := "running", ctx := m.ctx0 }
       let (es, e) := startEntries m
       let s := es.foldl (enterOne (hooksAsyncStart u m) .async m (some "___xstate_statemachine_init___")) s
       let s := match e with | some err => s.fail err | none => s
       if s.err.isSome then { s with status := "stopped" } else
       let s := transientLoop (hooksAsyncStart u m) .async m u m.maxIterations s
       if s.err.isSome then { s with status := "stopped" } else
       asyncDrain m u (asyncFuel m) s) := asyncStart_phases m u s

theorem asyncStart_ok (m : Machine) (u : UEnv) (hwf : WF m.root) (hi : InitOK m.root)
    (hk : m.root.kind ≠ .history) (hsel : SelSound m) : StartOK m (asyncStart m u {}) := by
  rw [asyncStart_unfold]
  obtain ⟨he, _⟩ := startEntries_eq m hwf hi
  simp only [he]
  generalize hs1 : (startEntries m).1.foldl
    (enterOne (hooksAsyncStart u m) .async m (some "___xstate_statemachine_init___"))
    { ({} : St) with status := "running", ctx := m.ctx0 } = s1
  cases h1 : s1.err with
  | some e => left; simp [h1]
  | none =>
    simp only [h1, Option.isSome_none, Bool.false_eq_true, if_false]
    have hl : Legal m.root s1.cfg := by
      rw [← hs1]
      exact initialEntry_legal _ (hooksAsyncStart_ok u m) .async m _ hwf hi hk _ rfl (by rw [hs1]; exact h1)
    have ht := transientLoop_inv (hooksAsyncStart u m) (hooksAsyncStart_ok u m) .async m u hwf hi hsel
      m.maxIterations _ hl
    split
    · rename_i herr
      left
      cases hh : (transientLoop (hooksAsyncStart u m) Flavor.async m u m.maxIterations s1).err with
      | none => simp [hh] at herr
      | some _ => simp [hh]
    · right; exact asyncDrain_inv m u hwf hi hsel _ _ ht

theorem syncStart_ok (m : Machine) (u : UEnv) (hwf : WF m.root) (hi : InitOK m.root)
    (hk : m.root.kind ≠ .history) (hsel : SelSound m) : StartOK m (syncStart m u {}) := by
  unfold syncStart
  obtain ⟨he, _⟩ := startEntries_eq m hwf hi
  simp only [he]
  generalize hs1 : (startEntries m).1.foldl (enterOne (hooksFlagged u m) .sync m none)
    { ({} : St) with status := "running", ctx := m.ctx0 } = s1
  cases h1 : s1.err with
  | some e => left; simp [h1]
  | none =>
    simp only [h1, Option.isSome_none, Bool.false_eq_true, if_false]
    have hl : Legal m.root s1.cfg := by
      rw [← hs1]
      exact initialEntry_legal _ (hooksFlagged_ok u m) .sync m _ hwf hi hk _ rfl (by rw [hs1]; exact h1)
    have ht := transientLoop_inv (hooksFlagged u m) (hooksFlagged_ok u m) .sync m u hwf hi hsel
      m.maxIterations _ hl
    split
    · rename_i herr
      left
      cases hh : (transientLoop (hooksFlagged u m) Flavor.sync m u m.maxIterations s1).err with
      | none => simp [hh] at herr
      | some _ => simp [hh]
    · right; exact drainLoop_inv m u hwf hi hsel _ _ _ ht

/-- a later command starts with the error flag cleared (the exception went to the caller / the log) -/
def cmd (fl : Flavor) (m : Machine) (u : UEnv) (s : St) (e : Ev) : St := send fl m u e { s with err := none }

theorem cmd_inv (fl : Flavor) (m : Machine) (u : UEnv) (e : Ev) (hwf : WF m.root) (hi : InitOK m.root)
    (hsel : SelSound m) (s : St) (hl : Legal m.root s.cfg) : Legal m.root (cmd fl m u s e).cfg := by
  unfold cmd send
  cases fl with
  | sync => exact syncSend_inv m u e hwf hi hsel _ hl
  | async => exact asyncSend_inv m u e hwf hi hsel _ hl

/-- **C01 for whole runs, both engines**: if `start()` did not refuse the machine, then after
    `start()` and after every one of any finite sequence of events (each observed when `send`
    returns / the queue has drained) the configuration is `Legal` — whatever user actions and guards
    do (succeed, raise, be missing). -/
theorem legal_run (fl : Flavor) (m : Machine) (u : UEnv) (hwf : WF m.root) (hi : InitOK m.root)
    (hk : m.root.kind ≠ .history) (hsel : SelSound m) (hstart : (start fl m u {}).err = none)
    (evs : List Ev) : Legal m.root (evs.foldl (cmd fl m u) (start fl m u {})).cfg := by
  have h0 : Legal m.root (start fl m u {}).cfg := by
    have : StartOK m (start fl m u {}) := by
      cases fl with
      | sync => exact syncStart_ok m u hwf hi hk hsel
      | async => exact asyncStart_ok m u hwf hi hk hsel
    rcases this with h | h
    · exact absurd hstart h
    · exact h
  generalize start fl m u {} = s0 at h0
  induction evs generalizing s0 with
  | nil => exact h0
  | cons e evs ih =>
    simp only [List.foldl_cons]
    exact ih _ (cmd_inv fl m u e hwf hi hsel s0 h0)

end XSM
