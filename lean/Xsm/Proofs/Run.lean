import Xsm.Proofs.Bridge
/-
From one transition to whole runs (async flavour; every send hook only enqueues).
-/
namespace XSM
open Spec

/-- the transition of a candidate is target-less / internal, or has a resolvable plain target -/
def CandOK (m : Machine) (c : Cand) : Prop :=
  c.t.target = none ∨ c.t.target = some "" ∨
    ∃ tstr tgt nt, c.t.target = some tstr ∧ tstr ≠ "" ∧ resolveRobust m c.src tstr = some tgt ∧
      m.root.at tgt = some nt ∧ nt.kind ≠ .history ∧ tgt ≠ []

/-- what selection must guarantee (discharged separately from `Select.lean`):
    sources are ancestors-or-self of active states, transitions are well-targeted -/
def SelSound (m : Machine) : Prop :=
  ∀ cfg env ev sel, Legal m.root cfg → selectTransitions m cfg env ev = .ok sel →
    ∀ c ∈ sel, CandOK m c ∧ ∃ q ∈ cfg, c.src <+: q

structure Inv (m : Machine) (s : St) : Prop where
  legal : Legal m.root s.cfg
  noerr : s.err = none

theorem legal_microstep (h : Hooks) (hok : HooksOK h) (fl : Flavor) (m : Machine) (ev : Ev)
    (c : Cand) (s : St) (hwf : WF m.root) (hi : InitOK m.root) (hinv : Inv m s)
    (hc : CandOK m c) (hsrc : c.src ∈ s.cfg) :
    Inv m (execute h fl m ev (planTransition m s.cfg s.hist c) s) := by
  have internal_case : ∀ (as : List ActionRef),
      Inv m (execute h fl m ev { actions := as, internal := true } s) := by
    intro as
    obtain ⟨h1, h2⟩ := execActions_cfg_err h hok ev.type as s
    refine ⟨?_, ?_⟩
    · rw [execute_cfg_eq]; unfold executeCore; simp only [if_true]; rw [h1]; exact hinv.legal
    · rw [execute_err_eq]; unfold executeCore; simp only [if_true]; rw [h2]; exact hinv.noerr
  rcases hc with hn | he | ⟨tstr, tgt, nt, ht, hne, hres, htgt, hnh, htne⟩
  · have : planTransition m s.cfg s.hist c = { actions := c.t.actions, internal := true } := by
      unfold planTransition; simp only [hn]
    rw [this]; exact internal_case _
  · have : planTransition m s.cfg s.hist c = { actions := c.t.actions, internal := true } := by
      unfold planTransition; simp only [he, if_true]
    rw [this]; exact internal_case _
  · by_cases hself : tgt = c.src ∧ c.t.reenter = false
    · have : planTransition m s.cfg s.hist c = { actions := c.t.actions, internal := true } := by
        unfold planTransition
        simp only [ht, hne, if_false, hres, hself.1, hself.2, Bool.not_false, Bool.and_true,
          beq_self_eq_true, decide_true, if_true]
      rw [this]; exact internal_case _
    · obtain ⟨h1, h2⟩ := legal_microstep_plain h hok fl m ev c s hwf hi hinv.legal hinv.noerr hsrc
        tstr ht hne tgt hres hself nt htgt hnh htne
      exact ⟨h2, h1⟩

theorem src_active {m : Machine} {cfg : List Path} (hL : Legal m.root cfg) {p q : Path}
    (hq : q ∈ cfg) (hp : p <+: q) : p ∈ cfg := prefix_closed hL.parent_active hp hq

theorem processEvent_inv (h : Hooks) (hok : HooksOK h) (fl : Flavor) (m : Machine) (env : GEnv) (ev : Ev)
    (hwf : WF m.root) (hi : InitOK m.root) (hsel : SelSound m) (s : St) (hinv : Inv m s) :
    Legal m.root (processEvent h fl m env ev s).cfg := by
  unfold processEvent
  cases hs : selectTransitions m s.cfg env ev with
  | error e =>
    cases e with
    | missing n => simp only [St.fail]; split <;> exact hinv.legal
  | ok sel =>
    simp only
    have hall := hsel s.cfg env ev sel hinv.legal hs
    -- general fold invariant: the configuration stays legal; when no error, every executed step
    -- sees its source active
    generalize hf : (fun (s : St) (c : Cand) =>
          if s.err.isSome then s
          else if sel.length > 1 && !(s.cfg.contains c.src) then s
          else execute h fl m ev (planTransition m s.cfg s.hist c) s) = f
    have fold : ∀ (cs : List Cand) (s' : St), Legal m.root s'.cfg →
        (∀ c ∈ cs, CandOK m c) →
        (∀ c ∈ cs, ¬ sel.length > 1 → s'.err = none → c.src ∈ s'.cfg) →
        (¬ sel.length > 1 → cs.length ≤ 1) →
        Legal m.root (cs.foldl f s').cfg := by
      intro cs
      induction cs with
      | nil => intro s' hl _ _ _; exact hl
      | cons c cs ih =>
        intro s' hl hok' hsrc hlen
        rw [List.foldl_cons]
        by_cases herr : s'.err.isSome = true
        · have hfc : f s' c = s' := by rw [← hf]; simp only [herr, if_true]
          rw [hfc]
          apply ih s' hl (fun c' hc' => hok' c' (List.mem_cons_of_mem _ hc'))
          · intro c' _ _ hnone; simp [hnone] at herr
          · intro hgt; have := hlen hgt; simp only [List.length_cons] at this; omega
        · have hnone : s'.err = none := by
            cases he : s'.err with
            | none => rfl
            | some _ => simp [he] at herr
          by_cases hgt : sel.length > 1
          · by_cases hcs : s'.cfg.contains c.src = true
            · have hmem : c.src ∈ s'.cfg := by simpa using hcs
              have hfc : f s' c = execute h fl m ev (planTransition m s'.cfg s'.hist c) s' := by
                rw [← hf]; simp [hnone, hmem]
              rw [hfc]
              have hstep := legal_microstep h hok fl m ev c s' hwf hi ⟨hl, hnone⟩ (hok' c (by simp)) hmem
              apply ih _ hstep.legal (fun c' hc' => hok' c' (List.mem_cons_of_mem _ hc'))
              · intro c' _ hf'; exact absurd hgt hf'
              · intro hf'; exact absurd hgt hf'
            · have hcs' : s'.cfg.contains c.src = false := by simpa using hcs
              have hnm : c.src ∉ s'.cfg := by simpa using hcs'
              have hfc : f s' c = s' := by
                rw [← hf]; simp [hnone, hgt, hnm]
              rw [hfc]
              apply ih s' hl (fun c' hc' => hok' c' (List.mem_cons_of_mem _ hc'))
              · intro c' _ hf'; exact absurd hgt hf'
              · intro hf'; exact absurd hgt hf'
          · have hfc : f s' c = execute h fl m ev (planTransition m s'.cfg s'.hist c) s' := by
              rw [← hf]; simp [hnone, hgt]
            rw [hfc]
            have hmem := hsrc c (by simp) hgt hnone
            have hstep := legal_microstep h hok fl m ev c s' hwf hi ⟨hl, hnone⟩ (hok' c (by simp)) hmem
            have hlen1 := hlen hgt
            have : cs = [] := by
              cases cs with
              | nil => rfl
              | cons _ _ => simp at hlen1
            subst this
            exact hstep.legal
    apply fold sel s hinv.legal (fun c hc => (hall c hc).1)
    · intro c hc _ _
      obtain ⟨q, hq, hp⟩ := (hall c hc).2
      exact src_active hinv.legal hq hp
    · intro hgt; omega


theorem fail_cfg (s : St) (e : EErr) : (s.fail e).cfg = s.cfg := by
  unfold St.fail; split <;> rfl

theorem transientLoop_inv (h : Hooks) (hok : HooksOK h) (fl : Flavor) (m : Machine) (env : GEnv)
    (hwf : WF m.root) (hi : InitOK m.root) (hsel : SelSound m) :
    ∀ (fuel : Nat) (s : St), Legal m.root s.cfg → Legal m.root (transientLoop h fl m env fuel s).cfg := by
  intro fuel
  induction fuel with
  | zero => intro s hl; exact hl
  | succ n ih =>
    intro s hl
    simp only [transientLoop]
    by_cases herr : s.err.isSome = true
    · simp only [herr, if_true]; exact hl
    · simp only [herr, Bool.false_eq_true, if_false]
      have hnone : s.err = none := by
        cases he : s.err with
        | none => rfl
        | some _ => simp [he] at herr
      cases hs : selectTransitions m s.cfg env (.user "") with
      | error e => cases e with | missing n => simp only; rw [fail_cfg]; exact hl
      | ok sel =>
        simp only
        split
        · exact ih _ (processEvent_inv h hok fl m env (.user "") hwf hi hsel s ⟨hl, hnone⟩)
        · exact hl

theorem asyncStep_inv (m : Machine) (env : GEnv) (e : Ev) (hwf : WF m.root) (hi : InitOK m.root)
    (hsel : SelSound m) (s : St) (hinv : Inv m s) : Inv m (asyncStep m env e s) := by
  unfold asyncStep
  split
  · exact ⟨hinv.legal, hinv.noerr⟩
  · have hinv' : Inv m (emit ("#recv:" ++ e.type) s) := ⟨hinv.legal, hinv.noerr⟩
    have h1 := processEvent_inv hooksAsync hooksAsync_ok .async m env e hwf hi hsel _ hinv'
    have h2 := transientLoop_inv hooksAsync hooksAsync_ok .async m env hwf hi hsel m.maxIterations _ h1
    simp only
    split
    · exact ⟨h2, rfl⟩
    · rename_i herr
      have hnone : (transientLoop hooksAsync Flavor.async m env m.maxIterations
          (processEvent hooksAsync Flavor.async m env e (emit ("#recv:" ++ e.type) s))).err = none := by
        cases he : (transientLoop hooksAsync Flavor.async m env m.maxIterations
          (processEvent hooksAsync Flavor.async m env e (emit ("#recv:" ++ e.type) s))).err with
        | none => rfl
        | some _ => simp [he] at herr
      split
      · exact ⟨h2, hnone⟩
      · exact ⟨h2, hnone⟩

theorem asyncDrain_inv (m : Machine) (env : GEnv) (hwf : WF m.root) (hi : InitOK m.root)
    (hsel : SelSound m) : ∀ (fuel : Nat) (s : St), Inv m s → Inv m (asyncDrain m env fuel s) := by
  intro fuel
  induction fuel with
  | zero =>
    intro s hinv
    simp only [asyncDrain]
    split
    · exact hinv
    · exact ⟨hinv.legal, hinv.noerr⟩
  | succ n ih =>
    intro s hinv
    simp only [asyncDrain]
    split
    · exact hinv
    · split
      · exact hinv
      · rename_i e rest _
        exact ih _ (asyncStep_inv m env e hwf hi hsel { s with queue := rest } ⟨hinv.legal, hinv.noerr⟩)

theorem asyncSend_inv (m : Machine) (env : GEnv) (e : Ev) (hwf : WF m.root) (hi : InitOK m.root)
    (hsel : SelSound m) (s : St) (hinv : Inv m s) : Inv m (asyncSend m env e s) := by
  unfold asyncSend
  split
  · exact asyncDrain_inv m env hwf hi hsel _ _ ⟨hinv.legal, hinv.noerr⟩
  · exact hinv

-- start ----------------------------------------------------------------------------------------------
theorem startEntries_eq (m : Machine) (hwf : WF m.root) (hi : InitOK m.root) :
    (startEntries m).2 = none ∧ (startEntries m).1.map (·.path) = enterDefault [] m.root := by
  unfold startEntries
  rw [dfltDescend_eq m [] m.root hwf hi]
  refine ⟨rfl, ?_⟩
  simp only [List.map_cons, List.map_map, tag, Function.comp_def, List.map_id']
  exact (enterDefault_cons [] m.root).symm

theorem legal_enterDefault_root (root : SNode) (hwf : WF root) (hk : root.kind ≠ .history)
    (c : List Path) (hc : ∀ q, q ∈ c ↔ q ∈ enterDefault [] root) : Legal root c := by
  apply legal_of_legalAt root hwf c
  · exact LegalAt_congr _ c [] root (fun q _ => (hc q).symm) (enterDefault_legal [] root hwf hk)
  · intro q hq
    exact enterDefault_at root [] root rfl hwf q ((hc q).1 hq)

/-- run invariant: the configuration is legal, and a running interpreter carries no pending error -/
structure RInv (m : Machine) (s : St) : Prop where
  legal : Legal m.root s.cfg
  ok : s.status = "running" → s.err = none

theorem asyncStart_inv (m : Machine) (env : GEnv) (hwf : WF m.root) (hi : InitOK m.root)
    (hk : m.root.kind ≠ .history) (hsel : SelSound m) :
    RInv m (asyncStart m env {}) := by
  unfold asyncStart
  obtain ⟨he, hp⟩ := startEntries_eq m hwf hi
  have hv : ∀ e ∈ (startEntries m).1, (m.defAt e.path).isSome := by
    intro e hem
    have : e.path ∈ enterDefault [] m.root := by rw [← hp]; exact List.mem_map_of_mem hem
    obtain ⟨n, hn⟩ := enterDefault_at m.root [] m.root rfl hwf e.path this
    exact defAt_isSome_of_at hn
  obtain ⟨f1, f2⟩ := enterFold_spec hooksFlagged hooksFlagged_ok .async m (some "___xstate_statemachine_init___")
    (startEntries m).1 { ({} : St) with status := "running" } rfl hv
  have hl : Legal m.root ((startEntries m).1.foldl
      (enterOne hooksFlagged .async m (some "___xstate_statemachine_init___")) { ({} : St) with status := "running" }).cfg := by
    apply legal_enterDefault_root m.root hwf hk
    intro q
    rw [f2 q, hp]
    simp
  simp only [he]
  simp only [f1, Option.isSome_none, Bool.false_eq_true, if_false]
  have ht := transientLoop_inv hooksFlagged hooksFlagged_ok .async m env hwf hi hsel m.maxIterations _ hl
  split
  · exact ⟨ht, fun hst => by simp at hst⟩
  · rename_i herr
    have hnone : (transientLoop hooksFlagged Flavor.async m env m.maxIterations
        ((startEntries m).1.foldl (enterOne hooksFlagged .async m (some "___xstate_statemachine_init___"))
          { ({} : St) with status := "running" })).err = none := by
      cases hh : (transientLoop hooksFlagged Flavor.async m env m.maxIterations
        ((startEntries m).1.foldl (enterOne hooksFlagged .async m (some "___xstate_statemachine_init___"))
          { ({} : St) with status := "running" })).err with
      | none => rfl
      | some _ => simp [hh] at herr
    have := asyncDrain_inv m env hwf hi hsel (asyncFuel m) _ ⟨ht, hnone⟩
    exact ⟨this.legal, fun _ => this.noerr⟩

theorem asyncSend_rinv (m : Machine) (env : GEnv) (e : Ev) (hwf : WF m.root) (hi : InitOK m.root)
    (hsel : SelSound m) (s : St) (hinv : RInv m s) : RInv m (asyncSend m env e s) := by
  by_cases hst : s.status = "running"
  · have := asyncSend_inv m env e hwf hi hsel s ⟨hinv.legal, hinv.ok hst⟩
    exact ⟨this.legal, fun _ => this.noerr⟩
  · unfold asyncSend
    simp only [hst, if_false]
    exact hinv

/-- **C01 for whole runs of the async model**: after `start()` and after every one of any finite
    sequence of events (each observed when the queue has drained), the configuration is `Legal`. -/
theorem legal_async_run (m : Machine) (env : GEnv) (hwf : WF m.root) (hi : InitOK m.root)
    (hk : m.root.kind ≠ .history) (hsel : SelSound m) (evs : List Ev) :
    RInv m (evs.foldl (fun s e => asyncSend m env e s) (asyncStart m env {})) := by
  have h0 := asyncStart_inv m env hwf hi hk hsel
  generalize asyncStart m env {} = s0 at h0
  induction evs generalizing s0 with
  | nil => exact h0
  | cons e evs ih => exact ih _ (asyncSend_rinv m env e hwf hi hsel s0 h0)

#print axioms legal_async_run
end XSM
