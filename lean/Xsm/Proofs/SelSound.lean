import Xsm.Proofs.Run
/-
Selection soundness: every selected candidate's source is an ancestor-or-self of an active leaf
and its transition is declared on that source. With a machine-level "targets are plain"
predicate this discharges `SelSound`.
-/
namespace XSM
open Spec

/-- all transitions declared on a state -/
def allTrans (d : StateDef) : List Trans :=
  d.on.flatMap (·.2) ++ (match d.onDone with | some t => [t] | none => []) ++
    d.after.flatMap (·.2) ++ d.invoke.flatMap (fun i => i.onDone ++ i.onError)

/-- candidate `c` is declared at its source -/
def Declared (m : Machine) (c : Cand) : Prop := ∃ d, m.defAt c.src = some d ∧ c.t ∈ allTrans d

theorem filterPassing_sound (m : Machine) (cfg : List Path) (env : GEnv) (src : Path) :
    ∀ (ts : List Trans) (c0 : GCache) (out : List Cand) (c1 : GCache),
      filterPassing m cfg env src ts c0 = .ok (out, c1) → ∀ c ∈ out, c.src = src ∧ c.t ∈ ts := by
  intro ts
  induction ts with
  | nil => intro c0 out c1 h; simp [filterPassing, pure, Except.pure] at h; obtain ⟨rfl, _⟩ := h; simp
  | cons t ts ih =>
    intro c0 out c1 h c hc
    simp only [filterPassing, bind, Except.bind] at h
    cases hp : passes m cfg env c0 t with
    | error e => simp [hp] at h
    | ok r =>
      obtain ⟨b, c0'⟩ := r
      simp only [hp] at h
      cases hr : filterPassing m cfg env src ts c0' with
      | error e => simp [hr] at h
      | ok r2 =>
        obtain ⟨rest, c2⟩ := r2
        simp only [hr, pure, Except.pure, Except.ok.injEq, Prod.mk.injEq] at h
        obtain ⟨rfl, _⟩ := h
        simp only [List.mem_append] at hc
        rcases hc with hc | hc
        · split at hc
          · simp at hc; subst hc; exact ⟨rfl, by simp⟩
          · simp at hc
        · obtain ⟨h1, h2⟩ := ih c0' rest c2 hr c hc
          exact ⟨h1, List.mem_cons_of_mem _ h2⟩


theorem walk_sound (m : Machine) (cfg : List Path) (env : GEnv) (src : Path) :
    ∀ (ts : List Trans) (c0 : GCache) (out : List Cand) (blk : Bool) (c1 : GCache),
      onCands.walk m cfg env src ts c0 = .ok (out, blk, c1) → ∀ c ∈ out, c.src = src ∧ c.t ∈ ts := by
  intro ts
  induction ts with
  | nil =>
    intro c0 out blk c1 h
    simp [onCands.walk, pure, Except.pure] at h
    obtain ⟨rfl, _⟩ := h; simp
  | cons t ts ih =>
    intro c0 out blk c1 h c hc
    simp only [onCands.walk] at h
    split at h
    · simp [pure, Except.pure] at h
      obtain ⟨rfl, _⟩ := h; simp at hc
    · simp only [bind, Except.bind] at h
      cases hp : passes m cfg env c0 t with
      | error e => simp [hp] at h
      | ok r =>
        obtain ⟨b, c0'⟩ := r
        simp only [hp] at h
        cases hr : onCands.walk m cfg env src ts c0' with
        | error e => simp [hr] at h
        | ok r2 =>
          obtain ⟨more, blk2, c2⟩ := r2
          simp only [hr, pure, Except.pure, Except.ok.injEq, Prod.mk.injEq] at h
          obtain ⟨rfl, _⟩ := h
          simp only [List.mem_append] at hc
          rcases hc with hc | hc
          · split at hc
            · simp at hc; subst hc; exact ⟨rfl, by simp⟩
            · simp at hc
          · obtain ⟨h1, h2⟩ := ih c0' more blk2 c2 hr c hc
            exact ⟨h1, List.mem_cons_of_mem _ h2⟩

theorem find_sub_flatMap (d : StateDef) (key : String) :
    ∀ t ∈ ((d.on.find? (fun kv => kv.1 = key)).map (·.2)).getD [], t ∈ d.on.flatMap (·.2) := by
  intro t ht
  cases hf : d.on.find? (fun kv => kv.1 = key) with
  | none => simp [hf] at ht
  | some kv =>
    simp only [hf, Option.map_some, Option.getD_some] at ht
    exact List.mem_flatMap.2 ⟨kv, List.mem_of_find?_eq_some hf, ht⟩

theorem onCands_sound (m : Machine) (cfg : List Path) (env : GEnv) (src : Path) (d : StateDef) (ev : Ev) :
    ∀ (keys : List String) (c0 : GCache) (out : List Cand) (blk : Bool) (c1 : GCache),
      onCands m cfg env src d ev keys c0 = .ok (out, blk, c1) →
        ∀ c ∈ out, c.src = src ∧ c.t ∈ d.on.flatMap (·.2) := by
  intro keys
  induction keys with
  | nil =>
    intro c0 out blk c1 h
    simp [onCands, pure, Except.pure] at h
    obtain ⟨rfl, _⟩ := h; simp
  | cons key keys ih =>
    intro c0 out blk c1 h c hc
    simp only [onCands, bind, Except.bind] at h
    cases hw : onCands.walk m cfg env src
        (((d.on.find? (fun kv => kv.1 = key)).map (·.2)).getD []) c0 with
    | error e => simp [hw] at h
    | ok r =>
      obtain ⟨here, blk1, c0'⟩ := r
      simp only [hw] at h
      have hhere := walk_sound m cfg env src _ c0 here blk1 c0' hw
      split at h
      · simp only [pure, Except.pure, Except.ok.injEq, Prod.mk.injEq] at h
        obtain ⟨rfl, _⟩ := h
        obtain ⟨h1, h2⟩ := hhere c hc
        exact ⟨h1, find_sub_flatMap d key _ h2⟩
      · cases hr : onCands m cfg env src d ev keys c0' with
        | error e => simp [hr] at h
        | ok r2 =>
          obtain ⟨more, blk2, c2⟩ := r2
          simp only [hr, pure, Except.pure, Except.ok.injEq, Prod.mk.injEq] at h
          obtain ⟨rfl, _⟩ := h
          simp only [List.mem_append] at hc
          rcases hc with hc | hc
          · obtain ⟨h1, h2⟩ := hhere c hc
            exact ⟨h1, find_sub_flatMap d key _ h2⟩
          · exact ih c0' more blk2 c2 hr c hc


/-- a producer only yields candidates with source `src` whose transition satisfies `P` -/
def ProdSound (src : Path) (P : Trans → Prop) (a : CProd) : Prop :=
  ∀ c0 out c1, a c0 = .ok (out, c1) → ∀ c ∈ out, c.src = src ∧ P c.t

theorem cNone_sound (src : Path) (P : Trans → Prop) : ProdSound src P cNone := by
  intro c0 out c1 h c hc
  simp only [cNone, Except.ok.injEq, Prod.mk.injEq] at h
  obtain ⟨rfl, _⟩ := h; simp at hc

theorem seqC_sound {src : Path} {P : Trans → Prop} {a b : CProd}
    (ha : ProdSound src P a) (hb : ProdSound src P b) : ProdSound src P (seqC a b) := by
  intro c0 out c1 h c hc
  simp only [seqC] at h
  cases hx : a c0 with
  | error e => simp [hx] at h
  | ok r =>
    obtain ⟨xs, c'⟩ := r
    simp only [hx] at h
    cases hy : b c' with
    | error e => simp [hy] at h
    | ok r2 =>
      obtain ⟨ys, c''⟩ := r2
      simp only [hy, Except.ok.injEq, Prod.mk.injEq] at h
      obtain ⟨rfl, _⟩ := h
      simp only [List.mem_append] at hc
      rcases hc with hc | hc
      · exact ha c0 xs c' hx c hc
      · exact hb c' ys c'' hy c hc

theorem filterPassing_prod (m : Machine) (cfg : List Path) (env : GEnv) (src : Path) (ts : List Trans)
    (P : Trans → Prop) (hP : ∀ t ∈ ts, P t) : ProdSound src P (filterPassing m cfg env src ts) := by
  intro c0 out c1 h c hc
  obtain ⟨h1, h2⟩ := filterPassing_sound m cfg env src ts c0 out c1 h c hc
  exact ⟨h1, hP _ h2⟩

theorem mem_allTrans_on {d : StateDef} {t : Trans} (h : t ∈ d.on.flatMap (·.2)) : t ∈ allTrans d := by
  simp only [allTrans, List.mem_append]; exact Or.inl (Or.inl (Or.inl h))

theorem nodeBuckets_sound (m : Machine) (cfg : List Path) (env : GEnv) (cur : Path) (d : StateDef) (ev : Ev)
    (b : Bool) : ProdSound cur (fun t => t ∈ allTrans d) (nodeBuckets m cfg env cur d ev b) := by
  unfold nodeBuckets
  simp only
  refine seqC_sound ?_ (seqC_sound ?_ (seqC_sound ?_ ?_))
  · split
    · exact filterPassing_prod m cfg env cur _ _ (fun t ht => mem_allTrans_on (find_sub_flatMap d "" t ht))
    · exact cNone_sound _ _
  · split
    · rename_i t hod
      split
      · apply filterPassing_prod
        intro t' ht'
        simp only [List.mem_singleton] at ht'
        subst ht'
        simp only [allTrans, List.mem_append, hod]
        exact Or.inl (Or.inl (Or.inr (by simp)))
      · exact cNone_sound _ _
    · exact cNone_sound _ _
  · split
    · apply filterPassing_prod
      intro t ht
      simp only [List.mem_filter] at ht
      simp only [allTrans, List.mem_append]
      exact Or.inl (Or.inr ht.1)
    · exact cNone_sound _ _
  · split
    · apply filterPassing_prod
      intro t ht
      simp only [List.mem_flatMap, List.mem_filter] at ht
      obtain ⟨i, ⟨hi, _⟩, ht2, _⟩ := ht
      simp only [allTrans, List.mem_append]
      exact Or.inr (List.mem_flatMap.2 ⟨i, hi, ht2⟩)
    · exact cNone_sound _ _

/-- everything the upward walk yields is declared at a state on the chain -/
theorem collectChain_sound (m : Machine) (cfg : List Path) (env : GEnv) (ev : Ev) (b1 b2 : Bool) :
    ∀ (chain : List Path) (c0 : GCache) (out : List Cand) (c1 : GCache),
      collectChain m cfg env ev b1 b2 chain c0 = .ok (out, c1) →
        ∀ c ∈ out, c.src ∈ chain ∧ Declared m c := by
  intro chain
  induction chain with
  | nil =>
    intro c0 out c1 h c hc
    simp only [collectChain, Except.ok.injEq, Prod.mk.injEq] at h
    obtain ⟨rfl, _⟩ := h; simp at hc
  | cons cur ups ih =>
    intro c0 out c1 h c hc
    simp only [collectChain] at h
    cases hd : m.defAt cur with
    | none =>
      simp only [hd, Except.ok.injEq, Prod.mk.injEq] at h
      obtain ⟨rfl, _⟩ := h; simp at hc
    | some d =>
      simp only [hd] at h
      -- the on-part
      have hon : ∀ (r : List Cand × Bool × GCache),
          (if b2 = true then (.ok ([], false, c0) : Except GErr (List Cand × Bool × GCache))
           else onCands m cfg env cur d ev (matchingDescriptors (d.on.map (·.1)) ev.type) c0) = .ok r →
          ∀ x ∈ r.1, x.src = cur ∧ x.t ∈ allTrans d := by
        intro r hr x hx
        split at hr
        · simp only [Except.ok.injEq] at hr; subst hr; simp at hx
        · obtain ⟨o, bl, cc⟩ := r
          obtain ⟨h1, h2⟩ := onCands_sound m cfg env cur d ev _ c0 o bl cc hr x hx
          exact ⟨h1, mem_allTrans_on h2⟩
      cases hx : (if b2 = true then (.ok ([], false, c0) : Except GErr (List Cand × Bool × GCache))
           else onCands m cfg env cur d ev (matchingDescriptors (d.on.map (·.1)) ev.type) c0) with
      | error e => simp [hx] at h
      | ok r =>
        obtain ⟨onC, blocked, c0'⟩ := r
        simp only [hx] at h
        have honC := hon _ hx
        have decl : ∀ x : Cand, x.src = cur → x.t ∈ allTrans d → x.src ∈ cur :: ups ∧ Declared m x := by
          intro x h1 h2
          exact ⟨by rw [h1]; simp, ⟨d, by rw [h1]; exact hd, h2⟩⟩
        split at h
        · simp only [Except.ok.injEq, Prod.mk.injEq] at h
          obtain ⟨rfl, _⟩ := h
          obtain ⟨h1, h2⟩ := honC c hc
          exact decl c h1 h2
        · cases hs : seqC (nodeBuckets m cfg env cur d ev b1) (collectChain m cfg env ev b1 b2 ups) c0' with
          | error e => simp [hs] at h
          | ok r2 =>
            obtain ⟨rest, c2⟩ := r2
            simp only [hs, Except.ok.injEq, Prod.mk.injEq] at h
            obtain ⟨rfl, _⟩ := h
            simp only [List.mem_append] at hc
            rcases hc with hc | hc
            · obtain ⟨h1, h2⟩ := honC c hc
              exact decl c h1 h2
            · -- from the buckets of this node or from further up
              simp only [seqC] at hs
              cases hb : nodeBuckets m cfg env cur d ev b1 c0' with
              | error e => simp [hb] at hs
              | ok rb =>
                obtain ⟨xs, cb⟩ := rb
                simp only [hb] at hs
                cases hu : collectChain m cfg env ev b1 b2 ups cb with
                | error e => simp [hu] at hs
                | ok ru =>
                  obtain ⟨ys, cu⟩ := ru
                  simp only [hu, Except.ok.injEq, Prod.mk.injEq] at hs
                  obtain ⟨rfl, _⟩ := hs
                  simp only [List.mem_append] at hc
                  rcases hc with hc | hc
                  · obtain ⟨h1, h2⟩ := nodeBuckets_sound m cfg env cur d ev b1 c0' xs cb hb c hc
                    exact decl c h1 h2
                  · obtain ⟨h1, h2⟩ := ih cb ys cu hu c hc
                    exact ⟨List.mem_cons_of_mem _ h1, h2⟩


theorem mem_chainUp {p q : Path} (h : q ∈ chainUp p) : q <+: p := by
  simp only [chainUp, List.mem_map, List.mem_range] at h
  obtain ⟨i, _, rfl⟩ := h
  exact List.take_prefix _ _

theorem firstMaxBy_mem (f : Cand → Nat) : ∀ (l : List Cand) (w : Cand), firstMaxBy f l = some w → w ∈ l := by
  intro l w h
  cases l with
  | nil => simp [firstMaxBy] at h
  | cons x xs =>
    simp only [firstMaxBy, Option.some.injEq] at h
    -- the fold result is x or some element of xs
    have : ∀ (ys : List Cand) (b : Cand), (ys.foldl (fun best y => if f y > f best then y else best) b) = b ∨
        (ys.foldl (fun best y => if f y > f best then y else best) b) ∈ ys := by
      intro ys
      induction ys with
      | nil => intro b; left; rfl
      | cons y ys ih =>
        intro b
        simp only [List.foldl_cons]
        by_cases hgt : f y > f b
        · simp only [hgt, if_true]
          rcases ih y with h1 | h1
          · right; rw [h1]; simp
          · right; exact List.mem_cons_of_mem _ h1
        · simp only [hgt, if_false]
          rcases ih b with h1 | h1
          · left; exact h1
          · right; exact List.mem_cons_of_mem _ h1
    rcases this xs x with h1 | h1
    · rw [h1] at h; subst h; simp
    · rw [h] at h1; exact List.mem_cons_of_mem _ h1

theorem selectLoop_sound (m : Machine) (cfg : List Path) (env : GEnv) (ev : Ev) :
    ∀ (leaves : List Path) (c0 : GCache) (acc sel : List Cand),
      selectLoop m cfg env ev leaves c0 acc = .ok sel →
        ∀ c ∈ sel, c ∈ acc ∨ (Declared m c ∧ ∃ leaf ∈ leaves, c.src <+: leaf) := by
  intro leaves
  induction leaves with
  | nil =>
    intro c0 acc sel h c hc
    simp only [selectLoop, Except.ok.injEq] at h
    subst h; exact Or.inl hc
  | cons leaf ls ih =>
    intro c0 acc sel h c hc
    simp only [selectLoop] at h
    cases hce : collectEligible m cfg env leaf ev c0 with
    | error e => simp [hce] at h
    | ok r =>
      obtain ⟨elig, c1⟩ := r
      simp only [hce] at h
      have lift : ∀ acc', selectLoop m cfg env ev ls c1 acc' = .ok sel →
          (∀ x ∈ acc', x ∈ acc ∨ (Declared m x ∧ ∃ l ∈ leaf :: ls, x.src <+: l)) →
          c ∈ acc ∨ (Declared m c ∧ ∃ l ∈ leaf :: ls, c.src <+: l) := by
        intro acc' h' hacc
        rcases ih c1 acc' sel h' c hc with h1 | ⟨h1, l, hl, hp⟩
        · exact hacc c h1
        · exact Or.inr ⟨h1, l, List.mem_cons_of_mem _ hl, hp⟩
      cases hw : firstMaxBy (fun x => x.src.length) elig with
      | none =>
        simp only [hw] at h
        exact lift acc h (fun x hx => Or.inl hx)
      | some w =>
        simp only [hw] at h
        split at h
        · exact lift acc h (fun x hx => Or.inl hx)
        · apply lift (acc ++ [w]) h
          intro x hx
          simp only [List.mem_append, List.mem_singleton] at hx
          rcases hx with hx | rfl
          · exact Or.inl hx
          · right
            have hwm := firstMaxBy_mem _ elig x hw
            simp only [collectEligible] at hce
            obtain ⟨h1, h2⟩ := collectChain_sound m cfg env ev _ _ (chainUp leaf) c0 elig c1 hce x hwm
            exact ⟨h2, leaf, by simp, mem_chainUp h1⟩

theorem mem_leavesSorted {m : Machine} {cfg : List Path} {p : Path} (h : p ∈ leavesSorted m cfg) : p ∈ cfg := by
  simp only [leavesSorted] at h
  rw [mem_sortBy] at h
  split at h
  · exact h
  · exact (List.mem_filter.1 h).1

/-- **selection soundness**: a selected transition is declared on its source, and its source is an
    ancestor-or-self of an active state -/
theorem selectTransitions_sound (m : Machine) (cfg : List Path) (env : GEnv) (ev : Ev) (sel : List Cand)
    (h : selectTransitions m cfg env ev = .ok sel) :
    ∀ c ∈ sel, Declared m c ∧ ∃ q ∈ cfg, c.src <+: q := by
  intro c hc
  simp only [selectTransitions] at h
  cases hl : selectLoop m cfg env ev (leavesSorted m cfg) [] [] with
  | error e => simp [hl] at h
  | ok sel0 =>
    simp only [hl, Except.ok.injEq] at h
    subst h
    rw [mem_sortBy] at hc
    rcases selectLoop_sound m cfg env ev _ [] [] sel0 hl c hc with h1 | ⟨h1, leaf, hleaf, hp⟩
    · simp at h1
    · exact ⟨h1, leaf, mem_leavesSorted hleaf, hp⟩

/-- machine-level hypothesis: every declared transition is target-less, has a resolvable plain target,
    or targets the root -/
def TargetsOK (m : Machine) : Prop :=
  ∀ (p : Path) (d : StateDef) (t : Trans), m.defAt p = some d → t ∈ allTrans d → CandOK m ⟨p, t⟩

/-- the stricter machine-level hypothesis: no transition targets the root either -/
def TargetsPlain (m : Machine) : Prop :=
  ∀ (p : Path) (d : StateDef) (t : Trans), m.defAt p = some d → t ∈ allTrans d → CandPlain m ⟨p, t⟩

theorem selSoundPlain_of_targetsPlain (m : Machine) (h : TargetsPlain m) : SelSoundPlain m := by
  intro cfg env ev sel _ hs c hc
  obtain ⟨⟨d, hd, ht⟩, hq⟩ := selectTransitions_sound m cfg env ev sel hs c hc
  exact ⟨h c.src d c.t hd ht, hq⟩

theorem selSound_of_targetsOK (m : Machine) (h : TargetsOK m) : SelSound m := by
  intro cfg env ev sel _ hs c hc
  obtain ⟨⟨d, hd, ht⟩, hq⟩ := selectTransitions_sound m cfg env ev sel hs c hc
  exact ⟨h c.src d c.t hd ht, hq⟩

/-- **C01 for whole runs of either engine model, from machine-level hypotheses only.** -/
theorem legal_run' (fl : Flavor) (m : Machine) (u : UEnv) (hwf : WF m.root) (hi : InitOK m.root)
    (hk : m.root.kind ≠ .history) (ht : TargetsOK m) (hstart : (start fl m u {}).err = none)
    (evs : List Ev) : Legal m.root (evs.foldl (cmd fl m u) (start fl m u {})).cfg :=
  legal_run fl m u hwf hi hk (selSound_of_targetsOK m ht) hstart evs

end XSM
