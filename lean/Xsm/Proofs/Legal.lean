import Xsm.Model.Spec
/-
C01 / C11 core, set level (ported from the design-round spike onto the prototype's own
`SNode` / `StateDef`).  Everything lives in `XSM.Spec`: these are the specification-level
functions (what is exited, what is entered) and their legality theorems; `Proofs/Bridge.lean`
relates the executable plan functions to them.
-/
namespace XSM
namespace Spec
-- legality ------------------------------------------------------------------
def Clear (c : List Path) (p : Path) (k : String) : Prop := ∀ q ∈ c, ¬ (p ++ [k]) <+: q

mutual
def LegalAt (c : List Path) (p : Path) : SNode → Prop
  | .mk d kids =>
    p ∈ c ∧ (match d.kind with
      | .compound => kids = [] ∨ OneKid c p kids
      | .parallel => AllKids c p kids
      | .history => False
      | _ => True)
def OneKid (c : List Path) (p : Path) : List (String × SNode) → Prop
  | [] => False
  | (k, n) :: rest => (LegalAt c (p ++ [k]) n ∧ ClearKids c p rest) ∨ (Clear c p k ∧ OneKid c p rest)
def ClearKids (c : List Path) (p : Path) : List (String × SNode) → Prop
  | [] => True
  | (k, _) :: rest => Clear c p k ∧ ClearKids c p rest
def AllKids (c : List Path) (p : Path) : List (String × SNode) → Prop
  | [] => True
  | (k, n) :: rest => (if n.kind = .history then Clear c p k else LegalAt c (p ++ [k]) n) ∧ AllKids c p rest
end

mutual
def WF : SNode → Prop
  | .mk d kids =>
    WFKids kids ∧ (kids.map (·.1)).Nodup ∧
    (match d.kind with
     | .compound => kids = [] ∨ ∃ k, d.initial = some k ∧ HasRealKid k kids
     | .parallel => True
     | _ => kids = [])
def WFKids : List (String × SNode) → Prop
  | [] => True
  | (_, n) :: rest => WF n ∧ WFKids rest
def HasRealKid (k : String) : List (String × SNode) → Prop
  | [] => False
  | (k', n) :: rest => (k' = k ∧ n.kind ≠ .history) ∨ (k' ≠ k ∧ HasRealKid k rest)
end

-- prefix facts ----------------------------------------------------------------
theorem prefix_snoc_disjoint {p q : Path} {k k' : String} (h : (p ++ [k']) <+: q) (hne : k ≠ k') :
    ¬ (p ++ [k]) <+: q := by
  intro h2
  obtain ⟨t, rfl⟩ := h
  obtain ⟨t2, h2⟩ := h2
  simp [List.append_assoc] at h2
  exact hne h2.1

theorem not_snoc_prefix_self (p : Path) (k : String) : ¬ (p ++ [k]) <+: p := by
  intro h
  have := h.length_le
  simp at this
  omega

theorem snoc_prefix_of_prefix (p : Path) (k : String) : p <+: p ++ [k] := List.prefix_append _ _

-- default descent facts -------------------------------------------------------
mutual
theorem enterDefault_prefix (path : Path) (n : SNode) : ∀ q ∈ enterDefault path n, path <+: q := by
  match n with
  | .mk d kids =>
    intro q hq
    simp only [enterDefault, List.mem_cons] at hq
    rcases hq with rfl | hq
    · exact List.prefix_refl _
    · cases hkd : d.kind <;> simp only [hkd] at hq
      · simp at hq
      · cases hi : d.initial <;> simp only [hi] at hq
        · simp at hq
        · obtain ⟨k', _, hp⟩ := enterInit_prefix path _ kids q hq
          exact List.IsPrefix.trans (List.prefix_append _ _) hp
      · obtain ⟨k', _, hp⟩ := enterRegions_prefix path kids q hq
        exact List.IsPrefix.trans (List.prefix_append _ _) hp
      · simp at hq
      · simp at hq
theorem enterInit_prefix (path : Path) (k : String) (ks : List (String × SNode)) :
    ∀ q ∈ enterInit path k ks, ∃ k' ∈ ks.map (·.1), (path ++ [k']) <+: q := by
  match ks with
  | [] => intro q hq; simp [enterInit] at hq
  | (k', c) :: rest =>
    intro q hq
    simp only [enterInit] at hq
    split at hq
    · exact ⟨k', by simp, enterDefault_prefix (path ++ [k']) c q hq⟩
    · obtain ⟨k'', hk, hp⟩ := enterInit_prefix path k rest q hq
      exact ⟨k'', by simp [hk], hp⟩
theorem enterRegions_prefix (p : Path) (ks : List (String × SNode)) :
    ∀ q ∈ enterRegions p ks, ∃ k ∈ ks.map (·.1), (p ++ [k]) <+: q := by
  match ks with
  | [] => intro q hq; simp [enterRegions] at hq
  | (k', c) :: rest =>
    intro q hq
    simp only [enterRegions, List.mem_append] at hq
    rcases hq with hq | hq
    · split at hq
      · simp at hq
      · exact ⟨k', by simp, enterDefault_prefix (p ++ [k']) c q hq⟩
    · obtain ⟨k'', hk, hp⟩ := enterRegions_prefix p rest q hq
      exact ⟨k'', by simp [hk], hp⟩
end

-- congruence --------------------------------------------------------------------
theorem Clear_congr (c c' : List Path) (p : Path) (k : String)
    (h : ∀ q, p <+: q → (q ∈ c ↔ q ∈ c')) : Clear c p k → Clear c' p k := by
  intro hc q hq hpre
  have hp : p <+: q := List.IsPrefix.trans (List.prefix_append _ _) hpre
  exact hc q ((h q hp).2 hq) hpre

mutual
theorem LegalAt_congr (c c' : List Path) (p : Path) (n : SNode)
    (h : ∀ q, p <+: q → (q ∈ c ↔ q ∈ c')) : LegalAt c p n → LegalAt c' p n := by
  match n with
  | .mk d kids =>
    intro hl
    simp only [LegalAt] at hl ⊢
    refine ⟨(h p (List.prefix_refl _)).1 hl.1, ?_⟩
    cases hkd : d.kind <;> simp only [hkd] at hl ⊢
    · rcases hl.2 with h0 | h1
      · exact Or.inl h0
      · exact Or.inr (OneKid_congr c c' p kids h h1)
    · exact AllKids_congr c c' p kids h hl.2
    · exact hl.2
theorem OneKid_congr (c c' : List Path) (p : Path) (ks : List (String × SNode))
    (h : ∀ q, p <+: q → (q ∈ c ↔ q ∈ c')) : OneKid c p ks → OneKid c' p ks := by
  match ks with
  | [] => intro hl; exact hl
  | (k, n) :: rest =>
    intro hl
    simp only [OneKid] at hl ⊢
    rcases hl with ⟨h1, h2⟩ | ⟨h1, h2⟩
    · left
      exact ⟨LegalAt_congr c c' (p ++ [k]) n (fun q hq => h q (List.IsPrefix.trans (List.prefix_append _ _) hq)) h1, ClearKids_congr c c' p rest h h2⟩
    · right
      exact ⟨Clear_congr c c' p k h h1, OneKid_congr c c' p rest h h2⟩
theorem ClearKids_congr (c c' : List Path) (p : Path) (ks : List (String × SNode))
    (h : ∀ q, p <+: q → (q ∈ c ↔ q ∈ c')) : ClearKids c p ks → ClearKids c' p ks := by
  match ks with
  | [] => intro _; trivial
  | (k, n) :: rest =>
    intro hl
    simp only [ClearKids] at hl ⊢
    exact ⟨Clear_congr c c' p k h hl.1, ClearKids_congr c c' p rest h hl.2⟩
theorem AllKids_congr (c c' : List Path) (p : Path) (ks : List (String × SNode))
    (h : ∀ q, p <+: q → (q ∈ c ↔ q ∈ c')) : AllKids c p ks → AllKids c' p ks := by
  match ks with
  | [] => intro _; trivial
  | (k, n) :: rest =>
    intro hl
    simp only [AllKids] at hl ⊢
    refine ⟨?_, AllKids_congr c c' p rest h hl.2⟩
    by_cases hk : n.kind = .history
    · have := hl.1; simp only [hk, if_true] at this ⊢; exact Clear_congr c c' p k h this
    · have := hl.1; simp only [hk, if_false] at this ⊢
      exact LegalAt_congr c c' (p ++ [k]) n (fun q hq => h q (List.IsPrefix.trans (List.prefix_append _ _) hq)) this
end

-- default descent is legal --------------------------------------------------------
theorem clearKids_of (p : Path) (k : String) (ks : List (String × SNode)) (c : List Path)
    (hk : k ∉ ks.map (·.1)) (hc : ∀ q ∈ c, q = p ∨ (p ++ [k]) <+: q) : ClearKids c p ks := by
  induction ks with
  | nil => trivial
  | cons hd rest ih =>
    obtain ⟨k', n⟩ := hd
    simp only [List.map_cons, List.mem_cons, not_or] at hk
    simp only [ClearKids]
    refine ⟨?_, ih hk.2⟩
    intro q hq hpre
    rcases hc q hq with h | h
    · rw [h] at hpre; exact not_snoc_prefix_self p k' hpre
    · exact prefix_snoc_disjoint h (Ne.symm hk.1) hpre

mutual
theorem enterDefault_legal (p : Path) (n : SNode) (hwf : WF n) (hk : n.kind ≠ .history) :
    LegalAt (enterDefault p n) p n := by
  match n with
  | .mk d kids =>
    simp only [WF] at hwf
    simp only [LegalAt, enterDefault]
    refine ⟨by simp, ?_⟩
    have hk' : d.kind ≠ .history := hk
    cases hkd : d.kind <;> simp only [hkd] at hwf ⊢
    · rcases hwf.2.2 with h0 | ⟨k, hi, hreal⟩
      · exact Or.inl h0
      · right
        simp only [hi]
        exact enterInit_oneKid p k kids hwf.1 hwf.2.1 hreal
    · exact enterRegions_allKids p kids [p] hwf.1 hwf.2.1 (by
        intro q hq k _; simp at hq; rw [hq]; exact not_snoc_prefix_self p k)
    · exact hk' hkd
theorem enterInit_oneKid (p : Path) (k : String) (ks : List (String × SNode))
    (hwf : WFKids ks) (hnd : (ks.map (·.1)).Nodup) (hreal : HasRealKid k ks) :
    OneKid (p :: enterInit p k ks) p ks := by
  match ks with
  | [] => simp [HasRealKid] at hreal
  | (k', c) :: rest =>
    simp only [WFKids] at hwf
    simp only [List.map_cons, List.nodup_cons] at hnd
    simp only [HasRealKid] at hreal
    simp only [OneKid, enterInit]
    rcases hreal with ⟨rfl, hck⟩ | ⟨hne, hrest⟩
    · left
      simp only [if_true]
      constructor
      · refine LegalAt_congr (enterDefault (p ++ [k']) c) _ _ c ?_ (enterDefault_legal (p ++ [k']) c hwf.1 hck)
        intro q hq
        simp only [List.mem_cons]
        constructor
        · intro h; exact Or.inr h
        · rintro (h | h)
          · rw [h] at hq; exact absurd hq (not_snoc_prefix_self p k')
          · exact h
      · exact clearKids_of p k' rest (p :: enterDefault (p ++ [k']) c) hnd.1 (by
          intro q hq
          simp only [List.mem_cons] at hq
          rcases hq with rfl | hq
          · exact Or.inl rfl
          · exact Or.inr (enterDefault_prefix _ _ q hq))
    · right
      simp only [hne, if_false]
      constructor
      · intro q hq hpre
        simp only [List.mem_cons] at hq
        rcases hq with hq | hq
        · rw [hq] at hpre; exact not_snoc_prefix_self p k' hpre
        · obtain ⟨k'', hk'', hp⟩ := enterInit_prefix p k rest q hq
          have : k' ≠ k'' := by
            intro h; subst h; exact hnd.1 (by simpa using hk'')
          exact prefix_snoc_disjoint hp this hpre
      · exact enterInit_oneKid p k rest hwf.2 hnd.2 hrest
theorem enterRegions_allKids (p : Path) (ks : List (String × SNode)) (pre : List Path)
    (hwf : WFKids ks) (hnd : (ks.map (·.1)).Nodup)
    (hpre : ∀ q ∈ pre, ∀ k ∈ ks.map (·.1), ¬ (p ++ [k]) <+: q) :
    AllKids (pre ++ enterRegions p ks) p ks := by
  match ks with
  | [] => trivial
  | (k, n) :: rest =>
    simp only [WFKids] at hwf
    simp only [List.map_cons, List.nodup_cons] at hnd
    simp only [AllKids, enterRegions]
    have hrestpre : ∀ q ∈ enterRegions p rest, ¬ (p ++ [k]) <+: q := by
      intro q hq hp
      obtain ⟨k'', hk'', hp''⟩ := enterRegions_prefix p rest q hq
      have : k ≠ k'' := by intro h; subst h; exact hnd.1 hk''
      exact prefix_snoc_disjoint hp'' this hp
    constructor
    · by_cases hh : n.kind = Kind.history
      · simp only [hh, if_true, List.nil_append]
        intro q hq hp
        simp only [List.mem_append] at hq
        rcases hq with hq | hq
        · exact hpre q hq k (by simp) hp
        · exact hrestpre q hq hp
      · simp only [hh, if_false]
        refine LegalAt_congr (enterDefault (p ++ [k]) n) _ _ n ?_ (enterDefault_legal (p ++ [k]) n hwf.1 hh)
        intro q hq
        simp only [List.mem_append]
        constructor
        · intro h; exact Or.inr (Or.inl h)
        · rintro (h | h | h)
          · exact absurd hq (hpre q h k (by simp))
          · exact h
          · exact absurd hq (hrestpre q h)
    · have := enterRegions_allKids p rest
        (pre ++ (if n.kind = Kind.history then [] else enterDefault (p ++ [k]) n)) hwf.2 hnd.2 (by
          intro q hq k' hk' hp
          simp only [List.mem_append] at hq
          rcases hq with hq | hq
          · exact hpre q hq k' (by simp [hk']) hp
          · split at hq
            · simp at hq
            · have h1 := enterDefault_prefix (p ++ [k]) n q hq
              have : k' ≠ k := by intro h; subst h; exact hnd.1 hk'
              exact prefix_snoc_disjoint h1 this hp)
      simpa [List.append_assoc] using this
end

-- selecting / replacing one kid -------------------------------------------------------
def keys (ks : List (String × SNode)) : List String := ks.map (·.1)

theorem mem_keys_cons {k k' : String} {n : SNode} {rest : List (String × SNode)} :
    k ∈ keys ((k', n) :: rest) ↔ k = k' ∨ k ∈ keys rest := by
  simp only [keys, List.map_cons, List.mem_cons]

theorem findKid_mem {k : String} {ks : List (String × SNode)} {c : SNode}
    (h : findKid k ks = some c) : k ∈ keys ks := by
  induction ks with
  | nil => simp [findKid] at h
  | cons hd rest ih =>
    obtain ⟨k', n⟩ := hd
    simp only [findKid] at h
    split at h
    · rename_i hk; simp [keys, hk]
    · have := ih h; simp [keys] at this ⊢; exact Or.inr this

theorem clearKids_iff (c : List Path) (p : Path) (ks : List (String × SNode)) :
    ClearKids c p ks ↔ ∀ k ∈ keys ks, Clear c p k := by
  induction ks with
  | nil => simp [ClearKids, keys]
  | cons hd rest ih =>
    obtain ⟨k', n⟩ := hd
    simp only [ClearKids, keys, List.map_cons, List.mem_cons, forall_eq_or_imp]
    simp only [keys] at ih
    rw [ih]

theorem oneKid_selected (c : List Path) (p : Path) (k : String) (child : SNode) :
    ∀ (ks : List (String × SNode)), (keys ks).Nodup → OneKid c p ks → findKid k ks = some child →
      (∃ q ∈ c, (p ++ [k]) <+: q) →
      LegalAt c (p ++ [k]) child ∧ (∀ k' ∈ keys ks, k' ≠ k → Clear c p k') := by
  intro ks
  induction ks with
  | nil => intro _ h; simp [OneKid] at h
  | cons hd rest ih =>
    obtain ⟨k', n⟩ := hd
    intro hnd hone hfind hact
    simp only [keys, List.map_cons, List.nodup_cons] at hnd
    simp only [OneKid] at hone
    simp only [findKid] at hfind
    by_cases hk : k' = k
    · subst hk
      simp only [if_true, Option.some.injEq] at hfind
      subst hfind
      rcases hone with ⟨hleg, hclr⟩ | ⟨hclr, _⟩
      · refine ⟨hleg, ?_⟩
        intro k'' hk'' hne
        simp only [keys, List.map_cons, List.mem_cons] at hk''
        rcases hk'' with rfl | hk''
        · exact absurd rfl hne
        · exact (clearKids_iff c p rest).1 hclr k'' hk''
      · obtain ⟨q, hq, hpre⟩ := hact
        exact absurd hpre (hclr q hq)
    · simp only [hk, if_false] at hfind
      rcases hone with ⟨hleg, hclr⟩ | ⟨hclr, hrest⟩
      · -- selected is k' ≠ k, but k is active: contradiction with ClearKids rest
        have hkmem := findKid_mem hfind
        have := (clearKids_iff c p rest).1 hclr k hkmem
        obtain ⟨q, hq, hpre⟩ := hact
        exact absurd hpre (this q hq)
      · obtain ⟨hl, hc⟩ := ih hnd.2 hrest hfind hact
        refine ⟨hl, ?_⟩
        intro k'' hk'' hne
        simp only [keys, List.map_cons, List.mem_cons] at hk''
        rcases hk'' with rfl | hk''
        · exact hclr
        · exact hc k'' hk'' hne

theorem oneKid_intro (c : List Path) (p : Path) (k : String) (child : SNode) :
    ∀ (ks : List (String × SNode)), (keys ks).Nodup → findKid k ks = some child →
      LegalAt c (p ++ [k]) child → (∀ k' ∈ keys ks, k' ≠ k → Clear c p k') → OneKid c p ks := by
  intro ks
  induction ks with
  | nil => intro _ h; simp [findKid] at h
  | cons hd rest ih =>
    obtain ⟨k', n⟩ := hd
    intro hnd hfind hleg hclr
    simp only [keys, List.map_cons, List.nodup_cons] at hnd
    simp only [OneKid]
    simp only [findKid] at hfind
    by_cases hk : k' = k
    · subst hk
      simp only [if_true, Option.some.injEq] at hfind
      subst hfind
      left
      refine ⟨hleg, (clearKids_iff c p rest).2 ?_⟩
      intro k'' hk''
      apply hclr k'' (mem_keys_cons.2 (Or.inr hk''))
      intro h; subst h; exact hnd.1 hk''
    · simp only [hk, if_false] at hfind
      right
      refine ⟨hclr k' (mem_keys_cons.2 (Or.inl rfl)) hk, ih hnd.2 hfind hleg ?_⟩
      intro k'' hk'' hne
      exact hclr k'' (mem_keys_cons.2 (Or.inr hk'')) hne

theorem allKids_get (c : List Path) (p : Path) (k : String) (child : SNode) :
    ∀ (ks : List (String × SNode)), AllKids c p ks → findKid k ks = some child →
      (if child.kind = .history then Clear c p k else LegalAt c (p ++ [k]) child) := by
  intro ks
  induction ks with
  | nil => intro _ h; simp [findKid] at h
  | cons hd rest ih =>
    obtain ⟨k', n⟩ := hd
    intro hall hfind
    simp only [AllKids] at hall
    simp only [findKid] at hfind
    by_cases hk : k' = k
    · subst hk
      simp only [if_true, Option.some.injEq] at hfind
      subst hfind
      exact hall.1
    · simp only [hk, if_false] at hfind
      exact ih hall.2 hfind

/-- replace the selection below kid `k`, keeping every other kid's subtree as it was -/
theorem allKids_replace (c c' : List Path) (p : Path) (k : String) (child : SNode) :
    ∀ (ks : List (String × SNode)), (keys ks).Nodup → AllKids c p ks → findKid k ks = some child →
      (if child.kind = .history then Clear c' p k else LegalAt c' (p ++ [k]) child) →
      (∀ k' ∈ keys ks, k' ≠ k → ∀ q, (p ++ [k']) <+: q → (q ∈ c ↔ q ∈ c')) →
      AllKids c' p ks := by
  intro ks
  induction ks with
  | nil => intro _ _ _ _ _; trivial
  | cons hd rest ih =>
    obtain ⟨k', n⟩ := hd
    intro hnd hall hfind hnew hagree
    simp only [keys, List.map_cons, List.nodup_cons] at hnd
    simp only [AllKids] at hall ⊢
    simp only [findKid] at hfind
    by_cases hk : k' = k
    · subst hk
      simp only [if_true, Option.some.injEq] at hfind
      subst hfind
      refine ⟨hnew, ?_⟩
      -- the rest: none of them is k'
      have : ∀ (ks' : List (String × SNode)), k' ∉ keys ks' → AllKids c p ks' →
          (∀ k'' ∈ keys ks', ∀ q, (p ++ [k'']) <+: q → (q ∈ c ↔ q ∈ c')) → AllKids c' p ks' := by
        intro ks'
        induction ks' with
        | nil => intro _ _ _; trivial
        | cons hd' rest' ih' =>
          obtain ⟨k2, n2⟩ := hd'
          intro hnot hall' hag
          simp only [keys, List.map_cons, List.mem_cons, not_or] at hnot
          simp only [AllKids] at hall' ⊢
          refine ⟨?_, ih' hnot.2 hall'.2 (fun k'' hk'' => hag k'' (mem_keys_cons.2 (Or.inr hk'')))⟩
          have hag2 := hag k2 (mem_keys_cons.2 (Or.inl rfl))
          by_cases hh : n2.kind = .history
          · simp only [hh, if_true] at hall' ⊢
            intro q hq hpre
            exact hall'.1 q ((hag2 q hpre).2 hq) hpre
          · simp only [hh, if_false] at hall' ⊢
            exact LegalAt_congr c c' (p ++ [k2]) n2 hag2 hall'.1
      apply this rest hnd.1 hall.2
      intro k'' hk'' q hq
      apply hagree k'' (mem_keys_cons.2 (Or.inr hk'')) _ q hq
      intro h; subst h; exact hnd.1 hk''
    · simp only [hk, if_false] at hfind
      refine ⟨?_, ih hnd.2 hall.2 hfind hnew (fun k'' hk'' => hagree k'' (mem_keys_cons.2 (Or.inr hk'')))⟩
      have hag2 := hagree k' (mem_keys_cons.2 (Or.inl rfl)) hk
      by_cases hh : n.kind = .history
      · simp only [hh, if_true] at hall ⊢
        intro q hq hpre
        exact hall.1 q ((hag2 q hpre).2 hq) hpre
      · simp only [hh, if_false] at hall ⊢
        exact LegalAt_congr c c' (p ++ [k']) n hag2 hall.1

theorem wfKids_find {k : String} {ks : List (String × SNode)} {c : SNode}
    (hwf : WFKids ks) (h : findKid k ks = some c) : WF c := by
  induction ks with
  | nil => simp [findKid] at h
  | cons hd rest ih =>
    obtain ⟨k', n⟩ := hd
    simp only [WFKids] at hwf
    simp only [findKid] at h
    split at h
    · simp only [Option.some.injEq] at h; subst h; exact hwf.1
    · exact ih hwf.2 h

theorem snoc_prefix_of_cons_prefix {p q rest : Path} {k : String}
    (h : (p ++ k :: rest) <+: q) : (p ++ [k]) <+: q := by
  have : p ++ k :: rest = (p ++ [k]) ++ rest := by simp
  rw [this] at h
  exact List.IsPrefix.trans (List.prefix_append _ _) h

/-- If the selection strictly below `p ++ rest` is replaced by a legal one and everything
    outside that subtree is unchanged, the whole configuration stays legal. -/
theorem replace_below (c c' : List Path) (nd : SNode) :
    ∀ (rest : Path) (n : SNode) (p : Path), WF n → LegalAt c p n → n.at rest = some nd →
      (p ++ rest) ∈ c → (∀ q, ¬ (p ++ rest) <+: q → (q ∈ c' ↔ q ∈ c)) →
      LegalAt c' (p ++ rest) nd → LegalAt c' p n := by
  intro rest
  induction rest with
  | nil =>
    intro n p _ _ hat _ _ hnew
    simp only [SNode.at, Option.some.injEq] at hat
    subst hat
    simpa using hnew
  | cons k rest' ih =>
    intro n p hwf hl hat hmem hag hnew
    match n with
    | .mk d kids =>
      simp only [SNode.at] at hat
      cases hf : findKid k kids with
      | none => simp [hf] at hat
      | some child =>
        simp only [hf] at hat
        simp only [WF] at hwf
        have hwfc : WF child := wfKids_find hwf.1 hf
        have hnd : (keys kids).Nodup := hwf.2.1
        have hassoc : p ++ k :: rest' = (p ++ [k]) ++ rest' := by simp
        -- p itself is unchanged
        have hp' : p ∈ c' := by
          apply (hag p ?_).2 hl.1
          intro h
          have := h.length_le
          simp at this
          omega
        -- agreement transfers to the subtree of other kids
        have hother : ∀ k', k' ≠ k → ∀ q, (p ++ [k']) <+: q → (q ∈ c' ↔ q ∈ c) := by
          intro k' hne q hq
          apply hag q
          intro h
          exact prefix_snoc_disjoint hq (Ne.symm hne) (snoc_prefix_of_cons_prefix h) |> fun x => x
        have hact : ∃ q ∈ c, (p ++ [k]) <+: q := ⟨_, hmem, by rw [hassoc]; exact List.prefix_append _ _⟩
        simp only [LegalAt] at hl ⊢
        refine ⟨hp', ?_⟩
        cases hkd : d.kind <;> simp only [hkd] at hl ⊢
        · -- compound
          rcases hl.2 with h0 | hone
          · subst h0; simp [findKid] at hf
          · right
            obtain ⟨hlegk, hclr⟩ := oneKid_selected c p k child kids hnd hone hf hact
            have hnewk : LegalAt c' (p ++ [k]) child := by
              apply ih child (p ++ [k]) hwfc hlegk hat
              · rw [← hassoc]; exact hmem
              · intro q hq; apply hag q; rw [hassoc]; exact hq
              · rw [← hassoc]; exact hnew
            apply oneKid_intro c' p k child kids hnd hf hnewk
            intro k' hk' hne q hq hpre
            exact hclr k' hk' hne q ((hother k' hne q hpre).1 hq) hpre
        · -- parallel
          have hget := allKids_get c p k child kids hl.2 hf
          by_cases hh : child.kind = .history
          · simp only [hh, if_true] at hget
            obtain ⟨q, hq, hpre⟩ := hact
            exact absurd hpre (hget q hq)
          · simp only [hh, if_false] at hget
            have hnewk : LegalAt c' (p ++ [k]) child := by
              apply ih child (p ++ [k]) hwfc hget hat
              · rw [← hassoc]; exact hmem
              · intro q hq; apply hag q; rw [hassoc]; exact hq
              · rw [← hassoc]; exact hnew
            apply allKids_replace c c' p k child kids hnd hl.2 hf
            · simp only [hh, if_false]; exact hnewk
            · intro k' _ hne q hq
              exact (hother k' hne q hq).symm
        · exact hl.2

-- induction principle over the rose tree ---------------------------------------------
mutual
theorem SNode.ind {P : SNode → Prop}
    (h : ∀ d kids, (∀ k c, (k, c) ∈ kids → P c) → P (.mk d kids)) : ∀ n, P n
  | .mk d kids => h d kids (SNode.indKids h kids)
theorem SNode.indKids {P : SNode → Prop}
    (h : ∀ d kids, (∀ k c, (k, c) ∈ kids → P c) → P (.mk d kids)) :
    ∀ (ks : List (String × SNode)) k c, (k, c) ∈ ks → P c
  | [], _, _, hm => by simp at hm
  | (k', c') :: rest, k, c, hm => by
    simp only [List.mem_cons, Prod.mk.injEq] at hm
    rcases hm with ⟨_, rfl⟩ | hm
    · exact SNode.ind h c
    · exact SNode.indKids h rest k c hm
end

theorem findKid_some_mem {k : String} {ks : List (String × SNode)} {c : SNode}
    (h : findKid k ks = some c) : (k, c) ∈ ks := by
  induction ks with
  | nil => simp [findKid] at h
  | cons hd rest ih =>
    obtain ⟨k', n⟩ := hd
    simp only [findKid] at h
    split at h
    · rename_i hk; simp only [Option.some.injEq] at h; subst h; subst hk; simp
    · exact List.mem_cons_of_mem _ (ih h)

theorem findKid_of_mem_nodup {k : String} {ks : List (String × SNode)} {c : SNode}
    (hnd : (keys ks).Nodup) (h : (k, c) ∈ ks) : findKid k ks = some c := by
  induction ks with
  | nil => simp at h
  | cons hd rest ih =>
    obtain ⟨k', n⟩ := hd
    simp only [keys, List.map_cons, List.nodup_cons] at hnd
    simp only [List.mem_cons, Prod.mk.injEq] at h
    simp only [findKid]
    rcases h with ⟨rfl, rfl⟩ | h
    · simp
    · have hne : k' ≠ k := by
        intro heq; subst heq
        exact hnd.1 (List.mem_map.2 ⟨(k', c), h, rfl⟩)
      simp only [hne, if_false]
      exact ih hnd.2 h

theorem at_append (root : SNode) (p q : Path) (n : SNode) (h : root.at p = some n) :
    root.at (p ++ q) = n.at q := by
  induction p generalizing root with
  | nil => simp only [SNode.at, Option.some.injEq] at h; subst h; simp
  | cons k p ih =>
    match root with
    | .mk d kids =>
      simp only [SNode.at, List.cons_append] at h ⊢
      cases hf : findKid k kids with
      | none => simp [hf] at h
      | some c => simp only [hf] at h ⊢; exact ih c h

theorem at_snoc (root : SNode) (p : Path) (d : StateDef) (kids : List (String × SNode)) (k : String)
    (h : root.at p = some (.mk d kids)) : root.at (p ++ [k]) = findKid k kids := by
  rw [at_append root p [k] _ h]
  simp only [SNode.at]
  cases findKid k kids <;> simp [SNode.at]

-- origin analysis of enterStates ---------------------------------------------------------
theorem mem_enterStates {root : SNode} {L : List Path} {q : Path} :
    q ∈ enterStates root L ↔ ∃ p ∈ L, q = p ∨ q ∈ extra root L p := by
  simp only [enterStates, List.mem_flatMap, List.mem_cons]

theorem hasExplicitChild_iff (L : List Path) (p : Path) :
    hasExplicitChild L p = true ↔ ∃ k, (p ++ [k]) ∈ L := by
  simp only [hasExplicitChild, List.any_eq_true, Bool.and_eq_true, bne_iff_ne, ne_eq,
    decide_eq_true_eq, beq_iff_eq]
  constructor
  · rintro ⟨q, hq, hne, hd⟩
    obtain ⟨k, hk⟩ : ∃ k, q = q.dropLast ++ [k] :=
      ⟨q.getLast hne, (List.dropLast_concat_getLast hne).symm⟩
    exact ⟨k, by rw [← hd, ← hk]; exact hq⟩
  · rintro ⟨k, hk⟩
    exact ⟨p ++ [k], hk, by simp, by simp⟩

theorem mem_regionsNotIn {L : List Path} {p q : Path} {ks : List (String × SNode)} :
    q ∈ regionsNotIn L p ks ↔
      ∃ k c, (k, c) ∈ ks ∧ c.kind ≠ .history ∧ (p ++ [k]) ∉ L ∧ q ∈ enterDefault (p ++ [k]) c := by
  induction ks with
  | nil => simp [regionsNotIn]
  | cons hd rest ih =>
    obtain ⟨k', c'⟩ := hd
    simp only [regionsNotIn, List.mem_append, ih]
    constructor
    · rintro (h | ⟨k, c, hm, h⟩)
      · by_cases hc : c'.kind = .history ∨ (p ++ [k']) ∈ L
        · simp [hc] at h
        · simp only [hc, if_false] at h
          simp only [not_or] at hc
          exact ⟨k', c', by simp, hc.1, hc.2, h⟩
      · exact ⟨k, c, List.mem_cons_of_mem _ hm, h⟩
    · rintro ⟨k, c, hm, hk, hL, hq⟩
      simp only [List.mem_cons, Prod.mk.injEq] at hm
      rcases hm with ⟨rfl, rfl⟩ | hm
      · left
        have : ¬ (c.kind = .history ∨ (p ++ [k]) ∈ L) := by simp [hk, hL]
        simp only [this, if_false]; exact hq
      · right; exact ⟨k, c, hm, hk, hL, hq⟩

/-- every extra path of `p` lies below a child of `p` that is not itself in `L` -/
theorem extra_below_nonmember {root : SNode} {L : List Path} {p q : Path}
    (h : q ∈ extra root L p) : ∃ k, (p ++ [k]) <+: q ∧ (p ++ [k]) ∉ L := by
  unfold extra at h
  cases hat : root.at p with
  | none => simp [hat] at h
  | some n =>
    match n with
    | .mk d kids =>
      simp only [hat] at h
      cases hkd : d.kind <;> simp only [hkd] at h
      · simp at h
      · by_cases he : hasExplicitChild L p = true
        · simp [he] at h
        · simp only [he] at h
          cases hi : d.initial with
          | none => simp [hi] at h
          | some k0 =>
            simp only [hi] at h
            obtain ⟨k', _, hp⟩ := enterInit_prefix p k0 kids q h
            refine ⟨k', hp, ?_⟩
            intro hin
            exact he ((hasExplicitChild_iff L p).2 ⟨k', hin⟩)
      · obtain ⟨k, c, _, _, hL, hq⟩ := mem_regionsNotIn.1 h
        exact ⟨k, enterDefault_prefix _ _ q hq, hL⟩
      · simp at h
      · simp at h

-- forest entry -----------------------------------------------------------------------------
theorem strict_prefix_snoc {a b : Path} (h : a <+: b) (hne : a ≠ b) : ∃ k, (a ++ [k]) <+: b := by
  obtain ⟨t, rfl⟩ := h
  cases t with
  | nil => simp at hne
  | cons k t => exact ⟨k, ⟨t, by simp⟩⟩

theorem snoc_prefix_inj {a q : Path} {j j' : String} (h1 : (a ++ [j]) <+: q) (h2 : (a ++ [j']) <+: q) :
    j = j' := by
  by_cases h : j = j'
  · exact h
  · exact absurd h1 (prefix_snoc_disjoint h2 h)

theorem prefix_snoc_of_prefix_snoc {a b : Path} {k : String} (h : (a ++ [k]) <+: b) : a <+: b :=
  List.IsPrefix.trans (List.prefix_append _ _) h

structure Forest (root : SNode) (L : List Path) : Prop where
  convex : ∀ a ∈ L, ∀ q ∈ L, a <+: q → ∀ p', a <+: p' → p' <+: q → p' ∈ L
  valid  : ∀ q ∈ L, ∃ n, root.at q = some n ∧ n.kind ≠ .history
  shape  : ∀ p ∈ L, kindAt root p = some .compound →
             ∀ k1 k2, (p ++ [k1]) ∈ L → (p ++ [k2]) ∈ L → k1 = k2

theorem origin_below {root : SNode} {L : List Path} (hF : Forest root L) {p q : Path}
    (hp : p ∈ L) (hq : q ∈ enterStates root L) (hpq : p <+: q) :
    q ∈ L ∨ q ∈ extra root L p ∨ ∃ k, (p ++ [k]) ∈ L ∧ (p ++ [k]) <+: q := by
  obtain ⟨p'', hp'', hor⟩ := mem_enterStates.1 hq
  rcases hor with rfl | hex
  · exact Or.inl hp''
  · obtain ⟨j, hj, hjL⟩ := extra_below_nonmember hex
    have hp''q : p'' <+: q := prefix_snoc_of_prefix_snoc hj
    rcases List.prefix_or_prefix_of_prefix hpq hp''q with h | h
    · -- p <+: p''
      by_cases heq : p = p''
      · subst heq; exact Or.inr (Or.inl hex)
      · obtain ⟨k, hk⟩ := strict_prefix_snoc h heq
        have hkL : (p ++ [k]) ∈ L :=
          hF.convex p hp p'' hp'' h (p ++ [k]) (List.prefix_append _ _) hk
        exact Or.inr (Or.inr ⟨k, hkL, List.IsPrefix.trans hk hp''q⟩)
    · -- p'' <+: p, strictly (else previous case)
      by_cases heq : p'' = p
      · subst heq; exact Or.inr (Or.inl hex)
      · obtain ⟨j', hj'⟩ := strict_prefix_snoc h heq
        have hj'L : (p'' ++ [j']) ∈ L :=
          hF.convex p'' hp'' p hp h (p'' ++ [j']) (List.prefix_append _ _) hj'
        have : j = j' := snoc_prefix_inj hj (List.IsPrefix.trans hj' hpq)
        subst this
        exact absurd hj'L hjL

theorem extra_compound_explicit {root : SNode} {L : List Path} {p : Path} {d : StateDef}
    {kids : List (String × SNode)} (hat : root.at p = some (.mk d kids)) (hk : d.kind = .compound)
    (he : ∃ k, (p ++ [k]) ∈ L) : extra root L p = [] := by
  unfold extra
  simp only [hat, hk, (hasExplicitChild_iff L p).2 he, if_true]

theorem extra_compound_default {root : SNode} {L : List Path} {p : Path} {d : StateDef}
    {kids : List (String × SNode)} (hat : root.at p = some (.mk d kids)) (hk : d.kind = .compound)
    (he : ¬ ∃ k, (p ++ [k]) ∈ L) :
    extra root L p = (match d.initial with | some k => enterInit p k kids | none => []) := by
  unfold extra
  have : ¬ hasExplicitChild L p = true := fun h => he ((hasExplicitChild_iff L p).1 h)
  simp only [hat, hk, this]
  rfl

theorem extra_parallel {root : SNode} {L : List Path} {p : Path} {d : StateDef}
    {kids : List (String × SNode)} (hat : root.at p = some (.mk d kids)) (hk : d.kind = .parallel) :
    extra root L p = regionsNotIn L p kids := by
  unfold extra
  simp only [hat, hk]

theorem allKids_of_forall (S : List Path) (p : Path) :
    ∀ (ks : List (String × SNode)),
      (∀ k c, (k, c) ∈ ks → (if c.kind = .history then Clear S p k else LegalAt S (p ++ [k]) c)) →
      AllKids S p ks := by
  intro ks
  induction ks with
  | nil => intro _; trivial
  | cons hd rest ih =>
    obtain ⟨k, c⟩ := hd
    intro h
    simp only [AllKids]
    exact ⟨h k c (by simp), ih (fun k' c' hm => h k' c' (List.mem_cons_of_mem _ hm))⟩

theorem kind_mk (d : StateDef) (kids : List (String × SNode)) : (SNode.mk d kids).kind = d.kind := rfl

theorem forest_entry (root : SNode) (L : List Path) (hF : Forest root L) (S : List Path) :
    ∀ n p, WF n → root.at p = some n → p ∈ L →
      (∀ q, p <+: q → (q ∈ S ↔ q ∈ enterStates root L)) → LegalAt S p n := by
  intro n
  induction n using SNode.ind with
  | h d kids ih =>
    intro p hwf hat hpL hS
    have hwf' := hwf
    simp only [WF] at hwf
    have hnd : (keys kids).Nodup := hwf.2.1
    have hpE : p ∈ enterStates root L := mem_enterStates.2 ⟨p, hpL, Or.inl rfl⟩
    have hpS : p ∈ S := (hS p (List.prefix_refl _)).2 hpE
    -- S-agreement restricted to a child subtree
    have hSkid : ∀ k q, (p ++ [k]) <+: q → (q ∈ S ↔ q ∈ enterStates root L) :=
      fun k q hq => hS q (prefix_snoc_of_prefix_snoc hq)
    simp only [LegalAt]
    refine ⟨hpS, ?_⟩
    cases hkd : d.kind <;> simp only [hkd]
    · -- compound
      by_cases hk0 : kids = []
      · exact Or.inl hk0
      · by_cases hE : ∃ k, (p ++ [k]) ∈ L
        · right
          obtain ⟨k, hkL⟩ := hE
          obtain ⟨kid, hkat, hkk⟩ := hF.valid _ hkL
          have hfind : findKid k kids = some kid := by rw [← at_snoc root p d kids k hat]; exact hkat
          have hmem := findKid_some_mem hfind
          have hleg : LegalAt S (p ++ [k]) kid :=
            ih k kid hmem (p ++ [k]) (wfKids_find hwf.1 hfind) hkat hkL (hSkid k)
          apply oneKid_intro S p k kid kids hnd hfind hleg
          intro k' _ hne q hqS hpre
          have hqE := (hSkid k' q hpre).1 hqS
          have hpq : p <+: q := prefix_snoc_of_prefix_snoc hpre
          have hshape := hF.shape p hpL (by simp [kindAt, hat, SNode.kind, SNode.d, hkd])
          rcases origin_below hF hpL hqE hpq with hqL | hqx | ⟨k2, hk2L, hk2q⟩
          · have : (p ++ [k']) ∈ L := hF.convex p hpL q hqL hpq _ (List.prefix_append _ _) hpre
            exact hne (hshape k' k this hkL)
          · rw [extra_compound_explicit hat hkd ⟨k, hkL⟩] at hqx; simp at hqx
          · have h1 : k2 = k := hshape k2 k hk2L hkL
            subst h1
            exact hne (snoc_prefix_inj hpre hk2q)
        · -- default descent
          have hiff : ∀ q, p <+: q → (q ∈ enterDefault p (.mk d kids) ↔ q ∈ S) := by
            intro q hpq
            rw [hS q hpq]
            have hx := extra_compound_default hat hkd hE
            constructor
            · intro hq
              simp only [enterDefault, hkd, List.mem_cons] at hq
              rcases hq with rfl | hq
              · exact hpE
              · exact mem_enterStates.2 ⟨p, hpL, Or.inr (by rw [hx]; exact hq)⟩
            · intro hqE
              simp only [enterDefault, hkd, List.mem_cons]
              rcases origin_below hF hpL hqE hpq with hqL | hqx | ⟨k2, hk2L, _⟩
              · by_cases heq : p = q
                · exact Or.inl heq.symm
                · obtain ⟨k, hk⟩ := strict_prefix_snoc hpq heq
                  exact absurd ⟨k, hF.convex p hpL q hqL hpq _ (List.prefix_append _ _) hk⟩ hE
              · rw [hx] at hqx; exact Or.inr hqx
              · exact absurd ⟨k2, hk2L⟩ hE
          have hknh : (SNode.mk d kids).kind ≠ .history := by rw [kind_mk, hkd]; simp
          have := LegalAt_congr _ S p _ hiff (enterDefault_legal p (.mk d kids) hwf' hknh)
          simp only [LegalAt, hkd] at this
          exact this.2
    · -- parallel
      apply allKids_of_forall
      intro k c hm
      have hfind : findKid k kids = some c := findKid_of_mem_nodup hnd hm
      have hkat : root.at (p ++ [k]) = some c := by rw [at_snoc root p d kids k hat]; exact hfind
      have hx := extra_parallel (L := L) hat hkd
      -- a member of E below p++[k] that is not explained by L must come from region k itself
      have hregion : ∀ q, q ∈ extra root L p → (p ++ [k]) <+: q →
          c.kind ≠ .history ∧ (p ++ [k]) ∉ L ∧ q ∈ enterDefault (p ++ [k]) c := by
        intro q hqx hpre
        rw [hx] at hqx
        obtain ⟨k2, c2, hm2, hc2, hL2, hq2⟩ := mem_regionsNotIn.1 hqx
        have : k2 = k := snoc_prefix_inj (enterDefault_prefix _ _ q hq2) hpre
        subst this
        have : c2 = c := by
          have := findKid_of_mem_nodup hnd hm2
          rw [hfind] at this; exact (Option.some.inj this).symm
        subst this
        exact ⟨hc2, hL2, hq2⟩
      have hkidvalid : (p ++ [k]) ∈ L → c.kind ≠ .history := by
        intro hkL
        obtain ⟨n', hn', hk'⟩ := hF.valid _ hkL
        rw [hkat] at hn'; cases hn'; exact hk'
      by_cases hh : c.kind = .history
      · simp only [hh, if_true]
        intro q hqS hpre
        have hpq : p <+: q := prefix_snoc_of_prefix_snoc hpre
        have hqE := (hS q hpq).1 hqS
        rcases origin_below hF hpL hqE hpq with hqL | hqx | ⟨k2, hk2L, hk2q⟩
        · exact hkidvalid (hF.convex p hpL q hqL hpq _ (List.prefix_append _ _) hpre) hh
        · exact (hregion q hqx hpre).1 hh
        · have : k2 = k := snoc_prefix_inj hk2q hpre
          subst this; exact hkidvalid hk2L hh
      · simp only [hh, if_false]
        by_cases hkL : (p ++ [k]) ∈ L
        · exact ih k c hm (p ++ [k]) (wfKids_find hwf.1 hfind) hkat hkL (hSkid k)
        · have hiff : ∀ q, (p ++ [k]) <+: q → (q ∈ enterDefault (p ++ [k]) c ↔ q ∈ S) := by
            intro q hpre
            have hpq : p <+: q := prefix_snoc_of_prefix_snoc hpre
            rw [hS q hpq]
            constructor
            · intro hq
              refine mem_enterStates.2 ⟨p, hpL, Or.inr ?_⟩
              rw [hx]
              exact mem_regionsNotIn.2 ⟨k, c, hm, hh, hkL, hq⟩
            · intro hqE
              rcases origin_below hF hpL hqE hpq with hqL | hqx | ⟨k2, hk2L, hk2q⟩
              · exact absurd (hF.convex p hpL q hqL hpq _ (List.prefix_append _ _) hpre) hkL
              · exact (hregion q hqx hpre).2.2
              · have : k2 = k := snoc_prefix_inj hk2q hpre
                subst this; exact absurd hk2L hkL
          exact LegalAt_congr _ S (p ++ [k]) c hiff
            (enterDefault_legal (p ++ [k]) c (wfKids_find hwf.1 hfind) hh)
    · -- history node in L: excluded by validity
      obtain ⟨n', hn', hk'⟩ := hF.valid p hpL
      rw [hat] at hn'; cases hn'
      exact hk' (by rw [kind_mk]; exact hkd)

-- sub-node facts ---------------------------------------------------------------------------
theorem wf_at {root : SNode} (hwf : WF root) : ∀ (p : Path) (n : SNode), root.at p = some n → WF n := by
  intro p
  induction p generalizing root with
  | nil => intro n h; simp only [SNode.at, Option.some.injEq] at h; subst h; exact hwf
  | cons k p ih =>
    intro n h
    match root with
    | .mk d kids =>
      simp only [SNode.at] at h
      cases hf : findKid k kids with
      | none => simp [hf] at h
      | some c =>
        simp only [hf] at h
        simp only [WF] at hwf
        exact ih (wfKids_find hwf.1 hf) n h

theorem at_prefix_some {root : SNode} {p q : Path} {n : SNode} (h : root.at (p ++ q) = some n) :
    ∃ n', root.at p = some n' := by
  induction p generalizing root with
  | nil => exact ⟨root, rfl⟩
  | cons k p ih =>
    match root with
    | .mk d kids =>
      simp only [List.cons_append, SNode.at] at h ⊢
      cases hf : findKid k kids with
      | none => simp [hf] at h
      | some c => simp only [hf] at h ⊢; exact ih h

/-- a node with a valid child path below it has kids, so under WF it is compound or parallel -/
theorem kind_of_has_kid {n : SNode} (hwf : WF n) {k : String} {c : SNode}
    (h : n.at [k] = some c) : n.kind = .compound ∨ n.kind = .parallel := by
  match n with
  | .mk d kids =>
    simp only [SNode.at] at h
    cases hf : findKid k kids with
    | none => simp [hf] at h
    | some c' =>
      simp only [WF] at hwf
      rw [kind_mk]
      cases hkd : d.kind <;> simp only [hkd] at hwf
      · have := hwf.2.2; subst this; simp [findKid] at hf
      · exact Or.inl rfl
      · exact Or.inr rfl
      · have := hwf.2.2; subst this; simp [findKid] at hf
      · have := hwf.2.2; subst this; simp [findKid] at hf

theorem legalAt_sub (c : List Path) (nd : SNode) :
    ∀ (rest : Path) (n : SNode) (p : Path), WF n → LegalAt c p n → n.at rest = some nd →
      (∃ q ∈ c, (p ++ rest) <+: q) → LegalAt c (p ++ rest) nd := by
  intro rest
  induction rest with
  | nil =>
    intro n p _ hl hat _
    simp only [SNode.at, Option.some.injEq] at hat
    subst hat; simpa using hl
  | cons k rest' ih =>
    intro n p hwf hl hat hact
    match n with
    | .mk d kids =>
      simp only [SNode.at] at hat
      cases hf : findKid k kids with
      | none => simp [hf] at hat
      | some child =>
        simp only [hf] at hat
        have hwf' := hwf
        simp only [WF] at hwf
        have hwfc : WF child := wfKids_find hwf.1 hf
        have hnd : (keys kids).Nodup := hwf.2.1
        have hassoc : p ++ k :: rest' = (p ++ [k]) ++ rest' := by simp
        have hact' : ∃ q ∈ c, (p ++ [k]) <+: q := by
          obtain ⟨q, hq, hpre⟩ := hact
          exact ⟨q, hq, snoc_prefix_of_cons_prefix hpre⟩
        have hact'' : ∃ q ∈ c, ((p ++ [k]) ++ rest') <+: q := by rw [← hassoc]; exact hact
        simp only [LegalAt] at hl
        rw [hassoc]
        cases hkd : d.kind <;> simp only [hkd] at hl hwf
        · have := hwf.2.2; subst this; simp [findKid] at hf
        · rcases hl.2 with h0 | hone
          · subst h0; simp [findKid] at hf
          · exact ih child (p ++ [k]) hwfc (oneKid_selected c p k child kids hnd hone hf hact').1 hat hact''
        · have hget := allKids_get c p k child kids hl.2 hf
          by_cases hh : child.kind = .history
          · simp only [hh, if_true] at hget
            obtain ⟨q, hq, hpre⟩ := hact'
            exact absurd hpre (hget q hq)
          · simp only [hh, if_false] at hget
            exact ih child (p ++ [k]) hwfc hget hat hact''
        · have := hwf.2.2; subst this; simp [findKid] at hf
        · exact absurd hl.2 (by simp)

-- domain facts --------------------------------------------------------------------------------
theorem lcp_prefix_left : ∀ (a b : Path), lcp a b <+: a
  | [], _ => by simp [lcp]
  | _ :: _, [] => by simp [lcp]
  | x :: as, y :: bs => by
    simp only [lcp]
    split
    · exact (List.prefix_cons_inj x).2 (lcp_prefix_left as bs)
    · exact List.nil_prefix
theorem lcp_prefix_right : ∀ (a b : Path), lcp a b <+: b
  | [], _ => by simp [lcp]
  | _ :: _, [] => by simp [lcp]
  | x :: as, y :: bs => by
    simp only [lcp]
    split
    · rename_i h; subst h; exact (List.prefix_cons_inj x).2 (lcp_prefix_right as bs)
    · exact List.nil_prefix
theorem lcp_eq_right_imp : ∀ (a b : Path), lcp a b = b → b <+: a
  | [], b => by intro h; simp [lcp] at h; subst h; exact List.prefix_refl _
  | _ :: _, [] => by intro _; exact List.nil_prefix
  | x :: as, y :: bs => by
    simp only [lcp]
    split
    · rename_i h; subst h
      intro h
      simp only [List.cons.injEq, true_and] at h
      exact (List.prefix_cons_inj x).2 (lcp_eq_right_imp as bs h)
    · intro h; simp at h

theorem dropLast_prefix (p : Path) : p.dropLast <+: p := List.dropLast_prefix p
theorem dropLast_ne_self {p : Path} (h : p ≠ []) : p.dropLast ≠ p := by
  intro heq
  have := congrArg List.length heq
  simp at this
  have : p.length ≠ 0 := by simpa using h
  omega

theorem domain_prefix_tgt (src tgt : Path) : domain src tgt <+: tgt := by
  unfold domain
  split
  · rename_i h; subst h; exact dropLast_prefix _
  · split
    · exact dropLast_prefix _
    · exact lcp_prefix_right _ _
theorem domain_prefix_src (src tgt : Path) : domain src tgt <+: src := by
  unfold domain
  split
  · exact dropLast_prefix _
  · split
    · rename_i h; exact List.IsPrefix.trans (dropLast_prefix _) h
    · exact lcp_prefix_left _ _
theorem domain_ne_tgt (src tgt : Path) (hne : tgt ≠ []) : domain src tgt ≠ tgt := by
  unfold domain
  split
  · rename_i h; subst h; exact dropLast_ne_self hne
  · split
    · exact dropLast_ne_self hne
    · rename_i h1 h2
      intro h
      exact h2 (lcp_eq_right_imp _ _ h)

-- the chain is a forest --------------------------------------------------------------------------
theorem mem_pathToEnter {dom tgt q : Path} (hd : dom <+: tgt) :
    q ∈ pathToEnter dom tgt ↔ dom <+: q ∧ q ≠ dom ∧ q <+: tgt := by
  simp only [pathToEnter, List.mem_map, List.mem_range]
  have hdl := hd.length_le
  have hdeq : dom = tgt.take dom.length := List.prefix_iff_eq_take.1 hd
  constructor
  · rintro ⟨i, hi, rfl⟩
    refine ⟨?_, ?_, List.take_prefix _ _⟩
    · rw [hdeq]
      simp only [List.length_take]
      rw [Nat.min_eq_left hdl]
      exact (List.prefix_take_le_iff (by omega)).2 (by omega)
    · intro h
      have := congrArg List.length h
      simp only [List.length_take] at this
      omega
  · rintro ⟨h1, h2, h3⟩
    have hql := h3.length_le
    have hdq := h1.length_le
    have hlt : dom.length < q.length := by
      rcases Nat.lt_or_ge dom.length q.length with h | h
      · exact h
      · exact absurd (h1.eq_of_length (by omega)).symm h2
    refine ⟨q.length - dom.length - 1, by omega, ?_⟩
    have : dom.length + 1 + (q.length - dom.length - 1) = q.length := by omega
    rw [this]
    exact (List.prefix_iff_eq_take.1 h3).symm

theorem history_has_no_kids {n : SNode} (hwf : WF n) (hk : n.kind = .history) {k : String} {c : SNode} :
    n.at [k] ≠ some c := by
  intro h
  rcases kind_of_has_kid hwf h with h' | h' <;> rw [hk] at h' <;> simp at h'

theorem chain_forest (root : SNode) (hwf : WF root) (dom tgt : Path) (hd : dom <+: tgt)
    (nt : SNode) (htgt : root.at tgt = some nt) (hnh : nt.kind ≠ .history) :
    Forest root (pathToEnter dom tgt) := by
  constructor
  · intro a ha q hq _ p' hap' hp'q
    obtain ⟨ha1, ha2, _⟩ := (mem_pathToEnter hd).1 ha
    obtain ⟨_, _, hq3⟩ := (mem_pathToEnter hd).1 hq
    refine (mem_pathToEnter hd).2 ⟨List.IsPrefix.trans ha1 hap', ?_, List.IsPrefix.trans hp'q hq3⟩
    intro h
    subst h
    exact ha2 (hap'.eq_of_length (Nat.le_antisymm hap'.length_le ha1.length_le))
  · intro q hq
    obtain ⟨_, _, hq3⟩ := (mem_pathToEnter hd).1 hq
    obtain ⟨t, rfl⟩ := hq3
    obtain ⟨n', hn'⟩ := at_prefix_some htgt
    refine ⟨n', hn', ?_⟩
    intro hk
    cases t with
    | nil =>
      simp only [List.append_nil] at htgt
      rw [hn'] at htgt; cases htgt; exact hnh hk
    | cons k t =>
      have : root.at ((q ++ [k]) ++ t) = some nt := by simpa using htgt
      obtain ⟨n2, hn2⟩ := at_prefix_some this
      rw [at_append root q [k] n' hn'] at hn2
      exact history_has_no_kids (wf_at hwf q n' hn') hk hn2
  · intro p hp _ k1 k2 h1 h2
    obtain ⟨_, _, h13⟩ := (mem_pathToEnter hd).1 h1
    obtain ⟨_, _, h23⟩ := (mem_pathToEnter hd).1 h2
    exact snoc_prefix_inj h13 h23


-- exit set / new configuration membership ----------------------------------------------------------
theorem mem_exitSet {root : SNode} {c : List Path} {dom tgt s : Path} :
    s ∈ exitSet root c dom tgt ↔ s ∈ c ∧ dom <+: s ∧ s ≠ dom ∧
      ((kindAt root dom = some .parallel ∧ dom.length < tgt.length) →
        (tgt.take (dom.length + 1)) <+: s) := by
  unfold exitSet
  by_cases hcond : kindAt root dom = some .parallel ∧ dom.length < tgt.length
  · simp only [hcond, and_self, if_true, List.mem_filter, Bool.and_eq_true, List.isPrefixOf_iff_prefix,
      bne_iff_ne, ne_eq]
    constructor
    · rintro ⟨⟨h1, h2, h3⟩, h4⟩; exact ⟨h1, h2, h3, fun _ => h4⟩
    · rintro ⟨h1, h2, h3, h4⟩; exact ⟨⟨h1, h2, h3⟩, h4 trivial⟩
  · simp only [hcond, if_false, List.mem_filter, Bool.and_eq_true, List.isPrefixOf_iff_prefix,
      bne_iff_ne, ne_eq]
    constructor
    · rintro ⟨h1, h2, h3⟩; exact ⟨h1, h2, h3, fun h => absurd h (by simp)⟩
    · rintro ⟨h1, h2, h3, _⟩; exact ⟨h1, h2, h3⟩

theorem legalAt_mem {c : List Path} {p : Path} {n : SNode} (h : LegalAt c p n) : p ∈ c := by
  match n, h with
  | .mk _ _, h => simp only [LegalAt] at h; exact h.1

theorem mem_stepConfig {root : SNode} {c : List Path} {src tgt q : Path} :
    q ∈ stepConfig root c src tgt ↔
      (q ∈ c ∧ q ∉ exitSet root c (domain src tgt) tgt) ∨
        q ∈ enterStates root (pathToEnter (domain src tgt) tgt) := by
  simp only [stepConfig, List.mem_append, List.mem_filter, Bool.not_eq_true', List.contains_eq_mem,
    decide_eq_false_iff_not]

/-- C01 core (no history target, target is not the root): one external transition
    preserves legality. -/
theorem legal_step (root : SNode) (hwf : WF root) (c : List Path) (hleg : LegalAt c [] root)
    (src tgt : Path) (hsrc : src ∈ c) (ns : SNode) (hsrcat : root.at src = some ns)
    (nt : SNode) (htgt : root.at tgt = some nt) (hnh : nt.kind ≠ .history) (hne : tgt ≠ []) :
    LegalAt (stepConfig root c src tgt) [] root := by
  -- the domain and the first step of the entry path
  have hd : domain src tgt <+: tgt := domain_prefix_tgt src tgt
  have hds : domain src tgt <+: src := domain_prefix_src src tgt
  have hdne : domain src tgt ≠ tgt := domain_ne_tgt src tgt hne
  generalize hdom : domain src tgt = dom at *
  obtain ⟨k1, hk1⟩ := strict_prefix_snoc hd hdne
  obtain ⟨ndom, hdomat⟩ : ∃ n, root.at dom = some n := by
    obtain ⟨t, ht⟩ := hds
    rw [← ht] at hsrcat
    exact at_prefix_some hsrcat
  have hlegdom : LegalAt c dom ndom := by
    have := legalAt_sub c ndom dom root [] hwf hleg hdomat ⟨src, hsrc, by simpa using hds⟩
    simpa using this
  have hF := chain_forest root hwf dom tgt hd nt htgt hnh
  have hp1L : (dom ++ [k1]) ∈ pathToEnter dom tgt := by
    refine (mem_pathToEnter hd).2 ⟨List.prefix_append _ _, ?_, hk1⟩
    intro h
    have := congrArg List.length h
    simp at this
  obtain ⟨kid1, hkid1at, hkid1nh⟩ := hF.valid _ hp1L
  have hp1take : tgt.take (dom.length + 1) = dom ++ [k1] := by
    have := List.prefix_iff_eq_take.1 hk1
    simp only [List.length_append, List.length_cons, List.length_nil] at this
    exact this.symm
  -- everything entered lies below dom ++ [k1]
  have hEbelow : ∀ q ∈ enterStates root (pathToEnter dom tgt), (dom ++ [k1]) <+: q := by
    intro q hq
    obtain ⟨p'', hp'', hor⟩ := mem_enterStates.1 hq
    obtain ⟨h1, h2, h3⟩ := (mem_pathToEnter hd).1 hp''
    have hlen : (dom ++ [k1]).length ≤ p''.length := by
      have := h1.length_le
      have hne' : dom.length ≠ p''.length := fun h => h2 (h1.eq_of_length h).symm
      simp only [List.length_append, List.length_cons, List.length_nil]
      omega
    have hp1p'' : (dom ++ [k1]) <+: p'' := List.prefix_of_prefix_length_le hk1 h3 hlen
    rcases hor with rfl | hex
    · exact hp1p''
    · obtain ⟨j, hj, _⟩ := extra_below_nonmember hex
      exact List.IsPrefix.trans hp1p'' (prefix_snoc_of_prefix_snoc hj)
  have hmem : ∀ q, q ∈ stepConfig root c src tgt ↔
      (q ∈ c ∧ q ∉ exitSet root c dom tgt) ∨ q ∈ enterStates root (pathToEnter dom tgt) := by
    intro q; rw [mem_stepConfig, hdom]
  generalize stepConfig root c src tgt = c' at *
  -- Step A: the re-entered branch is legal
  have hA : LegalAt c' (dom ++ [k1]) kid1 := by
    apply forest_entry root _ hF c' kid1 (dom ++ [k1]) (wf_at hwf _ _ hkid1at) hkid1at hp1L
    intro q hq
    rw [hmem q]
    constructor
    · rintro (⟨hqc, hqX⟩ | h)
      · exfalso
        apply hqX
        refine mem_exitSet.2 ⟨hqc, prefix_snoc_of_prefix_snoc hq, ?_, fun _ => by rw [hp1take]; exact hq⟩
        intro h; subst h; exact not_snoc_prefix_self _ _ hq
      · exact h
    · intro h; exact Or.inr h
  -- Step B: the domain node is legal in the new configuration
  have hB : LegalAt c' dom ndom := by
    match ndom, hdomat, hlegdom with
    | .mk d kids, hdomat, hlegdom =>
      have hwfd := wf_at hwf _ _ hdomat
      have hwfd' := hwfd
      simp only [WF] at hwfd
      have hnd : (keys kids).Nodup := hwfd.2.1
      have hfind : findKid k1 kids = some kid1 := by
        rw [← at_snoc root dom d kids k1 hdomat]; exact hkid1at
      have hdomc' : dom ∈ c' := by
        rw [hmem dom]
        left
        simp only [LegalAt] at hlegdom
        exact ⟨hlegdom.1, fun h => (mem_exitSet.1 h).2.2.1 rfl⟩
      have hkinds : d.kind = .compound ∨ d.kind = .parallel := by
        have : (SNode.mk d kids).at [k1] = some kid1 := by
          rw [← at_append root dom [k1] _ hdomat]; exact hkid1at
        simpa [kind_mk] using kind_of_has_kid hwfd' this
      simp only [LegalAt] at hlegdom ⊢
      refine ⟨hdomc', ?_⟩
      rcases hkinds with hkd | hkd <;> simp only [hkd] at hlegdom ⊢
      · -- compound domain: every old descendant was exited
        right
        apply oneKid_intro c' dom k1 kid1 kids hnd hfind hA
        intro k' _ hne' q hq hpre
        rcases (hmem q).1 hq with ⟨hqc, hqX⟩ | hqE
        · apply hqX
          refine mem_exitSet.2 ⟨hqc, prefix_snoc_of_prefix_snoc hpre, ?_, ?_⟩
          · intro h; subst h; exact not_snoc_prefix_self _ _ hpre
          · intro ⟨hpar, _⟩
            simp [kindAt, hdomat, kind_mk, hkd] at hpar
        · exact hne' (snoc_prefix_inj hpre (hEbelow q hqE))
      · -- parallel domain: only the target's region was touched
        apply allKids_replace c c' dom k1 kid1 kids hnd hlegdom.2 hfind
        · simp only [hkid1nh, if_false]; exact hA
        · intro k' _ hne' q hpre
          rw [hmem q]
          constructor
          · intro hqc
            left
            refine ⟨hqc, ?_⟩
            intro hX
            have h4 := (mem_exitSet.1 hX).2.2.2 ⟨by simp [kindAt, hdomat, kind_mk, hkd], by
              have := hk1.length_le; simp at this; omega⟩
            rw [hp1take] at h4
            exact hne' (snoc_prefix_inj hpre h4)
          · rintro (⟨hqc, _⟩ | hqE)
            · exact hqc
            · exact absurd (snoc_prefix_inj hpre (hEbelow q hqE)) hne'
  -- Step C: nothing outside the domain changed
  have hdomc : dom ∈ c := legalAt_mem hlegdom
  refine replace_below c c' ndom dom root [] hwf hleg hdomat hdomc ?_ hB
  intro q hq
  have hq' : ¬ dom <+: q := hq
  rw [hmem q]
  constructor
  · rintro (⟨hqc, _⟩ | hqE)
    · exact hqc
    · exact absurd (prefix_snoc_of_prefix_snoc (hEbelow q hqE)) hq'
  · intro hqc
    exact Or.inl ⟨hqc, fun hX => hq' (mem_exitSet.1 hX).2.1⟩

-- the property's own wording -------------------------------------------------------------------------
/-- C01 as the property states it: root active; every active id is a non-history state of the
    machine; the parent of an active state is active; an active compound state (with children) has
    exactly one active child; an active parallel state has every non-history child active. -/
structure Legal (root : SNode) (c : List Path) : Prop where
  root_active : [] ∈ c
  states : ∀ q ∈ c, ∃ n, root.at q = some n ∧ n.kind ≠ .history
  parent_active : ∀ q ∈ c, q.dropLast ∈ c
  compound_one : ∀ p ∈ c, ∀ d kids, root.at p = some (.mk d kids) → d.kind = .compound → kids ≠ [] →
      ∃ k, (p ++ [k]) ∈ c ∧ ∀ k', (p ++ [k']) ∈ c → k' = k
  parallel_all : ∀ p ∈ c, ∀ d kids, root.at p = some (.mk d kids) → d.kind = .parallel →
      ∀ k ch, (k, ch) ∈ kids → ch.kind ≠ .history → (p ++ [k]) ∈ c

theorem take_closed {c : List Path} (h : ∀ q ∈ c, q.dropLast ∈ c) :
    ∀ (n : Nat) (q : Path), q ∈ c → q.take (q.length - n) ∈ c := by
  intro n
  induction n with
  | zero => intro q hq; simpa using hq
  | succ n ih =>
    intro q hq
    have h1 := h _ (ih q hq)
    rw [List.dropLast_eq_take, List.take_take, List.length_take] at h1
    have : min (min (q.length - n) q.length - 1) (q.length - n) = q.length - (n + 1) := by omega
    rw [this] at h1
    exact h1

theorem prefix_closed {c : List Path} (h : ∀ q ∈ c, q.dropLast ∈ c) {p q : Path}
    (hpq : p <+: q) (hq : q ∈ c) : p ∈ c := by
  have h1 := take_closed h (q.length - p.length) q hq
  have hl := hpq.length_le
  have : q.length - (q.length - p.length) = p.length := by omega
  rw [this, ← List.prefix_iff_eq_take.1 hpq] at h1
  exact h1

/-- flat ⇒ recursive -/
theorem legalAt_of_legal (root : SNode) (hwf : WF root) (c : List Path) (hL : Legal root c) :
    ∀ n p, root.at p = some n → p ∈ c → LegalAt c p n := by
  intro n
  induction n using SNode.ind with
  | h d kids ih =>
    intro p hat hpc
    have hwfn := wf_at hwf p _ hat
    simp only [WF] at hwfn
    have hnd : (keys kids).Nodup := hwfn.2.1
    simp only [LegalAt]
    refine ⟨hpc, ?_⟩
    cases hkd : d.kind <;> simp only [hkd]
    · -- compound
      by_cases hk0 : kids = []
      · exact Or.inl hk0
      · right
        obtain ⟨k, hkc, huniq⟩ := hL.compound_one p hpc d kids hat hkd hk0
        obtain ⟨ch, hch, _⟩ := hL.states _ hkc
        have hfind : findKid k kids = some ch := by rw [← at_snoc root p d kids k hat]; exact hch
        apply oneKid_intro c p k ch kids hnd hfind (ih k ch (findKid_some_mem hfind) (p ++ [k]) hch hkc)
        intro k' _ hne q hq hpre
        exact hne (huniq k' (prefix_closed hL.parent_active hpre hq))
    · -- parallel
      apply allKids_of_forall
      intro k ch hm
      have hfind : findKid k kids = some ch := findKid_of_mem_nodup hnd hm
      have hkat : root.at (p ++ [k]) = some ch := by rw [at_snoc root p d kids k hat]; exact hfind
      by_cases hh : ch.kind = .history
      · simp only [hh, if_true]
        intro q hq hpre
        obtain ⟨n', hn', hk'⟩ := hL.states _ (prefix_closed hL.parent_active hpre hq)
        rw [hkat] at hn'; cases hn'; exact hk' hh
      · simp only [hh, if_false]
        exact ih k ch hm (p ++ [k]) hkat (hL.parallel_all p hpc d kids hat hkd k ch hm hh)
    · -- history node active: excluded
      obtain ⟨n', hn', hk'⟩ := hL.states p hpc
      rw [hat] at hn'; cases hn'
      exact hk' (by rw [kind_mk]; exact hkd)


theorem oneKid_elim (c : List Path) (p : Path) :
    ∀ (ks : List (String × SNode)), (keys ks).Nodup → OneKid c p ks →
      ∃ k ch, findKid k ks = some ch ∧ LegalAt c (p ++ [k]) ch ∧ ∀ k' ∈ keys ks, k' ≠ k → Clear c p k' := by
  intro ks
  induction ks with
  | nil => intro _ h; simp [OneKid] at h
  | cons hd rest ih =>
    obtain ⟨k0, n0⟩ := hd
    intro hnd hone
    simp only [keys, List.map_cons, List.nodup_cons] at hnd
    simp only [OneKid] at hone
    rcases hone with ⟨hleg, hclr⟩ | ⟨hclr, hrest⟩
    · refine ⟨k0, n0, by simp [findKid], hleg, ?_⟩
      intro k' hk' hne
      rcases mem_keys_cons.1 hk' with rfl | hk'
      · exact absurd rfl hne
      · exact (clearKids_iff c p rest).1 hclr k' hk'
    · obtain ⟨k, ch, hf, hl, hc⟩ := ih hnd.2 hrest
      have hne0 : k0 ≠ k := by
        intro h; subst h; exact hnd.1 (findKid_mem hf)
      refine ⟨k, ch, by simp [findKid, hne0, hf], hl, ?_⟩
      intro k' hk' hne
      rcases mem_keys_cons.1 hk' with rfl | hk'
      · exact hclr
      · exact hc k' hk' hne

/-- recursive (+ every active path names a state) ⇒ flat -/
theorem legal_of_legalAt (root : SNode) (hwf : WF root) (c : List Path)
    (hl : LegalAt c [] root) (hv : ∀ q ∈ c, ∃ n, root.at q = some n) : Legal root c := by
  have hsub : ∀ p q n, p <+: q → q ∈ c → root.at p = some n → LegalAt c p n := by
    intro p q n hpq hq hat
    have := legalAt_sub c n p root [] hwf hl hat ⟨q, hq, by simpa using hpq⟩
    simpa using this
  have hvp : ∀ p q, p <+: q → q ∈ c → ∃ n, root.at p = some n := by
    intro p q hpq hq
    obtain ⟨t, rfl⟩ := hpq
    obtain ⟨n, hn⟩ := hv _ hq
    exact at_prefix_some hn
  constructor
  · exact legalAt_mem hl
  · intro q hq
    obtain ⟨n, hn⟩ := hv q hq
    refine ⟨n, hn, ?_⟩
    intro hk
    have := hsub q q n (List.prefix_refl _) hq hn
    match n, hk, this with
    | .mk d kids, hk, this =>
      simp only [LegalAt] at this
      have hk' : d.kind = .history := hk
      simp only [hk'] at this
      exact this.2
  · intro q hq
    obtain ⟨n, hn⟩ := hvp q.dropLast q (List.dropLast_prefix q) hq
    exact legalAt_mem (hsub _ q n (List.dropLast_prefix q) hq hn)
  · intro p hp d kids hat hkd hk0
    have hlp := hsub p p _ (List.prefix_refl _) hp hat
    have hwfn := wf_at hwf p _ hat
    simp only [WF] at hwfn
    simp only [LegalAt, hkd] at hlp
    rcases hlp.2 with h0 | hone
    · exact absurd h0 hk0
    · obtain ⟨k, ch, hf, hlk, hclr⟩ := oneKid_elim c p kids hwfn.2.1 hone
      refine ⟨k, legalAt_mem hlk, ?_⟩
      intro k' hk'c
      by_cases hkk : k' = k
      · exact hkk
      · exfalso
        obtain ⟨n', hn'⟩ := hv _ hk'c
        rw [at_snoc root p d kids k' hat] at hn'
        exact hclr k' (findKid_mem hn') hkk _ hk'c (List.prefix_refl _)
  · intro p hp d kids hat hkd k ch hm hh
    have hlp := hsub p p _ (List.prefix_refl _) hp hat
    have hwfn := wf_at hwf p _ hat
    simp only [WF] at hwfn
    simp only [LegalAt, hkd] at hlp
    have := allKids_get c p k ch kids hlp.2 (findKid_of_mem_nodup hwfn.2.1 hm)
    simp only [hh, if_false] at this
    exact legalAt_mem this

-- validity of entered paths ---------------------------------------------------------------------------
mutual
theorem enterDefault_valid (p : Path) (n : SNode) (hwf : WF n) :
    ∀ q ∈ enterDefault p n, ∃ t n', q = p ++ t ∧ n.at t = some n' := by
  match n with
  | .mk d kids =>
    intro q hq
    simp only [WF] at hwf
    simp only [enterDefault, List.mem_cons] at hq
    rcases hq with rfl | hq
    · exact ⟨[], _, by simp, rfl⟩
    · cases hkd : d.kind <;> simp only [hkd] at hq
      · simp at hq
      · cases hi : d.initial <;> simp only [hi] at hq
        · simp at hq
        · obtain ⟨k, ch, t, n', hm, rfl, hn'⟩ := enterInit_valid p _ kids hwf.1 q hq
          refine ⟨k :: t, n', by simp, ?_⟩
          simp only [SNode.at, findKid_of_mem_nodup hwf.2.1 hm]; exact hn'
      · obtain ⟨k, ch, t, n', hm, rfl, hn'⟩ := enterRegions_valid p kids hwf.1 q hq
        refine ⟨k :: t, n', by simp, ?_⟩
        simp only [SNode.at, findKid_of_mem_nodup hwf.2.1 hm]; exact hn'
      · simp at hq
      · simp at hq
theorem enterInit_valid (p : Path) (k0 : String) (ks : List (String × SNode)) (hwf : WFKids ks) :
    ∀ q ∈ enterInit p k0 ks, ∃ k ch t n', (k, ch) ∈ ks ∧ q = p ++ [k] ++ t ∧ ch.at t = some n' := by
  match ks with
  | [] => intro q hq; simp [enterInit] at hq
  | (k', c) :: rest =>
    intro q hq
    simp only [WFKids] at hwf
    simp only [enterInit] at hq
    by_cases hk : k' = k0
    · simp only [hk, if_true] at hq
      obtain ⟨t, n', rfl, hn'⟩ := enterDefault_valid (p ++ [k0]) c hwf.1 q hq
      exact ⟨k0, c, t, n', by simp [hk], rfl, hn'⟩
    · simp only [hk, if_false] at hq
      obtain ⟨k, ch, t, n', hm, rfl, hn'⟩ := enterInit_valid p k0 rest hwf.2 q hq
      exact ⟨k, ch, t, n', List.mem_cons_of_mem _ hm, rfl, hn'⟩
theorem enterRegions_valid (p : Path) (ks : List (String × SNode)) (hwf : WFKids ks) :
    ∀ q ∈ enterRegions p ks, ∃ k ch t n', (k, ch) ∈ ks ∧ q = p ++ [k] ++ t ∧ ch.at t = some n' := by
  match ks with
  | [] => intro q hq; simp [enterRegions] at hq
  | (k', c) :: rest =>
    intro q hq
    simp only [WFKids] at hwf
    simp only [enterRegions, List.mem_append] at hq
    rcases hq with hq | hq
    · by_cases hh : c.kind = .history
      · simp [hh] at hq
      · simp only [hh, if_false] at hq
        obtain ⟨t, n', rfl, hn'⟩ := enterDefault_valid (p ++ [k']) c hwf.1 q hq
        exact ⟨k', c, t, n', by simp, rfl, hn'⟩
    · obtain ⟨k, ch, t, n', hm, rfl, hn'⟩ := enterRegions_valid p rest hwf.2 q hq
      exact ⟨k, ch, t, n', List.mem_cons_of_mem _ hm, rfl, hn'⟩
end

theorem enterDefault_at (root : SNode) (p : Path) (n : SNode) (hat : root.at p = some n) (hwf : WF n) :
    ∀ q ∈ enterDefault p n, ∃ n', root.at q = some n' := by
  intro q hq
  obtain ⟨t, n', rfl, hn'⟩ := enterDefault_valid p n hwf q hq
  exact ⟨n', by rw [at_append root p t n hat]; exact hn'⟩

/-- every path entered by `enterStates L` names a state, provided the elements of `L` do -/
theorem enterStates_at (root : SNode) (hwf : WF root) (L : List Path)
    (hL : ∀ p ∈ L, ∃ n, root.at p = some n) :
    ∀ q ∈ enterStates root L, ∃ n, root.at q = some n := by
  intro q hq
  obtain ⟨p, hp, hor⟩ := mem_enterStates.1 hq
  rcases hor with rfl | hex
  · exact hL _ hp
  · unfold extra at hex
    obtain ⟨n, hn⟩ := hL p hp
    match n, hn with
    | .mk d kids, hn =>
      simp only [hn] at hex
      have hwfn := wf_at hwf p _ hn
      have hwfn' := hwfn
      simp only [WF] at hwfn
      cases hkd : d.kind <;> simp only [hkd] at hex
      · simp at hex
      · by_cases he : hasExplicitChild L p = true
        · simp [he] at hex
        · simp only [he] at hex
          cases hi : d.initial with
          | none => simp [hi] at hex
          | some k0 =>
            simp only [hi] at hex
            obtain ⟨k, ch, t, n', hm, rfl, hn'⟩ := enterInit_valid p k0 kids hwfn.1 q hex
            refine ⟨n', ?_⟩
            have : p ++ [k] ++ t = p ++ (k :: t) := by simp
            rw [this, at_append root p (k :: t) _ hn]
            simp only [SNode.at, findKid_of_mem_nodup hwfn.2.1 hm]; exact hn'
      · obtain ⟨k, c, hm, hh, _, hq'⟩ := mem_regionsNotIn.1 hex
        have hkat : root.at (p ++ [k]) = some c := by
          rw [at_snoc root p d kids k hn]; exact findKid_of_mem_nodup hwfn.2.1 hm
        exact enterDefault_at root (p ++ [k]) c hkat (wf_at hwf _ _ hkat) q hq'
      · simp at hex
      · simp at hex

/-- **C01, one external transition, in the property's own wording.** -/
theorem legal_step_flat (root : SNode) (hwf : WF root) (c : List Path) (hL : Legal root c)
    (src tgt : Path) (hsrc : src ∈ c) (nt : SNode) (htgt : root.at tgt = some nt)
    (hnh : nt.kind ≠ .history) (hne : tgt ≠ []) :
    Legal root (stepConfig root c src tgt) := by
  obtain ⟨ns, hns, _⟩ := hL.states src hsrc
  have hrootat : root.at [] = some root := rfl
  have hla : LegalAt c [] root := legalAt_of_legal root hwf c hL root [] hrootat hL.root_active
  have hstep := legal_step root hwf c hla src tgt hsrc ns hns nt htgt hnh hne
  apply legal_of_legalAt root hwf _ hstep
  intro q hq
  rcases mem_stepConfig.1 hq with ⟨hqc, _⟩ | hqE
  · obtain ⟨n, hn, _⟩ := hL.states q hqc; exact ⟨n, hn⟩
  · apply enterStates_at root hwf _ ?_ q hqE
    intro p hp
    obtain ⟨_, _, h3⟩ := (mem_pathToEnter (domain_prefix_tgt src tgt)).1 hp
    obtain ⟨t, ht⟩ := h3
    rw [← ht] at htgt
    exact at_prefix_some htgt
#print axioms legal_step_flat
#print axioms legal_of_legalAt


-- generalised step: any entry forest below one branch of the domain --------------------------------------
/-- the configuration after exiting below `dom` (scoped by `tgt` when `dom` is parallel) and entering `L` -/
def stepConfigL (root : SNode) (c : List Path) (dom tgt : Path) (L : List Path) : List Path :=
  let ex := exitSet root c dom tgt
  c.filter (fun s => !ex.contains s) ++ enterStates root L

theorem mem_stepConfigL {root : SNode} {c : List Path} {dom tgt q : Path} {L : List Path} :
    q ∈ stepConfigL root c dom tgt L ↔
      (q ∈ c ∧ q ∉ exitSet root c dom tgt) ∨ q ∈ enterStates root L := by
  simp only [stepConfigL, List.mem_append, List.mem_filter, Bool.not_eq_true', List.contains_eq_mem,
    decide_eq_false_iff_not]

/-- One microstep whose entry list is an arbitrary forest `L` lying below the single branch
    `dom ++ [k1]` of an active domain: legality is preserved. `legal_step` (plain targets) and the
    history restores are instances. -/
theorem legal_step_gen (root : SNode) (hwf : WF root) (c : List Path) (hleg : LegalAt c [] root)
    (dom tgt : Path) (k1 : String) (L : List Path)
    (ndom : SNode) (hdomat : root.at dom = some ndom) (hdomc : ∃ q ∈ c, dom <+: q)
    (hk1 : (dom ++ [k1]) <+: tgt)
    (hF : Forest root L) (hp1L : (dom ++ [k1]) ∈ L) (hbranch : ∀ q ∈ L, (dom ++ [k1]) <+: q) :
    LegalAt (stepConfigL root c dom tgt L) [] root := by
  have hlegdom : LegalAt c dom ndom := by
    have := legalAt_sub c ndom dom root [] hwf hleg hdomat (by simpa using hdomc)
    simpa using this
  obtain ⟨kid1, hkid1at, hkid1nh⟩ := hF.valid _ hp1L
  have hp1take : tgt.take (dom.length + 1) = dom ++ [k1] := by
    have := List.prefix_iff_eq_take.1 hk1
    simp only [List.length_append, List.length_cons, List.length_nil] at this
    exact this.symm
  have hEbelow : ∀ q ∈ enterStates root L, (dom ++ [k1]) <+: q := by
    intro q hq
    obtain ⟨p'', hp'', hor⟩ := mem_enterStates.1 hq
    have hp1p'' := hbranch p'' hp''
    rcases hor with rfl | hex
    · exact hp1p''
    · obtain ⟨j, hj, _⟩ := extra_below_nonmember hex
      exact List.IsPrefix.trans hp1p'' (prefix_snoc_of_prefix_snoc hj)
  have hmem : ∀ q, q ∈ stepConfigL root c dom tgt L ↔
      (q ∈ c ∧ q ∉ exitSet root c dom tgt) ∨ q ∈ enterStates root L := fun q => mem_stepConfigL
  generalize stepConfigL root c dom tgt L = c' at *
  have hA : LegalAt c' (dom ++ [k1]) kid1 := by
    apply forest_entry root _ hF c' kid1 (dom ++ [k1]) (wf_at hwf _ _ hkid1at) hkid1at hp1L
    intro q hq
    rw [hmem q]
    constructor
    · rintro (⟨hqc, hqX⟩ | h)
      · exfalso
        apply hqX
        refine mem_exitSet.2 ⟨hqc, prefix_snoc_of_prefix_snoc hq, ?_, fun _ => by rw [hp1take]; exact hq⟩
        intro h; subst h; exact not_snoc_prefix_self _ _ hq
      · exact h
    · intro h; exact Or.inr h
  have hB : LegalAt c' dom ndom := by
    match ndom, hdomat, hlegdom with
    | .mk d kids, hdomat, hlegdom =>
      have hwfd := wf_at hwf _ _ hdomat
      have hwfd' := hwfd
      simp only [WF] at hwfd
      have hnd : (keys kids).Nodup := hwfd.2.1
      have hfind : findKid k1 kids = some kid1 := by
        rw [← at_snoc root dom d kids k1 hdomat]; exact hkid1at
      have hdomc' : dom ∈ c' := by
        rw [hmem dom]
        left
        simp only [LegalAt] at hlegdom
        exact ⟨hlegdom.1, fun h => (mem_exitSet.1 h).2.2.1 rfl⟩
      have hkinds : d.kind = .compound ∨ d.kind = .parallel := by
        have : (SNode.mk d kids).at [k1] = some kid1 := by
          rw [← at_append root dom [k1] _ hdomat]; exact hkid1at
        simpa [kind_mk] using kind_of_has_kid hwfd' this
      simp only [LegalAt] at hlegdom ⊢
      refine ⟨hdomc', ?_⟩
      rcases hkinds with hkd | hkd <;> simp only [hkd] at hlegdom ⊢
      · right
        apply oneKid_intro c' dom k1 kid1 kids hnd hfind hA
        intro k' _ hne' q hq hpre
        rcases (hmem q).1 hq with ⟨hqc, hqX⟩ | hqE
        · apply hqX
          refine mem_exitSet.2 ⟨hqc, prefix_snoc_of_prefix_snoc hpre, ?_, ?_⟩
          · intro h; subst h; exact not_snoc_prefix_self _ _ hpre
          · intro ⟨hpar, _⟩
            simp [kindAt, hdomat, kind_mk, hkd] at hpar
        · exact hne' (snoc_prefix_inj hpre (hEbelow q hqE))
      · apply allKids_replace c c' dom k1 kid1 kids hnd hlegdom.2 hfind
        · simp only [hkid1nh, if_false]; exact hA
        · intro k' _ hne' q hpre
          rw [hmem q]
          constructor
          · intro hqc
            left
            refine ⟨hqc, ?_⟩
            intro hX
            have h4 := (mem_exitSet.1 hX).2.2.2 ⟨by simp [kindAt, hdomat, kind_mk, hkd], by
              have := hk1.length_le; simp at this; omega⟩
            rw [hp1take] at h4
            exact hne' (snoc_prefix_inj hpre h4)
          · rintro (⟨hqc, _⟩ | hqE)
            · exact hqc
            · exact absurd (snoc_prefix_inj hpre (hEbelow q hqE)) hne'
  have hdomc2 : dom ∈ c := legalAt_mem hlegdom
  refine replace_below c c' ndom dom root [] hwf hleg hdomat hdomc2 ?_ hB
  intro q hq
  have hq' : ¬ dom <+: q := hq
  rw [hmem q]
  constructor
  · rintro (⟨hqc, _⟩ | hqE)
    · exact hqc
    · exact absurd (prefix_snoc_of_prefix_snoc (hEbelow q hqE)) hq'
  · intro hqc
    exact Or.inl ⟨hqc, fun hX => hq' (mem_exitSet.1 hX).2.1⟩

#print axioms legal_step_gen


-- history ------------------------------------------------------------------------------------------------
/-- What `_record_history` stores for owner `Q` when the configuration is `c`. -/
def recorded (c : List Path) (Q : Path) : List Path := c.filter (fun q => q != Q && Q.isPrefixOf q)

theorem mem_recorded {c : List Path} {Q q : Path} : q ∈ recorded c Q ↔ q ∈ c ∧ q ≠ Q ∧ Q <+: q := by
  simp only [recorded, List.mem_filter, Bool.and_eq_true, bne_iff_ne, ne_eq, List.isPrefixOf_iff_prefix]

/-- Invariant of a history entry `(Q, R)`: `R` lies strictly below `Q`, names states, and together
    with `Q` is a legal selection of the subtree at `Q`. -/
structure HistInv (root : SNode) (Q : Path) (R : List Path) : Prop where
  nodeQ : ∃ nQ, root.at Q = some nQ ∧ LegalAt (Q :: R) Q nQ
  below : ∀ r ∈ R, Q <+: r ∧ r ≠ Q
  valid : ∀ r ∈ R, ∃ n, root.at r = some n

/-- recording from a legal configuration establishes the invariant -/
theorem recorded_inv (root : SNode) (hwf : WF root) (c : List Path) (hL : Legal root c)
    (Q : Path) (hQ : Q ∈ c) : HistInv root Q (recorded c Q) := by
  obtain ⟨nQ, hnQ, _⟩ := hL.states Q hQ
  have hla : LegalAt c [] root := legalAt_of_legal root hwf c hL root [] rfl hL.root_active
  have hlq : LegalAt c Q nQ := by
    have := legalAt_sub c nQ Q root [] hwf hla hnQ ⟨Q, hQ, by simp⟩
    simpa using this
  refine ⟨⟨nQ, hnQ, LegalAt_congr c _ Q nQ ?_ hlq⟩, ?_, ?_⟩
  · intro q hq
    simp only [List.mem_cons, mem_recorded]
    constructor
    · intro hqc
      by_cases h : q = Q
      · exact Or.inl h
      · exact Or.inr ⟨hqc, h, hq⟩
    · rintro (h | ⟨h, _, _⟩)
      · rw [h]; exact hQ
      · exact h
  · intro r hr; obtain ⟨_, h2, h3⟩ := mem_recorded.1 hr; exact ⟨h3, h2⟩
  · intro r hr
    obtain ⟨h1, _, _⟩ := mem_recorded.1 hr
    obtain ⟨n, hn, _⟩ := hL.states r h1
    exact ⟨n, hn⟩

/-- everything between `Q` and a recorded state is recorded (or is `Q`), and is legally selected -/
theorem hist_between (root : SNode) (hwf : WF root) {Q : Path} {R : List Path} (hI : HistInv root Q R)
    {r p : Path} (hr : r ∈ R) (hQp : Q <+: p) (hpr : p <+: r) :
    ∃ np, root.at p = some np ∧ LegalAt (Q :: R) p np := by
  obtain ⟨nQ, hnQ, hlQ⟩ := hI.nodeQ
  obtain ⟨nr, hnr⟩ := hI.valid r hr
  obtain ⟨t, rfl⟩ := hQp
  obtain ⟨t2, ht2⟩ := hpr
  have hpat : ∃ np, root.at (Q ++ t) = some np := by rw [← ht2] at hnr; exact at_prefix_some hnr
  obtain ⟨np, hnp⟩ := hpat
  refine ⟨np, hnp, ?_⟩
  have hnq : nQ.at t = some np := by rw [← at_append root Q t nQ hnQ]; exact hnp
  exact legalAt_sub (Q :: R) np t nQ Q (wf_at hwf Q nQ hnQ) hlQ hnq
    ⟨r, List.mem_cons_of_mem _ hr, ⟨t2, ht2⟩⟩

/-- the combined entry list of a restore: every prefix, longer than `dom`, of a target -/
def histForest (dom : Path) (targets : List Path) : List Path :=
  targets.flatMap (fun r => (List.range (r.length - dom.length)).map (fun i => r.take (dom.length + 1 + i)))

theorem mem_histForest {dom q : Path} {targets : List Path} (hd : ∀ r ∈ targets, dom <+: r) :
    q ∈ histForest dom targets ↔ ∃ r ∈ targets, dom <+: q ∧ q ≠ dom ∧ q <+: r := by
  simp only [histForest, List.mem_flatMap]
  constructor
  · rintro ⟨r, hr, hq⟩
    exact ⟨r, hr, (mem_pathToEnter (hd r hr)).1 (by simpa [pathToEnter] using hq)⟩
  · rintro ⟨r, hr, h⟩
    exact ⟨r, hr, by simpa [pathToEnter] using (mem_pathToEnter (hd r hr)).2 h⟩

theorem histForest_forest (root : SNode) (hwf : WF root) (dom Q : Path) (k1 : String) (R T : List Path)
    (hI : HistInv root Q R) (hTR : ∀ r ∈ T, r ∈ R) (hdQ : (dom ++ [k1]) <+: Q) :
    Forest root (histForest dom T) ∧ (∀ q ∈ histForest dom T, (dom ++ [k1]) <+: q) := by
  have hdr : ∀ r ∈ T, dom <+: r := fun r hr =>
    List.IsPrefix.trans (List.IsPrefix.trans (List.prefix_append _ _) hdQ) (hI.below r (hTR r hr)).1
  have hQr : ∀ r ∈ T, Q <+: r := fun r hr => (hI.below r (hTR r hr)).1
  have hbranch : ∀ q ∈ histForest dom T, (dom ++ [k1]) <+: q := by
    intro q hq
    obtain ⟨r, hr, h1, h2, h3⟩ := (mem_histForest hdr).1 hq
    have hlen : (dom ++ [k1]).length ≤ q.length := by
      have := h1.length_le
      have hne' : dom.length ≠ q.length := fun h => h2 (h1.eq_of_length h).symm
      simp only [List.length_append, List.length_cons, List.length_nil]; omega
    exact List.prefix_of_prefix_length_le (List.IsPrefix.trans hdQ (hQr r hr)) h3 hlen
  refine ⟨⟨?_, ?_, ?_⟩, hbranch⟩
  · -- convex
    intro a ha q hq _ p' hap' hp'q
    obtain ⟨_, _, ha1, ha2, _⟩ := (mem_histForest hdr).1 ha
    obtain ⟨r, hr, _, _, hq3⟩ := (mem_histForest hdr).1 hq
    refine (mem_histForest hdr).2 ⟨r, hr, List.IsPrefix.trans ha1 hap', ?_, List.IsPrefix.trans hp'q hq3⟩
    intro h; subst h
    exact ha2 (hap'.eq_of_length (Nat.le_antisymm hap'.length_le ha1.length_le))
  · -- valid, non-history
    intro q hq
    obtain ⟨r, hr, h1, h2, h3⟩ := (mem_histForest hdr).1 hq
    obtain ⟨nr, hnr⟩ := hI.valid r (hTR r hr)
    obtain ⟨t, ht⟩ := h3
    obtain ⟨nq, hnq⟩ : ∃ n, root.at q = some n := by rw [← ht] at hnr; exact at_prefix_some hnr
    refine ⟨nq, hnq, ?_⟩
    intro hk
    cases t with
    | nil =>
      -- q = r is a recorded state: legally selected, hence not a history node
      simp only [List.append_nil] at ht
      subst ht
      obtain ⟨np, hnp, hlp⟩ := hist_between root hwf hI (hTR q hr) (hQr q hr) (List.prefix_refl _)
      rw [hnq] at hnp; cases hnp
      match nq, hk, hlp with
      | .mk d kids, hk, hlp =>
        simp only [LegalAt] at hlp
        have hk' : d.kind = .history := hk
        simp only [hk'] at hlp
        exact hlp.2
    | cons k t =>
      have : root.at ((q ++ [k]) ++ t) = some nr := by rw [← ht] at hnr; simpa using hnr
      obtain ⟨n2, hn2⟩ := at_prefix_some this
      rw [at_append root q [k] nq hnq] at hn2
      exact history_has_no_kids (wf_at hwf q nq hnq) hk hn2
  · -- shape
    intro p hp hkc k1' k2' h1 h2
    obtain ⟨r1, hr1, _, _, h13⟩ := (mem_histForest hdr).1 h1
    obtain ⟨r2, hr2, _, _, h23⟩ := (mem_histForest hdr).1 h2
    have hp1 : p <+: r1 := prefix_snoc_of_prefix_snoc h13
    rcases List.prefix_or_prefix_of_prefix hp1 (hQr r1 hr1) with hpQ | hQp
    · by_cases heq : p = Q
      · -- p = Q: use the legal selection at Q
        subst heq
        obtain ⟨np, hnp, hlp⟩ := hist_between root hwf hI (hTR r1 hr1) (List.prefix_refl _) hp1
        obtain ⟨n1, _, hl1⟩ := hist_between root hwf hI (hTR r1 hr1) (List.prefix_append _ _) h13
        obtain ⟨n2, _, hl2⟩ := hist_between root hwf hI (hTR r2 hr2) (List.prefix_append _ _) h23
        match np, hnp, hlp with
        | .mk d kids, hnp, hlp =>
          have hwfn := wf_at hwf _ _ hnp
          simp only [WF] at hwfn
          have hkd : d.kind = .compound := by
            simpa [kindAt, hnp, kind_mk] using hkc
          simp only [LegalAt, hkd] at hlp
          have hfind1 : findKid k1' kids ≠ none := by
            rw [← at_snoc root p d kids k1' hnp]
            obtain ⟨n1', hn1', _⟩ := hist_between root hwf hI (hTR r1 hr1) (List.prefix_append _ _) h13
            simp [hn1']
          rcases hlp.2 with h0 | hone
          · subst h0; simp [findKid] at hfind1
          · obtain ⟨k, ch, hf, hlk, hclr⟩ := oneKid_elim _ p kids hwfn.2.1 hone
            have e1 : k1' = k := by
              by_cases h : k1' = k
              · exact h
              · exfalso
                have hm : k1' ∈ keys kids := by
                  cases hfk : findKid k1' kids with
                  | none => exact absurd hfk hfind1
                  | some c' => exact findKid_mem hfk
                exact hclr k1' hm h _ (legalAt_mem hl1) (List.prefix_refl _)
            have e2 : k2' = k := by
              by_cases h : k2' = k
              · exact h
              · exfalso
                obtain ⟨n2', hn2', _⟩ := hist_between root hwf hI (hTR r2 hr2) (List.prefix_append _ _) h23
                rw [at_snoc root p d kids k2' hnp] at hn2'
                exact hclr k2' (findKid_mem hn2') h _ (legalAt_mem hl2) (List.prefix_refl _)
            rw [e1, e2]
      · -- p strictly above Q: both children lead to Q
        obtain ⟨kq, hkq⟩ := strict_prefix_snoc hpQ heq
        have a1 : k1' = kq := snoc_prefix_inj h13 (List.IsPrefix.trans hkq (hQr r1 hr1))
        have a2 : k2' = kq := snoc_prefix_inj h23 (List.IsPrefix.trans hkq (hQr r2 hr2))
        rw [a1, a2]
    · -- Q <+: p: use the legal selection at p
      obtain ⟨np, hnp, hlp⟩ := hist_between root hwf hI (hTR r1 hr1) hQp hp1
      have hQp1 : Q <+: p ++ [k1'] := List.IsPrefix.trans hQp (List.prefix_append _ _)
      obtain ⟨n1, _, hl1⟩ := hist_between root hwf hI (hTR r1 hr1) hQp1 h13
      have hQp2 : Q <+: p ++ [k2'] := List.IsPrefix.trans hQp (List.prefix_append _ _)
      obtain ⟨n2, hn2at, hl2⟩ := hist_between root hwf hI (hTR r2 hr2) hQp2 h23
      obtain ⟨n1', hn1at, _⟩ := hist_between root hwf hI (hTR r1 hr1) hQp1 h13
      match np, hnp, hlp with
      | .mk d kids, hnp, hlp =>
        have hwfn := wf_at hwf _ _ hnp
        simp only [WF] at hwfn
        have hkd : d.kind = .compound := by
          simpa [kindAt, hnp, kind_mk] using hkc
        simp only [LegalAt, hkd] at hlp
        rw [at_snoc root p d kids k1' hnp] at hn1at
        rw [at_snoc root p d kids k2' hnp] at hn2at
        rcases hlp.2 with h0 | hone
        · subst h0; simp [findKid] at hn1at
        · obtain ⟨k, ch, hf, hlk, hclr⟩ := oneKid_elim _ p kids hwfn.2.1 hone
          have e1 : k1' = k := by
            by_cases h : k1' = k
            · exact h
            · exact absurd (List.prefix_refl _) (hclr k1' (findKid_mem hn1at) h _ (legalAt_mem hl1))
          have e2 : k2' = k := by
            by_cases h : k2' = k
            · exact h
            · exact absurd (List.prefix_refl _) (hclr k2' (findKid_mem hn2at) h _ (legalAt_mem hl2))
          rw [e1, e2]

/-- **C11/C01: restoring recorded history keeps the configuration legal.** `Q` is the history
    node's parent, `(Q, R)` its recorded entry, `T ⊆ R` the restore targets (deep: the leaves;
    shallow: the children of `Q`), `dom` the transition domain, a proper ancestor of `Q`. -/
theorem legal_step_history (root : SNode) (hwf : WF root) (c : List Path) (hleg : LegalAt c [] root)
    (dom Q : Path) (hk : String) (k1 : String) (R T : List Path)
    (ndom : SNode) (hdomat : root.at dom = some ndom) (hdomc : ∃ q ∈ c, dom <+: q)
    (hI : HistInv root Q R) (hTR : ∀ r ∈ T, r ∈ R) (hT : T ≠ [])
    (hdQ : (dom ++ [k1]) <+: Q) :
    LegalAt (stepConfigL root c dom (Q ++ [hk]) (histForest dom T)) [] root := by
  obtain ⟨hF, hbranch⟩ := histForest_forest root hwf dom Q k1 R T hI hTR hdQ
  have hdr : ∀ r ∈ T, dom <+: r := fun r hr =>
    List.IsPrefix.trans (List.IsPrefix.trans (List.prefix_append _ _) hdQ) (hI.below r (hTR r hr)).1
  obtain ⟨r0, hr0⟩ : ∃ r, r ∈ T := by
    cases T with
    | nil => exact absurd rfl hT
    | cons r _ => exact ⟨r, by simp⟩
  have hp1L : (dom ++ [k1]) ∈ histForest dom T := by
    refine (mem_histForest hdr).2 ⟨r0, hr0, List.prefix_append _ _, ?_,
      List.IsPrefix.trans hdQ (hI.below r0 (hTR r0 hr0)).1⟩
    intro h
    have := congrArg List.length h
    simp at this
  exact legal_step_gen root hwf c hleg dom (Q ++ [hk]) k1 (histForest dom T) ndom hdomat hdomc
    (List.IsPrefix.trans hdQ (List.prefix_append _ _)) hF hp1L hbranch

#print axioms legal_step_history
#print axioms recorded_inv


end Spec
end XSM
