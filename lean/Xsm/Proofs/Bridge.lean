import Xsm.Model.Engine
import Xsm.Proofs.Legal
/-
Bridge: the executable plan / execute functions refine the set-level specification.
-/
namespace XSM
open Spec

/-- a send hook that only touches the queue / counters -/
structure HooksOK (h : Hooks) : Prop where
  snd_cfg : ∀ e s, (h.snd e s).cfg = s.cfg
  snd_err : ∀ e s, (h.snd e s).err = s.err
  raise_cfg : ∀ e s, (h.sndRaise e s).cfg = s.cfg
  raise_err : ∀ e s, (h.sndRaise e s).err = s.err

theorem enqueueQ_cfg (b : Bool) (e : Ev) (s : St) : (enqueueQ b e s).cfg = s.cfg := by
  unfold enqueueQ; split <;> rfl
theorem enqueueQ_err (b : Bool) (e : Ev) (s : St) : (enqueueQ b e s).err = s.err := by
  unfold enqueueQ; split <;> rfl
theorem enqueue_cfg (e : Ev) (s : St) : (enqueue e s).cfg = s.cfg := enqueueQ_cfg false e s
theorem enqueue_err (e : Ev) (s : St) : (enqueue e s).err = s.err := enqueueQ_err false e s

theorem hooksFlagged_ok (u : UEnv) (m : Machine) : HooksOK (hooksFlagged u m) :=
  ⟨enqueueQ_cfg true, enqueueQ_err true, enqueueQ_cfg true, enqueueQ_err true⟩
theorem hooksAsyncStart_ok (u : UEnv) (m : Machine) : HooksOK (hooksAsyncStart u m) :=
  ⟨enqueue_cfg, enqueue_err, enqueue_cfg, enqueue_err⟩
theorem hooksAsync_ok (u : UEnv) (m : Machine) : HooksOK (hooksAsync u m) :=
  ⟨fun e s => by simp [hooksAsync, mkHooks, enqueueQ_cfg], fun e s => by simp [hooksAsync, mkHooks, enqueueQ_err],
   fun e s => by simp [hooksAsync, mkHooks, enqueueQ_cfg], fun e s => by simp [hooksAsync, mkHooks, enqueueQ_err]⟩

-- actions and done checks do not touch the configuration ---------------------------------------------
theorem fail_cfg' (s : St) (e : EErr) : (s.fail e).cfg = s.cfg := by
  unfold St.fail; split <;> rfl

theorem assignStep_cfg (canon : String) (cut : Bool) (a : ActionRef) (s : St) :
    (assignStep canon cut a s).cfg = s.cfg := by
  unfold assignStep; (repeat' split) <;> rfl

theorem finishBuiltin_cfg (h : Hooks) (hok : HooksOK h) (canon : String) (a : ActionRef) (s2 : St) :
    (finishBuiltin h canon a s2).1.cfg = s2.cfg := by
  unfold finishBuiltin
  split
  · rfl
  · split
    · split
      · exact hok.raise_cfg _ _
      · rfl
    · rfl

theorem builtinStep_cfg (h : Hooks) (hok : HooksOK h) (nested : List ActionRef → String → St → St)
    (hn : ∀ as ev s, (nested as ev s).cfg = s.cfg) (cut : Bool) (evType canon : String)
    (a : ActionRef) (s : St) : (builtinStep h nested cut evType canon a s).1.cfg = s.cfg := by
  unfold builtinStep
  simp only
  split
  · rfl
  · rw [finishBuiltin_cfg h hok]
    split
    · exact assignStep_cfg _ _ _ _
    · rw [hn]; exact assignStep_cfg _ _ _ _

/-- one action never changes the configuration -/
theorem actStep_cfg (h : Hooks) (hok : HooksOK h) (nested : List ActionRef → String → St → St)
    (hn : ∀ as ev s, (nested as ev s).cfg = s.cfg) (cut : Bool) (evType : String)
    (acc : St × Bool) (a : ActionRef) : (actStep h nested cut evType acc a).1.cfg = acc.1.cfg := by
  unfold actStep
  split
  · rfl
  · split
    · rfl
    · split
      · exact fail_cfg' _ _
      · rfl
    · rfl
    · split
      · exact fail_cfg' _ _
      · exact builtinStep_cfg h hok nested hn cut evType _ a acc.1

theorem foldl_actStep_cfg (h : Hooks) (hok : HooksOK h) (nested : List ActionRef → String → St → St)
    (hn : ∀ as ev s, (nested as ev s).cfg = s.cfg) (cut : Bool) (evType : String) :
    ∀ (as : List ActionRef) (acc : St × Bool),
      (as.foldl (actStep h nested cut evType) acc).1.cfg = acc.1.cfg := by
  intro as
  induction as with
  | nil => intro acc; rfl
  | cons a as ih =>
    intro acc
    simp only [List.foldl_cons]
    rw [ih, actStep_cfg h hok nested hn]

theorem execActionsF_cfg (h : Hooks) (hok : HooksOK h) :
    ∀ (fuel : Nat) (as : List ActionRef) (evType : String) (s : St),
      (execActionsF h fuel as evType s).cfg = s.cfg := by
  intro fuel
  induction fuel with
  | zero =>
    intro as evType s
    unfold execActionsF
    exact foldl_actStep_cfg h hok _ (fun _ _ _ => rfl) true evType as (s, false)
  | succ f ih =>
    intro as evType s
    unfold execActionsF
    exact foldl_actStep_cfg h hok _ (fun as ev s => by rw [endExpansion_cfg]; exact ih as ev s) false evType as (s, false)

/-- **actions never touch the configuration** (user actions reach the interpreter only through the
    documented effects: context, raised events) -/
theorem execActions_cfg (h : Hooks) (hok : HooksOK h) (evType : String) (as : List ActionRef) (s : St) :
    (execActions h as evType s).cfg = s.cfg := execActionsF_cfg h hok _ as evType s

/-- once the error flag is set nothing more runs -/
theorem actStep_sticky (h : Hooks) (nested : List ActionRef → String → St → St) (cut : Bool) (evType : String)
    (acc : St × Bool) (a : ActionRef) (he : acc.1.err.isSome = true) :
    actStep h nested cut evType acc a = acc := by
  unfold actStep; simp [he]

theorem foldl_actStep_sticky (h : Hooks) (nested : List ActionRef → String → St → St) (cut : Bool)
    (evType : String) : ∀ (as : List ActionRef) (acc : St × Bool), acc.1.err.isSome = true →
      as.foldl (actStep h nested cut evType) acc = acc := by
  intro as
  induction as with
  | nil => intro acc _; rfl
  | cons a as ih =>
    intro acc he
    simp only [List.foldl_cons]
    rw [actStep_sticky h nested cut evType acc a he]
    exact ih acc he

theorem execActions_sticky (h : Hooks) (evType : String) (as : List ActionRef) (s : St)
    (he : s.err.isSome = true) : execActions h as evType s = s := by
  unfold execActions execActionsF
  rw [foldl_actStep_sticky h _ false evType as (s, false) he]

theorem complete_cfg_err (s : St) : (complete s).cfg = s.cfg ∧ (complete s).err = s.err := by
  unfold complete; split <;> exact ⟨rfl, rfl⟩

theorem checkDone_cfg_err (h : Hooks) (hok : HooksOK h) (m : Machine) (fin : Path) (s : St) :
    (checkAndFireOnDone h m fin s).cfg = s.cfg ∧ (checkAndFireOnDone h m fin s).err = s.err := by
  unfold checkAndFireOnDone
  simp only
  split
  · exact ⟨hok.snd_cfg _ _, hok.snd_err _ _⟩
  · split
    · exact complete_cfg_err s
    · exact ⟨rfl, rfl⟩

theorem mem_addActive {p q : Path} {s : St} : q ∈ (addActive p s).cfg ↔ q ∈ s.cfg ∨ q = p := by
  unfold addActive
  split
  · rename_i hc
    have : p ∈ s.cfg := by simpa using hc
    constructor
    · intro h; exact Or.inl h
    · rintro (h | h)
      · exact h
      · rw [h]; exact this
  · simp
theorem addActive_err (p : Path) (s : St) : (addActive p s).err = s.err := by
  unfold addActive; split <;> rfl
theorem mem_delActive {p q : Path} {s : St} : q ∈ (delActive p s).cfg ↔ q ∈ s.cfg ∧ q ≠ p := by
  simp [delActive, List.mem_filter]
theorem delActive_err (p : Path) (s : St) : (delActive p s).err = s.err := rfl

-- one entry / one exit -----------------------------------------------------------------------------------
theorem enterOne_sticky (h : Hooks) (fl : Flavor) (m : Machine) (ev : Option String) (s : St) (e : Entry)
    (he : s.err.isSome = true) : enterOne h fl m ev s e = s := by
  unfold enterOne; simp [he]
theorem exitOne_sticky (h : Hooks) (fl : Flavor) (m : Machine) (ev : Option String) (s : St) (p : Path)
    (he : s.err.isSome = true) : exitOne h fl m ev s p = s := by
  unfold exitOne; simp [he]

theorem foldl_sticky {α : Type} (f : St → α → St) (hf : ∀ s a, s.err.isSome = true → f s a = s) :
    ∀ (l : List α) (s : St), s.err.isSome = true → l.foldl f s = s := by
  intro l
  induction l with
  | nil => intro s _; rfl
  | cons a l ih => intro s he; simp only [List.foldl_cons]; rw [hf s a he]; exact ih s he

theorem err_none_of_sticky {f : St → St} (hf : ∀ s, s.err.isSome = true → f s = s) (s : St)
    (h : (f s).err = none) : s.err = none := by
  cases he : s.err with
  | none => rfl
  | some e =>
    have : f s = s := hf s (by simp [he])
    rw [this, he] at h; exact absurd h (by simp)

/-- one entry: if no error is flagged afterwards, none was before and exactly `e.path` was added -/
theorem enterOne_spec (h : Hooks) (hok : HooksOK h) (fl : Flavor) (m : Machine) (ev : Option String)
    (s : St) (e : Entry) (hv : (m.defAt e.path).isSome)
    (hr : (enterOne h fl m ev s e).err = none) :
    s.err = none ∧ ∀ q, q ∈ (enterOne h fl m ev s e).cfg ↔ q ∈ s.cfg ∨ q = e.path := by
  have hs : s.err = none :=
    err_none_of_sticky (f := fun s => enterOne h fl m ev s e) (fun s he => enterOne_sticky h fl m ev s e he) s hr
  refine ⟨hs, ?_⟩
  unfold enterOne at hr ⊢
  simp only [hs, Option.isSome_none, Bool.false_eq_true, if_false] at hr ⊢
  cases hd : m.defAt e.path with
  | none => simp [hd] at hv
  | some d =>
    simp only [hd] at hr ⊢
    have hc := execActions_cfg h hok (entryEvName fl m e ev) d.entry (addActive e.path s)
    split
    · intro q; rw [hc]; exact mem_addActive
    · split
      · obtain ⟨hc2, _⟩ := checkDone_cfg_err h hok m e.path
          (execActions h d.entry (entryEvName fl m e ev) (addActive e.path s))
        intro q; rw [hc2, hc]; exact mem_addActive
      · intro q; rw [hc]; exact mem_addActive

theorem enterFold_spec (h : Hooks) (hok : HooksOK h) (fl : Flavor) (m : Machine) (ev : Option String) :
    ∀ (es : List Entry) (s : St), (∀ e ∈ es, (m.defAt e.path).isSome) →
      (es.foldl (enterOne h fl m ev) s).err = none →
      s.err = none ∧
        ∀ q, q ∈ (es.foldl (enterOne h fl m ev) s).cfg ↔ q ∈ s.cfg ∨ q ∈ es.map (·.path) := by
  intro es
  induction es with
  | nil => intro s _ hr; exact ⟨hr, fun q => by simp⟩
  | cons e es ih =>
    intro s hv hr
    simp only [List.foldl_cons] at hr ⊢
    obtain ⟨h3, h4⟩ := ih (enterOne h fl m ev s e) (fun e' he' => hv e' (List.mem_cons_of_mem _ he')) hr
    obtain ⟨h1, h2⟩ := enterOne_spec h hok fl m ev s e (hv e (by simp)) h3
    refine ⟨h1, fun q => ?_⟩
    rw [h4 q, h2 q]
    simp only [List.map_cons, List.mem_cons]
    constructor
    · rintro ((h | h) | h)
      · exact Or.inl h
      · exact Or.inr (Or.inl h)
      · exact Or.inr (Or.inr h)
    · rintro (h | h | h)
      · exact Or.inl (Or.inl h)
      · exact Or.inl (Or.inr h)
      · exact Or.inr h

theorem exitOne_spec (h : Hooks) (hok : HooksOK h) (fl : Flavor) (m : Machine) (ev : Option String)
    (s : St) (p : Path) (hv : (m.defAt p).isSome) (hr : (exitOne h fl m ev s p).err = none) :
    s.err = none ∧ ∀ q, q ∈ (exitOne h fl m ev s p).cfg ↔ q ∈ s.cfg ∧ q ≠ p := by
  have hs : s.err = none :=
    err_none_of_sticky (f := fun s => exitOne h fl m ev s p) (fun s he => exitOne_sticky h fl m ev s p he) s hr
  refine ⟨hs, ?_⟩
  unfold exitOne
  simp only [hs, Option.isSome_none, Bool.false_eq_true, if_false]
  cases hd : m.defAt p with
  | none => simp [hd] at hv
  | some d =>
    simp only
    have hc := execActions_cfg h hok (exitEvName fl m p ev) d.exit s
    intro q
    rw [mem_delActive, hc]

theorem exitFold_spec (h : Hooks) (hok : HooksOK h) (fl : Flavor) (m : Machine) (ev : Option String) :
    ∀ (ps : List Path) (s : St), (∀ p ∈ ps, (m.defAt p).isSome) →
      (ps.foldl (exitOne h fl m ev) s).err = none →
      s.err = none ∧
        ∀ q, q ∈ (ps.foldl (exitOne h fl m ev) s).cfg ↔ q ∈ s.cfg ∧ q ∉ ps := by
  intro ps
  induction ps with
  | nil => intro s _ hr; exact ⟨hr, fun q => by simp⟩
  | cons p ps ih =>
    intro s hv hr
    simp only [List.foldl_cons] at hr ⊢
    obtain ⟨h3, h4⟩ := ih (exitOne h fl m ev s p) (fun p' hp' => hv p' (List.mem_cons_of_mem _ hp')) hr
    obtain ⟨h1, h2⟩ := exitOne_spec h hok fl m ev s p (hv p (by simp)) h3
    refine ⟨h1, fun q => ?_⟩
    rw [h4 q, h2 q]
    simp only [List.mem_cons, not_or]
    constructor
    · rintro ⟨⟨a, b⟩, c⟩; exact ⟨a, b, c⟩
    · rintro ⟨a, b, c⟩; exact ⟨⟨a, b⟩, c⟩

theorem recordHistory_cfg_err (m : Machine) (ex : List Path) (s : St) :
    (recordHistory m ex s).cfg = s.cfg ∧ (recordHistory m ex s).err = s.err := ⟨rfl, rfl⟩

theorem emit_cfg (r : String) (s : St) : (emit r s).cfg = s.cfg := rfl
theorem emit_err (r : String) (s : St) : (emit r s).err = s.err := rfl

/-- the observer record changes neither the configuration nor the error flag -/
theorem execute_cfg_eq (h : Hooks) (fl : Flavor) (m : Machine) (ev : Ev) (pl : Plan) (s : St) :
    (execute h fl m ev pl s).cfg = (executeCore h fl m ev pl s).cfg := by
  unfold execute; simp only; split <;> rfl
theorem execute_err_eq (h : Hooks) (fl : Flavor) (m : Machine) (ev : Ev) (pl : Plan) (s : St) :
    (execute h fl m ev pl s).err = (executeCore h fl m ev pl s).err := by
  unfold execute; simp only; split <;> rfl

/-- **transition atomicity**: a transition that ends with the error flag set (missing action,
    unresolvable target, a failed entry) leaves the configuration exactly as it was -/
theorem execute_rollback (h : Hooks) (fl : Flavor) (m : Machine) (ev : Ev) (pl : Plan) (s : St)
    (hint : pl.internal = false) (he : (execute h fl m ev pl s).err ≠ none) :
    (execute h fl m ev pl s).cfg = s.cfg := by
  rw [execute_err_eq] at he
  rw [execute_cfg_eq]
  unfold executeCore at he ⊢
  simp only [hint, Bool.false_eq_true, if_false] at he ⊢
  split
  · rfl
  · rename_i hn
    rw [if_neg hn] at he
    cases hr : (runPlan h fl m ev pl s).err with
    | none => exact absurd hr he
    | some e => simp [hr] at hn

/-- an internal (target-less) transition never changes the configuration -/
theorem execute_internal_cfg (h : Hooks) (hok : HooksOK h) (fl : Flavor) (m : Machine) (ev : Ev)
    (pl : Plan) (s : St) (hint : pl.internal = true) : (execute h fl m ev pl s).cfg = s.cfg := by
  rw [execute_cfg_eq]
  unfold executeCore
  simp only [hint, if_true]
  split
  · exact fail_cfg' _ _
  · exact execActions_cfg h hok _ _ _

theorem fail_err_ne (s : St) (e : EErr) : (s.fail e).err ≠ none := by
  unfold St.fail
  split
  · rename_i hh; intro hn; rw [hn] at hh; simp at hh
  · simp

/-- **execute is a fold**: after a successful external plan the configuration is
    `(cfg \ exits) ∪ entries`. -/
theorem execute_cfg (h : Hooks) (hok : HooksOK h) (fl : Flavor) (m : Machine) (ev : Ev) (pl : Plan) (s : St)
    (hint : pl.internal = false)
    (hvx : ∀ p ∈ pl.exits, (m.defAt p).isSome) (hve : ∀ e ∈ pl.entries, (m.defAt e.path).isSome)
    (hr : (execute h fl m ev pl s).err = none) :
    pl.err = none ∧ ∀ q, q ∈ (execute h fl m ev pl s).cfg ↔
        (q ∈ s.cfg ∧ q ∉ pl.exits) ∨ q ∈ pl.entries.map (·.path) := by
  rw [execute_err_eq] at hr
  rw [execute_cfg_eq]
  unfold executeCore at hr ⊢
  simp only [hint, Bool.false_eq_true, if_false] at hr ⊢
  have hrun : (runPlan h fl m ev pl s).err = none := by
    split at hr
    · rename_i hh; simp at hr; rw [hr] at hh; simp at hh
    · exact hr
  simp only [hrun, Option.isSome_none, Bool.false_eq_true, if_false]
  unfold runPlan at hrun ⊢
  simp only at hrun ⊢
  generalize hs2 : pl.exits.foldl (exitOne h fl m (some ev.type)) (recordHistory m pl.exits s) = s2 at hrun ⊢
  generalize hs3 : (if s2.err.isSome = true then s2 else execActions h pl.actions ev.type s2) = s3 at hrun ⊢
  generalize hs4 : pl.entries.foldl (enterOne h fl m (some ev.type)) s3 = s4 at hrun ⊢
  have hperr : pl.err = none := by
    cases hp : pl.err with
    | none => rfl
    | some e => rw [hp] at hrun; exact absurd hrun (fail_err_ne _ _)
  refine ⟨hperr, ?_⟩
  rw [hperr] at hrun ⊢
  simp only at hrun ⊢
  obtain ⟨h3none, e2⟩ := enterFold_spec h hok fl m (some ev.type) pl.entries s3 hve (by rw [hs4]; exact hrun)
  rw [hs4] at e2
  have h2none : s2.err = none := by
    cases h2e : s2.err with
    | none => rfl
    | some e => rw [← hs3] at h3none; simp [h2e] at h3none
  have hs3' : s3 = execActions h pl.actions ev.type s2 := by
    rw [← hs3]; simp [h2none]
  have a1 : s3.cfg = s2.cfg := by rw [hs3']; exact execActions_cfg h hok _ _ _
  obtain ⟨_, x2⟩ := exitFold_spec h hok fl m (some ev.type) pl.exits (recordHistory m pl.exits s) hvx
    (by rw [hs2]; exact h2none)
  rw [hs2] at x2
  intro q
  rw [e2 q, a1, x2 q, (recordHistory_cfg_err m pl.exits s).1]


-- plan entries = specification entries ---------------------------------------------------------------------
def truthyInit (d : StateDef) : Bool := (d.initial.map (· != "")).getD false

-- a compound state with children names a non-empty initial key; one without children names none
mutual
def InitOK : SNode → Prop
  | .mk d kids =>
    InitOKKids kids ∧
    (d.kind = .compound → (kids = [] → truthyInit d = false) ∧ (kids ≠ [] → ∃ k, d.initial = some k ∧ k ≠ ""))
def InitOKKids : List (String × SNode) → Prop
  | [] => True
  | (_, n) :: rest => InitOK n ∧ InitOKKids rest
end

def tag (ps : List Path) : List Entry := ps.map (fun p => ⟨p, true⟩)

theorem tag_paths (ps : List Path) : (tag ps).map (·.path) = ps := by
  simp [tag, List.map_map, Function.comp_def]

theorem regionsNotIn_nil (p : Path) (ks : List (String × SNode)) :
    regionsNotIn [] p ks = enterRegions p ks := by
  induction ks with
  | nil => rfl
  | cons hd rest ih =>
    obtain ⟨k, c⟩ := hd
    simp only [regionsNotIn, enterRegions, List.not_mem_nil, or_false, ih]

theorem enterDefault_cons (p : Path) (n : SNode) : enterDefault p n = p :: (enterDefault p n).tail := by
  match n with
  | .mk d kids => simp [enterDefault]

mutual
theorem dfltDescend_eq (m : Machine) (p : Path) (n : SNode) (hwf : WF n) (hi : InitOK n) :
    dfltDescend m p n = (tag (enterDefault p n).tail, none) := by
  match n with
  | .mk d kids =>
    simp only [WF] at hwf
    simp only [InitOK] at hi
    simp only [dfltDescend, enterDefault, List.tail_cons]
    cases hkd : d.kind <;> simp only [hkd] at hwf hi ⊢
    · simp [tag]
    · -- compound
      have hic := hi.2 trivial
      by_cases hk0 : kids = []
      · have ht := hic.1 hk0
        simp only [truthyInit] at ht
        simp only [ht, Bool.false_eq_true, if_false, hk0, List.isEmpty_nil, Bool.not_true]
        cases hini : d.initial <;> simp [tag, enterInit]
      · obtain ⟨k, hk, hkne⟩ := hic.2 hk0
        have hreal : HasRealKid k kids := by
          rcases hwf.2.2 with h0 | ⟨k', hk', hr⟩
          · exact absurd h0 hk0
          · rw [hk] at hk'; cases hk'; exact hr
        simp only [hk, Option.getD_some]
        have : (Option.map (fun x => x != "") (some k)).getD false = true := by simp [hkne]
        rw [if_pos this]
        exact dfltInit_eq m p k kids hwf.1 hi.1 hreal
    · -- parallel
      rw [dfltRegions_eq m p [] kids hwf.1 hi.1, regionsNotIn_nil]
    · simp [tag]
    · simp [tag]
theorem dfltInit_eq (m : Machine) (p : Path) (k : String) (ks : List (String × SNode))
    (hwf : WFKids ks) (hi : InitOKKids ks) (hreal : HasRealKid k ks) :
    dfltInit m p k ks = (tag (enterInit p k ks), none) := by
  match ks with
  | [] => simp [HasRealKid] at hreal
  | (k', c) :: rest =>
    simp only [WFKids] at hwf
    simp only [InitOKKids] at hi
    simp only [HasRealKid] at hreal
    simp only [dfltInit, enterInit]
    by_cases hk : k' = k
    · simp only [hk, if_true]
      subst hk
      rw [dfltDescend_eq m (p ++ [k']) c hwf.1 hi.1]
      simp only
      rw [enterDefault_cons (p ++ [k']) c]
      simp [tag]
    · simp only [hk, if_false]
      rcases hreal with ⟨h, _⟩ | ⟨_, hr⟩
      · exact absurd h hk
      · exact dfltInit_eq m p k rest hwf.2 hi.2 hr
theorem dfltRegions_eq (m : Machine) (p : Path) (skip : List Path) (ks : List (String × SNode))
    (hwf : WFKids ks) (hi : InitOKKids ks) :
    dfltRegions m p skip ks = (tag (regionsNotIn skip p ks), none) := by
  match ks with
  | [] => simp [dfltRegions, regionsNotIn, tag]
  | (k, c) :: rest =>
    simp only [WFKids] at hwf
    simp only [InitOKKids] at hi
    simp only [dfltRegions, regionsNotIn]
    by_cases hs : c.kind = .history ∨ (p ++ [k]) ∈ skip
    · have : (c.kind == Kind.history || skip.contains (p ++ [k])) = true := by
        rcases hs with h | h
        · simp [h]
        · simp [h]
      simp only [this, if_true, hs, List.nil_append]
      exact dfltRegions_eq m p skip rest hwf.2 hi.2
    · have : (c.kind == Kind.history || skip.contains (p ++ [k])) = false := by
        simp only [not_or] at hs
        simp [hs.1, hs.2]
      simp only [this, Bool.false_eq_true, if_false, hs]
      rw [dfltDescend_eq m (p ++ [k]) c hwf.1 hi.1, dfltRegions_eq m p skip rest hwf.2 hi.2]
      simp only
      rw [enterDefault_cons (p ++ [k]) c]
      simp [tag]
end


theorem initOK_find {k : String} {ks : List (String × SNode)} {c : SNode}
    (h : InitOKKids ks) (hf : findKid k ks = some c) : InitOK c := by
  induction ks with
  | nil => simp [findKid] at hf
  | cons hd rest ih =>
    obtain ⟨k', n⟩ := hd
    simp only [InitOKKids] at h
    simp only [findKid] at hf
    split at hf
    · simp only [Option.some.injEq] at hf; subst hf; exact h.1
    · exact ih h.2 hf

theorem initOK_at {root : SNode} (h : InitOK root) : ∀ (p : Path) (n : SNode), root.at p = some n → InitOK n := by
  intro p
  induction p generalizing root with
  | nil => intro n hn; simp only [SNode.at, Option.some.injEq] at hn; subst hn; exact h
  | cons k p ih =>
    intro n hn
    match root with
    | .mk d kids =>
      simp only [SNode.at] at hn
      cases hf : findKid k kids with
      | none => simp [hf] at hn
      | some c =>
        simp only [hf] at hn
        simp only [InitOK] at h
        exact ih (initOK_find h.1 hf) n hn

/-- the extras the plan computes for one element are the specification's `extra` -/
theorem entryExtras_eq (m : Machine) (L : List Path) (p : Path) (d : StateDef) (kids : List (String × SNode))
    (hat : m.root.at p = some (.mk d kids)) (hwf : WF (.mk d kids)) (hi : InitOK (.mk d kids)) :
    entryExtras m L p d kids = (tag (extra m.root L p), none) := by
  have hwf' := hwf
  simp only [WF] at hwf
  simp only [InitOK] at hi
  unfold entryExtras extra
  simp only [hat]
  cases hkd : d.kind <;> simp only [hkd] at hwf hi ⊢
  · simp [tag]
  · have hic := hi.2 trivial
    by_cases hk0 : kids = []
    · have ht := hic.1 hk0
      simp only [truthyInit] at ht
      simp only [ht, Bool.false_eq_true, if_false, hk0, List.isEmpty_nil, Bool.not_true]
      by_cases he : hasExplicitChild L p = true
      · simp [he, tag]
      · simp only [he]
        cases hini : d.initial <;> simp [tag, enterInit]
    · obtain ⟨k, hk, hkne⟩ := hic.2 hk0
      have hreal : HasRealKid k kids := by
        rcases hwf.2.2 with h0 | ⟨k', hk', hr⟩
        · exact absurd h0 hk0
        · rw [hk] at hk'; cases hk'; exact hr
      simp only [hk, Option.getD_some]
      have : (Option.map (fun x => x != "") (some k)).getD false = true := by simp [hkne]
      rw [if_pos this]
      by_cases he : hasExplicitChild L p = true
      · simp [he, tag]
      · simp only [he, Bool.false_eq_true, if_false]
        exact dfltInit_eq m p k kids hwf.1 hi.1 hreal
  · exact dfltRegions_eq m p L kids hwf.1 hi.1
  · simp [tag]
  · simp [tag]

theorem planEnter_fold (m : Machine) (L : List Path) (hwf : WF m.root) (hi : InitOK m.root) :
    ∀ (L' : List Path) (acc : List Entry), (∀ p ∈ L', ∃ n, m.root.at p = some n) →
      L'.foldl (planEnterStep m L) (acc, none) =
        (acc ++ L'.flatMap (fun p => ⟨p, false⟩ :: tag (extra m.root L p)), none) := by
  intro L'
  induction L' with
  | nil => intro acc _; simp
  | cons p rest ih =>
    intro acc hv
    obtain ⟨n, hn⟩ := hv p (by simp)
    match n, hn with
    | .mk d kids, hn =>
      have hx := entryExtras_eq m L p d kids hn (wf_at hwf p _ hn) (initOK_at hi p _ hn)
      simp only [List.foldl_cons, planEnterStep, hn, hx]
      rw [ih _ (fun q hq => hv q (List.mem_cons_of_mem _ hq))]
      simp [List.flatMap_cons, List.append_assoc]

/-- **plan entries = specification entries**, as lists (hence also in order) -/
theorem planEnter_eq (m : Machine) (L : List Path) (hwf : WF m.root) (hi : InitOK m.root)
    (hv : ∀ p ∈ L, ∃ n, m.root.at p = some n) :
    (planEnter m L).2 = none ∧ (planEnter m L).1.map (·.path) = enterStates m.root L := by
  unfold planEnter
  rw [planEnter_fold m L hwf hi L [] hv]
  refine ⟨rfl, ?_⟩
  simp only [List.nil_append, enterStates, List.map_flatMap, List.map_cons, tag_paths]


-- sorting keeps membership -------------------------------------------------------------------------------
theorem mem_insertBy {α} (le : α → α → Bool) (x y : α) (ys : List α) :
    y ∈ insertBy le x ys ↔ y = x ∨ y ∈ ys := by
  induction ys with
  | nil => simp [insertBy]
  | cons z zs ih =>
    simp only [insertBy]
    split
    · simp
    · simp only [List.mem_cons, ih]
      constructor
      · rintro (h | h | h)
        · exact Or.inr (Or.inl h)
        · exact Or.inl h
        · exact Or.inr (Or.inr h)
      · rintro (h | h | h)
        · exact Or.inr (Or.inl h)
        · exact Or.inl h
        · exact Or.inr (Or.inr h)

theorem mem_sortBy {α} (le : α → α → Bool) (y : α) (xs : List α) : y ∈ sortBy le xs ↔ y ∈ xs := by
  induction xs with
  | nil => simp [sortBy]
  | cons x xs ih =>
    simp only [sortBy, List.foldr_cons] at ih ⊢
    rw [mem_insertBy, ih]; simp

theorem mem_sortExit (m : Machine) (q : Path) (xs : List Path) : q ∈ sortExit m xs ↔ q ∈ xs := by
  simp [sortExit, mem_sortBy]

theorem Legal_congr {root : SNode} {c c' : List Path} (h : ∀ q, q ∈ c ↔ q ∈ c') (hL : Legal root c) :
    Legal root c' := by
  constructor
  · exact (h _).1 hL.root_active
  · intro q hq; exact hL.states q ((h q).2 hq)
  · intro q hq; exact (h _).1 (hL.parent_active q ((h q).2 hq))
  · intro p hp d kids hat hk hk0
    obtain ⟨k, hk1, hk2⟩ := hL.compound_one p ((h p).2 hp) d kids hat hk hk0
    exact ⟨k, (h _).1 hk1, fun k' hk' => hk2 k' ((h _).2 hk')⟩
  · intro p hp d kids hat hk k ch hm hh
    exact (h _).1 (hL.parallel_all p ((h p).2 hp) d kids hat hk k ch hm hh)

theorem defAt_isSome_of_at {m : Machine} {p : Path} {n : SNode} (h : m.root.at p = some n) :
    (m.defAt p).isSome := by
  simp [Machine.defAt, h]

theorem domainO_plain (m : Machine) (src tgt : Path) (htne : tgt ≠ [])
    (hkh : ¬ (m.kindAt tgt = some Kind.history)) :
    domainO m src tgt = some (Spec.domain src tgt) := by
  unfold domainO Spec.domain
  by_cases h1 : tgt = src
  · subst h1; simp [htne]
  · simp only [h1, if_false]
    by_cases h2 : tgt <+: src
    · simp [h2, htne]
    · simp [h2, hkh]

/-- **C01 on the executable model, one external transition** (plain target: resolvable, not a
    history node, not the machine root; hooks that only enqueue — i.e. every phase of both engines).
    Whatever the actions do — succeed, raise, be missing — the configuration afterwards is legal:
    either the transition completed and the configuration is the specification's, or it failed and
    the configuration is the one before. -/
theorem legal_microstep_plain (h : Hooks) (hok : HooksOK h) (fl : Flavor) (m : Machine) (ev : Ev)
    (c : Cand) (s : St) (hwf : WF m.root) (hi : InitOK m.root)
    (hL : Legal m.root s.cfg) (hsrc : c.src ∈ s.cfg)
    (tstr : String) (ht : c.t.target = some tstr) (hne : tstr ≠ "")
    (tgt : Path) (hres : resolveRobust m c.src tstr = some tgt)
    (hext : ¬ (tgt = c.src ∧ c.t.reenter = false))
    (nt : SNode) (htgt : m.root.at tgt = some nt) (hnh : nt.kind ≠ .history) (htne : tgt ≠ []) :
    Legal m.root (execute h fl m ev (planTransition m s.cfg s.hist c) s).cfg := by
  -- unfold the plan
  have hdp : Spec.domain c.src tgt <+: tgt := domain_prefix_tgt c.src tgt
  have hpf : pathFrom (domain c.src tgt) tgt = pathToEnter (Spec.domain c.src tgt) tgt := by
    simp only [pathFrom, domain, List.isPrefixOf_iff_prefix.2 hdp, if_true, pathToEnter]
  have hnotint : (tgt = c.src && !c.t.reenter) = false := by
    cases hr : c.t.reenter with
    | true => simp
    | false =>
      by_cases he : tgt = c.src
      · exact absurd ⟨he, hr⟩ hext
      · simp [he]
  have hkh : ¬ (m.kindAt tgt = some Kind.history) := by
    simp only [Machine.kindAt, htgt, Option.map_some, Option.some.injEq]
    exact hnh
  have hvL : ∀ p ∈ pathToEnter (Spec.domain c.src tgt) tgt, ∃ n, m.root.at p = some n := by
    intro p hp
    obtain ⟨_, _, h3⟩ := (mem_pathToEnter hdp).1 hp
    obtain ⟨t, ht'⟩ := h3
    rw [← ht'] at htgt
    exact at_prefix_some htgt
  obtain ⟨hperr, hpent⟩ := planEnter_eq m (pathToEnter (Spec.domain c.src tgt) tgt) hwf hi hvL
  have hplan : planTransition m s.cfg s.hist c =
      { exits := sortExit m (exitSet m s.cfg (domain c.src tgt) tgt), actions := c.t.actions,
        entries := (planEnter m (pathToEnter (Spec.domain c.src tgt) tgt)).1,
        err := (planEnter m (pathToEnter (Spec.domain c.src tgt) tgt)).2 } := by
    unfold planTransition
    simp only [ht, hne, if_false, hres, hnotint, Bool.false_eq_true, hkh, domainO_plain m c.src tgt htne hkh,
      pathFromO]
    have hpf' : pathFrom (Spec.domain c.src tgt) tgt = pathToEnter (Spec.domain c.src tgt) tgt := hpf
    rw [hpf']
    rfl
  rw [hplan]
  -- either the transition failed (rollback) or it ran completely
  cases herr : (execute h fl m ev
      { exits := sortExit m (exitSet m s.cfg (domain c.src tgt) tgt), actions := c.t.actions,
        entries := (planEnter m (pathToEnter (Spec.domain c.src tgt) tgt)).1,
        err := (planEnter m (pathToEnter (Spec.domain c.src tgt) tgt)).2 } s).err with
  | some e =>
    rw [execute_rollback h fl m ev _ s rfl (by rw [herr]; simp)]
    exact hL
  | none =>
    have hvx : ∀ p ∈ sortExit m (exitSet m s.cfg (domain c.src tgt) tgt), (m.defAt p).isSome := by
      intro p hp
      rw [mem_sortExit] at hp
      have hpc : p ∈ s.cfg := (mem_exitSet.1 hp).1
      obtain ⟨n, hn, _⟩ := hL.states p hpc
      exact defAt_isSome_of_at hn
    have hve : ∀ e ∈ (planEnter m (pathToEnter (Spec.domain c.src tgt) tgt)).1, (m.defAt e.path).isSome := by
      intro e he
      have : e.path ∈ enterStates m.root (pathToEnter (Spec.domain c.src tgt) tgt) := by
        rw [← hpent]; exact List.mem_map_of_mem he
      obtain ⟨n, hn⟩ := enterStates_at m.root hwf _ hvL e.path this
      exact defAt_isSome_of_at hn
    obtain ⟨_, hmem⟩ := execute_cfg h hok fl m ev
      { exits := sortExit m (exitSet m s.cfg (domain c.src tgt) tgt), actions := c.t.actions,
        entries := (planEnter m (pathToEnter (Spec.domain c.src tgt) tgt)).1,
        err := (planEnter m (pathToEnter (Spec.domain c.src tgt) tgt)).2 } s rfl hvx hve herr
    -- and the resulting configuration is the specification's
    have hspec := legal_step_flat m.root hwf s.cfg hL c.src tgt hsrc nt htgt hnh htne
    refine Legal_congr ?_ hspec
    intro q
    rw [hmem q, mem_stepConfig, hpent]
    simp only [mem_sortExit, exitSet, domain]

-- the fold step of `processEvent` --------------------------------------------------------------------
/-- the step function `processEvent` folds over the selected transitions (`n` is `len(transitions)`) -/
def peStep (h : Hooks) (fl : Flavor) (m : Machine) (ev : Ev) (n : Nat) (s : St) (c : Cand) : St :=
  if s.err.isSome then s
  else if finished s.status then s
  else if n > 1 && !(s.cfg.contains c.src) then s
  else execute h fl m ev (planTransition m s.cfg s.hist c) s

theorem processEvent_peFold (h : Hooks) (fl : Flavor) (m : Machine) (u : UEnv) (ev : Ev) (s : St)
    {sel : List Cand} (hs : selectTransitions m s.cfg (u.genv s.ctx ev.type) ev = .ok sel) :
    processEvent h fl m u ev s = sel.foldl (peStep h fl m ev sel.length) s := by
  unfold processEvent
  rw [hs]
  rfl

/-- case analysis of the fold step: the state is returned unchanged, or the candidate is executed
    from an error-free, unfinished state in which (several transitions selected) its source is active -/
theorem peStep_cases (h : Hooks) (fl : Flavor) (m : Machine) (ev : Ev) (n : Nat) (s : St) (c : Cand) :
    peStep h fl m ev n s c = s ∨
    (s.err = none ∧ finished s.status = false ∧ (n > 1 → c.src ∈ s.cfg) ∧
      peStep h fl m ev n s c = execute h fl m ev (planTransition m s.cfg s.hist c) s) := by
  unfold peStep
  by_cases herr : s.err.isSome = true
  · left; simp only [herr, if_true]
  · by_cases hfin : finished s.status = true
    · left; simp only [herr, hfin, if_true]; simp
    · by_cases hst : (decide (n > 1) && !(s.cfg.contains c.src)) = true
      · left; simp only [herr, hfin, hst, if_true]; simp
      · right
        refine ⟨?_, by simpa using hfin, ?_, ?_⟩
        · cases he : s.err with
          | none => rfl
          | some e => simp [he] at herr
        · intro hn
          simp only [hn, decide_true, Bool.true_and, Bool.not_eq_true', Bool.not_eq_false] at hst
          simpa using hst
        · simp only [herr, hfin, hst]; simp

theorem peStep_err (h : Hooks) (fl : Flavor) (m : Machine) (ev : Ev) (n : Nat) (s : St) (c : Cand)
    (he : s.err.isSome = true) : peStep h fl m ev n s c = s := by
  unfold peStep; simp only [he, if_true]

theorem peStep_finished (h : Hooks) (fl : Flavor) (m : Machine) (ev : Ev) (n : Nat) (s : St) (c : Cand)
    (hf : finished s.status = true) : peStep h fl m ev n s c = s := by
  unfold peStep; simp only [hf, if_true]; split <;> rfl

/-- `break`: from a finished state the remaining candidates contribute nothing -/
theorem peFold_finished (h : Hooks) (fl : Flavor) (m : Machine) (ev : Ev) (n : Nat) (cs : List Cand) (s : St)
    (hf : finished s.status = true) : cs.foldl (peStep h fl m ev n) s = s := by
  induction cs with
  | nil => rfl
  | cons c cs ih => rw [List.foldl_cons, peStep_finished h fl m ev n s c hf]; exact ih

theorem peFold_err (h : Hooks) (fl : Flavor) (m : Machine) (ev : Ev) (n : Nat) (cs : List Cand) (s : St)
    (he : s.err.isSome = true) : cs.foldl (peStep h fl m ev n) s = s := by
  induction cs with
  | nil => rfl
  | cons c cs ih => rw [List.foldl_cons, peStep_err h fl m ev n s c he]; exact ih

theorem finished_running : finished "running" = false := by decide
theorem finished_of_running {st : String} (h : st = "running") : finished st = false := by
  subst h; decide

end XSM
