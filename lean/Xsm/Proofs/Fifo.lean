import Xsm.Proofs.Lifecycle
import Xsm.Proofs.Termination
/-
Helper definitions and lemmas for C04: what a drain receives, in which order, and what it writes.
-/
namespace XSM
open XSM.Done

-- hooks: a send made while an event is being processed only enqueues -----------------------------------------
theorem enqueueQ_eq (b : Bool) (e : Ev) (s : St) :
    enqueueQ b e s = if s.status = "running" then { s with queue := s.queue ++ [⟨e, b⟩] } else s := rfl

theorem hooksAsync_queue (u : UEnv) (m : Machine) : HooksRel queueRel (hooksAsync u m) :=
  ⟨fun e s => enqueueQ_queue true e { s with raiseDepth := s.raiseDepth + 1 },
   fun e s => enqueueQ_queue true e { s with raiseDepth := s.raiseDepth + 1 }⟩

-- one macrostep: the queue only grows at its tail ----------------------------------------------------------------
/-- the events the macrostep of `e` (run from `s`, `e` already dequeued) appended to the queue -/
def raisedBy (m : Machine) (u : UEnv) (e : Ev) (s : St) : List QEv := (syncMacro m u e s).queue.drop s.queue.length

theorem syncMacro_queue (m : Machine) (u : UEnv) (e : Ev) (s : St) :
    (syncMacro m u e s).queue = s.queue ++ raisedBy m u e s := by
  obtain ⟨x, hx⟩ := syncProcessed_queue m u e s
  unfold raisedBy
  rw [syncMacro_eq, ← hx]
  simp

/-- the async macrostep (chain breaker not tripped) -/
theorem asyncProcessed_queue (m : Machine) (u : UEnv) (e : Ev) (s : St) :
    ∃ added, (asyncProcessed m u e s).queue = s.queue ++ added := by
  have h1 := processEvent_rel queueRel_eng (hooksAsync u m) (hooksAsync_queue u m) .async m u e
    (emit ("#recv:" ++ e.type) s)
  have h2 := transientLoop_rel queueRel_eng (hooksAsync u m) (hooksAsync_queue u m) .async m u m.maxIterations
    (processEvent (hooksAsync u m) .async m u e (emit ("#recv:" ++ e.type) s))
  exact queueRel_eng.trans (a := emit ("#recv:" ++ e.type) s) h1 h2

theorem asyncProcess_queue (m : Machine) (u : UEnv) (e : Ev) (s : St) :
    (asyncProcess m u e s).queue = (asyncProcessed m u e s).queue := by
  rw [asyncProcess_eq, (asyncChainEnd_fields _ _).2.2.1]
  split <;> rfl

theorem asyncStep_queue (m : Machine) (u : UEnv) (q : QEv) (s : St) (hd : ¬ s.raiseDepth > m.maxIterations) :
    (asyncStep m u q s).queue = (asyncProcessed m u q.ev s).queue := by
  rw [asyncStep_not_tripped m u q s hd, asyncProcess_queue]

def asyncRaisedBy (m : Machine) (u : UEnv) (q : QEv) (s : St) : List QEv :=
  (asyncStep m u q s).queue.drop s.queue.length

theorem asyncStep_queue_eq (m : Machine) (u : UEnv) (q : QEv) (s : St) (hd : ¬ s.raiseDepth > m.maxIterations) :
    (asyncStep m u q s).queue = s.queue ++ asyncRaisedBy m u q s := by
  obtain ⟨x, hx⟩ := asyncProcessed_queue m u q.ev s
  unfold asyncRaisedBy
  rw [asyncStep_queue m u q s hd, hx]
  simp

-- the sync drain ---------------------------------------------------------------------------------------------------
theorem drainLog_cons (m : Machine) (u : UEnv) (budget : Nat) (s : St) (q : QEv) (rest : List QEv)
    (hq : s.queue = q :: rest) (hrun : s.status = "running") :
    drainLog m u (budget + 1) s =
      q.ev :: (if (syncMacro m u q.ev { s with queue := rest }).err.isSome = true then []
               else drainLog m u budget (syncMacro m u q.ev { s with queue := rest })) := by
  cases s with
  | mk cfg hist queue status trace err ctx rd errors =>
    simp only at hq hrun
    subst hq; subst hrun
    simp only [drainLog, ne_eq, not_true_eq_false, if_false]

theorem drainLog_nil (m : Machine) (u : UEnv) (budget : Nat) (s : St) (hq : s.queue = []) :
    drainLog m u (budget + 1) s = [] := by
  cases s with
  | mk cfg hist queue status trace err ctx rd errors =>
    simp only at hq
    subst hq
    simp only [drainLog]

theorem drainLog_not_running (m : Machine) (u : UEnv) (budget : Nat) (s : St) (h : s.status ≠ "running") :
    drainLog m u budget s = [] := by
  cases budget with
  | zero => rfl
  | succ n =>
    cases hq : s.queue with
    | nil => exact drainLog_nil m u n s hq
    | cons q rest =>
      cases s with
      | mk cfg hist queue status trace err ctx rd errors =>
        simp only at hq h
        subst hq
        simp only [drainLog, ne_eq, h, not_false_eq_true, if_true]

/-- **the drain budget counts every dequeued event**: one drain receives at most `budget` events -/
theorem drainLog_length_le (m : Machine) (u : UEnv) : ∀ (budget : Nat) (s : St),
    (drainLog m u budget s).length ≤ budget := by
  intro budget
  induction budget with
  | zero => intro s; simp [drainLog]
  | succ n ih =>
    intro s
    cases hq : s.queue with
    | nil => rw [drainLog_nil m u n s hq]; simp
    | cons q rest =>
      by_cases hrun : s.status = "running"
      · rw [drainLog_cons m u n s q rest hq hrun]
        split
        · simp
        · have := ih (syncMacro m u q.ev { s with queue := rest })
          simp only [List.length_cons]; omega
      · rw [drainLog_not_running m u _ s hrun]; simp

/-- a drain that did not raise leaves NOTHING queued (processed, or discarded by the budget / by a
    machine that stopped running) -/
theorem drainLoop_queue_nil (m : Machine) (u : UEnv) : ∀ (budget : Nat) (s : St),
    (drainLoop m u budget s).err = none → (drainLoop m u budget s).queue = [] := by
  intro budget
  induction budget with
  | zero =>
    intro s _
    rw [drainLoop_zero]
    split
    · rename_i h; exact List.isEmpty_iff.1 h
    · rfl
  | succ n ih =>
    intro s he
    cases hq : s.queue with
    | nil => rw [drainLoop_nil m u n s hq]; exact hq
    | cons q rest =>
      by_cases hrun : s.status = "running"
      · rw [drainLoop_cons m u n s q rest hq hrun] at he ⊢
        split
        · rename_i hs
          rw [if_pos hs] at he
          rw [he] at hs; exact absurd hs (by simp)
        · rename_i hs
          rw [if_neg hs] at he
          exact ih _ he
      · rw [drainLoop_not_running m u n hrun]
        split
        · rename_i h; exact h
        · rfl

/-- nothing cuts this drain short: the budget suffices, the machine keeps running, no macrostep raises -/
def DrainClean (m : Machine) (u : UEnv) : Nat → St → Prop
  | 0, s => s.queue = []
  | budget + 1, s =>
    match s.queue with
    | [] => True
    | q :: rest =>
      s.status = "running" ∧ (syncMacro m u q.ev { s with queue := rest }).err = none ∧
        DrainClean m u budget (syncMacro m u q.ev { s with queue := rest })

theorem DrainClean_cons (m : Machine) (u : UEnv) (budget : Nat) (s : St) (q : QEv) (rest : List QEv)
    (hq : s.queue = q :: rest) :
    DrainClean m u (budget + 1) s ↔
      (s.status = "running" ∧ (syncMacro m u q.ev { s with queue := rest }).err = none ∧
        DrainClean m u budget (syncMacro m u q.ev { s with queue := rest })) := by
  cases s with
  | mk cfg hist queue status trace err ctx rd errors =>
    simp only at hq
    subst hq
    simp only [DrainClean]

instance decDrainClean (m : Machine) (u : UEnv) : ∀ (b : Nat) (s : St), Decidable (DrainClean m u b s)
  | 0, s => by unfold DrainClean; exact inferInstance
  | b + 1, s => by
    cases hq : s.queue with
    | nil => exact isTrue (by cases s; simp only at hq; subst hq; simp [DrainClean])
    | cons q rest =>
      have := decDrainClean m u b (syncMacro m u q.ev { s with queue := rest })
      exact decidable_of_iff _ (DrainClean_cons m u b s q rest hq).symm

/-- the events the macrosteps of this drain append to the queue, in the order they are appended -/
def drainRaised (m : Machine) (u : UEnv) : Nat → St → List Ev
  | 0, _ => []
  | budget + 1, s =>
    match s.queue with
    | [] => []
    | q :: rest =>
      if s.status ≠ "running" then []
      else
        (raisedBy m u q.ev { s with queue := rest }).map (·.ev) ++
          (if (syncMacro m u q.ev { s with queue := rest }).err.isSome then []
           else drainRaised m u budget (syncMacro m u q.ev { s with queue := rest }))

theorem drainRaised_cons (m : Machine) (u : UEnv) (budget : Nat) (s : St) (q : QEv) (rest : List QEv)
    (hq : s.queue = q :: rest) (hrun : s.status = "running") :
    drainRaised m u (budget + 1) s =
      (raisedBy m u q.ev { s with queue := rest }).map (·.ev) ++
        (if (syncMacro m u q.ev { s with queue := rest }).err.isSome = true then []
         else drainRaised m u budget (syncMacro m u q.ev { s with queue := rest })) := by
  cases s with
  | mk cfg hist queue status trace err ctx rd errors =>
    simp only at hq hrun
    subst hq; subst hrun
    simp only [drainRaised, ne_eq, not_true_eq_false, if_false]

theorem drainRaised_nil (m : Machine) (u : UEnv) (budget : Nat) (s : St) (hq : s.queue = []) :
    drainRaised m u (budget + 1) s = [] := by
  cases s with
  | mk cfg hist queue status trace err ctx rd errors =>
    simp only at hq
    subst hq
    simp only [drainRaised]

/-- **FIFO, exactly once (sync drain)**: a drain that nothing cuts short receives exactly the queued
    events, in queue order, each once, and THEN the events its macrosteps raised, in raise order -/
theorem drain_fifo (m : Machine) (u : UEnv) : ∀ (budget : Nat) (s : St), DrainClean m u budget s →
    drainLog m u budget s = s.queue.map (·.ev) ++ drainRaised m u budget s := by
  intro budget
  induction budget with
  | zero => intro s h; simp only [DrainClean] at h; simp [drainLog, drainRaised, h]
  | succ n ih =>
    intro s h
    cases hq : s.queue with
    | nil => rw [drainLog_nil m u n s hq, drainRaised_nil m u n s hq]; rfl
    | cons q rest =>
      obtain ⟨hrun, herr, hc⟩ := (DrainClean_cons m u n s q rest hq).1 h
      have hns : ¬ (syncMacro m u q.ev { s with queue := rest }).err.isSome = true := by rw [herr]; simp
      rw [drainLog_cons m u n s q rest hq hrun, drainRaised_cons m u n s q rest hq hrun, if_neg hns, if_neg hns,
        ih _ hc, syncMacro_queue]
      simp

-- the events queued when a drain starts (repair of F10) ---------------------------------------------------------------
theorem drainCut_cons (m : Machine) (u : UEnv) (budget : Nat) (s : St) (q : QEv) (rest : List QEv)
    (hq : s.queue = q :: rest) (hrun : s.status = "running") :
    Term.drainCut m u (budget + 1) s =
      if (syncMacro m u q.ev { s with queue := rest }).err.isSome = true then false
      else Term.drainCut m u budget (syncMacro m u q.ev { s with queue := rest }) := by
  cases s with
  | mk cfg hist queue status trace err ctx rd errors =>
    simp only at hq hrun
    subst hq; subst hrun
    simp only [Term.drainCut, syncMacro, ne_eq, not_true_eq_false, if_false]
    rfl

theorem drainCut_nil (m : Machine) (u : UEnv) (budget : Nat) (s : St) (hq : s.queue = []) :
    Term.drainCut m u (budget + 1) s = false := by
  cases s with
  | mk cfg hist queue status trace err ctx rd errors =>
    simp only at hq
    subst hq
    simp only [Term.drainCut]

theorem drainCut_not_running (m : Machine) (u : UEnv) (budget : Nat) (s : St) (h : s.status ≠ "running") :
    Term.drainCut m u (budget + 1) s = false := by
  cases hq : s.queue with
  | nil => exact drainCut_nil m u budget s hq
  | cons q rest =>
    cases s with
    | mk cfg hist queue status trace err ctx rd errors =>
      simp only at hq h
      subst hq
      simp only [Term.drainCut, ne_eq, h, not_false_eq_true, if_true]

theorem drainSteps_cons (m : Machine) (u : UEnv) (budget : Nat) (s : St) (q : QEv) (rest : List QEv)
    (hq : s.queue = q :: rest) (hrun : s.status = "running") :
    Term.drainSteps m u (budget + 1) s =
      if (syncMacro m u q.ev { s with queue := rest }).err.isSome = true then 1
      else 1 + Term.drainSteps m u budget (syncMacro m u q.ev { s with queue := rest }) := by
  cases s with
  | mk cfg hist queue status trace err ctx rd errors =>
    simp only at hq hrun
    subst hq; subst hrun
    simp only [Term.drainSteps, syncMacro, ne_eq, not_true_eq_false, if_false]
    rfl

/-- the instrumented step counter of C13 counts exactly the received events -/
theorem drainLog_length (m : Machine) (u : UEnv) : ∀ (budget : Nat) (s : St),
    (drainLog m u budget s).length = Term.drainSteps m u budget s := by
  intro budget
  induction budget with
  | zero => intro s; rfl
  | succ n ih =>
    intro s
    cases hq : s.queue with
    | nil =>
      rw [drainLog_nil m u n s hq]
      cases s with
      | mk cfg hist queue status trace err ctx rd errors =>
        simp only at hq; subst hq; simp only [Term.drainSteps]; rfl
    | cons q rest =>
      by_cases hrun : s.status = "running"
      · rw [drainLog_cons m u n s q rest hq hrun, drainSteps_cons m u n s q rest hq hrun]
        split
        · rfl
        · rw [List.length_cons, ih]; omega
      · rw [drainLog_not_running m u _ s hrun]
        cases s with
        | mk cfg hist queue status trace err ctx rd errors =>
          simp only at hq hrun
          subst hq
          simp only [Term.drainSteps, ne_eq, hrun, not_false_eq_true, if_true]; rfl

/-- **the events queued when a drain starts are never cut off by the budget.** `init` is a prefix of the queue
    (what was queued when the drain started; `more` is whatever was enqueued since) and the budget covers it.
    Then (1) the first events the drain receives ARE the events of `init`, in queue order, none skipped, none
    twice — as many of them as the drain receives at all; (2) a drain that returns with the interpreter
    still "running" and without raising has received ALL of `init`; (3) a drain that raises (a macrostep
    failed: the sync engine aborts the drain) leaves the part of `init` not yet received in the queue, in
    order, at its head. (The remaining way out: the machine completed / was stopped — the status gate of the
    drain then drops what is queued, as `send()` drops later events.) -/
theorem drain_initial (m : Machine) (u : UEnv) : ∀ (init : List QEv) (budget : Nat) (s : St) (more : List QEv),
    s.queue = init ++ more → init.length ≤ budget →
    (drainLog m u budget s).take init.length = (init.map (·.ev)).take (drainLog m u budget s).length ∧
    ((drainLoop m u budget s).err = none → (drainLoop m u budget s).status = "running" →
      init.length ≤ (drainLog m u budget s).length) ∧
    (s.status = "running" → (drainLoop m u budget s).err ≠ none →
      init.drop (drainLog m u budget s).length <+: (drainLoop m u budget s).queue) := by
  intro init
  induction init with
  | nil =>
    intro budget s more _ _
    exact ⟨by simp, fun _ _ => Nat.zero_le _, fun _ _ => by simp⟩
  | cons q init' ih =>
    intro budget s more hq hB
    obtain ⟨b, rfl⟩ : ∃ b, budget = b + 1 := ⟨budget - 1, by simp only [List.length_cons] at hB; omega⟩
    have hq' : s.queue = q :: (init' ++ more) := by rw [hq]; rfl
    have hB' : init'.length ≤ b := by simp only [List.length_cons] at hB; omega
    by_cases hrun : s.status = "running"
    · rw [drainLog_cons m u b s q _ hq' hrun, drainLoop_cons m u b s q _ hq' hrun]
      have hsq : (syncMacro m u q.ev { s with queue := init' ++ more }).queue =
          init' ++ (more ++ raisedBy m u q.ev { s with queue := init' ++ more }) := by
        rw [syncMacro_queue]; exact List.append_assoc _ _ _
      by_cases herr : (syncMacro m u q.ev { s with queue := init' ++ more }).err.isSome = true
      · rw [if_pos herr, if_pos herr]
        refine ⟨by simp, fun h => ?_, fun _ _ => ?_⟩
        · rw [h] at herr; exact absurd herr (by simp)
        · simp only [List.length_cons, List.length_nil, Nat.zero_add, List.drop_succ_cons, List.drop_zero]
          rw [hsq]; exact List.prefix_append _ _
      · rw [if_neg herr, if_neg herr]
        obtain ⟨i1, i2, i3⟩ := ih b _ _ hsq hB'
        refine ⟨?_, fun h1 h2 => ?_, fun _ h => ?_⟩
        · simp only [List.length_cons, List.take_succ_cons, List.map_cons]
          rw [i1]
        · have := i2 h1 h2
          simp only [List.length_cons]; omega
        · simp only [List.length_cons, List.drop_succ_cons]
          by_cases hr' : (syncMacro m u q.ev { s with queue := init' ++ more }).status = "running"
          · exact i3 hr' h
          · exfalso
            apply h
            cases b with
            | zero =>
              rw [drainLoop_zero]
              have : (syncMacro m u q.ev { s with queue := init' ++ more }).err = none := by
                cases hx : (syncMacro m u q.ev { s with queue := init' ++ more }).err with
                | none => rfl
                | some _ => rw [hx] at herr; exact absurd rfl herr
              split <;> exact this
            | succ b =>
              rw [drainLoop_not_running m u b hr']
              have : (syncMacro m u q.ev { s with queue := init' ++ more }).err = none := by
                cases hx : (syncMacro m u q.ev { s with queue := init' ++ more }).err with
                | none => rfl
                | some _ => rw [hx] at herr; exact absurd rfl herr
              split <;> exact this
    · rw [drainLog_not_running m u _ s hrun, drainLoop_not_running m u b hrun]
      refine ⟨by simp, fun _ h2 => ?_, fun h => absurd h hrun⟩
      exfalso; apply hrun
      split at h2 <;> exact h2

/-- **a drain whose budget is exhausted with events still queued has received every event that was queued
    when it started and `budget - init.length` more**: what the cut discards was enqueued while draining -/
theorem drainCut_steps (m : Machine) (u : UEnv) : ∀ (budget : Nat) (s : St),
    Term.drainCut m u budget s = true → (drainLog m u budget s).length = budget := by
  intro budget s hc
  rw [drainLog_length]
  have h1 := Term.drainSteps_le m u budget s
  by_cases hlt : Term.drainSteps m u budget s < budget
  · rw [Term.drainCut_false_of_steps_lt m u budget s hlt] at hc; exact absurd hc (by simp)
  · omega

/-- **a drain in which at most `budget - queue length` events are enqueued while draining is not cut**
    (`drainRaised`: the events the macrosteps of this drain append, over all events processed) -/
theorem drainCut_false_of_raised (m : Machine) (u : UEnv) : ∀ (budget : Nat) (s : St),
    s.queue.length + (drainRaised m u budget s).length ≤ budget → Term.drainCut m u budget s = false := by
  intro budget
  induction budget with
  | zero =>
    intro s h
    have : s.queue = [] := List.length_eq_zero_iff.1 (by omega)
    simp [Term.drainCut, this]
  | succ n ih =>
    intro s h
    cases hq : s.queue with
    | nil => exact drainCut_nil m u n s hq
    | cons q rest =>
      by_cases hrun : s.status = "running"
      · rw [drainCut_cons m u n s q rest hq hrun]
        rw [drainRaised_cons m u n s q rest hq hrun, hq] at h
        split
        · rfl
        · rename_i herr
          rw [if_neg herr] at h
          apply ih
          rw [syncMacro_queue]
          simp only [List.length_append, List.length_cons, List.length_map] at h ⊢
          have : ({ s with queue := rest } : St).queue.length = rest.length := rfl
          omega
      · exact drainCut_not_running m u n s hrun

-- what a drain writes -------------------------------------------------------------------------------------------------
/-- a record written during the macrostep of `e`: by a transition taken for `e`, or by an eventless
    (`always`) transition while settling -/
def MacroRec (e : Ev) (r : String) : Prop := TransRec e.type r ∨ TransRec "" r

theorem transientLoop_adds (h : Hooks) (htr : HooksTraceOK h) (fl : Flavor) (m : Machine) (u : UEnv) :
    ∀ (fuel : Nat) (s : St), Adds (TransRec "") s (transientLoop h fl m u fuel s) := by
  intro fuel
  induction fuel with
  | zero => intro s; exact Adds.refl _ _
  | succ n ih =>
    intro s
    simp only [transientLoop]
    split
    · exact Adds.refl _ _
    · split
      · exact Adds.of_eq (fail_trace _ _)
      · split
        · exact Adds.trans (processEvent_adds h htr fl m u (.user "") s) (ih _)
        · exact Adds.refl _ _

theorem syncMacro_adds (m : Machine) (u : UEnv) (e : Ev) (s : St) :
    Adds (MacroRec e) (emit ("#recv:" ++ e.type) s) (syncMacro m u e s) := by
  unfold syncMacro
  exact Adds.trans
    ((processEvent_adds (hooksFlagged u m) (hooksFlagged_traceOK u m) .sync m u e _).mono (fun _ h => Or.inl h))
    ((transientLoop_adds (hooksFlagged u m) (hooksFlagged_traceOK u m) .sync m u _ _).mono (fun _ h => Or.inr h))

/-- the records of the macrostep of `e` after its `#recv` record -/
def macroRecords (m : Machine) (u : UEnv) (e : Ev) (s : St) : List String :=
  delta (emit ("#recv:" ++ e.type) s) (syncMacro m u e s)

theorem syncMacro_chron (m : Machine) (u : UEnv) (e : Ev) (s : St) :
    (syncMacro m u e s).chron = s.chron ++ ("#recv:" ++ e.type) :: macroRecords m u e s := by
  rw [(syncMacro_adds m u e s).chron.1, chron_emit]
  simp [macroRecords]

theorem macroRecords_spec (m : Machine) (u : UEnv) (e : Ev) (s : St) : ∀ r ∈ macroRecords m u e s, MacroRec e r :=
  (syncMacro_adds m u e s).chron.2

/-- the macrosteps of a drain: the dequeued event with the records written while it was processed -/
def drainSegs (m : Machine) (u : UEnv) : Nat → St → List (Ev × List String)
  | 0, _ => []
  | budget + 1, s =>
    match s.queue with
    | [] => []
    | q :: rest =>
      if s.status ≠ "running" then []
      else
        (q.ev, macroRecords m u q.ev { s with queue := rest }) ::
          (if (syncMacro m u q.ev { s with queue := rest }).err.isSome then []
           else drainSegs m u budget (syncMacro m u q.ev { s with queue := rest }))

theorem drainSegs_cons (m : Machine) (u : UEnv) (budget : Nat) (s : St) (q : QEv) (rest : List QEv)
    (hq : s.queue = q :: rest) (hrun : s.status = "running") :
    drainSegs m u (budget + 1) s =
      (q.ev, macroRecords m u q.ev { s with queue := rest }) ::
        (if (syncMacro m u q.ev { s with queue := rest }).err.isSome = true then []
         else drainSegs m u budget (syncMacro m u q.ev { s with queue := rest })) := by
  cases s with
  | mk cfg hist queue status trace err ctx rd errors =>
    simp only at hq hrun
    subst hq; subst hrun
    simp only [drainSegs, ne_eq, not_true_eq_false, if_false]

theorem drainSegs_nil (m : Machine) (u : UEnv) (budget : Nat) (s : St) (hq : s.queue = []) :
    drainSegs m u (budget + 1) s = [] := by
  cases s with
  | mk cfg hist queue status trace err ctx rd errors =>
    simp only at hq
    subst hq
    simp only [drainSegs]

theorem drainSegs_not_running (m : Machine) (u : UEnv) (budget : Nat) (s : St) (h : s.status ≠ "running") :
    drainSegs m u budget s = [] := by
  cases budget with
  | zero => rfl
  | succ n =>
    cases hq : s.queue with
    | nil => exact drainSegs_nil m u n s hq
    | cons q rest =>
      cases s with
      | mk cfg hist queue status trace err ctx rd errors =>
        simp only at hq h
        subst hq
        simp only [drainSegs, ne_eq, h, not_false_eq_true, if_true]

/-- how one macrostep shows in the trace: its `#recv` record, then its own records -/
def segRecords (p : Ev × List String) : List String := ("#recv:" ++ p.1.type) :: p.2

/-- **run-to-completion structure of the trace**: what a drain appends to the trace is the concatenation,
    per dequeued event and in dequeue order, of `#recv:e · records of e's macrostep` — whatever happens
    (budget cut, error, completion) -/
theorem drain_chron (m : Machine) (u : UEnv) : ∀ (budget : Nat) (s : St),
    (drainLoop m u budget s).chron = s.chron ++ (drainSegs m u budget s).flatMap segRecords := by
  intro budget
  induction budget with
  | zero =>
    intro s
    rw [drainLoop_zero]
    split <;> simp [drainSegs, St.chron]
  | succ n ih =>
    intro s
    cases hq : s.queue with
    | nil => rw [drainLoop_nil m u n s hq, drainSegs_nil m u n s hq]; simp
    | cons q rest =>
      by_cases hrun : s.status = "running"
      · rw [drainLoop_cons m u n s q rest hq hrun, drainSegs_cons m u n s q rest hq hrun]
        have hc := syncMacro_chron m u q.ev { s with queue := rest }
        have hs : ({ s with queue := rest } : St).chron = s.chron := rfl
        rw [hs] at hc
        split
        · rw [hc]; simp [segRecords]
        · rw [ih, hc]; simp [segRecords]
      · rw [drainLoop_not_running m u n hrun, drainSegs_not_running m u _ s hrun]
        split <;> simp [St.chron]

theorem drainSegs_events (m : Machine) (u : UEnv) : ∀ (budget : Nat) (s : St),
    (drainSegs m u budget s).map (·.1) = drainLog m u budget s := by
  intro budget
  induction budget with
  | zero => intro s; rfl
  | succ n ih =>
    intro s
    cases hq : s.queue with
    | nil => rw [drainSegs_nil m u n s hq, drainLog_nil m u n s hq]; rfl
    | cons q rest =>
      by_cases hrun : s.status = "running"
      · rw [drainSegs_cons m u n s q rest hq hrun, drainLog_cons m u n s q rest hq hrun]
        split
        · simp
        · simp [ih]
      · rw [drainSegs_not_running m u _ s hrun, drainLog_not_running m u _ s hrun]; rfl

theorem drainSegs_records (m : Machine) (u : UEnv) : ∀ (budget : Nat) (s : St),
    ∀ p ∈ drainSegs m u budget s, ∀ r ∈ p.2, MacroRec p.1 r := by
  intro budget
  induction budget with
  | zero => intro s p hp; simp [drainSegs] at hp
  | succ n ih =>
    intro s p hp
    cases hq : s.queue with
    | nil => rw [drainSegs_nil m u n s hq] at hp; simp at hp
    | cons q rest =>
      by_cases hrun : s.status = "running"
      · rw [drainSegs_cons m u n s q rest hq hrun] at hp
        rcases List.mem_cons.1 hp with hp | hp
        · subst hp; exact macroRecords_spec m u q.ev _
        · split at hp
          · simp at hp
          · exact ih _ p hp
      · rw [drainSegs_not_running m u _ s hrun] at hp; simp at hp

-- the async run loop ---------------------------------------------------------------------------------------------------
theorem asyncLogQ_cons (m : Machine) (u : UEnv) (fuel : Nat) (s : St) (q : QEv) (rest : List QEv)
    (hq : s.queue = q :: rest) (hrun : s.status = "running") :
    asyncLogQ m u (fuel + 1) s =
      (if asyncReceives m q s = true then [q] else []) ++
        asyncLogQ m u fuel (asyncStep m u q { s with queue := rest }) := by
  cases s with
  | mk cfg hist queue status trace err ctx rd errors =>
    simp only at hq hrun
    subst hq; subst hrun
    simp only [asyncLogQ, ne_eq, not_true_eq_false, if_false]

theorem asyncLogQ_nil (m : Machine) (u : UEnv) (fuel : Nat) (s : St) (hq : s.queue = []) :
    asyncLogQ m u (fuel + 1) s = [] := by
  cases s with
  | mk cfg hist queue status trace err ctx rd errors =>
    simp only at hq
    subst hq
    simp only [asyncLogQ]
    split <;> rfl

theorem asyncLogQ_not_running (m : Machine) (u : UEnv) (fuel : Nat) (s : St) (h : s.status ≠ "running") :
    asyncLogQ m u fuel s = [] := by
  cases fuel with
  | zero => rfl
  | succ n => simp only [asyncLogQ, h, ne_eq, not_false_eq_true, if_true]

theorem asyncReceives_eq_true (m : Machine) (q : QEv) (s : St) :
    asyncReceives m q s = true ↔ ¬ (s.raiseDepth > m.maxIterations ∧ q.self = true) := by
  unfold asyncReceives
  by_cases hd : s.raiseDepth > m.maxIterations <;> cases hq : q.self <;> simp [hd, hq]

/-- an EXTERNAL event is always handed to `on_event_received` / `_process_event` -/
theorem asyncReceives_external (m : Machine) (q : QEv) (s : St) (hq : q.self = false) : asyncReceives m q s = true := by
  unfold asyncReceives; simp [hq]

theorem asyncLog_cons (m : Machine) (u : UEnv) (fuel : Nat) (s : St) (q : QEv) (rest : List QEv)
    (hq : s.queue = q :: rest) (hrun : s.status = "running") :
    asyncLog m u (fuel + 1) s =
      (if asyncReceives m q s = true then [q.ev] else []) ++
        asyncLog m u fuel (asyncStep m u q { s with queue := rest }) := by
  unfold asyncLog
  rw [asyncLogQ_cons m u fuel s q rest hq hrun, List.map_append]
  split <;> rfl

theorem asyncLog_nil (m : Machine) (u : UEnv) (fuel : Nat) (s : St) (hq : s.queue = []) :
    asyncLog m u (fuel + 1) s = [] := by
  unfold asyncLog; rw [asyncLogQ_nil m u fuel s hq]; rfl

/-- nothing cuts this run of the loop short: the MODEL's fuel suffices, the machine keeps running while
    events are queued, the chain breaker never trips -/
def AsyncClean (m : Machine) (u : UEnv) : Nat → St → Prop
  | 0, s => s.queue = []
  | fuel + 1, s =>
    match s.queue with
    | [] => True
    | q :: rest =>
      s.status = "running" ∧ ¬ s.raiseDepth > m.maxIterations ∧
        AsyncClean m u fuel (asyncStep m u q { s with queue := rest })

theorem AsyncClean_cons (m : Machine) (u : UEnv) (fuel : Nat) (s : St) (q : QEv) (rest : List QEv)
    (hq : s.queue = q :: rest) :
    AsyncClean m u (fuel + 1) s ↔
      (s.status = "running" ∧ ¬ s.raiseDepth > m.maxIterations ∧
        AsyncClean m u fuel (asyncStep m u q { s with queue := rest })) := by
  cases s with
  | mk cfg hist queue status trace err ctx rd errors =>
    simp only at hq
    subst hq
    simp only [AsyncClean]

instance decAsyncClean (m : Machine) (u : UEnv) : ∀ (f : Nat) (s : St), Decidable (AsyncClean m u f s)
  | 0, s => by unfold AsyncClean; exact inferInstance
  | f + 1, s => by
    cases hq : s.queue with
    | nil => exact isTrue (by cases s; simp only at hq; subst hq; simp [AsyncClean])
    | cons q rest =>
      have := decAsyncClean m u f (asyncStep m u q { s with queue := rest })
      exact decidable_of_iff _ (AsyncClean_cons m u f s q rest hq).symm

def asyncRaised (m : Machine) (u : UEnv) : Nat → St → List Ev
  | 0, _ => []
  | fuel + 1, s =>
    match s.queue with
    | [] => []
    | q :: rest =>
      (asyncRaisedBy m u q { s with queue := rest }).map (·.ev) ++
        asyncRaised m u fuel (asyncStep m u q { s with queue := rest })

theorem asyncRaised_cons (m : Machine) (u : UEnv) (fuel : Nat) (s : St) (q : QEv) (rest : List QEv)
    (hq : s.queue = q :: rest) :
    asyncRaised m u (fuel + 1) s =
      (asyncRaisedBy m u q { s with queue := rest }).map (·.ev) ++
        asyncRaised m u fuel (asyncStep m u q { s with queue := rest }) := by
  cases s with
  | mk cfg hist queue status trace err ctx rd errors =>
    simp only at hq
    subst hq
    simp only [asyncRaised]

theorem asyncRaised_nil (m : Machine) (u : UEnv) (fuel : Nat) (s : St) (hq : s.queue = []) :
    asyncRaised m u (fuel + 1) s = [] := by
  cases s with
  | mk cfg hist queue status trace err ctx rd errors =>
    simp only at hq
    subst hq
    simp only [asyncRaised]

/-- **FIFO, exactly once (async run loop)** -/
theorem async_fifo (m : Machine) (u : UEnv) : ∀ (fuel : Nat) (s : St), AsyncClean m u fuel s →
    asyncLog m u fuel s = s.queue.map (·.ev) ++ asyncRaised m u fuel s ∧ (asyncDrain m u fuel s).queue = [] := by
  intro fuel
  induction fuel with
  | zero =>
    intro s h
    simp only [AsyncClean] at h
    refine ⟨by simp [asyncLog, asyncLogQ, asyncRaised, h], ?_⟩
    simp only [asyncDrain]
    split
    · exact h
    · exact h
  | succ n ih =>
    intro s h
    cases hq : s.queue with
    | nil =>
      rw [asyncLog_nil m u n s hq, asyncRaised_nil m u n s hq, asyncDrain_nil m u n s hq]
      exact ⟨rfl, hq⟩
    | cons q rest =>
      obtain ⟨hrun, hd, hc⟩ := (AsyncClean_cons m u n s q rest hq).1 h
      obtain ⟨h1, h2⟩ := ih _ hc
      have hd' : ¬ ({ s with queue := rest } : St).raiseDepth > m.maxIterations := hd
      have hrecv : asyncReceives m q s = true := (asyncReceives_eq_true m q s).2 (fun hh => hd hh.1)
      rw [asyncLog_cons m u n s q rest hq hrun, asyncRaised_cons m u n s q rest hq, if_pos hrecv, h1,
        asyncStep_queue_eq m u q _ hd', asyncDrain_cons m u n s q rest hq hrun]
      exact ⟨by simp, h2⟩

open XSM.Term in
/-- **external events: exactly once, in order, UNCONDITIONALLY** (any fuel, any counter, breaker tripping
    or not, macrosteps failing or not, machine completing or not): the external events the run loop
    received, followed by the external events still queued when it returns, are exactly the external
    events that were queued when it started — same events, same order, none lost, none duplicated. -/
theorem async_external_split (m : Machine) (u : UEnv) : ∀ (fuel : Nat) (s : St),
    extOf (asyncLogQ m u fuel s) ++ extOf (asyncDrain m u fuel s).queue = extOf s.queue := by
  intro fuel
  induction fuel with
  | zero =>
    intro s
    simp only [asyncLogQ, asyncDrain]
    split <;> simp [extOf]
  | succ n ih =>
    intro s
    by_cases hrun : s.status = "running"
    · cases hq : s.queue with
      | nil => rw [asyncLogQ_nil m u n s hq, asyncDrain_nil m u n s hq, hq]; rfl
      | cons q rest =>
        rw [asyncLogQ_cons m u n s q rest hq hrun, asyncDrain_cons m u n s q rest hq hrun]
        have hk := asyncStep_keeps_queued_external m u q { s with queue := rest }
        have hi := ih (asyncStep m u q { s with queue := rest })
        rw [hk] at hi
        have hrest : extOf ({ s with queue := rest } : St).queue = extOf rest := rfl
        rw [hrest] at hi
        cases hself : q.self with
        | false =>
          rw [if_pos (asyncReceives_external m q s hself)]
          unfold extOf at hi ⊢
          rw [List.filter_append, List.append_assoc, hi]
          simp [hself]
        | true =>
          unfold extOf at hi ⊢
          rw [List.filter_append, List.append_assoc, hi]
          split <;> simp [hself]
    · rw [asyncLogQ_not_running m u _ s hrun, asyncDrain_not_running m u _ hrun]; rfl

-- what the async loop writes for an event it processes ---------------------------------------------------------
theorem asyncProcess_trace (m : Machine) (u : UEnv) (e : Ev) (s : St) :
    (asyncProcess m u e s).trace = (asyncProcessed m u e s).trace := by
  rw [asyncProcess_eq, (asyncChainEnd_fields _ _).2.2.2.2.1]
  split <;> rfl

theorem asyncProcess_adds (m : Machine) (u : UEnv) (e : Ev) (s : St) :
    Adds (MacroRec e) (emit ("#recv:" ++ e.type) s) (asyncProcess m u e s) := by
  have h : Adds (MacroRec e) (emit ("#recv:" ++ e.type) s) (asyncProcessed m u e s) := by
    unfold asyncProcessed
    exact Adds.trans
      ((processEvent_adds (hooksAsync u m) (hooksAsync_traceOK u m) .async m u e _).mono (fun _ h => Or.inl h))
      ((transientLoop_adds (hooksAsync u m) (hooksAsync_traceOK u m) .async m u _ _).mono (fun _ h => Or.inr h))
  obtain ⟨t, ht, hp⟩ := h
  exact ⟨t, by rw [asyncProcess_trace, ht], hp⟩

/-- the records of the async macrostep of `e` after its `#recv` record -/
def asyncMacroRecords (m : Machine) (u : UEnv) (e : Ev) (s : St) : List String :=
  delta (emit ("#recv:" ++ e.type) s) (asyncProcess m u e s)

/-- an event the run loop processes shows in the trace as `#recv:e` followed by its own records only -/
theorem asyncProcess_chron (m : Machine) (u : UEnv) (e : Ev) (s : St) :
    (asyncProcess m u e s).chron = s.chron ++ ("#recv:" ++ e.type) :: asyncMacroRecords m u e s ∧
    ∀ r ∈ asyncMacroRecords m u e s, MacroRec e r := by
  refine ⟨?_, (asyncProcess_adds m u e s).chron.2⟩
  rw [(asyncProcess_adds m u e s).chron.1, chron_emit]
  simp [asyncMacroRecords]

theorem asyncBase_chron (m : Machine) (s : St) : (Term.asyncBase m s).chron = s.chron := by
  unfold Term.asyncBase; split <;> rfl

end XSM
