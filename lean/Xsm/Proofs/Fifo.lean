import Xsm.Proofs.Lifecycle
import Xsm.Proofs.Termination
import Xsm.Proofs.SyncDrain
/-
Helper definitions and lemmas for C04: what a drain receives, in which order, and what it writes.
-/
namespace XSM
open XSM.Done

-- hooks: a send made while an event is being processed only enqueues -----------------------------------------
theorem enqueueQ_eq (b : Bool) (e : Ev) (s : St) :
    enqueueQ b e s = if s.status = "running" then { s with queue := s.queue ++ [⟨e, b⟩] } else s := rfl

theorem hooksAsync_queue (u : UEnv) (m : Machine) : HooksRel queueRel (hooksAsync u m) :=
  ⟨fun e s => enqueueQ_queue true e { s with raiseDepth := s.raiseDepth + 1 },
   fun e s => enqueueQ_queue true e { s with raiseDepth := s.raiseDepth + 1 }⟩

-- one macrostep: the queue only grows at its tail ----------------------------------------------------------------
/-- the events the macrostep of `e` (run from `s`, `e` already dequeued) appended to the queue -/
def raisedBy (m : Machine) (u : UEnv) (e : Ev) (s : St) : List QEv := (syncMacro m u e s).queue.drop s.queue.length

theorem syncMacro_queue (m : Machine) (u : UEnv) (e : Ev) (s : St) :
    (syncMacro m u e s).queue = s.queue ++ raisedBy m u e s := by
  obtain ⟨x, hx⟩ := syncProcessed_queue m u e s
  unfold raisedBy
  rw [syncMacro_eq, ← hx]
  simp

/-- the async macrostep (chain breaker not tripped) -/
theorem asyncProcessed_queue (m : Machine) (u : UEnv) (e : Ev) (s : St) :
    ∃ added, (asyncProcessed m u e s).queue = s.queue ++ added := by
  have h1 := processEvent_rel queueRel_eng (hooksAsync u m) (hooksAsync_queue u m) .async m u e
    (emit ("#recv:" ++ e.type) s)
  have h2 := transientLoop_rel queueRel_eng (hooksAsync u m) (hooksAsync_queue u m) .async m u m.maxIterations
    (processEvent (hooksAsync u m) .async m u e (emit ("#recv:" ++ e.type) s))
  exact queueRel_eng.trans (a := emit ("#recv:" ++ e.type) s) h1 h2

theorem asyncProcess_queue (m : Machine) (u : UEnv) (e : Ev) (s : St) :
    (asyncProcess m u e s).queue = (asyncProcessed m u e s).queue := by
  rw [asyncProcess_eq, (asyncChainEnd_fields _ _).2.2.1]
  split <;> rfl

theorem asyncStep_queue (m : Machine) (u : UEnv) (q : QEv) (s : St) (hd : ¬ s.raiseDepth > m.maxIterations) :
    (asyncStep m u q s).queue = (asyncProcessed m u q.ev s).queue := by
  rw [asyncStep_not_tripped m u q s hd, asyncProcess_queue]

def asyncRaisedBy (m : Machine) (u : UEnv) (q : QEv) (s : St) : List QEv :=
  (asyncStep m u q s).queue.drop s.queue.length

theorem asyncStep_queue_eq (m : Machine) (u : UEnv) (q : QEv) (s : St) (hd : ¬ s.raiseDepth > m.maxIterations) :
    (asyncStep m u q s).queue = s.queue ++ asyncRaisedBy m u q s := by
  obtain ⟨x, hx⟩ := asyncProcessed_queue m u q.ev s
  unfold asyncRaisedBy
  rw [asyncStep_queue m u q s hd, hx]
  simp

-- the sync drain ---------------------------------------------------------------------------------------------------
open XSM.Term in
theorem drainLog_zero (m : Machine) (u : UEnv) (c : Nat) (s : St) : drainLog m u 0 c s = [] := rfl

open XSM.Term in
/-- the head does not trip the bound: it is received, its macrostep runs, and the drain goes on unless it failed -/
theorem drainLog_cons (m : Machine) (u : UEnv) (fuel c : Nat) (s : St) (q : QEv) (rest : List QEv)
    (hq : s.queue = q :: rest) (hrun : s.status = "running") (ht : syncTrips m c q = false) :
    drainLog m u (fuel + 1) c s =
      q.ev :: (if (syncMacro m u q.ev { s with queue := rest }).err.isSome = true then []
               else drainLog m u fuel (chainedNext c q) (syncMacro m u q.ev { s with queue := rest })) := by
  unfold drainLog
  rw [drainLogQ_step m u fuel c s q rest hq hrun ht]
  split <;> simp

open XSM.Term in
/-- the head is a marked event that trips the bound: nothing is received, the marked entries are purged -/
theorem drainLog_trip (m : Machine) (u : UEnv) (fuel c : Nat) (s : St) (q : QEv) (rest : List QEv)
    (hq : s.queue = q :: rest) (hrun : s.status = "running") (ht : syncTrips m c q = true) :
    drainLog m u (fuel + 1) c s = drainLog m u fuel 0 (syncPurge s) := by
  unfold drainLog
  rw [drainLogQ_trip m u fuel c s q rest hq hrun ht]

open XSM.Term in
theorem drainLog_nil (m : Machine) (u : UEnv) (fuel c : Nat) (s : St) (hq : s.queue = []) :
    drainLog m u (fuel + 1) c s = [] := by
  unfold drainLog; rw [drainLogQ_nil m u fuel c s hq]; rfl

open XSM.Term in
theorem drainLog_not_running (m : Machine) (u : UEnv) (fuel c : Nat) (s : St) (h : s.status ≠ "running") :
    drainLog m u fuel c s = [] := by
  cases fuel with
  | zero => rfl
  | succ n => unfold drainLog; rw [drainLogQ_dead m u n c s h]; rfl

open XSM.Term in
/-- the instrumented step counter of C13 counts exactly the received events -/
theorem drainLog_length (m : Machine) (u : UEnv) (fuel c : Nat) (s : St) :
    (drainLog m u fuel c s).length = Term.drainSteps m u fuel c s := by
  unfold drainLog; rw [List.length_map]; exact drainLogQ_length m u fuel c s

/-- a drain that did not raise leaves NOTHING queued (processed, purged by a cut, or dropped by the status
    gate of a machine that stopped running) -/
theorem drainLoop_queue_nil (m : Machine) (u : UEnv) (fuel c : Nat) (s : St) :
    (drainLoop m u fuel c s).err = none → (drainLoop m u fuel c s).queue = [] :=
  Term.drainLoop_queue_nil_of_ok m u fuel c s

/-- nothing cuts this drain short: the bound never trips (and the model's fuel suffices), the machine keeps
    running, no macrostep raises -/
def DrainClean (m : Machine) (u : UEnv) : Nat → Nat → St → Prop
  | 0, _, s => s.queue = []
  | fuel + 1, c, s =>
    match s.queue with
    | [] => True
    | q :: rest =>
      s.status = "running" ∧ syncTrips m c q = false ∧ (syncMacro m u q.ev { s with queue := rest }).err = none ∧
        DrainClean m u fuel (chainedNext c q) (syncMacro m u q.ev { s with queue := rest })

theorem DrainClean_cons (m : Machine) (u : UEnv) (fuel c : Nat) (s : St) (q : QEv) (rest : List QEv)
    (hq : s.queue = q :: rest) :
    DrainClean m u (fuel + 1) c s ↔
      (s.status = "running" ∧ syncTrips m c q = false ∧ (syncMacro m u q.ev { s with queue := rest }).err = none ∧
        DrainClean m u fuel (chainedNext c q) (syncMacro m u q.ev { s with queue := rest })) := by
  cases s with
  | mk cfg hist queue status trace err ctx rd errors =>
    simp only at hq
    subst hq
    simp only [DrainClean]

instance decDrainClean (m : Machine) (u : UEnv) : ∀ (b c : Nat) (s : St), Decidable (DrainClean m u b c s)
  | 0, c, s => by unfold DrainClean; exact inferInstance
  | b + 1, c, s => by
    cases hq : s.queue with
    | nil => exact isTrue (by cases s; simp only at hq; subst hq; simp [DrainClean])
    | cons q rest =>
      have := decDrainClean m u b (chainedNext c q) (syncMacro m u q.ev { s with queue := rest })
      exact decidable_of_iff _ (DrainClean_cons m u b c s q rest hq).symm


/-- the events the macrosteps of this drain append to the queue, in the order they are appended -/
def drainRaised (m : Machine) (u : UEnv) : Nat → Nat → St → List Ev
  | 0, _, _ => []
  | fuel + 1, c, s =>
    match s.queue with
    | [] => []
    | q :: rest =>
      if s.status ≠ "running" then []
      else if syncTrips m c q then drainRaised m u fuel 0 (syncPurge s)
      else (raisedBy m u q.ev { s with queue := rest }).map (·.ev) ++ (if (syncMacro m u q.ev { s with queue := rest }).err.isSome then [] else drainRaised m u fuel (chainedNext c q) (syncMacro m u q.ev { s with queue := rest }))

theorem drainRaised_zero (m : Machine) (u : UEnv) (c : Nat) (s : St) : drainRaised m u 0 c s = ([]) := by
  simp only [drainRaised]

theorem drainRaised_nil (m : Machine) (u : UEnv) (fuel c : Nat) (s : St) (hq : s.queue = []) :
    drainRaised m u (fuel + 1) c s = [] := by
  cases s with
  | mk cfg hist queue status trace err ctx rd errors =>
    simp only at hq
    subst hq
    simp only [drainRaised]

theorem drainRaised_dead (m : Machine) (u : UEnv) (fuel c : Nat) (s : St) (h : s.status ≠ "running") :
    drainRaised m u (fuel + 1) c s = [] := by
  cases hq : s.queue with
  | nil => exact drainRaised_nil m u fuel c s hq
  | cons q rest =>
    cases s with
    | mk cfg hist queue status trace err ctx rd errors =>
      simp only at hq h
      subst hq
      simp only [drainRaised, ne_eq, h, not_false_eq_true, if_true]

theorem drainRaised_trip (m : Machine) (u : UEnv) (fuel c : Nat) (s : St) (q : QEv) (rest : List QEv)
    (hq : s.queue = q :: rest) (hrun : s.status = "running") (ht : syncTrips m c q = true) :
    drainRaised m u (fuel + 1) c s = drainRaised m u fuel 0 (syncPurge s) := by
  cases s with
  | mk cfg hist queue status trace err ctx rd errors =>
    simp only at hq hrun
    subst hq; subst hrun
    simp only [drainRaised, ne_eq, not_true_eq_false, if_false, ht, if_true]

theorem drainRaised_step (m : Machine) (u : UEnv) (fuel c : Nat) (s : St) (q : QEv) (rest : List QEv)
    (hq : s.queue = q :: rest) (hrun : s.status = "running") (ht : syncTrips m c q = false) :
    drainRaised m u (fuel + 1) c s =
      (raisedBy m u q.ev { s with queue := rest }).map (·.ev) ++ (if (syncMacro m u q.ev { s with queue := rest }).err.isSome = true then [] else drainRaised m u fuel (chainedNext c q) (syncMacro m u q.ev { s with queue := rest })) := by
  cases s with
  | mk cfg hist queue status trace err ctx rd errors =>
    simp only at hq hrun
    subst hq; subst hrun
    simp only [drainRaised, ne_eq, not_true_eq_false, if_false, ht, Bool.false_eq_true]

/-- **FIFO, exactly once (sync drain)**: a drain that nothing cuts short receives exactly the queued
    events, in queue order, each once, and THEN the events its macrosteps raised, in raise order -/
theorem drain_fifo (m : Machine) (u : UEnv) : ∀ (fuel c : Nat) (s : St), DrainClean m u fuel c s →
    drainLog m u fuel c s = s.queue.map (·.ev) ++ drainRaised m u fuel c s := by
  intro fuel
  induction fuel with
  | zero => intro c s h; simp only [DrainClean] at h; simp [drainLog_zero, drainRaised_zero, h]
  | succ n ih =>
    intro c s h
    cases hq : s.queue with
    | nil => rw [drainLog_nil m u n c s hq, drainRaised_nil m u n c s hq]; rfl
    | cons q rest =>
      obtain ⟨hrun, ht, herr, hc⟩ := (DrainClean_cons m u n c s q rest hq).1 h
      have hns : ¬ (syncMacro m u q.ev { s with queue := rest }).err.isSome = true := by rw [herr]; simp
      rw [drainLog_cons m u n c s q rest hq hrun ht, drainRaised_step m u n c s q rest hq hrun ht, if_neg hns, if_neg hns,
        ih _ _ hc, syncMacro_queue]
      simp

open XSM.Term in
/-- a clean drain is not cut, and leaves nothing queued -/
theorem drainClean_not_cut (m : Machine) (u : UEnv) : ∀ (fuel c : Nat) (s : St), DrainClean m u fuel c s →
    Term.drainCut m u fuel c s = false ∧ (drainLoop m u fuel c s).queue = [] := by
  intro fuel
  induction fuel with
  | zero =>
    intro c s h
    simp only [DrainClean] at h
    rw [drainCut_zero, drainLoop_zero]; simp [h]
  | succ n ih =>
    intro c s h
    cases hq : s.queue with
    | nil => rw [drainCut_nil m u n c s hq, drainLoop_nil m u n c s hq]; exact ⟨rfl, hq⟩
    | cons q rest =>
      obtain ⟨hrun, ht, herr, hc⟩ := (DrainClean_cons m u n c s q rest hq).1 h
      have hns : ¬ (syncMacro m u q.ev { s with queue := rest }).err.isSome = true := by rw [herr]; simp
      rw [drainCut_step m u n c s q rest hq hrun ht, drainLoop_cons m u n c s q rest hq hrun ht, if_neg hns, if_neg hns]
      exact ih _ _ hc

-- the events queued when a drain starts (repair of F10) ---------------------------------------------------------------
open XSM.Term in
/-- **external events queued at the head when a drain starts are received first, in order.** `init` is a
    prefix of the queue consisting of EXTERNAL (unmarked) events — what `send()` / `send_events()` accepted on
    an interpreter with nothing queued, or whatever external events are at the head — `more` is the rest, and
    the model's fuel covers `init`. Then (1) the first events the drain receives ARE the events of `init`, in
    queue order, none skipped, none twice — as many of them as the drain receives at all (an external event
    never trips the bound, and is never purged); (2) a drain that returns with the interpreter still "running"
    and without raising has received ALL of `init`; (3) a drain that raises (a macrostep failed: the sync
    engine aborts the drain) leaves the part of `init` not yet received in the queue, in order, at its head.
    (The remaining way out: the machine completed / was stopped — the status gate of the drain then drops
    what is queued, as `send()` drops later events.) -/
theorem drain_initial (m : Machine) (u : UEnv) : ∀ (init : List QEv) (fuel c : Nat) (s : St) (more : List QEv),
    s.queue = init ++ more → (∀ q ∈ init, q.self = false) → init.length ≤ fuel →
    (drainLog m u fuel c s).take init.length = (init.map (·.ev)).take (drainLog m u fuel c s).length ∧
    ((drainLoop m u fuel c s).err = none → (drainLoop m u fuel c s).status = "running" →
      init.length ≤ (drainLog m u fuel c s).length) ∧
    (s.status = "running" → (drainLoop m u fuel c s).err ≠ none →
      init.drop (drainLog m u fuel c s).length <+: (drainLoop m u fuel c s).queue) := by
  intro init
  induction init with
  | nil =>
    intro fuel c s more _ _ _
    exact ⟨by simp, fun _ _ => Nat.zero_le _, fun _ _ => by simp⟩
  | cons q init' ih =>
    intro fuel c s more hq hext hB
    obtain ⟨b, rfl⟩ : ∃ b, fuel = b + 1 := ⟨fuel - 1, by simp only [List.length_cons] at hB; omega⟩
    have hq' : s.queue = q :: (init' ++ more) := by rw [hq]; rfl
    have hB' : init'.length ≤ b := by simp only [List.length_cons] at hB; omega
    have hqe : q.self = false := hext q (by simp)
    have hext' : ∀ x ∈ init', x.self = false := fun x hx => hext x (List.mem_cons_of_mem _ hx)
    have ht : syncTrips m c q = false := syncTrips_ext m c hqe
    by_cases hrun : s.status = "running"
    · rw [drainLog_cons m u b c s q _ hq' hrun ht, drainLoop_cons m u b c s q _ hq' hrun ht]
      have hsq : (syncMacro m u q.ev { s with queue := init' ++ more }).queue =
          init' ++ (more ++ raisedBy m u q.ev { s with queue := init' ++ more }) := by
        rw [syncMacro_queue]; exact List.append_assoc _ _ _
      by_cases herr : (syncMacro m u q.ev { s with queue := init' ++ more }).err.isSome = true
      · rw [if_pos herr, if_pos herr]
        refine ⟨by simp, fun h => ?_, fun _ _ => ?_⟩
        · rw [h] at herr; exact absurd herr (by simp)
        · simp only [List.length_cons, List.length_nil, Nat.zero_add, List.drop_succ_cons, List.drop_zero]
          rw [hsq]; exact List.prefix_append _ _
      · rw [if_neg herr, if_neg herr]
        obtain ⟨i1, i2, i3⟩ := ih b (chainedNext c q) _ _ hsq hext' hB'
        have hnone : (syncMacro m u q.ev { s with queue := init' ++ more }).err = none := by
          cases hx : (syncMacro m u q.ev { s with queue := init' ++ more }).err with
          | none => rfl
          | some _ => rw [hx] at herr; exact absurd rfl herr
        refine ⟨?_, fun h1 h2 => ?_, fun _ h => ?_⟩
        · simp only [List.length_cons, List.take_succ_cons, List.map_cons]
          rw [i1]
        · have := i2 h1 h2
          simp only [List.length_cons]; omega
        · simp only [List.length_cons, List.drop_succ_cons]
          by_cases hr' : (syncMacro m u q.ev { s with queue := init' ++ more }).status = "running"
          · exact i3 hr' h
          · exfalso
            apply h
            cases b with
            | zero => rw [drainLoop_zero]; split <;> exact hnone
            | succ b => rw [drainLoop_not_running m u b _ hr']; split <;> exact hnone
    · rw [drainLog_not_running m u _ c s hrun, drainLoop_not_running m u b c hrun]
      refine ⟨by simp, fun _ h2 => ?_, fun h => absurd h hrun⟩
      exfalso; apply hrun
      split at h2 <;> exact h2

open XSM.Term in
/-- **a drain in which at most `maxIterations` MARKED events come up is never cut**: the marked entries queued
    when it starts (`cntSelf`: leftovers of a drain that raised, what `start()` queued) plus the events its
    macrosteps enqueue (`drainRaised`: every `raise`, every `done.state.*`, every `send` to itself, over all
    events processed) plus the counter at the start within the bound — however many EXTERNAL events are queued -/
theorem drainTrips_zero_of_raised (m : Machine) (u : UEnv) : ∀ (fuel c : Nat) (s : St),
    c + cntSelf s.queue + (drainRaised m u fuel c s).length ≤ m.maxIterations → Term.drainTrips m u fuel c s = 0 := by
  apply drain_cases m u (fun fuel c s =>
    c + cntSelf s.queue + (drainRaised m u fuel c s).length ≤ m.maxIterations → Term.drainTrips m u fuel c s = 0)
  · intro c s _; rfl
  · intro fuel c s hq _; exact drainTrips_nil m u fuel c s hq
  · intro fuel c s hr _; exact drainTrips_dead m u fuel c s hr
  · intro fuel c s q rest hq hr ht _ h
    exfalso
    obtain ⟨hself, hlt⟩ := (syncTrips_eq_true m c q).1 ht
    rw [hq, cntSelf_cons, hself] at h
    simp only [if_true] at h
    omega
  · intro fuel c s q rest hq hr ht ih h
    rw [drainTrips_step m u fuel c s q rest hq hr ht]
    split
    · rfl
    · rename_i he
      rw [drainRaised_step m u fuel c s q rest hq hr ht, if_neg he, List.length_append, List.length_map] at h
      apply ih (by simpa using he)
      obtain ⟨added, hqa, hm⟩ := syncMacro_marked m u q.ev { s with queue := rest }
      have hrb : raisedBy m u q.ev { s with queue := rest } = added := by
        unfold raisedBy; rw [hqa]; simp
      rw [hrb] at h
      rw [hqa, cntSelf_append, (cntSelf_all_true hm).1]
      rw [hq, cntSelf_cons] at h
      show chainedNext c q + (cntSelf rest + added.length) + _ ≤ _
      have hc' : chainedNext c q = c + (if q.self = true then 1 else 0) := by
        unfold chainedNext; split <;> rfl
      generalize chainedNext c q = c' at h hc' ⊢
      omega


-- what a drain writes -------------------------------------------------------------------------------------------------
/-- a record written during the macrostep of `e`: by a transition taken for `e`, or by an eventless
    (`always`) transition while settling -/
def MacroRec (e : Ev) (r : String) : Prop := TransRec e.type r ∨ TransRec "" r

theorem transientLoop_adds (h : Hooks) (htr : HooksTraceOK h) (fl : Flavor) (m : Machine) (u : UEnv) :
    ∀ (fuel : Nat) (s : St), Adds (TransRec "") s (transientLoop h fl m u fuel s) := by
  intro fuel
  induction fuel with
  | zero => intro s; exact Adds.refl _ _
  | succ n ih =>
    intro s
    simp only [transientLoop]
    split
    · exact Adds.refl _ _
    · split
      · exact Adds.of_eq (fail_trace _ _)
      · split
        · exact Adds.trans (processEvent_adds h htr fl m u (.user "") s) (ih _)
        · exact Adds.refl _ _

theorem syncMacro_adds (m : Machine) (u : UEnv) (e : Ev) (s : St) :
    Adds (MacroRec e) (emit ("#recv:" ++ e.type) s) (syncMacro m u e s) := by
  unfold syncMacro
  exact Adds.trans
    ((processEvent_adds (hooksFlagged u m) (hooksFlagged_traceOK u m) .sync m u e _).mono (fun _ h => Or.inl h))
    ((transientLoop_adds (hooksFlagged u m) (hooksFlagged_traceOK u m) .sync m u _ _).mono (fun _ h => Or.inr h))

/-- the records of the macrostep of `e` after its `#recv` record -/
def macroRecords (m : Machine) (u : UEnv) (e : Ev) (s : St) : List String :=
  delta (emit ("#recv:" ++ e.type) s) (syncMacro m u e s)

theorem syncMacro_chron (m : Machine) (u : UEnv) (e : Ev) (s : St) :
    (syncMacro m u e s).chron = s.chron ++ ("#recv:" ++ e.type) :: macroRecords m u e s := by
  rw [(syncMacro_adds m u e s).chron.1, chron_emit]
  simp [macroRecords]

theorem macroRecords_spec (m : Machine) (u : UEnv) (e : Ev) (s : St) : ∀ r ∈ macroRecords m u e s, MacroRec e r :=
  (syncMacro_adds m u e s).chron.2


/-- the macrosteps of a drain: the dequeued event with the records written while it was processed -/
def drainSegs (m : Machine) (u : UEnv) : Nat → Nat → St → List (Ev × List String)
  | 0, _, _ => []
  | fuel + 1, c, s =>
    match s.queue with
    | [] => []
    | q :: rest =>
      if s.status ≠ "running" then []
      else if syncTrips m c q then drainSegs m u fuel 0 (syncPurge s)
      else (q.ev, macroRecords m u q.ev { s with queue := rest }) :: (if (syncMacro m u q.ev { s with queue := rest }).err.isSome then [] else drainSegs m u fuel (chainedNext c q) (syncMacro m u q.ev { s with queue := rest }))

theorem drainSegs_zero (m : Machine) (u : UEnv) (c : Nat) (s : St) : drainSegs m u 0 c s = ([]) := by
  simp only [drainSegs]

theorem drainSegs_nil (m : Machine) (u : UEnv) (fuel c : Nat) (s : St) (hq : s.queue = []) :
    drainSegs m u (fuel + 1) c s = [] := by
  cases s with
  | mk cfg hist queue status trace err ctx rd errors =>
    simp only at hq
    subst hq
    simp only [drainSegs]

theorem drainSegs_dead (m : Machine) (u : UEnv) (fuel c : Nat) (s : St) (h : s.status ≠ "running") :
    drainSegs m u (fuel + 1) c s = [] := by
  cases hq : s.queue with
  | nil => exact drainSegs_nil m u fuel c s hq
  | cons q rest =>
    cases s with
    | mk cfg hist queue status trace err ctx rd errors =>
      simp only at hq h
      subst hq
      simp only [drainSegs, ne_eq, h, not_false_eq_true, if_true]

theorem drainSegs_trip (m : Machine) (u : UEnv) (fuel c : Nat) (s : St) (q : QEv) (rest : List QEv)
    (hq : s.queue = q :: rest) (hrun : s.status = "running") (ht : syncTrips m c q = true) :
    drainSegs m u (fuel + 1) c s = drainSegs m u fuel 0 (syncPurge s) := by
  cases s with
  | mk cfg hist queue status trace err ctx rd errors =>
    simp only at hq hrun
    subst hq; subst hrun
    simp only [drainSegs, ne_eq, not_true_eq_false, if_false, ht, if_true]

theorem drainSegs_step (m : Machine) (u : UEnv) (fuel c : Nat) (s : St) (q : QEv) (rest : List QEv)
    (hq : s.queue = q :: rest) (hrun : s.status = "running") (ht : syncTrips m c q = false) :
    drainSegs m u (fuel + 1) c s =
      (q.ev, macroRecords m u q.ev { s with queue := rest }) :: (if (syncMacro m u q.ev { s with queue := rest }).err.isSome = true then [] else drainSegs m u fuel (chainedNext c q) (syncMacro m u q.ev { s with queue := rest })) := by
  cases s with
  | mk cfg hist queue status trace err ctx rd errors =>
    simp only at hq hrun
    subst hq; subst hrun
    simp only [drainSegs, ne_eq, not_true_eq_false, if_false, ht, Bool.false_eq_true]

theorem drainSegs_not_running (m : Machine) (u : UEnv) (fuel c : Nat) (s : St) (h : s.status ≠ "running") :
    drainSegs m u fuel c s = [] := by
  cases fuel with
  | zero => rfl
  | succ n => exact drainSegs_dead m u n c s h

/-- how one macrostep shows in the trace: its `#recv` record, then its own records -/
def segRecords (p : Ev × List String) : List String := ("#recv:" ++ p.1.type) :: p.2

open XSM.Term in
/-- **run-to-completion structure of the trace**: what a drain appends to the trace is the concatenation,
    per dequeued event and in dequeue order, of `#recv:e · records of e's macrostep` — whatever happens
    (cuts, error, completion) -/
theorem drain_chron (m : Machine) (u : UEnv) : ∀ (fuel c : Nat) (s : St),
    (drainLoop m u fuel c s).chron = s.chron ++ (drainSegs m u fuel c s).flatMap segRecords := by
  apply drain_cases m u (fun fuel c s =>
    (drainLoop m u fuel c s).chron = s.chron ++ (drainSegs m u fuel c s).flatMap segRecords)
  · intro c s
    rw [drainLoop_zero, drainSegs_zero]
    split <;> simp [St.chron]
  · intro fuel c s hq; rw [drainLoop_nil m u fuel c s hq, drainSegs_nil m u fuel c s hq]; simp
  · intro fuel c s hr
    rw [drainLoop_not_running m u fuel c hr, drainSegs_dead m u fuel c s hr]
    split <;> simp [St.chron]
  · intro fuel c s q rest hq hr ht ih
    rw [drainLoop_trip m u fuel c s q rest hq hr ht, drainSegs_trip m u fuel c s q rest hq hr ht, ih]
    rfl
  · intro fuel c s q rest hq hr ht ih
    rw [drainLoop_cons m u fuel c s q rest hq hr ht, drainSegs_step m u fuel c s q rest hq hr ht]
    have hc := syncMacro_chron m u q.ev { s with queue := rest }
    have hs : ({ s with queue := rest } : St).chron = s.chron := rfl
    rw [hs] at hc
    split
    · rw [hc]; simp [segRecords]
    · rename_i he
      rw [ih (by simpa using he), hc]; simp [segRecords]

open XSM.Term in
theorem drainSegs_events (m : Machine) (u : UEnv) : ∀ (fuel c : Nat) (s : St),
    (drainSegs m u fuel c s).map (·.1) = drainLog m u fuel c s := by
  apply drain_cases m u (fun fuel c s => (drainSegs m u fuel c s).map (·.1) = drainLog m u fuel c s)
  · intro c s; rfl
  · intro fuel c s hq; rw [drainSegs_nil m u fuel c s hq, drainLog_nil m u fuel c s hq]; rfl
  · intro fuel c s hr; rw [drainSegs_dead m u fuel c s hr, drainLog_not_running m u _ c s hr]; rfl
  · intro fuel c s q rest hq hr ht ih
    rw [drainSegs_trip m u fuel c s q rest hq hr ht, drainLog_trip m u fuel c s q rest hq hr ht]; exact ih
  · intro fuel c s q rest hq hr ht ih
    rw [drainSegs_step m u fuel c s q rest hq hr ht, drainLog_cons m u fuel c s q rest hq hr ht]
    split
    · simp
    · rename_i he
      simp [ih (by simpa using he)]

open XSM.Term in
theorem drainSegs_records (m : Machine) (u : UEnv) : ∀ (fuel c : Nat) (s : St),
    ∀ p ∈ drainSegs m u fuel c s, ∀ r ∈ p.2, MacroRec p.1 r := by
  apply drain_cases m u (fun fuel c s => ∀ p ∈ drainSegs m u fuel c s, ∀ r ∈ p.2, MacroRec p.1 r)
  · intro c s p hp; simp [drainSegs] at hp
  · intro fuel c s hq p hp; rw [drainSegs_nil m u fuel c s hq] at hp; simp at hp
  · intro fuel c s hr p hp; rw [drainSegs_dead m u fuel c s hr] at hp; simp at hp
  · intro fuel c s q rest hq hr ht ih p hp
    rw [drainSegs_trip m u fuel c s q rest hq hr ht] at hp; exact ih p hp
  · intro fuel c s q rest hq hr ht ih p hp
    rw [drainSegs_step m u fuel c s q rest hq hr ht] at hp
    rcases List.mem_cons.1 hp with hp | hp
    · subst hp; exact macroRecords_spec m u q.ev _
    · split at hp
      · simp at hp
      · rename_i he
        exact ih (by simpa using he) p hp

-- the async run loop ---------------------------------------------------------------------------------------------------
theorem asyncLogQ_cons (m : Machine) (u : UEnv) (fuel : Nat) (s : St) (q : QEv) (rest : List QEv)
    (hq : s.queue = q :: rest) (hrun : s.status = "running") :
    asyncLogQ m u (fuel + 1) s =
      (if asyncReceives m q s = true then [q] else []) ++
        asyncLogQ m u fuel (asyncStep m u q { s with queue := rest }) := by
  cases s with
  | mk cfg hist queue status trace err ctx rd errors =>
    simp only at hq hrun
    subst hq; subst hrun
    simp only [asyncLogQ, ne_eq, not_true_eq_false, if_false]

theorem asyncLogQ_nil (m : Machine) (u : UEnv) (fuel : Nat) (s : St) (hq : s.queue = []) :
    asyncLogQ m u (fuel + 1) s = [] := by
  cases s with
  | mk cfg hist queue status trace err ctx rd errors =>
    simp only at hq
    subst hq
    simp only [asyncLogQ]
    split <;> rfl

theorem asyncLogQ_not_running (m : Machine) (u : UEnv) (fuel : Nat) (s : St) (h : s.status ≠ "running") :
    asyncLogQ m u fuel s = [] := by
  cases fuel with
  | zero => rfl
  | succ n => simp only [asyncLogQ, h, ne_eq, not_false_eq_true, if_true]

theorem asyncReceives_eq_true (m : Machine) (q : QEv) (s : St) :
    asyncReceives m q s = true ↔ ¬ (s.raiseDepth > m.maxIterations ∧ q.self = true) := by
  unfold asyncReceives
  by_cases hd : s.raiseDepth > m.maxIterations <;> cases hq : q.self <;> simp [hd, hq]

/-- an EXTERNAL event is always handed to `on_event_received` / `_process_event` -/
theorem asyncReceives_external (m : Machine) (q : QEv) (s : St) (hq : q.self = false) : asyncReceives m q s = true := by
  unfold asyncReceives; simp [hq]

theorem asyncLog_cons (m : Machine) (u : UEnv) (fuel : Nat) (s : St) (q : QEv) (rest : List QEv)
    (hq : s.queue = q :: rest) (hrun : s.status = "running") :
    asyncLog m u (fuel + 1) s =
      (if asyncReceives m q s = true then [q.ev] else []) ++
        asyncLog m u fuel (asyncStep m u q { s with queue := rest }) := by
  unfold asyncLog
  rw [asyncLogQ_cons m u fuel s q rest hq hrun, List.map_append]
  split <;> rfl

theorem asyncLog_nil (m : Machine) (u : UEnv) (fuel : Nat) (s : St) (hq : s.queue = []) :
    asyncLog m u (fuel + 1) s = [] := by
  unfold asyncLog; rw [asyncLogQ_nil m u fuel s hq]; rfl

/-- nothing cuts this run of the loop short: the MODEL's fuel suffices, the machine keeps running while
    events are queued, the chain breaker never trips -/
def AsyncClean (m : Machine) (u : UEnv) : Nat → St → Prop
  | 0, s => s.queue = []
  | fuel + 1, s =>
    match s.queue with
    | [] => True
    | q :: rest =>
      s.status = "running" ∧ ¬ s.raiseDepth > m.maxIterations ∧
        AsyncClean m u fuel (asyncStep m u q { s with queue := rest })

theorem AsyncClean_cons (m : Machine) (u : UEnv) (fuel : Nat) (s : St) (q : QEv) (rest : List QEv)
    (hq : s.queue = q :: rest) :
    AsyncClean m u (fuel + 1) s ↔
      (s.status = "running" ∧ ¬ s.raiseDepth > m.maxIterations ∧
        AsyncClean m u fuel (asyncStep m u q { s with queue := rest })) := by
  cases s with
  | mk cfg hist queue status trace err ctx rd errors =>
    simp only at hq
    subst hq
    simp only [AsyncClean]

instance decAsyncClean (m : Machine) (u : UEnv) : ∀ (f : Nat) (s : St), Decidable (AsyncClean m u f s)
  | 0, s => by unfold AsyncClean; exact inferInstance
  | f + 1, s => by
    cases hq : s.queue with
    | nil => exact isTrue (by cases s; simp only at hq; subst hq; simp [AsyncClean])
    | cons q rest =>
      have := decAsyncClean m u f (asyncStep m u q { s with queue := rest })
      exact decidable_of_iff _ (AsyncClean_cons m u f s q rest hq).symm

def asyncRaised (m : Machine) (u : UEnv) : Nat → St → List Ev
  | 0, _ => []
  | fuel + 1, s =>
    match s.queue with
    | [] => []
    | q :: rest =>
      (asyncRaisedBy m u q { s with queue := rest }).map (·.ev) ++
        asyncRaised m u fuel (asyncStep m u q { s with queue := rest })

theorem asyncRaised_cons (m : Machine) (u : UEnv) (fuel : Nat) (s : St) (q : QEv) (rest : List QEv)
    (hq : s.queue = q :: rest) :
    asyncRaised m u (fuel + 1) s =
      (asyncRaisedBy m u q { s with queue := rest }).map (·.ev) ++
        asyncRaised m u fuel (asyncStep m u q { s with queue := rest }) := by
  cases s with
  | mk cfg hist queue status trace err ctx rd errors =>
    simp only at hq
    subst hq
    simp only [asyncRaised]

theorem asyncRaised_nil (m : Machine) (u : UEnv) (fuel : Nat) (s : St) (hq : s.queue = []) :
    asyncRaised m u (fuel + 1) s = [] := by
  cases s with
  | mk cfg hist queue status trace err ctx rd errors =>
    simp only at hq
    subst hq
    simp only [asyncRaised]

/-- **FIFO, exactly once (async run loop)** -/
theorem async_fifo (m : Machine) (u : UEnv) : ∀ (fuel : Nat) (s : St), AsyncClean m u fuel s →
    asyncLog m u fuel s = s.queue.map (·.ev) ++ asyncRaised m u fuel s ∧ (asyncDrain m u fuel s).queue = [] := by
  intro fuel
  induction fuel with
  | zero =>
    intro s h
    simp only [AsyncClean] at h
    refine ⟨by simp [asyncLog, asyncLogQ, asyncRaised, h], ?_⟩
    simp only [asyncDrain]
    split
    · exact h
    · exact h
  | succ n ih =>
    intro s h
    cases hq : s.queue with
    | nil =>
      rw [asyncLog_nil m u n s hq, asyncRaised_nil m u n s hq, asyncDrain_nil m u n s hq]
      exact ⟨rfl, hq⟩
    | cons q rest =>
      obtain ⟨hrun, hd, hc⟩ := (AsyncClean_cons m u n s q rest hq).1 h
      obtain ⟨h1, h2⟩ := ih _ hc
      have hd' : ¬ ({ s with queue := rest } : St).raiseDepth > m.maxIterations := hd
      have hrecv : asyncReceives m q s = true := (asyncReceives_eq_true m q s).2 (fun hh => hd hh.1)
      rw [asyncLog_cons m u n s q rest hq hrun, asyncRaised_cons m u n s q rest hq, if_pos hrecv, h1,
        asyncStep_queue_eq m u q _ hd', asyncDrain_cons m u n s q rest hq hrun]
      exact ⟨by simp, h2⟩

open XSM.Term in
/-- **external events: exactly once, in order, UNCONDITIONALLY** (any fuel, any counter, breaker tripping
    or not, macrosteps failing or not, machine completing or not): the external events the run loop
    received, followed by the external events still queued when it returns, are exactly the external
    events that were queued when it started — same events, same order, none lost, none duplicated. -/
theorem async_external_split (m : Machine) (u : UEnv) : ∀ (fuel : Nat) (s : St),
    extOf (asyncLogQ m u fuel s) ++ extOf (asyncDrain m u fuel s).queue = extOf s.queue := by
  intro fuel
  induction fuel with
  | zero =>
    intro s
    simp only [asyncLogQ, asyncDrain]
    split <;> simp [extOf]
  | succ n ih =>
    intro s
    by_cases hrun : s.status = "running"
    · cases hq : s.queue with
      | nil => rw [asyncLogQ_nil m u n s hq, asyncDrain_nil m u n s hq, hq]; rfl
      | cons q rest =>
        rw [asyncLogQ_cons m u n s q rest hq hrun, asyncDrain_cons m u n s q rest hq hrun]
        have hk := asyncStep_keeps_queued_external m u q { s with queue := rest }
        have hi := ih (asyncStep m u q { s with queue := rest })
        rw [hk] at hi
        have hrest : extOf ({ s with queue := rest } : St).queue = extOf rest := rfl
        rw [hrest] at hi
        cases hself : q.self with
        | false =>
          rw [if_pos (asyncReceives_external m q s hself)]
          unfold extOf at hi ⊢
          rw [List.filter_append, List.append_assoc, hi]
          simp [hself]
        | true =>
          unfold extOf at hi ⊢
          rw [List.filter_append, List.append_assoc, hi]
          split <;> simp [hself]
    · rw [asyncLogQ_not_running m u _ s hrun, asyncDrain_not_running m u _ hrun]; rfl

-- what the async loop writes for an event it processes ---------------------------------------------------------
theorem asyncProcess_trace (m : Machine) (u : UEnv) (e : Ev) (s : St) :
    (asyncProcess m u e s).trace = (asyncProcessed m u e s).trace := by
  rw [asyncProcess_eq, (asyncChainEnd_fields _ _).2.2.2.2.1]
  split <;> rfl

theorem asyncProcess_adds (m : Machine) (u : UEnv) (e : Ev) (s : St) :
    Adds (MacroRec e) (emit ("#recv:" ++ e.type) s) (asyncProcess m u e s) := by
  have h : Adds (MacroRec e) (emit ("#recv:" ++ e.type) s) (asyncProcessed m u e s) := by
    unfold asyncProcessed
    exact Adds.trans
      ((processEvent_adds (hooksAsync u m) (hooksAsync_traceOK u m) .async m u e _).mono (fun _ h => Or.inl h))
      ((transientLoop_adds (hooksAsync u m) (hooksAsync_traceOK u m) .async m u _ _).mono (fun _ h => Or.inr h))
  obtain ⟨t, ht, hp⟩ := h
  exact ⟨t, by rw [asyncProcess_trace, ht], hp⟩

/-- the records of the async macrostep of `e` after its `#recv` record -/
def asyncMacroRecords (m : Machine) (u : UEnv) (e : Ev) (s : St) : List String :=
  delta (emit ("#recv:" ++ e.type) s) (asyncProcess m u e s)

/-- an event the run loop processes shows in the trace as `#recv:e` followed by its own records only -/
theorem asyncProcess_chron (m : Machine) (u : UEnv) (e : Ev) (s : St) :
    (asyncProcess m u e s).chron = s.chron ++ ("#recv:" ++ e.type) :: asyncMacroRecords m u e s ∧
    ∀ r ∈ asyncMacroRecords m u e s, MacroRec e r := by
  refine ⟨?_, (asyncProcess_adds m u e s).chron.2⟩
  rw [(asyncProcess_adds m u e s).chron.1, chron_emit]
  simp [asyncMacroRecords]

theorem asyncBase_chron (m : Machine) (s : St) : (Term.asyncBase m s).chron = s.chron := by
  unfold Term.asyncBase; split <;> rfl

end XSM
