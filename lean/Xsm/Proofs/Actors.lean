import Xsm.Model.Actors
/-!
Helper lemmas for C15 (actor system model): dictionaries, `modifyAt` / `mapIdxFrom`, `Sys.get` after an
update, the frame of every primitive.
-/
namespace XSM.Actors

/-! ### dictionaries -/

theorem dlookup_dinsert_self (k : String) (v : α) (l : List (String × α)) :
    dlookup k (dinsert k v l) = some v := by
  induction l with
  | nil => simp [dinsert, dlookup]
  | cons kv r ih =>
    by_cases h : kv.1 = k
    · simp [dinsert, h, dlookup]
    · simp [dinsert, h, dlookup, ih]

theorem dlookup_dinsert_ne {k k' : String} (v : α) (l : List (String × α)) (h : k' ≠ k) :
    dlookup k' (dinsert k v l) = dlookup k' l := by
  induction l with
  | nil => simp [dinsert, dlookup, Ne.symm h]
  | cons kv r ih =>
    by_cases h1 : kv.1 = k
    · simp [dinsert, h1, dlookup, Ne.symm h]
    · by_cases h2 : kv.1 = k'
      · have h3 : ¬ k' = k := h
        simp [dinsert, dlookup, h2, h3]
      · simp only [dinsert, h1, if_false, dlookup, h2, ih]

theorem dlookup_derase_self (k : String) (l : List (String × α)) : dlookup k (derase k l) = none := by
  induction l with
  | nil => simp [derase, dlookup]
  | cons kv r ih =>
    by_cases h : kv.1 = k
    · simpa [derase, h] using ih
    · simp only [derase, ne_eq, h, not_false_eq_true, decide_true, List.filter_cons_of_pos, dlookup, if_false]
      simpa [derase] using ih

theorem dlookup_mem {k : String} {v : α} {l : List (String × α)} (h : dlookup k l = some v) : (k, v) ∈ l := by
  induction l with
  | nil => simp [dlookup] at h
  | cons kv r ih =>
    by_cases h1 : kv.1 = k
    · simp [dlookup, h1] at h
      have : kv = (k, v) := by cases kv; simp_all
      simp [this]
    · simp [dlookup, h1] at h
      exact List.mem_cons_of_mem _ (ih h)

theorem mem_dinsert {k : String} {v : α} {l : List (String × α)} {x : String × α}
    (h : x ∈ dinsert k v l) : x = (k, v) ∨ x ∈ l := by
  induction l with
  | nil => simp [dinsert] at h; exact Or.inl h
  | cons kv r ih =>
    by_cases h1 : kv.1 = k
    · simp [dinsert, h1] at h
      rcases h with h | h
      · exact Or.inl h
      · exact Or.inr (List.mem_cons_of_mem _ h)
    · simp [dinsert, h1] at h
      rcases h with h | h
      · exact Or.inr (by simp [h])
      · rcases ih h with h | h
        · exact Or.inl h
        · exact Or.inr (List.mem_cons_of_mem _ h)

/-! ### positional updates -/

theorem length_modifyAt (f : α → α) (i : Nat) (l : List α) : (modifyAt f i l).length = l.length := by
  induction l generalizing i with
  | nil => cases i <;> simp [modifyAt]
  | cons a r ih => cases i <;> simp [modifyAt, ih]

theorem getElem?_modifyAt (f : α → α) (i j : Nat) (l : List α) :
    (modifyAt f i l)[j]? = if j = i then (l[j]?).map f else l[j]? := by
  induction l generalizing i j with
  | nil => cases i <;> simp [modifyAt]
  | cons a r ih =>
    cases i with
    | zero =>
      cases j with
      | zero => simp [modifyAt]
      | succ j => simp [modifyAt]
    | succ i =>
      cases j with
      | zero => simp [modifyAt]
      | succ j => simp [modifyAt, ih]

theorem length_mapIdxFrom (f : Nat → α → α) (i : Nat) (l : List α) : (mapIdxFrom f i l).length = l.length := by
  induction l generalizing i with
  | nil => simp [mapIdxFrom]
  | cons a r ih => simp [mapIdxFrom, ih]

theorem getElem?_mapIdxFrom (f : Nat → α → α) (i j : Nat) (l : List α) :
    (mapIdxFrom f i l)[j]? = (l[j]?).map (f (i + j)) := by
  induction l generalizing i j with
  | nil => simp [mapIdxFrom]
  | cons a r ih =>
    cases j with
    | zero => simp [mapIdxFrom]
    | succ j =>
      simp only [mapIdxFrom, List.getElem?_cons_succ, ih]
      congr 2
      omega

/-! ### `Sys.get` -/

theorem get_of_lt (s : Sys) {u : Nat} (h : u < s.actors.length) : s.actors[u]? = some (s.get u) := by
  simp [Sys.get, List.getElem?_eq_getElem h]

theorem get_oob (s : Sys) {u : Nat} (h : ¬ u < s.actors.length) : s.get u = default := by
  have : s.actors[u]? = none := by simp; omega
  simp [Sys.get, this]

theorem get_upd (s : Sys) (u v : Nat) (f : Actor → Actor) :
    (s.upd u f).get v = if v = u ∧ u < s.actors.length then f (s.get u) else s.get v := by
  unfold Sys.get Sys.upd
  simp only [getElem?_modifyAt]
  by_cases h : v = u
  · subst h
    by_cases h2 : v < s.actors.length
    · simp [h2]
    · have : s.actors[v]? = none := by simp; omega
      simp [h2]
  · simp [h]

theorem get_upd_ne (s : Sys) {u v : Nat} (f : Actor → Actor) (h : v ≠ u) : (s.upd u f).get v = s.get v := by
  simp [get_upd, h]

theorem get_upd_self (s : Sys) {u : Nat} (f : Actor → Actor) (h : u < s.actors.length) :
    (s.upd u f).get u = f (s.get u) := by
  simp [get_upd, h]

/-- a field that `f` does not change is not changed by the update, wherever it lands -/
theorem get_upd_proj {β : Type} (π : Actor → β) (s : Sys) (u v : Nat) (f : Actor → Actor)
    (h : ∀ a, π (f a) = π a) : π ((s.upd u f).get v) = π (s.get v) := by
  rw [get_upd]
  split
  · next hc => rw [h, hc.1]
  · rfl

theorem n_upd (s : Sys) (u : Nat) (f : Actor → Actor) : (s.upd u f).actors.length = s.actors.length := by
  simp [Sys.upd, length_modifyAt]

@[simp] theorem upd_flavor (s : Sys) (u : Nat) (f : Actor → Actor) : (s.upd u f).flavor = s.flavor := rfl
@[simp] theorem upd_registry (s : Sys) (u : Nat) (f : Actor → Actor) : (s.upd u f).registry = s.registry := rfl
@[simp] theorem upd_timers (s : Sys) (u : Nat) (f : Actor → Actor) : (s.upd u f).timers = s.timers := rfl
@[simp] theorem upd_watches (s : Sys) (u : Nat) (f : Actor → Actor) : (s.upd u f).watches = s.watches := rfl
@[simp] theorem upd_now (s : Sys) (u : Nat) (f : Actor → Actor) : (s.upd u f).now = s.now := rfl
@[simp] theorem warn_actors (s : Sys) (w : String) : (s.warn w).actors = s.actors := rfl
@[simp] theorem warn_flavor (s : Sys) (w : String) : (s.warn w).flavor = s.flavor := rfl
@[simp] theorem warn_registry (s : Sys) (w : String) : (s.warn w).registry = s.registry := rfl
@[simp] theorem warn_timers (s : Sys) (w : String) : (s.warn w).timers = s.timers := rfl

theorem get_congr {s s' : Sys} (h : s'.actors = s.actors) (u : Nat) : s'.get u = s.get u := by
  simp [Sys.get, h]

theorem default_alive : (default : Actor).alive = false := rfl
theorem default_status : (default : Actor).status = .uninit := rfl

theorem drainActor_default (busy : Option Nat) (u : Nat) : drainActor busy u default = default := by
  simp [drainActor, default_alive]

theorem get_drainAll (busy : Option Nat) (s : Sys) (u : Nat) :
    (drainAll busy s).get u = drainActor busy u (s.get u) := by
  unfold drainAll Sys.get
  simp only [getElem?_mapIdxFrom, Nat.zero_add]
  cases h : s.actors[u]? with
  | none => simp [drainActor_default]
  | some a => simp

theorem n_drainAll (busy : Option Nat) (s : Sys) : (drainAll busy s).actors.length = s.actors.length := by
  simp [drainAll, length_mapIdxFrom]

theorem get_append_lt (s : Sys) (c : Actor) {u : Nat} (h : u < s.actors.length) :
    ({ s with actors := s.actors ++ [c] } : Sys).get u = s.get u := by
  simp [Sys.get, List.getElem?_append_left h]

theorem get_append_new (s : Sys) (c : Actor) :
    ({ s with actors := s.actors ++ [c] } : Sys).get s.actors.length = c := by
  simp [Sys.get]

end XSM.Actors
