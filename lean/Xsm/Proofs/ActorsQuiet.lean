import Xsm.Proofs.Actors
/-!
`Quiet s s'`: every actor whose status is `stopped` in `s` — from the very moment `stop()` has set the
status, whatever is still in its queue and whether or not its run loop has ended — is still stopped in
`s'`, has processed nothing in between, and a run loop that has ended stays ended.
The relation is a preorder and every primitive of the model satisfies it (also the ones in the MIDDLE of a
macrostep: `stopA`, `drainAll`, `runAction`), hence so do all operations (`Quiet s (step cmds s op)`), which
is `nothing_delivered_after_stop`.
-/
namespace XSM.Actors

/-- what `Quiet` promises about one actor -/
def Frozen (a a' : Actor) : Prop :=
  a'.status = .stopped ∧ a'.received = a.received ∧ (a.alive = false → a'.alive = false)

def Quiet (s s' : Sys) : Prop :=
  s'.flavor = s.flavor ∧ s.actors.length ≤ s'.actors.length ∧
  ∀ u, (s.get u).status = .stopped → Frozen (s.get u) (s'.get u)

theorem Frozen.of_eq {a a' : Actor} (h : a.status = .stopped) (e : a' = a) : Frozen a a' := by
  subst e; exact ⟨h, rfl, id⟩

theorem Quiet.refl (s : Sys) : Quiet s s := ⟨rfl, Nat.le_refl _, fun _ h => Frozen.of_eq h rfl⟩

theorem Quiet.trans {a b c : Sys} (h1 : Quiet a b) (h2 : Quiet b c) : Quiet a c := by
  refine ⟨h2.1.trans h1.1, Nat.le_trans h1.2.1 h2.2.1, fun u hu => ?_⟩
  have ⟨d1, r1, a1⟩ := h1.2.2 u hu
  have ⟨d2, r2, a2⟩ := h2.2.2 u d1
  exact ⟨d2, r2.trans r1, fun h => a2 (a1 h)⟩

/-- a completely stopped actor stays completely stopped and receives nothing -/
theorem Quiet.dead {s s' : Sys} (q : Quiet s s') {u : Nat} (h : Dead s u) :
    Dead s' u ∧ (s'.get u).received = (s.get u).received := by
  have ⟨d1, r1, a1⟩ := q.2.2 u h.1
  exact ⟨⟨d1, fun hf => a1 (h.2 (q.1 ▸ hf))⟩, r1⟩

theorem quiet_of_actors_eq {s s' : Sys} (hf : s'.flavor = s.flavor) (ha : s'.actors = s.actors) : Quiet s s' := by
  refine ⟨hf, by simp [ha], fun u hu => ?_⟩
  exact Frozen.of_eq hu (get_congr ha u)

/-- an update that keeps `received`, keeps `stopped` stopped and keeps a finished loop finished -/
def Keeps (f : Actor → Actor) : Prop :=
  ∀ a, a.status = .stopped → (f a).received = a.received ∧ (f a).status = .stopped ∧ (a.alive = false → (f a).alive = false)

theorem quiet_upd_keeps (s : Sys) (u : Nat) {f : Actor → Actor} (hf : Keeps f) : Quiet s (s.upd u f) := by
  refine ⟨rfl, by simp [n_upd], fun v hv => ?_⟩
  by_cases hc : v = u ∧ u < s.actors.length
  · have hvu : v = u := hc.1
    subst hvu
    have ⟨k1, k2, k3⟩ := hf (s.get v) hv
    have hg : (s.upd v f).get v = f (s.get v) := get_upd_self s f hc.2
    rw [hg]; exact ⟨k2, k1, k3⟩
  · have hg : (s.upd u f).get v = s.get v := by rw [get_upd]; simp only [hc, if_false]
    exact Frozen.of_eq hv hg

/-- any update of an actor that is not stopped -/
theorem quiet_upd_live (s : Sys) (u : Nat) (f : Actor → Actor) (h : (s.get u).status ≠ .stopped) : Quiet s (s.upd u f) := by
  refine ⟨rfl, by simp [n_upd], fun v hv => ?_⟩
  have hne : v ≠ u := by
    intro e; subst e; exact h hv
  exact Frozen.of_eq hv (get_upd_ne s f hne)

theorem quiet_addActor (s : Sys) (c : Actor) (fr : Nat) : Quiet s (addActor s c fr) := by
  refine ⟨rfl, by simp [addActor], fun v hv => ?_⟩
  by_cases hlt : v < s.actors.length
  · have hg : (addActor s c fr).get v = s.get v := by
      simp [addActor, Sys.get, List.getElem?_append_left hlt]
    exact Frozen.of_eq hv hg
  · have : s.get v = default := get_oob s hlt
    rw [this] at hv
    exact absurd hv (by decide)

/-- F50: the hand-over point. A stopped actor whose loop is woken discards the event: nothing is processed -/
theorem frozen_drainActor (busy : Option Nat) (u : Nat) (a : Actor) (h : a.status = .stopped) :
    Frozen a (drainActor busy u a) := by
  unfold drainActor
  split
  · exact Frozen.of_eq h rfl
  · have hnr : ¬ a.status = .running := by rw [h]; decide
    simp only [hnr, if_false]
    split
    · exact Frozen.of_eq h rfl
    · exact ⟨h, rfl, fun _ => rfl⟩

theorem quiet_drainAll (busy : Option Nat) (s : Sys) : Quiet s (drainAll busy s) := by
  refine ⟨rfl, by simp [n_drainAll], fun v hv => ?_⟩
  rw [get_drainAll]; exact frozen_drainActor busy v _ hv

theorem quiet_map (s : Sys) (g : Actor → Actor) (hg : ∀ a, a.status = .stopped → g a = a) :
    Quiet s { s with actors := s.actors.map g } := by
  refine ⟨rfl, by simp, fun v hv => ?_⟩
  have hgv : ({ s with actors := s.actors.map g } : Sys).get v = s.get v := by
    unfold Sys.get
    simp only [List.getElem?_map]
    cases h : s.actors[v]? with
    | none =>
      have : s.get v = default := by simp [Sys.get, h]
      rw [this] at hv; exact absurd hv (by decide)
    | some a =>
      have : s.get v = a := by simp [Sys.get, h]
      simp only [Option.map_some, Option.getD_some]
      exact hg a (this ▸ hv)
  exact Frozen.of_eq hv hgv

theorem quiet_foldl {β : Type} (F : Sys → β → Sys) (hF : ∀ s x, Quiet s (F s x)) (l : List β) (s : Sys) :
    Quiet s (l.foldl F s) := by
  induction l generalizing s with
  | nil => exact Quiet.refl s
  | cons x r ih => exact (hF s x).trans (ih (F s x))

/-! ### primitives -/

theorem quiet_warn (s : Sys) (w : String) : Quiet s (s.warn w) := quiet_of_actors_eq rfl rfl


theorem quiet_deliverNow (s : Sys) (t : Nat) (ev : String) : Quiet s (deliverNow s t ev) := by
  unfold deliverNow
  cases hfl : s.flavor with
  | sync =>
    simp only
    by_cases hr : (s.get t).status = .running
    · simp only [hr, if_true]
      have hns : (s.get t).status ≠ .stopped := by rw [hr]; decide
      split
      · exact quiet_upd_live s t _ hns
      · exact quiet_upd_live s t _ hns
    · simp only [hr, if_false]; exact quiet_warn s _
  | async =>
    simp only
    by_cases hr : (s.get t).status = .stopped
    · simp only [hr, if_true]; exact quiet_warn s _
    · simp only [hr, if_false]; exact quiet_upd_live s t _ hr

theorem quiet_register (s : Sys) (sid : Option String) (u : Nat) : Quiet s (register s sid u) := by
  unfold register
  cases sid with
  | none => exact Quiet.refl s
  | some x =>
    simp only
    cases dlookup x s.registry with
    | none => exact quiet_of_actors_eq rfl rfl
    | some v =>
      simp only
      split <;> exact quiet_of_actors_eq rfl rfl

theorem keeps_trivial {f : Actor → Actor} (h1 : ∀ a, (f a).received = a.received) (h2 : ∀ a, (f a).status = a.status)
    (h3 : ∀ a, (f a).alive = a.alive) : Keeps f :=
  fun a h => ⟨h1 a, by rw [h2]; exact h, fun h' => by rw [h3]; exact h'⟩

theorem quiet_linkChild (s : Sys) (p : Nat) (cid key : String) (u : Nat) : Quiet s (linkChild s p cid key u) :=
  quiet_upd_keeps s p (keeps_trivial (fun _ => rfl) (fun _ => rfl) (fun _ => rfl))

theorem quiet_addWatch (s : Sys) (w : Watch) : Quiet s (addWatch s w) := quiet_of_actors_eq rfl rfl

theorem quiet_spawnCore (s : Sys) (p : Nat) (key : String) (eid sid : Option String) (b : Bool) :
    Quiet s (spawnCore s p key eid sid b) :=
  ((quiet_addActor s _ _).trans (quiet_register _ sid _)).trans (quiet_linkChild _ p _ key _)

theorem quiet_spawnInvokeAsync (s : Sys) (p : Nat) (key : String) : Quiet s (spawnInvokeAsync s p key) := by
  unfold spawnInvokeAsync
  refine Quiet.trans ?_ (quiet_addWatch _ _)
  refine Quiet.trans (quiet_addActor s (newActor s p (mkId (s.get p).id key none s.fresh) key true) (s.fresh + 1)) ?_
  exact quiet_upd_keeps _ p (keeps_trivial (fun _ => rfl) (fun _ => rfl) (fun _ => rfl))

theorem quiet_killTimer (s : Sys) (i : Nat) : Quiet s (killTimer s i) := quiet_of_actors_eq rfl rfl

theorem quiet_killTasks (s : Sys) (x : Nat) : Quiet s (killTasks s x) := quiet_of_actors_eq rfl rfl

theorem quiet_stopTasks (busy : Option Nat) (s : Sys) (x : Nat) : Quiet s (stopTasks busy s x) := by
  unfold stopTasks
  split
  · exact (quiet_killTasks s x).trans (quiet_drainAll busy _)
  · exact Quiet.refl s

theorem quiet_stopLoop (busy : Option Nat) (s : Sys) (x : Nat) : Quiet s (stopLoop busy s x) := by
  unfold stopLoop
  split
  · exact (quiet_upd_keeps s x (f := fun a => { a with alive := false }) (fun _ h => ⟨rfl, h, fun _ => rfl⟩)).trans
      (quiet_drainAll busy _)
  · exact Quiet.refl s

theorem quiet_stopTail (busy : Option Nat) (s : Sys) (x : Nat) : Quiet s (stopTail busy s x) := by
  unfold stopTail
  cases hfl : s.flavor with
  | sync =>
    exact (quiet_upd_keeps s x (f := fun a => { a with sends := [] }) (keeps_trivial (fun _ => rfl) (fun _ => rfl) (fun _ => rfl))).trans
      (quiet_killTasks _ x)
  | async => exact (quiet_stopTasks busy s x).trans (quiet_stopLoop busy _ x)

theorem quiet_markStopped (s : Sys) (x : Nat) (h : (s.get x).status = .running) : Quiet s (markStopped s x) :=
  quiet_upd_live s x _ (by rw [h]; decide)

theorem quiet_clearKids (s : Sys) (x : Nat) : Quiet s (clearKids s x) :=
  quiet_upd_keeps s x (keeps_trivial (fun _ => rfl) (fun _ => rfl) (fun _ => rfl))

theorem quiet_unregister (s : Sys) (x : Nat) : Quiet s (unregister s x) := quiet_of_actors_eq rfl rfl

theorem quiet_stopA (busy : Option Nat) (fuel : Nat) (s : Sys) (x : Nat) : Quiet s (stopA busy fuel s x) := by
  induction fuel generalizing s x with
  | zero => exact Quiet.refl s
  | succ fuel ih =>
    unfold stopA
    by_cases hr : (s.get x).status = .running
    · simp only [hr, if_true]
      have h1 := (quiet_markStopped s x hr).trans (quiet_unregister _ x)
      have h2 := quiet_foldl (fun acc (kv : String × Nat) => stopA busy fuel acc kv.2) (fun acc kv => ih acc kv.2)
        (s.get x).kids (unregister (markStopped s x) x)
      exact ((h1.trans h2).trans (quiet_clearKids _ x)).trans (quiet_stopTail busy _ x)
    · simp only [hr, if_false]; exact Quiet.refl s

theorem quiet_stop (busy : Option Nat) (s : Sys) (x : Nat) : Quiet s (stop busy s x) := quiet_stopA busy _ s x

theorem quiet_popKid (s : Sys) (p : Nat) (cid : String) : Quiet s (popKid s p cid) :=
  quiet_upd_keeps s p (keeps_trivial (fun _ => rfl) (fun _ => rfl) (fun _ => rfl))

theorem quiet_evict (busy : Option Nat) (s : Sys) (p : Nat) (cid : String) : Quiet s (evict busy s p cid) := by
  unfold evict
  split
  · exact (quiet_popKid s p cid).trans (quiet_stop busy _ _)
  · exact Quiet.refl s

theorem quiet_spawnFresh (s : Sys) (p : Nat) (key : String) (eid sid : Option String) (b : Bool) :
    Quiet s (spawnFresh s p key eid sid b) := by
  unfold spawnFresh
  split
  · exact (quiet_spawnCore s p key eid sid _).trans (quiet_addWatch _ _)
  · exact quiet_spawnCore s p key eid sid _

theorem quiet_spawn (busy : Option Nat) (s : Sys) (p : Nat) (key : String) (eid sid : Option String) (b : Bool) :
    Quiet s (spawn busy s p key eid sid b) :=
  (quiet_evict busy s p _).trans (quiet_spawnFresh _ p key eid sid b)

theorem quiet_unlinkChild (s : Sys) (p x : Nat) : Quiet s (unlinkChild s p x) := by
  unfold unlinkChild
  split
  · exact quiet_upd_keeps s p (keeps_trivial (fun _ => rfl) (fun _ => rfl) (fun _ => rfl))
  · exact Quiet.refl s

theorem quiet_markOos (s : Sys) (b : Bool) : Quiet s (markOos s b) := by
  unfold markOos
  split
  · exact quiet_of_actors_eq rfl rfl
  · exact Quiet.refl s

theorem quiet_stopChildTo (busy : Option Nat) (s : Sys) (p x : Nat) : Quiet s (stopChildTo busy s p x) :=
  (((quiet_unlinkChild s p x).trans (quiet_unregister _ x)).trans (quiet_markOos _ _)).trans (quiet_stop busy _ x)

theorem quiet_addTimer (s : Sys) (t : Timer) : Quiet s (addTimer s t) := quiet_of_actors_eq rfl rfl

theorem quiet_setSend (s : Sys) (p : Nat) (k : String) (i : Nat) : Quiet s (setSend s p k i) :=
  quiet_upd_keeps s p (keeps_trivial (fun _ => rfl) (fun _ => rfl) (fun _ => rfl))

theorem quiet_schedule (s : Sys) (p : Nat) (k : String) (i : Nat) : Quiet s (schedule s p k i) := by
  unfold schedule
  split
  · exact (quiet_killTimer s _).trans (quiet_setSend _ p k i)
  · exact quiet_setSend s p k i

theorem quiet_deliver (s : Sys) (p t : Nat) (ev : String) (delay : Nat) (sid : Option String) :
    Quiet s (deliver s p t ev delay sid) := by
  unfold deliver
  split
  · exact quiet_deliverNow s t ev
  · split
    · exact quiet_addTimer s _
    · exact (quiet_addTimer s _).trans (quiet_schedule _ p _ _)

theorem quiet_cancelSend (s : Sys) (p : Nat) (k : String) : Quiet s (cancelSend s p k) := by
  unfold cancelSend
  split
  · refine Quiet.trans ?_ (quiet_killTimer _ _)
    exact quiet_upd_keeps s p (keeps_trivial (fun _ => rfl) (fun _ => rfl) (fun _ => rfl))
  · exact Quiet.refl s

theorem quiet_runAction (busy : Option Nat) (cur : String) (p : Nat) (s : Sys) (a : Action) :
    Quiet s (runAction busy cur p s a) := by
  cases a with
  | spawn key eid sid b => exact quiet_spawn busy s p key eid sid b
  | sendTo target ev delay sid =>
    simp only [runAction]
    split
    · exact quiet_deliver s p _ ev delay sid
    · exact (quiet_warn s _).trans (quiet_warn _ _)
    · exact quiet_warn s _
  | sendParent ev delay sid =>
    simp only [runAction]
    split
    · exact quiet_deliver s p _ ev delay sid
    · exact quiet_warn s _
  | forwardTo target =>
    simp only [runAction]
    split
    · exact quiet_deliverNow s _ cur
    · exact (quiet_warn s _).trans (quiet_warn _ _)
    · exact quiet_warn s _
  | escalate =>
    simp only [runAction]
    split
    · exact quiet_deliverNow s _ _
    · exact quiet_warn s _
  | cancel sid => exact quiet_cancelSend s p sid
  | stopChild target =>
    simp only [runAction]
    split
    · exact quiet_stopChildTo busy s p _
    · exact (quiet_warn s _).trans (quiet_warn _ _)
    · exact quiet_warn s _

theorem quiet_runActions (busy : Option Nat) (cur : String) (p : Nat) (s : Sys) (acts : List Action) :
    Quiet s (runActions busy cur p s acts) :=
  quiet_foldl (runAction busy cur p) (fun s a => quiet_runAction busy cur p s a) acts s

theorem quiet_settle (s : Sys) : Quiet s (settle s) := by
  unfold settle
  split
  · apply quiet_map
    intro a ha
    have : ¬ a.status = .uninit := by rw [ha]; decide
    simp [this]
  · exact quiet_drainAll none s

theorem quiet_syncFinish (s : Sys) (p : Nat) : Quiet s (syncFinish s p) := by
  unfold syncFinish
  apply quiet_upd_keeps
  intro a ha
  have h : ¬ a.status = .running := by rw [ha]; decide
  simp only [h, if_false]
  exact ⟨trivial, ha, id⟩

theorem quiet_handle (s : Sys) (p : Nat) (name : String) (body : Option Nat → Sys → Sys)
    (hb : ∀ busy s1, Quiet s1 (body busy s1)) : Quiet s (handle s p name body) := by
  unfold handle
  split
  · split
    · next hr =>
      have h1 : Quiet s (beginSync s p name) := quiet_upd_live s p _ (by rw [hr]; decide)
      exact ((h1.trans (hb _ _)).trans (quiet_syncFinish _ p)).trans (quiet_settle _)
    · exact quiet_warn s _
  · split
    · exact quiet_warn s _
    · next hr =>
      have h1 : Quiet s (beginAsync s p name) := quiet_upd_live s p _ hr
      exact (h1.trans (hb _ _)).trans (quiet_settle _)

theorem quiet_cmdOp (s : Sys) (p : Nat) (name : String) (acts : List Action) : Quiet s (cmdOp s p name acts) :=
  quiet_handle s p name _ (fun busy s1 => quiet_runActions busy name p s1 acts)

theorem quiet_setInv (s : Sys) (p : Nat) (b : Bool) : Quiet s (setInv s p b) :=
  quiet_upd_keeps s p (keeps_trivial (fun _ => rfl) (fun _ => rfl) (fun _ => rfl))

theorem quiet_invokeBody (p : Nat) (s : Sys) : Quiet s (invokeBody p s) := by
  unfold invokeBody
  split
  · exact Quiet.refl s
  · split
    · exact quiet_setInv s p true
    · split
      · exact (quiet_setInv s p true).trans (quiet_spawn none _ p _ _ _ _)
      · exact (quiet_setInv s p true).trans (quiet_spawnInvokeAsync _ p _)

theorem quiet_goInv (s : Sys) (p : Nat) : Quiet s (goInv s p) :=
  quiet_handle s p _ _ (fun _ s1 => quiet_invokeBody p s1)

theorem quiet_killWatch (s : Sys) (i : Nat) : Quiet s (killWatch s i) := quiet_of_actors_eq rfl rfl

theorem quiet_leaveWatch (busy : Option Nat) (p : Nat) (s : Sys) (iw : Nat × Watch) :
    Quiet s (leaveWatch busy p s iw) := by
  unfold leaveWatch
  split
  · exact (((quiet_killWatch s _).trans (quiet_drainAll busy _)).trans (quiet_stop busy _ _)).trans (quiet_popKid _ p _)
  · exact Quiet.refl s

theorem quiet_foldl_inv {β : Type} (F : Sys → β → Sys) (P : Sys → Prop) (hP : ∀ s x, P s → P (F s x))
    (hF : ∀ s x, P s → Quiet s (F s x)) (l : List β) (s : Sys) (h : P s) : Quiet s (l.foldl F s) := by
  induction l generalizing s with
  | nil => exact Quiet.refl s
  | cons x r ih => exact (hF s x h).trans (ih (F s x) (hP s x h))

theorem quiet_leaveBody (busy : Option Nat) (p : Nat) (s : Sys) : Quiet s (leaveBody busy p s) := by
  unfold leaveBody
  split
  · split
    · exact quiet_setInv s p false
    · exact (quiet_setInv s p false).trans (quiet_foldl (leaveWatch busy p) (fun t x => quiet_leaveWatch busy p t x) _ _)
  · exact Quiet.refl s

theorem quiet_leaveInv (s : Sys) (p : Nat) : Quiet s (leaveInv s p) :=
  quiet_handle s p _ _ (fun busy s1 => quiet_leaveBody busy p s1)

theorem quiet_dropSend (s : Sys) (p i : Nat) : Quiet s (dropSend s p i) :=
  quiet_upd_keeps s p (keeps_trivial (fun _ => rfl) (fun _ => rfl) (fun _ => rfl))

theorem quiet_fireTimer (s : Sys) (i : Nat) : Quiet s (fireTimer s i) :=
  (((quiet_killTimer s i).trans (quiet_dropSend _ _ i)).trans (quiet_deliverNow _ _ _)).trans (quiet_settle _)

theorem quiet_notifyDone (s : Sys) (w : Watch) : Quiet s (notifyDone s w) := by
  unfold notifyDone
  split
  · exact quiet_deliverNow s _ _
  · exact Quiet.refl s

theorem quiet_popOwnKid (s : Sys) (w : Watch) : Quiet s (popOwnKid s w) := by
  unfold popOwnKid
  split
  · exact quiet_popKid s _ _
  · exact Quiet.refl s

theorem quiet_runWatch (s : Sys) (iw : Nat × Watch) : Quiet s (runWatch s iw) := by
  unfold runWatch
  split
  · exact ((quiet_killWatch s _).trans (quiet_notifyDone _ _)).trans (quiet_popOwnKid _ _)
  · exact Quiet.refl s

theorem quiet_advance (s : Sys) (dt : Nat) : Quiet s (advance s dt) := by
  unfold advance
  have h1 : Quiet s (runWatches s) := quiet_foldl runWatch quiet_runWatch _ s
  have h2 := quiet_settle (runWatches s)
  have h3 : Quiet (settle (runWatches s)) (fireDue (settle (runWatches s)) dt) := quiet_foldl fireTimer quiet_fireTimer _ _
  have h4 : Quiet (fireDue (settle (runWatches s)) dt) (tick (fireDue (settle (runWatches s)) dt) dt) := quiet_of_actors_eq rfl rfl
  exact (((h1.trans h2).trans h3).trans h4).trans (quiet_settle _)

theorem quiet_stepOn (cmds : List (String × List Action)) (s : Sys) (op : Op) : Quiet s (stepOn cmds s op) := by
  cases op with
  | cmd aid name =>
    simp only [stepOn]
    split
    · exact Quiet.refl s
    · split
      · exact quiet_goInv s _
      · split
        · exact quiet_leaveInv s _
        · exact quiet_cmdOp s _ name _
  | adv dt => exact quiet_advance s dt
  | stop aid =>
    simp only [stepOn]
    split
    · exact Quiet.refl s
    · exact (quiet_stop none s _).trans (quiet_settle _)

theorem quiet_step (cmds : List (String × List Action)) (s : Sys) (op : Op) : Quiet s (step cmds s op) :=
  (quiet_of_actors_eq (s := s) (s' := clearWarns s) rfl rfl).trans (quiet_stepOn cmds _ op)

theorem quiet_run (cmds : List (String × List Action)) (s : Sys) (ops : List Op) : Quiet s (run cmds s ops) :=
  quiet_foldl (step cmds) (quiet_step cmds) ops s

end XSM.Actors
