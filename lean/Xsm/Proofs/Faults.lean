import Xsm.Proofs.Run
/-
Fault containment (C07): what a raising action / failing built-in / configuration error does to the
action list, to the transition and to the engine loops.
-/
namespace XSM

-- the fold behind `execActionsF` ---------------------------------------------------------------------------
/-- what `execActionsF h fuel` hands to `actStep` as "run a nested list" -/
def nestedOf (h : Hooks) : Nat → List ActionRef → String → St → St
  | 0 => fun _ _ s => s
  | f + 1 => fun fs e s => endExpansion f (execActionsF h f fs e s)
/-- `true` when the depth bound is exhausted -/
def cutOf : Nat → Bool
  | 0 => true
  | _ + 1 => false

/-- one step of the fold `execActionsF h fuel` performs -/
def stepOf (h : Hooks) (fuel : Nat) (evType : String) : St × Bool → ActionRef → St × Bool :=
  actStep h (nestedOf h fuel) (cutOf fuel) evType

/-- the accumulator after a list: the state and the flag "the rest of this list is skipped" -/
def actsAcc (h : Hooks) (fuel : Nat) (as : List ActionRef) (evType : String) (s : St) : St × Bool :=
  as.foldl (stepOf h fuel evType) (s, false)

theorem execActionsF_fold (h : Hooks) (fuel : Nat) (as : List ActionRef) (evType : String) (s : St) :
    execActionsF h fuel as evType s = (actsAcc h fuel as evType s).1 := by
  cases fuel <;> rfl

theorem actsAcc_append (h : Hooks) (fuel : Nat) (pre post : List ActionRef) (evType : String) (s : St) :
    actsAcc h fuel (pre ++ post) evType s = post.foldl (stepOf h fuel evType) (actsAcc h fuel pre evType s) := by
  unfold actsAcc; rw [List.foldl_append]

/-- the list is still running: not stopped by a contained failure, no error flagged -/
def Live (acc : St × Bool) : Prop := acc.2 = false ∧ acc.1.err = none

-- stop -----------------------------------------------------------------------------------------------------
/-- a stopped or failed accumulator is a fixed point of every further step -/
theorem actStep_stopped (h : Hooks) (nested : List ActionRef → String → St → St) (cut : Bool) (evType : String)
    (acc : St × Bool) (a : ActionRef) (hs : acc.2 = true ∨ acc.1.err.isSome = true) :
    actStep h nested cut evType acc a = acc := by
  unfold actStep
  rcases hs with hs | hs <;> simp [hs]

/-- **stop lemma**: once the flag "skip the rest" (or the error flag) is set, the fold over ANY further
    list is the identity -/
theorem foldl_actStep_stopped (h : Hooks) (nested : List ActionRef → String → St → St) (cut : Bool)
    (evType : String) : ∀ (as : List ActionRef) (acc : St × Bool),
      (acc.2 = true ∨ acc.1.err.isSome = true) → as.foldl (actStep h nested cut evType) acc = acc := by
  intro as
  induction as with
  | nil => intro acc _; rfl
  | cons a as ih =>
    intro acc hs
    simp only [List.foldl_cons]
    rw [actStep_stopped h nested cut evType acc a hs]
    exact ih acc hs

/-- whatever step sets the flag, the actions after it do not run -/
theorem truncates_of_stop (h : Hooks) (fuel : Nat) (pre post : List ActionRef) (bad : ActionRef)
    (evType : String) (s : St)
    (hstop : (stepOf h fuel evType (actsAcc h fuel pre evType s) bad).2 = true ∨
             (stepOf h fuel evType (actsAcc h fuel pre evType s) bad).1.err.isSome = true) :
    execActionsF h fuel (pre ++ bad :: post) evType s = execActionsF h fuel (pre ++ [bad]) evType s := by
  rw [execActionsF_fold, execActionsF_fold, actsAcc_append, actsAcc_append]
  simp only [List.foldl_cons, List.foldl_nil]
  unfold stepOf at hstop ⊢
  rw [foldl_actStep_stopped h _ _ evType post _ hstop]

-- one step, by outcome of the user registry ----------------------------------------------------------------
theorem actStep_raises (h : Hooks) (nested : List ActionRef → String → St → St) (cut : Bool) (evType : String)
    (acc : St × Bool) (a : ActionRef) (hl : Live acc) (hr : h.act a.type acc.1.ctx evType = .raises) :
    actStep h nested cut evType acc a =
      (emit ("#aerr:" ++ a.type) (emit (a.type ++ "@" ++ evType) acc.1), true) := by
  unfold actStep
  simp only [hl.1, hl.2, Option.isSome_none, Bool.or_self, Bool.false_eq_true, if_false, hr]
  rfl

theorem actStep_ok (h : Hooks) (nested : List ActionRef → String → St → St) (cut : Bool) (evType : String)
    (acc : St × Bool) (a : ActionRef) (c : Ctx) (hl : Live acc) (hr : h.act a.type acc.1.ctx evType = .ok c) :
    actStep h nested cut evType acc a = (emit (a.type ++ "@" ++ evType) { acc.1 with ctx := c }, false) := by
  unfold actStep
  simp only [hl.1, hl.2, Option.isSome_none, Bool.or_self, Bool.false_eq_true, if_false, hr]
  rfl

theorem actStep_async (h : Hooks) (nested : List ActionRef → String → St → St) (cut : Bool) (evType : String)
    (acc : St × Bool) (a : ActionRef) (c : Ctx) (hl : Live acc)
    (hr : h.act a.type acc.1.ctx evType = .isAsync c) :
    actStep h nested cut evType acc a =
      if h.syncEngine then ({ acc.1 with err := some (.notSupported a.type) }, true)
      else (emit (a.type ++ "@" ++ evType) { acc.1 with ctx := c }, false) := by
  unfold actStep
  simp only [hl.1, hl.2, Option.isSome_none, Bool.or_self, Bool.false_eq_true, if_false, hr]
  split
  · simp [St.fail, hl.2]
  · rfl

theorem actStep_missing (h : Hooks) (nested : List ActionRef → String → St → St) (cut : Bool) (evType : String)
    (acc : St × Bool) (a : ActionRef) (hl : Live acc) (hr : h.act a.type acc.1.ctx evType = .missing)
    (hb : canonicalBuiltin a.type = none) :
    actStep h nested cut evType acc a = ({ acc.1 with err := some (.missingAction a.type) }, true) := by
  unfold actStep
  simp only [hl.1, hl.2, Option.isSome_none, Bool.or_self, Bool.false_eq_true, if_false, hr, hb]
  simp [St.fail, hl.2]

theorem actStep_builtin (h : Hooks) (nested : List ActionRef → String → St → St) (cut : Bool) (evType : String)
    (acc : St × Bool) (a : ActionRef) (canon : String) (hl : Live acc)
    (hr : h.act a.type acc.1.ctx evType = .missing) (hb : canonicalBuiltin a.type = some canon) :
    actStep h nested cut evType acc a = builtinStep h nested cut evType canon a acc.1 := by
  unfold actStep
  simp only [hl.1, hl.2, Option.isSome_none, Bool.or_self, Bool.false_eq_true, if_false, hr, hb]

-- a list with one distinguished action ---------------------------------------------------------------------
theorem not_live_stopped {acc : St × Bool} (h : ¬ Live acc) : acc.2 = true ∨ acc.1.err.isSome = true := by
  unfold Live at h
  cases h2 : acc.2 with
  | true => exact Or.inl rfl
  | false =>
    cases he : acc.1.err with
    | none => exact absurd ⟨h2, he⟩ h
    | some _ => exact Or.inr rfl

theorem execActionsF_snoc (h : Hooks) (fuel : Nat) (pre : List ActionRef) (a : ActionRef) (evType : String)
    (s : St) : execActionsF h fuel (pre ++ [a]) evType s =
      (stepOf h fuel evType (actsAcc h fuel pre evType s) a).1 := by
  rw [execActionsF_fold, actsAcc_append]; rfl

/-- **a raising action skips the remainder of its list** — whatever the remainder is -/
theorem action_failure_truncates (h : Hooks) (fuel : Nat) (pre post : List ActionRef) (bad : ActionRef)
    (evType : String) (s : St)
    (hraise : h.act bad.type (execActionsF h fuel pre evType s).ctx evType = .raises) :
    execActionsF h fuel (pre ++ bad :: post) evType s = execActionsF h fuel (pre ++ [bad]) evType s := by
  apply truncates_of_stop
  rw [execActionsF_fold] at hraise
  by_cases hl : Live (actsAcc h fuel pre evType s)
  · left; unfold stepOf; rw [actStep_raises h _ _ evType _ bad hl hraise]
  · have hs := not_live_stopped hl
    unfold stepOf; rw [actStep_stopped h _ _ evType _ bad hs]; exact hs

/-- what the raising action itself does: its own record and the `on_action_error` notification are
    prepended to the trace; no other field of the state changes -/
theorem raising_action_effect (h : Hooks) (fuel : Nat) (pre : List ActionRef) (bad : ActionRef)
    (evType : String) (s : St) (hlive : Live (actsAcc h fuel pre evType s))
    (hraise : h.act bad.type (execActionsF h fuel pre evType s).ctx evType = .raises) :
    execActionsF h fuel (pre ++ [bad]) evType s =
      { execActionsF h fuel pre evType s with
        trace := ("#aerr:" ++ bad.type) :: (bad.type ++ "@" ++ evType) :: (execActionsF h fuel pre evType s).trace } := by
  rw [execActionsF_snoc]
  rw [execActionsF_fold] at hraise ⊢
  unfold stepOf; rw [actStep_raises h _ _ evType _ bad hlive hraise]; rfl

/-- a name with neither a user implementation nor a built-in: configuration error, list stopped -/
theorem missing_action_effect (h : Hooks) (fuel : Nat) (pre post : List ActionRef) (bad : ActionRef)
    (evType : String) (s : St) (hlive : Live (actsAcc h fuel pre evType s))
    (hm : h.act bad.type (execActionsF h fuel pre evType s).ctx evType = .missing)
    (hb : canonicalBuiltin bad.type = none) :
    execActionsF h fuel (pre ++ bad :: post) evType s =
      { execActionsF h fuel pre evType s with err := some (.missingAction bad.type) } := by
  rw [execActionsF_fold] at hm
  have hstep := actStep_missing h (nestedOf h fuel) (cutOf fuel) evType _ bad hlive hm hb
  rw [truncates_of_stop h fuel pre post bad evType s (by left; unfold stepOf; rw [hstep]),
    execActionsF_snoc, execActionsF_fold]
  unfold stepOf; rw [hstep]

/-- a coroutine action: refused by the sync engine (configuration error), run like any other by the
    async one -/
theorem async_action_effect (h : Hooks) (fuel : Nat) (pre : List ActionRef) (bad : ActionRef)
    (evType : String) (s : St) (c : Ctx) (hlive : Live (actsAcc h fuel pre evType s))
    (ha : h.act bad.type (execActionsF h fuel pre evType s).ctx evType = .isAsync c) :
    (h.syncEngine = true → ∀ post, execActionsF h fuel (pre ++ bad :: post) evType s =
        { execActionsF h fuel pre evType s with err := some (.notSupported bad.type) }) ∧
    (h.syncEngine = false → execActionsF h fuel (pre ++ [bad]) evType s =
        emit (bad.type ++ "@" ++ evType) { execActionsF h fuel pre evType s with ctx := c }) := by
  rw [execActionsF_fold] at ha
  have hstep := actStep_async h (nestedOf h fuel) (cutOf fuel) evType _ bad c hlive ha
  constructor
  · intro hsync post
    rw [hsync] at hstep
    simp only [if_true] at hstep
    rw [truncates_of_stop h fuel pre post bad evType s (by left; unfold stepOf; rw [hstep]),
      execActionsF_snoc, execActionsF_fold]
    unfold stepOf; rw [hstep]
  · intro hsync
    rw [hsync] at hstep
    simp only [Bool.false_eq_true, if_false] at hstep
    rw [execActionsF_snoc, execActionsF_fold]
    unfold stepOf; rw [hstep]

/-- an implemented, returning action: its record, the context it left — and the list goes on -/
theorem ok_action_effect (h : Hooks) (fuel : Nat) (pre : List ActionRef) (a : ActionRef)
    (evType : String) (s : St) (c : Ctx) (hlive : Live (actsAcc h fuel pre evType s))
    (ha : h.act a.type (execActionsF h fuel pre evType s).ctx evType = .ok c) :
    execActionsF h fuel (pre ++ [a]) evType s =
        emit (a.type ++ "@" ++ evType) { execActionsF h fuel pre evType s with ctx := c } ∧
      Live (actsAcc h fuel (pre ++ [a]) evType s) := by
  rw [execActionsF_fold] at ha
  have hstep := actStep_ok h (nestedOf h fuel) (cutOf fuel) evType _ a c hlive ha
  constructor
  · rw [execActionsF_snoc, execActionsF_fold]; unfold stepOf; rw [hstep]
  · rw [actsAcc_append]
    simp only [List.foldl_cons, List.foldl_nil]
    unfold stepOf; rw [hstep]
    exact ⟨rfl, hlive.2⟩

-- built-ins ------------------------------------------------------------------------------------------------
/-- what `_collect_builtin_followups` produced (the `let bo` of `builtinStep`) -/
def builtinOutcome (h : Hooks) (cut : Bool) (evType canon : String) (a : ActionRef) (s : St) : BOut :=
  if cut then .followups []
  else if canon = Tables.act_CHOOSE ∧ s.expCut = false then pickBranch h s evType (chooseBranches a.params)
  else .followups []

theorem builtinStep_failed (h : Hooks) (nested : List ActionRef → String → St → St) (cut : Bool)
    (evType canon : String) (a : ActionRef) (s : St) (e : EErr)
    (hb : builtinOutcome h cut evType canon a s = .failed e) :
    builtinStep h nested cut evType canon a s = (emit ("#aerr:" ++ a.type) s, true) := by
  unfold builtinStep
  unfold builtinOutcome at hb
  simp only [hb]

theorem builtinStep_followups (h : Hooks) (nested : List ActionRef → String → St → St) (cut : Bool)
    (evType canon : String) (a : ActionRef) (s : St) (fs : List ActionRef)
    (hb : builtinOutcome h cut evType canon a s = .followups fs) :
    builtinStep h nested cut evType canon a s =
      finishBuiltin h canon a
        (if fs.isEmpty then assignStep canon cut a s else nested fs evType (assignStep canon cut a s)) := by
  unfold builtinStep
  unfold builtinOutcome at hb
  simp only [hb]

theorem assignStep_err (canon : String) (cut : Bool) (a : ActionRef) (s : St) :
    (assignStep canon cut a s).err = s.err := by
  unfold assignStep; (repeat' split) <;> rfl

theorem finishBuiltin_err_none (h : Hooks) (hr : ∀ e s, (h.sndRaise e s).err = s.err) (canon : String)
    (a : ActionRef) (s2 : St) : (finishBuiltin h canon a s2).1.err = none := by
  unfold finishBuiltin
  split
  · rfl
  · rename_i hn
    have h2 : s2.err = none := by
      cases he : s2.err with
      | none => rfl
      | some _ => simp [he] at hn
    split
    · split
      · rw [hr]; exact h2
      · exact h2
    · exact h2

theorem finishBuiltin_stop (h : Hooks) (canon : String) (a : ActionRef) (s2 : St) :
    (finishBuiltin h canon a s2).2 = s2.err.isSome := by
  unfold finishBuiltin
  split
  · rename_i hh; simp [hh]
  · rename_i hh
    split <;> simp [hh]

/-- **a built-in never makes the transition abort**: whatever its callback or its nested list did, the
    error flag is clear afterwards (needs only that delivering a raised event does not set it) -/
theorem builtinStep_err_none (h : Hooks) (hr : ∀ e s, (h.sndRaise e s).err = s.err)
    (nested : List ActionRef → String → St → St) (cut : Bool) (evType canon : String) (a : ActionRef) (s : St)
    (hs : s.err = none) : (builtinStep h nested cut evType canon a s).1.err = none := by
  cases hb : builtinOutcome h cut evType canon a s with
  | failed e => rw [builtinStep_failed h nested cut evType canon a s e hb]; exact hs
  | followups fs => rw [builtinStep_followups h nested cut evType canon a s fs hb]; exact finishBuiltin_err_none h hr _ _ _

/-- the flag "skip the rest" is set exactly in the failure branches -/
theorem builtinStep_stop_iff (h : Hooks) (nested : List ActionRef → String → St → St) (cut : Bool)
    (evType canon : String) (a : ActionRef) (s : St) (hs : s.err = none) :
    (builtinStep h nested cut evType canon a s).2 = true ↔
      match builtinOutcome h cut evType canon a s with
      | .failed _ => True
      | .followups fs => fs ≠ [] ∧ (nested fs evType (assignStep canon cut a s)).err.isSome = true := by
  cases hb : builtinOutcome h cut evType canon a s with
  | failed e => rw [builtinStep_failed h nested cut evType canon a s e hb]; simp
  | followups fs =>
    rw [builtinStep_followups h nested cut evType canon a s fs hb, finishBuiltin_stop]
    cases fs with
    | nil => simp [assignStep_err, hs]
    | cons f fs => simp

/-- whenever a built-in stops the list, `on_action_error` was notified for it -/
theorem builtinStep_stop_notified (h : Hooks) (nested : List ActionRef → String → St → St) (cut : Bool)
    (evType canon : String) (a : ActionRef) (s : St)
    (hstop : (builtinStep h nested cut evType canon a s).2 = true) :
    (builtinStep h nested cut evType canon a s).1.trace.head? = some ("#aerr:" ++ a.type) := by
  cases hb : builtinOutcome h cut evType canon a s with
  | failed e => rw [builtinStep_failed h nested cut evType canon a s e hb]; rfl
  | followups fs =>
    rw [builtinStep_followups h nested cut evType canon a s fs hb] at hstop ⊢
    rw [finishBuiltin_stop] at hstop
    unfold finishBuiltin
    rw [if_pos hstop]; rfl

-- no configuration errors ⇒ the error flag is never set by an action list -----------------------------------
/-- the user registry holds no *configuration* error: a name it does not implement is a built-in, and a
    coroutine action is only met by the async engine. (Raising actions are allowed.) -/
def NoConfigErrors (h : Hooks) : Prop :=
  ∀ n c e, (h.act n c e = .missing → canonicalBuiltin n ≠ none) ∧
    (∀ c', h.act n c e = .isAsync c' → h.syncEngine = false)

theorem actStep_err_none (h : Hooks) (hr : ∀ e s, (h.sndRaise e s).err = s.err) (hn : NoConfigErrors h)
    (nested : List ActionRef → String → St → St) (cut : Bool) (evType : String) (acc : St × Bool) (a : ActionRef)
    (hs : acc.1.err = none) : (actStep h nested cut evType acc a).1.err = none := by
  unfold actStep
  split
  · exact hs
  · split
    · exact hs
    · rename_i c hc
      rw [(hn a.type acc.1.ctx evType).2 c hc]
      exact hs
    · exact hs
    · rename_i hm
      split
      · rename_i hb; exact absurd hb ((hn a.type acc.1.ctx evType).1 hm)
      · exact builtinStep_err_none h hr nested cut evType _ a acc.1 hs

theorem foldl_actStep_err_none (h : Hooks) (hr : ∀ e s, (h.sndRaise e s).err = s.err) (hn : NoConfigErrors h)
    (nested : List ActionRef → String → St → St) (cut : Bool) (evType : String) :
    ∀ (as : List ActionRef) (acc : St × Bool), acc.1.err = none →
      (as.foldl (actStep h nested cut evType) acc).1.err = none := by
  intro as
  induction as with
  | nil => intro acc hs; exact hs
  | cons a as ih =>
    intro acc hs
    simp only [List.foldl_cons]
    exact ih _ (actStep_err_none h hr hn nested cut evType acc a hs)

/-- **raising actions never set the error flag** -/
theorem execActionsF_err_none (h : Hooks) (hr : ∀ e s, (h.sndRaise e s).err = s.err) (hn : NoConfigErrors h)
    (fuel : Nat) (as : List ActionRef) (evType : String) (s : St) (hs : s.err = none) :
    (execActionsF h fuel as evType s).err = none := by
  rw [execActionsF_fold]
  exact foldl_actStep_err_none h hr hn _ _ evType as (s, false) hs

theorem execActions_err_none (h : Hooks) (hok : HooksOK h) (hn : NoConfigErrors h)
    (as : List ActionRef) (evType : String) (s : St) (hs : s.err = none) :
    (execActions h as evType s).err = none :=
  execActionsF_err_none h hok.raise_err hn _ as evType s hs

-- a failing built-in inside a list --------------------------------------------------------------------------
/-- **a built-in whose callback fails** (a `choose` guard without implementation, a malformed branch):
    the rest of the list is skipped, `on_action_error` is notified, nothing else changes — in
    particular the error flag stays clear -/
theorem builtin_failed_effect (h : Hooks) (fuel : Nat) (pre post : List ActionRef) (bad : ActionRef)
    (evType canon : String) (s : St) (e : EErr) (hlive : Live (actsAcc h fuel pre evType s))
    (hm : h.act bad.type (execActionsF h fuel pre evType s).ctx evType = .missing)
    (hb : canonicalBuiltin bad.type = some canon)
    (hf : builtinOutcome h (cutOf fuel) evType canon bad (execActionsF h fuel pre evType s) = .failed e) :
    execActionsF h fuel (pre ++ bad :: post) evType s =
      emit ("#aerr:" ++ bad.type) (execActionsF h fuel pre evType s) := by
  rw [execActionsF_fold] at hm hf
  have hstep := actStep_builtin h (nestedOf h fuel) (cutOf fuel) evType _ bad canon hlive hm hb
  rw [builtinStep_failed h _ _ evType canon bad _ e hf] at hstep
  rw [truncates_of_stop h fuel pre post bad evType s (by left; unfold stepOf; rw [hstep]),
    execActionsF_snoc, execActionsF_fold]
  unfold stepOf; rw [hstep]

/-- **a configuration error inside the nested list of a built-in** (a missing action in a `choose`
    branch): contained at the built-in — flag cleared, `on_action_error` notified for the built-in,
    rest of the OUTER list skipped -/
theorem builtin_nested_error_effect (h : Hooks) (fuel : Nat) (pre post : List ActionRef) (bad : ActionRef)
    (evType canon : String) (s : St) (fs : List ActionRef) (hlive : Live (actsAcc h fuel pre evType s))
    (hm : h.act bad.type (execActionsF h fuel pre evType s).ctx evType = .missing)
    (hb : canonicalBuiltin bad.type = some canon)
    (hf : builtinOutcome h (cutOf fuel) evType canon bad (execActionsF h fuel pre evType s) = .followups fs)
    (hne : fs ≠ [])
    (herr : (nestedOf h fuel fs evType
      (assignStep canon (cutOf fuel) bad (execActionsF h fuel pre evType s))).err ≠ none) :
    execActionsF h fuel (pre ++ bad :: post) evType s =
      emit ("#aerr:" ++ bad.type)
        { nestedOf h fuel fs evType (assignStep canon (cutOf fuel) bad (execActionsF h fuel pre evType s))
          with err := none } := by
  rw [execActionsF_fold h fuel pre] at hm hf herr ⊢
  have hstep := actStep_builtin h (nestedOf h fuel) (cutOf fuel) evType _ bad canon hlive hm hb
  rw [builtinStep_followups h _ _ evType canon bad _ fs hf] at hstep
  have hemp : fs.isEmpty = false := by cases fs with | nil => exact absurd rfl hne | cons _ _ => rfl
  have hsome : (nestedOf h fuel fs evType
      (assignStep canon (cutOf fuel) bad (actsAcc h fuel pre evType s).1)).err.isSome = true := by
    cases hh : (nestedOf h fuel fs evType
      (assignStep canon (cutOf fuel) bad (actsAcc h fuel pre evType s).1)).err with
    | none => exact absurd hh herr
    | some _ => rfl
  simp only [hemp, Bool.false_eq_true, if_false] at hstep
  unfold finishBuiltin at hstep
  rw [if_pos hsome] at hstep
  rw [truncates_of_stop h fuel pre post bad evType s (by left; unfold stepOf; rw [hstep]),
    execActionsF_snoc]
  unfold stepOf; rw [hstep]

/-- in general: a built-in in a live list leaves the error flag clear, and if it stops the list it has
    notified `on_action_error` and everything after it is skipped -/
theorem builtin_in_list (h : Hooks) (hr : ∀ e s, (h.sndRaise e s).err = s.err) (fuel : Nat)
    (pre post : List ActionRef) (bad : ActionRef) (evType canon : String) (s : St)
    (hlive : Live (actsAcc h fuel pre evType s))
    (hm : h.act bad.type (execActionsF h fuel pre evType s).ctx evType = .missing)
    (hb : canonicalBuiltin bad.type = some canon) :
    (execActionsF h fuel (pre ++ [bad]) evType s).err = none ∧
    ((actsAcc h fuel (pre ++ [bad]) evType s).2 = true →
      execActionsF h fuel (pre ++ bad :: post) evType s = execActionsF h fuel (pre ++ [bad]) evType s ∧
      (execActionsF h fuel (pre ++ [bad]) evType s).trace.head? = some ("#aerr:" ++ bad.type)) := by
  rw [execActionsF_fold] at hm
  have hstep := actStep_builtin h (nestedOf h fuel) (cutOf fuel) evType _ bad canon hlive hm hb
  have hacc : actsAcc h fuel (pre ++ [bad]) evType s =
      builtinStep h (nestedOf h fuel) (cutOf fuel) evType canon bad (actsAcc h fuel pre evType s).1 := by
    rw [actsAcc_append]; simp only [List.foldl_cons, List.foldl_nil]; unfold stepOf; exact hstep
  rw [execActionsF_fold, hacc]
  refine ⟨builtinStep_err_none h hr _ _ evType canon bad _ hlive.2, fun hstop => ⟨?_, ?_⟩⟩
  · rw [truncates_of_stop h fuel pre post bad evType s (by left; unfold stepOf; rw [hstep]; exact hstop),
      execActionsF_fold, hacc]
  · exact builtinStep_stop_notified h _ _ evType canon bad _ hstop

/-- an action that raises INSIDE the nested list of a built-in stops that nested list only: the
    built-in ends normally and the outer list goes on -/
theorem builtinStep_continues (h : Hooks) (hr : ∀ e s, (h.sndRaise e s).err = s.err) (hn : NoConfigErrors h)
    (fuel : Nat) (evType canon : String) (a : ActionRef) (s : St) (fs : List ActionRef) (hs : s.err = none)
    (hf : builtinOutcome h (cutOf fuel) evType canon a s = .followups fs) :
    (builtinStep h (nestedOf h fuel) (cutOf fuel) evType canon a s).2 = false := by
  cases hb : (builtinStep h (nestedOf h fuel) (cutOf fuel) evType canon a s).2 with
  | false => rfl
  | true =>
    have := (builtinStep_stop_iff h (nestedOf h fuel) (cutOf fuel) evType canon a s hs).1 hb
    rw [hf] at this
    simp only at this
    have hnone : (nestedOf h fuel fs evType (assignStep canon (cutOf fuel) a s)).err = none := by
      cases fuel with
      | zero => simp only [nestedOf]; rw [assignStep_err]; exact hs
      | succ f =>
        simp only [nestedOf, endExpansion_err]
        exact execActionsF_err_none h hr hn f fs evType _ (by rw [assignStep_err]; exact hs)
    rw [hnone] at this
    exact absurd this.2 (by simp)

-- preorders every action step respects -----------------------------------------------------------------------
/-- a relation "before ↦ after" closed under what actions do to the state by themselves -/
structure ActRel (R : St → St → Prop) : Prop where
  refl : ∀ s, R s s
  trans : ∀ {a b c}, R a b → R b c → R a c
  ctx : ∀ s c, R s { s with ctx := c }
  trace : ∀ s t, R s { s with trace := t }
  err : ∀ s e, R s { s with err := e }
  expCut : ∀ s b, R s { s with expCut := b }

/-- … and under what exits, entries, history recording and completion do -/
structure EngRel (R : St → St → Prop) : Prop extends ActRel R where
  cfg : ∀ s c, R s { s with cfg := c }
  hist : ∀ s x, R s { s with hist := x }
  complete : ∀ s, R s (complete s)

structure HooksRel (R : St → St → Prop) (h : Hooks) : Prop where
  snd : ∀ e s, R s (h.snd e s)
  raise : ∀ e s, R s (h.sndRaise e s)

section rel
variable {R : St → St → Prop}

theorem ActRel.emit (hR : ActRel R) (r : String) (s : St) : R s (emit r s) := hR.trace s _
theorem ActRel.fail (hR : ActRel R) (s : St) (e : EErr) : R s (s.fail e) := by
  unfold St.fail; split
  · exact hR.refl s
  · exact hR.err s _

theorem assignStep_rel (hR : ActRel R) (canon : String) (cut : Bool) (a : ActionRef) (s : St) :
    R s (assignStep canon cut a s) := by
  unfold assignStep; split
  · exact hR.expCut s _
  · split
    · exact hR.ctx s _
    · exact hR.refl s

theorem endExpansion_rel (hR : ActRel R) (f : Nat) (s : St) : R s (endExpansion f s) := by
  unfold endExpansion; split
  · exact hR.expCut s _
  · exact hR.refl s

theorem finishBuiltin_rel (hR : ActRel R) (h : Hooks) (hh : HooksRel R h) (canon : String) (a : ActionRef)
    (s2 : St) : R s2 (finishBuiltin h canon a s2).1 := by
  unfold finishBuiltin
  split
  · exact hR.trans (hR.err s2 none) (hR.emit _ _)
  · split
    · split
      · exact hh.raise _ _
      · exact hR.refl _
    · exact hR.refl _

theorem builtinStep_rel (hR : ActRel R) (h : Hooks) (hh : HooksRel R h)
    (nested : List ActionRef → String → St → St) (hn : ∀ as ev s, R s (nested as ev s))
    (cut : Bool) (evType canon : String) (a : ActionRef) (s : St) :
    R s (builtinStep h nested cut evType canon a s).1 := by
  cases hb : builtinOutcome h cut evType canon a s with
  | failed e => rw [builtinStep_failed h nested cut evType canon a s e hb]; exact hR.emit _ _
  | followups fs =>
    rw [builtinStep_followups h nested cut evType canon a s fs hb]
    refine hR.trans ?_ (finishBuiltin_rel hR h hh canon a _)
    split
    · exact assignStep_rel hR _ _ _ _
    · exact hR.trans (assignStep_rel hR _ _ _ _) (hn _ _ _)

theorem actStep_rel (hR : ActRel R) (h : Hooks) (hh : HooksRel R h)
    (nested : List ActionRef → String → St → St) (hn : ∀ as ev s, R s (nested as ev s))
    (cut : Bool) (evType : String) (acc : St × Bool) (a : ActionRef) :
    R acc.1 (actStep h nested cut evType acc a).1 := by
  unfold actStep
  split
  · exact hR.refl _
  · split
    · exact hR.trans (hR.ctx _ _) (hR.emit _ _)
    · split
      · exact hR.fail _ _
      · exact hR.trans (hR.ctx _ _) (hR.emit _ _)
    · exact hR.trans (hR.emit _ _) (hR.emit _ _)
    · split
      · exact hR.fail _ _
      · exact builtinStep_rel hR h hh nested hn cut evType _ a acc.1

theorem foldl_actStep_rel (hR : ActRel R) (h : Hooks) (hh : HooksRel R h)
    (nested : List ActionRef → String → St → St) (hn : ∀ as ev s, R s (nested as ev s))
    (cut : Bool) (evType : String) : ∀ (as : List ActionRef) (acc : St × Bool),
      R acc.1 (as.foldl (actStep h nested cut evType) acc).1 := by
  intro as
  induction as with
  | nil => intro acc; exact hR.refl _
  | cons a as ih =>
    intro acc
    simp only [List.foldl_cons]
    exact hR.trans (actStep_rel hR h hh nested hn cut evType acc a) (ih _)

theorem execActionsF_rel (hR : ActRel R) (h : Hooks) (hh : HooksRel R h) :
    ∀ (fuel : Nat) (as : List ActionRef) (evType : String) (s : St), R s (execActionsF h fuel as evType s) := by
  intro fuel
  induction fuel with
  | zero =>
    intro as evType s
    unfold execActionsF
    exact foldl_actStep_rel hR h hh _ (fun _ _ s => hR.refl s) true evType as (s, false)
  | succ f ih =>
    intro as evType s
    unfold execActionsF
    exact foldl_actStep_rel hR h hh _ (fun as ev s => hR.trans (ih as ev s) (endExpansion_rel hR _ _)) false evType as (s, false)

theorem execActions_rel (hR : ActRel R) (h : Hooks) (hh : HooksRel R h) (as : List ActionRef) (evType : String)
    (s : St) : R s (execActions h as evType s) := execActionsF_rel hR h hh _ as evType s

theorem foldl_rel (hR : ActRel R) {α : Type} (f : St → α → St) (hf : ∀ s a, R s (f s a)) :
    ∀ (l : List α) (s : St), R s (l.foldl f s) := by
  intro l
  induction l with
  | nil => intro s; exact hR.refl s
  | cons a l ih => intro s; simp only [List.foldl_cons]; exact hR.trans (hf s a) (ih _)

theorem checkDone_rel (hR : EngRel R) (h : Hooks) (hh : HooksRel R h) (m : Machine) (fin : Path) (s : St) :
    R s (checkAndFireOnDone h m fin s) := by
  unfold checkAndFireOnDone
  simp only
  split
  · exact hh.snd _ _
  · split
    · exact hR.complete s
    · exact hR.refl s

theorem addActive_rel (hR : EngRel R) (p : Path) (s : St) : R s (addActive p s) := by
  unfold addActive; split
  · exact hR.refl s
  · exact hR.cfg s _

theorem enterOne_rel (hR : EngRel R) (h : Hooks) (hh : HooksRel R h) (fl : Flavor) (m : Machine)
    (ev : Option String) (s : St) (e : Entry) : R s (enterOne h fl m ev s e) := by
  unfold enterOne
  split
  · exact hR.refl s
  · split
    · exact hR.refl s
    · rename_i d _
      have h1 := hR.trans (addActive_rel hR e.path s)
        (execActions_rel hR.toActRel h hh d.entry (entryEvName fl m e ev) (addActive e.path s))
      simp only
      split
      · exact h1
      · split
        · exact hR.trans h1 (checkDone_rel hR h hh m e.path _)
        · exact h1

theorem exitOne_rel (hR : EngRel R) (h : Hooks) (hh : HooksRel R h) (fl : Flavor) (m : Machine)
    (ev : Option String) (s : St) (p : Path) : R s (exitOne h fl m ev s p) := by
  unfold exitOne
  split
  · exact hR.refl s
  · split
    · exact hR.refl s
    · exact hR.trans (execActions_rel hR.toActRel h hh _ _ s) (hR.cfg _ _)

theorem runPlan_rel (hR : EngRel R) (h : Hooks) (hh : HooksRel R h) (fl : Flavor) (m : Machine) (ev : Ev)
    (pl : Plan) (s : St) : R s (runPlan h fl m ev pl s) := by
  unfold runPlan
  simp only
  have h1 : R s (recordHistory m pl.exits s) := hR.hist s _
  have h2 := hR.trans h1 (foldl_rel hR.toActRel _ (exitOne_rel hR h hh fl m (some ev.type)) pl.exits _)
  have h3 : R s (if (pl.exits.foldl (exitOne h fl m (some ev.type)) (recordHistory m pl.exits s)).err.isSome = true
      then pl.exits.foldl (exitOne h fl m (some ev.type)) (recordHistory m pl.exits s)
      else execActions h pl.actions ev.type
        (pl.exits.foldl (exitOne h fl m (some ev.type)) (recordHistory m pl.exits s))) := by
    split
    · exact h2
    · exact hR.trans h2 (execActions_rel hR.toActRel h hh _ _ _)
  have h4 := hR.trans h3 (foldl_rel hR.toActRel _ (enterOne_rel hR h hh fl m (some ev.type)) pl.entries _)
  split
  · exact hR.trans h4 (hR.toActRel.fail _ _)
  · exact h4

theorem execute_rel (hR : EngRel R) (h : Hooks) (hh : HooksRel R h) (fl : Flavor) (m : Machine) (ev : Ev)
    (pl : Plan) (s : St) : R s (execute h fl m ev pl s) := by
  have hc : R s (executeCore h fl m ev pl s) := by
    unfold executeCore
    split
    · split
      · exact hR.toActRel.fail _ _
      · exact execActions_rel hR.toActRel h hh _ _ _
    · simp only
      split
      · exact hR.trans (runPlan_rel hR h hh fl m ev pl s) (hR.cfg _ _)
      · exact runPlan_rel hR h hh fl m ev pl s
  unfold execute
  simp only
  split
  · exact hc
  · exact hR.trans hc (hR.toActRel.emit _ _)

theorem processEvent_rel (hR : EngRel R) (h : Hooks) (hh : HooksRel R h) (fl : Flavor) (m : Machine)
    (u : UEnv) (ev : Ev) (s : St) : R s (processEvent h fl m u ev s) := by
  unfold processEvent
  split
  · exact hR.toActRel.fail _ _
  · apply foldl_rel hR.toActRel
    intro s c
    split
    · exact hR.refl s
    · split
      · exact hR.refl s
      · split
        · exact hR.refl s
        · exact execute_rel hR h hh fl m ev _ s

theorem transientLoop_rel (hR : EngRel R) (h : Hooks) (hh : HooksRel R h) (fl : Flavor) (m : Machine)
    (u : UEnv) : ∀ (fuel : Nat) (s : St), R s (transientLoop h fl m u fuel s) := by
  intro fuel
  induction fuel with
  | zero => intro s; exact hR.refl s
  | succ n ih =>
    intro s
    simp only [transientLoop]
    split
    · exact hR.refl s
    · split
      · exact hR.toActRel.fail _ _
      · split
        · exact hR.trans (processEvent_rel hR h hh fl m u _ s) (ih _)
        · exact hR.refl s

end rel


-- instances ------------------------------------------------------------------------------------------------
/-- the failure counter of the async run loop is not touched while an event is processed -/
def errorsRel (s s' : St) : Prop := s'.errors = s.errors
theorem errorsRel_eng : EngRel errorsRel where
  refl := fun _ => rfl
  trans := fun h1 h2 => Eq.trans h2 h1
  ctx := fun _ _ => rfl
  trace := fun _ _ => rfl
  err := fun _ _ => rfl
  expCut := fun _ _ => rfl
  cfg := fun _ _ => rfl
  hist := fun _ _ => rfl
  complete := by intro s; unfold complete errorsRel; split <;> rfl

/-- the only change of `status` while events are processed: "running" becomes "done" -/
def StatusStep (a b : String) : Prop := b = a ∨ (a = "running" ∧ b = "done")
def statusRel (s s' : St) : Prop := StatusStep s.status s'.status
theorem statusRel_eng : EngRel statusRel where
  refl := fun _ => Or.inl rfl
  trans := by
    intro a b c h1 h2
    unfold statusRel StatusStep at *
    rcases h1 with h1 | ⟨h1, h1'⟩
    · rw [h1] at h2; exact h2
    · rcases h2 with h2 | ⟨h2, _⟩
      · right; exact ⟨h1, by rw [h2, h1']⟩
      · rw [h1'] at h2; exact absurd h2 (by decide)
  ctx := fun _ _ => Or.inl rfl
  trace := fun _ _ => Or.inl rfl
  err := fun _ _ => Or.inl rfl
  expCut := fun _ _ => Or.inl rfl
  cfg := fun _ _ => Or.inl rfl
  hist := fun _ _ => Or.inl rfl
  complete := by
    intro s; unfold complete statusRel StatusStep; split
    · rename_i h; right; exact ⟨h, rfl⟩
    · left; rfl

/-- the queue only grows at its end while events are processed -/
def queueRel (s s' : St) : Prop := ∃ added, s'.queue = s.queue ++ added
theorem queueRel_eng : EngRel queueRel where
  refl := fun _ => ⟨[], by simp⟩
  trans := by
    rintro a b c ⟨x, hx⟩ ⟨y, hy⟩
    exact ⟨x ++ y, by rw [hy, hx, List.append_assoc]⟩
  ctx := fun _ _ => ⟨[], by simp⟩
  trace := fun _ _ => ⟨[], by simp⟩
  err := fun _ _ => ⟨[], by simp⟩
  expCut := fun _ _ => ⟨[], by simp⟩
  cfg := fun _ _ => ⟨[], by simp⟩
  hist := fun _ _ => ⟨[], by simp⟩
  complete := by intro s; unfold complete queueRel; split <;> exact ⟨[], by simp⟩

/-- configuration, history and status: what actions never touch -/
def coreRel (s s' : St) : Prop := s'.cfg = s.cfg ∧ s'.hist = s.hist ∧ s'.status = s.status
theorem coreRel_act : ActRel coreRel where
  refl := fun _ => ⟨rfl, rfl, rfl⟩
  trans := fun h1 h2 => ⟨h2.1.trans h1.1, h2.2.1.trans h1.2.1, h2.2.2.trans h1.2.2⟩
  ctx := fun _ _ => ⟨rfl, rfl, rfl⟩
  trace := fun _ _ => ⟨rfl, rfl, rfl⟩
  err := fun _ _ => ⟨rfl, rfl, rfl⟩
  expCut := fun _ _ => ⟨rfl, rfl, rfl⟩

/-- send hooks that touch only the queue and the counters -/
structure HooksQuiet (h : Hooks) : Prop where
  ok : HooksOK h
  core : HooksRel coreRel h

theorem HooksQuiet.status {h : Hooks} (hq : HooksQuiet h) : HooksRel statusRel h :=
  ⟨fun e s => Or.inl (hq.core.snd e s).2.2, fun e s => Or.inl (hq.core.raise e s).2.2⟩

theorem enqueueQ_core (b : Bool) (e : Ev) (s : St) : coreRel s (enqueueQ b e s) := by
  unfold enqueueQ; split <;> exact ⟨rfl, rfl, rfl⟩
theorem enqueueQ_errors (b : Bool) (e : Ev) (s : St) : errorsRel s (enqueueQ b e s) := by
  unfold enqueueQ errorsRel; split <;> rfl
theorem enqueueQ_status (b : Bool) (e : Ev) (s : St) : statusRel s (enqueueQ b e s) := by
  unfold enqueueQ statusRel; split <;> exact Or.inl rfl
theorem enqueueQ_queue (b : Bool) (e : Ev) (s : St) : queueRel s (enqueueQ b e s) := by
  unfold enqueueQ queueRel; split
  · exact ⟨[⟨e, b⟩], rfl⟩
  · exact ⟨[], by simp⟩

theorem hooksFlagged_quiet (u : UEnv) (m : Machine) : HooksQuiet (hooksFlagged u m) :=
  ⟨hooksFlagged_ok u m, ⟨enqueueQ_core true, enqueueQ_core true⟩⟩
theorem hooksAsyncStart_quiet (u : UEnv) (m : Machine) : HooksQuiet (hooksAsyncStart u m) :=
  ⟨hooksAsyncStart_ok u m, ⟨enqueueQ_core false, enqueueQ_core false⟩⟩
theorem hooksAsync_quiet (u : UEnv) (m : Machine) : HooksQuiet (hooksAsync u m) :=
  ⟨hooksAsync_ok u m, ⟨fun e _ => enqueueQ_core true e _, fun e _ => enqueueQ_core true e _⟩⟩

theorem hooksFlagged_errors (u : UEnv) (m : Machine) : HooksRel errorsRel (hooksFlagged u m) :=
  ⟨enqueueQ_errors true, enqueueQ_errors true⟩
theorem hooksAsync_errors (u : UEnv) (m : Machine) : HooksRel errorsRel (hooksAsync u m) :=
  ⟨fun e _ => enqueueQ_errors true e _, fun e _ => enqueueQ_errors true e _⟩
theorem hooksFlagged_status (u : UEnv) (m : Machine) : HooksRel statusRel (hooksFlagged u m) :=
  ⟨enqueueQ_status true, enqueueQ_status true⟩
theorem hooksAsync_status (u : UEnv) (m : Machine) : HooksRel statusRel (hooksAsync u m) :=
  ⟨fun e _ => enqueueQ_status true e _, fun e _ => enqueueQ_status true e _⟩
theorem hooksFlagged_queue (u : UEnv) (m : Machine) : HooksRel queueRel (hooksFlagged u m) :=
  ⟨enqueueQ_queue true, enqueueQ_queue true⟩

/-- the queue only grows at its end, and by MARKED entries only (sync: everything enqueued while
    `_is_processing` is set is recorded in `_raised_in_drain`) -/
def markedRel (s s' : St) : Prop := ∃ added, s'.queue = s.queue ++ added ∧ ∀ q ∈ added, q.self = true
theorem markedRel_eng : EngRel markedRel where
  refl := fun _ => ⟨[], by simp, by simp⟩
  trans := by
    rintro a b c ⟨x, hx, fx⟩ ⟨y, hy, fy⟩
    refine ⟨x ++ y, by rw [hy, hx, List.append_assoc], ?_⟩
    intro q hq
    rcases List.mem_append.1 hq with h | h
    · exact fx q h
    · exact fy q h
  ctx := fun _ _ => ⟨[], by simp, by simp⟩
  trace := fun _ _ => ⟨[], by simp, by simp⟩
  err := fun _ _ => ⟨[], by simp, by simp⟩
  expCut := fun _ _ => ⟨[], by simp, by simp⟩
  cfg := fun _ _ => ⟨[], by simp, by simp⟩
  hist := fun _ _ => ⟨[], by simp, by simp⟩
  complete := by intro s; unfold complete markedRel; split <;> exact ⟨[], by simp, by simp⟩
theorem enqueueQ_marked (e : Ev) (s : St) : markedRel s (enqueueQ true e s) := by
  unfold enqueueQ markedRel; split
  · exact ⟨[⟨e, true⟩], rfl, by simp⟩
  · exact ⟨[], by simp, by simp⟩
theorem hooksFlagged_marked (u : UEnv) (m : Machine) : HooksRel markedRel (hooksFlagged u m) :=
  ⟨enqueueQ_marked, enqueueQ_marked⟩

theorem noConfigErrors_mkHooks (u : UEnv) (m : Machine) (sync : Bool) (snd sndRaise : Snd) :
    NoConfigErrors (mkHooks u m sync snd sndRaise) ↔
      ∀ n c e, (u.a n c e = .missing → canonicalBuiltin n ≠ none) ∧ (∀ c', u.a n c e = .isAsync c' → sync = false) :=
  Iff.rfl

-- the error flag through a whole transition ------------------------------------------------------------------
theorem checkDone_err (h : Hooks) (hok : HooksOK h) (m : Machine) (fin : Path) (s : St) :
    (checkAndFireOnDone h m fin s).err = s.err := (checkDone_cfg_err h hok m fin s).2

theorem enterOne_err_none (h : Hooks) (hok : HooksOK h) (hn : NoConfigErrors h) (fl : Flavor) (m : Machine)
    (ev : Option String) (s : St) (e : Entry) (hs : s.err = none) : (enterOne h fl m ev s e).err = none := by
  unfold enterOne
  simp only [hs, Option.isSome_none, Bool.false_eq_true, if_false]
  split
  · exact hs
  · rename_i d _
    have h1 : (execActions h d.entry (entryEvName fl m e ev) (addActive e.path s)).err = none :=
      execActions_err_none h hok hn _ _ _ (by rw [addActive_err]; exact hs)
    simp only [h1, Option.isSome_none, Bool.false_eq_true, if_false]
    split
    · rw [checkDone_err h hok]; exact h1
    · exact h1

theorem exitOne_err_none (h : Hooks) (hok : HooksOK h) (hn : NoConfigErrors h) (fl : Flavor) (m : Machine)
    (ev : Option String) (s : St) (p : Path) (hs : s.err = none) : (exitOne h fl m ev s p).err = none := by
  unfold exitOne
  simp only [hs, Option.isSome_none, Bool.false_eq_true, if_false]
  split
  · exact hs
  · rw [delActive_err]; exact execActions_err_none h hok hn _ _ _ hs

theorem foldl_err_none {α : Type} (f : St → α → St) (hf : ∀ s a, s.err = none → (f s a).err = none) :
    ∀ (l : List α) (s : St), s.err = none → (l.foldl f s).err = none := by
  intro l
  induction l with
  | nil => intro s hs; exact hs
  | cons a l ih => intro s hs; simp only [List.foldl_cons]; exact ih _ (hf s a hs)

theorem runPlan_err_none (h : Hooks) (hok : HooksOK h) (hn : NoConfigErrors h) (fl : Flavor) (m : Machine)
    (ev : Ev) (pl : Plan) (s : St) (hp : pl.err = none) (hs : s.err = none) :
    (runPlan h fl m ev pl s).err = none := by
  unfold runPlan
  simp only [hp]
  have h2 : (pl.exits.foldl (exitOne h fl m (some ev.type)) (recordHistory m pl.exits s)).err = none :=
    foldl_err_none _ (fun s p => exitOne_err_none h hok hn fl m _ s p) _ _ hs
  simp only [h2, Option.isSome_none, Bool.false_eq_true, if_false]
  exact foldl_err_none _ (fun s e => enterOne_err_none h hok hn fl m _ s e) _ _
    (execActions_err_none h hok hn _ _ _ h2)

/-- **a raising action never aborts the transition** -/
theorem execute_err_none (h : Hooks) (hok : HooksOK h) (hn : NoConfigErrors h) (fl : Flavor) (m : Machine)
    (ev : Ev) (pl : Plan) (s : St) (hp : pl.err = none) (hs : s.err = none) :
    (execute h fl m ev pl s).err = none := by
  rw [execute_err_eq]
  unfold executeCore
  split
  · simp only [hp]; exact execActions_err_none h hok hn _ _ _ hs
  · have := runPlan_err_none h hok hn fl m ev pl s hp hs
    simp only [this, Option.isSome_none, Bool.false_eq_true, if_false]

-- the configuration after a transition, as a function of the plan alone ------------------------------------------
def exitCfg (m : Machine) (c : List Path) (p : Path) : List Path :=
  if (m.defAt p).isSome then c.filter (· != p) else c
def enterCfg (m : Machine) (c : List Path) (e : Entry) : List Path :=
  if (m.defAt e.path).isSome then (if c.contains e.path then c else c ++ [e.path]) else c
/-- exits removed in order, then entries appended in order -/
def planCfg (m : Machine) (pl : Plan) (c : List Path) : List Path :=
  if pl.internal then c else pl.entries.foldl (enterCfg m) (pl.exits.foldl (exitCfg m) c)

theorem exitOne_cfg_exact (h : Hooks) (hok : HooksOK h) (fl : Flavor) (m : Machine)
    (ev : Option String) (s : St) (p : Path) (hs : s.err = none) :
    (exitOne h fl m ev s p).cfg = exitCfg m s.cfg p := by
  unfold exitOne exitCfg
  simp only [hs, Option.isSome_none, Bool.false_eq_true, if_false]
  split
  · rename_i hd; simp [hd]
  · rename_i d hd
    simp only [hd, Option.isSome_some, if_true, delActive]
    rw [execActions_cfg h hok]

theorem enterOne_cfg_exact (h : Hooks) (hok : HooksOK h) (hn : NoConfigErrors h) (fl : Flavor) (m : Machine)
    (ev : Option String) (s : St) (e : Entry) (hs : s.err = none) :
    (enterOne h fl m ev s e).cfg = enterCfg m s.cfg e := by
  unfold enterOne enterCfg
  simp only [hs, Option.isSome_none, Bool.false_eq_true, if_false]
  split
  · rename_i hd; simp [hd]
  · rename_i d hd
    have h1 : (execActions h d.entry (entryEvName fl m e ev) (addActive e.path s)).err = none :=
      execActions_err_none h hok hn _ _ _ (by rw [addActive_err]; exact hs)
    have ha : (addActive e.path s).cfg = if s.cfg.contains e.path then s.cfg else s.cfg ++ [e.path] := by
      unfold addActive; split <;> rfl
    simp only [h1, Option.isSome_none, Bool.false_eq_true, if_false, hd, Option.isSome_some, if_true]
    split
    · rw [(checkDone_cfg_err h hok m e.path _).1, execActions_cfg h hok, ha]
    · rw [execActions_cfg h hok, ha]

theorem foldl_cfg_exact {α : Type} (f : St → α → St) (g : List Path → α → List Path)
    (he : ∀ s a, s.err = none → (f s a).err = none) (hc : ∀ s a, s.err = none → (f s a).cfg = g s.cfg a) :
    ∀ (l : List α) (s : St), s.err = none → (l.foldl f s).cfg = l.foldl g s.cfg := by
  intro l
  induction l with
  | nil => intro s _; rfl
  | cons a l ih =>
    intro s hs
    simp only [List.foldl_cons]
    rw [ih _ (he s a hs), hc s a hs]

/-- with no configuration error in play the configuration after a transition is a function of the plan
    and the configuration before — whichever actions raised -/
theorem execute_cfg_exact (h : Hooks) (hok : HooksOK h) (hn : NoConfigErrors h) (fl : Flavor) (m : Machine)
    (ev : Ev) (pl : Plan) (s : St) (hp : pl.err = none) (hs : s.err = none) :
    (execute h fl m ev pl s).cfg = planCfg m pl s.cfg := by
  unfold planCfg
  cases hint : pl.internal with
  | true => simp only [if_true]; exact execute_internal_cfg h hok fl m ev pl s hint
  | false =>
    simp only [Bool.false_eq_true, if_false]
    rw [execute_cfg_eq]
    unfold executeCore
    have hr := runPlan_err_none h hok hn fl m ev pl s hp hs
    simp only [hint, Bool.false_eq_true, if_false, hr, Option.isSome_none]
    unfold runPlan
    simp only [hp]
    have h2 : (pl.exits.foldl (exitOne h fl m (some ev.type)) (recordHistory m pl.exits s)).err = none :=
      foldl_err_none _ (fun s p => exitOne_err_none h hok hn fl m _ s p) _ _ hs
    simp only [h2, Option.isSome_none, Bool.false_eq_true, if_false]
    rw [foldl_cfg_exact (enterOne h fl m (some ev.type)) (enterCfg m)
      (fun s e => enterOne_err_none h hok hn fl m (some ev.type) s e)
      (fun s e => enterOne_cfg_exact h hok hn fl m (some ev.type) s e) _ _
      (execActions_err_none h hok hn _ _ _ h2)]
    rw [execActions_cfg h hok]
    rw [foldl_cfg_exact (exitOne h fl m (some ev.type)) (exitCfg m)
      (fun s p => exitOne_err_none h hok hn fl m (some ev.type) s p)
      (fun s p => exitOne_cfg_exact h hok fl m (some ev.type) s p) pl.exits (recordHistory m pl.exits s) hs]
    rfl

/-- a plan that carries an error of its own (unresolvable target …) always ends where it started -/
theorem execute_planErr_cfg (h : Hooks) (hok : HooksOK h) (fl : Flavor) (m : Machine) (ev : Ev) (pl : Plan)
    (s : St) (e : EErr) (hp : pl.err = some e) : (execute h fl m ev pl s).cfg = s.cfg := by
  cases hint : pl.internal with
  | true => exact execute_internal_cfg h hok fl m ev pl s hint
  | false =>
    apply execute_rollback h fl m ev pl s hint
    rw [execute_err_eq]
    unfold executeCore
    simp only [hint, Bool.false_eq_true, if_false]
    have hr : (runPlan h fl m ev pl s).err ≠ none := by
      unfold runPlan; simp only [hp]; exact fail_err_ne _ _
    split
    · exact hr
    · exact hr

/-- **the configuration after a transition does not depend on what the actions did** -/
theorem execute_cfg_indep (h₁ h₂ : Hooks) (hok₁ : HooksOK h₁) (hok₂ : HooksOK h₂) (hn₁ : NoConfigErrors h₁)
    (hn₂ : NoConfigErrors h₂) (fl : Flavor) (m : Machine) (ev : Ev) (pl : Plan) (s₁ s₂ : St)
    (he₁ : s₁.err = none) (he₂ : s₂.err = none) (hc : s₁.cfg = s₂.cfg) :
    (execute h₁ fl m ev pl s₁).cfg = (execute h₂ fl m ev pl s₂).cfg := by
  cases hp : pl.err with
  | none =>
    rw [execute_cfg_exact h₁ hok₁ hn₁ fl m ev pl s₁ hp he₁, execute_cfg_exact h₂ hok₂ hn₂ fl m ev pl s₂ hp he₂, hc]
  | some e =>
    rw [execute_planErr_cfg h₁ hok₁ fl m ev pl s₁ e hp, execute_planErr_cfg h₂ hok₂ fl m ev pl s₂ e hp, hc]

-- two runs that differ in what the actions did ----------------------------------------------------------------
/-- same configuration, history, status and error flag -/
structure SameCore (a b : St) : Prop where
  cfg : a.cfg = b.cfg
  hist : a.hist = b.hist
  status : a.status = b.status
  err : a.err = b.err

theorem SameCore.rfl' (a : St) : SameCore a a := ⟨rfl, rfl, rfl, rfl⟩
theorem SameCore.symm {a b : St} (h : SameCore a b) : SameCore b a := ⟨h.cfg.symm, h.hist.symm, h.status.symm, h.err.symm⟩
theorem SameCore.trans {a b c : St} (h1 : SameCore a b) (h2 : SameCore b c) : SameCore a c :=
  ⟨h1.cfg.trans h2.cfg, h1.hist.trans h2.hist, h1.status.trans h2.status, h1.err.trans h2.err⟩

/-- an action list is invisible in the core: it changes context, trace, queue — nothing else -/
theorem execActions_core (h : Hooks) (hq : HooksQuiet h) (hn : NoConfigErrors h) (as : List ActionRef)
    (evType : String) (s : St) : SameCore (execActions h as evType s) s := by
  cases he : s.err with
  | some e => rw [execActions_sticky h evType as s (by simp [he])]; exact SameCore.rfl' s
  | none =>
    obtain ⟨a, b, c⟩ := execActions_rel coreRel_act h hq.core as evType s
    exact ⟨a, b, c, by rw [execActions_err_none h hq.ok hn as evType s he, he]⟩

theorem SameCore.delActive {a b : St} (h : SameCore a b) (p : Path) : SameCore (delActive p a) (delActive p b) :=
  ⟨by simp only [XSM.delActive, h.cfg], h.hist, h.status, h.err⟩
theorem SameCore.addActive {a b : St} (h : SameCore a b) (p : Path) : SameCore (addActive p a) (addActive p b) := by
  unfold XSM.addActive
  rw [h.cfg]
  split
  · exact h
  · exact ⟨rfl, h.hist, h.status, h.err⟩
theorem SameCore.recordHistory {a b : St} (h : SameCore a b) (m : Machine) (ex : List Path) :
    SameCore (recordHistory m ex a) (recordHistory m ex b) :=
  ⟨h.cfg, by simp only [XSM.recordHistory, h.cfg, h.hist], h.status, h.err⟩
theorem SameCore.complete {a b : St} (h : SameCore a b) : SameCore (complete a) (complete b) := by
  unfold XSM.complete
  rw [h.status]
  split
  · exact ⟨h.cfg, h.hist, rfl, h.err⟩
  · exact h
theorem SameCore.fail {a b : St} (h : SameCore a b) (e : EErr) : SameCore (a.fail e) (b.fail e) := by
  unfold St.fail
  rw [h.err]
  split
  · exact h
  · exact ⟨h.cfg, h.hist, h.status, rfl⟩
theorem SameCore.emit {a b : St} (h : SameCore a b) (r₁ r₂ : String) : SameCore (emit r₁ a) (emit r₂ b) :=
  ⟨h.cfg, h.hist, h.status, h.err⟩

theorem checkDone_core (h₁ h₂ : Hooks) (hq₁ : HooksQuiet h₁) (hq₂ : HooksQuiet h₂) (m : Machine) (fin : Path)
    (s₁ s₂ : St) (hs : SameCore s₁ s₂) :
    SameCore (checkAndFireOnDone h₁ m fin s₁) (checkAndFireOnDone h₂ m fin s₂) := by
  unfold checkAndFireOnDone
  simp only [hs.cfg]
  split
  · obtain ⟨a1, b1, c1⟩ := hq₁.core.snd (Ev.done ("done.state." ++ m.idOf ‹Path›) (m.idOf ‹Path›)) s₁
    obtain ⟨a2, b2, c2⟩ := hq₂.core.snd (Ev.done ("done.state." ++ m.idOf ‹Path›) (m.idOf ‹Path›)) s₂
    exact ⟨by rw [a1, a2, hs.cfg], by rw [b1, b2, hs.hist], by rw [c1, c2, hs.status],
      by rw [hq₁.ok.snd_err, hq₂.ok.snd_err, hs.err]⟩
  · split
    · exact hs.complete
    · exact hs

theorem enterOne_core (h₁ h₂ : Hooks) (hq₁ : HooksQuiet h₁) (hq₂ : HooksQuiet h₂) (hn₁ : NoConfigErrors h₁)
    (hn₂ : NoConfigErrors h₂) (fl : Flavor) (m : Machine) (ev : Option String) (s₁ s₂ : St) (e : Entry)
    (hs : SameCore s₁ s₂) : SameCore (enterOne h₁ fl m ev s₁ e) (enterOne h₂ fl m ev s₂ e) := by
  unfold enterOne
  rw [hs.err]
  split
  · exact hs
  · split
    · exact hs
    · rename_i d _
      have h1 : SameCore (execActions h₁ d.entry (entryEvName fl m e ev) (addActive e.path s₁))
          (execActions h₂ d.entry (entryEvName fl m e ev) (addActive e.path s₂)) :=
        (execActions_core h₁ hq₁ hn₁ _ _ _).trans
          ((hs.addActive e.path).trans (execActions_core h₂ hq₂ hn₂ _ _ _).symm)
      simp only [h1.err]
      split
      · exact h1
      · split
        · exact checkDone_core h₁ h₂ hq₁ hq₂ m e.path _ _ h1
        · exact h1

theorem exitOne_core (h₁ h₂ : Hooks) (hq₁ : HooksQuiet h₁) (hq₂ : HooksQuiet h₂) (hn₁ : NoConfigErrors h₁)
    (hn₂ : NoConfigErrors h₂) (fl : Flavor) (m : Machine) (ev : Option String) (s₁ s₂ : St) (p : Path)
    (hs : SameCore s₁ s₂) : SameCore (exitOne h₁ fl m ev s₁ p) (exitOne h₂ fl m ev s₂ p) := by
  unfold exitOne
  rw [hs.err]
  split
  · exact hs
  · split
    · exact hs
    · exact SameCore.delActive ((execActions_core h₁ hq₁ hn₁ _ _ _).trans
        (hs.trans (execActions_core h₂ hq₂ hn₂ _ _ _).symm)) p

theorem foldl_core {α : Type} (f g : St → α → St) (hfg : ∀ s₁ s₂ a, SameCore s₁ s₂ → SameCore (f s₁ a) (g s₂ a)) :
    ∀ (l : List α) (s₁ s₂ : St), SameCore s₁ s₂ → SameCore (l.foldl f s₁) (l.foldl g s₂) := by
  intro l
  induction l with
  | nil => intro s₁ s₂ hs; exact hs
  | cons a l ih => intro s₁ s₂ hs; simp only [List.foldl_cons]; exact ih _ _ (hfg s₁ s₂ a hs)

theorem runPlan_core (h₁ h₂ : Hooks) (hq₁ : HooksQuiet h₁) (hq₂ : HooksQuiet h₂) (hn₁ : NoConfigErrors h₁)
    (hn₂ : NoConfigErrors h₂) (fl : Flavor) (m : Machine) (ev : Ev) (pl : Plan) (s₁ s₂ : St)
    (hs : SameCore s₁ s₂) : SameCore (runPlan h₁ fl m ev pl s₁) (runPlan h₂ fl m ev pl s₂) := by
  unfold runPlan
  simp only
  have h2 := foldl_core _ _ (fun a b p hab => exitOne_core h₁ h₂ hq₁ hq₂ hn₁ hn₂ fl m (some ev.type) a b p hab)
    pl.exits _ _ (hs.recordHistory m pl.exits)
  generalize pl.exits.foldl (exitOne h₁ fl m (some ev.type)) (recordHistory m pl.exits s₁) = x₁ at h2 ⊢
  generalize pl.exits.foldl (exitOne h₂ fl m (some ev.type)) (recordHistory m pl.exits s₂) = x₂ at h2 ⊢
  have h3 : SameCore (if x₁.err.isSome = true then x₁ else execActions h₁ pl.actions ev.type x₁)
      (if x₂.err.isSome = true then x₂ else execActions h₂ pl.actions ev.type x₂) := by
    rw [h2.err]
    split
    · exact h2
    · exact (execActions_core h₁ hq₁ hn₁ _ _ _).trans (h2.trans (execActions_core h₂ hq₂ hn₂ _ _ _).symm)
  have h4 := foldl_core _ _ (fun a b e hab => enterOne_core h₁ h₂ hq₁ hq₂ hn₁ hn₂ fl m (some ev.type) a b e hab)
    pl.entries _ _ h3
  split
  · exact h4.fail _
  · exact h4

/-- **one transition, two runs**: whatever the actions of the two runs do (raise or not, change the
    context or not), configuration, history, status and error flag evolve identically -/
theorem execute_core (h₁ h₂ : Hooks) (hq₁ : HooksQuiet h₁) (hq₂ : HooksQuiet h₂) (hn₁ : NoConfigErrors h₁)
    (hn₂ : NoConfigErrors h₂) (fl : Flavor) (m : Machine) (ev : Ev) (pl : Plan) (s₁ s₂ : St)
    (hs : SameCore s₁ s₂) : SameCore (execute h₁ fl m ev pl s₁) (execute h₂ fl m ev pl s₂) := by
  have hc : SameCore (executeCore h₁ fl m ev pl s₁) (executeCore h₂ fl m ev pl s₂) := by
    unfold executeCore
    split
    · split
      · exact hs.fail _
      · exact (execActions_core h₁ hq₁ hn₁ _ _ _).trans (hs.trans (execActions_core h₂ hq₂ hn₂ _ _ _).symm)
    · have hr := runPlan_core h₁ h₂ hq₁ hq₂ hn₁ hn₂ fl m ev pl s₁ s₂ hs
      simp only
      by_cases hh : (runPlan h₁ fl m ev pl s₁).err.isSome = true
      · have hh2 : (runPlan h₂ fl m ev pl s₂).err.isSome = true := by rw [← hr.err]; exact hh
        rw [if_pos hh, if_pos hh2]; exact ⟨hs.cfg, hr.hist, hr.status, hr.err⟩
      · have hh2 : ¬ (runPlan h₂ fl m ev pl s₂).err.isSome = true := by rw [← hr.err]; exact hh
        rw [if_neg hh, if_neg hh2]; exact hr
  unfold execute
  simp only [hc.err]
  split
  · exact hc
  · exact hc.emit _ _

/-- guards that do not read the context -/
def GuardsIgnoreCtx (u : UEnv) : Prop := ∀ n c c' e, u.g n c e = u.g n c' e

theorem genv_eq (u₁ u₂ : UEnv) (hg : u₁.g = u₂.g) (hi : GuardsIgnoreCtx u₁) (c₁ c₂ : Ctx) (ev : String) :
    u₁.genv c₁ ev = u₂.genv c₂ ev := by
  funext n
  simp only [UEnv.genv]
  rw [← hg]; exact hi n c₁ c₂ ev

/-- **one event, two runs** -/
theorem processEvent_core (h₁ h₂ : Hooks) (hq₁ : HooksQuiet h₁) (hq₂ : HooksQuiet h₂) (hn₁ : NoConfigErrors h₁)
    (hn₂ : NoConfigErrors h₂) (fl : Flavor) (m : Machine) (u₁ u₂ : UEnv) (hg : u₁.g = u₂.g)
    (hi : GuardsIgnoreCtx u₁) (ev : Ev) (s₁ s₂ : St) (hs : SameCore s₁ s₂) :
    SameCore (processEvent h₁ fl m u₁ ev s₁) (processEvent h₂ fl m u₂ ev s₂) := by
  unfold processEvent
  rw [hs.cfg, genv_eq u₁ u₂ hg hi s₁.ctx s₂.ctx ev.type]
  split
  · exact hs.fail _
  · rename_i sel _
    apply foldl_core
    · intro a b c hab
      simp only [hab.err, hab.cfg, hab.hist, hab.status]
      split
      · exact hab
      · split
        · exact hab
        · split
          · exact hab
          · exact execute_core h₁ h₂ hq₁ hq₂ hn₁ hn₂ fl m ev _ a b hab
    · exact hs

theorem transientLoop_core (h₁ h₂ : Hooks) (hq₁ : HooksQuiet h₁) (hq₂ : HooksQuiet h₂) (hn₁ : NoConfigErrors h₁)
    (hn₂ : NoConfigErrors h₂) (fl : Flavor) (m : Machine) (u₁ u₂ : UEnv) (hg : u₁.g = u₂.g)
    (hi : GuardsIgnoreCtx u₁) : ∀ (fuel : Nat) (s₁ s₂ : St), SameCore s₁ s₂ →
      SameCore (transientLoop h₁ fl m u₁ fuel s₁) (transientLoop h₂ fl m u₂ fuel s₂) := by
  intro fuel
  induction fuel with
  | zero => intro s₁ s₂ hs; exact hs
  | succ n ih =>
    intro s₁ s₂ hs
    simp only [transientLoop]
    rw [hs.err, hs.cfg, genv_eq u₁ u₂ hg hi s₁.ctx s₂.ctx ""]
    split
    · exact hs
    · split
      · exact hs.fail _
      · split
        · exact ih _ _ (processEvent_core h₁ h₂ hq₁ hq₂ hn₁ hn₂ fl m u₁ u₂ hg hi _ s₁ s₂ hs)
        · exact hs

/-- one event delivered from outside and processed to quiescence: the event's transitions, then the
    eventless ones -/
def macrostep (h : Hooks) (fl : Flavor) (m : Machine) (u : UEnv) (s : St) (e : Ev) : St :=
  transientLoop h fl m u m.maxIterations (processEvent h fl m u e s)

/-- **any sequence of events, two runs** -/
theorem macrosteps_core (h₁ h₂ : Hooks) (hq₁ : HooksQuiet h₁) (hq₂ : HooksQuiet h₂) (hn₁ : NoConfigErrors h₁)
    (hn₂ : NoConfigErrors h₂) (fl : Flavor) (m : Machine) (u₁ u₂ : UEnv) (hg : u₁.g = u₂.g)
    (hi : GuardsIgnoreCtx u₁) (evs : List Ev) (s₁ s₂ : St) (hs : SameCore s₁ s₂) :
    SameCore (evs.foldl (macrostep h₁ fl m u₁) s₁) (evs.foldl (macrostep h₂ fl m u₂) s₂) := by
  apply foldl_core _ _ _ evs s₁ s₂ hs
  intro a b e hab
  exact transientLoop_core h₁ h₂ hq₁ hq₂ hn₁ hn₂ fl m u₁ u₂ hg hi _ _ _
    (processEvent_core h₁ h₂ hq₁ hq₂ hn₁ hn₂ fl m u₁ u₂ hg hi e a b hab)

-- status ---------------------------------------------------------------------------------------------------
/-- `complete` is reached only from the entry of a top-level final state -/
theorem enterOne_status (h : Hooks) (hq : HooksQuiet h) (fl : Flavor) (m : Machine) (ev : Option String)
    (s : St) (e : Entry) (hnf : ∀ d, m.defAt e.path = some d → d.kind = .final → e.path.length ≠ 1) :
    (enterOne h fl m ev s e).status = s.status := by
  unfold enterOne
  split
  · rfl
  · split
    · rfl
    · rename_i d hd
      have h1 : (execActions h d.entry (entryEvName fl m e ev) (addActive e.path s)).status = s.status := by
        rw [(execActions_rel coreRel_act h hq.core _ _ _).2.2]
        unfold addActive; split <;> rfl
      simp only
      split
      · exact h1
      · split
        · rename_i hk
          have hk' : d.kind = .final := by simpa using hk
          have hl := hnf d hd hk'
          unfold checkAndFireOnDone
          simp only
          split
          · rw [(hq.core.snd _ _).2.2]; exact h1
          · rw [if_neg hl]; exact h1
        · exact h1

theorem exitOne_status (h : Hooks) (hq : HooksQuiet h) (fl : Flavor) (m : Machine) (ev : Option String)
    (s : St) (p : Path) : (exitOne h fl m ev s p).status = s.status := by
  unfold exitOne
  split
  · rfl
  · split
    · rfl
    · exact (execActions_rel coreRel_act h hq.core _ _ _).2.2

theorem foldl_status {α : Type} (f : St → α → St) (P : α → Prop) (hf : ∀ s a, P a → (f s a).status = s.status) :
    ∀ (l : List α) (s : St), (∀ a ∈ l, P a) → (l.foldl f s).status = s.status := by
  intro l
  induction l with
  | nil => intro s _; rfl
  | cons a l ih =>
    intro s hp
    simp only [List.foldl_cons]
    rw [ih _ (fun a' ha' => hp a' (List.mem_cons_of_mem _ ha')), hf s a (hp a (by simp))]

theorem fail_status (s : St) (e : EErr) : (s.fail e).status = s.status := by
  unfold St.fail; split <;> rfl

/-- a transition that enters no top-level final state leaves `status` alone — completed or aborted -/
theorem execute_status (h : Hooks) (hq : HooksQuiet h) (fl : Flavor) (m : Machine) (ev : Ev) (pl : Plan) (s : St)
    (hnf : ∀ e ∈ pl.entries, ∀ d, m.defAt e.path = some d → d.kind = .final → e.path.length ≠ 1) :
    (execute h fl m ev pl s).status = s.status := by
  have hc : (executeCore h fl m ev pl s).status = s.status := by
    unfold executeCore
    split
    · split
      · exact fail_status _ _
      · exact (execActions_rel coreRel_act h hq.core _ _ _).2.2
    · have hr : (runPlan h fl m ev pl s).status = s.status := by
        unfold runPlan
        simp only
        have h2 : (pl.exits.foldl (exitOne h fl m (some ev.type)) (recordHistory m pl.exits s)).status = s.status :=
          foldl_status _ (fun _ => True) (fun s p _ => exitOne_status h hq fl m _ s p) _ _ (fun _ _ => trivial)
        generalize pl.exits.foldl (exitOne h fl m (some ev.type)) (recordHistory m pl.exits s) = x at h2 ⊢
        have h3 : (if x.err.isSome = true then x else execActions h pl.actions ev.type x).status = s.status := by
          split
          · exact h2
          · rw [(execActions_rel coreRel_act h hq.core _ _ _).2.2]; exact h2
        have h4 := foldl_status (enterOne h fl m (some ev.type))
          (fun e => ∀ d, m.defAt e.path = some d → d.kind = .final → e.path.length ≠ 1)
          (fun s e he => enterOne_status h hq fl m _ s e he) pl.entries
          (if x.err.isSome = true then x else execActions h pl.actions ev.type x) hnf
        split
        · rw [fail_status, h4, h3]
        · rw [h4, h3]
      simp only
      split
      · exact hr
      · exact hr
  unfold execute
  simp only
  split
  · exact hc
  · exact hc

-- the engine loops ---------------------------------------------------------------------------------------------
/-- the state the async run loop holds after processing `e` (and settling), before it looks at the
    error flag -/
def asyncProcessed (m : Machine) (u : UEnv) (e : Ev) (s : St) : St :=
  transientLoop (hooksAsync u m) .async m u m.maxIterations
    (processEvent (hooksAsync u m) .async m u e (emit ("#recv:" ++ e.type) s))

theorem asyncProcessed_errors (m : Machine) (u : UEnv) (e : Ev) (s : St) :
    (asyncProcessed m u e s).errors = s.errors := by
  have h1 := processEvent_rel errorsRel_eng (hooksAsync u m) (hooksAsync_errors u m) .async m u e
    (emit ("#recv:" ++ e.type) s)
  have h2 := transientLoop_rel errorsRel_eng (hooksAsync u m) (hooksAsync_errors u m) .async m u m.maxIterations
    (processEvent (hooksAsync u m) .async m u e (emit ("#recv:" ++ e.type) s))
  unfold errorsRel at h1 h2
  unfold asyncProcessed
  rw [h2, h1]; rfl

theorem asyncProcessed_status (m : Machine) (u : UEnv) (e : Ev) (s : St) :
    StatusStep s.status (asyncProcessed m u e s).status := by
  have h1 := processEvent_rel statusRel_eng (hooksAsync u m) (hooksAsync_status u m) .async m u e
    (emit ("#recv:" ++ e.type) s)
  have h2 := transientLoop_rel statusRel_eng (hooksAsync u m) (hooksAsync_status u m) .async m u m.maxIterations
    (processEvent (hooksAsync u m) .async m u e (emit ("#recv:" ++ e.type) s))
  exact statusRel_eng.trans (a := s) h1 h2

/-- the end-of-chain test touches the counter only -/
theorem asyncChainEnd_fields (b : Nat) (s : St) :
    (asyncChainEnd b s).cfg = s.cfg ∧ (asyncChainEnd b s).hist = s.hist ∧ (asyncChainEnd b s).queue = s.queue ∧
    (asyncChainEnd b s).status = s.status ∧ (asyncChainEnd b s).trace = s.trace ∧ (asyncChainEnd b s).err = s.err ∧
    (asyncChainEnd b s).ctx = s.ctx ∧ (asyncChainEnd b s).errors = s.errors := by
  unfold asyncChainEnd; split <;> exact ⟨rfl, rfl, rfl, rfl, rfl, rfl, rfl, rfl⟩

theorem asyncProcess_eq (m : Machine) (u : UEnv) (e : Ev) (s : St) :
    asyncProcess m u e s = asyncChainEnd s.raiseDepth
      (if (asyncProcessed m u e s).err.isSome then
         { asyncProcessed m u e s with err := none, errors := (asyncProcessed m u e s).errors + 1 }
       else asyncProcessed m u e s) := rfl

/-- the failing branch of `_run_event_loop`: logged (counted), flag cleared, then the end-of-chain test
    (which touches the counter only); everything else kept -/
theorem asyncProcess_failed (m : Machine) (u : UEnv) (e : Ev) (s : St)
    (he : (asyncProcessed m u e s).err ≠ none) :
    asyncProcess m u e s =
      asyncChainEnd s.raiseDepth { asyncProcessed m u e s with err := none, errors := s.errors + 1 } := by
  have hsome : (asyncProcessed m u e s).err.isSome = true := by
    cases hh : (asyncProcessed m u e s).err with
    | none => exact absurd hh he
    | some _ => rfl
  rw [asyncProcess_eq, if_pos hsome, asyncProcessed_errors]

theorem asyncProcess_succeeded (m : Machine) (u : UEnv) (e : Ev) (s : St)
    (he : (asyncProcessed m u e s).err = none) :
    asyncProcess m u e s = asyncChainEnd s.raiseDepth (asyncProcessed m u e s) := by
  have hne : ¬ (asyncProcessed m u e s).err.isSome = true := by simp [he]
  rw [asyncProcess_eq, if_neg hne]

theorem asyncProcess_err_none (m : Machine) (u : UEnv) (e : Ev) (s : St) : (asyncProcess m u e s).err = none := by
  cases he : (asyncProcessed m u e s).err with
  | none => rw [asyncProcess_succeeded m u e s he, (asyncChainEnd_fields _ _).2.2.2.2.2.1]; exact he
  | some x => rw [asyncProcess_failed m u e s (by rw [he]; simp), (asyncChainEnd_fields _ _).2.2.2.2.2.1]

theorem asyncProcess_status (m : Machine) (u : UEnv) (e : Ev) (s : St) :
    StatusStep s.status (asyncProcess m u e s).status := by
  cases he : (asyncProcessed m u e s).err with
  | none => rw [asyncProcess_succeeded m u e s he, (asyncChainEnd_fields _ _).2.2.2.1]; exact asyncProcessed_status m u e s
  | some x =>
    rw [asyncProcess_failed m u e s (by rw [he]; simp), (asyncChainEnd_fields _ _).2.2.2.1]
    exact asyncProcessed_status m u e s

theorem asyncStep_not_tripped (m : Machine) (u : UEnv) (q : QEv) (s : St) (hd : ¬ s.raiseDepth > m.maxIterations) :
    asyncStep m u q s = asyncProcess m u q.ev s := by
  unfold asyncStep; rw [if_neg hd]

theorem asyncStep_failed (m : Machine) (u : UEnv) (q : QEv) (s : St) (hd : ¬ s.raiseDepth > m.maxIterations)
    (he : (asyncProcessed m u q.ev s).err ≠ none) :
    asyncStep m u q s =
      asyncChainEnd s.raiseDepth { asyncProcessed m u q.ev s with err := none, errors := s.errors + 1 } := by
  rw [asyncStep_not_tripped m u q s hd, asyncProcess_failed m u q.ev s he]

theorem asyncStep_succeeded (m : Machine) (u : UEnv) (q : QEv) (s : St) (hd : ¬ s.raiseDepth > m.maxIterations)
    (he : (asyncProcessed m u q.ev s).err = none) :
    (asyncStep m u q s).err = none ∧ (asyncStep m u q s).errors = s.errors ∧
      (asyncStep m u q s).cfg = (asyncProcessed m u q.ev s).cfg ∧
      (asyncStep m u q s).status = (asyncProcessed m u q.ev s).status := by
  rw [asyncStep_not_tripped m u q s hd, asyncProcess_succeeded m u q.ev s he]
  obtain ⟨h1, _, _, h4, _, h6, _, h8⟩ := asyncChainEnd_fields s.raiseDepth (asyncProcessed m u q.ev s)
  exact ⟨h6.trans he, h8.trans (asyncProcessed_errors m u q.ev s), h1, h4⟩

/-- the async loop never returns with the error flag set -/
theorem asyncStep_err_none (m : Machine) (u : UEnv) (q : QEv) (s : St) (hs : s.err = none) :
    (asyncStep m u q s).err = none := by
  unfold asyncStep
  split
  · split
    · exact hs
    · exact asyncProcess_err_none m u q.ev _
  · exact asyncProcess_err_none m u q.ev _

theorem asyncStep_status (m : Machine) (u : UEnv) (q : QEv) (s : St) :
    StatusStep s.status (asyncStep m u q s).status := by
  unfold asyncStep
  split
  · split
    · exact Or.inl rfl
    · exact asyncProcess_status m u q.ev (asyncPurge s)
  · exact asyncProcess_status m u q.ev s

/-- the state the sync drain loop holds after processing `e` (dequeued from `s`) and settling -/
def syncProcessed (m : Machine) (u : UEnv) (e : Ev) (s : St) : St :=
  transientLoop (hooksFlagged u m) .sync m u m.maxIterations
    (processEvent (hooksFlagged u m) .sync m u e (emit ("#recv:" ++ e.type) s))

theorem syncProcessed_queue (m : Machine) (u : UEnv) (e : Ev) (s : St) :
    s.queue <+: (syncProcessed m u e s).queue := by
  have h1 := processEvent_rel queueRel_eng (hooksFlagged u m) (hooksFlagged_queue u m) .sync m u e
    (emit ("#recv:" ++ e.type) s)
  have h2 := transientLoop_rel queueRel_eng (hooksFlagged u m) (hooksFlagged_queue u m) .sync m u m.maxIterations
    (processEvent (hooksFlagged u m) .sync m u e (emit ("#recv:" ++ e.type) s))
  obtain ⟨x, hx⟩ := queueRel_eng.trans (a := emit ("#recv:" ++ e.type) s) h1 h2
  exact ⟨x, hx.symm⟩

theorem syncProcessed_status (m : Machine) (u : UEnv) (e : Ev) (s : St) :
    StatusStep s.status (syncProcessed m u e s).status := by
  have h1 := processEvent_rel statusRel_eng (hooksFlagged u m) (hooksFlagged_status u m) .sync m u e
    (emit ("#recv:" ++ e.type) s)
  have h2 := transientLoop_rel statusRel_eng (hooksFlagged u m) (hooksFlagged_status u m) .sync m u m.maxIterations
    (processEvent (hooksFlagged u m) .sync m u e (emit ("#recv:" ++ e.type) s))
  exact statusRel_eng.trans (a := emit ("#recv:" ++ e.type) s) h1 h2

theorem syncProcessed_eq_drainMacro (m : Machine) (u : UEnv) (e : Ev) (s : St) :
    syncProcessed m u e s = drainMacro m u e s := rfl

/-- **what one macrostep of the sync drain does to the queue**: it appends, and only MARKED entries -/
theorem syncProcessed_marked (m : Machine) (u : UEnv) (e : Ev) (s : St) :
    ∃ added, (syncProcessed m u e s).queue = s.queue ++ added ∧ ∀ q ∈ added, q.self = true := by
  have h1 := processEvent_rel markedRel_eng (hooksFlagged u m) (hooksFlagged_marked u m) .sync m u e
    (emit ("#recv:" ++ e.type) s)
  have h2 := transientLoop_rel markedRel_eng (hooksFlagged u m) (hooksFlagged_marked u m) .sync m u m.maxIterations
    (processEvent (hooksFlagged u m) .sync m u e (emit ("#recv:" ++ e.type) s))
  exact markedRel_eng.trans (a := emit ("#recv:" ++ e.type) s) h1 h2

/-- the failing branch of the sync drain loop (the head is processed — it does not trip the bound — and its
    macrostep fails): the loop returns at once with the state as processing left it -/
theorem drainLoop_failed (m : Machine) (u : UEnv) (fuel c : Nat) (s : St) (q : QEv) (rest : List QEv)
    (hq : s.queue = q :: rest) (hrun : s.status = "running") (ht : syncTrips m c q = false)
    (he : (syncProcessed m u q.ev { s with queue := rest }).err ≠ none) :
    drainLoop m u (fuel + 1) c s = syncProcessed m u q.ev { s with queue := rest } := by
  have hsome : (drainMacro m u q.ev { s with queue := rest }).err.isSome = true := by
    cases hh : (syncProcessed m u q.ev { s with queue := rest }).err with
    | none => exact absurd hh he
    | some _ => rw [← syncProcessed_eq_drainMacro, hh]; rfl
  rw [drainLoop_step m u fuel c s q rest hq hrun ht, if_pos hsome]
  rfl

end XSM
