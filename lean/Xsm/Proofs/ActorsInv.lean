import Xsm.Proofs.ActorsProps
/-!
`WF`, `Settled`, `Tidy` — the hypotheses of the supervision theorems — are invariants of every observation
point the model can reach without leaving the fragment (`oos`).  The proof goes through a weaker invariant
`Pre` that also holds in the middle of a macrostep (where a sync child may still be unstarted), shows that
every primitive preserves it, that the acting actor keeps running through its own action list unless it
stops itself or an ancestor (which is what `oos` flags), and that `settle` re-establishes `Settled`.
-/
namespace XSM.Actors

/-- parent links agree with the children maps -/
def ParentOK (s : Sys) : Prop := ∀ u kv, kv ∈ (s.get u).kids → (s.get kv.2).parent = some u

/-- the invariant that holds also inside a macrostep -/
structure Pre (s : Sys) : Prop where
  pos : 0 < s.actors.length
  wf : WF s
  semi : ∀ u, u < s.actors.length → (s.get u).status = .uninit ∨ R s u ∨ Dead s u
  tidy : Tidy s
  par : ParentOK s
  started : s.flavor = .async → ∀ u, u < s.actors.length → (s.get u).status ≠ .uninit

theorem not_dead_of_oob (s : Sys) {u : Nat} (h : ¬ u < s.actors.length) : ¬ Dead s u := by
  intro hd; have := hd.1; rw [get_oob s h] at this; cases this

/-! ### steps that stop actors: `Mono` + `DC` + same parents -/

structure Down (s s' : Sys) : Prop where
  mono : Mono s s'
  dc : DC s s'
  par : ∀ u, (s'.get u).parent = (s.get u).parent

theorem Down.refl (s : Sys) : Down s s := ⟨Mono.refl s, DC.refl s, fun _ => rfl⟩

theorem Down.trans {a b c : Sys} (h1 : Down a b) (h2 : Down b c) : Down a c :=
  ⟨h1.mono.trans h2.mono, DC.trans h1.mono h2.mono h1.dc h2.dc, fun u => (h2.par u).trans (h1.par u)⟩

theorem pre_down {s s' : Sys} (h : Pre s) (d : Down s s') : Pre s' := by
  have hn := d.mono.n
  refine ⟨by rw [hn]; exact h.pos, h.wf.mono d.mono, fun u hu => ?_, fun u hd => ?_, fun u kv hkv => ?_, fun hf u hu hun => ?_⟩
  · rw [hn] at hu
    rcases h.semi u hu with e | e | e
    · exact Or.inl (d.mono.uninit u e)
    · by_cases hr : R s' u
      · exact Or.inr (Or.inl hr)
      · exact Or.inr (Or.inr (d.dc u e hr).1)
    · exact Or.inr (Or.inr (d.mono.dead u e))
  · by_cases hu : u < s.actors.length
    · rcases h.semi u hu with e | e | e
      · have := d.mono.uninit u e; rw [hd.1] at this; cases this
      · have hnr : ¬ R s' u := by unfold R; rw [hd.1]; decide
        exact (d.dc u e hnr).2.1
      · rcases d.mono.kids u with k | k
        · rw [k]; exact h.tidy u e
        · exact k
    · exact absurd hd (not_dead_of_oob s' (by rw [hn]; exact hu))
  · rcases d.mono.kids u with k | k
    · rw [k] at hkv; rw [d.par]; exact h.par u kv hkv
    · rw [k] at hkv; cases hkv
  · rw [hn] at hu
    rw [d.mono.flavor] at hf
    rcases h.semi u hu with e | e | e
    · exact h.started hf u hu e
    · by_cases hr : R s' u
      · unfold R at hr; rw [hr] at hun; cases hun
      · have := (d.dc u e hr).1.1; rw [this] at hun; cases hun
    · have := (d.mono.dead u e).1; rw [this] at hun; cases hun

theorem dc_of_sameStatus {s s' : Sys} (h : ∀ u, (s'.get u).status = (s.get u).status) : DC s s' := by
  intro u hr hnr; exact absurd (by unfold R at *; rw [h]; exact hr) hnr

theorem down_upd_inert (s : Sys) (x : Nat) (f : Actor → Actor) (h1 : ∀ a, (f a).status = a.status)
    (h2 : ∀ a, (f a).kids = a.kids) (h3 : ∀ a, a.alive = false → (f a).alive = false) (h4 : ∀ a, (f a).parent = a.parent) :
    Down s (s.upd x f) :=
  ⟨mono_upd_inert s x f h1 h2 h3, dc_of_sameStatus (fun u => get_upd_proj (·.status) s x u f h1),
    fun u => get_upd_proj (·.parent) s x u f h4⟩

theorem down_of_actors_eq {s s' : Sys} (hf : s'.flavor = s.flavor) (ha : s'.actors = s.actors) : Down s s' :=
  ⟨mono_of_actors_eq hf ha, dc_of_sameStatus (fun u => by rw [get_congr ha u]), fun u => by rw [get_congr ha u]⟩

theorem down_drainAll (busy : Option Nat) (s : Sys) : Down s (drainAll busy s) :=
  ⟨mono_drainAll busy s, dc_of_sameStatus (sameStatus_drainAll busy s), fun u => ((static_drainAll busy s).2.2.2.2 u).2⟩

theorem down_stop (busy : Option Nat) (s : Sys) (x : Nat) (hwf : WF s) : Down s (stop busy s x) := by
  by_cases hr : R s x
  · have hx : x < s.actors.length := by
      apply Classical.byContradiction; intro hx
      unfold R at hr; rw [get_oob s hx] at hr; cases hr
    have ⟨_, m, c⟩ := stop_spec busy s x hwf hx hr
    exact ⟨m, c, fun u => ((static_stopA busy _ s x).2.2.2.2 u).2⟩
  · have : stop busy s x = s := stopA_not_running busy _ s x hr
    rw [this]; exact Down.refl s

/-! ### steps that stop nobody -/

structure Calm (s s' : Sys) : Prop where
  pre : Pre s → Pre s'
  status : ∀ u, (s'.get u).status = (s.get u).status
  n : s'.actors.length = s.actors.length
  oos : s'.oos = s.oos

theorem Calm.refl (s : Sys) : Calm s s := ⟨id, fun _ => rfl, rfl, rfl⟩

theorem Calm.trans {a b c : Sys} (h1 : Calm a b) (h2 : Calm b c) : Calm a c :=
  ⟨fun h => h2.pre (h1.pre h), fun u => (h2.status u).trans (h1.status u), h2.n.trans h1.n, h2.oos.trans h1.oos⟩

theorem calm_foldl {β : Type} (F : Sys → β → Sys) (hF : ∀ s x, Calm s (F s x)) (l : List β) (s : Sys) :
    Calm s (l.foldl F s) := by
  induction l generalizing s with
  | nil => exact Calm.refl s
  | cons x r ih => exact (hF s x).trans (ih (F s x))

theorem calm_of_down {s s' : Sys} (d : Down s s') (hst : ∀ u, (s'.get u).status = (s.get u).status) (ho : s'.oos = s.oos) :
    Calm s s' := ⟨fun h => pre_down h d, hst, d.mono.n, ho⟩

theorem calm_upd_inert (s : Sys) (x : Nat) (f : Actor → Actor) (h1 : ∀ a, (f a).status = a.status)
    (h2 : ∀ a, (f a).kids = a.kids) (h3 : ∀ a, a.alive = false → (f a).alive = false) (h4 : ∀ a, (f a).parent = a.parent) :
    Calm s (s.upd x f) :=
  calm_of_down (down_upd_inert s x f h1 h2 h3 h4) (fun u => get_upd_proj (·.status) s x u f h1) rfl

theorem calm_of_actors_eq {s s' : Sys} (hf : s'.flavor = s.flavor) (ha : s'.actors = s.actors) (ho : s'.oos = s.oos) : Calm s s' :=
  calm_of_down (down_of_actors_eq hf ha) (fun u => by rw [get_congr ha u]) ho

theorem calm_drainAll (busy : Option Nat) (s : Sys) : Calm s (drainAll busy s) :=
  calm_of_down (down_drainAll busy s) (sameStatus_drainAll busy s) rfl

theorem calm_shrinks {f : Actor → Actor} (hf : Shrinks f) (s : Sys) (p : Nat) : Calm s (s.upd p f) := by
  have hst : ∀ v, ((s.upd p f).get v).status = (s.get v).status := fun v => get_upd_proj (·.status) s p v f hf.status
  have hal : ∀ v, ((s.upd p f).get v).alive = (s.get v).alive := fun v => get_upd_proj (·.alive) s p v f hf.alive
  have hpa : ∀ v, ((s.upd p f).get v).parent = (s.get v).parent := fun v => get_upd_proj (·.parent) s p v f hf.parent
  have hD : ∀ v, Dead (s.upd p f) v ↔ Dead s v := by
    intro v; unfold Dead; rw [hst, hal]; rfl
  refine ⟨fun h => ⟨by rw [n_upd]; exact h.pos, fun u kv hkv => ?_, fun u hu => ?_, fun u hd => ?_, fun u kv hkv => ?_,
    fun hfl u hu => ?_⟩, hst, n_upd s p f, rfl⟩
  · have := h.wf u kv (shrinks_kids_sub hf s p u kv hkv)
    exact ⟨this.1, by rw [n_upd]; exact this.2⟩
  · rw [n_upd] at hu
    rcases h.semi u hu with e | e | e
    · left; rw [hst]; exact e
    · right; left; unfold R at *; rw [hst]; exact e
    · right; right; exact (hD u).mpr e
  · have h0 := h.tidy u ((hD u).mp hd)
    cases hk : ((s.upd p f).get u).kids with
    | nil => rfl
    | cons kv r =>
      have := shrinks_kids_sub hf s p u kv (by rw [hk]; exact List.mem_cons_self ..)
      rw [h0] at this; cases this
  · rw [hpa]; exact h.par u kv (shrinks_kids_sub hf s p u kv hkv)
  · rw [n_upd] at hu; rw [hst]; exact h.started hfl u hu

/-! ### the calm primitives -/

theorem calm_warn (s : Sys) (w : String) : Calm s (s.warn w) := calm_of_actors_eq rfl rfl rfl

theorem calm_deliverNow (s : Sys) (t : Nat) (ev : String) : Calm s (deliverNow s t ev) := by
  unfold deliverNow
  split
  · split
    · split <;> exact calm_upd_inert s t _ (fun _ => rfl) (fun _ => rfl) (fun _ h => h) (fun _ => rfl)
    · exact calm_warn s _
  · split
    · exact calm_warn s _
    · exact calm_upd_inert s t _ (fun _ => rfl) (fun _ => rfl) (fun _ h => h) (fun _ => rfl)

theorem calm_addTimer (s : Sys) (t : Timer) : Calm s (addTimer s t) := calm_of_actors_eq rfl rfl rfl
theorem calm_killTimer (s : Sys) (i : Nat) : Calm s (killTimer s i) := calm_of_actors_eq rfl rfl rfl
theorem calm_killWatch (s : Sys) (i : Nat) : Calm s (killWatch s i) := calm_of_actors_eq rfl rfl rfl
theorem calm_addWatch (s : Sys) (w : Watch) : Calm s (addWatch s w) := calm_of_actors_eq rfl rfl rfl
theorem calm_unregister (s : Sys) (x : Nat) : Calm s (unregister s x) := calm_of_actors_eq rfl rfl rfl

theorem calm_setSend (s : Sys) (p : Nat) (k : String) (i : Nat) : Calm s (setSend s p k i) :=
  calm_upd_inert s p _ (fun _ => rfl) (fun _ => rfl) (fun _ h => h) (fun _ => rfl)

theorem calm_schedule (s : Sys) (p : Nat) (k : String) (i : Nat) : Calm s (schedule s p k i) := by
  unfold schedule
  split
  · exact (calm_killTimer s _).trans (calm_setSend _ p k i)
  · exact calm_setSend s p k i

theorem calm_deliver (s : Sys) (p t : Nat) (ev : String) (delay : Nat) (sid : Option String) :
    Calm s (deliver s p t ev delay sid) := by
  unfold deliver
  split
  · exact calm_deliverNow s t ev
  · split
    · exact calm_addTimer s _
    · exact (calm_addTimer s _).trans (calm_schedule _ p _ _)

theorem calm_cancelSend (s : Sys) (p : Nat) (k : String) : Calm s (cancelSend s p k) := by
  unfold cancelSend
  split
  · exact (calm_upd_inert s p (fun a => { a with sends := derase k a.sends }) (fun _ => rfl) (fun _ => rfl) (fun _ h => h) (fun _ => rfl)).trans
      (calm_killTimer _ _)
  · exact Calm.refl s

theorem calm_popKid (s : Sys) (p : Nat) (cid : String) : Calm s (popKid s p cid) := calm_shrinks (shrinks_popKid cid) s p

theorem calm_popOwnKid (s : Sys) (w : Watch) : Calm s (popOwnKid s w) := by
  unfold popOwnKid
  split
  · exact calm_popKid s _ _
  · exact Calm.refl s

theorem calm_unlinkChild (s : Sys) (p x : Nat) : Calm s (unlinkChild s p x) := by
  unfold unlinkChild
  split
  · next kv _ =>
    exact calm_shrinks (f := fun a => { a with kids := derase kv.1 a.kids, sources := derase kv.1 a.sources })
      ⟨fun _ => rfl, fun _ => rfl, fun _ => rfl, fun _ _ h => mem_derase h⟩ s p
  · exact Calm.refl s

theorem calm_setInv (s : Sys) (p : Nat) (b : Bool) : Calm s (setInv s p b) :=
  calm_upd_inert s p _ (fun _ => rfl) (fun _ => rfl) (fun _ h => h) (fun _ => rfl)

theorem calm_syncFinish (s : Sys) (p : Nat) : Calm s (syncFinish s p) := by
  unfold syncFinish
  exact calm_upd_inert s p _ (fun a => by split <;> rfl) (fun a => by split <;> rfl) (fun a h => by split <;> exact h)
    (fun a => by split <;> rfl)

theorem calm_beginSync (s : Sys) (p : Nat) (name : String) : Calm s (beginSync s p name) :=
  calm_upd_inert s p _ (fun _ => rfl) (fun _ => rfl) (fun _ h => h) (fun _ => rfl)

theorem calm_beginAsync (s : Sys) (p : Nat) (name : String) : Calm s (beginAsync s p name) :=
  calm_upd_inert s p _ (fun _ => rfl) (fun _ => rfl) (fun _ h => h) (fun _ => rfl)

theorem calm_notifyDone (s : Sys) (w : Watch) : Calm s (notifyDone s w) := by
  unfold notifyDone
  split
  · exact calm_deliverNow _ _ _
  · exact Calm.refl _

theorem calm_runWatch (s : Sys) (iw : Nat × Watch) : Calm s (runWatch s iw) := by
  unfold runWatch
  split
  · exact ((calm_killWatch s _).trans (calm_notifyDone _ _)).trans (calm_popOwnKid _ _)
  · exact Calm.refl s

theorem calm_dropSend (s : Sys) (p i : Nat) : Calm s (dropSend s p i) :=
  calm_upd_inert s p _ (fun _ => rfl) (fun _ => rfl) (fun _ h => h) (fun _ => rfl)

/-! ### steps that add an actor below `p` -/

structure Grow (s s' : Sys) (p : Nat) : Prop where
  flavor : s'.flavor = s.flavor
  oos : s'.oos = s.oos
  n : s'.actors.length = s.actors.length + 1
  old : ∀ v, v < s.actors.length → (s'.get v).status = (s.get v).status ∧ (s'.get v).alive = (s.get v).alive ∧
    (s'.get v).parent = (s.get v).parent
  kids : ∀ v, v < s.actors.length → v ≠ p → (s'.get v).kids = (s.get v).kids
  pkids : ∀ kv ∈ (s'.get p).kids, kv.2 = s.actors.length ∨ kv ∈ (s.get p).kids
  new : (s'.get s.actors.length).status ≠ .stopped ∧ (s'.get s.actors.length).parent = some p ∧
    (s'.get s.actors.length).kids = [] ∧ (s.flavor = .async → (s'.get s.actors.length).status ≠ .uninit)

theorem pre_grow {s s' : Sys} {p : Nat} (g : Grow s s' p) (h : Pre s) (hp : p < s.actors.length) (hnd : ¬ Dead s p) : Pre s' := by
  have hD : ∀ v, v < s.actors.length → (Dead s' v ↔ Dead s v) := by
    intro v hv; unfold Dead; rw [(g.old v hv).1, (g.old v hv).2.1, g.flavor]
  have hkidsub : ∀ v, v < s.actors.length → ∀ kv ∈ (s'.get v).kids, kv.2 = s.actors.length ∧ v = p ∨ kv ∈ (s.get v).kids := by
    intro v hv kv hkv
    by_cases e : v = p
    · subst e
      rcases g.pkids kv hkv with k | k
      · exact Or.inl ⟨k, rfl⟩
      · exact Or.inr k
    · rw [g.kids v hv e] at hkv; exact Or.inr hkv
  have hoob : ∀ v, ¬ v < s.actors.length + 1 → s'.get v = default := fun v hv => get_oob s' (by rw [g.n]; exact hv)
  refine ⟨by rw [g.n]; omega, fun u kv hkv => ?_, fun u hu => ?_, fun u hd => ?_, fun u kv hkv => ?_, fun hfl u hu => ?_⟩
  · rw [g.n]
    by_cases hu : u < s.actors.length
    · rcases hkidsub u hu kv hkv with ⟨k, e⟩ | k
      · rw [k, e]; omega
      · have := h.wf u kv k; omega
    · by_cases e : u = s.actors.length
      · rw [e, g.new.2.2.1] at hkv; cases hkv
      · rw [hoob u (by omega)] at hkv; cases hkv
  · rw [g.n] at hu
    by_cases hlt : u < s.actors.length
    · rcases h.semi u hlt with e | e | e
      · left; rw [(g.old u hlt).1]; exact e
      · right; left; unfold R at *; rw [(g.old u hlt).1]; exact e
      · right; right; exact (hD u hlt).mpr e
    · have e : u = s.actors.length := by omega
      rw [e]
      cases hs : (s'.get s.actors.length).status with
      | uninit => exact Or.inl rfl
      | running => exact Or.inr (Or.inl hs)
      | stopped => exact absurd hs g.new.1
  · by_cases hlt : u < s.actors.length
    · have hds := (hD u hlt).mp hd
      have hne : u ≠ p := fun e => hnd (e ▸ hds)
      rw [g.kids u hlt hne]; exact h.tidy u hds
    · by_cases e : u = s.actors.length
      · rw [e]; exact g.new.2.2.1
      · exact absurd hd (not_dead_of_oob s' (by rw [g.n]; omega))
  · by_cases hu : u < s.actors.length
    · rcases hkidsub u hu kv hkv with ⟨k, e⟩ | k
      · rw [k, e]; exact g.new.2.1
      · have hw := h.wf u kv k
        rw [(g.old kv.2 hw.2).2.2]; exact h.par u kv k
    · by_cases e : u = s.actors.length
      · rw [e, g.new.2.2.1] at hkv; cases hkv
      · rw [hoob u (by omega)] at hkv; cases hkv
  · rw [g.flavor] at hfl
    rw [g.n] at hu
    by_cases hlt : u < s.actors.length
    · rw [(g.old u hlt).1]; exact h.started hfl u hlt
    · have e : u = s.actors.length := by omega
      rw [e]; exact g.new.2.2.2 hfl

theorem grow_spawnCore (s : Sys) (p : Nat) (key : String) (eid sid : Option String) (b : Bool) (hp : p < s.actors.length) :
    Grow s (spawnCore s p key eid sid b) p := by
  have hkids := spawnCore_kids s p key eid sid b hp
  have hspec := spawnCore_spec s p key eid sid b hp
  have hfl : (spawnCore s p key eid sid b).flavor = s.flavor := (quiet_spawnCore s p key eid sid b).1
  have hoos : (spawnCore s p key eid sid b).oos = s.oos := by
    unfold spawnCore linkChild register
    cases sid with
    | none => rfl
    | some x =>
      simp only
      cases dlookup x (addActor s _ _).registry with
      | none => rfl
      | some v => simp only; split <;> rfl
  have hold : ∀ v, v < s.actors.length → ((spawnCore s p key eid sid b).get v).alive = (s.get v).alive ∧
      ((spawnCore s p key eid sid b).get v).parent = (s.get v).parent := by
    intro v hv
    unfold spawnCore linkChild
    generalize hc : newActor s p (mkId (s.get p).id key eid s.fresh) key (startedAtSpawn s b) = child
    generalize ht : register (addActor s child (freshAfter s eid)) sid s.actors.length = t
    have hta : t.actors = s.actors ++ [child] := by rw [← ht, register_actors]; rfl
    have hgt : t.get v = s.get v := by simp [Sys.get, hta, List.getElem?_append_left hv]
    rw [← hgt]
    exact ⟨get_upd_proj (·.alive) t p v _ (fun _ => rfl), get_upd_proj (·.parent) t p v _ (fun _ => rfl)⟩
  refine ⟨hfl, hoos, hspec.1, fun v hv => ⟨(hspec.2.2.2.2.2.2 v hv).1, (hold v hv).1, (hold v hv).2⟩,
    fun v hv hne => by rw [hspec.2.2.2.2.2.1 v hne hv], fun kv hkv => ?_, ?_⟩
  · rw [hkids] at hkv
    rcases mem_dinsert hkv with e | e
    · left; rw [e]
    · right; exact e
  · rw [hspec.2.1]
    refine ⟨newActor_not_stopped s p _ key _, rfl, rfl, fun hfl => ?_⟩
    unfold newActor startedAtSpawn; simp [hfl]

theorem grow_addWatch {s s' : Sys} {p : Nat} (g : Grow s s' p) (w : Watch) : Grow s (addWatch s' w) p :=
  ⟨g.flavor, g.oos, g.n, g.old, g.kids, g.pkids, g.new⟩

theorem grow_spawnFresh (s : Sys) (p : Nat) (key : String) (eid sid : Option String) (b : Bool) (hp : p < s.actors.length) :
    Grow s (spawnFresh s p key eid sid b) p := by
  unfold spawnFresh
  split
  · exact grow_addWatch (grow_spawnCore s p key eid sid _ hp) _
  · exact grow_spawnCore s p key eid sid _ hp

theorem grow_spawnInvokeAsync (s : Sys) (p : Nat) (key : String) (hp : p < s.actors.length) :
    Grow s (spawnInvokeAsync s p key) p := by
  unfold spawnInvokeAsync
  apply grow_addWatch
  generalize hc : newActor s p (mkId (s.get p).id key none s.fresh) key true = child
  generalize ht : addActor s child (s.fresh + 1) = t
  have hta : t.actors = s.actors ++ [child] := by rw [← ht]; rfl
  have hlen : t.actors.length = s.actors.length + 1 := by rw [hta]; simp
  have hpt : p < t.actors.length := by omega
  have hgt : ∀ v, v < s.actors.length → t.get v = s.get v := by
    intro v hv; simp [Sys.get, hta, List.getElem?_append_left hv]
  have hgn : t.get s.actors.length = child := by simp [Sys.get, hta]
  refine ⟨by rw [← ht]; rfl, by rw [← ht]; rfl, by rw [n_upd]; exact hlen, fun v hv => ?_, fun v hv hne => ?_, fun kv hkv => ?_, ?_⟩
  · rw [← hgt v hv]
    exact ⟨get_upd_proj (·.status) t p v _ (fun _ => rfl), get_upd_proj (·.alive) t p v _ (fun _ => rfl),
      get_upd_proj (·.parent) t p v _ (fun _ => rfl)⟩
  · rw [get_upd_ne t _ hne, hgt v hv]
  · rw [get_upd_self t _ hpt, hgt p hp] at hkv
    rcases mem_dinsert hkv with e | e
    · left; rw [e]
    · right; exact e
  · rw [get_upd_ne t _ (by omega), hgn, ← hc]
    exact ⟨newActor_not_stopped s p _ key true, rfl, rfl, fun _ => by simp [newActor]⟩

/-! ### `stop()` touches the status of descendants only -/

theorem desc_sub {s s' : Sys} (h : ∀ u kv, kv ∈ (s'.get u).kids → kv ∈ (s.get u).kids) {y d : Nat} (hd : Desc s' y d) : Desc s y d := by
  induction hd with
  | self x => exact Desc.self x
  | @kid y d kv hkv _ ih => exact Desc.kid kv (h y kv hkv) ih

theorem Mono.kidsSub {s s' : Sys} (m : Mono s s') : ∀ u kv, kv ∈ (s'.get u).kids → kv ∈ (s.get u).kids := by
  intro u kv hkv
  rcases m.kids u with e | e
  · rw [e] at hkv; exact hkv
  · rw [e] at hkv; cases hkv

theorem stopA_frame (busy : Option Nat) : ∀ (fuel : Nat) (s : Sys) (x : Nat), WF s → s.actors.length ≤ x + fuel →
    x < s.actors.length → R s x → ∀ u, ¬ Desc s x u → ((stopA busy fuel s x).get u).status = (s.get u).status := by
  intro fuel
  induction fuel with
  | zero => intro s x _ h1 h2 _; omega
  | succ fuel ih =>
    intro s x hwf hfuel hx hr u hnd
    have hux : u ≠ x := fun e => hnd (by rw [e]; exact Desc.self x)
    have fold : ∀ (l : List (String × Nat)) (acc : Sys), WF acc → acc.actors.length = s.actors.length →
        (∀ kv ∈ l, x < kv.2 ∧ kv.2 < s.actors.length) → (∀ kv ∈ l, ¬ Desc acc kv.2 u) →
        ((l.foldl (fun a kv => stopA busy fuel a kv.2) acc).get u).status = (acc.get u).status := by
      intro l
      induction l with
      | nil => intro acc _ _ _ _; rfl
      | cons kv r ihl =>
        intro acc hwa hna hl hnd'
        have hkv := hl kv (List.mem_cons_self ..)
        have hr' : ∀ kv' ∈ r, x < kv'.2 ∧ kv'.2 < s.actors.length := fun kv' h => hl kv' (List.mem_cons_of_mem _ h)
        simp only [List.foldl_cons]
        by_cases hrc : R acc kv.2
        · have ⟨_, m1, _⟩ := stopA_spec busy fuel acc kv.2 hwa (by rw [hna]; omega) (by rw [hna]; exact hkv.2) hrc
          have h1 := ih acc kv.2 hwa (by rw [hna]; omega) (by rw [hna]; exact hkv.2) hrc u (hnd' kv (List.mem_cons_self ..))
          rw [ihl (stopA busy fuel acc kv.2) (hwa.mono m1) (by rw [m1.n]; exact hna) hr'
            (fun kv' h hd => hnd' kv' (List.mem_cons_of_mem _ h) (desc_sub m1.kidsSub hd)), h1]
        · rw [stopA_not_running busy fuel acc kv.2 hrc]
          exact ihl acc hwa hna hr' (fun kv' h => hnd' kv' (List.mem_cons_of_mem _ h))
    unfold stopA
    have hr0 : (s.get x).status = .running := hr
    simp only [hr0, if_true]
    have m01 : Mono s (unregister (markStopped s x) x) :=
      (mono_markStopped s x hr).trans (mono_of_actors_eq (s' := unregister (markStopped s x) x) rfl rfl)
    have hne : ∀ v, v ≠ x → (unregister (markStopped s x) x).get v = s.get v := fun v h => by
      show (markStopped s x).get v = s.get v
      unfold markStopped; exact get_upd_ne s _ h
    have hf := fold (s.get x).kids (unregister (markStopped s x) x) (hwf.mono m01) m01.n (fun kv h => hwf x kv h)
      (fun kv hkv hd => hnd (Desc.kid kv hkv (desc_sub m01.kidsSub hd)))
    generalize (s.get x).kids.foldl (fun a kv => stopA busy fuel a kv.2) (unregister (markStopped s x) x) = fin at hf
    rw [(mono_stopTail busy (clearKids fin x) x).2 u]
    have hck : ((clearKids fin x).get u).status = (fin.get u).status := by
      unfold clearKids; exact get_upd_proj (·.status) fin x u (fun a => { a with kids := [] }) (fun _ => rfl)
    rw [hck, hf, hne u hux]

theorem stop_frame (busy : Option Nat) (s : Sys) (x : Nat) (hwf : WF s) (u : Nat) (hnd : ¬ Desc s x u) :
    ((stop busy s x).get u).status = (s.get u).status := by
  by_cases hr : R s x
  · have hx : x < s.actors.length := by
      apply Classical.byContradiction; intro hx
      unfold R at hr; rw [get_oob s hx] at hr; cases hr
    exact stopA_frame busy _ s x hwf (by omega) hx hr u hnd
  · have : stop busy s x = s := stopA_not_running busy _ s x hr
    rw [this]

theorem stop_oos (busy : Option Nat) (s : Sys) (x : Nat) : (stop busy s x).oos = s.oos := by
  unfold stop
  generalize s.actors.length = fuel
  induction fuel generalizing s x with
  | zero => rfl
  | succ fuel ih =>
    unfold stopA
    split
    · have hfold : ∀ (l : List (String × Nat)) (acc : Sys), (l.foldl (fun a kv => stopA busy fuel a kv.2) acc).oos = acc.oos := by
        intro l
        induction l with
        | nil => intro acc; rfl
        | cons kv r ihl => intro acc; simp only [List.foldl_cons]; rw [ihl, ih]
      have htail : ∀ t : Sys, (stopTail busy t x).oos = t.oos := by
        intro t
        unfold stopTail
        split
        · rfl
        · unfold stopLoop stopTasks
          split
          · split <;> rfl
          · split <;> rfl
      rw [htail]
      show (clearKids ((s.get x).kids.foldl (fun a kv => stopA busy fuel a kv.2) (unregister (markStopped s x) x)) x).oos = s.oos
      show ((s.get x).kids.foldl (fun a kv => stopA busy fuel a kv.2) (unregister (markStopped s x) x)).oos = s.oos
      rw [hfold]; rfl
    · rfl

/-- `stop()` at the level of the invariant -/
theorem pre_stop (busy : Option Nat) (s : Sys) (x : Nat) (h : Pre s) :
    Pre (stop busy s x) ∧ (stop busy s x).actors.length = s.actors.length ∧ (stop busy s x).oos = s.oos ∧
    ∀ u, ¬ Desc s x u → R s u → R (stop busy s x) u := by
  have d := down_stop busy s x h.wf
  exact ⟨pre_down h d, d.mono.n, stop_oos busy s x, fun u hnd hr => by unfold R at *; rw [stop_frame busy s x h.wf u hnd]; exact hr⟩

/-! ### an actor below `x` in the children maps has `x` on its parent chain -/

theorem isAnc_mono (s : Sys) (x : Nat) : ∀ (f p : Nat), isAncestorOrSelf s x f p = true → isAncestorOrSelf s x (f + 1) p = true := by
  intro f
  induction f with
  | zero =>
    intro p h
    simp only [isAncestorOrSelf, decide_eq_true_eq] at h
    simp [isAncestorOrSelf, h]
  | succ f ih =>
    intro p h
    unfold isAncestorOrSelf at h ⊢
    simp only [Bool.or_eq_true, decide_eq_true_eq] at h ⊢
    rcases h with h | h
    · exact Or.inl h
    · right
      cases hp : (s.get p).parent with
      | none => rw [hp] at h; cases h
      | some q => rw [hp] at h; exact ih q h

theorem isAnc_mono_le (s : Sys) (x p : Nat) {f g : Nat} (hfg : f ≤ g) (h : isAncestorOrSelf s x f p = true) :
    isAncestorOrSelf s x g p = true := by
  induction hfg with
  | refl => exact h
  | step _ ih => exact isAnc_mono s x _ p ih

/-- one more link at the top of the chain -/
theorem isAnc_up (s : Sys) (x y : Nat) (hxy : (s.get y).parent = some x) :
    ∀ (f p : Nat), isAncestorOrSelf s y f p = true → isAncestorOrSelf s x (f + 1) p = true := by
  intro f
  induction f with
  | zero =>
    intro p h
    simp only [isAncestorOrSelf, decide_eq_true_eq] at h
    subst h
    simp [isAncestorOrSelf, hxy]
  | succ f ih =>
    intro p h
    unfold isAncestorOrSelf at h
    simp only [Bool.or_eq_true, decide_eq_true_eq] at h
    rcases h with h | h
    · subst h
      have : isAncestorOrSelf s x 1 y = true := by simp [isAncestorOrSelf, hxy]
      exact isAnc_mono_le s x y (by omega) this
    · cases hp : (s.get p).parent with
      | none => rw [hp] at h; cases h
      | some q =>
        rw [hp] at h
        have := ih q h
        unfold isAncestorOrSelf
        simp only [Bool.or_eq_true, decide_eq_true_eq]
        right; rw [hp]; exact this

theorem desc_isAnc {s : Sys} (hwf : WF s) (hpar : ParentOK s) {x p : Nat} (h : Desc s x p) :
    isAncestorOrSelf s x (p - x) p = true := by
  induction h with
  | self x => simp [isAncestorOrSelf]
  | @kid x d kv hkv hd ih =>
    have hw := hwf x kv hkv
    have hb := (desc_bounds hwf hd).1
    have := isAnc_up s x kv.2 (hpar x kv hkv) _ d ih
    exact isAnc_mono_le s x d (by omega) this

/-! ### inside a macrostep of the actor `p` -/

/-- mid-macrostep: the run has left the fragment, or `Pre` holds and the acting actor still runs -/
def K (s : Sys) (p : Nat) : Prop := s.oos = true ∨ (Pre s ∧ p < s.actors.length ∧ R s p)

/-- mid-operation -/
def J (s : Sys) : Prop := s.oos = true ∨ Pre s

/-- at an observation point -/
def I (s : Sys) : Prop := s.oos = true ∨ (Pre s ∧ Settled s)

theorem K.toJ {s : Sys} {p : Nat} (h : K s p) : J s := h.imp id (fun h => h.1)

theorem K.calm {s s' : Sys} {p : Nat} (h : K s p) (c : Calm s s') : K s' p := by
  rcases h with h | ⟨h1, h2, h3⟩
  · exact Or.inl (by rw [c.oos]; exact h)
  · exact Or.inr ⟨c.pre h1, by rw [c.n]; exact h2, by unfold R at *; rw [c.status]; exact h3⟩

theorem J.calm {s s' : Sys} (h : J s) (c : Calm s s') : J s' := by
  rcases h with h | h
  · exact Or.inl (by rw [c.oos]; exact h)
  · exact Or.inr (c.pre h)

theorem settled_of_pre {s : Sys} (h : Pre s) (hn : ∀ u, u < s.actors.length → (s.get u).status ≠ .uninit) : Settled s := by
  intro u hu
  rcases h.semi u hu with e | e | e
  · exact absurd e (hn u hu)
  · exact Or.inl e
  · exact Or.inr e

theorem I.calm {s s' : Sys} (h : I s) (c : Calm s s') : I s' := by
  rcases h with h | ⟨h1, h2⟩
  · exact Or.inl (by rw [c.oos]; exact h)
  · refine Or.inr ⟨c.pre h1, settled_of_pre (c.pre h1) (fun u hu => ?_)⟩
    rw [c.n] at hu
    rw [c.status]
    rcases h2 u hu with e | e
    · unfold R at e; rw [e]; decide
    · rw [e.1]; decide

theorem spawnCore_oos (s : Sys) (p : Nat) (key : String) (eid sid : Option String) (b : Bool) :
    (spawnCore s p key eid sid b).oos = s.oos := by
  unfold spawnCore linkChild register
  cases sid with
  | none => rfl
  | some x =>
    simp only
    cases dlookup x (addActor s _ _).registry with
    | none => rfl
    | some v => simp only; split <;> rfl

theorem spawnFresh_oos (s : Sys) (p : Nat) (key : String) (eid sid : Option String) (b : Bool) :
    (spawnFresh s p key eid sid b).oos = s.oos := by
  unfold spawnFresh
  split
  · exact spawnCore_oos s p key eid sid _
  · exact spawnCore_oos s p key eid sid _

theorem k_grow {s s' : Sys} {p : Nat} (ho : s'.oos = s.oos) (g : p < s.actors.length → Grow s s' p) (h : K s p) : K s' p := by
  rcases h with h | ⟨h1, h2, h3⟩
  · exact Or.inl (by rw [ho]; exact h)
  · have g := g h2
    have hnd : ¬ Dead s p := fun hd => by unfold R at h3; rw [hd.1] at h3; cases h3
    exact Or.inr ⟨pre_grow g h1 h2 hnd, by rw [g.n]; omega, by unfold R at *; rw [(g.old p h2).1]; exact h3⟩

theorem evict_oos (busy : Option Nat) (s : Sys) (p : Nat) (cid : String) : (evict busy s p cid).oos = s.oos := by
  unfold evict
  split
  · rw [stop_oos]; rfl
  · rfl

theorem k_evict (busy : Option Nat) (s : Sys) (p : Nat) (cid : String) (h : K s p) : K (evict busy s p cid) p := by
  rcases h with h | ⟨h1, h2, h3⟩
  · exact Or.inl (by rw [evict_oos]; exact h)
  · unfold evict
    split
    · next old hold =>
      have hmem : (cid, old) ∈ (s.get p).kids := dlookup_mem hold
      have hpo := h1.wf p (cid, old) hmem
      have c := calm_popKid s p cid
      have h1' := c.pre h1
      have hr' : R (popKid s p cid) p := by unfold R at *; rw [c.status]; exact h3
      have hnd : ¬ Desc (popKid s p cid) old p := fun hd => by
        have := (desc_bounds h1'.wf hd).1
        have := hpo.1
        omega
      have ⟨q1, q2, _, q4⟩ := pre_stop busy (popKid s p cid) old h1'
      exact Or.inr ⟨q1, by rw [q2, c.n]; exact h2, q4 p hnd hr'⟩
    · exact Or.inr ⟨h1, h2, h3⟩

theorem k_spawn (busy : Option Nat) (s : Sys) (p : Nat) (key : String) (eid sid : Option String) (b : Bool) (h : K s p) :
    K (spawn busy s p key eid sid b) p := by
  unfold spawn
  exact k_grow (spawnFresh_oos _ p key eid sid b) (fun hp => grow_spawnFresh _ p key eid sid b hp) (k_evict busy s p _ h)

theorem k_stopChildTo (busy : Option Nat) (s : Sys) (p x : Nat) (h : K s p) : K (stopChildTo busy s p x) p := by
  unfold stopChildTo
  have c : Calm s (unregister (unlinkChild s p x) x) := (calm_unlinkChild s p x).trans (calm_unregister _ x)
  rcases h with h | ⟨h1, h2, h3⟩
  · left
    rw [stop_oos]
    unfold markOos
    split
    · rfl
    · rw [c.oos]; exact h
  · by_cases ha : isAncestorOrSelf s x s.actors.length p = true
    · left
      rw [stop_oos, ha]; rfl
    · have hb : isAncestorOrSelf s x s.actors.length p = false := by simpa using ha
      rw [hb]
      show K (stop busy (unregister (unlinkChild s p x) x) x) p
      have h1' := c.pre h1
      have hr' : R (unregister (unlinkChild s p x) x) p := by unfold R at *; rw [c.status]; exact h3
      have hnd : ¬ Desc (unregister (unlinkChild s p x) x) x p := fun hd => by
        have hd' : Desc s x p := desc_sub (s := s) (s' := unregister (unlinkChild s p x) x)
          (fun u kv hkv => unlinkChild_kids_sub s p x u kv hkv) hd
        have h5 := desc_isAnc h1.wf h1.par hd'
        exact ha (isAnc_mono_le s x p (by omega) h5)
      have ⟨q1, q2, _, q4⟩ := pre_stop busy _ x h1'
      exact Or.inr ⟨q1, by rw [q2, c.n]; exact h2, q4 p hnd hr'⟩

theorem k_runAction (busy : Option Nat) (cur : String) (p : Nat) (s : Sys) (a : Action) (h : K s p) :
    K (runAction busy cur p s a) p := by
  cases a with
  | spawn key eid sid b => exact k_spawn busy s p key eid sid b h
  | sendTo target ev delay sid =>
    simp only [runAction]
    split
    · exact h.calm (calm_deliver s p _ ev delay sid)
    · exact h.calm ((calm_warn s _).trans (calm_warn _ _))
    · exact h.calm (calm_warn s _)
  | sendParent ev delay sid =>
    simp only [runAction]
    split
    · exact h.calm (calm_deliver s p _ ev delay sid)
    · exact h.calm (calm_warn s _)
  | forwardTo target =>
    simp only [runAction]
    split
    · exact h.calm (calm_deliverNow s _ cur)
    · exact h.calm ((calm_warn s _).trans (calm_warn _ _))
    · exact h.calm (calm_warn s _)
  | escalate =>
    simp only [runAction]
    split
    · exact h.calm (calm_deliverNow s _ _)
    · exact h.calm (calm_warn s _)
  | cancel sid => exact h.calm (calm_cancelSend s p sid)
  | stopChild target =>
    simp only [runAction]
    split
    · exact k_stopChildTo busy s p _ h
    · exact h.calm ((calm_warn s _).trans (calm_warn _ _))
    · exact h.calm (calm_warn s _)

theorem k_runActions (busy : Option Nat) (cur : String) (p : Nat) (s : Sys) (acts : List Action) (h : K s p) :
    K (runActions busy cur p s acts) p := by
  unfold runActions
  induction acts generalizing s with
  | nil => exact h
  | cons a r ih => exact ih _ (k_runAction busy cur p s a h)

theorem spawnInvokeAsync_oos (s : Sys) (p : Nat) (key : String) : (spawnInvokeAsync s p key).oos = s.oos := rfl

theorem k_invokeBody (p : Nat) (s : Sys) (h : K s p) : K (invokeBody p s) p := by
  unfold invokeBody
  split
  · exact h
  · split
    · exact h.calm (calm_setInv s p true)
    · split
      · exact k_spawn none _ p _ _ _ _ (h.calm (calm_setInv s p true))
      · exact k_grow (spawnInvokeAsync_oos _ p _) (fun hp => grow_spawnInvokeAsync _ p _ hp) (h.calm (calm_setInv s p true))

theorem j_stop (busy : Option Nat) (s : Sys) (x : Nat) (h : J s) : J (stop busy s x) := by
  rcases h with h | h
  · exact Or.inl (by rw [stop_oos]; exact h)
  · exact Or.inr (pre_stop busy s x h).1

theorem j_leaveWatch (busy : Option Nat) (p : Nat) (s : Sys) (iw : Nat × Watch) (h : J s) : J (leaveWatch busy p s iw) := by
  unfold leaveWatch
  split
  · exact (j_stop busy _ _ (h.calm ((calm_killWatch s _).trans (calm_drainAll busy _)))).calm (calm_popKid _ p _)
  · exact h

theorem j_leaveBody (busy : Option Nat) (p : Nat) (s : Sys) (h : J s) : J (leaveBody busy p s) := by
  unfold leaveBody
  split
  · split
    · exact h.calm (calm_setInv s p false)
    · have h0 := h.calm (calm_setInv s p false)
      generalize (List.range s.watches.length).zip s.watches = l
      generalize setInv s p false = t at h0
      induction l generalizing t with
      | nil => exact h0
      | cons iw r ih => exact ih _ (j_leaveWatch busy p t iw h0)
  · exact h

/-! ### observation points -/

def startUninit (a : Actor) : Actor := if a.status = .uninit then { a with status := .running } else a

theorem get_settle_sync (s : Sys) (h : s.flavor = .sync) (u : Nat) (hu : u < s.actors.length) :
    (settle s).get u = startUninit (s.get u) := by
  unfold settle
  simp only [h]
  unfold Sys.get
  simp only [List.getElem?_map, List.getElem?_eq_getElem hu, Option.map_some, Option.getD_some]
  rfl

theorem settle_oos (s : Sys) : (settle s).oos = s.oos := by
  unfold settle; split <;> rfl

theorem settle_n (s : Sys) : (settle s).actors.length = s.actors.length := by
  unfold settle
  split
  · simp
  · exact n_drainAll none s

theorem i_settle (s : Sys) (h : J s) : I (settle s) := by
  rcases h with h | h
  · exact Or.inl (by rw [settle_oos]; exact h)
  · right
    cases hfl : s.flavor with
    | async =>
      have c : Calm s (settle s) := by unfold settle; simp only [hfl]; exact calm_drainAll none s
      have hp := c.pre h
      refine ⟨hp, settled_of_pre hp (fun u hu => ?_)⟩
      rw [c.n] at hu
      rw [c.status]; exact h.started hfl u hu
    | sync =>
      have hn := settle_n s
      have hflv : (settle s).flavor = s.flavor := by unfold settle; split <;> rfl
      have hg := get_settle_sync s hfl
      have hoob : ∀ u, ¬ u < s.actors.length → (settle s).get u = default := fun u hu => get_oob _ (by rw [hn]; exact hu)
      have hkids : ∀ u, ((settle s).get u).kids = (s.get u).kids := by
        intro u
        by_cases hu : u < s.actors.length
        · rw [hg u hu]; unfold startUninit; split <;> rfl
        · rw [hoob u hu, get_oob s hu]
      have hpar : ∀ u, ((settle s).get u).parent = (s.get u).parent := by
        intro u
        by_cases hu : u < s.actors.length
        · rw [hg u hu]; unfold startUninit; split <;> rfl
        · rw [hoob u hu, get_oob s hu]
      have hstat : ∀ u, u < s.actors.length →
          ((s.get u).status = .uninit → R (settle s) u) ∧ (R s u → R (settle s) u) ∧ (Dead s u → Dead (settle s) u) ∧
          (Dead (settle s) u → Dead s u) := by
        intro u hu
        refine ⟨fun e => ?_, fun e => ?_, fun e => ?_, fun e => ?_⟩
        · unfold R; rw [hg u hu]; unfold startUninit; simp [e]
        · unfold R at *; rw [hg u hu]; unfold startUninit; simp [e]
        · unfold Dead at *; rw [hg u hu, hflv]; unfold startUninit; simp [e.1]; exact e.2
        · unfold Dead at *
          rw [hg u hu, hflv] at e
          unfold startUninit at e
          split at e
          · exact absurd e.1 (by simp)
          · exact e
      have hpre : Pre (settle s) := by
        refine ⟨by rw [hn]; exact h.pos, fun u kv hkv => ?_, fun u hu => ?_, fun u hd => ?_, fun u kv hkv => ?_, fun hf => ?_⟩
        · rw [hkids] at hkv; rw [hn]; exact h.wf u kv hkv
        · rw [hn] at hu
          rcases h.semi u hu with e | e | e
          · exact Or.inr (Or.inl ((hstat u hu).1 e))
          · exact Or.inr (Or.inl ((hstat u hu).2.1 e))
          · exact Or.inr (Or.inr ((hstat u hu).2.2.1 e))
        · by_cases hu : u < s.actors.length
          · rw [hkids]; exact h.tidy u ((hstat u hu).2.2.2 hd)
          · exact absurd hd (not_dead_of_oob _ (by rw [hn]; exact hu))
        · rw [hkids] at hkv; rw [hpar]; exact h.par u kv hkv
        · rw [hflv, hfl] at hf; cases hf
      refine ⟨hpre, fun u hu => ?_⟩
      rw [hn] at hu
      rcases h.semi u hu with e | e | e
      · exact Or.inl ((hstat u hu).1 e)
      · exact Or.inl ((hstat u hu).2.1 e)
      · exact Or.inr ((hstat u hu).2.2.1 e)

theorem I.toJ {s : Sys} (h : I s) : J s := h.imp id (fun h => h.1)

/-! ### the harness addresses existing actors -/

theorem mem_dfs_lt {s : Sys} (hwf : WF s) : ∀ (f d u : Nat), u < s.actors.length → ∀ du ∈ dfs s f d u, du.2 < s.actors.length := by
  intro f
  induction f with
  | zero => intro d u _ du h; cases h
  | succ f ih =>
    intro d u hu du h
    unfold dfs at h
    rcases List.mem_cons.mp h with e | e
    · rw [e]; exact hu
    · rcases List.mem_flatMap.mp e with ⟨kv, hkv, hm⟩
      exact ih (d + 1) kv.2 (hwf u kv hkv).2 du hm

theorem findActor_lt {s : Sys} (h : Pre s) {aid : String} {p : Nat} (hf : findActor s aid = some p) : p < s.actors.length := by
  unfold findActor at hf
  cases hfind : (tree s).find? (fun du => (s.get du.2).id = aid) with
  | none => rw [hfind] at hf; cases hf
  | some du =>
    rw [hfind] at hf
    simp only [Option.map_some, Option.some.injEq] at hf
    rw [← hf]
    exact mem_dfs_lt h.wf _ 0 0 h.pos du (List.mem_of_find?_eq_some hfind)

/-! ### operations -/

theorem i_handle (s : Sys) (p : Nat) (name : String) (body : Option Nat → Sys → Sys) (h : I s)
    (hp : Pre s → p < s.actors.length) (hb : ∀ busy s1, K s1 p → J (body busy s1)) : I (handle s p name body) := by
  unfold handle
  split
  · split
    · next hr =>
      have hk : K s p := h.imp id (fun h => ⟨h.1, hp h.1, hr⟩)
      exact i_settle _ ((hb _ _ (hk.calm (calm_beginSync s p name))).calm (calm_syncFinish _ p))
    · exact h.calm (calm_warn s _)
  · split
    · exact h.calm (calm_warn s _)
    · next hr =>
      have hk : K s p := by
        rcases h with h | ⟨h1, h2⟩
        · exact Or.inl h
        · refine Or.inr ⟨h1, hp h1, ?_⟩
          rcases h2 p (hp h1) with e | e
          · exact e
          · exact absurd e.1 hr
      exact i_settle _ (hb _ _ (hk.calm (calm_beginAsync s p name)))

theorem i_fireTimer (s : Sys) (i : Nat) (h : I s) : I (fireTimer s i) := by
  unfold fireTimer
  exact i_settle _ (h.toJ.calm (((calm_killTimer s i).trans (calm_dropSend _ _ i)).trans (calm_deliverNow _ _ _)))

theorem i_advance (s : Sys) (dt : Nat) (h : I s) : I (advance s dt) := by
  unfold advance
  have h1 : J (runWatches s) := h.toJ.calm (calm_foldl runWatch calm_runWatch _ s)
  have h2 := i_settle _ h1
  have h3 : I (fireDue (settle (runWatches s)) dt) := by
    unfold fireDue
    generalize dueLive (settle (runWatches s)) ((settle (runWatches s)).now + dt) = l
    generalize settle (runWatches s) = t at h2
    induction l generalizing t with
    | nil => exact h2
    | cons i r ih => exact ih _ (i_fireTimer t i h2)
  have h4 : J (tick (fireDue (settle (runWatches s)) dt) dt) := h3.toJ.calm (calm_of_actors_eq rfl rfl rfl)
  exact i_settle _ h4

theorem i_stepOn (cmds : List (String × List Action)) (s : Sys) (op : Op) (h : I s) : I (stepOn cmds s op) := by
  cases op with
  | cmd aid name =>
    simp only [stepOn]
    split
    · exact h
    · next p hf =>
      have hp : Pre s → p < s.actors.length := fun hpre => findActor_lt hpre hf
      split
      · exact i_handle s p _ _ h hp (fun _ s1 hk => (k_invokeBody p s1 hk).toJ)
      · split
        · exact i_handle s p _ _ h hp (fun busy s1 hk => j_leaveBody busy p s1 hk.toJ)
        · exact i_handle s p name _ h hp (fun busy s1 hk => (k_runActions busy name p s1 _ hk).toJ)
  | adv dt => exact i_advance s dt h
  | stop aid =>
    simp only [stepOn]
    split
    · exact h
    · exact i_settle _ (j_stop none s _ h.toJ)

theorem i_step (cmds : List (String × List Action)) (s : Sys) (op : Op) (h : I s) : I (step cmds s op) := by
  unfold step
  exact i_stepOn cmds _ op (h.calm (calm_of_actors_eq (s' := clearWarns s) rfl rfl rfl))

theorem i_run (cmds : List (String × List Action)) (s : Sys) (ops : List Op) (h : I s) : I (run cmds s ops) := by
  unfold run
  induction ops generalizing s with
  | nil => exact h
  | cons op r ih => exact ih _ (i_step cmds s op h)

theorem i_init (fl : Flavor) (eager : Bool) (invoke : List (String × String)) : I (init fl eager invoke) := by
  right
  have hget0 : ((init fl eager invoke).get 0).kids = [] ∧ ((init fl eager invoke).get 0).status = .running := ⟨rfl, rfl⟩
  have hoob : ∀ u, u ≠ 0 → (init fl eager invoke).get u = default := fun u hu =>
    get_oob _ (by simp [init]; omega)
  have hkids : ∀ u, ((init fl eager invoke).get u).kids = [] := by
    intro u
    by_cases hu : u = 0
    · rw [hu]; exact hget0.1
    · rw [hoob u hu]; rfl
  have hlen : (init fl eager invoke).actors.length = 1 := rfl
  have hR : ∀ u, u < (init fl eager invoke).actors.length → R (init fl eager invoke) u := by
    intro u hu
    have : u = 0 := by rw [hlen] at hu; omega
    unfold R; rw [this]; exact hget0.2
  refine ⟨⟨by rw [hlen]; omega, fun u kv hkv => ?_, fun u hu => Or.inr (Or.inl (hR u hu)), fun u _ => hkids u,
    fun u kv hkv => ?_, fun _ u hu => ?_⟩, fun u hu => Or.inl (hR u hu)⟩
  · rw [hkids] at hkv; cases hkv
  · rw [hkids] at hkv; cases hkv
  · have := hR u hu; unfold R at this; rw [this]; decide

/-- `WF`, `Settled`, `Tidy` hold at every observation point of every run that stays inside the fragment -/
theorem inv_of_I {s : Sys} (h : I s) (ho : s.oos = false) : WF s ∧ Settled s ∧ Tidy s := by
  rcases h with h | ⟨h1, h2⟩
  · rw [ho] at h; cases h
  · exact ⟨h1.wf, h2, h1.tidy⟩

/-! ### F51: the spawning actor is not touched by the eviction of the previous holder of the id -/

theorem respawn_parent_keeps_running (busy : Option Nat) (s : Sys) (p : Nat) (key : String) (eid sid : Option String) (b : Bool)
    (old : Nat) (hwf : WF s) (hp : p < s.actors.length)
    (hold : dlookup (mkId (s.get p).id key eid s.fresh) (s.get p).kids = some old) (hr : R s p) :
    R (spawn busy s p key eid sid b) p := by
  generalize hcid : mkId (s.get p).id key eid s.fresh = cid at hold
  have hpo := hwf p (cid, old) (dlookup_mem hold)
  have c := calm_popKid s p cid
  have hwf1 : WF (popKid s p cid) := fun u kv hkv => by
    have := hwf u kv (shrinks_kids_sub (shrinks_popKid cid) s p u kv hkv)
    exact ⟨this.1, by rw [c.n]; exact this.2⟩
  have hnd : ¬ Desc (popKid s p cid) old p := fun hd => by
    have := (desc_bounds hwf1 hd).1
    have := hpo.1
    omega
  have h1 : ((stop busy (popKid s p cid) old).get p).status = .running := by
    rw [stop_frame busy _ old hwf1 p hnd, c.status]; exact hr
  have heq : spawn busy s p key eid sid b = spawnFresh (stop busy (popKid s p cid) old) p key eid sid b := by
    unfold spawn evict; rw [hcid, hold]
  have hn : (stop busy (popKid s p cid) old).actors.length = s.actors.length := by
    exact ((static_stopA busy _ (popKid s p cid) old).2.2.2.1).trans c.n
  have hpt : p < (stop busy (popKid s p cid) old).actors.length := by rw [hn]; exact hp
  have ⟨ha, _⟩ := spawnFresh_actors (stop busy (popKid s p cid) old) p key eid sid b
  unfold R
  rw [heq, get_congr ha, ((spawnCore_spec _ p key eid sid b hpt).2.2.2.2.2.2 p hpt).1]
  exact h1

end XSM.Actors
