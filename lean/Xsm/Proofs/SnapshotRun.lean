import Xsm.Proofs.Snapshot
import Xsm.Proofs.Run
import Xsm.Proofs.Trace
/-
C12: the run invariant `Snap.RunInv` instantiated from C01 — "the configuration is `Legal`" — for
well-formed machines whose selected transitions have plain or root targets (`SelSound`, the scope of
`legal_run`).  The one new ingredient is the configuration a transition builds when it FAILS midway
(before the rollback): it is a subset of the old configuration (failure while exiting) or of the
configuration the completed transition would have produced (failure afterwards); both are legal, so at
most one child of every compound state is active in it.
-/
namespace XSM
namespace Snap
open Spec Hist

theorem exitOne_sub (h : Hooks) (hok : HooksOK h) (fl : Flavor) (m : Machine) (ev : Option String) (s : St) (p : Path) :
    ∀ q ∈ (exitOne h fl m ev s p).cfg, q ∈ s.cfg := by
  intro q hq
  unfold exitOne at hq
  split at hq
  · exact hq
  · split at hq
    · exact hq
    · have := (mem_delActive.1 hq).1
      rwa [execActions_cfg h hok] at this

theorem exitFold_sub (h : Hooks) (hok : HooksOK h) (fl : Flavor) (m : Machine) (ev : Option String) :
    ∀ (ps : List Path) (s : St), ∀ q ∈ (ps.foldl (exitOne h fl m ev) s).cfg, q ∈ s.cfg := by
  intro ps
  induction ps with
  | nil => intro s q hq; exact hq
  | cons p ps ih =>
    intro s q hq
    simp only [List.foldl_cons] at hq
    exact exitOne_sub h hok fl m ev s p q (ih _ q hq)

theorem enterFold_sub (h : Hooks) (hok : HooksOK h) (fl : Flavor) (m : Machine) (ev : Option String) :
    ∀ (es : List Entry) (s : St), ∀ q ∈ (es.foldl (enterOne h fl m ev) s).cfg,
      q ∈ s.cfg ∨ q ∈ es.map (·.path) := by
  intro es
  induction es with
  | nil => intro s q hq; exact Or.inl hq
  | cons e es ih =>
    intro s q hq
    simp only [List.foldl_cons] at hq
    rcases ih _ q hq with h1 | h1
    · rcases enterOne_cfg h hok fl m ev s e with hc | hc
      · rw [hc] at h1; exact Or.inl h1
      · rw [hc] at h1
        rcases mem_addActive.1 h1 with h2 | h2
        · exact Or.inl h2
        · exact Or.inr (by simp [h2])
    · exact Or.inr (List.mem_cons_of_mem _ h1)

theorem enterFold_err (h : Hooks) (fl : Flavor) (m : Machine) (ev : Option String) (es : List Entry) (s : St)
    (he : s.err.isSome = true) : es.foldl (enterOne h fl m ev) s = s :=
  foldl_sticky _ (fun s e hs => enterOne_sticky h fl m ev s e hs) es s he

/-- the configuration `runPlan` leaves (before any rollback): within the old one, or within
    `(old \ exits) ∪ entries` -/
theorem runPlan_cfg_cases (h : Hooks) (hok : HooksOK h) (fl : Flavor) (m : Machine) (ev : Ev) (pl : Plan) (s : St)
    (hvx : ∀ p ∈ pl.exits, (m.defAt p).isSome) :
    (∀ q ∈ (runPlan h fl m ev pl s).cfg, q ∈ s.cfg) ∨
    (∀ q ∈ (runPlan h fl m ev pl s).cfg, (q ∈ s.cfg ∧ q ∉ pl.exits) ∨ q ∈ pl.entries.map (·.path)) := by
  have hcfg : (runPlan h fl m ev pl s).cfg =
      (pl.entries.foldl (enterOne h fl m (some ev.type))
        (if (pl.exits.foldl (exitOne h fl m (some ev.type)) (recordHistory m pl.exits s)).err.isSome = true
         then pl.exits.foldl (exitOne h fl m (some ev.type)) (recordHistory m pl.exits s)
         else execActions h pl.actions ev.type
           (pl.exits.foldl (exitOne h fl m (some ev.type)) (recordHistory m pl.exits s)))).cfg := by
    unfold runPlan
    simp only
    cases pl.err with
    | none => rfl
    | some e => exact fail_cfg _ e
  rw [hcfg]
  generalize hs2 : pl.exits.foldl (exitOne h fl m (some ev.type)) (recordHistory m pl.exits s) = s2
  by_cases h2 : s2.err.isSome = true
  · left
    rw [if_pos h2, enterFold_err h fl m _ _ s2 h2]
    intro q hq
    rw [← hs2] at hq
    exact exitFold_sub h hok fl m _ _ (recordHistory m pl.exits s) q hq
  · right
    rw [if_neg h2]
    have h2n : s2.err = none := by
      cases hx : s2.err with
      | none => rfl
      | some _ => rw [hx] at h2; simp at h2
    obtain ⟨_, x2⟩ := exitFold_spec h hok fl m (some ev.type) pl.exits (recordHistory m pl.exits s) hvx
      (by rw [hs2]; exact h2n)
    rw [hs2] at x2
    intro q hq
    rcases enterFold_sub h hok fl m _ _ _ q hq with h1 | h1
    · rw [execActions_cfg h hok] at h1
      exact Or.inl ((x2 q).1 h1)
    · exact Or.inr h1

/-- what C01 knows about a transition before it runs: its exits are active states and the
    configuration the completed transition produces is legal -/
structure MicroSpec (m : Machine) (s : St) (pl : Plan) : Prop where
  exits_valid : ∀ p ∈ pl.exits, (m.defAt p).isSome
  exits_active : ∀ p ∈ pl.exits, p ∈ s.cfg
  result : ∃ R, Legal m.root R ∧ ∀ q, ((q ∈ s.cfg ∧ q ∉ pl.exits) ∨ q ∈ pl.entries.map (·.path)) → q ∈ R

theorem runPlan_uniq (h : Hooks) (hok : HooksOK h) (fl : Flavor) (m : Machine) (ev : Ev) (pl : Plan) (s : St)
    (hwf : WF m.root) (hL : Legal m.root s.cfg) (hsp : MicroSpec m s pl) :
    CompUniq (runPlan h fl m ev pl s).cfg [] m.root := by
  rcases runPlan_cfg_cases h hok fl m ev pl s hsp.exits_valid with hc | hc
  · exact CompUniq.sub hc [] m.root (compUniq_root_of_legal hwf hL)
  · obtain ⟨R, hR, hsub⟩ := hsp.result
    exact CompUniq.sub (fun q hq => hsub q (hc q hq)) [] m.root (compUniq_root_of_legal hwf hR)

-- the two shapes of `CandOK` ---------------------------------------------------------------------
theorem plain_spec (m : Machine) (c : Cand) (s : St) (hwf : WF m.root) (hi : InitOK m.root)
    (hL : Legal m.root s.cfg) (hsrc : c.src ∈ s.cfg)
    (tstr : String) (ht : c.t.target = some tstr) (hne : tstr ≠ "")
    (tgt : Path) (hres : resolveRobust m c.src tstr = some tgt)
    (hext : ¬ (tgt = c.src ∧ c.t.reenter = false))
    (nt : SNode) (htgt : m.root.at tgt = some nt) (hnh : nt.kind ≠ .history) (htne : tgt ≠ []) :
    MicroSpec m s (planTransition m s.cfg s.hist c) := by
  have hdp : Spec.domain c.src tgt <+: tgt := domain_prefix_tgt c.src tgt
  have hpf : pathFrom (domain c.src tgt) tgt = pathToEnter (Spec.domain c.src tgt) tgt := by
    simp only [pathFrom, domain, List.isPrefixOf_iff_prefix.2 hdp, if_true, pathToEnter]
  have hnotint : (tgt = c.src && !c.t.reenter) = false := by
    cases hr : c.t.reenter with
    | true => simp
    | false =>
      by_cases he : tgt = c.src
      · exact absurd ⟨he, hr⟩ hext
      · simp [he]
  have hkh : ¬ (m.kindAt tgt = some Kind.history) := by
    simp only [Machine.kindAt, htgt, Option.map_some, Option.some.injEq]
    exact hnh
  have hvL : ∀ p ∈ pathToEnter (Spec.domain c.src tgt) tgt, ∃ n, m.root.at p = some n := by
    intro p hp
    obtain ⟨_, _, h3⟩ := (mem_pathToEnter hdp).1 hp
    obtain ⟨t, ht'⟩ := h3
    rw [← ht'] at htgt
    exact at_prefix_some htgt
  obtain ⟨_, hpent⟩ := planEnter_eq m (pathToEnter (Spec.domain c.src tgt) tgt) hwf hi hvL
  have hplan : planTransition m s.cfg s.hist c =
      { exits := sortExit m (exitSet m s.cfg (domain c.src tgt) tgt), actions := c.t.actions,
        entries := (planEnter m (pathToEnter (Spec.domain c.src tgt) tgt)).1,
        err := (planEnter m (pathToEnter (Spec.domain c.src tgt) tgt)).2 } := by
    unfold planTransition
    simp only [ht, hne, if_false, hres, hnotint, Bool.false_eq_true, hkh, domainO_plain m c.src tgt htne hkh,
      pathFromO]
    have hpf' : pathFrom (Spec.domain c.src tgt) tgt = pathToEnter (Spec.domain c.src tgt) tgt := hpf
    rw [hpf']
    rfl
  rw [hplan]
  refine ⟨?_, ?_, ⟨stepConfig m.root s.cfg c.src tgt, legal_step_flat m.root hwf s.cfg hL c.src tgt hsrc nt htgt hnh htne, ?_⟩⟩
  · intro p hp
    simp only [mem_sortExit] at hp
    have hpc : p ∈ s.cfg := (mem_exitSet.1 hp).1
    obtain ⟨n, hn, _⟩ := hL.states p hpc
    exact defAt_isSome_of_at hn
  · intro p hp
    simp only [mem_sortExit] at hp
    exact (mem_exitSet.1 hp).1
  · intro q hq
    rw [mem_stepConfig]
    simp only [hpent, mem_sortExit, exitSet, domain] at hq
    exact hq

theorem root_spec (m : Machine) (c : Cand) (s : St) (hwf : WF m.root) (hi : InitOK m.root)
    (hk : m.root.kind ≠ .history) (hL : Legal m.root s.cfg)
    (tstr : String) (ht : c.t.target = some tstr) (hne : tstr ≠ "")
    (hres : resolveRobust m c.src tstr = some [])
    (hext : ¬ ([] = c.src ∧ c.t.reenter = false)) :
    MicroSpec m s (planTransition m s.cfg s.hist c) := by
  have hnotint : (([] : Path) = c.src && !c.t.reenter) = false := by
    cases hr : c.t.reenter with
    | true => simp
    | false =>
      by_cases he : ([] : Path) = c.src
      · exact absurd ⟨he, hr⟩ hext
      · simp [he]
  have hkh : ¬ (m.kindAt [] = some Kind.history) := by
    simp only [Machine.kindAt, SNode.at, Option.map_some, Option.some.injEq]
    exact hk
  have hvL : ∀ p ∈ ([[]] : List Path), ∃ n, m.root.at p = some n := by
    intro p hp; simp at hp; subst hp; exact ⟨m.root, rfl⟩
  obtain ⟨_, hpent⟩ := planEnter_eq m [[]] hwf hi hvL
  have hplan : planTransition m s.cfg s.hist c =
      { exits := sortExit m s.cfg, actions := c.t.actions,
        entries := (planEnter m [[]]).1, err := (planEnter m [[]]).2 } := by
    unfold planTransition
    simp only [ht, hne, if_false, hres, hnotint, Bool.false_eq_true, hkh, domainO_root, pathFromO_none_nil]
  rw [hplan]
  refine ⟨?_, ?_, ⟨enterDefault [] m.root, legal_enterDefault_root m.root hwf hk _ (fun _ => Iff.rfl), ?_⟩⟩
  · intro p hp
    simp only [mem_sortExit] at hp
    obtain ⟨n, hn, _⟩ := hL.states p hp
    exact defAt_isSome_of_at hn
  · intro p hp
    simp only [mem_sortExit] at hp
    exact hp
  · intro q hq
    simp only [hpent, enterStates_root, mem_sortExit] at hq
    rcases hq with ⟨a, b⟩ | h2
    · exact absurd a b
    · exact h2

/-- every non-internal transition of a `CandOK` candidate from a legal configuration -/
theorem candOK_spec (m : Machine) (c : Cand) (s : St) (hwf : WF m.root) (hi : InitOK m.root)
    (hL : Legal m.root s.cfg) (hc : CandOK m c) (hsrc : c.src ∈ s.cfg)
    (hint : (planTransition m s.cfg s.hist c).internal = false) :
    MicroSpec m s (planTransition m s.cfg s.hist c) := by
  have internal_abs : ∀ (as : List ActionRef),
      planTransition m s.cfg s.hist c = { actions := as, internal := true } → False := by
    intro as hp; rw [hp] at hint; cases hint
  rcases hc with (hn | he | ⟨tstr, tgt, nt, ht, hne, hres, htgt, hnh, htne⟩) | ⟨tstr, ht, hne, hres, hk⟩
  · exact (internal_abs c.t.actions (by unfold planTransition; simp only [hn])).elim
  · exact (internal_abs c.t.actions (by unfold planTransition; simp only [he, if_true])).elim
  · by_cases hself : tgt = c.src ∧ c.t.reenter = false
    · refine (internal_abs c.t.actions ?_).elim
      unfold planTransition
      simp only [ht, hne, if_false, hres, hself.1, hself.2, Bool.not_false, Bool.and_true,
        decide_true, if_true]
    · exact plain_spec m c s hwf hi hL hsrc tstr ht hne tgt hres hself nt htgt hnh htne
  · by_cases hself : ([] : Path) = c.src ∧ c.t.reenter = false
    · refine (internal_abs c.t.actions ?_).elim
      unfold planTransition
      simp only [ht, hne, if_false, hres, hself.1, hself.2, Bool.not_false, Bool.and_true,
        decide_true, if_true]
    · exact root_spec m c s hwf hi hk hL tstr ht hne hres hself

-- history targets -----------------------------------------------------------------------------------
/-- a candidate whose target is a history pseudo-state whose owner is inactive (source outside the
    owner: the scope of C11), with the static sanity `HistNodeOK` of the history node -/
def HistCand (m : Machine) (cfg : List Path) (c : Cand) : Prop :=
  ∃ tstr hh hn, c.t.target = some tstr ∧ tstr ≠ "" ∧ resolveRobust m c.src tstr = some hh ∧
    m.root.at hh = some hn ∧ hn.kind = .history ∧ hh.dropLast ∉ cfg ∧ HistNodeOK m hh

theorem hist_spec (m : Machine) (c : Cand) (s : St) (hwf : WF m.root) (hi : InitOK m.root)
    (hL : Legal m.root s.cfg) (hsrc : c.src ∈ s.cfg) (hA : HistAll m s.hist) (hc : HistCand m s.cfg c) :
    MicroSpec m s (planTransition m s.cfg s.hist c) := by
  obtain ⟨tstr, hh, hn, ht, hne, hres, hat, hk, hP, hOK⟩ := hc
  obtain ⟨hhne, hns, hdomO, hdomc, k1, hk1⟩ := hist_domain m s.cfg hL c.src hh hsrc hn hat hk hP
  have hG := hist_goodTargets m hwf hi s.hist hh hhne hn hat (fun R hg hR => hA _ R hg hR) hOK _ k1 hk1
  have hkh : m.kindAt hh = some Kind.history := by simp [Machine.kindAt, hat, hk]
  generalize hdomdef : lcp c.src hh = dom at *
  generalize hTdef : resolveHistoryTarget m s.hist hh = T at *
  have hplan := planTransition_history m s.cfg s.hist c tstr ht hne hh hres hns hkh dom hdomO
  rw [hTdef] at hplan
  generalize hLdef : (T.flatMap (pathFrom dom)).eraseDups = L at hplan
  have hLmem : ∀ q, q ∈ L ↔ q ∈ histForest dom T := by
    intro q; rw [← hLdef, List.mem_eraseDups, flatMap_pathFrom dom T hG.below]
  have hF : Forest m.root L := Forest_congr (fun q => (hLmem q).symm) hG.forest
  have hvL : ∀ p ∈ L, ∃ n, m.root.at p = some n := by
    intro p hp; obtain ⟨n, hn', _⟩ := hF.valid p hp; exact ⟨n, hn'⟩
  obtain ⟨_, hpent⟩ := planEnter_eq m L hwf hi hvL
  rw [hplan]
  obtain ⟨ndom, hdomat, _⟩ := hL.states dom hdomc
  have hla : LegalAt s.cfg [] m.root := legalAt_of_legal m.root hwf s.cfg hL m.root [] rfl hL.root_active
  have hstep := legal_step_gen m.root hwf s.cfg hla dom hh k1 (histForest dom T) ndom hdomat
    ⟨dom, hdomc, List.prefix_refl _⟩ (List.IsPrefix.trans hk1 (List.dropLast_prefix hh))
    hG.forest hG.first hG.branch
  have hlegal : Legal m.root (stepConfigL m.root s.cfg dom hh (histForest dom T)) := by
    apply legal_of_legalAt m.root hwf _ hstep
    intro q hq
    rcases mem_stepConfigL.1 hq with ⟨hqc, _⟩ | hqE
    · obtain ⟨n, hn', _⟩ := hL.states q hqc; exact ⟨n, hn'⟩
    · apply enterStates_at m.root hwf _ ?_ q hqE
      intro p hp
      obtain ⟨n, hn', _⟩ := hG.forest.valid p hp; exact ⟨n, hn'⟩
  refine ⟨?_, ?_, ⟨_, hlegal, ?_⟩⟩
  · intro p hp
    simp only [mem_sortExit] at hp
    have hpc : p ∈ s.cfg := (mem_exitSet.1 hp).1
    obtain ⟨n, hn', _⟩ := hL.states p hpc
    exact defAt_isSome_of_at hn'
  · intro p hp
    simp only [mem_sortExit] at hp
    exact (mem_exitSet.1 hp).1
  · intro q hq
    rw [mem_stepConfigL]
    simp only [hpent, mem_enterStates_congr hLmem q, mem_sortExit, exitSet] at hq
    exact hq

-- the history component of the state through one transition ------------------------------------------
theorem exitOne_hist (h : Hooks) (htr : HooksTraceOK h) (fl : Flavor) (m : Machine) (ev : Option String)
    (s : St) (p : Path) : (exitOne h fl m ev s p).hist = s.hist := by
  unfold exitOne
  split
  · rfl
  · split
    · rfl
    · exact execActions_hist h htr _ _ _

theorem exitFold_hist (h : Hooks) (htr : HooksTraceOK h) (fl : Flavor) (m : Machine) (ev : Option String) :
    ∀ (ps : List Path) (s : St), (ps.foldl (exitOne h fl m ev) s).hist = s.hist := by
  intro ps
  induction ps with
  | nil => intro s; rfl
  | cons p ps ih => intro s; simp only [List.foldl_cons]; rw [ih, exitOne_hist h htr]

theorem checkDone_hist (h : Hooks) (htr : HooksTraceOK h) (m : Machine) (fin : Path) (s : St) :
    (checkAndFireOnDone h m fin s).hist = s.hist := by
  unfold checkAndFireOnDone
  simp only
  split
  · exact htr.snd_hist _ _
  · split
    · unfold complete; split <;> rfl
    · rfl

theorem addActive_hist (p : Path) (s : St) : (addActive p s).hist = s.hist := by
  unfold addActive; split <;> rfl

theorem enterOne_hist (h : Hooks) (htr : HooksTraceOK h) (fl : Flavor) (m : Machine) (ev : Option String)
    (s : St) (e : Entry) : (enterOne h fl m ev s e).hist = s.hist := by
  unfold enterOne
  split
  · rfl
  · split
    · rfl
    · simp only
      have h1 := execActions_hist h htr (entryEvName fl m e ev) (by assumption : StateDef).entry (addActive e.path s)
      split
      · rw [h1, addActive_hist]
      · split
        · rw [checkDone_hist h htr, h1, addActive_hist]
        · rw [h1, addActive_hist]

theorem enterFold_hist (h : Hooks) (htr : HooksTraceOK h) (fl : Flavor) (m : Machine) (ev : Option String) :
    ∀ (es : List Entry) (s : St), (es.foldl (enterOne h fl m ev) s).hist = s.hist := by
  intro es
  induction es with
  | nil => intro s; rfl
  | cons e es ih => intro s; simp only [List.foldl_cons]; rw [ih, enterOne_hist h htr]

theorem runPlan_hist (h : Hooks) (htr : HooksTraceOK h) (fl : Flavor) (m : Machine) (ev : Ev) (pl : Plan) (s : St) :
    (runPlan h fl m ev pl s).hist = (recordHistory m pl.exits s).hist := by
  have hf : ∀ (x : St), (match pl.err with | some e => x.fail e | none => x).hist = x.hist := by
    intro x
    cases pl.err with
    | none => rfl
    | some e => exact fail_hist x e
  unfold runPlan
  simp only
  cases hpe : pl.err with
  | none =>
    simp only
    rw [enterFold_hist h htr]
    split
    · exact exitFold_hist h htr fl m _ _ _
    · rw [execActions_hist h htr]; exact exitFold_hist h htr fl m _ _ _
  | some e =>
    simp only
    rw [fail_hist, enterFold_hist h htr]
    split
    · exact exitFold_hist h htr fl m _ _ _
    · rw [execActions_hist h htr]; exact exitFold_hist h htr fl m _ _ _

/-- after one transition the history is the old one (internal) or the one recorded at the exit -/
theorem execute_hist_cases (h : Hooks) (htr : HooksTraceOK h) (fl : Flavor) (m : Machine) (ev : Ev) (pl : Plan) (s : St) :
    (execute h fl m ev pl s).hist = s.hist ∨ (pl.internal = false ∧
      (execute h fl m ev pl s).hist = (recordHistory m pl.exits s).hist) := by
  cases hint : pl.internal with
  | true => exact Or.inl (execute_internal_hist h htr fl m ev pl s hint)
  | false =>
    right
    refine ⟨rfl, ?_⟩
    rw [execute_hist_eq]
    unfold executeCore
    simp only [hint, Bool.false_eq_true, if_false]
    split
    · exact runPlan_hist h htr fl m ev pl s
    · exact runPlan_hist h htr fl m ev pl s

-- the instance -----------------------------------------------------------------------------------
theorem hooksOf_ok (fl : Flavor) (u : UEnv) (m : Machine) : HooksOK (hooksOf fl u m) := by
  cases fl with
  | sync => exact hooksFlagged_ok u m
  | async => exact hooksAsync_ok u m

theorem hooksOf_traceOK (fl : Flavor) (u : UEnv) (m : Machine) : HooksTraceOK (hooksOf fl u m) := by
  cases fl with
  | sync => exact hooksFlagged_traceOK u m
  | async => exact hooksAsync_traceOK u m

/-- what selection must guarantee here (the `SelSound` of `legal_run`, extended by history targets):
    sources are ancestors-or-self of active states; the selected transitions all have plain or root
    targets, or exactly one transition is selected and it targets a history state whose owner is
    inactive -/
def SelSoundH (m : Machine) : Prop :=
  ∀ cfg env ev sel, Legal m.root cfg → selectTransitions m cfg env ev = .ok sel →
    (∀ c ∈ sel, ∃ q ∈ cfg, c.src <+: q) ∧ ((∀ c ∈ sel, CandOK m c) ∨ ∃ c, sel = [c] ∧ HistCand m cfg c)

theorem SelSound.toH {m : Machine} (h : SelSound m) : SelSoundH m :=
  fun cfg env ev sel hl hs => ⟨fun c hc => (h cfg env ev sel hl hs c hc).2, Or.inl (fun c hc => (h cfg env ev sel hl hs c hc).1)⟩

/-- the invariant of the runs considered: legal configuration (C01) and every remembered list a legal
    selection of its owner's subtree (C11) -/
def RunP (m : Machine) (s : St) : Prop := Legal m.root s.cfg ∧ HistAll m s.hist

theorem microSpec_of (m : Machine) (c : Cand) (s : St) (hwf : WF m.root) (hi : InitOK m.root)
    (hs : RunP m s) (hc : CandOK m c ∨ HistCand m s.cfg c) (hsrc : c.src ∈ s.cfg)
    (hint : (planTransition m s.cfg s.hist c).internal = false) :
    MicroSpec m s (planTransition m s.cfg s.hist c) := by
  rcases hc with hc | hc
  · exact candOK_spec m c s hwf hi hs.1 hc hsrc hint
  · exact hist_spec m c s hwf hi hs.1 hsrc hs.2 hc

theorem legal_microstep_any (h : Hooks) (hok : HooksOK h) (fl : Flavor) (m : Machine) (ev : Ev) (c : Cand) (s : St)
    (hwf : WF m.root) (hi : InitOK m.root) (hs : RunP m s) (hc : CandOK m c ∨ HistCand m s.cfg c)
    (hsrc : c.src ∈ s.cfg) : Legal m.root (execute h fl m ev (planTransition m s.cfg s.hist c) s).cfg := by
  rcases hc with hc | ⟨tstr, hh, hn, ht, hne, hres, hat, hk, hP, hOK⟩
  · exact legal_microstep h hok fl m ev c s hwf hi hs.1 hc hsrc
  · exact legal_microstep_history h hok fl m ev c s hwf hi hs.1 hsrc tstr ht hne hh hres hn hat hk hP
      (fun R hg hR => hs.2 _ R hg hR) hOK

/-- **C01 and C11 provide the run invariant**, for any hooks that only enqueue: for a well-formed machine
    without '.' in its id and keys whose selection is sound (`SelSoundH`), "`cfg` is `Legal` and every
    remembered list is a legal selection" is a `RunInv`, for arbitrary user code. -/
theorem runInv_of_hooks (h : Hooks) (hok : HooksOK h) (htr : HooksTraceOK h) (fl : Flavor) (m : Machine) (u : UEnv)
    (hwf : WF m.root) (hi : InitOK m.root) (hsel : SelSoundH m) (hd : MDot m) :
    RunInv m u h fl (RunP m) (CandOK m) (fun s c => HistCand m s.cfg c) where
  inj := fun s hs => idInj_of_valid m hd s.cfg (fun p hp => by
    obtain ⟨n, hn, _⟩ := hs.1.states p hp
    rw [hn]; rfl)
  sel := fun s ev sel hs hsl => by
    obtain ⟨h1, h2⟩ := hsel s.cfg _ ev sel hs.1 hsl
    refine ⟨fun c hc => ?_, h2⟩
    obtain ⟨q, hq, hp⟩ := h1 c hc
    exact src_active hs.1 hq hp
  uniq := fun s ev c hs hc hsrc hint =>
    runPlan_uniq _ hok fl m ev _ s hwf hs.1 (microSpec_of m c s hwf hi hs hc hsrc hint)
  step := fun s ev c hs hc hsrc => by
    refine ⟨legal_microstep_any _ hok fl m ev c s hwf hi hs hc hsrc, ?_⟩
    rcases execute_hist_cases _ htr fl m ev (planTransition m s.cfg s.hist c) s with hh | ⟨hint, hh⟩
    · rw [hh]; exact hs.2
    · rw [hh]
      exact histAll_recordHistory m hwf _ s hs.1 (microSpec_of m c s hwf hi hs hc hsrc hint).exits_active hs.2
  frame := fun s t hc hh hs => by
    show Legal m.root t.cfg ∧ HistAll m t.hist
    rw [← hc, ← hh]; exact hs

/-- … in particular for the hooks either engine processes a sent event with -/
theorem runInv_legal (fl : Flavor) (m : Machine) (u : UEnv) (hwf : WF m.root) (hi : InitOK m.root)
    (hsel : SelSoundH m) (hd : MDot m) :
    RunInv m u (hooksOf fl u m) fl (RunP m) (CandOK m) (fun s c => HistCand m s.cfg c) :=
  runInv_of_hooks _ (hooksOf_ok fl u m) (hooksOf_traceOK fl u m) fl m u hwf hi hsel hd

/-- **`start()` establishes the invariant**: unless the library refused to start the machine -/
theorem start_runP (fl : Flavor) (m : Machine) (u : UEnv) (hwf : WF m.root) (hi : InitOK m.root)
    (hk : m.root.kind ≠ .history) (hsel : SelSoundH m) (hd : MDot m) :
    (start fl m u {}).err ≠ none ∨ RunP m (start fl m u {}) := by
  obtain ⟨he, _⟩ := startEntries_eq m hwf hi
  cases fl with
  | sync =>
    show (syncStart m u {}).err ≠ none ∨ RunP m (syncStart m u {})
    have hP := runInv_of_hooks _ (hooksFlagged_ok u m) (hooksFlagged_traceOK u m) .sync m u hwf hi hsel hd
    unfold syncStart
    simp only [he]
    generalize hs1 : (startEntries m).1.foldl (enterOne (hooksFlagged u m) .sync m none)
      { ({} : St) with status := "running", ctx := m.ctx0 } = s1
    cases h1 : s1.err with
    | some e => left; simp [h1]
    | none =>
      simp only [h1, Option.isSome_none, Bool.false_eq_true, if_false]
      have hl : RunP m s1 := by
        refine ⟨?_, ?_⟩
        · rw [← hs1]
          exact initialEntry_legal _ (hooksFlagged_ok u m) .sync m _ hwf hi hk _ rfl (by rw [hs1]; exact h1)
        · rw [← hs1, enterFold_hist _ (hooksFlagged_traceOK u m)]; exact histAll_nil m
      have ht := (transientLoop_equiv' (hooksFlagged_ok u m) (hooksFlagged_perm u m) hP m.maxIterations
        (St.equiv.refl m s1) hl).2
      split
      · rename_i herr
        left
        cases hh : (transientLoop (hooksFlagged u m) Flavor.sync m u m.maxIterations s1).err with
        | none => simp [hh] at herr
        | some _ => simp [hh]
      · right; exact (drainLoop_equiv hP _ _ (St.equiv.refl m _) ht).2
  | async =>
    show (asyncStart m u {}).err ≠ none ∨ RunP m (asyncStart m u {})
    have hP0 := runInv_of_hooks _ (hooksAsyncStart_ok u m) (hooksAsyncStart_traceOK u m) .async m u hwf hi hsel hd
    have hP := runInv_of_hooks _ (hooksAsync_ok u m) (hooksAsync_traceOK u m) .async m u hwf hi hsel hd
    rw [asyncStart_unfold]
    simp only [he]
    generalize hs1 : (startEntries m).1.foldl
      (enterOne (hooksAsyncStart u m) .async m (some "___xstate_statemachine_init___"))
      { ({} : St) with status := "running", ctx := m.ctx0 } = s1
    cases h1 : s1.err with
    | some e => left; simp [h1]
    | none =>
      simp only [h1, Option.isSome_none, Bool.false_eq_true, if_false]
      have hl : RunP m s1 := by
        refine ⟨?_, ?_⟩
        · rw [← hs1]
          exact initialEntry_legal _ (hooksAsyncStart_ok u m) .async m _ hwf hi hk _ rfl (by rw [hs1]; exact h1)
        · rw [← hs1, enterFold_hist _ (hooksAsyncStart_traceOK u m)]; exact histAll_nil m
      have ht := (transientLoop_equiv' (hooksAsyncStart_ok u m) (hooksAsyncStart_perm u m) hP0 m.maxIterations
        (St.equiv.refl m s1) hl).2
      split
      · rename_i herr
        left
        cases hh : (transientLoop (hooksAsyncStart u m) Flavor.async m u m.maxIterations s1).err with
        | none => simp [hh] at herr
        | some _ => simp [hh]
      · right; exact (asyncDrain_equiv hP _ (St.equiv.refl m _) ht).2

/-- **every state a run reaches satisfies the invariant** (C01 + C11 for whole runs, history targets
    included): `start()` did not refuse the machine, then any commands -/
theorem runP_run (fl : Flavor) (m : Machine) (u : UEnv) (hwf : WF m.root) (hi : InitOK m.root)
    (hk : m.root.kind ≠ .history) (hsel : SelSoundH m) (hd : MDot m) (hstart : (start fl m u {}).err = none)
    (evs : List Ev) : RunP m (evs.foldl (cmdO fl m u) (start fl m u {})) := by
  have h0 : RunP m (start fl m u {}) := by
    rcases start_runP fl m u hwf hi hk hsel hd with h | h
    · exact absurd hstart h
    · exact h
  exact (run_equiv fl (runInv_legal fl m u hwf hi hsel hd) evs (SnapEquiv.of_equiv (St.equiv.refl m _)) h0).2

-- ---------------------------------------------------------------------------------------------
-- the history component through whole commands: any property of the history that `recordHistory`
-- preserves is an invariant of every run of either engine, from `start()` on, unconditionally
-- ---------------------------------------------------------------------------------------------
section histinv
variable {m : Machine} {Q : List (Path × List Path) → Prop}

/-- `Q` is kept by `_record_history` -/
def RecClosed (m : Machine) (Q : List (Path × List Path) → Prop) : Prop :=
  ∀ (ex : List Path) (s : St), Q s.hist → Q (recordHistory m ex s).hist

theorem execute_histQ (hQ : RecClosed m Q) (h : Hooks) (htr : HooksTraceOK h) (fl : Flavor) (ev : Ev) (pl : Plan)
    (s : St) (hs : Q s.hist) : Q (execute h fl m ev pl s).hist := by
  rcases execute_hist_cases h htr fl m ev pl s with hh | ⟨_, hh⟩
  · rw [hh]; exact hs
  · rw [hh]; exact hQ _ s hs

theorem processEvent_histQ (hQ : RecClosed m Q) (h : Hooks) (htr : HooksTraceOK h) (fl : Flavor) (u : UEnv) (ev : Ev)
    (s : St) (hs : Q s.hist) : Q (processEvent h fl m u ev s).hist := by
  unfold processEvent
  split
  · rw [fail_hist]; exact hs
  · rename_i sel _
    generalize (decide (sel.length > 1)) = b
    have : ∀ (l : List Cand) (s : St), Q s.hist →
        Q (l.foldl (fun s c => if s.err.isSome then s else if finished s.status then s
          else if b && !(s.cfg.contains c.src) then s
          else execute h fl m ev (planTransition m s.cfg s.hist c) s) s).hist := by
      intro l
      induction l with
      | nil => intro s hs; exact hs
      | cons c l ih =>
        intro s hs
        simp only [List.foldl_cons]
        apply ih
        split
        · exact hs
        · split
          · exact hs
          · split
            · exact hs
            · exact execute_histQ hQ h htr fl ev _ s hs
    exact this sel s hs

theorem transientLoop_histQ (hQ : RecClosed m Q) (h : Hooks) (htr : HooksTraceOK h) (fl : Flavor) (u : UEnv) :
    ∀ (fuel : Nat) (s : St), Q s.hist → Q (transientLoop h fl m u fuel s).hist := by
  intro fuel
  induction fuel with
  | zero => intro s hs; exact hs
  | succ f ih =>
    intro s hs
    unfold transientLoop
    split
    · exact hs
    · split
      · rw [fail_hist]; exact hs
      · split
        · exact ih _ (processEvent_histQ hQ h htr fl u _ s hs)
        · exact hs

theorem drainLoop_histQ (hQ : RecClosed m Q) (u : UEnv) :
    ∀ (fuel c : Nat) (s : St), Q s.hist → Q (drainLoop m u fuel c s).hist := by
  apply drainLoop_ind m u (fun s => Q s.hist)
  · intro s q hs; exact hs
  · intro s e hs
    have h1 : Q (emit ("#recv:" ++ e.type) s).hist := hs
    have h2 := processEvent_histQ hQ (hooksFlagged u m) (hooksFlagged_traceOK u m) .sync u e _ h1
    exact transientLoop_histQ hQ (hooksFlagged u m) (hooksFlagged_traceOK u m) .sync u m.maxIterations _ h2

theorem syncSend_histQ (hQ : RecClosed m Q) (u : UEnv) (e : Ev) (s : St) (hs : Q s.hist) :
    Q (syncSend m u e s).hist := by
  unfold syncSend sndUnflagged drainFlagged
  split
  · exact drainLoop_histQ hQ u _ _ _ hs
  · exact hs

theorem asyncProcess_histQ (hQ : RecClosed m Q) (u : UEnv) (e : Ev) (s : St) (hs : Q s.hist) :
    Q (asyncProcess m u e s).hist := by
  unfold asyncProcess
  have h1 : Q (emit ("#recv:" ++ e.type) s).hist := hs
  have h2 := processEvent_histQ hQ (hooksAsync u m) (hooksAsync_traceOK u m) .async u e _ h1
  have h3 := transientLoop_histQ hQ (hooksAsync u m) (hooksAsync_traceOK u m) .async u m.maxIterations _ h2
  simp only
  unfold asyncChainEnd
  split
  · split <;> exact h3
  · split <;> exact h3

theorem asyncStep_histQ (hQ : RecClosed m Q) (u : UEnv) (q : QEv) (s : St) (hs : Q s.hist) :
    Q (asyncStep m u q s).hist := by
  unfold asyncStep
  split
  · split
    · exact hs
    · exact asyncProcess_histQ hQ u q.ev (asyncPurge s) hs
  · exact asyncProcess_histQ hQ u q.ev s hs

theorem asyncDrain_histQ (hQ : RecClosed m Q) (u : UEnv) :
    ∀ (fuel : Nat) (s : St), Q s.hist → Q (asyncDrain m u fuel s).hist := by
  intro fuel
  induction fuel with
  | zero => intro s hs; simp only [asyncDrain]; split <;> exact hs
  | succ f ih =>
    intro s hs
    unfold asyncDrain
    split
    · exact hs
    · split
      · exact hs
      · exact ih _ (asyncStep_histQ hQ u _ _ hs)

theorem asyncSend_histQ (hQ : RecClosed m Q) (u : UEnv) (e : Ev) (s : St) (hs : Q s.hist) :
    Q (asyncSend m u e s).hist := by
  unfold asyncSend
  split
  · exact asyncDrain_histQ hQ u _ _ hs
  · exact hs

theorem cmdO_histQ (hQ : RecClosed m Q) (fl : Flavor) (u : UEnv) (s : St) (e : Ev) (hs : Q s.hist) :
    Q (cmdO fl m u s e).hist := by
  unfold cmdO send
  cases fl with
  | sync => exact syncSend_histQ hQ u e _ hs
  | async => exact asyncSend_histQ hQ u e _ hs

theorem syncTail_histQ (hQ : RecClosed m Q) (u : UEnv) (x : St) (hx : Q x.hist) :
    Q (if x.err.isSome then x else
        if (transientLoop (hooksFlagged u m) .sync m u m.maxIterations x).err.isSome
        then transientLoop (hooksFlagged u m) .sync m u m.maxIterations x
        else drainFlagged m u (transientLoop (hooksFlagged u m) .sync m u m.maxIterations x)).hist := by
  have h3 := transientLoop_histQ hQ (hooksFlagged u m) (hooksFlagged_traceOK u m) .sync u m.maxIterations x hx
  split
  · exact hx
  · split
    · exact h3
    · exact drainLoop_histQ hQ u _ _ _ h3

theorem asyncTail_histQ (hQ : RecClosed m Q) (u : UEnv) (x : St) (hx : Q x.hist) :
    Q (if x.err.isSome then { x with status := "stopped" } else
        if (transientLoop (hooksAsyncStart u m) .async m u m.maxIterations x).err.isSome
        then { transientLoop (hooksAsyncStart u m) .async m u m.maxIterations x with status := "stopped" }
        else asyncDrain m u (asyncFuel m) (transientLoop (hooksAsyncStart u m) .async m u m.maxIterations x)).hist := by
  have h3 := transientLoop_histQ hQ (hooksAsyncStart u m) (hooksAsyncStart_traceOK u m) .async u m.maxIterations x hx
  split
  · exact hx
  · split
    · exact h3
    · exact asyncDrain_histQ hQ u _ _ h3

theorem start_histQ (hQ : RecClosed m Q) (fl : Flavor) (u : UEnv) (s : St) (hs : Q s.hist) :
    Q (start fl m u s).hist := by
  cases fl with
  | sync =>
    show Q (syncStart m u s).hist
    have h1 : Q ((startEntries m).1.foldl (enterOne (hooksFlagged u m) .sync m none)
        { s with status := "running", ctx := m.ctx0 }).hist := by
      rw [enterFold_hist _ (hooksFlagged_traceOK u m)]; exact hs
    unfold syncStart
    simp only
    cases (startEntries m).2 with
    | none => exact syncTail_histQ hQ u _ h1
    | some e => exact syncTail_histQ hQ u _ (by rw [fail_hist]; exact h1)
  | async =>
    show Q (asyncStart m u s).hist
    have h1 : Q ((startEntries m).1.foldl (enterOne (hooksAsyncStart u m) .async m (some "___xstate_statemachine_init___"))
        { s with status := "running", ctx := m.ctx0 }).hist := by
      rw [enterFold_hist _ (hooksAsyncStart_traceOK u m)]; exact hs
    rw [asyncStart_unfold]
    simp only
    cases (startEntries m).2 with
    | none => exact asyncTail_histQ hQ u _ h1
    | some e => exact asyncTail_histQ hQ u _ (by rw [fail_hist]; exact h1)

/-- **every state a run reaches**: `start()` from the fresh interpreter, then any commands -/
theorem run_histQ (hQ : RecClosed m Q) (hnil : Q []) (fl : Flavor) (u : UEnv) (evs : List Ev) :
    Q (evs.foldl (cmdO fl m u) (start fl m u {})).hist := by
  have h0 : Q (start fl m u {}).hist := start_histQ hQ fl u {} hnil
  generalize start fl m u {} = s0 at h0
  induction evs generalizing s0 with
  | nil => exact h0
  | cons e evs ih => simp only [List.foldl_cons]; exact ih _ (cmdO_histQ hQ fl u s0 e h0)
end histinv

/-- every remembered list is in the (depth, id) order `_record_history` produces -/
def DISorted (m : Machine) (h : List (Path × List Path)) : Prop :=
  ∀ kv ∈ h, kv.2.Pairwise (fun a b => depthIdLe m a b = true)

theorem recStep_diSorted (m : Machine) (cfg : List Path) (hist : List (Path × List Path)) (st : Path)
    (h : DISorted m hist) : DISorted m (recStep m cfg hist st) := by
  unfold recStep
  split
  · exact h
  · split
    · split
      · exact h
      · intro kv hkv
        rcases List.mem_append.1 hkv with h1 | h1
        · exact h kv (List.mem_filter.1 h1).1
        · simp only [List.mem_singleton] at h1
          rw [h1]; exact recRem_sorted m cfg st
    · exact h

/-- `_record_history` only ever stores lists in (depth, id) order -/
theorem diSorted_recClosed (m : Machine) : RecClosed m (DISorted m) := by
  intro ex s hs
  rw [recordHistory_hist]
  generalize (ex.flatMap chainUp).eraseDups = cands
  generalize s.hist = hist at hs
  induction cands generalizing hist with
  | nil => exact hs
  | cons c cs ih => simp only [List.foldl_cons]; exact ih _ (recStep_diSorted m s.cfg hist c hs)

/-- hence in every state a run reaches every remembered list is in (depth, id) order -/
theorem diSorted_run (m : Machine) (fl : Flavor) (u : UEnv) (evs : List Ev) :
    DISorted m (evs.foldl (cmdO fl m u) (start fl m u {})).hist :=
  run_histQ (diSorted_recClosed m) (fun _ h => by cases h) fl u evs


end Snap
end XSM
