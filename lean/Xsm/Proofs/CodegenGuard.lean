import Xsm.Model.CodegenGuard
import Xsm.Proofs.Guard
/-!
Guard fragment of the code generator's data round trip (`Xsm/Model/CodegenGuard.lean`):
`parseGuard (renderGuard (irGuard j)) = parseGuard j` on the fragment the generator handles, and
the concrete guards on which it fails (finding F16).
-/
namespace XSM.Codegen
open XSM

theorem attach_filterMap_val {α β : Type} (f : α → Option β) (l : List α) :
    l.attach.filterMap (fun c => f c.val) = l.filterMap f := by
  have := List.filterMap_subtype (l := l.attach) (f := fun c => f c.val) (g := f) (fun _ _ => rfl)
  rw [this, List.unattach_attach]

/-- the defining equation of `irGuard` on objects with a string `type`, without the termination bookkeeping -/
theorem irGuard_obj (kvs : List (String × J)) (ty : String) (h : (J.obj kvs).get? "type" = some (.str ty)) :
    irGuard (.obj kvs) = some (.mk ty ((nestedGuards (.obj kvs)).filterMap irGuard) (dictParams (.obj kvs))) := by
  rw [irGuard.eq_2]
  simp only [attach_filterMap_val, h]

theorem irGuard_str (s : String) : irGuard (.str s) = some (.mk s [] none) := by
  rw [irGuard.eq_1]

theorem renderGuards_ne_nil {gs : List GuardIR} (h : gs ≠ []) : renderGuards gs ≠ [] := by
  cases gs with
  | nil => exact absurd rfl h
  | cons g gs => simp [renderGuards]

theorem renderGuard_composite (ty : String) (kids : List GuardIR) (p : Option J) (h : kids ≠ []) :
    renderGuard (.mk ty kids p) = opJ ty [("params", .obj [("guards", .arr (renderGuards kids))])] := by
  cases kids with
  | nil => exact absurd rfl h
  | cons k ks => simp [renderGuard, opJ]

theorem renderGuard_leaf (ty : String) (p : Option J) : renderGuard (.mk ty [] p) = .str ty := by
  simp [renderGuard]

/-- the guards on which the generator's IR and emitter are faithful: names, and `and`/`or`/`not`
    whose operands are written under `params.guards` (recursively) -/
inductive RepGuard : J → Prop
  | name (s : String) : RepGuard (.str s)
  | comp (op : String) (cs : List J) : IsCompositeOp op → cs ≠ [] → (∀ c, c ∈ cs → RepGuard c) →
      RepGuard (opJ op [("params", .obj [("guards", .arr cs)])])

theorem operands_roundtrip (cs : List J)
    (h : ∀ c, c ∈ cs → ∃ g, irGuard c = some g ∧ parseGuard (renderGuard g) = parseGuard c) :
    (renderGuards (cs.filterMap irGuard)).mapM parseGuard = cs.mapM parseGuard ∧
    (cs.filterMap irGuard).length = cs.length := by
  induction cs with
  | nil => simp [renderGuards]
  | cons c cs ih =>
    obtain ⟨g, hg, hp⟩ := h c (List.mem_cons_self ..)
    have ih' := ih (fun c' hc' => h c' (List.mem_cons_of_mem _ hc'))
    rw [List.filterMap_cons, hg]
    simp only [renderGuards, List.mapM_cons, hp, ih'.1, List.length_cons, ih'.2]
    exact ⟨trivial, trivial⟩

theorem nestedGuards_params_guards (op : String) (cs : List J) :
    nestedGuards (opJ op [("params", .obj [("guards", .arr cs)])]) = cs := by
  simp [nestedGuards, opJ, J.get?, ensureList]

/-- **guard round trip on the representable fragment** -/
theorem guard_roundtrip_rep (j : J) (h : RepGuard j) :
    ∃ g, irGuard j = some g ∧ parseGuard (renderGuard g) = parseGuard j := by
  induction h with
  | name s => exact ⟨_, irGuard_str s, by rw [renderGuard_leaf]⟩
  | comp op cs hop hcs _ ih =>
    have hro := operands_roundtrip cs ih
    have hkids : cs.filterMap irGuard ≠ [] := by
      intro e
      have := hro.2
      rw [e] at this
      exact hcs (List.length_eq_zero_iff.1 this.symm)
    refine ⟨.mk op (cs.filterMap irGuard) (dictParams (opJ op [("params", .obj [("guards", .arr cs)])])), ?_, ?_⟩
    · have : opJ op [("params", .obj [("guards", .arr cs)])] = .obj (("type", .str op) :: [("params", .obj [("guards", .arr cs)])]) := rfl
      rw [this, irGuard_obj _ op (by simp [J.get?])]
      have hn := nestedGuards_params_guards op cs
      rw [this] at hn
      rw [hn]
    · rw [renderGuard_composite _ _ _ hkids]
      rw [parseGuard_opJ op hop, guardChildrenJ_params_guards op _ (renderGuards_ne_nil hkids)]
      rw [parseGuard_opJ op hop, guardChildrenJ_params_guards op cs hcs]
      simp only [parseOperands, hro.1]

end XSM.Codegen

namespace XSM.Codegen
open XSM

/-- **what the generator does to every guard object that has no `params.guards`:** it is emitted as its bare
    type name — `params`, and operands written under `children` / `params.children` / `params.guard`, are gone -/
theorem render_bare_name (kvs : List (String × J)) (ty : String)
    (hty : (J.obj kvs).get? "type" = some (.str ty)) (hn : nestedGuards (.obj kvs) = []) :
    ∃ g, irGuard (.obj kvs) = some g ∧ renderGuard g = .str ty := by
  refine ⟨_, irGuard_obj kvs ty hty, ?_⟩
  rw [hn]
  exact renderGuard_leaf ty _

/-- a parameterised user guard -/
def exParamGuard : J := .obj [("type", .str "inRange"), ("params", .obj [("min", .num 1)])]
/-- `not` with its operand under `children` -/
def exChildrenGuard : J := opJ "not" [("children", .arr [.str "busy"])]
/-- the built-in state test -/
def exStateInGuard : J := .obj [("type", .str "stateIn"), ("params", .obj [("state", .str "#m.a")])]

theorem exParamGuard_source : parseGuard exParamGuard = .ok (.named "inRange" (some (.obj [("min", .num 1)]))) := by
  unfold exParamGuard
  rw [parseGuard_obj]
  simp [guardTypeOf, J.get?, guardChildrenJ, truthyList, paramsOperands, finishGuard, bind, Except.bind, pure, Except.pure]

theorem exParamGuard_generated :
    ∃ g, irGuard exParamGuard = some g ∧ parseGuard (renderGuard g) = .ok (.named "inRange" none) := by
  obtain ⟨g, hg, hr⟩ := render_bare_name [("type", .str "inRange"), ("params", .obj [("min", .num 1)])] "inRange"
    (by simp [J.get?]) (by simp [nestedGuards, J.get?])
  refine ⟨g, hg, ?_⟩
  rw [hr, parseGuard.eq_1]
  simp [Tables.stateInGuardType]

theorem exChildrenGuard_source : parseGuard exChildrenGuard = .ok (.not (.named "busy" none)) := by
  unfold exChildrenGuard
  rw [parseGuard_opJ "not" (by simp [IsCompositeOp]), guardChildrenJ_children "not" _ (by simp)]
  apply parseOperands_not
  rw [parseGuard.eq_1]; simp [Tables.stateInGuardType]

theorem exChildrenGuard_generated :
    ∃ g, irGuard exChildrenGuard = some g ∧ parseGuard (renderGuard g) = .ok (.named "not" none) := by
  obtain ⟨g, hg, hr⟩ := render_bare_name [("type", .str "not"), ("children", .arr [.str "busy"])] "not"
    (by simp [J.get?]) (by simp [nestedGuards, J.get?])
  refine ⟨g, hg, ?_⟩
  rw [hr, parseGuard.eq_1]
  simp [Tables.stateInGuardType]

theorem exStateInGuard_source : parseGuard exStateInGuard = .ok (.stateIn (some (.obj [("state", .str "#m.a")]))) := by
  unfold exStateInGuard
  rw [parseGuard_obj]
  simp [guardTypeOf, J.get?, guardChildrenJ, truthyList, paramsOperands, finishGuard, bind, Except.bind, pure, Except.pure]

theorem exStateInGuard_generated :
    ∃ g, irGuard exStateInGuard = some g ∧ parseGuard (renderGuard g) = .ok (.stateIn none) := by
  obtain ⟨g, hg, hr⟩ := render_bare_name [("type", .str "stateIn"), ("params", .obj [("state", .str "#m.a")])] "stateIn"
    (by simp [J.get?]) (by simp [nestedGuards, J.get?])
  refine ⟨g, hg, ?_⟩
  rw [hr, parseGuard.eq_1]
  simp [Tables.stateInGuardType]

end XSM.Codegen
