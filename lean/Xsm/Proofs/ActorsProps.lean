import Xsm.Proofs.ActorsReg
/-!
Proofs of the operation-level statements of C15 (spawn, ordered delivery, cancel, supersede, stopChild).
-/
namespace XSM.Actors

/-! ### spawn -/

theorem register_actors (s : Sys) (sid : Option String) (u : Nat) : (register s sid u).actors = s.actors := by
  unfold register
  cases sid with
  | none => rfl
  | some x =>
    simp only
    cases dlookup x s.registry with
    | none => rfl
    | some v => simp only; split <;> rfl

theorem register_lookup (s : Sys) (x : String) (u : Nat) : dlookup x (register s (some x) u).registry = some u := by
  unfold register
  simp only
  cases dlookup x s.registry with
  | none => exact dlookup_dinsert_self x u _
  | some v => simp only; split <;> exact dlookup_dinsert_self x u _

theorem spawnCore_spec (s : Sys) (p : Nat) (key : String) (eid sid : Option String) (b : Bool) (hp : p < s.actors.length) :
    (spawnCore s p key eid sid b).actors.length = s.actors.length + 1 ∧
    (spawnCore s p key eid sid b).get s.actors.length = newActor s p (mkId (s.get p).id key eid s.fresh) key (startedAtSpawn s b) ∧
    dlookup (mkId (s.get p).id key eid s.fresh) ((spawnCore s p key eid sid b).get p).kids = some s.actors.length ∧
    dlookup (mkId (s.get p).id key eid s.fresh) ((spawnCore s p key eid sid b).get p).sources = some key ∧
    (∀ x, sid = some x → dlookup x (spawnCore s p key eid sid b).registry = some s.actors.length) ∧
    (∀ v, v ≠ p → v < s.actors.length → (spawnCore s p key eid sid b).get v = s.get v) ∧
    (∀ v, v < s.actors.length → ((spawnCore s p key eid sid b).get v).status = (s.get v).status ∧
        ((spawnCore s p key eid sid b).get v).received = (s.get v).received ∧
        ((spawnCore s p key eid sid b).get v).inbox = (s.get v).inbox) := by
  unfold spawnCore linkChild
  generalize hc : newActor s p (mkId (s.get p).id key eid s.fresh) key (startedAtSpawn s b) = child
  generalize hcid : mkId (s.get p).id key eid s.fresh = cid
  generalize ht : register (addActor s child (freshAfter s eid)) sid s.actors.length = t
  have hta : t.actors = s.actors ++ [child] := by rw [← ht, register_actors]; rfl
  have hlen : t.actors.length = s.actors.length + 1 := by rw [hta]; simp
  have hpt : p < t.actors.length := by omega
  have hgt : ∀ v, v < s.actors.length → t.get v = s.get v := by
    intro v hv; simp [Sys.get, hta, List.getElem?_append_left hv]
  have hgn : t.get s.actors.length = child := by simp [Sys.get, hta]
  refine ⟨by rw [n_upd]; exact hlen, ?_, ?_, ?_, ?_, ?_, ?_⟩
  · rw [get_upd_ne t _ (by omega), hgn]
  · rw [get_upd_self t _ hpt]; exact dlookup_dinsert_self _ _ _
  · rw [get_upd_self t _ hpt]; exact dlookup_dinsert_self _ _ _
  · intro x hx; subst hx; show dlookup x t.registry = _; rw [← ht]; exact register_lookup _ x _
  · intro v hv hlt; rw [get_upd_ne t _ hv, hgt v hlt]
  · intro v hlt
    rw [← hgt v hlt]
    exact ⟨get_upd_proj (·.status) t p v _ (fun _ => rfl), get_upd_proj (·.received) t p v _ (fun _ => rfl),
      get_upd_proj (·.inbox) t p v _ (fun _ => rfl)⟩

theorem spawnFresh_actors (s : Sys) (p : Nat) (key : String) (eid sid : Option String) (b : Bool) :
    (spawnFresh s p key eid sid b).actors = (spawnCore s p key eid sid b).actors ∧
    (spawnFresh s p key eid sid b).registry = (spawnCore s p key eid sid b).registry := by
  unfold spawnFresh
  split
  · exact ⟨rfl, rfl⟩
  · exact ⟨rfl, rfl⟩

/-! ### what `stop()` never touches: the engine, the id counter, the number of actors, every id and parent link -/

def Static (s s' : Sys) : Prop :=
  s'.flavor = s.flavor ∧ s'.eager = s.eager ∧ s'.fresh = s.fresh ∧ s'.actors.length = s.actors.length ∧
  ∀ u, (s'.get u).id = (s.get u).id ∧ (s'.get u).parent = (s.get u).parent

theorem Static.refl (s : Sys) : Static s s := ⟨rfl, rfl, rfl, rfl, fun _ => ⟨rfl, rfl⟩⟩

theorem Static.trans {a b c : Sys} (h1 : Static a b) (h2 : Static b c) : Static a c :=
  ⟨h2.1.trans h1.1, h2.2.1.trans h1.2.1, h2.2.2.1.trans h1.2.2.1, h2.2.2.2.1.trans h1.2.2.2.1,
    fun u => ⟨(h2.2.2.2.2 u).1.trans (h1.2.2.2.2 u).1, (h2.2.2.2.2 u).2.trans (h1.2.2.2.2 u).2⟩⟩

theorem static_upd (s : Sys) (u : Nat) (f : Actor → Actor) (h : ∀ a, (f a).id = a.id) (h' : ∀ a, (f a).parent = a.parent) :
    Static s (s.upd u f) :=
  ⟨rfl, rfl, rfl, n_upd s u f, fun v => ⟨get_upd_proj (·.id) s u v f h, get_upd_proj (·.parent) s u v f h'⟩⟩

theorem static_of_actors_eq {s s' : Sys} (h1 : s'.flavor = s.flavor) (h2 : s'.eager = s.eager) (h3 : s'.fresh = s.fresh)
    (ha : s'.actors = s.actors) : Static s s' :=
  ⟨h1, h2, h3, by rw [ha], fun u => by rw [get_congr ha u]; exact ⟨rfl, rfl⟩⟩

theorem static_drainAll (busy : Option Nat) (s : Sys) : Static s (drainAll busy s) := by
  refine ⟨rfl, rfl, rfl, n_drainAll busy s, fun u => ?_⟩
  rw [get_drainAll]; unfold drainActor
  split
  · exact ⟨rfl, rfl⟩
  · split
    · exact ⟨rfl, rfl⟩
    · split <;> exact ⟨rfl, rfl⟩

theorem static_foldl {β : Type} (F : Sys → β → Sys) (hF : ∀ s x, Static s (F s x)) (l : List β) (s : Sys) :
    Static s (l.foldl F s) := by
  induction l generalizing s with
  | nil => exact Static.refl s
  | cons x r ih => exact (hF s x).trans (ih (F s x))

theorem static_stopTail (busy : Option Nat) (s : Sys) (x : Nat) : Static s (stopTail busy s x) := by
  unfold stopTail
  split
  · exact (static_upd s x (fun a => { a with sends := [] }) (fun _ => rfl) (fun _ => rfl)).trans (static_of_actors_eq rfl rfl rfl rfl)
  · have h1 : Static s (stopTasks busy s x) := by
      unfold stopTasks
      split
      · exact Static.trans (b := killTasks s x) (static_of_actors_eq rfl rfl rfl rfl) (static_drainAll busy _)
      · exact Static.refl s
    refine h1.trans ?_
    unfold stopLoop
    split
    · exact (static_upd _ x (fun a => { a with alive := false }) (fun _ => rfl) (fun _ => rfl)).trans (static_drainAll busy _)
    · exact Static.refl _

theorem static_stopA (busy : Option Nat) (fuel : Nat) (s : Sys) (x : Nat) : Static s (stopA busy fuel s x) := by
  induction fuel generalizing s x with
  | zero => exact Static.refl s
  | succ fuel ih =>
    unfold stopA
    split
    · have h1 : Static s (unregister (markStopped s x) x) :=
        (static_upd s x (fun a => { a with status := .stopped }) (fun _ => rfl) (fun _ => rfl)).trans
          (static_of_actors_eq (s' := unregister (markStopped s x) x) rfl rfl rfl rfl)
      have h2 := static_foldl (fun acc (kv : String × Nat) => stopA busy fuel acc kv.2) (fun acc kv => ih acc kv.2)
        (s.get x).kids (unregister (markStopped s x) x)
      exact ((h1.trans h2).trans (static_upd _ x (fun a => { a with kids := [] }) (fun _ => rfl) (fun _ => rfl))).trans (static_stopTail busy _ x)
    · exact Static.refl s

theorem static_evict (busy : Option Nat) (s : Sys) (p : Nat) (cid : String) : Static s (evict busy s p cid) := by
  unfold evict
  split
  · exact (static_upd s p (fun a => { a with kids := derase cid a.kids }) (fun _ => rfl) (fun _ => rfl)).trans (static_stopA busy _ _ _)
  · exact Static.refl s

theorem evict_free (busy : Option Nat) (s : Sys) (p : Nat) (cid : String) (h : dlookup cid (s.get p).kids = none) :
    evict busy s p cid = s := by
  unfold evict; rw [h]

/-- a spawn is a spawn on a free id in the state the eviction leaves, which has the same ids and counters -/
theorem spawn_eq (busy : Option Nat) (s : Sys) (p : Nat) (key : String) (eid sid : Option String) (b : Bool) :
    ∃ e : Sys, Static s e ∧ e = evict busy s p (mkId (s.get p).id key eid s.fresh) ∧
      spawn busy s p key eid sid b = spawnFresh e p key eid sid b ∧
      mkId (e.get p).id key eid e.fresh = mkId (s.get p).id key eid s.fresh ∧ startedAtSpawn e b = startedAtSpawn s b := by
  have hst := static_evict busy s p (mkId (s.get p).id key eid s.fresh)
  refine ⟨_, hst, rfl, rfl, ?_, ?_⟩
  · rw [(hst.2.2.2.2 p).1, hst.2.2.1]
  · unfold startedAtSpawn; rw [hst.1, hst.2.1]

/-! ### ordered delivery -/

def deliverAll (s : Sys) (t : Nat) (evs : List String) : Sys := evs.foldl (fun s e => deliverNow s t e) s

theorem deliverAll_frame (s : Sys) (t : Nat) (evs : List String) (v : Nat) (h : v ≠ t) : (deliverAll s t evs).get v = s.get v := by
  unfold deliverAll
  induction evs generalizing s with
  | nil => rfl
  | cons e r ih => simp only [List.foldl_cons]; rw [ih, deliverNow_frame s t e v h]

theorem deliverAll_sync (s : Sys) (t : Nat) (evs : List String) (hfl : s.flavor = .sync) (hr : (s.get t).status = .running)
    (hb : (s.get t).busy = false) (ht : t < s.actors.length) :
    ((deliverAll s t evs).get t).received = (s.get t).received ++ evs ∧ ((deliverAll s t evs).get t).inbox = (s.get t).inbox := by
  unfold deliverAll
  induction evs generalizing s with
  | nil => simp
  | cons e r ih =>
    simp only [List.foldl_cons]
    have hd : deliverNow s t e = s.upd t (fun a => { a with received := a.received ++ [e] }) := by
      unfold deliverNow; simp [hfl, hr, hb]
    rw [hd]
    have hg := get_upd_self s (fun a => { a with received := a.received ++ [e] }) ht
    have ⟨i1, i2⟩ := ih (s.upd t (fun a => { a with received := a.received ++ [e] })) hfl (by rw [hg]; exact hr) (by rw [hg]; exact hb)
      (by rw [n_upd]; exact ht)
    rw [i1, i2, hg]
    simp

theorem deliverAll_async (s : Sys) (t : Nat) (evs : List String) (hfl : s.flavor = .async) (hr : (s.get t).status ≠ .stopped)
    (ht : t < s.actors.length) :
    ((deliverAll s t evs).get t).inbox = (s.get t).inbox ++ evs ∧ ((deliverAll s t evs).get t).received = (s.get t).received ∧
    ((deliverAll s t evs).get t).status = (s.get t).status ∧ ((deliverAll s t evs).get t).alive = (s.get t).alive := by
  unfold deliverAll
  induction evs generalizing s with
  | nil => simp
  | cons e r ih =>
    simp only [List.foldl_cons]
    have hd : deliverNow s t e = s.upd t (fun a => { a with inbox := a.inbox ++ [e] }) := by
      unfold deliverNow; simp [hfl, hr]
    rw [hd]
    have hg := get_upd_self s (fun a => { a with inbox := a.inbox ++ [e] }) ht
    have ⟨i1, i2, i3, i4⟩ := ih (s.upd t (fun a => { a with inbox := a.inbox ++ [e] })) hfl (by rw [hg]; exact hr) (by rw [n_upd]; exact ht)
    rw [i1, i2, i3, i4, hg]
    simp

/-- a list of undelayed `sendTo` actions to one resolvable target is the list of deliveries -/
theorem runActions_sendTo (busy : Option Nat) (cur : String) (p : Nat) (s : Sys) (tgt : String) (t : Nat) (evs : List String)
    (h : resolve s p tgt = .found t) :
    runActions busy cur p s (evs.map (fun e => Action.sendTo tgt e 0 none)) = deliverAll s t evs := by
  unfold runActions deliverAll
  induction evs generalizing s with
  | nil => rfl
  | cons e r ih =>
    simp only [List.map_cons, List.foldl_cons]
    have h1 : runAction busy cur p s (Action.sendTo tgt e 0 none) = deliverNow s t e := by
      simp [runAction, h, deliver]
    rw [h1]
    exact ih (deliverNow s t e) (by rw [resolve_deliverNow]; exact h)

/-! ### cancel / supersede -/

theorem cancelSend_spec (s : Sys) (p : Nat) (k : String) (j : Nat) (h : dlookup k (s.get p).sends = some j) :
    (timerAt (cancelSend s p k) j).live = false ∧ (∀ i, i ≠ j → timerAt (cancelSend s p k) i = timerAt s i) ∧
    (cancelSend s p k).timers.length = s.timers.length := by
  unfold cancelSend
  simp only [h]
  refine ⟨?_, fun i hi => ?_, ?_⟩
  · rw [timerAt_killTimer]; simp
  · rw [timerAt_killTimer]; simp [hi, timerAt_upd]
  · rw [timers_len_killTimer]; rfl

theorem cancelSend_sends (s : Sys) (p : Nat) (k : String) (hp : p < s.actors.length) :
    dlookup k ((cancelSend s p k).get p).sends = none := by
  unfold cancelSend
  split
  · show dlookup k ((s.upd p _).get p).sends = none
    rw [get_upd_self s _ hp]; exact dlookup_derase_self k _
  · next h => exact h

theorem cancelSend_noop (s : Sys) (p : Nat) (k : String) (h : dlookup k (s.get p).sends = none) : cancelSend s p k = s := by
  unfold cancelSend; simp [h]

theorem timerAt_addTimer_lt (s : Sys) (tm : Timer) (i : Nat) (h : i < s.timers.length) : timerAt (addTimer s tm) i = timerAt s i := by
  simp [timerAt, addTimer, List.getElem?_append_left h]

theorem timerAt_addTimer_new (s : Sys) (tm : Timer) : timerAt (addTimer s tm) s.timers.length = tm := by
  simp [timerAt, addTimer]

theorem supersede_spec (s : Sys) (p t : Nat) (ev : String) (delay : Nat) (k : String) (j : Nat) (hd : delay ≠ 0)
    (hj : dlookup k (s.get p).sends = some j) (hjl : j < s.timers.length) (hp : p < s.actors.length) :
    (timerAt (deliver s p t ev delay (some k)) j).live = false ∧
    timerAt (deliver s p t ev delay (some k)) s.timers.length = { owner := p, target := t, ev := ev, due := s.now + delay, live := true } ∧
    (∀ i, i < s.timers.length → i ≠ j → timerAt (deliver s p t ev delay (some k)) i = timerAt s i) ∧
    dlookup k ((deliver s p t ev delay (some k)).get p).sends = some s.timers.length := by
  unfold deliver schedule setSend
  simp only [hd, if_false]
  have hg : (addTimer s { owner := p, target := t, ev := ev, due := s.now + delay, live := true }).get p = s.get p := rfl
  rw [hg, hj]
  simp only
  refine ⟨?_, ?_, fun i hi hne => ?_, ?_⟩
  · rw [timerAt_upd, timerAt_killTimer]; simp
  · rw [timerAt_upd, timerAt_killTimer]
    have : s.timers.length ≠ j := by omega
    simp only [this, if_false]; exact timerAt_addTimer_new s _
  · rw [timerAt_upd, timerAt_killTimer]; simp only [hne, if_false]; exact timerAt_addTimer_lt s _ i hi
  · have hp' : p < (killTimer (addTimer s { owner := p, target := t, ev := ev, due := s.now + delay, live := true }) j).actors.length := hp
    rw [get_upd_self _ _ hp']; exact dlookup_dinsert_self _ _ _

theorem fresh_send_spec (s : Sys) (p t : Nat) (ev : String) (delay : Nat) (k : String) (hd : delay ≠ 0)
    (hj : dlookup k (s.get p).sends = none) :
    (∀ i, i < s.timers.length → timerAt (deliver s p t ev delay (some k)) i = timerAt s i) ∧
    timerAt (deliver s p t ev delay (some k)) s.timers.length = { owner := p, target := t, ev := ev, due := s.now + delay, live := true } := by
  unfold deliver schedule setSend
  simp only [hd, if_false]
  have hg : (addTimer s { owner := p, target := t, ev := ev, due := s.now + delay, live := true }).get p = s.get p := rfl
  rw [hg, hj]
  simp only
  exact ⟨fun i hi => by rw [timerAt_upd]; exact timerAt_addTimer_lt s _ i hi, by rw [timerAt_upd]; exact timerAt_addTimer_new s _⟩

/-! ### stopChild -/

theorem unlinkChild_actors_len (s : Sys) (p x : Nat) : (unlinkChild s p x).actors.length = s.actors.length := by
  unfold unlinkChild; split
  · exact n_upd s p _
  · rfl

theorem unlinkChild_removed (s : Sys) (p x : Nat) (cid : String) (hp : p < s.actors.length)
    (h : (s.get p).kids.find? (fun kv => kv.2 = x) = some (cid, x)) :
    dlookup cid ((unlinkChild s p x).get p).kids = none ∧ dlookup cid ((unlinkChild s p x).get p).sources = none := by
  unfold unlinkChild
  simp only [h]
  rw [get_upd_self s _ hp]
  exact ⟨dlookup_derase_self cid _, dlookup_derase_self cid _⟩

theorem mem_derase {k : String} {l : List (String × α)} {x : String × α} (h : x ∈ derase k l) : x ∈ l := by
  unfold derase at h; exact (List.mem_filter.mp h).1

theorem unlinkChild_kids_sub (s : Sys) (p x v : Nat) : ∀ kv ∈ ((unlinkChild s p x).get v).kids, kv ∈ (s.get v).kids := by
  intro kv hkv
  unfold unlinkChild at hkv
  split at hkv
  · rw [get_upd] at hkv
    split at hkv
    · next hc => rw [hc.1]; exact mem_derase hkv
    · exact hkv
  · exact hkv

theorem unlinkChild_status (s : Sys) (p x v : Nat) : ((unlinkChild s p x).get v).status = (s.get v).status ∧
    ((unlinkChild s p x).get v).alive = (s.get v).alive := by
  unfold unlinkChild
  split
  · exact ⟨get_upd_proj (·.status) s p v _ (fun _ => rfl), get_upd_proj (·.alive) s p v _ (fun _ => rfl)⟩
  · exact ⟨rfl, rfl⟩

theorem unlinkChild_flavor (s : Sys) (p x : Nat) : (unlinkChild s p x).flavor = s.flavor := by
  unfold unlinkChild; split <;> rfl

theorem inv_unlinkChild {s : Sys} (p x : Nat) (hwf : WF s) (hset : Settled s) (htidy : Tidy s) :
    WF (unlinkChild s p x) ∧ Settled (unlinkChild s p x) ∧ Tidy (unlinkChild s p x) := by
  have hD : ∀ v, Dead (unlinkChild s p x) v ↔ Dead s v := by
    intro v; unfold Dead
    rw [(unlinkChild_status s p x v).1, (unlinkChild_status s p x v).2, unlinkChild_flavor]
  refine ⟨fun u kv hkv => ?_, fun u hu => ?_, fun u hd => ?_⟩
  · have := hwf u kv (unlinkChild_kids_sub s p x u kv hkv)
    exact ⟨this.1, by rw [unlinkChild_actors_len]; exact this.2⟩
  · rw [unlinkChild_actors_len] at hu
    rcases hset u hu with h | h
    · left; unfold R at *; rw [(unlinkChild_status s p x u).1]; exact h
    · right; exact (hD u).mpr h
  · have h0 := htidy u ((hD u).mp hd)
    cases hk : ((unlinkChild s p x).get u).kids with
    | nil => rfl
    | cons kv r =>
      have := unlinkChild_kids_sub s p x u kv (by rw [hk]; exact List.mem_cons_self ..)
      rw [h0] at this; cases this

/-- the state in which `stopChildTo` calls `stop` has the actors of `unlinkChild s p x` -/
theorem stopChildTo_eq (busy : Option Nat) (s : Sys) (p x : Nat) :
    ∃ t : Sys, t.actors = (unlinkChild s p x).actors ∧ t.flavor = s.flavor ∧
      t.registry = (s.registry.filter (fun kv => kv.2 ≠ x)) ∧ stopChildTo busy s p x = stop busy t x := by
  refine ⟨markOos (unregister (unlinkChild s p x) x) (isAncestorOrSelf s x s.actors.length p), ?_, ?_, ?_, rfl⟩
  · unfold markOos; split <;> rfl
  · unfold markOos; split <;> exact unlinkChild_flavor s p x
  · have : (unlinkChild s p x).registry = s.registry := by unfold unlinkChild; split <;> rfl
    unfold markOos; split <;> simp [unregister, this]

theorem inv_congr {s t : Sys} (ha : t.actors = s.actors) (hf : t.flavor = s.flavor) :
    (WF s → WF t) ∧ (Settled s → Settled t) ∧ (Tidy s → Tidy t) ∧ (∀ y d, Desc s y d → Desc t y d) ∧ (∀ u, R s u → R t u) := by
  have hg : ∀ u, t.get u = s.get u := get_congr ha
  have hD : ∀ v, Dead t v ↔ Dead s v := by intro v; unfold Dead; rw [hg, hf]
  refine ⟨fun h u kv hkv => ?_, fun h u hu => ?_, fun h u hd => ?_, fun y d h => ?_, fun u h => ?_⟩
  · rw [hg] at hkv; rw [ha]; exact h u kv hkv
  · rw [ha] at hu
    rcases h u hu with h1 | h1
    · left; unfold R at *; rw [hg]; exact h1
    · right; exact (hD u).mpr h1
  · rw [hg]; exact h u ((hD u).mp hd)
  · induction h with
    | self x => exact Desc.self _
    | @kid y d kv hkv _ ih => exact Desc.kid kv (by rw [hg]; exact hkv) ih
  · unfold R at *; rw [hg]; exact h

/-! ### F51: a spawn under an id in use -/

/-- an update of one actor that keeps status and run loop and can only remove children -/
structure Shrinks (f : Actor → Actor) : Prop where
  status : ∀ a, (f a).status = a.status
  alive : ∀ a, (f a).alive = a.alive
  parent : ∀ a, (f a).parent = a.parent
  kids : ∀ a kv, kv ∈ (f a).kids → kv ∈ a.kids

theorem shrinks_kids_sub {f : Actor → Actor} (hf : Shrinks f) (s : Sys) (p v : Nat) :
    ∀ kv ∈ ((s.upd p f).get v).kids, kv ∈ (s.get v).kids := by
  intro kv hkv
  rw [get_upd] at hkv
  split at hkv
  · next hc => rw [hc.1]; exact hf.kids _ kv hkv
  · exact hkv

theorem inv_upd_shrinks {f : Actor → Actor} (hf : Shrinks f) {s : Sys} (p : Nat) (hwf : WF s) (hset : Settled s) (htidy : Tidy s) :
    WF (s.upd p f) ∧ Settled (s.upd p f) ∧ Tidy (s.upd p f) := by
  have hst : ∀ v, ((s.upd p f).get v).status = (s.get v).status := fun v => get_upd_proj (·.status) s p v f hf.status
  have hal : ∀ v, ((s.upd p f).get v).alive = (s.get v).alive := fun v => get_upd_proj (·.alive) s p v f hf.alive
  have hD : ∀ v, Dead (s.upd p f) v ↔ Dead s v := by
    intro v; unfold Dead; rw [hst, hal]; rfl
  refine ⟨fun u kv hkv => ?_, fun u hu => ?_, fun u hd => ?_⟩
  · have := hwf u kv (shrinks_kids_sub hf s p u kv hkv)
    exact ⟨this.1, by rw [n_upd]; exact this.2⟩
  · rw [n_upd] at hu
    rcases hset u hu with h | h
    · left; unfold R at *; rw [hst]; exact h
    · right; exact (hD u).mpr h
  · have h0 := htidy u ((hD u).mp hd)
    cases hk : ((s.upd p f).get u).kids with
    | nil => rfl
    | cons kv r =>
      have := shrinks_kids_sub hf s p u kv (by rw [hk]; exact List.mem_cons_self ..)
      rw [h0] at this; cases this

theorem desc_upd_above {s : Sys} (hwf : WF s) (p : Nat) (f : Actor → Actor) {y d : Nat} (h : Desc s y d) :
    p < y → Desc (s.upd p f) y d := by
  induction h with
  | self x => intro _; exact Desc.self _
  | @kid y d kv hkv _ ih =>
    intro hpy
    have hne : y ≠ p := by omega
    have hc := hwf y kv hkv
    exact Desc.kid kv (by rw [get_upd_ne s f hne]; exact hkv) (ih (by omega))

theorem desc_bounds {s : Sys} (hwf : WF s) {y d : Nat} (h : Desc s y d) : y ≤ d ∧ (y < s.actors.length → d < s.actors.length) := by
  induction h with
  | self x => exact ⟨Nat.le_refl _, id⟩
  | @kid y d kv hkv _ ih =>
    have hc := hwf y kv hkv
    exact ⟨by omega, fun _ => ih.2 hc.2⟩

theorem shrinks_popKid (cid : String) : Shrinks (fun a => { a with kids := derase cid a.kids }) :=
  ⟨fun _ => rfl, fun _ => rfl, fun _ => rfl, fun _ _ h => mem_derase h⟩

theorem spawnCore_kids (s : Sys) (p : Nat) (key : String) (eid sid : Option String) (b : Bool) (hp : p < s.actors.length) :
    ((spawnCore s p key eid sid b).get p).kids = dinsert (mkId (s.get p).id key eid s.fresh) s.actors.length (s.get p).kids := by
  unfold spawnCore linkChild
  generalize hc : newActor s p (mkId (s.get p).id key eid s.fresh) key (startedAtSpawn s b) = child
  generalize ht : register (addActor s child (freshAfter s eid)) sid s.actors.length = t
  have hta : t.actors = s.actors ++ [child] := by rw [← ht, register_actors]; rfl
  have hpt : p < t.actors.length := by rw [hta]; simp; omega
  have hgt : t.get p = s.get p := by simp [Sys.get, hta, List.getElem?_append_left hp]
  rw [get_upd_self t _ hpt, hgt]

/-- what a spawn under an id that `old` still holds guarantees (from an observation point) -/
theorem respawn_spec (busy : Option Nat) (s : Sys) (p : Nat) (key : String) (eid sid : Option String) (b : Bool) (old : Nat)
    (hwf : WF s) (hset : Settled s) (htidy : Tidy s) (hp : p < s.actors.length)
    (hold : dlookup (mkId (s.get p).id key eid s.fresh) (s.get p).kids = some old) :
    (∀ d, Desc s old d → Dead (spawn busy s p key eid sid b) d ∧ ((spawn busy s p key eid sid b).get d).kids = []) ∧
    (∀ u, u < s.actors.length → R (spawn busy s p key eid sid b) u → R s u) ∧
    (∀ u, u < s.actors.length → u ≠ p → R (spawn busy s p key eid sid b) u →
      ((spawn busy s p key eid sid b).get u).kids = (s.get u).kids) ∧
    (R (spawn busy s p key eid sid b) p → ((spawn busy s p key eid sid b).get p).kids =
      dinsert (mkId (s.get p).id key eid s.fresh) s.actors.length (derase (mkId (s.get p).id key eid s.fresh) (s.get p).kids)) := by
  generalize hcid : mkId (s.get p).id key eid s.fresh = cid at hold ⊢
  have hmem : (cid, old) ∈ (s.get p).kids := dlookup_mem hold
  have hpo := hwf p (cid, old) hmem
  -- the three stages
  have hs1 : popKid s p cid = s.upd p (fun a => { a with kids := derase cid a.kids }) := rfl
  have ⟨w1, w2, w3⟩ := inv_upd_shrinks (shrinks_popKid cid) p hwf hset htidy
  rw [← hs1] at w1 w2 w3
  have hn1 : (popKid s p cid).actors.length = s.actors.length := n_upd s p _
  have hst1 : ∀ v, ((popKid s p cid).get v).status = (s.get v).status := fun v => get_upd_proj (·.status) s p v _ (fun _ => rfl)
  have ⟨hdead, hm, hc⟩ : Dead (stop busy (popKid s p cid) old) old ∧ Mono (popKid s p cid) (stop busy (popKid s p cid) old) ∧
      DC (popKid s p cid) (stop busy (popKid s p cid) old) := by
    rcases w2 old (by rw [hn1]; exact hpo.2) with h | h
    · exact stop_spec busy _ old w1 (by rw [hn1]; exact hpo.2) h
    · have hnr : ¬ R (popKid s p cid) old := by unfold R; rw [h.1]; decide
      have : stop busy (popKid s p cid) old = popKid s p cid := stopA_not_running busy _ _ old hnr
      rw [this]; exact ⟨h, Mono.refl _, DC.refl _⟩
  have heq : spawn busy s p key eid sid b = spawnFresh (stop busy (popKid s p cid) old) p key eid sid b := by
    unfold spawn evict; rw [hcid, hold]
  generalize ht : stop busy (popKid s p cid) old = t at hdead hm hc heq
  have hnt : t.actors.length = s.actors.length := hm.n.trans hn1
  have hpt : p < t.actors.length := by rw [hnt]; exact hp
  have hstat : Static s t := by
    rw [← ht]
    exact (static_upd s p (fun a => { a with kids := derase cid a.kids }) (fun _ => rfl) (fun _ => rfl)).trans (static_stopA busy _ _ _)
  have hcid' : mkId (t.get p).id key eid t.fresh = cid := by rw [(hstat.2.2.2.2 p).1, hstat.2.2.1]; exact hcid
  have ⟨ha, _⟩ := spawnFresh_actors t p key eid sid b
  have hg : ∀ u, (spawn busy s p key eid sid b).get u = (spawnCore t p key eid sid b).get u := by
    intro u; rw [heq]; exact get_congr ha u
  have hfl : (spawn busy s p key eid sid b).flavor = t.flavor := by rw [heq]; exact (quiet_spawnFresh t p key eid sid b).1
  have ⟨_, _, _, _, _, c6, c7⟩ := spawnCore_spec t p key eid sid b hpt
  have hrun : ∀ u, u < s.actors.length → R (spawn busy s p key eid sid b) u → R t u := by
    intro u hu h; unfold R at *; rw [hg, (c7 u (by rw [hnt]; exact hu)).1] at h; exact h
  refine ⟨fun d hd => ?_, fun u hu h => ?_, fun u hu hne h => ?_, fun h => ?_⟩
  · have hb := desc_bounds hwf hd
    have hd1 : Desc (popKid s p cid) old d := desc_upd_above hwf p _ hd hpo.1
    have ⟨dd, dk⟩ := desc_down w1 w2 w3 hm hc hd1 (by rw [hn1]; exact hpo.2) hdead
    have hdt : d < t.actors.length := by rw [hnt]; exact hb.2 hpo.2
    have hge : (spawn busy s p key eid sid b).get d = t.get d := by rw [hg]; exact c6 d (by omega) hdt
    exact ⟨⟨by rw [hge]; exact dd.1, by rw [hge, hfl]; exact dd.2⟩, by rw [hge]; exact dk⟩
  · have := hm.run u (hrun u hu h)
    unfold R at *; rw [← hst1]; exact this
  · have hrt := hrun u hu h
    rw [hg, c6 u hne (by rw [hnt]; exact hu), hm.frame u hrt]
    exact congrArg Actor.kids (get_upd_ne s _ hne)
  · have hrt := hrun p hp h
    rw [hg, spawnCore_kids t p key eid sid b hpt, hcid', hnt, hm.frame p hrt]
    show dinsert cid s.actors.length ((s.upd p _).get p).kids = _
    rw [get_upd_self s _ hp]

/-! ### F50: `stop()` processes nothing of what is queued for the actor it stops -/

theorem stop_own_queue (busy : Option Nat) (s : Sys) (x : Nat) (hx : x < s.actors.length) (hr : R s x) :
    ((stop busy s x).get x).status = .stopped ∧ ((stop busy s x).get x).received = (s.get x).received := by
  unfold stop
  obtain ⟨f, hf⟩ : ∃ f, s.actors.length = f + 1 := ⟨s.actors.length - 1, by omega⟩
  rw [hf]
  unfold stopA
  have hr0 : (s.get x).status = .running := hr
  simp only [hr0, if_true]
  have h0 : ((unregister (markStopped s x) x).get x).status = .stopped := markStopped_status s x hx
  have hrec : ((unregister (markStopped s x) x).get x).received = (s.get x).received := by
    show ((markStopped s x).get x).received = _
    unfold markStopped; rw [get_upd_self s _ hx]
  have q := ((quiet_foldl (fun acc (kv : String × Nat) => stopA busy f acc kv.2) (fun acc kv => quiet_stopA busy f acc kv.2)
      (s.get x).kids (unregister (markStopped s x) x)).trans (quiet_clearKids _ x)).trans (quiet_stopTail busy _ x)
  have ⟨f1, f2, _⟩ := q.2.2 x h0
  exact ⟨f1, f2.trans hrec⟩

end XSM.Actors
