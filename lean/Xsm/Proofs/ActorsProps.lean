import Xsm.Proofs.ActorsMisc
/-!
Proofs of the operation-level statements of C15 (spawn, ordered delivery, cancel, supersede, stopChild).
-/
namespace XSM.Actors

/-! ### spawn -/

theorem register_actors (s : Sys) (sid : Option String) (u : Nat) : (register s sid u).actors = s.actors := by
  unfold register
  cases sid with
  | none => rfl
  | some x =>
    simp only
    cases dlookup x s.registry with
    | none => rfl
    | some v => simp only; split <;> rfl

theorem register_lookup (s : Sys) (x : String) (u : Nat) : dlookup x (register s (some x) u).registry = some u := by
  unfold register
  simp only
  cases dlookup x s.registry with
  | none => exact dlookup_dinsert_self x u _
  | some v => simp only; split <;> exact dlookup_dinsert_self x u _

theorem spawnCore_spec (s : Sys) (p : Nat) (key : String) (eid sid : Option String) (b : Bool) (hp : p < s.actors.length) :
    (spawnCore s p key eid sid b).actors.length = s.actors.length + 1 ∧
    (spawnCore s p key eid sid b).get s.actors.length = newActor s p (mkId (s.get p).id key eid s.fresh) key (startedAtSpawn s b) ∧
    dlookup (mkId (s.get p).id key eid s.fresh) ((spawnCore s p key eid sid b).get p).kids = some s.actors.length ∧
    dlookup (mkId (s.get p).id key eid s.fresh) ((spawnCore s p key eid sid b).get p).sources = some key ∧
    (∀ x, sid = some x → dlookup x (spawnCore s p key eid sid b).registry = some s.actors.length) ∧
    (∀ v, v ≠ p → v < s.actors.length → (spawnCore s p key eid sid b).get v = s.get v) ∧
    (∀ v, v < s.actors.length → ((spawnCore s p key eid sid b).get v).status = (s.get v).status ∧
        ((spawnCore s p key eid sid b).get v).received = (s.get v).received ∧
        ((spawnCore s p key eid sid b).get v).inbox = (s.get v).inbox) := by
  unfold spawnCore linkChild
  generalize hc : newActor s p (mkId (s.get p).id key eid s.fresh) key (startedAtSpawn s b) = child
  generalize hcid : mkId (s.get p).id key eid s.fresh = cid
  generalize ht : register (addActor s child (freshAfter s eid)) sid s.actors.length = t
  have hta : t.actors = s.actors ++ [child] := by rw [← ht, register_actors]; rfl
  have hlen : t.actors.length = s.actors.length + 1 := by rw [hta]; simp
  have hpt : p < t.actors.length := by omega
  have hgt : ∀ v, v < s.actors.length → t.get v = s.get v := by
    intro v hv; simp [Sys.get, hta, List.getElem?_append_left hv]
  have hgn : t.get s.actors.length = child := by simp [Sys.get, hta]
  refine ⟨by rw [n_upd]; exact hlen, ?_, ?_, ?_, ?_, ?_, ?_⟩
  · rw [get_upd_ne t _ (by omega), hgn]
  · rw [get_upd_self t _ hpt]; exact dlookup_dinsert_self _ _ _
  · rw [get_upd_self t _ hpt]; exact dlookup_dinsert_self _ _ _
  · intro x hx; subst hx; show dlookup x t.registry = _; rw [← ht]; exact register_lookup _ x _
  · intro v hv hlt; rw [get_upd_ne t _ hv, hgt v hlt]
  · intro v hlt
    rw [← hgt v hlt]
    exact ⟨get_upd_proj (·.status) t p v _ (fun _ => rfl), get_upd_proj (·.received) t p v _ (fun _ => rfl),
      get_upd_proj (·.inbox) t p v _ (fun _ => rfl)⟩

theorem spawn_actors (s : Sys) (p : Nat) (key : String) (eid sid : Option String) (b : Bool) :
    (spawn s p key eid sid b).actors = (spawnCore s p key eid sid b).actors ∧
    (spawn s p key eid sid b).registry = (spawnCore s p key eid sid b).registry := by
  unfold spawn
  split
  · exact ⟨rfl, rfl⟩
  · exact ⟨rfl, rfl⟩

/-! ### ordered delivery -/

def deliverAll (s : Sys) (t : Nat) (evs : List String) : Sys := evs.foldl (fun s e => deliverNow s t e) s

theorem deliverAll_frame (s : Sys) (t : Nat) (evs : List String) (v : Nat) (h : v ≠ t) : (deliverAll s t evs).get v = s.get v := by
  unfold deliverAll
  induction evs generalizing s with
  | nil => rfl
  | cons e r ih => simp only [List.foldl_cons]; rw [ih, deliverNow_frame s t e v h]

theorem deliverAll_sync (s : Sys) (t : Nat) (evs : List String) (hfl : s.flavor = .sync) (hr : (s.get t).status = .running)
    (hb : (s.get t).busy = false) (ht : t < s.actors.length) :
    ((deliverAll s t evs).get t).received = (s.get t).received ++ evs ∧ ((deliverAll s t evs).get t).inbox = (s.get t).inbox := by
  unfold deliverAll
  induction evs generalizing s with
  | nil => simp
  | cons e r ih =>
    simp only [List.foldl_cons]
    have hd : deliverNow s t e = s.upd t (fun a => { a with received := a.received ++ [e] }) := by
      unfold deliverNow; simp [hfl, hr, hb]
    rw [hd]
    have hg := get_upd_self s (fun a => { a with received := a.received ++ [e] }) ht
    have ⟨i1, i2⟩ := ih (s.upd t (fun a => { a with received := a.received ++ [e] })) hfl (by rw [hg]; exact hr) (by rw [hg]; exact hb)
      (by rw [n_upd]; exact ht)
    rw [i1, i2, hg]
    simp

theorem deliverAll_async (s : Sys) (t : Nat) (evs : List String) (hfl : s.flavor = .async) (hr : (s.get t).status ≠ .stopped)
    (ht : t < s.actors.length) :
    ((deliverAll s t evs).get t).inbox = (s.get t).inbox ++ evs ∧ ((deliverAll s t evs).get t).received = (s.get t).received ∧
    ((deliverAll s t evs).get t).status = (s.get t).status ∧ ((deliverAll s t evs).get t).alive = (s.get t).alive := by
  unfold deliverAll
  induction evs generalizing s with
  | nil => simp
  | cons e r ih =>
    simp only [List.foldl_cons]
    have hd : deliverNow s t e = s.upd t (fun a => { a with inbox := a.inbox ++ [e] }) := by
      unfold deliverNow; simp [hfl, hr]
    rw [hd]
    have hg := get_upd_self s (fun a => { a with inbox := a.inbox ++ [e] }) ht
    have ⟨i1, i2, i3, i4⟩ := ih (s.upd t (fun a => { a with inbox := a.inbox ++ [e] })) hfl (by rw [hg]; exact hr) (by rw [n_upd]; exact ht)
    rw [i1, i2, i3, i4, hg]
    simp

/-- a list of undelayed `sendTo` actions to one resolvable target is the list of deliveries -/
theorem runActions_sendTo (busy : Option Nat) (cur : String) (p : Nat) (s : Sys) (tgt : String) (t : Nat) (evs : List String)
    (h : resolve s p tgt = .found t) :
    runActions busy cur p s (evs.map (fun e => Action.sendTo tgt e 0 none)) = deliverAll s t evs := by
  unfold runActions deliverAll
  induction evs generalizing s with
  | nil => rfl
  | cons e r ih =>
    simp only [List.map_cons, List.foldl_cons]
    have h1 : runAction busy cur p s (Action.sendTo tgt e 0 none) = deliverNow s t e := by
      simp [runAction, h, deliver]
    rw [h1]
    exact ih (deliverNow s t e) (by rw [resolve_deliverNow]; exact h)

/-! ### cancel / supersede -/

theorem cancelSend_spec (s : Sys) (p : Nat) (k : String) (j : Nat) (h : dlookup k (s.get p).sends = some j) :
    (timerAt (cancelSend s p k) j).live = false ∧ (∀ i, i ≠ j → timerAt (cancelSend s p k) i = timerAt s i) ∧
    (cancelSend s p k).timers.length = s.timers.length := by
  unfold cancelSend
  simp only [h]
  refine ⟨?_, fun i hi => ?_, ?_⟩
  · rw [timerAt_killTimer]; simp
  · rw [timerAt_killTimer]; simp [hi, timerAt_upd]
  · rw [timers_len_killTimer]; rfl

theorem cancelSend_sends (s : Sys) (p : Nat) (k : String) (hp : p < s.actors.length) :
    dlookup k ((cancelSend s p k).get p).sends = none := by
  unfold cancelSend
  split
  · show dlookup k ((s.upd p _).get p).sends = none
    rw [get_upd_self s _ hp]; exact dlookup_derase_self k _
  · next h => exact h

theorem cancelSend_noop (s : Sys) (p : Nat) (k : String) (h : dlookup k (s.get p).sends = none) : cancelSend s p k = s := by
  unfold cancelSend; simp [h]

theorem timerAt_addTimer_lt (s : Sys) (tm : Timer) (i : Nat) (h : i < s.timers.length) : timerAt (addTimer s tm) i = timerAt s i := by
  simp [timerAt, addTimer, List.getElem?_append_left h]

theorem timerAt_addTimer_new (s : Sys) (tm : Timer) : timerAt (addTimer s tm) s.timers.length = tm := by
  simp [timerAt, addTimer]

theorem supersede_spec (s : Sys) (p t : Nat) (ev : String) (delay : Nat) (k : String) (j : Nat) (hd : delay ≠ 0)
    (hj : dlookup k (s.get p).sends = some j) (hjl : j < s.timers.length) (hp : p < s.actors.length) :
    (timerAt (deliver s p t ev delay (some k)) j).live = false ∧
    timerAt (deliver s p t ev delay (some k)) s.timers.length = { owner := p, target := t, ev := ev, due := s.now + delay, live := true } ∧
    (∀ i, i < s.timers.length → i ≠ j → timerAt (deliver s p t ev delay (some k)) i = timerAt s i) ∧
    dlookup k ((deliver s p t ev delay (some k)).get p).sends = some s.timers.length := by
  unfold deliver schedule setSend
  simp only [hd, if_false]
  have hg : (addTimer s { owner := p, target := t, ev := ev, due := s.now + delay, live := true }).get p = s.get p := rfl
  rw [hg, hj]
  simp only
  refine ⟨?_, ?_, fun i hi hne => ?_, ?_⟩
  · rw [timerAt_upd, timerAt_killTimer]; simp
  · rw [timerAt_upd, timerAt_killTimer]
    have : s.timers.length ≠ j := by omega
    simp only [this, if_false]; exact timerAt_addTimer_new s _
  · rw [timerAt_upd, timerAt_killTimer]; simp only [hne, if_false]; exact timerAt_addTimer_lt s _ i hi
  · have hp' : p < (killTimer (addTimer s { owner := p, target := t, ev := ev, due := s.now + delay, live := true }) j).actors.length := hp
    rw [get_upd_self _ _ hp']; exact dlookup_dinsert_self _ _ _

theorem fresh_send_spec (s : Sys) (p t : Nat) (ev : String) (delay : Nat) (k : String) (hd : delay ≠ 0)
    (hj : dlookup k (s.get p).sends = none) :
    (∀ i, i < s.timers.length → timerAt (deliver s p t ev delay (some k)) i = timerAt s i) ∧
    timerAt (deliver s p t ev delay (some k)) s.timers.length = { owner := p, target := t, ev := ev, due := s.now + delay, live := true } := by
  unfold deliver schedule setSend
  simp only [hd, if_false]
  have hg : (addTimer s { owner := p, target := t, ev := ev, due := s.now + delay, live := true }).get p = s.get p := rfl
  rw [hg, hj]
  simp only
  exact ⟨fun i hi => by rw [timerAt_upd]; exact timerAt_addTimer_lt s _ i hi, by rw [timerAt_upd]; exact timerAt_addTimer_new s _⟩

/-! ### stopChild -/

theorem unlinkChild_actors_len (s : Sys) (p x : Nat) : (unlinkChild s p x).actors.length = s.actors.length := by
  unfold unlinkChild; split
  · exact n_upd s p _
  · rfl

theorem unlinkChild_removed (s : Sys) (p x : Nat) (cid : String) (hp : p < s.actors.length)
    (h : (s.get p).kids.find? (fun kv => kv.2 = x) = some (cid, x)) :
    dlookup cid ((unlinkChild s p x).get p).kids = none ∧ dlookup cid ((unlinkChild s p x).get p).sources = none := by
  unfold unlinkChild
  simp only [h]
  rw [get_upd_self s _ hp]
  exact ⟨dlookup_derase_self cid _, dlookup_derase_self cid _⟩

theorem mem_derase {k : String} {l : List (String × α)} {x : String × α} (h : x ∈ derase k l) : x ∈ l := by
  unfold derase at h; exact (List.mem_filter.mp h).1

theorem unlinkChild_kids_sub (s : Sys) (p x v : Nat) : ∀ kv ∈ ((unlinkChild s p x).get v).kids, kv ∈ (s.get v).kids := by
  intro kv hkv
  unfold unlinkChild at hkv
  split at hkv
  · rw [get_upd] at hkv
    split at hkv
    · next hc => rw [hc.1]; exact mem_derase hkv
    · exact hkv
  · exact hkv

theorem unlinkChild_status (s : Sys) (p x v : Nat) : ((unlinkChild s p x).get v).status = (s.get v).status ∧
    ((unlinkChild s p x).get v).alive = (s.get v).alive := by
  unfold unlinkChild
  split
  · exact ⟨get_upd_proj (·.status) s p v _ (fun _ => rfl), get_upd_proj (·.alive) s p v _ (fun _ => rfl)⟩
  · exact ⟨rfl, rfl⟩

theorem unlinkChild_flavor (s : Sys) (p x : Nat) : (unlinkChild s p x).flavor = s.flavor := by
  unfold unlinkChild; split <;> rfl

theorem inv_unlinkChild {s : Sys} (p x : Nat) (hwf : WF s) (hset : Settled s) (htidy : Tidy s) :
    WF (unlinkChild s p x) ∧ Settled (unlinkChild s p x) ∧ Tidy (unlinkChild s p x) := by
  have hD : ∀ v, Dead (unlinkChild s p x) v ↔ Dead s v := by
    intro v; unfold Dead
    rw [(unlinkChild_status s p x v).1, (unlinkChild_status s p x v).2, unlinkChild_flavor]
  refine ⟨fun u kv hkv => ?_, fun u hu => ?_, fun u hd => ?_⟩
  · have := hwf u kv (unlinkChild_kids_sub s p x u kv hkv)
    exact ⟨this.1, by rw [unlinkChild_actors_len]; exact this.2⟩
  · rw [unlinkChild_actors_len] at hu
    rcases hset u hu with h | h
    · left; unfold R at *; rw [(unlinkChild_status s p x u).1]; exact h
    · right; exact (hD u).mpr h
  · have h0 := htidy u ((hD u).mp hd)
    cases hk : ((unlinkChild s p x).get u).kids with
    | nil => rfl
    | cons kv r =>
      have := unlinkChild_kids_sub s p x u kv (by rw [hk]; exact List.mem_cons_self ..)
      rw [h0] at this; cases this

/-- the state in which `stopChildTo` calls `stop` has the actors of `unlinkChild s p x` -/
theorem stopChildTo_eq (busy : Option Nat) (s : Sys) (p x : Nat) :
    ∃ t : Sys, t.actors = (unlinkChild s p x).actors ∧ t.flavor = s.flavor ∧
      t.registry = (s.registry.filter (fun kv => kv.2 ≠ x)) ∧ stopChildTo busy s p x = stop busy t x := by
  refine ⟨markOos (unregister (unlinkChild s p x) x) (isAncestorOrSelf s x s.actors.length p), ?_, ?_, ?_, rfl⟩
  · unfold markOos; split <;> rfl
  · unfold markOos; split <;> exact unlinkChild_flavor s p x
  · have : (unlinkChild s p x).registry = s.registry := by unfold unlinkChild; split <;> rfl
    unfold markOos; split <;> simp [unregister, this]

theorem inv_congr {s t : Sys} (ha : t.actors = s.actors) (hf : t.flavor = s.flavor) :
    (WF s → WF t) ∧ (Settled s → Settled t) ∧ (Tidy s → Tidy t) ∧ (∀ y d, Desc s y d → Desc t y d) ∧ (∀ u, R s u → R t u) := by
  have hg : ∀ u, t.get u = s.get u := get_congr ha
  have hD : ∀ v, Dead t v ↔ Dead s v := by intro v; unfold Dead; rw [hg, hf]
  refine ⟨fun h u kv hkv => ?_, fun h u hu => ?_, fun h u hd => ?_, fun y d h => ?_, fun u h => ?_⟩
  · rw [hg] at hkv; rw [ha]; exact h u kv hkv
  · rw [ha] at hu
    rcases h u hu with h1 | h1
    · left; unfold R at *; rw [hg]; exact h1
    · right; exact (hD u).mpr h1
  · rw [hg]; exact h u ((hD u).mp hd)
  · induction h with
    | self x => exact Desc.self _
    | @kid y d kv hkv _ ih => exact Desc.kid kv (by rw [hg]; exact hkv) ih
  · unfold R at *; rw [hg]; exact h

end XSM.Actors
