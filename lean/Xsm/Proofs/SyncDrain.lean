import Xsm.Proofs.Lifecycle
import Xsm.Proofs.Termination
/-
The sync drain `drainLoop` (`_process_event_queue`) after the second repair of F10: only MARKED events
(enqueued while a drain was in flight) count towards the bound, a cut purges the marked entries and the
loop goes on.

Contents
  1. `syncTrips`, `chainedNext`, `syncPurge`: elementary facts; one macrostep appends marked entries only.
  2. instrumented twins of `drainLoop` (same recursion): `drainLogQ` (defined with the model), `drainSteps`
     (events processed), `drainTrips` (cuts), `drainCut` (a cut happened, or the MODEL's fuel ran out with
     events pending), `drainHang` (the MODEL's fuel ran out with events pending on a running interpreter).
  3. termination: the measure `drainPot`, `drain_no_hang` (`drainFuel` suffices), fuel irrelevance.
  4. external events are never discarded: `drain_external_prefix`, `drain_external_split`.
  5. what one drain can do: `drainSteps_le` (the number of events it processes does not depend on the number
     of marked leftovers), `drain_leftovers` (what it leaves queued).
-/
namespace XSM.Term
open XSM XSM.Done

/-! ## 1. elementary facts -/

theorem extCount_eq_cntExt (l : List QEv) : extCount l = cntExt l := rfl

theorem syncTrips_eq_true (m : Machine) (c : Nat) (q : QEv) :
    syncTrips m c q = true ↔ (q.self = true ∧ m.maxIterations < c + 1) := by
  unfold syncTrips
  cases q.self <;> simp

theorem syncTrips_eq_false (m : Machine) (c : Nat) (q : QEv) :
    syncTrips m c q = false ↔ (q.self = false ∨ c + 1 ≤ m.maxIterations) := by
  unfold syncTrips
  cases q.self <;> simp <;> omega

/-- an EXTERNAL event never trips the bound -/
theorem syncTrips_ext (m : Machine) (c : Nat) {q : QEv} (h : q.self = false) : syncTrips m c q = false := by
  simp [syncTrips, h]

theorem chainedNext_ext (c : Nat) {q : QEv} (h : q.self = false) : chainedNext c q = c := by
  simp [chainedNext, h]
theorem chainedNext_self (c : Nat) {q : QEv} (h : q.self = true) : chainedNext c q = c + 1 := by
  simp [chainedNext, h]

theorem chainedNext_le (m : Machine) (c : Nat) (q : QEv) (hc : c ≤ m.maxIterations) (ht : syncTrips m c q = false) :
    chainedNext c q ≤ m.maxIterations := by
  rcases (syncTrips_eq_false m c q).1 ht with h | h
  · rw [chainedNext_ext c h]; exact hc
  · unfold chainedNext; split <;> omega

theorem syncPurge_queue (s : St) : (syncPurge s).queue = s.queue.filter (fun q => !q.self) := rfl
theorem syncPurge_status (s : St) : (syncPurge s).status = s.status := rfl

/-- **the cut discards marked entries only**: the external events queued are kept, all of them, in order -/
theorem extOf_syncPurge (s : St) : extOf (syncPurge s).queue = extOf s.queue := by
  unfold extOf; rw [syncPurge_queue, List.filter_filter]; simp
/-- … and nothing marked is left -/
theorem syncPurge_all_ext (s : St) : ∀ q ∈ (syncPurge s).queue, q.self = false := by
  intro q hq
  rw [syncPurge_queue] at hq
  simpa using (List.mem_filter.1 hq).2
theorem syncPurge_eq_extOf (s : St) : (syncPurge s).queue = extOf s.queue := rfl
theorem cnt_syncPurge (s : St) : cntSelf (syncPurge s).queue = 0 ∧ cntExt (syncPurge s).queue = cntExt s.queue :=
  cnt_purge s.queue

theorem extOf_append (a b : List QEv) : extOf (a ++ b) = extOf a ++ extOf b := by
  unfold extOf; rw [List.filter_append]
theorem extOf_marked {l : List QEv} (h : ∀ q ∈ l, q.self = true) : extOf l = [] := by
  unfold extOf; rw [List.filter_eq_nil_iff]; intro q hq; simp [h q hq]
theorem extOf_cons_ext {q : QEv} (l : List QEv) (h : q.self = false) : extOf (q :: l) = q :: extOf l := by
  unfold extOf; simp [h]
theorem extOf_cons_self {q : QEv} (l : List QEv) (h : q.self = true) : extOf (q :: l) = extOf l := by
  unfold extOf; simp [h]
theorem extOf_length (l : List QEv) : (extOf l).length = cntExt l := by
  unfold extOf cntExt; rw [List.countP_eq_length_filter]

/-- **one macrostep of the sync drain appends MARKED entries only** (everything a macrostep enqueues goes
    through `send()` while `_is_processing` is set) -/
theorem syncMacro_marked (m : Machine) (u : UEnv) (e : Ev) (s : St) :
    ∃ added, (syncMacro m u e s).queue = s.queue ++ added ∧ ∀ q ∈ added, q.self = true :=
  syncProcessed_marked m u e s

theorem syncMacro_cnt (m : Machine) (u : UEnv) (e : Ev) (s : St) :
    cntExt (syncMacro m u e s).queue = cntExt s.queue ∧ cntSelf s.queue ≤ cntSelf (syncMacro m u e s).queue ∧
      extOf (syncMacro m u e s).queue = extOf s.queue := by
  obtain ⟨added, hq, hm⟩ := syncMacro_marked m u e s
  rw [hq, cntExt_append, cntSelf_append, (cntSelf_all_true hm).2, extOf_append, extOf_marked hm]
  exact ⟨by omega, by omega, by simp⟩

/-! ## 2. the instrumented twins -/


/-- twin of `drainLoop`: the number of queued events PROCESSED (dequeued and handed to `_process_event`) -/
def drainSteps (m : Machine) (u : UEnv) : Nat → Nat → St → Nat
  | 0, _, _ => 0
  | fuel + 1, c, s =>
    match s.queue with
    | [] => 0
    | q :: rest =>
      if s.status ≠ "running" then 0
      else if syncTrips m c q then drainSteps m u fuel 0 (syncPurge s)
      else if (syncMacro m u q.ev { s with queue := rest }).err.isSome then 1 else 1 + drainSteps m u fuel (chainedNext c q) (syncMacro m u q.ev { s with queue := rest })

theorem drainSteps_zero (m : Machine) (u : UEnv) (c : Nat) (s : St) : drainSteps m u 0 c s = (0) := by
  simp only [drainSteps]

theorem drainSteps_nil (m : Machine) (u : UEnv) (fuel c : Nat) (s : St) (hq : s.queue = []) :
    drainSteps m u (fuel + 1) c s = 0 := by
  cases s with
  | mk cfg hist queue status trace err ctx rd errors =>
    simp only at hq
    subst hq
    simp only [drainSteps]

theorem drainSteps_dead (m : Machine) (u : UEnv) (fuel c : Nat) (s : St) (h : s.status ≠ "running") :
    drainSteps m u (fuel + 1) c s = 0 := by
  cases hq : s.queue with
  | nil => exact drainSteps_nil m u fuel c s hq
  | cons q rest =>
    cases s with
    | mk cfg hist queue status trace err ctx rd errors =>
      simp only at hq h
      subst hq
      simp only [drainSteps, ne_eq, h, not_false_eq_true, if_true]

theorem drainSteps_trip (m : Machine) (u : UEnv) (fuel c : Nat) (s : St) (q : QEv) (rest : List QEv)
    (hq : s.queue = q :: rest) (hrun : s.status = "running") (ht : syncTrips m c q = true) :
    drainSteps m u (fuel + 1) c s = drainSteps m u fuel 0 (syncPurge s) := by
  cases s with
  | mk cfg hist queue status trace err ctx rd errors =>
    simp only at hq hrun
    subst hq; subst hrun
    simp only [drainSteps, ne_eq, not_true_eq_false, if_false, ht, if_true]

theorem drainSteps_step (m : Machine) (u : UEnv) (fuel c : Nat) (s : St) (q : QEv) (rest : List QEv)
    (hq : s.queue = q :: rest) (hrun : s.status = "running") (ht : syncTrips m c q = false) :
    drainSteps m u (fuel + 1) c s =
      if (syncMacro m u q.ev { s with queue := rest }).err.isSome then 1 else 1 + drainSteps m u fuel (chainedNext c q) (syncMacro m u q.ev { s with queue := rest }) := by
  cases s with
  | mk cfg hist queue status trace err ctx rd errors =>
    simp only at hq hrun
    subst hq; subst hrun
    simp only [drainSteps, ne_eq, not_true_eq_false, if_false, ht, Bool.false_eq_true]

/-- twin of `drainLoop`: the number of cuts (`chained > limit`: marked entries purged, counter reset) -/
def drainTrips (m : Machine) (u : UEnv) : Nat → Nat → St → Nat
  | 0, _, _ => 0
  | fuel + 1, c, s =>
    match s.queue with
    | [] => 0
    | q :: rest =>
      if s.status ≠ "running" then 0
      else if syncTrips m c q then 1 + drainTrips m u fuel 0 (syncPurge s)
      else if (syncMacro m u q.ev { s with queue := rest }).err.isSome then 0 else drainTrips m u fuel (chainedNext c q) (syncMacro m u q.ev { s with queue := rest })

theorem drainTrips_zero (m : Machine) (u : UEnv) (c : Nat) (s : St) : drainTrips m u 0 c s = (0) := by
  simp only [drainTrips]

theorem drainTrips_nil (m : Machine) (u : UEnv) (fuel c : Nat) (s : St) (hq : s.queue = []) :
    drainTrips m u (fuel + 1) c s = 0 := by
  cases s with
  | mk cfg hist queue status trace err ctx rd errors =>
    simp only at hq
    subst hq
    simp only [drainTrips]

theorem drainTrips_dead (m : Machine) (u : UEnv) (fuel c : Nat) (s : St) (h : s.status ≠ "running") :
    drainTrips m u (fuel + 1) c s = 0 := by
  cases hq : s.queue with
  | nil => exact drainTrips_nil m u fuel c s hq
  | cons q rest =>
    cases s with
    | mk cfg hist queue status trace err ctx rd errors =>
      simp only at hq h
      subst hq
      simp only [drainTrips, ne_eq, h, not_false_eq_true, if_true]

theorem drainTrips_trip (m : Machine) (u : UEnv) (fuel c : Nat) (s : St) (q : QEv) (rest : List QEv)
    (hq : s.queue = q :: rest) (hrun : s.status = "running") (ht : syncTrips m c q = true) :
    drainTrips m u (fuel + 1) c s = 1 + drainTrips m u fuel 0 (syncPurge s) := by
  cases s with
  | mk cfg hist queue status trace err ctx rd errors =>
    simp only at hq hrun
    subst hq; subst hrun
    simp only [drainTrips, ne_eq, not_true_eq_false, if_false, ht, if_true]

theorem drainTrips_step (m : Machine) (u : UEnv) (fuel c : Nat) (s : St) (q : QEv) (rest : List QEv)
    (hq : s.queue = q :: rest) (hrun : s.status = "running") (ht : syncTrips m c q = false) :
    drainTrips m u (fuel + 1) c s =
      if (syncMacro m u q.ev { s with queue := rest }).err.isSome then 0 else drainTrips m u fuel (chainedNext c q) (syncMacro m u q.ev { s with queue := rest }) := by
  cases s with
  | mk cfg hist queue status trace err ctx rd errors =>
    simp only at hq hrun
    subst hq; subst hrun
    simp only [drainTrips, ne_eq, not_true_eq_false, if_false, ht, Bool.false_eq_true]

/-- twin of `drainLoop`: the drain did not run to its natural end — a cut happened, or the MODEL's fuel ran
    out with events still queued on a running interpreter (never the case with `drainFuel`: `drainCut_iff_trips`) -/
def drainCut (m : Machine) (u : UEnv) : Nat → Nat → St → Bool
  | 0, _, s => !s.queue.isEmpty && decide (s.status = "running")
  | fuel + 1, c, s =>
    match s.queue with
    | [] => false
    | q :: rest =>
      if s.status ≠ "running" then false
      else if syncTrips m c q then true
      else if (syncMacro m u q.ev { s with queue := rest }).err.isSome then false else drainCut m u fuel (chainedNext c q) (syncMacro m u q.ev { s with queue := rest })

theorem drainCut_zero (m : Machine) (u : UEnv) (c : Nat) (s : St) : drainCut m u 0 c s = (!s.queue.isEmpty && decide (s.status = "running")) := by
  simp only [drainCut]

theorem drainCut_nil (m : Machine) (u : UEnv) (fuel c : Nat) (s : St) (hq : s.queue = []) :
    drainCut m u (fuel + 1) c s = false := by
  cases s with
  | mk cfg hist queue status trace err ctx rd errors =>
    simp only at hq
    subst hq
    simp only [drainCut]

theorem drainCut_dead (m : Machine) (u : UEnv) (fuel c : Nat) (s : St) (h : s.status ≠ "running") :
    drainCut m u (fuel + 1) c s = false := by
  cases hq : s.queue with
  | nil => exact drainCut_nil m u fuel c s hq
  | cons q rest =>
    cases s with
    | mk cfg hist queue status trace err ctx rd errors =>
      simp only at hq h
      subst hq
      simp only [drainCut, ne_eq, h, not_false_eq_true, if_true]

theorem drainCut_trip (m : Machine) (u : UEnv) (fuel c : Nat) (s : St) (q : QEv) (rest : List QEv)
    (hq : s.queue = q :: rest) (hrun : s.status = "running") (ht : syncTrips m c q = true) :
    drainCut m u (fuel + 1) c s = true := by
  cases s with
  | mk cfg hist queue status trace err ctx rd errors =>
    simp only at hq hrun
    subst hq; subst hrun
    simp only [drainCut, ne_eq, not_true_eq_false, if_false, ht, if_true]

theorem drainCut_step (m : Machine) (u : UEnv) (fuel c : Nat) (s : St) (q : QEv) (rest : List QEv)
    (hq : s.queue = q :: rest) (hrun : s.status = "running") (ht : syncTrips m c q = false) :
    drainCut m u (fuel + 1) c s =
      if (syncMacro m u q.ev { s with queue := rest }).err.isSome then false else drainCut m u fuel (chainedNext c q) (syncMacro m u q.ev { s with queue := rest }) := by
  cases s with
  | mk cfg hist queue status trace err ctx rd errors =>
    simp only at hq hrun
    subst hq; subst hrun
    simp only [drainCut, ne_eq, not_true_eq_false, if_false, ht, Bool.false_eq_true]

/-- twin of `drainLoop`: the MODEL's fuel ran out with events pending on a running interpreter (the code has
    no such bound: this would be a `send()` that does not return) -/
def drainHang (m : Machine) (u : UEnv) : Nat → Nat → St → Bool
  | 0, _, s => !s.queue.isEmpty && decide (s.status = "running")
  | fuel + 1, c, s =>
    match s.queue with
    | [] => false
    | q :: rest =>
      if s.status ≠ "running" then false
      else if syncTrips m c q then drainHang m u fuel 0 (syncPurge s)
      else if (syncMacro m u q.ev { s with queue := rest }).err.isSome then false else drainHang m u fuel (chainedNext c q) (syncMacro m u q.ev { s with queue := rest })

theorem drainHang_zero (m : Machine) (u : UEnv) (c : Nat) (s : St) : drainHang m u 0 c s = (!s.queue.isEmpty && decide (s.status = "running")) := by
  simp only [drainHang]

theorem drainHang_nil (m : Machine) (u : UEnv) (fuel c : Nat) (s : St) (hq : s.queue = []) :
    drainHang m u (fuel + 1) c s = false := by
  cases s with
  | mk cfg hist queue status trace err ctx rd errors =>
    simp only at hq
    subst hq
    simp only [drainHang]

theorem drainHang_dead (m : Machine) (u : UEnv) (fuel c : Nat) (s : St) (h : s.status ≠ "running") :
    drainHang m u (fuel + 1) c s = false := by
  cases hq : s.queue with
  | nil => exact drainHang_nil m u fuel c s hq
  | cons q rest =>
    cases s with
    | mk cfg hist queue status trace err ctx rd errors =>
      simp only at hq h
      subst hq
      simp only [drainHang, ne_eq, h, not_false_eq_true, if_true]

theorem drainHang_trip (m : Machine) (u : UEnv) (fuel c : Nat) (s : St) (q : QEv) (rest : List QEv)
    (hq : s.queue = q :: rest) (hrun : s.status = "running") (ht : syncTrips m c q = true) :
    drainHang m u (fuel + 1) c s = drainHang m u fuel 0 (syncPurge s) := by
  cases s with
  | mk cfg hist queue status trace err ctx rd errors =>
    simp only at hq hrun
    subst hq; subst hrun
    simp only [drainHang, ne_eq, not_true_eq_false, if_false, ht, if_true]

theorem drainHang_step (m : Machine) (u : UEnv) (fuel c : Nat) (s : St) (q : QEv) (rest : List QEv)
    (hq : s.queue = q :: rest) (hrun : s.status = "running") (ht : syncTrips m c q = false) :
    drainHang m u (fuel + 1) c s =
      if (syncMacro m u q.ev { s with queue := rest }).err.isSome then false else drainHang m u fuel (chainedNext c q) (syncMacro m u q.ev { s with queue := rest }) := by
  cases s with
  | mk cfg hist queue status trace err ctx rd errors =>
    simp only at hq hrun
    subst hq; subst hrun
    simp only [drainHang, ne_eq, not_true_eq_false, if_false, ht, Bool.false_eq_true]

theorem drainLogQ_zero (m : Machine) (u : UEnv) (c : Nat) (s : St) : drainLogQ m u 0 c s = ([]) := by
  simp only [drainLogQ]

theorem drainLogQ_nil (m : Machine) (u : UEnv) (fuel c : Nat) (s : St) (hq : s.queue = []) :
    drainLogQ m u (fuel + 1) c s = [] := by
  cases s with
  | mk cfg hist queue status trace err ctx rd errors =>
    simp only at hq
    subst hq
    simp only [drainLogQ]

theorem drainLogQ_dead (m : Machine) (u : UEnv) (fuel c : Nat) (s : St) (h : s.status ≠ "running") :
    drainLogQ m u (fuel + 1) c s = [] := by
  cases hq : s.queue with
  | nil => exact drainLogQ_nil m u fuel c s hq
  | cons q rest =>
    cases s with
    | mk cfg hist queue status trace err ctx rd errors =>
      simp only at hq h
      subst hq
      simp only [drainLogQ, ne_eq, h, not_false_eq_true, if_true]

theorem drainLogQ_trip (m : Machine) (u : UEnv) (fuel c : Nat) (s : St) (q : QEv) (rest : List QEv)
    (hq : s.queue = q :: rest) (hrun : s.status = "running") (ht : syncTrips m c q = true) :
    drainLogQ m u (fuel + 1) c s = drainLogQ m u fuel 0 (syncPurge s) := by
  cases s with
  | mk cfg hist queue status trace err ctx rd errors =>
    simp only at hq hrun
    subst hq; subst hrun
    simp only [drainLogQ, ne_eq, not_true_eq_false, if_false, ht, if_true]

theorem drainLogQ_step (m : Machine) (u : UEnv) (fuel c : Nat) (s : St) (q : QEv) (rest : List QEv)
    (hq : s.queue = q :: rest) (hrun : s.status = "running") (ht : syncTrips m c q = false) :
    drainLogQ m u (fuel + 1) c s =
      q :: (if (syncMacro m u q.ev { s with queue := rest }).err.isSome = true then [] else drainLogQ m u fuel (chainedNext c q) (syncMacro m u q.ev { s with queue := rest })) := by
  cases s with
  | mk cfg hist queue status trace err ctx rd errors =>
    simp only at hq hrun
    subst hq; subst hrun
    simp only [drainLogQ, ne_eq, not_true_eq_false, if_false, ht, Bool.false_eq_true]

/-! ## 2b. the induction principle of the drain -/

/-- the five ways one iteration of the drain can go -/
theorem drain_cases (m : Machine) (u : UEnv) (P : Nat → Nat → St → Prop)
    (h0 : ∀ c s, P 0 c s)
    (hnil : ∀ fuel c s, s.queue = [] → P (fuel + 1) c s)
    (hdead : ∀ fuel c s, s.status ≠ "running" → P (fuel + 1) c s)
    (htrip : ∀ fuel c s q rest, s.queue = q :: rest → s.status = "running" → syncTrips m c q = true →
      P fuel 0 (syncPurge s) → P (fuel + 1) c s)
    (hstep : ∀ fuel c s q rest, s.queue = q :: rest → s.status = "running" → syncTrips m c q = false →
      ((syncMacro m u q.ev { s with queue := rest }).err.isSome = false →
        P fuel (chainedNext c q) (syncMacro m u q.ev { s with queue := rest })) → P (fuel + 1) c s) :
    ∀ fuel c s, P fuel c s := drainLoop_cases m u P h0 hnil hdead htrip hstep

theorem isSome_false_iff_none {α : Type} (o : Option α) : o.isSome = false ↔ o = none := by
  cases o <;> simp

theorem drainLoop_dead_status (m : Machine) (u : UEnv) (fuel c : Nat) {s : St} (h : s.status ≠ "running") :
    (drainLoop m u fuel c s).status = s.status := by
  cases fuel with
  | zero => rw [drainLoop_zero]; split <;> rfl
  | succ n => rw [drainLoop_not_running m u n c h]; split <;> rfl

/-- a drain that was not cut (and whose model fuel did not run out) had no trip -/
theorem drainTrips_of_not_cut (m : Machine) (u : UEnv) :
    ∀ fuel c s, drainCut m u fuel c s = false → drainTrips m u fuel c s = 0 := by
  apply drain_cases m u (fun fuel c s => drainCut m u fuel c s = false → drainTrips m u fuel c s = 0)
  · intro c s _; rfl
  · intro fuel c s hq _; exact drainTrips_nil m u fuel c s hq
  · intro fuel c s hr _; exact drainTrips_dead m u fuel c s hr
  · intro fuel c s q rest hq hr ht _ hc
    rw [drainCut_trip m u fuel c s q rest hq hr ht] at hc
    exact absurd hc (by simp)
  · intro fuel c s q rest hq hr ht ih hc
    rw [drainCut_step m u fuel c s q rest hq hr ht] at hc
    rw [drainTrips_step m u fuel c s q rest hq hr ht]
    split
    · rfl
    · rename_i he
      rw [if_neg he] at hc
      exact ih (by simpa using he) hc

/-! ## 3. termination: the model fuel `drainFuel` always suffices -/

/-- the measure of the drain loop: `L + 2` per pending EXTERNAL event (it is dequeued once; until the next
    one is, at most `L` marked events are processed and one cut happens), plus — while a marked event is
    pending — the room left below the bound, `L + 1 - chained` -/
def drainPot (L c : Nat) (q : List QEv) : Nat := cntExt q * (L + 2) + (if cntSelf q = 0 then 0 else L + 1 - c)

theorem drainPot_le_fuel (m : Machine) (s : St) : drainPot m.maxIterations 0 s.queue ≤ drainFuel m s := by
  unfold drainPot drainFuel
  rw [extCount_eq_cntExt, Nat.add_mul, Nat.one_mul]
  split <;> omega

theorem queue_nil_of_pot_zero {L c : Nat} {q : List QEv} (hc : c ≤ L) (hp : drainPot L c q ≤ 0) : q = [] := by
  have ht := cnt_total q
  unfold drainPot at hp
  have h1 : cntExt q = 0 := by
    cases h : cntExt q with
    | zero => rfl
    | succ k => rw [h, Nat.succ_mul] at hp; omega
  have h2 : cntSelf q = 0 := by
    split at hp
    · assumption
    · omega
  exact List.length_eq_zero_iff.1 (by omega)

/-- the arithmetic of one processed event: the measure strictly decreases -/
theorem drainPot_step (m : Machine) (u : UEnv) (c : Nat) (s : St) (q : QEv) (rest : List QEv)
    (hq : s.queue = q :: rest) (hc : c ≤ m.maxIterations) (ht : syncTrips m c q = false) :
    drainPot m.maxIterations (chainedNext c q) (syncMacro m u q.ev { s with queue := rest }).queue + 1 ≤
      drainPot m.maxIterations c s.queue := by
  obtain ⟨h1, _, _⟩ := syncMacro_cnt m u q.ev { s with queue := rest }
  have h1' : cntExt (syncMacro m u q.ev { s with queue := rest }).queue = cntExt rest := h1
  unfold drainPot
  rw [h1', hq, cntExt_cons, cntSelf_cons]
  cases hs : q.self with
  | false =>
    rw [chainedNext_ext c hs]
    simp only [Bool.false_eq_true, if_false, Nat.zero_add]
    rw [Nat.add_mul, Nat.one_mul]
    split <;> split <;> omega
  | true =>
    have hlt : c + 1 ≤ m.maxIterations := by
      rcases (syncTrips_eq_false m c q).1 ht with h | h
      · rw [hs] at h; exact absurd h (by simp)
      · exact h
    rw [chainedNext_self c hs]
    simp only [if_true, Nat.zero_add]
    have : ¬ (1 + cntSelf rest = 0) := by omega
    rw [if_neg this]
    split <;> omega

/-- the arithmetic of a cut -/
theorem drainPot_trip (m : Machine) (c : Nat) (s : St) (q : QEv) (rest : List QEv)
    (hq : s.queue = q :: rest) (hc : c ≤ m.maxIterations) (ht : syncTrips m c q = true) :
    drainPot m.maxIterations 0 (syncPurge s).queue + 1 ≤ drainPot m.maxIterations c s.queue := by
  obtain ⟨h1, h2⟩ := cnt_syncPurge s
  have hself := ((syncTrips_eq_true m c q).1 ht).1
  unfold drainPot
  rw [h1, h2, if_pos rfl]
  have : ¬ (cntSelf s.queue = 0) := by rw [hq, cntSelf_cons, hself]; simp
  rw [if_neg this]
  omega

/-- **the drain terminates**: with a fuel of at least the measure the model's fuel never runs out with events
    pending on a running interpreter — for every machine, user code, state and counter within the bound -/
theorem drain_no_hang_pot (m : Machine) (u : UEnv) :
    ∀ fuel c s, c ≤ m.maxIterations → drainPot m.maxIterations c s.queue ≤ fuel → drainHang m u fuel c s = false := by
  apply drain_cases m u (fun fuel c s => c ≤ m.maxIterations → drainPot m.maxIterations c s.queue ≤ fuel →
    drainHang m u fuel c s = false)
  · intro c s hc hp
    rw [drainHang_zero, queue_nil_of_pot_zero hc hp]; rfl
  · intro fuel c s hq _ _; exact drainHang_nil m u fuel c s hq
  · intro fuel c s hr _ _; exact drainHang_dead m u fuel c s hr
  · intro fuel c s q rest hq hr ht ih hc hp
    rw [drainHang_trip m u fuel c s q rest hq hr ht]
    have := drainPot_trip m c s q rest hq hc ht
    exact ih (Nat.zero_le _) (by omega)
  · intro fuel c s q rest hq hr ht ih hc hp
    rw [drainHang_step m u fuel c s q rest hq hr ht]
    split
    · rfl
    · rename_i he
      have := drainPot_step m u c s q rest hq hc ht
      exact ih (by simpa using he) (chainedNext_le m c q hc ht) (by omega)

/-- … in particular with the fuel the model uses -/
theorem drain_no_hang (m : Machine) (u : UEnv) (s : St) (F : Nat) (hF : drainFuel m s ≤ F) :
    drainHang m u F 0 s = false :=
  drain_no_hang_pot m u F 0 s (Nat.zero_le _) (Nat.le_trans (drainPot_le_fuel m s) hF)

/-- **fuel monotonicity**: a drain whose fuel did not run out is the same drain with any larger fuel -/
theorem drain_fuel_mono (m : Machine) (u : UEnv) :
    ∀ fuel c s, drainHang m u fuel c s = false → ∀ fuel', fuel ≤ fuel' →
      drainLoop m u fuel' c s = drainLoop m u fuel c s ∧ drainLogQ m u fuel' c s = drainLogQ m u fuel c s := by
  apply drain_cases m u (fun fuel c s => drainHang m u fuel c s = false → ∀ fuel', fuel ≤ fuel' →
      drainLoop m u fuel' c s = drainLoop m u fuel c s ∧ drainLogQ m u fuel' c s = drainLogQ m u fuel c s)
  · intro c s hh fuel' _
    cases fuel' with
    | zero => exact ⟨rfl, rfl⟩
    | succ k =>
      cases hq : s.queue with
      | nil =>
        rw [drainLoop_nil m u k c s hq, drainLogQ_nil m u k c s hq, drainLoop_zero, drainLogQ_zero]
        simp [hq]
      | cons q rest =>
        have hr : s.status ≠ "running" := by
          rw [drainHang_zero] at hh
          intro hr
          simp [hq, hr] at hh
        rw [drainLoop_not_running m u k c hr, drainLogQ_dead m u k c s hr, drainLoop_zero, drainLogQ_zero]
        simp [hq]
  · intro fuel c s hq _ fuel' hf
    obtain ⟨k, rfl⟩ : ∃ k, fuel' = k + 1 := ⟨fuel' - 1, by omega⟩
    rw [drainLoop_nil m u k c s hq, drainLogQ_nil m u k c s hq, drainLoop_nil m u fuel c s hq,
      drainLogQ_nil m u fuel c s hq]
    exact ⟨rfl, rfl⟩
  · intro fuel c s hr _ fuel' hf
    obtain ⟨k, rfl⟩ : ∃ k, fuel' = k + 1 := ⟨fuel' - 1, by omega⟩
    rw [drainLoop_not_running m u k c hr, drainLogQ_dead m u k c s hr, drainLoop_not_running m u fuel c hr,
      drainLogQ_dead m u fuel c s hr]
    exact ⟨rfl, rfl⟩
  · intro fuel c s q rest hq hr ht ih hh fuel' hf
    obtain ⟨k, rfl⟩ : ∃ k, fuel' = k + 1 := ⟨fuel' - 1, by omega⟩
    rw [drainHang_trip m u fuel c s q rest hq hr ht] at hh
    rw [drainLoop_trip m u k c s q rest hq hr ht, drainLogQ_trip m u k c s q rest hq hr ht,
      drainLoop_trip m u fuel c s q rest hq hr ht, drainLogQ_trip m u fuel c s q rest hq hr ht]
    exact ih hh k (by omega)
  · intro fuel c s q rest hq hr ht ih hh fuel' hf
    obtain ⟨k, rfl⟩ : ∃ k, fuel' = k + 1 := ⟨fuel' - 1, by omega⟩
    rw [drainHang_step m u fuel c s q rest hq hr ht] at hh
    rw [drainLoop_cons m u k c s q rest hq hr ht, drainLogQ_step m u k c s q rest hq hr ht,
      drainLoop_cons m u fuel c s q rest hq hr ht, drainLogQ_step m u fuel c s q rest hq hr ht]
    by_cases he : (syncMacro m u q.ev { s with queue := rest }).err.isSome = true
    · rw [if_pos he, if_pos he, if_pos he, if_pos he]; exact ⟨rfl, rfl⟩
    · rw [if_neg he] at hh
      rw [if_neg he, if_neg he, if_neg he, if_neg he]
      obtain ⟨h1, h2⟩ := ih (by simpa using he) hh k (by omega)
      exact ⟨h1, by rw [h2]⟩

/-- **the model fuel is irrelevant**: the drain the model runs (`drainFlagged`: fuel `drainFuel`) is the drain
    with ANY larger fuel — the real, fuel-less `while self._event_queue:` loop -/
theorem sync_fuel_irrelevant (m : Machine) (u : UEnv) (s : St) (F : Nat) (hF : drainFuel m s ≤ F) :
    drainLoop m u F 0 s = drainFlagged m u s ∧ drainLogQ m u F 0 s = drainLogQ m u (drainFuel m s) 0 s :=
  drain_fuel_mono m u (drainFuel m s) 0 s (drain_no_hang m u s _ (Nat.le_refl _)) F hF

/-- with a fuel that does not run out, "cut" means exactly: the bound tripped at least once -/
theorem drainCut_iff_trips (m : Machine) (u : UEnv) :
    ∀ fuel c s, drainHang m u fuel c s = false → (drainCut m u fuel c s = true ↔ 0 < drainTrips m u fuel c s) := by
  apply drain_cases m u (fun fuel c s => drainHang m u fuel c s = false →
    (drainCut m u fuel c s = true ↔ 0 < drainTrips m u fuel c s))
  · intro c s hh
    rw [drainHang_zero] at hh
    rw [drainCut_zero, drainTrips_zero, hh]
    simp
  · intro fuel c s hq _; rw [drainCut_nil m u fuel c s hq, drainTrips_nil m u fuel c s hq]; simp
  · intro fuel c s hr _; rw [drainCut_dead m u fuel c s hr, drainTrips_dead m u fuel c s hr]; simp
  · intro fuel c s q rest hq hr ht _ _
    rw [drainCut_trip m u fuel c s q rest hq hr ht, drainTrips_trip m u fuel c s q rest hq hr ht]
    simp only [true_iff]; omega
  · intro fuel c s q rest hq hr ht ih hh
    rw [drainHang_step m u fuel c s q rest hq hr ht] at hh
    rw [drainCut_step m u fuel c s q rest hq hr ht, drainTrips_step m u fuel c s q rest hq hr ht]
    by_cases he : (syncMacro m u q.ev { s with queue := rest }).err.isSome = true
    · rw [if_pos he, if_pos he]; simp
    · rw [if_neg he] at hh
      rw [if_neg he, if_neg he]
      exact ih (by simpa using he) hh

/-! ## 4. external events are never discarded by the bound -/

theorem drainLoop_zero_queue_ext (m : Machine) (u : UEnv) (c : Nat) (s : St) :
    extOf (drainLoop m u 0 c s).queue <+: extOf s.queue := by
  rw [drainLoop_zero]; split
  · exact List.prefix_refl _
  · exact List.nil_prefix

/-- **external events: a prefix of them is received, in order, the rest is still queued or was dropped by the
    status gate.** For every machine, user code, state, counter and fuel: the external (unmarked) events the
    drain received, followed by those still queued when it returns, are an initial segment of the external
    events that were queued when it started — none skipped, none duplicated, order kept, whatever marked
    entries (leftovers of a drain that raised, events raised meanwhile) are queued between them, and however
    often the bound cuts. -/
theorem drain_external_prefix (m : Machine) (u : UEnv) :
    ∀ fuel c s, extOf (drainLogQ m u fuel c s) ++ extOf (drainLoop m u fuel c s).queue <+: extOf s.queue := by
  apply drain_cases m u (fun fuel c s =>
    extOf (drainLogQ m u fuel c s) ++ extOf (drainLoop m u fuel c s).queue <+: extOf s.queue)
  · intro c s; rw [drainLogQ_zero]; exact drainLoop_zero_queue_ext m u c s
  · intro fuel c s hq; rw [drainLogQ_nil m u fuel c s hq, drainLoop_nil m u fuel c s hq]; exact List.prefix_refl _
  · intro fuel c s hr
    rw [drainLogQ_dead m u fuel c s hr, drainLoop_not_running m u fuel c hr]
    split
    · exact List.prefix_refl _
    · exact List.nil_prefix
  · intro fuel c s q rest hq hr ht ih
    rw [drainLogQ_trip m u fuel c s q rest hq hr ht, drainLoop_trip m u fuel c s q rest hq hr ht]
    rw [extOf_syncPurge] at ih; exact ih
  · intro fuel c s q rest hq hr ht ih
    rw [drainLogQ_step m u fuel c s q rest hq hr ht, drainLoop_cons m u fuel c s q rest hq hr ht]
    have hM : extOf (syncMacro m u q.ev { s with queue := rest }).queue = extOf rest :=
      (syncMacro_cnt m u q.ev { s with queue := rest }).2.2
    have hcons : ∀ l : List QEv, extOf (q :: l) = extOf [q] ++ extOf l := fun l => extOf_append [q] l
    by_cases he : (syncMacro m u q.ev { s with queue := rest }).err.isSome = true
    · rw [if_pos he, if_pos he, hM, hq, hcons rest]
      exact List.prefix_refl _
    · rw [if_neg he, if_neg he, hq, hcons rest, hcons (drainLogQ _ _ _ _ _), List.append_assoc]
      have := ih (by simpa using he)
      rw [hM] at this
      exact (List.prefix_append_right_inj _).2 this

/-- **external events are never discarded by the sync drain**: when the drain returns with the interpreter
    still "running" (the status gate did not fire) and the model's fuel did not run out (`drain_no_hang`: it
    never does with `drainFuel`), the external events received followed by the external events still queued
    ARE the external events that were queued at the start. -/
theorem drain_external_split (m : Machine) (u : UEnv) :
    ∀ fuel c s, drainHang m u fuel c s = false → (drainLoop m u fuel c s).status = "running" →
      extOf (drainLogQ m u fuel c s) ++ extOf (drainLoop m u fuel c s).queue = extOf s.queue := by
  apply drain_cases m u (fun fuel c s => drainHang m u fuel c s = false → (drainLoop m u fuel c s).status = "running" →
      extOf (drainLogQ m u fuel c s) ++ extOf (drainLoop m u fuel c s).queue = extOf s.queue)
  · intro c s hh hr
    have hrs : s.status = "running" := by
      rw [drainLoop_zero] at hr; split at hr <;> exact hr
    rw [drainHang_zero] at hh
    have hq : s.queue = [] := by
      cases hq : s.queue with
      | nil => rfl
      | cons q rest => simp [hq, hrs] at hh
    rw [drainLogQ_zero, drainLoop_zero]; simp [hq, extOf]
  · intro fuel c s hq _ _; rw [drainLogQ_nil m u fuel c s hq, drainLoop_nil m u fuel c s hq]; rfl
  · intro fuel c s hr _ hrun
    rw [drainLoop_dead_status m u _ c hr] at hrun
    exact absurd hrun hr
  · intro fuel c s q rest hq hr ht ih hh hrun
    rw [drainHang_trip m u fuel c s q rest hq hr ht] at hh
    rw [drainLoop_trip m u fuel c s q rest hq hr ht] at hrun
    rw [drainLogQ_trip m u fuel c s q rest hq hr ht, drainLoop_trip m u fuel c s q rest hq hr ht]
    have := ih hh hrun
    rw [extOf_syncPurge] at this; exact this
  · intro fuel c s q rest hq hr ht ih hh hrun
    rw [drainHang_step m u fuel c s q rest hq hr ht] at hh
    rw [drainLoop_cons m u fuel c s q rest hq hr ht] at hrun
    rw [drainLogQ_step m u fuel c s q rest hq hr ht, drainLoop_cons m u fuel c s q rest hq hr ht]
    have hM : extOf (syncMacro m u q.ev { s with queue := rest }).queue = extOf rest :=
      (syncMacro_cnt m u q.ev { s with queue := rest }).2.2
    have hcons : ∀ l : List QEv, extOf (q :: l) = extOf [q] ++ extOf l := fun l => extOf_append [q] l
    by_cases he : (syncMacro m u q.ev { s with queue := rest }).err.isSome = true
    · rw [if_pos he, if_pos he, hM, hq, hcons rest]
    · rw [if_neg he] at hh hrun
      rw [if_neg he, if_neg he, hq, hcons rest, hcons (drainLogQ _ _ _ _ _), List.append_assoc,
        ih (by simpa using he) hh hrun, hM]

/-- a drain that did not raise leaves NOTHING queued (processed, purged by a cut, or dropped by the status gate
    of a machine that stopped running) -/
theorem drainLoop_queue_nil_of_ok (m : Machine) (u : UEnv) :
    ∀ fuel c s, (drainLoop m u fuel c s).err = none → (drainLoop m u fuel c s).queue = [] := by
  apply drain_cases m u (fun fuel c s => (drainLoop m u fuel c s).err = none → (drainLoop m u fuel c s).queue = [])
  · intro c s _
    rw [drainLoop_zero]; split
    · rename_i h; exact List.isEmpty_iff.1 h
    · rfl
  · intro fuel c s hq _; rw [drainLoop_nil m u fuel c s hq]; exact hq
  · intro fuel c s hr _
    rw [drainLoop_not_running m u fuel c hr]; split
    · assumption
    · rfl
  · intro fuel c s q rest hq hr ht ih he
    rw [drainLoop_trip m u fuel c s q rest hq hr ht] at he ⊢
    exact ih he
  · intro fuel c s q rest hq hr ht ih he
    rw [drainLoop_cons m u fuel c s q rest hq hr ht] at he ⊢
    by_cases hs : (syncMacro m u q.ev { s with queue := rest }).err.isSome = true
    · rw [if_pos hs] at he
      rw [he] at hs; exact absurd hs (by simp)
    · rw [if_neg hs] at he ⊢
      exact ih (by simpa using hs) he

/-! ## 5. what one drain can do, whatever is queued -/

/-- the measure of the events PROCESSED by a drain: `L + 1` per pending external event (itself, and up to `L`
    marked events before the next cut), plus — while a marked event is pending — the room left below the
    bound -/
def stepsPot (L c : Nat) (q : List QEv) : Nat := cntExt q * (L + 1) + (if cntSelf q = 0 then 0 else L - c)

/-- **one drain processes at most `L + 1` events per external event queued when it starts, plus `L`** — a
    bound that does NOT depend on how many marked entries (leftovers of a drain that raised) are queued. -/
theorem drainSteps_le_pot (m : Machine) (u : UEnv) :
    ∀ fuel c s, c ≤ m.maxIterations → drainSteps m u fuel c s ≤ stepsPot m.maxIterations c s.queue := by
  apply drain_cases m u (fun fuel c s => c ≤ m.maxIterations →
    drainSteps m u fuel c s ≤ stepsPot m.maxIterations c s.queue)
  · intro c s _; rw [drainSteps_zero]; exact Nat.zero_le _
  · intro fuel c s hq _; rw [drainSteps_nil m u fuel c s hq]; exact Nat.zero_le _
  · intro fuel c s hr _; rw [drainSteps_dead m u fuel c s hr]; exact Nat.zero_le _
  · intro fuel c s q rest hq hr ht ih hc
    rw [drainSteps_trip m u fuel c s q rest hq hr ht]
    refine Nat.le_trans (ih (Nat.zero_le _)) ?_
    obtain ⟨h1, h2⟩ := cnt_syncPurge s
    unfold stepsPot
    rw [h1, h2, if_pos rfl]
    omega
  · intro fuel c s q rest hq hr ht ih hc
    rw [drainSteps_step m u fuel c s q rest hq hr ht]
    have h1' : cntExt (syncMacro m u q.ev { s with queue := rest }).queue = cntExt rest :=
      (syncMacro_cnt m u q.ev { s with queue := rest }).1
    have key : stepsPot m.maxIterations (chainedNext c q) (syncMacro m u q.ev { s with queue := rest }).queue + 1 ≤
        stepsPot m.maxIterations c s.queue := by
      unfold stepsPot
      rw [h1', hq, cntExt_cons, cntSelf_cons]
      cases hs : q.self with
      | false =>
        rw [chainedNext_ext c hs]
        simp only [Bool.false_eq_true, if_false, Nat.zero_add]
        rw [Nat.add_mul, Nat.one_mul]
        split <;> split <;> omega
      | true =>
        have hlt : c + 1 ≤ m.maxIterations := by
          rcases (syncTrips_eq_false m c q).1 ht with h | h
          · rw [hs] at h; exact absurd h (by simp)
          · exact h
        rw [chainedNext_self c hs]
        simp only [if_true, Nat.zero_add]
        have : ¬ (1 + cntSelf rest = 0) := by omega
        rw [if_neg this]
        split <;> omega
    split
    · omega
    · rename_i he
      have := ih (by simpa using he) (chainedNext_le m c q hc ht)
      omega

theorem drainSteps_le (m : Machine) (u : UEnv) (fuel : Nat) (s : St) :
    drainSteps m u fuel 0 s ≤ cntExt s.queue * (m.maxIterations + 1) + m.maxIterations := by
  refine Nat.le_trans (drainSteps_le_pot m u fuel 0 s (Nat.zero_le _)) ?_
  unfold stepsPot; split <;> omega

/-- the received events are the processed ones -/
theorem drainLogQ_length (m : Machine) (u : UEnv) :
    ∀ fuel c s, (drainLogQ m u fuel c s).length = drainSteps m u fuel c s := by
  apply drain_cases m u (fun fuel c s => (drainLogQ m u fuel c s).length = drainSteps m u fuel c s)
  · intro c s; rfl
  · intro fuel c s hq; rw [drainLogQ_nil m u fuel c s hq, drainSteps_nil m u fuel c s hq]; rfl
  · intro fuel c s hr; rw [drainLogQ_dead m u fuel c s hr, drainSteps_dead m u fuel c s hr]; rfl
  · intro fuel c s q rest hq hr ht ih
    rw [drainLogQ_trip m u fuel c s q rest hq hr ht, drainSteps_trip m u fuel c s q rest hq hr ht]; exact ih
  · intro fuel c s q rest hq hr ht ih
    rw [drainLogQ_step m u fuel c s q rest hq hr ht, drainSteps_step m u fuel c s q rest hq hr ht]
    split
    · rfl
    · rename_i he
      rw [List.length_cons, ih (by simpa using he)]; omega

/-- `K` bounds what one macrostep of this machine, with this user code, can enqueue -/
def MacroFanout (m : Machine) (u : UEnv) (K : Nat) : Prop :=
  ∀ (e : Ev) (s : St), (syncMacro m u e s).queue.length ≤ s.queue.length + K

theorem syncMacro_cntSelf_le {m : Machine} {u : UEnv} {K : Nat} (hK : MacroFanout m u K) (e : Ev) (s : St) :
    cntSelf (syncMacro m u e s).queue ≤ cntSelf s.queue + K := by
  obtain ⟨added, hq, hm⟩ := syncMacro_marked m u e s
  have := hK e s
  rw [hq, List.length_append] at this
  rw [hq, cntSelf_append, (cntSelf_all_true hm).1]
  omega

/-- **what a drain leaves queued.** The marked entries in the queue when a drain returns — in particular one
    that ended with an error, which keeps them — are at most the marked entries queued when it started (none
    of them if the bound cut at least once: a cut purges them all) plus `K` per event this drain processed. -/
theorem drain_leftovers (m : Machine) (u : UEnv) (K : Nat) (hK : MacroFanout m u K) :
    ∀ fuel c s, cntSelf (drainLoop m u fuel c s).queue ≤
      (if drainTrips m u fuel c s = 0 then cntSelf s.queue else 0) + K * drainSteps m u fuel c s := by
  apply drain_cases m u (fun fuel c s => cntSelf (drainLoop m u fuel c s).queue ≤
      (if drainTrips m u fuel c s = 0 then cntSelf s.queue else 0) + K * drainSteps m u fuel c s)
  · intro c s
    rw [drainLoop_zero, drainTrips_zero, drainSteps_zero, if_pos rfl]
    split
    · omega
    · simp [cntSelf]
  · intro fuel c s hq
    rw [drainLoop_nil m u fuel c s hq, drainTrips_nil m u fuel c s hq, if_pos rfl]; omega
  · intro fuel c s hr
    rw [drainLoop_not_running m u fuel c hr, drainTrips_dead m u fuel c s hr, if_pos rfl]
    split
    · omega
    · simp [cntSelf]
  · intro fuel c s q rest hq hr ht ih
    rw [drainLoop_trip m u fuel c s q rest hq hr ht, drainTrips_trip m u fuel c s q rest hq hr ht,
      drainSteps_trip m u fuel c s q rest hq hr ht]
    have h0 : cntSelf (syncPurge s).queue = 0 := (cnt_syncPurge s).1
    rw [h0] at ih
    have : ¬ (1 + drainTrips m u fuel 0 (syncPurge s) = 0) := by omega
    rw [if_neg this]
    split at ih <;> omega
  · intro fuel c s q rest hq hr ht ih
    rw [drainLoop_cons m u fuel c s q rest hq hr ht, drainTrips_step m u fuel c s q rest hq hr ht,
      drainSteps_step m u fuel c s q rest hq hr ht]
    have hM := syncMacro_cntSelf_le hK q.ev { s with queue := rest }
    have hrest : cntSelf ({ s with queue := rest } : St).queue ≤ cntSelf s.queue := by
      show cntSelf rest ≤ cntSelf s.queue
      rw [hq, cntSelf_cons]; omega
    by_cases he : (syncMacro m u q.ev { s with queue := rest }).err.isSome = true
    · rw [if_pos he, if_pos he, if_pos he, if_pos rfl, Nat.mul_one]; omega
    · rw [if_neg he, if_neg he, if_neg he, Nat.mul_add, Nat.mul_one]
      have := ih (by simpa using he)
      split <;> split at this <;> omega

/-- … the whole queue: it grows by at most `K` per processed event -/
theorem drain_queue_length (m : Machine) (u : UEnv) (K : Nat) (hK : MacroFanout m u K) :
    ∀ fuel c s, (drainLoop m u fuel c s).queue.length ≤ s.queue.length + K * drainSteps m u fuel c s := by
  apply drain_cases m u (fun fuel c s =>
    (drainLoop m u fuel c s).queue.length ≤ s.queue.length + K * drainSteps m u fuel c s)
  · intro c s
    rw [drainLoop_zero]; split
    · omega
    · simp
  · intro fuel c s hq; rw [drainLoop_nil m u fuel c s hq]; omega
  · intro fuel c s hr
    rw [drainLoop_not_running m u fuel c hr]; split
    · omega
    · simp
  · intro fuel c s q rest hq hr ht ih
    rw [drainLoop_trip m u fuel c s q rest hq hr ht, drainSteps_trip m u fuel c s q rest hq hr ht]
    have : (syncPurge s).queue.length ≤ s.queue.length := by
      rw [syncPurge_queue]; exact List.length_filter_le _ _
    omega
  · intro fuel c s q rest hq hr ht ih
    rw [drainLoop_cons m u fuel c s q rest hq hr ht, drainSteps_step m u fuel c s q rest hq hr ht]
    have hM := hK q.ev { s with queue := rest }
    have hrest : ({ s with queue := rest } : St).queue.length + 1 = s.queue.length := by
      show rest.length + 1 = s.queue.length
      rw [hq]; rfl
    by_cases he : (syncMacro m u q.ev { s with queue := rest }).err.isSome = true
    · rw [if_pos he, if_pos he, Nat.mul_one]; omega
    · rw [if_neg he, if_neg he, Nat.mul_add, Nat.mul_one]
      have := ih (by simpa using he)
      omega

/-! ## 6. an example machine for `Xsm/Properties/C13.lean` -/
namespace Ex
open XSM.Done.Ex

/-- a fan-out machine with a failing action: `E` raises `R` twice and then FAILS (`nope` is not implemented:
    the sync `send` raises, the drain is aborted, what is queued stays queued); `R` raises `R` twice; bound 3 -/
def fanErrM : Machine :=
  mkM 3 [("E", [tE 0 "E" [raiseA "R", raiseA "R", { type := "nope" }]]),
         ("R", [tE 1 "R" [{ type := "sawR" }, raiseA "R", raiseA "R"]])]
end Ex

end XSM.Term
