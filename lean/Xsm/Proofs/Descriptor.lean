import Xsm.Proofs.SelSound
/-
Helper lemmas for C20: event-descriptor matching (`matchingDescriptors`, the model of
`_matching_descriptors`) and the `on`-part of the upward walk (`onCands`, `collectChain`, the model
of `_collect_eligible_transitions`).
-/
namespace XSM

/-! ## vocabulary -/

/-- `ev` starts with one of the prefixes of the engine's synthetic events
    (`event_type.startswith(("done.", "error.", "after.", "xstate."))`) -/
def isInternal (ev : String) : Bool := internalPrefixes.any (fun p => sStartsWith ev p)

/-- key `k` is a partial descriptor `p.*` (and not the bare `*`) that matches `ev`:
    `ev` is `p` itself or starts with `p.` -/
def partialMatch (k ev : String) : Bool :=
  k != "*" && sEndsWith k ".*" && (ev == sDropRight k 2 || sStartsWith ev (sDropRight k 2 ++ "."))

theorem isInternal_iff {ev : String} :
    isInternal ev = true ↔ ∃ p ∈ internalPrefixes, sStartsWith ev p = true := by
  simp [isInternal, List.any_eq_true]

theorem partialMatch_iff {k ev : String} :
    partialMatch k ev = true ↔
      k ≠ "*" ∧ sEndsWith k ".*" = true ∧
        (ev = sDropRight k 2 ∨ sStartsWith ev (sDropRight k 2 ++ ".") = true) := by
  simp [partialMatch, and_assoc]

/-- the model's definition, with `Prop`-level tests -/
theorem matchingDescriptors_eq (keys : List String) (ev : String) :
    matchingDescriptors keys ev =
      if keys = [] ∨ ev = "" then [] else
      if isInternal ev = true then (if ev ∈ keys then [ev] else []) else
        (if ev ∈ keys then [ev] else []) ++ sortByLenDesc (keys.filter (fun k => partialMatch k ev))
          ++ (if "*" ∈ keys then ["*"] else []) := by
  unfold matchingDescriptors isInternal partialMatch
  simp only [Bool.or_eq_true, List.isEmpty_iff, decide_eq_true_eq, List.contains_iff_mem]

/-! ## the stable sort by decreasing length -/

theorem insertByLenDesc_perm (k : String) (xs : List String) :
    (insertByLenDesc k xs).Perm (k :: xs) := by
  induction xs with
  | nil => simp [insertByLenDesc]
  | cons y ys ih =>
    simp only [insertByLenDesc]
    split
    · exact List.Perm.refl _
    · exact ((List.Perm.cons y ih).trans (List.Perm.swap k y ys))

theorem sortByLenDesc_perm (ks : List String) : (sortByLenDesc ks).Perm ks := by
  induction ks with
  | nil => simp [sortByLenDesc]
  | cons k ks ih =>
    simp only [sortByLenDesc, List.foldr_cons] at ih ⊢
    exact (insertByLenDesc_perm k _).trans (List.Perm.cons k ih)

theorem mem_sortByLenDesc {x : String} {ks : List String} : x ∈ sortByLenDesc ks ↔ x ∈ ks :=
  (sortByLenDesc_perm ks).mem_iff

theorem insertByLenDesc_sorted {k : String} {xs : List String}
    (h : xs.Pairwise (fun a b => b.length ≤ a.length)) :
    (insertByLenDesc k xs).Pairwise (fun a b => b.length ≤ a.length) := by
  induction xs with
  | nil => simp [insertByLenDesc]
  | cons y ys ih =>
    simp only [insertByLenDesc]
    rw [List.pairwise_cons] at h
    split
    · rename_i hlt
      rw [List.pairwise_cons]
      refine ⟨?_, List.pairwise_cons.2 h⟩
      intro z hz
      simp only [List.mem_cons] at hz
      rcases hz with rfl | hz
      · omega
      · have := h.1 z hz; omega
    · rename_i hge
      rw [List.pairwise_cons]
      refine ⟨?_, ih h.2⟩
      intro z hz
      have hz' := (insertByLenDesc_perm k ys).mem_iff.1 hz
      rw [List.mem_cons] at hz'
      rcases hz' with rfl | hz'
      · omega
      · exact h.1 z hz'

theorem sortByLenDesc_sorted (ks : List String) :
    (sortByLenDesc ks).Pairwise (fun a b => b.length ≤ a.length) := by
  induction ks with
  | nil => simp [sortByLenDesc]
  | cons k ks ih =>
    simp only [sortByLenDesc, List.foldr_cons] at ih ⊢
    exact insertByLenDesc_sorted ih

/-! ## `matchingDescriptors`: first element, membership, shape -/

theorem matching_exact_first (keys : List String) (ev : String) (hev : ev ≠ "") (hmem : ev ∈ keys) :
    (matchingDescriptors keys ev).head? = some ev := by
  have hk : keys ≠ [] := List.ne_nil_of_mem hmem
  rw [matchingDescriptors_eq]
  simp only [hk, hev, or_self, if_false, hmem, if_true]
  split <;> simp

theorem matching_mem (keys : List String) (ev k : String) :
    k ∈ matchingDescriptors keys ev ↔
      keys ≠ [] ∧ ev ≠ "" ∧ k ∈ keys ∧
        (k = ev ∨ (isInternal ev = false ∧ (k = "*" ∨ partialMatch k ev = true))) := by
  rw [matchingDescriptors_eq]
  by_cases h0 : keys = [] ∨ ev = ""
  · rw [if_pos h0]
    simp only [List.not_mem_nil, false_iff]
    rintro ⟨h1, h2, _⟩
    rcases h0 with h | h
    · exact h1 h
    · exact h2 h
  · rw [if_neg h0]
    have hk : keys ≠ [] := fun h => h0 (Or.inl h)
    have he : ev ≠ "" := fun h => h0 (Or.inr h)
    simp only [hk, he, ne_eq, not_false_eq_true, true_and]
    by_cases hint : isInternal ev = true
    · simp only [hint, if_true]
      by_cases hm : ev ∈ keys
      · simp only [hm, if_true, List.mem_singleton]
        constructor
        · intro h; subst h; exact ⟨hm, Or.inl rfl⟩
        · rintro ⟨_, h | ⟨h, _⟩⟩
          · exact h
          · simp at h
      · simp only [hm, if_false, List.not_mem_nil, false_iff]
        rintro ⟨hkm, h | ⟨h, _⟩⟩
        · subst h; exact hm hkm
        · simp at h
    · have hint' : isInternal ev = false := by simpa using hint
      rw [if_neg hint]
      simp only [List.mem_append, mem_sortByLenDesc, List.mem_filter, hint', true_and]
      constructor
      · rintro ((h | ⟨hm, hp⟩) | h)
        · by_cases hm : ev ∈ keys
          · simp [hm] at h; subst h; exact ⟨hm, Or.inl rfl⟩
          · simp [hm] at h
        · exact ⟨hm, Or.inr (Or.inr hp)⟩
        · by_cases hs : "*" ∈ keys
          · simp [hs] at h; subst h; exact ⟨hs, Or.inr (Or.inl rfl)⟩
          · simp [hs] at h
      · rintro ⟨hm, h | h | h⟩
        · subst h; left; left; simp [hm]
        · subst h; right; simp [hm]
        · left; right; exact ⟨hm, h⟩

/-- the matching partial descriptors, in the order the model tries them -/
def partialsOf (keys : List String) (ev : String) : List String :=
  sortByLenDesc (keys.filter (fun k => partialMatch k ev))

theorem partialsOf_sorted (keys : List String) (ev : String) :
    (partialsOf keys ev).Pairwise (fun a b => b.length ≤ a.length) := sortByLenDesc_sorted _

theorem mem_partialsOf {keys : List String} {ev p : String} :
    p ∈ partialsOf keys ev ↔ p ∈ keys ∧ partialMatch p ev = true := by
  simp [partialsOf, mem_sortByLenDesc, List.mem_filter]

/-- non-internal, non-degenerate case: the exact three-part decomposition -/
theorem matching_eq_of_user (keys : List String) (ev : String) (h0 : keys ≠ []) (he : ev ≠ "")
    (hint : isInternal ev = false) :
    matchingDescriptors keys ev =
      (if ev ∈ keys then [ev] else []) ++ partialsOf keys ev ++ (if "*" ∈ keys then ["*"] else []) := by
  rw [matchingDescriptors_eq]; simp [h0, he, hint, partialsOf]

/-- internal case: only the exact key -/
theorem matching_eq_of_internal (keys : List String) (ev : String) (h0 : keys ≠ []) (he : ev ≠ "")
    (hint : isInternal ev = true) :
    matchingDescriptors keys ev = (if ev ∈ keys then [ev] else []) := by
  rw [matchingDescriptors_eq]; simp [h0, he, hint]

theorem matching_eq_nil (keys : List String) (ev : String) (h : keys = [] ∨ ev = "") :
    matchingDescriptors keys ev = [] := by
  rw [matchingDescriptors_eq, if_pos h]

/-- in every case: `exact ++ partials ++ star` -/
theorem matching_shape_all (keys : List String) (ev : String) :
    ∃ ex ps st, matchingDescriptors keys ev = ex ++ ps ++ st ∧
      (ex = [] ∨ (ex = [ev] ∧ ev ∈ keys)) ∧ (st = [] ∨ (st = ["*"] ∧ "*" ∈ keys)) ∧
      ps.Pairwise (fun a b => b.length ≤ a.length) ∧
      (∀ p ∈ ps, p ∈ keys ∧ partialMatch p ev = true) := by
  by_cases h0 : keys = [] ∨ ev = ""
  · exact ⟨[], [], [], by rw [matching_eq_nil _ _ h0]; rfl, Or.inl rfl, Or.inl rfl, List.Pairwise.nil,
      by simp⟩
  · have hk : keys ≠ [] := fun h => h0 (Or.inl h)
    have he : ev ≠ "" := fun h => h0 (Or.inr h)
    have hex : ∀ (b : Prop) [Decidable b] (x : String), (b → x ∈ keys) →
        ((if b then [x] else []) = [] ∨ ((if b then [x] else []) = [x] ∧ x ∈ keys)) := by
      intro b _ x hx
      by_cases hb : b
      · right; simp [hb, hx hb]
      · left; simp [hb]
    by_cases hint : isInternal ev = true
    · refine ⟨if ev ∈ keys then [ev] else [], [], [], ?_, hex _ ev id, Or.inl rfl, List.Pairwise.nil,
        by simp⟩
      rw [matching_eq_of_internal _ _ hk he hint]; simp
    · have hint' : isInternal ev = false := by simpa using hint
      exact ⟨_, _, _, matching_eq_of_user _ _ hk he hint', hex _ ev id, hex _ "*" id,
        partialsOf_sorted _ _, fun p hp => mem_partialsOf.1 hp⟩

/-- whenever `*` is among the matches it is the last one -/
theorem matching_star_last (keys : List String) (ev : String)
    (h : "*" ∈ matchingDescriptors keys ev) :
    (matchingDescriptors keys ev).getLast? = some "*" := by
  obtain ⟨hk, he, hs, hcase⟩ := (matching_mem keys ev "*").1 h
  by_cases hint : isInternal ev = true
  · rcases hcase with h1 | ⟨h1, _⟩
    · rw [matching_eq_of_internal _ _ hk he hint, ← h1]; simp [hs]
    · rw [hint] at h1; cases h1
  · have hint' : isInternal ev = false := by simpa using hint
    rw [matching_eq_of_user _ _ hk he hint']
    simp [hs, List.getLast?_append]

/-- before the final `*` there is no other `*` (unless the event is literally named `*`) -/
theorem matching_star_only_last (keys : List String) (ev : String) (hs : "*" ∈ keys) (he : ev ≠ "")
    (hne : ev ≠ "*") (hint : isInternal ev = false) :
    ∃ init, matchingDescriptors keys ev = init ++ ["*"] ∧ "*" ∉ init := by
  have hk : keys ≠ [] := List.ne_nil_of_mem hs
  refine ⟨(if ev ∈ keys then [ev] else []) ++ partialsOf keys ev, ?_, ?_⟩
  · rw [matching_eq_of_user _ _ hk he hint]; simp [hs]
  · intro hmem
    rw [List.mem_append] at hmem
    rcases hmem with hmem | hmem
    · split at hmem
      · simp only [List.mem_singleton] at hmem; exact hne hmem.symm
      · simp at hmem
    · have := (mem_partialsOf.1 hmem).2
      simp [partialMatch] at this

/-- engine-raised events are matched by their exact key only -/
theorem matching_internal_only_exact (keys : List String) (ev : String)
    (hint : isInternal ev = true) : matchingDescriptors keys ev ⊆ [ev] := by
  intro k hk
  obtain ⟨_, _, _, h | ⟨h, _⟩⟩ := (matching_mem keys ev k).1 hk
  · simp [h]
  · rw [hint] at h; cases h

/-! ## partial descriptors that match the same event have pairwise different lengths -/

theorem dotStar_toList : (".*" : String).toList = ['.', '*'] := by decide
theorem dot_toList : ("." : String).toList = ['.'] := by decide

/-- a partial descriptor's prefix is a prefix of the event it matches, and the key is prefix ++ ".*" -/
theorem partialMatch_prefix {k ev : String} (h : partialMatch k ev = true) :
    (sDropRight k 2).toList <+: ev.toList ∧ k.toList = (sDropRight k 2).toList ++ ['.', '*'] := by
  obtain ⟨_, hsuf, hm⟩ := partialMatch_iff.1 h
  simp only [sEndsWith, List.isSuffixOf_iff_suffix, dotStar_toList] at hsuf
  simp only [sStartsWith, List.isPrefixOf_iff_prefix, String.toList_append] at hm
  constructor
  · rcases hm with h | h
    · rw [← h]; exact List.prefix_refl _
    · exact List.IsPrefix.trans (List.prefix_append _ _) h
  · obtain ⟨t, ht⟩ := hsuf
    have : k.toList.take (k.toList.length - 2) = t := by
      rw [← ht]; simp
    simp only [sDropRight, String.toList_ofList]
    rw [this, ht]

theorem partialMatch_length_inj {k1 k2 ev : String}
    (h1 : partialMatch k1 ev = true) (h2 : partialMatch k2 ev = true)
    (hlen : k1.length = k2.length) : k1 = k2 := by
  obtain ⟨p1, e1⟩ := partialMatch_prefix h1
  obtain ⟨p2, e2⟩ := partialMatch_prefix h2
  have hl : (sDropRight k1 2).toList.length = (sDropRight k2 2).toList.length := by
    have a1 := congrArg List.length e1
    have a2 := congrArg List.length e2
    simp only [List.length_append, String.length_toList, List.length_cons, List.length_nil] at a1 a2
    simp only [String.length_toList]
    omega
  have : (sDropRight k1 2).toList = (sDropRight k2 2).toList :=
    (List.prefix_of_prefix_length_le p1 p2 (by omega)).eq_of_length hl
  apply String.toList_inj.1
  rw [e1, e2, this]

/-- the sorted list of matching partials does not depend on the order of the keys -/
theorem partialsOf_perm {keys keys' : List String} (ev : String) (hp : keys.Perm keys') :
    partialsOf keys ev = partialsOf keys' ev := by
  apply List.Perm.eq_of_pairwise (le := fun a b : String => b.length ≤ a.length)
  · intro a b ha hb hab hba
    exact partialMatch_length_inj (mem_partialsOf.1 ha).2 (mem_partialsOf.1 hb).2 (by omega)
  · exact partialsOf_sorted _ _
  · exact partialsOf_sorted _ _
  · exact ((sortByLenDesc_perm _).trans (hp.filter _)).trans (sortByLenDesc_perm _).symm

theorem matching_perm {keys keys' : List String} (ev : String) (hp : keys.Perm keys') :
    matchingDescriptors keys ev = matchingDescriptors keys' ev := by
  have hnil : keys = [] ↔ keys' = [] :=
    ⟨fun h => by subst h; exact hp.nil_eq.symm, fun h => by subst h; exact hp.eq_nil⟩
  have hpo := partialsOf_perm ev hp
  simp only [partialsOf] at hpo
  rw [matchingDescriptors_eq, matchingDescriptors_eq]
  simp only [hnil, hp.mem_iff, hpo]

/-! ## duplicates -/

theorem not_partialMatch_self {ev : String} (h : sEndsWith ev ".*" = false) :
    partialMatch ev ev = false := by
  simp [partialMatch, h]

theorem matching_nodup (keys : List String) (ev : String) (hn : keys.Nodup)
    (hstar : ev ≠ "*") (hsuf : sEndsWith ev ".*" = false) :
    (matchingDescriptors keys ev).Nodup := by
  by_cases h0 : keys = [] ∨ ev = ""
  · rw [matching_eq_nil _ _ h0]; exact List.Pairwise.nil
  · have hk : keys ≠ [] := fun h => h0 (Or.inl h)
    have he : ev ≠ "" := fun h => h0 (Or.inr h)
    have hone : ∀ (b : Prop) [Decidable b] (x : String), (if b then [x] else []).Nodup := by
      intro b _ x; split <;> simp
    by_cases hint : isInternal ev = true
    · rw [matching_eq_of_internal _ _ hk he hint]; exact hone _ _
    · have hint' : isInternal ev = false := by simpa using hint
      rw [matching_eq_of_user _ _ hk he hint']
      have hps : (partialsOf keys ev).Nodup :=
        (sortByLenDesc_perm _).nodup_iff.2 (List.Pairwise.filter _ hn)
      rw [List.nodup_append, List.nodup_append]
      refine ⟨⟨hone _ _, hps, ?_⟩, hone _ _, ?_⟩
      · intro a ha b hb hab
        subst hab
        split at ha
        · simp only [List.mem_singleton] at ha
          subst ha
          have := (mem_partialsOf.1 hb).2
          rw [not_partialMatch_self hsuf] at this; cases this
        · simp at ha
      · intro a ha b hb hab
        subst hab
        split at hb
        · simp only [List.mem_singleton] at hb
          subst hb
          rw [List.mem_append] at ha
          rcases ha with ha | ha
          · split at ha
            · simp only [List.mem_singleton] at ha; exact hstar ha.symm
            · simp at ha
          · have := (mem_partialsOf.1 ha).2
            simp [partialMatch] at this
        · simp at hb

theorem matching_exact_once (keys : List String) (ev : String) (hn : keys.Nodup)
    (hev : ev ≠ "") (hmem : ev ∈ keys) (hstar : ev ≠ "*") (hsuf : sEndsWith ev ".*" = false) :
    ∃ rest, matchingDescriptors keys ev = ev :: rest ∧ ev ∉ rest := by
  have hh := matching_exact_first keys ev hev hmem
  have hnd := matching_nodup keys ev hn hstar hsuf
  cases hmd : matchingDescriptors keys ev with
  | nil => rw [hmd] at hh; simp at hh
  | cons x rest =>
    rw [hmd] at hh hnd
    simp only [List.head?_cons, Option.some.injEq] at hh
    subst hh
    exact ⟨rest, rfl, (List.nodup_cons.1 hnd).1⟩

/-! ## the `on`-part of the upward walk -/

/-- the transition list stored under `key` in a state's `on` map (Python `current.on[key]`) -/
def transOf (d : StateDef) (key : String) : List Trans :=
  ((d.on.find? (fun kv => kv.1 = key)).map (·.2)).getD []

/-- attach the `blocked` flag to a producer result -/
def withFlag (b : Bool) : Except GErr (List Cand × GCache) → Except GErr (List Cand × Bool × GCache)
  | .error e => .error e
  | .ok (cs, c) => .ok (cs, b, c)

theorem takeWhile_append_of_exists {α} {p : α → Bool} {l₁ l₂ : List α}
    (h : ∃ x ∈ l₁, p x = false) : (l₁ ++ l₂).takeWhile p = l₁.takeWhile p := by
  induction l₁ with
  | nil => simp at h
  | cons a l ih =>
    simp only [List.cons_append, List.takeWhile_cons]
    cases hpa : p a with
    | false => rfl
    | true =>
      simp only [if_true]
      congr 1
      apply ih
      obtain ⟨x, hx, hpx⟩ := h
      rw [List.mem_cons] at hx
      rcases hx with rfl | hx
      · rw [hpa] at hpx; cases hpx
      · exact ⟨x, hx, hpx⟩

theorem filterPassing_append (m : Machine) (cfg : List Path) (env : GEnv) (src : Path)
    (xs ys : List Trans) (c : GCache) :
    filterPassing m cfg env src (xs ++ ys) c =
      seqC (filterPassing m cfg env src xs) (filterPassing m cfg env src ys) c := by
  induction xs generalizing c with
  | nil =>
    simp only [List.nil_append, seqC, filterPassing, pure, Except.pure]
    cases filterPassing m cfg env src ys c with
    | error e => rfl
    | ok r => obtain ⟨a, b⟩ := r; simp
  | cons t ts ih =>
    simp only [List.cons_append, filterPassing, bind, Except.bind, seqC]
    cases passes m cfg env c t with
    | error e => rfl
    | ok r =>
      obtain ⟨b, c1⟩ := r
      simp only [ih c1, seqC]
      cases filterPassing m cfg env src ts c1 with
      | error e => rfl
      | ok r1 =>
        obtain ⟨rest, c2⟩ := r1
        simp only [pure, Except.pure]
        cases filterPassing m cfg env src ys c2 with
        | error e => rfl
        | ok r2 => obtain ⟨zs, c3⟩ := r2; simp

/-- walking one key's list = guard-filtering the part before the first forbidden transition -/
theorem walk_eq (m : Machine) (cfg : List Path) (env : GEnv) (src : Path) (ts : List Trans)
    (c : GCache) :
    onCands.walk m cfg env src ts c =
      withFlag (ts.any (·.forbidden))
        (filterPassing m cfg env src (ts.takeWhile (fun t => !t.forbidden)) c) := by
  induction ts generalizing c with
  | nil => simp [onCands.walk, filterPassing, withFlag, pure, Except.pure]
  | cons t ts ih =>
    rw [onCands.walk.eq_2]
    cases hf : t.forbidden with
    | true => simp [hf, filterPassing, withFlag, pure, Except.pure]
    | false =>
      simp only [hf, Bool.false_eq_true, if_false, List.takeWhile_cons, Bool.not_false, if_true,
        List.any_cons, Bool.false_or, filterPassing, bind, Except.bind]
      cases passes m cfg env c t with
      | error e => rfl
      | ok r =>
        obtain ⟨b, c1⟩ := r
        simp only [ih c1]
        cases filterPassing m cfg env src (ts.takeWhile (fun t => !t.forbidden)) c1 with
        | error e => rfl
        | ok r1 => obtain ⟨rest, c2⟩ := r1; simp [withFlag, pure, Except.pure]

/-- **`onCands` in closed form**: flatten the lists of the matching keys in order, cut at the first
    forbidden transition, guard-filter what is left (threading the cache); `blocked` says whether a
    forbidden transition was met. Holds for every outcome, including a missing guard. -/
theorem onCands_eq (m : Machine) (cfg : List Path) (env : GEnv) (src : Path) (d : StateDef) (ev : Ev)
    (keys : List String) (c : GCache) :
    onCands m cfg env src d ev keys c =
      withFlag ((keys.flatMap (transOf d)).any (·.forbidden))
        (filterPassing m cfg env src
          ((keys.flatMap (transOf d)).takeWhile (fun t => !t.forbidden)) c) := by
  induction keys generalizing c with
  | nil => simp [onCands, filterPassing, withFlag, pure, Except.pure]
  | cons key keys ih =>
    rw [onCands.eq_2, walk_eq]
    change (withFlag ((transOf d key).any (·.forbidden))
        (filterPassing m cfg env src ((transOf d key).takeWhile (fun t => !t.forbidden)) c) >>= _) = _
    simp only [List.flatMap_cons, List.any_append]
    cases hany : (transOf d key).any (·.forbidden) with
    | true =>
      have hex : ∃ x ∈ transOf d key, (fun t : Trans => !t.forbidden) x = false := by
        obtain ⟨x, hx, hfx⟩ := List.any_eq_true.1 hany
        exact ⟨x, hx, by simp [hfx]⟩
      rw [takeWhile_append_of_exists hex]
      cases filterPassing m cfg env src ((transOf d key).takeWhile (fun t => !t.forbidden)) c with
      | error e => rfl
      | ok r => obtain ⟨here, c1⟩ := r; simp [withFlag, bind, Except.bind, pure, Except.pure]
    | false =>
      have hall : ∀ a ∈ transOf d key, (fun t : Trans => !t.forbidden) a = true := by
        intro a ha
        have := List.any_eq_false.1 hany a ha
        simpa using this
      have htw : (transOf d key).takeWhile (fun t => !t.forbidden) = transOf d key := by
        have := List.takeWhile_append_of_pos (l₂ := []) hall
        simpa using this
      rw [List.takeWhile_append_of_pos hall, htw, filterPassing_append]
      simp only [seqC, Bool.false_or]
      cases filterPassing m cfg env src (transOf d key) c with
      | error e => rfl
      | ok r =>
        obtain ⟨here, c1⟩ := r
        simp only [withFlag, bind, Except.bind, Bool.false_eq_true, if_false, ih c1]
        cases filterPassing m cfg env src
            ((keys.flatMap (transOf d)).takeWhile (fun t => !t.forbidden)) c1 with
        | error e => rfl
        | ok r1 => obtain ⟨more, c2⟩ := r1; simp [pure, Except.pure]

/-! ### order of the candidates -/

theorem filterPassing_sublist (m : Machine) (cfg : List Path) (env : GEnv) (src : Path) :
    ∀ (ts : List Trans) (c0 : GCache) (out : List Cand) (c1 : GCache),
      filterPassing m cfg env src ts c0 = .ok (out, c1) →
        (out.map (·.t)).Sublist ts ∧ ∀ x ∈ out, x.src = src := by
  intro ts
  induction ts with
  | nil =>
    intro c0 out c1 h
    simp only [filterPassing, pure, Except.pure, Except.ok.injEq, Prod.mk.injEq] at h
    obtain ⟨rfl, _⟩ := h; simp
  | cons t ts ih =>
    intro c0 out c1 h
    simp only [filterPassing, bind, Except.bind] at h
    cases hp : passes m cfg env c0 t with
    | error e => simp [hp] at h
    | ok r =>
      obtain ⟨b, c0'⟩ := r
      simp only [hp] at h
      cases hr : filterPassing m cfg env src ts c0' with
      | error e => simp [hr] at h
      | ok r2 =>
        obtain ⟨rest, c2⟩ := r2
        simp only [hr, pure, Except.pure, Except.ok.injEq, Prod.mk.injEq] at h
        obtain ⟨rfl, _⟩ := h
        obtain ⟨h1, h2⟩ := ih c0' rest c2 hr
        cases b with
        | true =>
          refine ⟨by simpa using h1.cons_cons t, ?_⟩
          intro x hx
          simp only [if_true, List.singleton_append, List.mem_cons] at hx
          rcases hx with rfl | hx
          · rfl
          · exact h2 x hx
        | false =>
          refine ⟨by simpa using h1.cons t, ?_⟩
          intro x hx
          exact h2 x (by simpa using hx)

/-- a guard oracle on transition identities agrees with everything already in the cache -/
def CacheOK (g : Nat → Bool) (c : GCache) : Prop := ∀ kv ∈ c, kv.2 = g kv.1

theorem passes_pure {m : Machine} {cfg : List Path} {env : GEnv} {g : Nat → Bool} {c : GCache}
    {t : Trans} (hc : CacheOK g c) (hg : guardOk m cfg env t.guard = .ok (g t.tid)) :
    ∃ c', passes m cfg env c t = .ok (g t.tid, c') ∧ CacheOK g c' := by
  unfold passes
  cases hf : c.find? (fun kv => kv.1 = t.tid) with
  | some kv =>
    obtain ⟨k, b⟩ := kv
    have hmem := List.mem_of_find?_eq_some hf
    have hk := List.find?_some hf
    simp only [decide_eq_true_eq] at hk
    have hb := hc _ hmem
    simp only at hb hk
    refine ⟨c, ?_, hc⟩
    simp [pure, Except.pure, hb, hk]
  | none =>
    refine ⟨c ++ [(t.tid, g t.tid)], ?_, ?_⟩
    · simp [hg, bind, Except.bind, pure, Except.pure]
    · intro kv hkv
      rw [List.mem_append] at hkv
      rcases hkv with hkv | hkv
      · exact hc kv hkv
      · simp only [List.mem_singleton] at hkv; subst hkv; rfl

theorem filterPassing_pure {m : Machine} {cfg : List Path} {env : GEnv} {g : Nat → Bool} (src : Path) :
    ∀ (ts : List Trans) (c : GCache), CacheOK g c →
      (∀ t ∈ ts, guardOk m cfg env t.guard = .ok (g t.tid)) →
      ∃ c', filterPassing m cfg env src ts c =
          .ok ((ts.filter (fun t => g t.tid)).map (fun t => ({ src := src, t := t } : Cand)), c') ∧
        CacheOK g c' := by
  intro ts
  induction ts with
  | nil => intro c hc _; exact ⟨c, by simp [filterPassing, pure, Except.pure], hc⟩
  | cons t ts ih =>
    intro c hc hg
    obtain ⟨c1, hp, hc1⟩ := passes_pure hc (hg t (by simp))
    obtain ⟨c2, hr, hc2⟩ := ih c1 hc1 (fun t' ht' => hg t' (List.mem_cons_of_mem _ ht'))
    refine ⟨c2, ?_, hc2⟩
    simp only [filterPassing, bind, Except.bind, hp, hr, pure, Except.pure, List.filter_cons]
    cases g t.tid <;> simp

/-- everything the `on`-walk at a state would look at, in order -/
def onAll (d : StateDef) (keys : List String) : List Trans := keys.flatMap (transOf d)

/-- the part of it that is reached: up to (excluding) the first forbidden transition -/
def onVisited (d : StateDef) (keys : List String) : List Trans :=
  (onAll d keys).takeWhile (fun t => !t.forbidden)

/-- a forbidden transition is met -/
def onBlocked (d : StateDef) (keys : List String) : Bool := (onAll d keys).any (·.forbidden)

theorem onCands_eq' (m : Machine) (cfg : List Path) (env : GEnv) (src : Path) (d : StateDef) (ev : Ev)
    (keys : List String) (c : GCache) :
    onCands m cfg env src d ev keys c =
      withFlag (onBlocked d keys) (filterPassing m cfg env src (onVisited d keys) c) :=
  onCands_eq m cfg env src d ev keys c

theorem onCands_ok_inv {m : Machine} {cfg : List Path} {env : GEnv} {src : Path} {d : StateDef}
    {ev : Ev} {keys : List String} {c c' : GCache} {out : List Cand} {blk : Bool}
    (h : onCands m cfg env src d ev keys c = .ok (out, blk, c')) :
    blk = onBlocked d keys ∧ filterPassing m cfg env src (onVisited d keys) c = .ok (out, c') := by
  rw [onCands_eq'] at h
  cases hf : filterPassing m cfg env src (onVisited d keys) c with
  | error e => rw [hf] at h; simp [withFlag] at h
  | ok r =>
    obtain ⟨o, cc⟩ := r
    rw [hf] at h
    simp only [withFlag, Except.ok.injEq, Prod.mk.injEq] at h
    obtain ⟨rfl, rfl, rfl⟩ := h
    exact ⟨rfl, rfl⟩

/-- if no forbidden transition is met, the visited transitions are the key lists, concatenated -/
theorem onVisited_of_not_blocked {d : StateDef} {keys : List String} (h : onBlocked d keys = false) :
    onVisited d keys = keys.flatMap (transOf d) := by
  have hall : ∀ a ∈ onAll d keys, (fun t : Trans => !t.forbidden) a = true := by
    intro a ha
    have := List.any_eq_false.1 h a ha
    simpa using this
  have := List.takeWhile_append_of_pos (l₂ := []) hall
  simpa [onVisited, onAll] using this

/-- if the first forbidden transition is under key `k`: all earlier keys' lists in full, then the
    part of `k`'s list before the forbidden transition; later keys are not looked at -/
theorem onVisited_of_blocked_at {d : StateDef} {pre post : List String} {k : String}
    (hpre : onBlocked d pre = false) (hk : (transOf d k).any (·.forbidden) = true) :
    onVisited d (pre ++ k :: post) =
      pre.flatMap (transOf d) ++ (transOf d k).takeWhile (fun t => !t.forbidden) ∧
    onBlocked d (pre ++ k :: post) = true := by
  have hall : ∀ a ∈ pre.flatMap (transOf d), (fun t : Trans => !t.forbidden) a = true := by
    intro a ha
    have := List.any_eq_false.1 hpre a ha
    simpa using this
  have hex : ∃ x ∈ transOf d k, (fun t : Trans => !t.forbidden) x = false := by
    obtain ⟨x, hx, hfx⟩ := List.any_eq_true.1 hk
    exact ⟨x, hx, by simp [hfx]⟩
  constructor
  · simp only [onVisited, onAll, List.flatMap_append, List.flatMap_cons]
    rw [List.takeWhile_append_of_pos hall, takeWhile_append_of_exists hex]
  · simp only [onBlocked, onAll, List.flatMap_append, List.flatMap_cons, List.any_append, hk,
      Bool.true_or, Bool.or_true]

/-! ### a forbidden transition stops the upward walk -/

/-- the `on` keys of a state that match the event -/
def onKeys (d : StateDef) (ev : Ev) : List String := matchingDescriptors (d.on.map (·.1)) ev.type

/-- the event is consumed at a state with definition `d`: the walk over the matching keys meets a
    forbidden transition -/
def consumesAt (d : StateDef) (ev : Ev) : Bool := onBlocked d (onKeys d ev)

theorem consumesAt_type_ne {d : StateDef} {ev : Ev} (h : consumesAt d ev = true) : ev.type ≠ "" := by
  intro he
  simp [consumesAt, onBlocked, onAll, onKeys, matching_eq_nil _ _ (Or.inr he)] at h

/-- at a consuming state the walk returns the `on` candidates found so far and nothing else: neither
    the other buckets of this state nor anything of the states further up (`ups`) is looked at -/
theorem collectChain_consumed (m : Machine) (cfg : List Path) (env : GEnv) (ev : Ev) (itc : Bool)
    (cur : Path) (ups : List Path) (d : StateDef) (hd : m.defAt cur = some d)
    (hb : consumesAt d ev = true) (c : GCache) :
    collectChain m cfg env ev itc false (cur :: ups) c =
      filterPassing m cfg env cur (onVisited d (onKeys d ev)) c := by
  simp only [collectChain, hd, Bool.false_eq_true, if_false]
  rw [show matchingDescriptors (d.on.map (·.1)) ev.type = onKeys d ev from rfl, onCands_eq']
  rw [show onBlocked d (onKeys d ev) = true from hb]
  cases filterPassing m cfg env cur (onVisited d (onKeys d ev)) c with
  | error e => rfl
  | ok r => obtain ⟨o, c1⟩ := r; simp [withFlag]

/-- one step of the upward walk, inverted -/
theorem collectChain_cons_ok {m : Machine} {cfg : List Path} {env : GEnv} {ev : Ev} {b1 b2 : Bool}
    {p : Path} {rest : List Path} {c c' : GCache} {out : List Cand}
    (h : collectChain m cfg env ev b1 b2 (p :: rest) c = .ok (out, c')) :
    ∃ o1 o2, out = o1 ++ o2 ∧ (∀ x ∈ o1, x.src = p) ∧
      (o2 = [] ∨ ∃ c1, collectChain m cfg env ev b1 b2 rest c1 = .ok (o2, c')) := by
  simp only [collectChain] at h
  cases hd : m.defAt p with
  | none =>
    simp only [hd, Except.ok.injEq, Prod.mk.injEq] at h
    obtain ⟨rfl, _⟩ := h
    exact ⟨[], [], rfl, by simp, Or.inl rfl⟩
  | some d =>
    simp only [hd] at h
    cases hx : (if b2 = true then (.ok ([], false, c) : Except GErr (List Cand × Bool × GCache))
         else onCands m cfg env p d ev (matchingDescriptors (d.on.map (·.1)) ev.type) c) with
    | error e => simp [hx] at h
    | ok r =>
      obtain ⟨onC, blocked, c0'⟩ := r
      simp only [hx] at h
      have honC : ∀ x ∈ onC, x.src = p := by
        intro x hxm
        split at hx
        · simp only [Except.ok.injEq, Prod.mk.injEq] at hx
          obtain ⟨rfl, _⟩ := hx; simp at hxm
        · exact (onCands_sound m cfg env p d ev _ c onC blocked c0' hx x hxm).1
      split at h
      · simp only [Except.ok.injEq, Prod.mk.injEq] at h
        obtain ⟨rfl, _⟩ := h
        exact ⟨onC, [], by simp, honC, Or.inl rfl⟩
      · cases hs : seqC (nodeBuckets m cfg env p d ev b1) (collectChain m cfg env ev b1 b2 rest) c0' with
        | error e => simp [hs] at h
        | ok r2 =>
          obtain ⟨rs, c2⟩ := r2
          simp only [hs, Except.ok.injEq, Prod.mk.injEq] at h
          obtain ⟨rfl, rfl⟩ := h
          simp only [seqC] at hs
          cases hbk : nodeBuckets m cfg env p d ev b1 c0' with
          | error e => simp [hbk] at hs
          | ok rb =>
            obtain ⟨xs, cb⟩ := rb
            simp only [hbk] at hs
            cases hu : collectChain m cfg env ev b1 b2 rest cb with
            | error e => simp [hu] at hs
            | ok ru =>
              obtain ⟨ys, cu⟩ := ru
              simp only [hu, Except.ok.injEq, Prod.mk.injEq] at hs
              obtain ⟨rfl, rfl⟩ := hs
              refine ⟨onC ++ xs, ys, by simp, ?_, Or.inr ⟨cb, hu⟩⟩
              intro x hxm
              rw [List.mem_append] at hxm
              rcases hxm with hxm | hxm
              · exact honC x hxm
              · exact (nodeBuckets_sound m cfg env p d ev b1 c0' xs cb hbk x hxm).1

/-- the walk over `pre ++ rest`: first candidates from `pre`, then (if it gets that far) the result
    of the walk over `rest` -/
theorem collectChain_split {m : Machine} {cfg : List Path} {env : GEnv} {ev : Ev} {b1 b2 : Bool}
    (rest : List Path) :
    ∀ (pre : List Path) (c c' : GCache) (out : List Cand),
      collectChain m cfg env ev b1 b2 (pre ++ rest) c = .ok (out, c') →
      ∃ o1 o2, out = o1 ++ o2 ∧ (∀ x ∈ o1, x.src ∈ pre) ∧
        (o2 = [] ∨ ∃ c1, collectChain m cfg env ev b1 b2 rest c1 = .ok (o2, c')) := by
  intro pre
  induction pre with
  | nil => intro c c' out h; exact ⟨[], out, rfl, by simp, Or.inr ⟨c, h⟩⟩
  | cons p pre ih =>
    intro c c' out h
    rw [List.cons_append] at h
    obtain ⟨o1, o2, rfl, h1, h2⟩ := collectChain_cons_ok h
    rcases h2 with rfl | ⟨c1, h2⟩
    · exact ⟨o1, [], rfl, fun x hx => by rw [h1 x hx]; simp, Or.inl rfl⟩
    · obtain ⟨o3, o4, rfl, h3, h4⟩ := ih c1 c' o2 h2
      refine ⟨o1 ++ o3, o4, by simp, ?_, h4⟩
      intro x hx
      rw [List.mem_append] at hx
      rcases hx with hx | hx
      · rw [h1 x hx]; simp
      · exact List.mem_cons_of_mem _ (h3 x hx)

/-- **a consuming state cuts the chain**: on a chain `pre ++ cur :: ups` where the event is consumed
    at `cur`, every candidate either comes from `pre` (the states below `cur`) or is an `on`
    transition of `cur` visited before the forbidden one. -/
theorem collectChain_consumed_mid {m : Machine} {cfg : List Path} {env : GEnv} {ev : Ev} {itc : Bool}
    {pre ups : List Path} {cur : Path} {d : StateDef} (hd : m.defAt cur = some d)
    (hb : consumesAt d ev = true) {c c' : GCache} {out : List Cand}
    (h : collectChain m cfg env ev itc false (pre ++ cur :: ups) c = .ok (out, c')) :
    ∀ x ∈ out, x.src ∈ pre ∨ (x.src = cur ∧ x.t ∈ onVisited d (onKeys d ev)) := by
  obtain ⟨o1, o2, rfl, h1, h2⟩ := collectChain_split (cur :: ups) pre c c' out h
  intro x hx
  rw [List.mem_append] at hx
  rcases hx with hx | hx
  · exact Or.inl (h1 x hx)
  · rcases h2 with rfl | ⟨c1, h2⟩
    · simp at hx
    · rw [collectChain_consumed m cfg env ev itc cur ups d hd hb] at h2
      obtain ⟨h3, h4⟩ := filterPassing_sound m cfg env cur _ c1 o2 c' h2 x hx
      exact Or.inr ⟨h3, h4⟩

/-- the states above `cur` do not influence the result at all -/
theorem collectChain_consumed_irrel (m : Machine) (cfg : List Path) (env : GEnv) (ev : Ev) (itc : Bool)
    (cur : Path) (d : StateDef) (hd : m.defAt cur = some d) (hb : consumesAt d ev = true)
    (ups ups' : List Path) :
    ∀ (pre : List Path) (c : GCache),
      collectChain m cfg env ev itc false (pre ++ cur :: ups) c =
        collectChain m cfg env ev itc false (pre ++ cur :: ups') c := by
  intro pre
  induction pre with
  | nil =>
    intro c
    simp only [List.nil_append]
    rw [collectChain_consumed m cfg env ev itc cur ups d hd hb,
      collectChain_consumed m cfg env ev itc cur ups' d hd hb]
  | cons p pre ih =>
    intro c
    have ihf : collectChain m cfg env ev itc false (pre ++ cur :: ups) =
        collectChain m cfg env ev itc false (pre ++ cur :: ups') := funext ih
    simp only [List.cons_append, collectChain, ihf]

theorem chainUp_lengths (p : Path) : (chainUp p).Pairwise (fun a b => b.length < a.length) := by
  simp only [chainUp, List.pairwise_map]
  have h := @List.pairwise_lt_range (p.length + 1)
  have hmem : ∀ i ∈ List.range (p.length + 1), i < p.length + 1 := fun i hi => List.mem_range.1 hi
  generalize List.range (p.length + 1) = l at h hmem
  induction h with
  | nil => exact List.Pairwise.nil
  | @cons a l' hx _ ih =>
    refine List.Pairwise.cons ?_ (ih (fun i hi => hmem i (List.mem_cons_of_mem _ hi)))
    intro b hb
    have h1 := hx b hb
    have h2 := hmem a (by simp)
    have h3 := hmem b (List.mem_cons_of_mem _ hb)
    simp only [List.length_take]
    omega

/-- **C20, last clause, at the level of one leaf's walk** (`_collect_eligible_transitions`): if the
    event is consumed at a state `cur` on the leaf's ancestor chain, no candidate comes from a strict
    ancestor of `cur`, and the only candidates of `cur` itself are `on` transitions visited before the
    forbidden one. -/
theorem collectEligible_consumed {m : Machine} {cfg : List Path} {env : GEnv} {leaf cur : Path}
    {ev : Ev} {d : StateDef} (hcur : cur ∈ chainUp leaf) (hd : m.defAt cur = some d)
    (hb : consumesAt d ev = true) {c c' : GCache} {out : List Cand}
    (h : collectEligible m cfg env leaf ev c = .ok (out, c')) :
    ∀ x ∈ out, cur.length ≤ x.src.length ∧
      (x.src = cur → x.t ∈ onVisited d (onKeys d ev)) := by
  obtain ⟨pre, ups, hsplit⟩ := List.append_of_mem hcur
  have hne : decide (ev.type = "") = false := by simpa using consumesAt_type_ne hb
  simp only [collectEligible, hne, hsplit] at h
  have hlen := chainUp_lengths leaf
  rw [hsplit, List.pairwise_append] at hlen
  intro x hx
  rcases collectChain_consumed_mid hd hb h x hx with hpre | ⟨h1, h2⟩
  · have := hlen.2.2 x.src hpre cur (by simp)
    refine ⟨by omega, fun he => ?_⟩
    rw [he] at this; omega
  · exact ⟨by rw [h1]; exact Nat.le_refl _, fun _ => h2⟩

/-! ### candidates under a guard oracle -/

/-- the guard-passing transitions of one list, as candidates of `src` -/
def passing (g : Nat → Bool) (src : Path) (ts : List Trans) : List Cand :=
  (ts.filter (fun t => g t.tid)).map (fun t => ({ src := src, t := t } : Cand))

theorem passing_append (g : Nat → Bool) (src : Path) (xs ys : List Trans) :
    passing g src (xs ++ ys) = passing g src xs ++ passing g src ys := by
  simp [passing]

theorem passing_flatMap (g : Nat → Bool) (src : Path) (d : StateDef) (keys : List String) :
    passing g src (keys.flatMap (transOf d)) = keys.flatMap (fun k => passing g src (transOf d k)) := by
  induction keys with
  | nil => rfl
  | cons k ks ih => simp only [List.flatMap_cons, passing_append, ih]

theorem onCands_pure {m : Machine} {cfg : List Path} {env : GEnv} (src : Path) (d : StateDef) (ev : Ev)
    (keys : List String) {c : GCache} {g : Nat → Bool} (hc : CacheOK g c)
    (hg : ∀ t ∈ onVisited d keys, guardOk m cfg env t.guard = .ok (g t.tid)) :
    ∃ c', onCands m cfg env src d ev keys c =
        .ok (passing g src (onVisited d keys), onBlocked d keys, c') ∧ CacheOK g c' := by
  obtain ⟨c', h1, h2⟩ := filterPassing_pure (m := m) (cfg := cfg) (env := env) src _ c hc hg
  exact ⟨c', by rw [onCands_eq', h1]; rfl, h2⟩

end XSM
