import Xsm.Proofs.Bridge
/-
C11 helpers: what `_record_history` stores, what `_resolve_history_target` returns, and the
configuration a transition to a history pseudo-state produces (source outside the owner).
-/
namespace XSM
open Spec
-- everything about history lives in `XSM.Hist` (keeps the generic list lemmas out of other files' way)
namespace Hist

-- (depth, id) order -------------------------------------------------------------------------------------
/-- the sort key of `_record_history`: `(depth, id)` ascending -/
def depthIdLe (m : Machine) (a b : Path) : Bool :=
  a.length < b.length || (a.length == b.length && decide (m.idOf a ≤ m.idOf b))

theorem depthIdLe_total (m : Machine) (a b : Path) : depthIdLe m a b = true ∨ depthIdLe m b a = true := by
  simp only [depthIdLe, Bool.or_eq_true, decide_eq_true_eq, Bool.and_eq_true, beq_iff_eq]
  rcases Nat.lt_trichotomy a.length b.length with h | h | h
  · exact Or.inl (Or.inl h)
  · rcases String.le_total (m.idOf a) (m.idOf b) with h2 | h2
    · exact Or.inl (Or.inr ⟨h, h2⟩)
    · exact Or.inr (Or.inr ⟨h.symm, h2⟩)
  · exact Or.inr (Or.inl h)

theorem depthIdLe_trans (m : Machine) {a b c : Path} (h1 : depthIdLe m a b = true)
    (h2 : depthIdLe m b c = true) : depthIdLe m a c = true := by
  simp only [depthIdLe, Bool.or_eq_true, decide_eq_true_eq, Bool.and_eq_true, beq_iff_eq] at h1 h2 ⊢
  rcases h1 with h1 | ⟨h1, h1'⟩ <;> rcases h2 with h2 | ⟨h2, h2'⟩
  · exact Or.inl (by omega)
  · exact Or.inl (by omega)
  · exact Or.inl (by omega)
  · exact Or.inr ⟨by omega, String.le_trans h1' h2'⟩

theorem depthIdLe_antisymm (m : Machine) {a b : Path} (h1 : depthIdLe m a b = true)
    (h2 : depthIdLe m b a = true) : m.idOf a = m.idOf b := by
  simp only [depthIdLe, Bool.or_eq_true, decide_eq_true_eq, Bool.and_eq_true, beq_iff_eq] at h1 h2
  rcases h1 with h1 | ⟨h1, h1'⟩ <;> rcases h2 with h2 | ⟨h2, h2'⟩
  · omega
  · omega
  · omega
  · exact String.le_antisymm h1' h2'

-- insertion sort ------------------------------------------------------------------------------------------
theorem insertBy_perm_cons {α} (le : α → α → Bool) (x : α) (ys : List α) : (insertBy le x ys).Perm (x :: ys) := by
  induction ys with
  | nil => simp [insertBy]
  | cons y ys ih =>
    simp only [insertBy]
    split
    · exact List.Perm.refl _
    · exact ((List.Perm.cons y ih).trans (List.Perm.swap x y ys))

theorem sortBy_perm_self {α} (le : α → α → Bool) (xs : List α) : (sortBy le xs).Perm xs := by
  induction xs with
  | nil => simp [sortBy]
  | cons x xs ih =>
    simp only [sortBy, List.foldr_cons] at ih ⊢
    exact (insertBy_perm_cons le x _).trans (List.Perm.cons x ih)

theorem insertBy_pairwise {α} (le : α → α → Bool) (htot : ∀ a b, le a b = true ∨ le b a = true)
    (htr : ∀ a b c, le a b = true → le b c = true → le a c = true) (x : α) (ys : List α)
    (hs : ys.Pairwise (fun a b => le a b = true)) : (insertBy le x ys).Pairwise (fun a b => le a b = true) := by
  induction ys with
  | nil => simp [insertBy]
  | cons y ys ih =>
    simp only [insertBy]
    have hy := List.pairwise_cons.1 hs
    split
    · rename_i hxy
      refine List.pairwise_cons.2 ⟨?_, hs⟩
      intro z hz
      rcases List.mem_cons.1 hz with rfl | hz
      · exact hxy
      · exact htr _ _ _ hxy (hy.1 z hz)
    · rename_i hxy
      have hyx : le y x = true := by
        rcases htot x y with h | h
        · exact absurd h hxy
        · exact h
      refine List.pairwise_cons.2 ⟨?_, ih hy.2⟩
      intro z hz
      rcases (mem_insertBy le x z ys).1 hz with rfl | hz
      · exact hyx
      · exact hy.1 z hz

theorem sortBy_pairwise {α} (le : α → α → Bool) (htot : ∀ a b, le a b = true ∨ le b a = true)
    (htr : ∀ a b c, le a b = true → le b c = true → le a c = true) (xs : List α) :
    (sortBy le xs).Pairwise (fun a b => le a b = true) := by
  induction xs with
  | nil => simp [sortBy]
  | cons x xs ih =>
    simp only [sortBy, List.foldr_cons] at ih ⊢
    exact insertBy_pairwise le htot htr x _ ih

/-- sorting with a total, transitive order that is antisymmetric on the elements does not depend on
    the order of the input -/
theorem sortBy_eq_of_perm {α} (le : α → α → Bool) (htot : ∀ a b, le a b = true ∨ le b a = true)
    (htr : ∀ a b c, le a b = true → le b c = true → le a c = true) (xs ys : List α) (hp : xs.Perm ys)
    (hanti : ∀ a b, a ∈ xs → b ∈ xs → le a b = true → le b a = true → a = b) :
    sortBy le xs = sortBy le ys := by
  apply List.Perm.eq_of_pairwise (le := fun a b => le a b = true)
  · intro a b ha hb
    exact hanti a b ((mem_sortBy le a xs).1 ha) (hp.symm.subset ((mem_sortBy le b ys).1 hb))
  · exact sortBy_pairwise le htot htr xs
  · exact sortBy_pairwise le htot htr ys
  · exact (sortBy_perm_self le xs).trans (hp.trans (sortBy_perm_self le ys).symm)

-- what recording stores ---------------------------------------------------------------------------------------
/-- the remembered list `_record_history` computes for owner `P` in configuration `cfg` -/
def recRem (m : Machine) (cfg : List Path) (P : Path) : List Path :=
  sortBy (depthIdLe m) (cfg.filter (fun q => q != P && P.isPrefixOf q))

theorem mem_recRem {m : Machine} {cfg : List Path} {P q : Path} :
    q ∈ recRem m cfg P ↔ q ∈ cfg ∧ P <+: q ∧ q ≠ P := by
  simp only [recRem, mem_sortBy, List.mem_filter, Bool.and_eq_true, bne_iff_ne, ne_eq,
    List.isPrefixOf_iff_prefix]
  constructor
  · rintro ⟨a, b, c⟩; exact ⟨a, c, b⟩
  · rintro ⟨a, b, c⟩; exact ⟨a, c, b⟩

theorem recRem_sorted (m : Machine) (cfg : List Path) (P : Path) :
    (recRem m cfg P).Pairwise (fun a b => depthIdLe m a b = true) :=
  sortBy_pairwise _ (depthIdLe_total m) (fun _ _ _ => depthIdLe_trans m) _

/-- the recorded list does not depend on the order in which the configuration is held -/
theorem recRem_perm (m : Machine) (cfg cfg' : List Path) (P : Path) (hp : cfg.Perm cfg')
    (hinj : ∀ a b, a ∈ cfg → b ∈ cfg → m.idOf a = m.idOf b → a = b) :
    recRem m cfg P = recRem m cfg' P := by
  unfold recRem
  apply sortBy_eq_of_perm _ (depthIdLe_total m) (fun _ _ _ => depthIdLe_trans m)
  · exact hp.filter _
  · intro a b ha hb h1 h2
    exact hinj a b (List.mem_filter.1 ha).1 (List.mem_filter.1 hb).1 (depthIdLe_antisymm m h1 h2)

/-- history lookup: the remembered list stored for owner `P` -/
def histGet (hist : List (Path × List Path)) (P : Path) : Option (List Path) :=
  (hist.find? (fun kv => kv.1 = P)).map (·.2)

/-- one step of the fold in `recordHistory` -/
def recStep (m : Machine) (cfg : List Path) (hist : List (Path × List Path)) (st : Path) :
    List (Path × List Path) :=
  match m.root.at st with
  | none => hist
  | some n =>
    if hasHistoryKid n then
      if (recRem m cfg st).isEmpty then hist else (hist.filter (fun kv => kv.1 != st)) ++ [(st, recRem m cfg st)]
    else hist

theorem recordHistory_hist (m : Machine) (ex : List Path) (s : St) :
    (recordHistory m ex s).hist = ((ex.flatMap chainUp).eraseDups).foldl (recStep m s.cfg) s.hist := rfl

/-- owner `P` gets a fresh entry: it names a state with a history child and has an active strict descendant -/
def Records (m : Machine) (cfg : List Path) (P : Path) : Prop :=
  (∃ n, m.root.at P = some n ∧ hasHistoryKid n = true) ∧ recRem m cfg P ≠ []

theorem histGet_replace (hist : List (Path × List Path)) (st P : Path) (rem : List Path) :
    histGet (hist.filter (fun kv => kv.1 != st) ++ [(st, rem)]) P =
      if st = P then some rem else histGet hist P := by
  unfold histGet
  rw [List.find?_append, List.find?_filter]
  by_cases h : st = P
  · subst h
    have : List.find? (fun a : Path × List Path => decide ((a.1 != st) = true ∧ decide (a.1 = st) = true)) hist = none := by
      rw [List.find?_eq_none]
      intro x _
      simp
    rw [this]
    simp
  · have hfe : (fun a : Path × List Path => decide ((a.1 != st) = true ∧ decide (a.1 = P) = true)) =
        (fun kv : Path × List Path => decide (kv.1 = P)) := by
      funext a
      by_cases ha : a.1 = P
      · have : ¬ P = st := fun h' => h h'.symm
        simp [ha, this]
      · simp [ha]
    rw [hfe]
    simp only [h, if_false]
    cases hf : List.find? (fun kv : Path × List Path => decide (kv.1 = P)) hist with
    | some x => simp
    | none => simp [h]

open Classical in
theorem histGet_recStep (m : Machine) (cfg : List Path) (hist : List (Path × List Path)) (st P : Path) :
    histGet (recStep m cfg hist st) P =
      if st = P ∧ Records m cfg P then some (recRem m cfg P) else histGet hist P := by
  unfold recStep
  cases hat : m.root.at st with
  | none =>
    have : ¬ (st = P ∧ Records m cfg P) := by
      rintro ⟨rfl, ⟨n, hn, _⟩, _⟩; rw [hat] at hn; cases hn
    simp only [this, if_false]
  | some n =>
    simp only
    by_cases hk : hasHistoryKid n = true
    · simp only [hk, if_true]
      by_cases he : (recRem m cfg st).isEmpty = true
      · have : ¬ (st = P ∧ Records m cfg P) := by
          rintro ⟨rfl, _, hne⟩
          exact hne (List.isEmpty_iff.1 he)
        simp only [he, if_true, this, if_false]
      · simp only [he, Bool.false_eq_true, if_false]
        rw [histGet_replace]
        by_cases hs : st = P
        · subst hs
          have : st = st ∧ Records m cfg st :=
            ⟨rfl, ⟨n, hat, hk⟩, fun h0 => he (by rw [h0]; rfl)⟩
          simp only [this, and_self, if_true]
        · have : ¬ (st = P ∧ Records m cfg P) := fun h => hs h.1
          rw [if_neg hs, if_neg this]
    · have : ¬ (st = P ∧ Records m cfg P) := by
        rintro ⟨rfl, ⟨n', hn', hk'⟩, _⟩
        rw [hat] at hn'; cases hn'; exact hk hk'
      simp only [hk, Bool.false_eq_true, if_false, this]

open Classical in
theorem histGet_fold (m : Machine) (cfg : List Path) (P : Path) :
    ∀ (cands : List Path) (hist : List (Path × List Path)),
      histGet (cands.foldl (recStep m cfg) hist) P =
        if P ∈ cands ∧ Records m cfg P then some (recRem m cfg P) else histGet hist P := by
  intro cands
  induction cands with
  | nil => intro hist; simp
  | cons st rest ih =>
    intro hist
    rw [List.foldl_cons, ih, histGet_recStep]
    by_cases hR : Records m cfg P
    · by_cases h1 : P ∈ rest
      · simp [h1, hR]
      · by_cases h2 : st = P
        · simp [h2, hR]
        · have : ¬ P = st := fun h => h2 h.symm
          simp [h1, h2, this]
    · simp [hR]

theorem mem_chainUp_iff {p q : Path} : q ∈ chainUp p ↔ q <+: p := by
  simp only [chainUp, List.mem_map, List.mem_range]
  constructor
  · rintro ⟨i, _, rfl⟩; exact List.take_prefix _ _
  · intro h
    refine ⟨p.length - q.length, by omega, ?_⟩
    have hl := h.length_le
    have : p.length - (p.length - q.length) = q.length := by omega
    rw [this]
    exact (List.prefix_iff_eq_take.1 h).symm

theorem mem_recCands {ex : List Path} {P : Path} :
    P ∈ (ex.flatMap chainUp).eraseDups ↔ ∃ e ∈ ex, P <+: e := by
  rw [List.mem_eraseDups, List.mem_flatMap]
  constructor
  · rintro ⟨e, he, h⟩; exact ⟨e, he, mem_chainUp_iff.1 h⟩
  · rintro ⟨e, he, h⟩; exact ⟨e, he, mem_chainUp_iff.2 h⟩

open Classical in
/-- the complete description of the history map after `_record_history` -/
theorem histGet_recordHistory (m : Machine) (ex : List Path) (s : St) (P : Path) :
    histGet (recordHistory m ex s).hist P =
      if (∃ e ∈ ex, P <+: e) ∧ Records m s.cfg P then some (recRem m s.cfg P) else histGet s.hist P := by
  rw [recordHistory_hist, histGet_fold]
  by_cases h : P ∈ (ex.flatMap chainUp).eraseDups
  · have h' := mem_recCands.1 h
    simp only [h, h', true_and]
  · have h' : ¬ ∃ e ∈ ex, P <+: e := fun hh => h (mem_recCands.2 hh)
    simp only [h, h', false_and, if_false]

-- `_resolve_history_target` ------------------------------------------------------------------------------------
/-- the history node's declared default target, resolved relative to the history node -/
def histDefault (m : Machine) (h : Path) (hn : SNode) : Option Path :=
  match hn.d.historyTarget with
  | some t => if t = "" then none else resolveTarget m t h
  | none => none

/-- the non-history children of a parallel owner, in document order -/
def ownerRegions (P : Path) (pn : SNode) : List Path :=
  if pn.kind = .parallel then
    (pn.kids.filter (fun kc => kc.2.kind != .history)).map (fun kc => P ++ [kc.1]) else []

/-- the owner's normal entry: its initial child, or every region of a parallel owner -/
def ownerEntry (P : Path) (pn : SNode) : List Path :=
  match pn.d.initial with
  | some i => if i != "" && (findKid i pn.kids).isSome then [P ++ [i]] else ownerRegions P pn
  | none => ownerRegions P pn

def unvisitedTargets (m : Machine) (h : Path) (hn pn : SNode) : List Path :=
  match histDefault m h hn with
  | some r => [r]
  | none => ownerEntry h.dropLast pn

def leafAt (m : Machine) (q : Path) : Bool :=
  match m.root.at q with | some n => isLeafNode n | none => false

def deepTargets (m : Machine) (rem : List Path) : List Path :=
  if (rem.filter (leafAt m)).isEmpty then rem else rem.filter (leafAt m)

def shallowTargets (P : Path) (rem : List Path) : List Path :=
  if (rem.filter (fun q => q != [] && q.dropLast == P)).isEmpty then rem
  else rem.filter (fun q => q != [] && q.dropLast == P)

/-- `_resolve_history_target`, case by case -/
theorem resolveHistoryTarget_eq (m : Machine) (hist : List (Path × List Path)) (h : Path) (hn pn : SNode)
    (hat : m.root.at h = some hn) (hpat : m.root.at h.dropLast = some pn) :
    resolveHistoryTarget m hist h =
      if ((histGet hist h.dropLast).getD []).isEmpty then unvisitedTargets m h hn pn
      else if hn.d.deep then deepTargets m ((histGet hist h.dropLast).getD [])
      else shallowTargets h.dropLast ((histGet hist h.dropLast).getD []) := by
  unfold resolveHistoryTarget
  simp only [hat, hpat]
  rfl

-- the domain of a history transition whose source lies outside the owner ---------------------------------------
theorem prefix_dropLast_of_ne {a b : Path} (h : a <+: b) (hne : a ≠ b) : a <+: b.dropLast := by
  have hl := h.length_le
  have hlt : a.length < b.length := by
    rcases Nat.lt_or_ge a.length b.length with h' | h'
    · exact h'
    · exact absurd (h.eq_of_length (by omega)) hne
  rw [List.prefix_iff_eq_take.1 h, List.dropLast_eq_take]
  exact (List.prefix_take_le_iff (by omega)).2 (by omega)

theorem hist_domain (m : Machine) (cfg : List Path) (hL : Legal m.root cfg) (src h : Path)
    (hsrc : src ∈ cfg) (hn : SNode) (hat : m.root.at h = some hn) (hk : hn.kind = .history)
    (hP : h.dropLast ∉ cfg) :
    h ≠ [] ∧ h ≠ src ∧ domainO m src h = some (lcp src h) ∧ lcp src h ∈ cfg ∧
      ∃ k1, (lcp src h ++ [k1]) <+: h.dropLast := by
  have hne : h ≠ [] := by
    intro h0; subst h0; exact hP (by simpa using hL.root_active)
  have hnc : h ∉ cfg := by
    intro hc
    obtain ⟨n, hn', hk'⟩ := hL.states h hc
    rw [hat] at hn'; cases hn'; exact hk' hk
  have hnp : ¬ h <+: src := fun hp => hnc (prefix_closed hL.parent_active hp hsrc)
  have hns : h ≠ src := fun he => hnc (he ▸ hsrc)
  have hlc : lcp src h ∈ cfg := prefix_closed hL.parent_active (lcp_prefix_left src h) hsrc
  have hlP : lcp src h ≠ h.dropLast := fun he => hP (he ▸ hlc)
  have hlh : lcp src h ≠ h := fun he => hnp (lcp_eq_right_imp src h he)
  refine ⟨hne, hns, ?_, hlc, ?_⟩
  · unfold domainO
    rw [if_neg hns, if_neg hnp]
    have : ¬ (m.kindAt h = some Kind.history ∧ m.kindAt (lcp src h) = some Kind.parallel ∧
        h.dropLast = lcp src h) := fun hh => hlP hh.2.2.symm
    simp only [this, if_false]
  · exact strict_prefix_snoc (prefix_dropLast_of_ne (lcp_prefix_right src h) hlh) hlP

theorem planTransition_history (m : Machine) (cfg : List Path) (hist : List (Path × List Path)) (c : Cand)
    (tstr : String) (ht : c.t.target = some tstr) (hne : tstr ≠ "") (h : Path)
    (hres : resolveRobust m c.src tstr = some h) (hns : h ≠ c.src)
    (hkh : m.kindAt h = some Kind.history) (dom : Path) (hdom : domainO m c.src h = some dom) :
    planTransition m cfg hist c =
      { exits := sortExit m (exitSet m cfg dom h), actions := c.t.actions,
        entries := (planEnter m (((resolveHistoryTarget m hist h).flatMap (pathFrom dom)).eraseDups)).1,
        err := (planEnter m (((resolveHistoryTarget m hist h).flatMap (pathFrom dom)).eraseDups)).2 } := by
  unfold planTransition
  simp only [ht, hne, if_false, hres, hns, decide_false, Bool.false_and, Bool.false_eq_true, hkh, hdom,
    if_true]
  rfl

-- the entry list only matters as a set ---------------------------------------------------------------------------
theorem Forest_congr {root : SNode} {L L' : List Path} (h : ∀ q, q ∈ L ↔ q ∈ L') (hF : Forest root L) :
    Forest root L' := by
  constructor
  · intro a ha q hq haq p' h1 h2
    exact (h _).1 (hF.convex a ((h a).2 ha) q ((h q).2 hq) haq p' h1 h2)
  · intro q hq; exact hF.valid q ((h q).2 hq)
  · intro p hp hk k1 k2 h1 h2
    exact hF.shape p ((h p).2 hp) hk k1 k2 ((h _).2 h1) ((h _).2 h2)

theorem regionsNotIn_congr (L L' : List Path) (p : Path) (h : ∀ k, (p ++ [k]) ∈ L ↔ (p ++ [k]) ∈ L') :
    ∀ ks, regionsNotIn L p ks = regionsNotIn L' p ks := by
  intro ks
  induction ks with
  | nil => rfl
  | cons hd rest ih =>
    obtain ⟨k, c⟩ := hd
    simp only [regionsNotIn, ih]
    by_cases hm : (p ++ [k]) ∈ L
    · have hm' := (h k).1 hm
      simp only [hm, hm', or_true, if_true]
    · have hm' : (p ++ [k]) ∉ L' := fun x => hm ((h k).2 x)
      simp only [hm, hm', or_false]

theorem extra_congr {root : SNode} {L L' : List Path} {p : Path}
    (h : ∀ k, (p ++ [k]) ∈ L ↔ (p ++ [k]) ∈ L') : extra root L p = extra root L' p := by
  have he : hasExplicitChild L p = hasExplicitChild L' p := by
    rw [Bool.eq_iff_iff, hasExplicitChild_iff, hasExplicitChild_iff]
    constructor
    · rintro ⟨k, hk⟩; exact ⟨k, (h k).1 hk⟩
    · rintro ⟨k, hk⟩; exact ⟨k, (h k).2 hk⟩
  unfold extra
  cases root.at p with
  | none => rfl
  | some n =>
    match n with
    | .mk d kids =>
      simp only [he, regionsNotIn_congr L L' p h kids]

theorem mem_enterStates_congr {root : SNode} {L L' : List Path} (h : ∀ q, q ∈ L ↔ q ∈ L') (q : Path) :
    q ∈ enterStates root L ↔ q ∈ enterStates root L' := by
  rw [mem_enterStates, mem_enterStates]
  constructor
  · rintro ⟨p, hp, hor⟩
    exact ⟨p, (h p).1 hp, by rw [← extra_congr (fun k => h (p ++ [k]))]; exact hor⟩
  · rintro ⟨p, hp, hor⟩
    exact ⟨p, (h p).2 hp, by rw [extra_congr (fun k => h (p ++ [k]))]; exact hor⟩

theorem flatMap_pathFrom (dom : Path) (T : List Path) (hT : ∀ r ∈ T, dom <+: r) :
    T.flatMap (pathFrom dom) = histForest dom T := by
  induction T with
  | nil => rfl
  | cons r T ih =>
    simp only [List.flatMap_cons, histForest] at ih ⊢
    rw [ih (fun r' hr' => hT r' (List.mem_cons_of_mem _ hr'))]
    simp only [pathFrom, List.isPrefixOf_iff_prefix.2 (hT r (by simp)), if_true]

/-- what the restore needs of the target list `T`: all targets lie below the domain, their chains
    form an entry forest hanging off the single branch `dom ++ [k1]` -/
structure GoodTargets (root : SNode) (dom : Path) (k1 : String) (T : List Path) : Prop where
  below : ∀ r ∈ T, dom <+: r
  forest : Forest root (histForest dom T)
  first : (dom ++ [k1]) ∈ histForest dom T
  branch : ∀ q ∈ histForest dom T, (dom ++ [k1]) <+: q

/-- the configuration produced by the exit/enter phases of a history transition -/
def histResult (m : Machine) (cfg : List Path) (dom h : Path) (T : List Path) (q : Path) : Prop :=
  (q ∈ cfg ∧ q ∉ Spec.exitSet m.root cfg dom h) ∨ q ∈ enterStates m.root (histForest dom T)

/-- **core of C11/C01 for history targets**: with a good target list the transition either fails and
    is rolled back, or produces exactly `(cfg \ exits) ∪ enterStates (chains to the targets)`, and
    the result is legal either way. -/
theorem hist_microstep_core (h : Hooks) (hok : HooksOK h) (fl : Flavor) (m : Machine) (ev : Ev)
    (c : Cand) (s : St) (hwf : WF m.root) (hi : InitOK m.root)
    (hL : Legal m.root s.cfg) (hsrc : c.src ∈ s.cfg)
    (tstr : String) (ht : c.t.target = some tstr) (hne : tstr ≠ "")
    (hh : Path) (hres : resolveRobust m c.src tstr = some hh)
    (hn : SNode) (hat : m.root.at hh = some hn) (hk : hn.kind = .history) (hP : hh.dropLast ∉ s.cfg)
    (k1 : String) (hk1 : (lcp c.src hh ++ [k1]) <+: hh.dropLast)
    (hG : GoodTargets m.root (lcp c.src hh) k1 (resolveHistoryTarget m s.hist hh)) :
    Legal m.root (execute h fl m ev (planTransition m s.cfg s.hist c) s).cfg ∧
    ((execute h fl m ev (planTransition m s.cfg s.hist c) s).err = none →
      ∀ q, q ∈ (execute h fl m ev (planTransition m s.cfg s.hist c) s).cfg ↔
        histResult m s.cfg (lcp c.src hh) hh (resolveHistoryTarget m s.hist hh) q) := by
  obtain ⟨_, hns, hdomO, hdomc, _⟩ := hist_domain m s.cfg hL c.src hh hsrc hn hat hk hP
  have hkh : m.kindAt hh = some Kind.history := by simp [Machine.kindAt, hat, hk]
  generalize hdomdef : lcp c.src hh = dom at *
  generalize hTdef : resolveHistoryTarget m s.hist hh = T at *
  have hplan := planTransition_history m s.cfg s.hist c tstr ht hne hh hres hns hkh dom hdomO
  rw [hTdef] at hplan
  generalize hLdef : (T.flatMap (pathFrom dom)).eraseDups = L at hplan
  have hLmem : ∀ q, q ∈ L ↔ q ∈ histForest dom T := by
    intro q; rw [← hLdef, List.mem_eraseDups, flatMap_pathFrom dom T hG.below]
  have hF : Forest m.root L := Forest_congr (fun q => (hLmem q).symm) hG.forest
  have hvL : ∀ p ∈ L, ∃ n, m.root.at p = some n := by
    intro p hp; obtain ⟨n, hn', _⟩ := hF.valid p hp; exact ⟨n, hn'⟩
  obtain ⟨hperr, hpent⟩ := planEnter_eq m L hwf hi hvL
  rw [hplan]
  cases herr : (execute h fl m ev
      { exits := sortExit m (exitSet m s.cfg dom hh), actions := c.t.actions,
        entries := (planEnter m L).1, err := (planEnter m L).2 } s).err with
  | some e =>
    rw [execute_rollback h fl m ev _ s rfl (by rw [herr]; simp)]
    exact ⟨hL, fun h0 => by simp at h0⟩
  | none =>
    have hvx : ∀ p ∈ sortExit m (exitSet m s.cfg dom hh), (m.defAt p).isSome := by
      intro p hp
      rw [mem_sortExit] at hp
      have hpc : p ∈ s.cfg := (mem_exitSet.1 hp).1
      obtain ⟨n, hn', _⟩ := hL.states p hpc
      exact defAt_isSome_of_at hn'
    have hve : ∀ e ∈ (planEnter m L).1, (m.defAt e.path).isSome := by
      intro e he
      have : e.path ∈ enterStates m.root L := by rw [← hpent]; exact List.mem_map_of_mem he
      obtain ⟨n, hn'⟩ := enterStates_at m.root hwf _ hvL e.path this
      exact defAt_isSome_of_at hn'
    obtain ⟨_, hmem⟩ := execute_cfg h hok fl m ev
      { exits := sortExit m (exitSet m s.cfg dom hh), actions := c.t.actions,
        entries := (planEnter m L).1, err := (planEnter m L).2 } s rfl hvx hve herr
    have hres' : ∀ q, q ∈ (execute h fl m ev
        { exits := sortExit m (exitSet m s.cfg dom hh), actions := c.t.actions,
          entries := (planEnter m L).1, err := (planEnter m L).2 } s).cfg ↔
        histResult m s.cfg dom hh T q := by
      intro q
      rw [hmem q, hpent, mem_enterStates_congr hLmem q]
      simp only [histResult, mem_sortExit, exitSet]
    refine ⟨?_, fun _ => hres'⟩
    obtain ⟨ndom, hdomat, _⟩ := hL.states dom hdomc
    have hla : LegalAt s.cfg [] m.root := legalAt_of_legal m.root hwf s.cfg hL m.root [] rfl hL.root_active
    have hstep := legal_step_gen m.root hwf s.cfg hla dom hh k1 (histForest dom T) ndom hdomat
      ⟨dom, hdomc, List.prefix_refl _⟩ (List.IsPrefix.trans hk1 (List.dropLast_prefix hh))
      hG.forest hG.first hG.branch
    have hlegal : Legal m.root (stepConfigL m.root s.cfg dom hh (histForest dom T)) := by
      apply legal_of_legalAt m.root hwf _ hstep
      intro q hq
      rcases mem_stepConfigL.1 hq with ⟨hqc, _⟩ | hqE
      · obtain ⟨n, hn', _⟩ := hL.states q hqc; exact ⟨n, hn'⟩
      · apply enterStates_at m.root hwf _ ?_ q hqE
        intro p hp
        obtain ⟨n, hn', _⟩ := hG.forest.valid p hp; exact ⟨n, hn'⟩
    refine Legal_congr ?_ hlegal
    intro q
    rw [hres' q, mem_stepConfigL]
    rfl

-- good target lists -------------------------------------------------------------------------------------------------
theorem snoc_ne_self (a : Path) (k : String) : a ++ [k] ≠ a := by
  intro h
  have := congrArg List.length h
  simp at this

/-- targets taken from a recorded selection -/
theorem goodTargets_recorded (root : SNode) (hwf : WF root) (dom P : Path) (k1 : String) (R T : List Path)
    (hI : HistInv root P R) (hTR : ∀ r ∈ T, r ∈ R) (hT : T ≠ []) (hdP : (dom ++ [k1]) <+: P) :
    GoodTargets root dom k1 T := by
  obtain ⟨hF, hbranch⟩ := histForest_forest root hwf dom P k1 R T hI hTR hdP
  have hdr : ∀ r ∈ T, dom <+: r := fun r hr =>
    List.IsPrefix.trans (List.IsPrefix.trans (List.prefix_append _ _) hdP) (hI.below r (hTR r hr)).1
  obtain ⟨r0, hr0⟩ : ∃ r, r ∈ T := by
    cases T with
    | nil => exact absurd rfl hT
    | cons r _ => exact ⟨r, by simp⟩
  refine ⟨hdr, hF, ?_, hbranch⟩
  exact (mem_histForest hdr).2 ⟨r0, hr0, List.prefix_append _ _, snoc_ne_self _ _,
    List.IsPrefix.trans hdP (hI.below r0 (hTR r0 hr0)).1⟩

theorem histForest_single (dom r : Path) : histForest dom [r] = pathToEnter dom r := by
  simp [histForest, pathToEnter]

/-- a single plain target below the branch -/
theorem goodTargets_single (root : SNode) (hwf : WF root) (dom r : Path) (k1 : String)
    (hdr : (dom ++ [k1]) <+: r) (nr : SNode) (hr : root.at r = some nr) (hnh : nr.kind ≠ .history) :
    GoodTargets root dom k1 [r] := by
  have hd : dom <+: r := prefix_snoc_of_prefix_snoc hdr
  have hF := chain_forest root hwf dom r hd nr hr hnh
  refine ⟨by intro r' hr'; simp at hr'; rw [hr']; exact hd, by rw [histForest_single]; exact hF, ?_, ?_⟩
  · rw [histForest_single]
    exact (mem_pathToEnter hd).2 ⟨List.prefix_append _ _, snoc_ne_self _ _, hdr⟩
  · intro q hq
    rw [histForest_single] at hq
    obtain ⟨h1, h2, h3⟩ := (mem_pathToEnter hd).1 hq
    have hlen : (dom ++ [k1]).length ≤ q.length := by
      have := h1.length_le
      have hne' : dom.length ≠ q.length := fun h => h2 (h1.eq_of_length h).symm
      simp only [List.length_append, List.length_cons, List.length_nil]; omega
    exact List.prefix_of_prefix_length_le hdr h3 hlen

/-- a prefix of `P ++ [x]` is a prefix of `P` or is `P ++ [x]` itself -/
theorem prefix_snoc_cases {q P : Path} {x : String} (h : q <+: P ++ [x]) : q <+: P ∨ q = P ++ [x] := by
  by_cases he : q = P ++ [x]
  · exact Or.inr he
  · left
    have := prefix_dropLast_of_ne h he
    simpa using this

/-- several children of one owner (a parallel owner's regions; a compound owner's single child) -/
theorem goodTargets_kids (root : SNode) (hwf : WF root) (dom P : Path) (k1 : String) (T : List Path)
    (pn : SNode) (hP : root.at P = some pn)
    (hT : ∀ t ∈ T, ∃ k c, t = P ++ [k] ∧ root.at t = some c ∧ c.kind ≠ .history) (hne : T ≠ [])
    (hone : pn.kind = .compound → ∀ t1 ∈ T, ∀ t2 ∈ T, t1 = t2) (hdP : (dom ++ [k1]) <+: P) :
    GoodTargets root dom k1 T := by
  have hdPp : dom <+: P := prefix_snoc_of_prefix_snoc hdP
  have hdr : ∀ r ∈ T, dom <+: r := by
    intro r hr
    obtain ⟨k, c, rfl, _, _⟩ := hT r hr
    exact List.IsPrefix.trans hdPp (List.prefix_append _ _)
  have hPr : ∀ r ∈ T, P <+: r := by
    intro r hr
    obtain ⟨k, c, rfl, _, _⟩ := hT r hr
    exact List.prefix_append _ _
  obtain ⟨r0, hr0⟩ : ∃ r, r ∈ T := by
    cases T with
    | nil => exact absurd rfl hne
    | cons r _ => exact ⟨r, by simp⟩
  have hbranch : ∀ q ∈ histForest dom T, (dom ++ [k1]) <+: q := by
    intro q hq
    obtain ⟨r, hr, h1, h2, h3⟩ := (mem_histForest hdr).1 hq
    have hlen : (dom ++ [k1]).length ≤ q.length := by
      have := h1.length_le
      have hne' : dom.length ≠ q.length := fun h => h2 (h1.eq_of_length h).symm
      simp only [List.length_append, List.length_cons, List.length_nil]; omega
    exact List.prefix_of_prefix_length_le (List.IsPrefix.trans hdP (hPr r hr)) h3 hlen
  refine ⟨hdr, ⟨?_, ?_, ?_⟩, ?_, hbranch⟩
  · intro a ha q hq _ p' hap' hp'q
    obtain ⟨_, _, ha1, ha2, _⟩ := (mem_histForest hdr).1 ha
    obtain ⟨r, hr, _, _, hq3⟩ := (mem_histForest hdr).1 hq
    refine (mem_histForest hdr).2 ⟨r, hr, List.IsPrefix.trans ha1 hap', ?_, List.IsPrefix.trans hp'q hq3⟩
    intro h; subst h
    exact ha2 (hap'.eq_of_length (Nat.le_antisymm hap'.length_le ha1.length_le))
  · intro q hq
    obtain ⟨r, hr, h1, h2, h3⟩ := (mem_histForest hdr).1 hq
    obtain ⟨k, c, rfl, hc, hch⟩ := hT r hr
    have hF := chain_forest root hwf dom (P ++ [k]) (hdr _ hr) c hc hch
    exact hF.valid q ((mem_pathToEnter (hdr _ hr)).2 ⟨h1, h2, h3⟩)
  · intro p hp hkc a b ha hb
    obtain ⟨r1, hr1, _, _, h13⟩ := (mem_histForest hdr).1 ha
    obtain ⟨r2, hr2, _, _, h23⟩ := (mem_histForest hdr).1 hb
    obtain ⟨x, c1, rfl, _, _⟩ := hT r1 hr1
    obtain ⟨y, c2, rfl, _, _⟩ := hT r2 hr2
    rcases prefix_snoc_cases h13 with h1 | h1
    · rcases prefix_snoc_cases h23 with h2 | h2
      · exact snoc_prefix_inj h1 h2
      · -- p = P, but then p ++ [a] is longer than P
        have hpP : p = P := by
          have := congrArg List.dropLast h2; simpa using this
        subst hpP
        exact absurd h1 (not_snoc_prefix_self _ _)
    · have hpP : p = P := by
        have := congrArg List.dropLast h1; simpa using this
      subst hpP
      have hx : a = x := by
        have := congrArg List.getLast? h1; simpa using this
      rcases prefix_snoc_cases h23 with h2 | h2
      · exact absurd h2 (not_snoc_prefix_self _ _)
      · have hy : b = y := by
          have := congrArg List.getLast? h2; simpa using this
        have hcomp : pn.kind = .compound := by
          simpa [kindAt, hP] using hkc
        have := hone hcomp _ hr1 _ hr2
        have hxy : x = y := by
          have := congrArg List.getLast? this; simpa using this
        rw [hx, hy, hxy]
  · exact (mem_histForest hdr).2 ⟨r0, hr0, List.prefix_append _ _, snoc_ne_self _ _,
      List.IsPrefix.trans hdP (hPr r0 hr0)⟩

-- the target lists of the recorded cases ----------------------------------------------------------------------------
theorem filter_or_all_sub {α} (p : α → Bool) (R : List α) :
    ∀ r ∈ (if (R.filter p).isEmpty then R else R.filter p), r ∈ R := by
  intro r hr
  split at hr
  · exact hr
  · exact (List.mem_filter.1 hr).1

theorem filter_or_all_ne {α} (p : α → Bool) (R : List α) (hR : R ≠ []) :
    (if (R.filter p).isEmpty then R else R.filter p) ≠ [] := by
  split
  · exact hR
  · rename_i h; intro h0; rw [h0] at h; exact h rfl

theorem deepTargets_sub (m : Machine) (R : List Path) : ∀ r ∈ deepTargets m R, r ∈ R :=
  filter_or_all_sub _ R
theorem deepTargets_ne (m : Machine) (R : List Path) (hR : R ≠ []) : deepTargets m R ≠ [] :=
  filter_or_all_ne _ R hR
theorem shallowTargets_sub (P : Path) (R : List Path) : ∀ r ∈ shallowTargets P R, r ∈ R :=
  filter_or_all_sub _ R
theorem shallowTargets_ne (P : Path) (R : List Path) (hR : R ≠ []) : shallowTargets P R ≠ [] :=
  filter_or_all_ne _ R hR

-- the owner of a history node ------------------------------------------------------------------------------------------
theorem owner_node (root : SNode) (hwf : WF root) (h : Path) (hne : h ≠ []) (hn : SNode)
    (hat : root.at h = some hn) :
    ∃ x d kids, h = h.dropLast ++ [x] ∧ root.at h.dropLast = some (.mk d kids) ∧
      findKid x kids = some hn ∧ (d.kind = .compound ∨ d.kind = .parallel) := by
  have hsplit : h = h.dropLast ++ [h.getLast hne] := (List.dropLast_concat_getLast hne).symm
  obtain ⟨pn, hpn⟩ : ∃ pn, root.at h.dropLast = some pn := by
    rw [hsplit] at hat; exact at_prefix_some hat
  match pn, hpn with
  | .mk d kids, hpn =>
    have hf : findKid (h.getLast hne) kids = some hn := by
      rw [← at_snoc root h.dropLast d kids _ hpn, ← hsplit]; exact hat
    have hkid : (SNode.mk d kids).at [h.getLast hne] = some hn := by
      rw [← at_append root h.dropLast [h.getLast hne] _ hpn, ← hsplit]; exact hat
    exact ⟨h.getLast hne, d, kids, hsplit, hpn, hf,
      by simpa [kind_mk] using kind_of_has_kid (wf_at hwf _ _ hpn) hkid⟩

theorem hasRealKid_find {k : String} {ks : List (String × SNode)} (h : HasRealKid k ks) :
    ∃ c, findKid k ks = some c ∧ c.kind ≠ .history := by
  induction ks with
  | nil => simp [HasRealKid] at h
  | cons hd rest ih =>
    obtain ⟨k', n⟩ := hd
    simp only [HasRealKid] at h
    rcases h with ⟨rfl, hn⟩ | ⟨hne, hr⟩
    · exact ⟨n, by simp [findKid], hn⟩
    · obtain ⟨c, hc, hk⟩ := ih hr
      exact ⟨c, by simp [findKid, hne, hc], hk⟩

/-- static sanity of the history node at `h`; only used while nothing is recorded for its owner:
    a default target that resolves names a non-history state inside the owner; a parallel owner has a
    real region and, should it declare an `initial`, that child is a real region -/
structure HistNodeOK (m : Machine) (h : Path) : Prop where
  default_inside : ∀ hn r, m.root.at h = some hn → histDefault m h hn = some r →
    h.dropLast <+: r ∧ ∃ nr, m.root.at r = some nr ∧ nr.kind ≠ .history
  parallel_owner : ∀ d kids, m.root.at h.dropLast = some (.mk d kids) → d.kind = .parallel →
    (∃ kc ∈ kids, kc.2.kind ≠ .history) ∧
      ∀ i c, d.initial = some i → findKid i kids = some c → c.kind ≠ .history

theorem mem_ownerRegions {P t : Path} {d : StateDef} {kids : List (String × SNode)} :
    t ∈ ownerRegions P (.mk d kids) ↔
      d.kind = .parallel ∧ ∃ k c, (k, c) ∈ kids ∧ c.kind ≠ .history ∧ t = P ++ [k] := by
  unfold ownerRegions
  simp only [kind_mk, SNode.kids]
  by_cases hk : d.kind = .parallel
  · simp only [hk, if_true, List.mem_map, List.mem_filter, bne_iff_ne, ne_eq, true_and]
    constructor
    · rintro ⟨⟨k, c⟩, ⟨hm, hh⟩, rfl⟩; exact ⟨k, c, hm, hh, rfl⟩
    · rintro ⟨k, c, hm, hh, rfl⟩; exact ⟨(k, c), ⟨hm, hh⟩, rfl⟩
  · simp [hk]

theorem ownerEntry_mk (P : Path) (d : StateDef) (kids : List (String × SNode)) :
    ownerEntry P (.mk d kids) =
      match d.initial with
      | some i => if i != "" && (findKid i kids).isSome then [P ++ [i]] else ownerRegions P (.mk d kids)
      | none => ownerRegions P (.mk d kids) := rfl

/-- the owner's normal entry names real children of the owner; a compound owner's is its initial child -/
theorem ownerEntry_spec (root : SNode) (hwf : WF root) (hi : InitOK root) (P : Path) (d : StateDef)
    (kids : List (String × SNode)) (hP : root.at P = some (.mk d kids)) (hk0 : kids ≠ [])
    (hkind : d.kind = .compound ∨ d.kind = .parallel)
    (hpar : d.kind = .parallel → (∃ kc ∈ kids, kc.2.kind ≠ .history) ∧
      ∀ i c, d.initial = some i → findKid i kids = some c → c.kind ≠ .history) :
    (∀ t ∈ ownerEntry P (.mk d kids), ∃ k c, t = P ++ [k] ∧ (k, c) ∈ kids ∧ c.kind ≠ .history) ∧
    ownerEntry P (.mk d kids) ≠ [] ∧
    (d.kind = .compound → ∃ i, d.initial = some i ∧ ownerEntry P (.mk d kids) = [P ++ [i]]) := by
  have hwfn := wf_at hwf P _ hP
  have hin := initOK_at hi P _ hP
  simp only [WF] at hwfn
  simp only [InitOK] at hin
  rcases hkind with hc | hp
  · -- compound owner
    simp only [hc] at hwfn
    obtain ⟨k, hk, hkne⟩ := (hin.2 hc).2 hk0
    have hreal : HasRealKid k kids := by
      rcases hwfn.2.2 with h0 | ⟨k', hk', hr⟩
      · exact absurd h0 hk0
      · rw [hk] at hk'; cases hk'; exact hr
    obtain ⟨c, hfc, hch⟩ := hasRealKid_find hreal
    have he : ownerEntry P (.mk d kids) = [P ++ [k]] := by
      rw [ownerEntry_mk]
      simp [hk, hkne, hfc]
    refine ⟨?_, by rw [he]; simp, fun _ => ⟨k, hk, he⟩⟩
    intro t ht
    rw [he] at ht
    simp only [List.mem_singleton] at ht
    exact ⟨k, c, ht, findKid_some_mem hfc, hch⟩
  · -- parallel owner
    obtain ⟨⟨⟨k0, c0⟩, hm0, hh0⟩, hinit⟩ := hpar hp
    have hreg : ∀ t ∈ ownerRegions P (.mk d kids), ∃ k c, t = P ++ [k] ∧ (k, c) ∈ kids ∧ c.kind ≠ .history := by
      intro t ht
      obtain ⟨_, k, c, hm, hh, rfl⟩ := mem_ownerRegions.1 ht
      exact ⟨k, c, rfl, hm, hh⟩
    have hregne : ownerRegions P (.mk d kids) ≠ [] := by
      intro h0
      have : (P ++ [k0]) ∈ ownerRegions P (.mk d kids) := mem_ownerRegions.2 ⟨hp, k0, c0, hm0, hh0, rfl⟩
      rw [h0] at this; simp at this
    have hnc : d.kind ≠ .compound := by rw [hp]; simp
    refine ⟨?_, ?_, fun h => absurd h hnc⟩
    · intro t ht
      rw [ownerEntry_mk] at ht
      split at ht
      · rename_i i hi'
        by_cases hcond : (i != "" && (findKid i kids).isSome) = true
        · rw [if_pos hcond] at ht
          simp only [Bool.and_eq_true, bne_iff_ne, ne_eq, Option.isSome_iff_exists] at hcond
          obtain ⟨_, c, hfc⟩ := hcond
          simp only [List.mem_singleton] at ht
          exact ⟨i, c, ht, findKid_some_mem hfc, hinit i c hi' hfc⟩
        · rw [if_neg hcond] at ht
          exact hreg t ht
      · exact hreg t ht
    · rw [ownerEntry_mk]
      split
      · rename_i i _
        by_cases hcond : (i != "" && (findKid i kids).isSome) = true
        · rw [if_pos hcond]; simp
        · rw [if_neg hcond]; exact hregne
      · exact hregne

/-- in every case `_resolve_history_target` returns a good target list -/
theorem hist_goodTargets (m : Machine) (hwf : WF m.root) (hi : InitOK m.root) (hist : List (Path × List Path))
    (hh : Path) (hne : hh ≠ []) (hn : SNode) (hat : m.root.at hh = some hn)
    (hI : ∀ R, histGet hist hh.dropLast = some R → R ≠ [] → HistInv m.root hh.dropLast R)
    (hOK : HistNodeOK m hh) (dom : Path) (k1 : String) (hdP : (dom ++ [k1]) <+: hh.dropLast) :
    GoodTargets m.root dom k1 (resolveHistoryTarget m hist hh) := by
  obtain ⟨x, d, kids, hsplit, hpn, hfx, hkind⟩ := owner_node m.root hwf hh hne hn hat
  rw [resolveHistoryTarget_eq m hist hh hn _ hat hpn]
  have hk0 : kids ≠ [] := by intro h0; subst h0; simp [findKid] at hfx
  by_cases hemp : ((histGet hist hh.dropLast).getD []).isEmpty = true
  · -- nothing recorded
    rw [if_pos hemp]
    unfold unvisitedTargets
    cases hd : histDefault m hh hn with
    | some r =>
      simp only
      obtain ⟨hPr, nr, hnr, hnrk⟩ := hOK.default_inside hn r hat hd
      exact goodTargets_single m.root hwf dom r k1 (List.IsPrefix.trans hdP hPr) nr hnr hnrk
    | none =>
      simp only
      obtain ⟨hkidsT, hneT, hcomp⟩ := ownerEntry_spec m.root hwf hi hh.dropLast d kids hpn hk0 hkind
        (hOK.parallel_owner d kids hpn)
      have hnd : (keys kids).Nodup := by
        have := wf_at hwf _ _ hpn; simp only [WF] at this; exact this.2.1
      apply goodTargets_kids m.root hwf dom hh.dropLast k1 _ (.mk d kids) hpn ?_ hneT ?_ hdP
      · intro t ht
        obtain ⟨k, c, rfl, hm, hc⟩ := hkidsT t ht
        refine ⟨k, c, rfl, ?_, hc⟩
        rw [at_snoc m.root _ d kids k hpn]; exact findKid_of_mem_nodup hnd hm
      · intro hc t1 ht1 t2 ht2
        obtain ⟨i, _, he⟩ := hcomp hc
        rw [he] at ht1 ht2
        simp only [List.mem_singleton] at ht1 ht2
        rw [ht1, ht2]
  · rw [if_neg hemp]
    cases hg : histGet hist hh.dropLast with
    | none => simp [hg] at hemp
    | some R =>
      simp only [hg, Option.getD_some] at hemp ⊢
      have hR : R ≠ [] := by intro h0; subst h0; simp at hemp
      have hInv := hI R hg hR
      split
      · exact goodTargets_recorded m.root hwf dom _ k1 R _ hInv (deepTargets_sub m R) (deepTargets_ne m R hR) hdP
      · exact goodTargets_recorded m.root hwf dom _ k1 R _ hInv (shallowTargets_sub _ R)
          (shallowTargets_ne _ R hR) hdP

/-- **C01 extended to history targets** (source outside the owner): whatever the actions do, the
    configuration after the transition is legal. -/
theorem legal_microstep_history (h : Hooks) (hok : HooksOK h) (fl : Flavor) (m : Machine) (ev : Ev)
    (c : Cand) (s : St) (hwf : WF m.root) (hi : InitOK m.root)
    (hL : Legal m.root s.cfg) (hsrc : c.src ∈ s.cfg)
    (tstr : String) (ht : c.t.target = some tstr) (hne : tstr ≠ "")
    (hh : Path) (hres : resolveRobust m c.src tstr = some hh)
    (hn : SNode) (hat : m.root.at hh = some hn) (hk : hn.kind = .history) (hP : hh.dropLast ∉ s.cfg)
    (hI : ∀ R, histGet s.hist hh.dropLast = some R → R ≠ [] → HistInv m.root hh.dropLast R)
    (hOK : HistNodeOK m hh) :
    Legal m.root (execute h fl m ev (planTransition m s.cfg s.hist c) s).cfg := by
  obtain ⟨hhne, _, _, _, k1, hk1⟩ := hist_domain m s.cfg hL c.src hh hsrc hn hat hk hP
  exact (hist_microstep_core h hok fl m ev c s hwf hi hL hsrc tstr ht hne hh hres hn hat hk hP k1 hk1
    (hist_goodTargets m hwf hi s.hist hh hhne hn hat hI hOK _ k1 hk1)).1

-- what is entered below the owner ------------------------------------------------------------------------------------
/-- a state entered below the owner `P` originates from a list element that itself lies below `P` -/
theorem below_owner_origin (root : SNode) (dom P : Path) (T : List Path) (hdP : dom <+: P) (hdne : dom ≠ P)
    (hPT : ∀ t ∈ T, P <+: t) (q : Path) (hPq : P <+: q) :
    q ∈ enterStates root (histForest dom T) ↔
      ∃ p ∈ histForest dom T, P <+: p ∧ (q = p ∨ q ∈ extra root (histForest dom T) p) := by
  have hdr : ∀ t ∈ T, dom <+: t := fun t ht => List.IsPrefix.trans hdP (hPT t ht)
  constructor
  · intro hq
    obtain ⟨p, hp, hor⟩ := mem_enterStates.1 hq
    rcases hor with rfl | hex
    · exact ⟨q, hp, hPq, Or.inl rfl⟩
    · obtain ⟨j, hj, hjL⟩ := extra_below_nonmember hex
      have hpq : p <+: q := prefix_snoc_of_prefix_snoc hj
      rcases List.prefix_or_prefix_of_prefix hPq hpq with h | h
      · exact ⟨p, hp, h, Or.inr hex⟩
      · by_cases heq : p = P
        · subst heq; exact ⟨p, hp, List.prefix_refl _, Or.inr hex⟩
        · exfalso
          obtain ⟨k, hk⟩ := strict_prefix_snoc h heq
          obtain ⟨r, hr, h1, _, _⟩ := (mem_histForest hdr).1 hp
          have hkL : (p ++ [k]) ∈ histForest dom T := by
            refine (mem_histForest hdr).2 ⟨r, hr, List.IsPrefix.trans h1 (List.prefix_append _ _), ?_,
              List.IsPrefix.trans hk (hPT r hr)⟩
            intro he
            rw [← he] at h1
            exact not_snoc_prefix_self _ _ h1
          have : j = k := snoc_prefix_inj hj (List.IsPrefix.trans hk hPq)
          subst this
          exact hjL hkL
  · rintro ⟨p, hp, _, hor⟩
    exact mem_enterStates.2 ⟨p, hp, hor⟩

theorem snoc_prefix_ne {dom P : Path} {k1 : String} (h : (dom ++ [k1]) <+: P) : dom ≠ P := by
  intro he; subst he; exact not_snoc_prefix_self _ _ h

/-- **deep restore, set level**: if every recorded state lies on the way to a target, the states
    entered below the owner are exactly the owner and the recorded selection — no default extras -/
theorem deep_restore_set (root : SNode) (hwf : WF root) (dom P : Path) (k1 : String) (R T : List Path)
    (hI : HistInv root P R) (hTR : ∀ t ∈ T, t ∈ R) (hcover : ∀ r ∈ R, ∃ t ∈ T, r <+: t) (hR : R ≠ [])
    (hdP : (dom ++ [k1]) <+: P) (q : Path) (hPq : P <+: q) :
    q ∈ enterStates root (histForest dom T) ↔ q = P ∨ q ∈ R := by
  have hdPp : dom <+: P := prefix_snoc_of_prefix_snoc hdP
  have hdne : dom ≠ P := snoc_prefix_ne hdP
  have hPT : ∀ t ∈ T, P <+: t := fun t ht => (hI.below t (hTR t ht)).1
  have hdr : ∀ t ∈ T, dom <+: t := fun t ht => List.IsPrefix.trans hdPp (hPT t ht)
  have inL : ∀ x, x = P ∨ x ∈ R → x ∈ histForest dom T := by
    intro x hx
    rcases hx with rfl | hx
    · obtain ⟨r0, hr0⟩ : ∃ r, r ∈ R := by
        cases R with
        | nil => exact absurd rfl hR
        | cons r _ => exact ⟨r, by simp⟩
      obtain ⟨t0, ht0, hrt⟩ := hcover r0 hr0
      exact (mem_histForest hdr).2 ⟨t0, ht0, hdPp, fun h => hdne h.symm, hPT t0 ht0⟩
    · obtain ⟨t, ht, hxt⟩ := hcover x hx
      have hPx := (hI.below x hx).1
      refine (mem_histForest hdr).2 ⟨t, ht, List.IsPrefix.trans hdPp hPx, ?_, hxt⟩
      intro he; subst he
      exact not_snoc_prefix_self _ _ (List.IsPrefix.trans hdP hPx)
  constructor
  · intro hq
    obtain ⟨p, hp, hPp, hor⟩ := (below_owner_origin root dom P T hdPp hdne hPT q hPq).1 hq
    obtain ⟨r, hr, _, _, hpr⟩ := (mem_histForest hdr).1 hp
    obtain ⟨np, hnp, hlp⟩ := hist_between root hwf hI (hTR r hr) hPp hpr
    have hpmem : p = P ∨ p ∈ R := by simpa using legalAt_mem hlp
    rcases hor with rfl | hex
    · exact hpmem
    · exfalso
      have hkidmem : ∀ k ch, LegalAt (P :: R) (p ++ [k]) ch → (p ++ [k]) ∈ histForest dom T := by
        intro k ch hl
        exact inL _ (by simpa using legalAt_mem hl)
      unfold extra at hex
      match np, hnp, hlp with
      | .mk d kids, hnp, hlp =>
        have hwfn := wf_at hwf p _ hnp
        simp only [WF] at hwfn
        have hnd : (keys kids).Nodup := hwfn.2.1
        simp only [hnp] at hex
        simp only [LegalAt] at hlp
        cases hkd : d.kind <;> simp only [hkd] at hex hlp
        · simp at hex
        · by_cases he : hasExplicitChild (histForest dom T) p = true
          · simp [he] at hex
          · simp only [he] at hex
            rcases hlp.2 with h0 | hone
            · subst h0
              cases hini : d.initial <;> simp [hini, enterInit] at hex
            · obtain ⟨k, ch, _, hlk, _⟩ := oneKid_elim _ p kids hnd hone
              exact he ((hasExplicitChild_iff _ p).2 ⟨k, hkidmem k ch hlk⟩)
        · obtain ⟨k, c, hm, hh, hL, _⟩ := mem_regionsNotIn.1 hex
          have := allKids_get _ p k c kids hlp.2 (findKid_of_mem_nodup hnd hm)
          simp only [hh, if_false] at this
          exact hL (hkidmem k c this)
        · simp at hex
        · simp at hex
  · intro hq
    exact mem_enterStates.2 ⟨q, inL q hq, Or.inl rfl⟩

/-- every parallel state that has children has a real region -/
def RegOK (root : SNode) : Prop :=
  ∀ p d kids, root.at p = some (.mk d kids) → d.kind = .parallel → kids ≠ [] →
    ∃ kc ∈ kids, kc.2.kind ≠ .history

/-- below every legally selected state there is a selected leaf -/
theorem leaf_below (root : SNode) (hwf : WF root) (hreg : RegOK root) (c : List Path) :
    ∀ n p, root.at p = some n → LegalAt c p n →
      ∃ l ∈ c, p <+: l ∧ ∃ nl, root.at l = some nl ∧ isLeafNode nl = true := by
  intro n
  induction n using SNode.ind with
  | h d kids ih =>
    intro p hat hl
    have hwfn := wf_at hwf p _ hat
    simp only [WF] at hwfn
    have hnd : (keys kids).Nodup := hwfn.2.1
    have hself : kids = [] → ∃ l ∈ c, p <+: l ∧ ∃ nl, root.at l = some nl ∧ isLeafNode nl = true := by
      intro h0
      exact ⟨p, legalAt_mem hl, List.prefix_refl _, _, hat, by simp [isLeafNode, SNode.kids, h0]⟩
    have hkid : ∀ k ch, findKid k kids = some ch → LegalAt c (p ++ [k]) ch →
        ∃ l ∈ c, p <+: l ∧ ∃ nl, root.at l = some nl ∧ isLeafNode nl = true := by
      intro k ch hf hlk
      have hkat : root.at (p ++ [k]) = some ch := by rw [at_snoc root p d kids k hat]; exact hf
      obtain ⟨l, hlc, hpl, hrest⟩ := ih k ch (findKid_some_mem hf) (p ++ [k]) hkat hlk
      exact ⟨l, hlc, prefix_snoc_of_prefix_snoc hpl, hrest⟩
    simp only [LegalAt] at hl
    cases hkd : d.kind <;> simp only [hkd] at hl hwfn
    · exact hself hwfn.2.2
    · rcases hl.2 with h0 | hone
      · exact hself h0
      · obtain ⟨k, ch, hf, hlk, _⟩ := oneKid_elim c p kids hnd hone
        exact hkid k ch hf hlk
    · by_cases h0 : kids = []
      · exact hself h0
      · obtain ⟨⟨k, ch⟩, hm, hh⟩ := hreg p d kids hat hkd h0
        have hf := findKid_of_mem_nodup hnd hm
        have := allKids_get c p k ch kids hl.2 hf
        simp only [show ch.kind ≠ Kind.history from hh, if_false] at this
        exact hkid k ch hf this
    · exact hself hwfn.2.2
    · exact absurd hl.2 (by simp)

/-- with real regions everywhere, the deep targets are the recorded leaves and every recorded state
    lies above one of them -/
theorem deep_cover (m : Machine) (hwf : WF m.root) (hreg : RegOK m.root) (P : Path) (R : List Path)
    (hI : HistInv m.root P R) :
    ∀ r ∈ R, ∃ t ∈ deepTargets m R, r <+: t ∧ leafAt m t = true := by
  intro r hr
  obtain ⟨nr, hnr, hlr⟩ := hist_between m.root hwf hI hr (hI.below r hr).1 (List.prefix_refl _)
  obtain ⟨l, hl, hrl, nl, hnl, hleaf⟩ := leaf_below m.root hwf hreg (P :: R) nr r hnr hlr
  have hlR : l ∈ R := by
    rcases List.mem_cons.1 hl with rfl | h
    · exfalso
      have := (hI.below r hr)
      exact this.2 (hrl.eq_of_length_le this.1.length_le)
    · exact h
  have hleafAt : leafAt m l = true := by simp [leafAt, hnl, hleaf]
  have hmem : l ∈ R.filter (leafAt m) := List.mem_filter.2 ⟨hlR, hleafAt⟩
  refine ⟨l, ?_, hrl, hleafAt⟩
  unfold deepTargets
  split
  · rename_i he
    rw [List.isEmpty_iff] at he
    rw [he] at hmem; simp at hmem
  · exact hmem

-- targets that are children of the owner (shallow restore, the owner's normal entry) ---------------------------------
theorem enterRegions_eq_of_none (L : List Path) (p : Path) (h : ∀ k, (p ++ [k]) ∉ L) (ks : List (String × SNode)) :
    regionsNotIn L p ks = enterRegions p ks := by
  rw [regionsNotIn_congr L [] p (fun k => ⟨fun x => absurd x (h k), fun x => by simp at x⟩) ks,
    regionsNotIn_nil]

/-- an element of the entry list none of whose children is listed contributes its default descent -/
theorem cons_extra_eq_default (root : SNode) (L : List Path) (t : Path) (nt : SNode)
    (hat : root.at t = some nt) (h : ∀ k, (t ++ [k]) ∉ L) : t :: extra root L t = enterDefault t nt := by
  have he : ¬ hasExplicitChild L t = true := fun hx => by
    obtain ⟨k, hk⟩ := (hasExplicitChild_iff L t).1 hx; exact h k hk
  match nt, hat with
  | .mk d kids, hat =>
    unfold extra
    simp only [hat, enterDefault, he, enterRegions_eq_of_none L t h kids]
    rfl

theorem kids_restore_set (root : SNode) (dom P : Path) (k1 : String) (T : List Path)
    (hdP : (dom ++ [k1]) <+: P) (hT : ∀ t ∈ T, ∃ k, t = P ++ [k]) (hne : T ≠ []) (q : Path) (hPq : P <+: q) :
    q ∈ enterStates root (histForest dom T) ↔
      q = P ∨ q ∈ extra root (histForest dom T) P ∨
        ∃ t ∈ T, q = t ∨ q ∈ extra root (histForest dom T) t := by
  have hdPp : dom <+: P := prefix_snoc_of_prefix_snoc hdP
  have hdne : dom ≠ P := snoc_prefix_ne hdP
  have hPT : ∀ t ∈ T, P <+: t := by
    intro t ht; obtain ⟨k, rfl⟩ := hT t ht; exact List.prefix_append _ _
  have hdr : ∀ t ∈ T, dom <+: t := fun t ht => List.IsPrefix.trans hdPp (hPT t ht)
  obtain ⟨t0, ht0⟩ : ∃ r, r ∈ T := by
    cases T with
    | nil => exact absurd rfl hne
    | cons r _ => exact ⟨r, by simp⟩
  have hPL : P ∈ histForest dom T :=
    (mem_histForest hdr).2 ⟨t0, ht0, hdPp, fun h => hdne h.symm, hPT t0 ht0⟩
  have htL : ∀ t ∈ T, t ∈ histForest dom T := by
    intro t ht
    refine (mem_histForest hdr).2 ⟨t, ht, hdr t ht, ?_, List.prefix_refl _⟩
    intro he
    obtain ⟨k, rfl⟩ := hT t ht
    rw [← he] at hdPp
    exact not_snoc_prefix_self _ _ hdPp
  rw [below_owner_origin root dom P T hdPp hdne hPT q hPq]
  constructor
  · rintro ⟨p, hp, hPp, hor⟩
    obtain ⟨r, hr, _, _, hpr⟩ := (mem_histForest hdr).1 hp
    obtain ⟨k, rfl⟩ := hT r hr
    rcases prefix_snoc_cases hpr with h | h
    · have : p = P := h.eq_of_length_le hPp.length_le
      subst this
      rcases hor with h1 | h1
      · exact Or.inl h1
      · exact Or.inr (Or.inl h1)
    · subst h
      exact Or.inr (Or.inr ⟨_, hr, hor⟩)
  · rintro (h | h | ⟨t, ht, hor⟩)
    · exact ⟨P, hPL, List.prefix_refl _, Or.inl h⟩
    · exact ⟨P, hPL, List.prefix_refl _, Or.inr h⟩
    · exact ⟨t, htL t ht, hPT t ht, hor⟩

/-- no grandchild of the owner is in a forest whose targets are children of the owner -/
theorem no_grandchild (dom P : Path) (T : List Path) (hd : ∀ t ∈ T, dom <+: t)
    (hT : ∀ t ∈ T, ∃ k, t = P ++ [k]) (k : String) (j : String) :
    (P ++ [k] ++ [j]) ∉ histForest dom T := by
  intro h
  obtain ⟨r, hr, _, _, h3⟩ := (mem_histForest hd).1 h
  obtain ⟨k', rfl⟩ := hT r hr
  have := h3.length_le
  simp at this

/-- **shallow restore, set level**: below the owner exactly the owner, the recorded children of the
    owner, and below each of them its default descent -/
theorem shallow_restore_set (root : SNode) (hwf : WF root) (dom P : Path) (k1 : String) (R : List Path)
    (hI : HistInv root P R) (hR : R ≠ []) (hdP : (dom ++ [k1]) <+: P) (q : Path) (hPq : P <+: q) :
    q ∈ enterStates root (histForest dom (shallowTargets P R)) ↔
      q = P ∨ ∃ t ∈ R, t.dropLast = P ∧ ∃ nt, root.at t = some nt ∧ q ∈ enterDefault t nt := by
  -- the children of the owner that were recorded
  have hchild : ∀ k, (P ++ [k]) ∈ P :: R → (P ++ [k]) ∈ R.filter (fun q => q != [] && q.dropLast == P) := by
    intro k hk
    rcases List.mem_cons.1 hk with h | h
    · exact absurd h (snoc_ne_self _ _)
    · exact List.mem_filter.2 ⟨h, by simp⟩
  obtain ⟨r0, hr0⟩ : ∃ r, r ∈ R := by
    cases R with
    | nil => exact absurd rfl hR
    | cons r _ => exact ⟨r, by simp⟩
  have hfne : ¬ (R.filter (fun q => q != [] && q.dropLast == P)).isEmpty = true := by
    obtain ⟨hb1, hb2⟩ := hI.below r0 hr0
    obtain ⟨k, hk⟩ := strict_prefix_snoc hb1 (fun h => hb2 h.symm)
    obtain ⟨_, _, hl⟩ := hist_between root hwf hI hr0 (List.prefix_append _ _) hk
    have := hchild k (legalAt_mem hl)
    intro he
    rw [List.isEmpty_iff] at he
    rw [he] at this; simp at this
  have hTeq : shallowTargets P R = R.filter (fun q => q != [] && q.dropLast == P) := by
    unfold shallowTargets; rw [if_neg hfne]
  have hTmem : ∀ t, t ∈ shallowTargets P R ↔ t ∈ R ∧ t.dropLast = P := by
    intro t
    rw [hTeq, List.mem_filter]
    simp only [Bool.and_eq_true, bne_iff_ne, ne_eq, beq_iff_eq]
    constructor
    · rintro ⟨h1, _, h3⟩; exact ⟨h1, h3⟩
    · rintro ⟨h1, h3⟩
      refine ⟨h1, ?_, h3⟩
      intro h0; subst h0
      exact (hI.below _ h1).2 (by simpa using h3.symm)
  have hT : ∀ t ∈ shallowTargets P R, ∃ k, t = P ++ [k] := by
    intro t ht
    obtain ⟨h1, h2⟩ := (hTmem t).1 ht
    have hne : t ≠ [] := by
      intro h0; subst h0
      exact (hI.below _ h1).2 (by simpa using h2.symm)
    exact ⟨t.getLast hne, by rw [← h2]; exact (List.dropLast_concat_getLast hne).symm⟩
  have hTne : shallowTargets P R ≠ [] := shallowTargets_ne P R hR
  have hdPp : dom <+: P := prefix_snoc_of_prefix_snoc hdP
  have hd : ∀ t ∈ shallowTargets P R, dom <+: t := by
    intro t ht; obtain ⟨k, rfl⟩ := hT t ht
    exact List.IsPrefix.trans hdPp (List.prefix_append _ _)
  have htL : ∀ t ∈ shallowTargets P R, t ∈ histForest dom (shallowTargets P R) := by
    intro t ht
    refine (mem_histForest hd).2 ⟨t, ht, hd t ht, ?_, List.prefix_refl _⟩
    intro he
    obtain ⟨k, rfl⟩ := hT t ht
    rw [← he] at hdPp
    exact not_snoc_prefix_self _ _ hdPp
  rw [kids_restore_set root dom P k1 _ hdP hT hTne q hPq]
  -- the owner itself contributes no extras
  have hnoP : q ∉ extra root (histForest dom (shallowTargets P R)) P := by
    intro hex
    obtain ⟨nP, hnP, hlP⟩ := hI.nodeQ
    unfold extra at hex
    match nP, hnP, hlP with
    | .mk d kids, hnP, hlP =>
      have hwfn := wf_at hwf P _ hnP
      simp only [WF] at hwfn
      have hnd : (keys kids).Nodup := hwfn.2.1
      simp only [hnP] at hex
      simp only [LegalAt] at hlP
      cases hkd : d.kind <;> simp only [hkd] at hex hlP
      · simp at hex
      · obtain ⟨t0, ht0⟩ : ∃ t, t ∈ shallowTargets P R := by
          cases hh : shallowTargets P R with
          | nil => exact absurd hh hTne
          | cons t _ => exact ⟨t, by simp⟩
        obtain ⟨k, hk⟩ := hT t0 ht0
        have : hasExplicitChild (histForest dom (shallowTargets P R)) P = true :=
          (hasExplicitChild_iff _ P).2 ⟨k, by rw [← hk]; exact htL t0 ht0⟩
        simp [this] at hex
      · obtain ⟨k, c, hm, hh, hL, _⟩ := mem_regionsNotIn.1 hex
        have := allKids_get _ P k c kids hlP.2 (findKid_of_mem_nodup hnd hm)
        simp only [hh, if_false] at this
        have hkT : (P ++ [k]) ∈ shallowTargets P R := by
          rw [hTeq]; exact hchild k (legalAt_mem this)
        exact hL (htL _ hkT)
      · simp at hex
      · simp at hex
  constructor
  · rintro (h | h | ⟨t, ht, hor⟩)
    · exact Or.inl h
    · exact absurd h hnoP
    · right
      obtain ⟨h1, h2⟩ := (hTmem t).1 ht
      obtain ⟨nt, hnt⟩ := hI.valid t h1
      obtain ⟨k, hk⟩ := hT t ht
      refine ⟨t, h1, h2, nt, hnt, ?_⟩
      rw [← cons_extra_eq_default root (histForest dom (shallowTargets P R)) t nt hnt
        (fun j => by rw [hk]; exact no_grandchild dom P _ hd hT k j)]
      simpa using hor
  · rintro (h | ⟨t, h1, h2, nt, hnt, hq⟩)
    · exact Or.inl h
    · right; right
      have ht : t ∈ shallowTargets P R := (hTmem t).2 ⟨h1, h2⟩
      obtain ⟨k, hk⟩ := hT t ht
      refine ⟨t, ht, ?_⟩
      rw [← cons_extra_eq_default root (histForest dom (shallowTargets P R)) t nt hnt
        (fun j => by rw [hk]; exact no_grandchild dom P _ hd hT k j)] at hq
      simpa using hq

-- nothing recorded: the owner's normal entry ------------------------------------------------------------------------------
theorem enterInit_find {p : Path} {k : String} {ks : List (String × SNode)} {c : SNode}
    (h : findKid k ks = some c) : enterInit p k ks = enterDefault (p ++ [k]) c := by
  induction ks with
  | nil => simp [findKid] at h
  | cons hd rest ih =>
    obtain ⟨k', n⟩ := hd
    simp only [findKid] at h
    simp only [enterInit]
    by_cases hk : k' = k
    · simp only [hk, if_true, Option.some.injEq] at h ⊢
      rw [h]
    · simp only [hk, if_false] at h ⊢
      exact ih h

theorem mem_enterRegions {p q : Path} {ks : List (String × SNode)} :
    q ∈ enterRegions p ks ↔ ∃ k c, (k, c) ∈ ks ∧ c.kind ≠ .history ∧ q ∈ enterDefault (p ++ [k]) c := by
  rw [← regionsNotIn_nil, mem_regionsNotIn]
  simp

/-- **unvisited, no default target, set level**: entering the owner's normal-entry children below the
    chain to the owner activates exactly the owner's default descent -/
theorem owner_default_set (root : SNode) (hwf : WF root) (dom P : Path) (k1 : String) (T : List Path)
    (d : StateDef) (kids : List (String × SNode)) (hP : root.at P = some (.mk d kids))
    (hkind : d.kind = .compound ∨ d.kind = .parallel)
    (hT : ∀ t ∈ T, ∃ k c, t = P ++ [k] ∧ (k, c) ∈ kids ∧ c.kind ≠ .history) (hne : T ≠ [])
    (hcomp : d.kind = .compound → ∃ i, d.initial = some i ∧ T = [P ++ [i]])
    (hdP : (dom ++ [k1]) <+: P) (q : Path) (hPq : P <+: q) :
    q ∈ enterStates root (histForest dom T) ↔ q ∈ enterDefault P (.mk d kids) := by
  have hwfn := wf_at hwf P _ hP
  simp only [WF] at hwfn
  have hnd : (keys kids).Nodup := hwfn.2.1
  have hT' : ∀ t ∈ T, ∃ k, t = P ++ [k] := by
    intro t ht; obtain ⟨k, _, h, _⟩ := hT t ht; exact ⟨k, h⟩
  have hdPp : dom <+: P := prefix_snoc_of_prefix_snoc hdP
  have hd : ∀ t ∈ T, dom <+: t := by
    intro t ht; obtain ⟨k, rfl⟩ := hT' t ht
    exact List.IsPrefix.trans hdPp (List.prefix_append _ _)
  have htL : ∀ t ∈ T, t ∈ histForest dom T := by
    intro t ht
    refine (mem_histForest hd).2 ⟨t, ht, hd t ht, ?_, List.prefix_refl _⟩
    intro he
    obtain ⟨k, rfl⟩ := hT' t ht
    rw [← he] at hdPp
    exact not_snoc_prefix_self _ _ hdPp
  have hkidat : ∀ k c, (k, c) ∈ kids → root.at (P ++ [k]) = some c := by
    intro k c hm
    rw [at_snoc root P d kids k hP]; exact findKid_of_mem_nodup hnd hm
  -- a listed child contributes its default descent
  have hkid : ∀ k c, (k, c) ∈ kids → (P ++ [k]) ∈ T →
      ((q = P ++ [k] ∨ q ∈ extra root (histForest dom T) (P ++ [k])) ↔ q ∈ enterDefault (P ++ [k]) c) := by
    intro k c hm _
    rw [← cons_extra_eq_default root (histForest dom T) (P ++ [k]) c (hkidat k c hm)
      (fun j => no_grandchild dom P T hd hT' k j)]
    simp
  have hLT : ∀ k, (P ++ [k]) ∈ histForest dom T → (P ++ [k]) ∈ T := by
    intro k hk
    obtain ⟨r, hr, _, _, h3⟩ := (mem_histForest hd).1 hk
    obtain ⟨k', rfl⟩ := hT' r hr
    have : P ++ [k] = P ++ [k'] := h3.eq_of_length (by simp)
    rw [this]; exact hr
  rw [kids_restore_set root dom P k1 T hdP hT' hne q hPq]
  simp only [enterDefault, List.mem_cons]
  rcases hkind with hc | hp
  · -- compound owner
    obtain ⟨i, hini, hTi⟩ := hcomp hc
    obtain ⟨k, c, hk, hm, _⟩ := hT (P ++ [i]) (by rw [hTi]; simp)
    have hki : k = i := by
      have := congrArg List.getLast? hk; simpa using this.symm
    subst hki
    have hex : extra root (histForest dom T) P = [] :=
      extra_compound_explicit hP hc ⟨k, htL _ (by rw [hTi]; simp)⟩
    simp only [hc, hini, hex, List.not_mem_nil, false_or, enterInit_find (findKid_of_mem_nodup hnd hm)]
    constructor
    · rintro (h | ⟨t, ht, hor⟩)
      · exact Or.inl h
      · rw [hTi] at ht
        simp only [List.mem_singleton] at ht
        subst ht
        exact Or.inr ((hkid k c hm (by rw [hTi]; simp)).1 hor)
    · rintro (h | h)
      · exact Or.inl h
      · exact Or.inr ⟨P ++ [k], by rw [hTi]; simp, (hkid k c hm (by rw [hTi]; simp)).2 h⟩
  · -- parallel owner
    simp only [hp, extra_parallel hP hp, mem_enterRegions, mem_regionsNotIn]
    constructor
    · rintro (h | ⟨k, c, hm, hh, _, hq⟩ | ⟨t, ht, hor⟩)
      · exact Or.inl h
      · exact Or.inr ⟨k, c, hm, hh, hq⟩
      · obtain ⟨k, c, rfl, hm, hh⟩ := hT t ht
        exact Or.inr ⟨k, c, hm, hh, (hkid k c hm ht).1 hor⟩
    · rintro (h | ⟨k, c, hm, hh, hq⟩)
      · exact Or.inl h
      · by_cases hkL : (P ++ [k]) ∈ histForest dom T
        · exact Or.inr (Or.inr ⟨P ++ [k], hLT k hkL, (hkid k c hm (hLT k hkL)).2 hq⟩)
        · exact Or.inr (Or.inl ⟨k, c, hm, hh, hkL, hq⟩)

/-- **unvisited with a default target inside the owner, set level**: below the owner the result is
    what `_enter_states` makes of the owner followed by the path from the owner to the default target -/
theorem default_restore_set (root : SNode) (dom P r : Path) (k1 : String)
    (hdP : (dom ++ [k1]) <+: P) (hPr : P <+: r) (q : Path) (hPq : P <+: q) :
    q ∈ enterStates root (histForest dom [r]) ↔ q ∈ enterStates root (P :: pathToEnter P r) := by
  have hdPp : dom <+: P := prefix_snoc_of_prefix_snoc hdP
  have hdne : dom ≠ P := snoc_prefix_ne hdP
  have hdr : dom <+: r := List.IsPrefix.trans hdPp hPr
  have hmem : ∀ p, P <+: p → (p ∈ histForest dom [r] ↔ p ∈ P :: pathToEnter P r) := by
    intro p hPp
    rw [histForest_single, mem_pathToEnter hdr, List.mem_cons, mem_pathToEnter hPr]
    constructor
    · rintro ⟨_, _, h3⟩
      by_cases he : p = P
      · exact Or.inl he
      · exact Or.inr ⟨hPp, he, h3⟩
    · rintro (h | ⟨_, _, h3⟩)
      · subst h; exact ⟨hdPp, fun h => hdne h.symm, hPr⟩
      · refine ⟨List.IsPrefix.trans hdPp hPp, ?_, h3⟩
        intro he; subst he
        exact not_snoc_prefix_self _ _ (List.IsPrefix.trans hdP hPp)
  have hbelow2 : ∀ p ∈ P :: pathToEnter P r, P <+: p := by
    intro p hp
    rcases List.mem_cons.1 hp with rfl | hp
    · exact List.prefix_refl _
    · exact ((mem_pathToEnter hPr).1 hp).1
  rw [below_owner_origin root dom P [r] hdPp hdne (by intro t ht; simp at ht; rw [ht]; exact hPr) q hPq,
    mem_enterStates]
  constructor
  · rintro ⟨p, hp, hPp, hor⟩
    refine ⟨p, (hmem p hPp).1 hp, ?_⟩
    rw [← extra_congr (fun k => hmem (p ++ [k]) (List.IsPrefix.trans hPp (List.prefix_append _ _)))]
    exact hor
  · rintro ⟨p, hp, hor⟩
    have hPp := hbelow2 p hp
    refine ⟨p, (hmem p hPp).2 hp, hPp, ?_⟩
    rw [extra_congr (fun k => hmem (p ++ [k]) (List.IsPrefix.trans hPp (List.prefix_append _ _)))]
    exact hor

-- every restored state is entered once ------------------------------------------------------------------------------------
theorem nodup_eraseDups {α} [BEq α] [LawfulBEq α] : ∀ (n : Nat) (l : List α), l.length ≤ n → l.eraseDups.Nodup := by
  intro n
  induction n with
  | zero =>
    intro l hl
    have : l = [] := List.eq_nil_of_length_eq_zero (by omega)
    subst this; simp
  | succ n ih =>
    intro l hl
    cases l with
    | nil => simp
    | cons a as =>
      rw [List.eraseDups_cons, List.nodup_cons]
      constructor
      · rw [List.mem_eraseDups, List.mem_filter]
        rintro ⟨_, h⟩
        simp at h
      · apply ih
        have := List.length_filter_le (fun b => !b == a) as
        simp only [List.length_cons] at hl
        omega

theorem regionsNotIn_prefix {L : List Path} {p q : Path} {ks : List (String × SNode)}
    (h : q ∈ regionsNotIn L p ks) : ∃ k ∈ keys ks, (p ++ [k]) <+: q := by
  obtain ⟨k, c, hm, _, _, hq⟩ := mem_regionsNotIn.1 h
  exact ⟨k, List.mem_map.2 ⟨(k, c), hm, rfl⟩, enterDefault_prefix _ _ q hq⟩

mutual
theorem enterDefault_nodup (p : Path) (n : SNode) (hwf : WF n) : (enterDefault p n).Nodup := by
  match n with
  | .mk d kids =>
    simp only [WF] at hwf
    simp only [enterDefault, List.nodup_cons]
    cases hkd : d.kind <;> simp only []
    · simp
    · cases hini : d.initial with
      | none => simp
      | some k =>
        simp only
        refine ⟨?_, enterInit_nodup p k kids hwf.1⟩
        intro hm
        obtain ⟨k', _, hp⟩ := enterInit_prefix p k kids p hm
        exact not_snoc_prefix_self _ _ hp
    · refine ⟨?_, ?_⟩
      · intro hm
        obtain ⟨k', _, hp⟩ := enterRegions_prefix p kids p hm
        exact not_snoc_prefix_self _ _ hp
      · rw [← regionsNotIn_nil]
        exact regionsNotIn_nodup [] p kids hwf.1 hwf.2.1
    · simp
    · simp
theorem enterInit_nodup (p : Path) (k : String) (ks : List (String × SNode)) (hwf : WFKids ks) :
    (enterInit p k ks).Nodup := by
  match ks with
  | [] => simp [enterInit]
  | (k', c) :: rest =>
    simp only [WFKids] at hwf
    simp only [enterInit]
    split
    · exact enterDefault_nodup (p ++ [k']) c hwf.1
    · exact enterInit_nodup p k rest hwf.2
theorem regionsNotIn_nodup (L : List Path) (p : Path) (ks : List (String × SNode)) (hwf : WFKids ks)
    (hnd : (ks.map (·.1)).Nodup) : (regionsNotIn L p ks).Nodup := by
  match ks with
  | [] => simp [regionsNotIn]
  | (k, c) :: rest =>
    simp only [WFKids] at hwf
    simp only [List.map_cons, List.nodup_cons] at hnd
    simp only [regionsNotIn]
    rw [List.nodup_append]
    refine ⟨?_, regionsNotIn_nodup L p rest hwf.2 hnd.2, ?_⟩
    · split
      · simp
      · exact enterDefault_nodup (p ++ [k]) c hwf.1
    · intro a ha b hb hab
      subst hab
      split at ha
      · simp at ha
      · have h1 := enterDefault_prefix (p ++ [k]) c a ha
        obtain ⟨k', hk', h2⟩ := regionsNotIn_prefix hb
        have : k ≠ k' := by intro h; subst h; exact hnd.1 hk'
        exact prefix_snoc_disjoint h2 this h1
end

theorem extra_nodup (root : SNode) (hwf : WF root) (L : List Path) (p : Path) : (extra root L p).Nodup := by
  unfold extra
  cases hat : root.at p with
  | none => simp
  | some n =>
    match n, hat with
    | .mk d kids, hat =>
      have hwfn := wf_at hwf p _ hat
      simp only [WF] at hwfn
      simp only
      cases hkd : d.kind <;> simp only []
      · simp
      · split
        · simp
        · cases d.initial with
          | none => simp
          | some k => exact enterInit_nodup p k kids hwfn.1
      · exact regionsNotIn_nodup L p kids hwfn.1 hwfn.2.1
      · simp
      · simp

/-- entering a duplicate-free forest enters every state once -/
theorem enterStates_nodup (root : SNode) (hwf : WF root) (L : List Path) (hF : Forest root L)
    (hnd : L.Nodup) : (enterStates root L).Nodup := by
  unfold enterStates
  rw [List.Nodup, List.pairwise_flatMap]
  constructor
  · intro p _
    show (p :: extra root L p).Nodup
    rw [List.nodup_cons]
    refine ⟨?_, extra_nodup root hwf L p⟩
    intro hm
    obtain ⟨k, hk, _⟩ := extra_below_nonmember hm
    exact not_snoc_prefix_self _ _ hk
  · refine List.Pairwise.imp_of_mem ?_ hnd
    intro p p' hp hp' hne x hx y hy hxy
    subst hxy
    simp only [List.mem_cons] at hx hy
    rcases hx with rfl | hx <;> rcases hy with hy | hy
    · exact hne hy
    · obtain ⟨k, hk, hkL⟩ := extra_below_nonmember hy
      exact hkL (hF.convex p' hp' x hp (prefix_snoc_of_prefix_snoc hk) _ (List.prefix_append _ _) hk)
    · subst hy
      obtain ⟨k, hk, hkL⟩ := extra_below_nonmember hx
      exact hkL (hF.convex p hp x hp' (prefix_snoc_of_prefix_snoc hk) _ (List.prefix_append _ _) hk)
    · obtain ⟨j, hj, hjL⟩ := extra_below_nonmember hx
      obtain ⟨k, hk, hkL⟩ := extra_below_nonmember hy
      rcases List.prefix_or_prefix_of_prefix hj hk with h | h
      · rcases prefix_snoc_cases h with h' | h'
        · exact hjL (hF.convex p hp p' hp' (List.IsPrefix.trans (List.prefix_append _ _) h') _
            (List.prefix_append _ _) h')
        · have : p = p' := by
            have := congrArg List.dropLast h'; simpa using this
          exact hne this
      · rcases prefix_snoc_cases h with h' | h'
        · exact hkL (hF.convex p' hp' p hp (List.IsPrefix.trans (List.prefix_append _ _) h') _
            (List.prefix_append _ _) h')
        · have : p' = p := by
            have := congrArg List.dropLast h'; simpa using this
          exact hne this.symm

/-- the plan of a restore lists every state it enters exactly once -/
theorem planEnter_restore_nodup (m : Machine) (hwf : WF m.root) (hi : InitOK m.root) (dom : Path) (k1 : String)
    (T : List Path) (hG : GoodTargets m.root dom k1 T) :
    ((planEnter m ((T.flatMap (pathFrom dom)).eraseDups)).1.map (·.path)).Nodup := by
  have hLmem : ∀ q, q ∈ (T.flatMap (pathFrom dom)).eraseDups ↔ q ∈ histForest dom T := by
    intro q; rw [List.mem_eraseDups, flatMap_pathFrom dom T hG.below]
  have hF : Forest m.root ((T.flatMap (pathFrom dom)).eraseDups) :=
    Forest_congr (fun q => (hLmem q).symm) hG.forest
  have hvL : ∀ p ∈ (T.flatMap (pathFrom dom)).eraseDups, ∃ n, m.root.at p = some n := by
    intro p hp; obtain ⟨n, hn', _⟩ := hF.valid p hp; exact ⟨n, hn'⟩
  rw [(planEnter_eq m _ hwf hi hvL).2]
  exact enterStates_nodup m.root hwf _ hF (nodup_eraseDups _ _ (Nat.le_refl _))

-- the history map matters only as a finite map ------------------------------------------------------------------------------
theorem resolveHistoryTarget_congr (m : Machine) (hist hist' : List (Path × List Path)) (h : Path)
    (hg : histGet hist h.dropLast = histGet hist' h.dropLast) :
    resolveHistoryTarget m hist h = resolveHistoryTarget m hist' h := by
  have h1 : ∀ hs, resolveHistoryTarget m hs h =
      (let remembered := (histGet hs h.dropLast).getD []
       match m.root.at h, m.root.at h.dropLast with
        | some hn, some pn =>
          if remembered.isEmpty then unvisitedTargets m h hn pn
          else if hn.d.deep then deepTargets m remembered else shallowTargets h.dropLast remembered
        | _, _ => []) := fun _ => rfl
  rw [h1, h1, hg]

theorem planTransition_hist_congr (m : Machine) (cfg : List Path) (hist hist' : List (Path × List Path))
    (c : Cand) (hg : ∀ P, histGet hist P = histGet hist' P) :
    planTransition m cfg hist c = planTransition m cfg hist' c := by
  have hf : resolveHistoryTarget m hist = resolveHistoryTarget m hist' :=
    funext (fun tgt => resolveHistoryTarget_congr m hist hist' tgt (hg _))
  unfold planTransition
  rw [hf]

-- the restore on the executable model ------------------------------------------------------------------------------------------
/-- candidate `c` is fired in state `s`; its target resolves to the history node at `hh` (node `hn`)
    and its source lies outside the owner `hh.dropLast` of that node (the owner is inactive) -/
structure HistFire (m : Machine) (s : St) (c : Cand) (hh : Path) (hn : SNode) : Prop where
  wf : WF m.root
  init : InitOK m.root
  legal : Legal m.root s.cfg
  src : c.src ∈ s.cfg
  target : ∃ tstr, c.t.target = some tstr ∧ tstr ≠ "" ∧ resolveRobust m c.src tstr = some hh
  node : m.root.at hh = some hn
  kind : hn.kind = .history
  outside : hh.dropLast ∉ s.cfg

theorem resolve_recorded (m : Machine) (hist : List (Path × List Path)) (hh : Path) (hn pn : SNode)
    (hat : m.root.at hh = some hn) (hpat : m.root.at hh.dropLast = some pn) (R : List Path)
    (hg : histGet hist hh.dropLast = some R) (hR : R ≠ []) :
    resolveHistoryTarget m hist hh =
      if hn.d.deep then deepTargets m R else shallowTargets hh.dropLast R := by
  rw [resolveHistoryTarget_eq m hist hh hn pn hat hpat, hg]
  have : ¬ R.isEmpty = true := by rw [List.isEmpty_iff]; exact hR
  simp only [Option.getD_some]
  rw [if_neg this]

theorem resolve_unvisited (m : Machine) (hist : List (Path × List Path)) (hh : Path) (hn pn : SNode)
    (hat : m.root.at hh = some hn) (hpat : m.root.at hh.dropLast = some pn)
    (hg : histGet hist hh.dropLast = none ∨ histGet hist hh.dropLast = some []) :
    resolveHistoryTarget m hist hh = unvisitedTargets m hh hn pn := by
  rw [resolveHistoryTarget_eq m hist hh hn pn hat hpat]
  rcases hg with hg | hg <;> simp [hg]

/-- below the owner, the configuration after a successful history transition is what was entered -/
theorem hist_result_below (h : Hooks) (hok : HooksOK h) (fl : Flavor) (m : Machine) (ev : Ev)
    (c : Cand) (s : St) (hh : Path) (hn : SNode) (hf : HistFire m s c hh hn)
    (k1 : String) (hk1 : (lcp c.src hh ++ [k1]) <+: hh.dropLast)
    (hG : GoodTargets m.root (lcp c.src hh) k1 (resolveHistoryTarget m s.hist hh))
    (herr : (execute h fl m ev (planTransition m s.cfg s.hist c) s).err = none) :
    ∀ q, hh.dropLast <+: q → (q ∈ (execute h fl m ev (planTransition m s.cfg s.hist c) s).cfg ↔
      q ∈ enterStates m.root (histForest (lcp c.src hh) (resolveHistoryTarget m s.hist hh))) := by
  obtain ⟨tstr, ht, hne, hres⟩ := hf.target
  intro q hPq
  rw [(hist_microstep_core h hok fl m ev c s hf.wf hf.init hf.legal hf.src tstr ht hne hh hres hn hf.node
    hf.kind hf.outside k1 hk1 hG).2 herr q]
  unfold histResult
  constructor
  · rintro (⟨hqc, _⟩ | hq)
    · exact absurd (prefix_closed hf.legal.parent_active hPq hqc) hf.outside
    · exact hq
  · intro hq; exact Or.inr hq

/-- **deep history restores exactly the recorded selection** -/
theorem deep_restores_exact (h : Hooks) (hok : HooksOK h) (fl : Flavor) (m : Machine) (ev : Ev)
    (c : Cand) (s : St) (hh : Path) (hn : SNode) (hf : HistFire m s c hh hn) (hreg : RegOK m.root)
    (R : List Path) (hg : histGet s.hist hh.dropLast = some R) (hR : R ≠ [])
    (hI : HistInv m.root hh.dropLast R) (hdeep : hn.d.deep = true)
    (herr : (execute h fl m ev (planTransition m s.cfg s.hist c) s).err = none) :
    ∀ q, hh.dropLast <+: q →
      (q ∈ (execute h fl m ev (planTransition m s.cfg s.hist c) s).cfg ↔ q = hh.dropLast ∨ q ∈ R) := by
  obtain ⟨hhne, _, _, _, k1, hk1⟩ := hist_domain m s.cfg hf.legal c.src hh hf.src hn hf.node hf.kind hf.outside
  obtain ⟨x, d, kids, _, hpn, _, _⟩ := owner_node m.root hf.wf hh hhne hn hf.node
  have hT : resolveHistoryTarget m s.hist hh = deepTargets m R := by
    rw [resolve_recorded m s.hist hh hn _ hf.node hpn R hg hR, if_pos hdeep]
  have hG : GoodTargets m.root (lcp c.src hh) k1 (resolveHistoryTarget m s.hist hh) := by
    rw [hT]
    exact goodTargets_recorded m.root hf.wf _ _ k1 R _ hI (deepTargets_sub m R) (deepTargets_ne m R hR) hk1
  intro q hPq
  rw [hist_result_below h hok fl m ev c s hh hn hf k1 hk1 hG herr q hPq, hT]
  exact deep_restore_set m.root hf.wf _ _ k1 R _ hI (deepTargets_sub m R)
    (fun r hr => by
      obtain ⟨t, ht, hrt, _⟩ := deep_cover m hf.wf hreg _ R hI r hr
      exact ⟨t, ht, hrt⟩) hR hk1 q hPq

/-- **shallow history restores the recorded children of the owner, each followed by its default descent** -/
theorem shallow_restores_child_then_default (h : Hooks) (hok : HooksOK h) (fl : Flavor) (m : Machine) (ev : Ev)
    (c : Cand) (s : St) (hh : Path) (hn : SNode) (hf : HistFire m s c hh hn)
    (R : List Path) (hg : histGet s.hist hh.dropLast = some R) (hR : R ≠ [])
    (hI : HistInv m.root hh.dropLast R) (hshallow : hn.d.deep = false)
    (herr : (execute h fl m ev (planTransition m s.cfg s.hist c) s).err = none) :
    ∀ q, hh.dropLast <+: q →
      (q ∈ (execute h fl m ev (planTransition m s.cfg s.hist c) s).cfg ↔
        q = hh.dropLast ∨ ∃ t ∈ R, t.dropLast = hh.dropLast ∧
          ∃ nt, m.root.at t = some nt ∧ q ∈ enterDefault t nt) := by
  obtain ⟨hhne, _, _, _, k1, hk1⟩ := hist_domain m s.cfg hf.legal c.src hh hf.src hn hf.node hf.kind hf.outside
  obtain ⟨x, d, kids, _, hpn, _, _⟩ := owner_node m.root hf.wf hh hhne hn hf.node
  have hT : resolveHistoryTarget m s.hist hh = shallowTargets hh.dropLast R := by
    rw [resolve_recorded m s.hist hh hn _ hf.node hpn R hg hR, hshallow]; rfl
  have hG : GoodTargets m.root (lcp c.src hh) k1 (resolveHistoryTarget m s.hist hh) := by
    rw [hT]
    exact goodTargets_recorded m.root hf.wf _ _ k1 R _ hI (shallowTargets_sub _ R) (shallowTargets_ne _ R hR) hk1
  intro q hPq
  rw [hist_result_below h hok fl m ev c s hh hn hf k1 hk1 hG herr q hPq, hT]
  exact shallow_restore_set m.root hf.wf _ _ k1 R hI hR hk1 q hPq

/-- **never visited**: the default target (entered from the owner down, with the usual default
    descents) if the history node declares one that resolves, else the owner's normal entry -/
theorem unvisited_uses_default_else_normal_entry (h : Hooks) (hok : HooksOK h) (fl : Flavor) (m : Machine)
    (ev : Ev) (c : Cand) (s : St) (hh : Path) (hn : SNode) (hf : HistFire m s c hh hn)
    (hg : histGet s.hist hh.dropLast = none ∨ histGet s.hist hh.dropLast = some [])
    (hOK : HistNodeOK m hh)
    (herr : (execute h fl m ev (planTransition m s.cfg s.hist c) s).err = none) :
    (∀ r, histDefault m hh hn = some r → ∀ q, hh.dropLast <+: q →
      (q ∈ (execute h fl m ev (planTransition m s.cfg s.hist c) s).cfg ↔
        q ∈ enterStates m.root (hh.dropLast :: pathToEnter hh.dropLast r))) ∧
    (histDefault m hh hn = none → ∀ pn, m.root.at hh.dropLast = some pn → ∀ q, hh.dropLast <+: q →
      (q ∈ (execute h fl m ev (planTransition m s.cfg s.hist c) s).cfg ↔ q ∈ enterDefault hh.dropLast pn)) := by
  obtain ⟨hhne, _, _, _, k1, hk1⟩ := hist_domain m s.cfg hf.legal c.src hh hf.src hn hf.node hf.kind hf.outside
  obtain ⟨x, d, kids, _, hpn, hfx, hkind⟩ := owner_node m.root hf.wf hh hhne hn hf.node
  have hk0 : kids ≠ [] := by intro h0; subst h0; simp [findKid] at hfx
  have hI : ∀ R, histGet s.hist hh.dropLast = some R → R ≠ [] → HistInv m.root hh.dropLast R := by
    intro R hR hne
    rcases hg with hg | hg <;> rw [hg] at hR <;> cases hR
    exact absurd rfl hne
  have hG := hist_goodTargets m hf.wf hf.init s.hist hh hhne hn hf.node hI hOK _ k1 hk1
  have hT := resolve_unvisited m s.hist hh hn _ hf.node hpn hg
  have hbelow := hist_result_below h hok fl m ev c s hh hn hf k1 hk1 hG herr
  constructor
  · intro r hd q hPq
    have hTr : resolveHistoryTarget m s.hist hh = [r] := by
      rw [hT]; unfold unvisitedTargets; rw [hd]
    rw [hbelow q hPq, hTr]
    exact default_restore_set m.root _ _ r k1 hk1 (hOK.default_inside hn r hf.node hd).1 q hPq
  · intro hd pn hpn' q hPq
    rw [hpn] at hpn'; cases hpn'
    have hTr : resolveHistoryTarget m s.hist hh = ownerEntry hh.dropLast (.mk d kids) := by
      rw [hT]; unfold unvisitedTargets; rw [hd]
    obtain ⟨hkidsT, hneT, hcomp⟩ := ownerEntry_spec m.root hf.wf hf.init hh.dropLast d kids hpn hk0 hkind
      (hOK.parallel_owner d kids hpn)
    rw [hbelow q hPq, hTr]
    exact owner_default_set m.root hf.wf _ _ k1 _ d kids hpn hkind hkidsT hneT hcomp hk1 q hPq

/-- every state a history transition enters is entered once -/
theorem restored_entered_once (m : Machine) (s : St) (c : Cand) (hh : Path) (hn : SNode)
    (hf : HistFire m s c hh hn)
    (hI : ∀ R, histGet s.hist hh.dropLast = some R → R ≠ [] → HistInv m.root hh.dropLast R)
    (hOK : HistNodeOK m hh) :
    ((planTransition m s.cfg s.hist c).entries.map (·.path)).Nodup := by
  obtain ⟨tstr, ht, hne, hres⟩ := hf.target
  obtain ⟨hhne, hns, hdomO, _, k1, hk1⟩ :=
    hist_domain m s.cfg hf.legal c.src hh hf.src hn hf.node hf.kind hf.outside
  have hkh : m.kindAt hh = some Kind.history := by simp [Machine.kindAt, hf.node, hf.kind]
  rw [planTransition_history m s.cfg s.hist c tstr ht hne hh hres hns hkh _ hdomO]
  exact planEnter_restore_nodup m hf.wf hf.init _ k1 _
    (hist_goodTargets m hf.wf hf.init s.hist hh hhne hn hf.node hI hOK _ k1 hk1)

-- recording establishes the invariant the restore relies on ------------------------------------------------------------------
theorem recRem_ne_nil_iff {m : Machine} {cfg : List Path} {P : Path} :
    recRem m cfg P ≠ [] ↔ ∃ q ∈ cfg, P <+: q ∧ q ≠ P := by
  constructor
  · intro h
    cases hr : recRem m cfg P with
    | nil => exact absurd hr h
    | cons q _ =>
      have : q ∈ recRem m cfg P := by rw [hr]; simp
      exact ⟨q, mem_recRem.1 this⟩
  · rintro ⟨q, hq⟩ h0
    have : q ∈ recRem m cfg P := mem_recRem.2 hq
    rw [h0] at this; simp at this

theorem HistInv_congr {root : SNode} {Q : Path} {R R' : List Path} (h : ∀ q, q ∈ R ↔ q ∈ R')
    (hI : HistInv root Q R) : HistInv root Q R' := by
  obtain ⟨nQ, hnQ, hl⟩ := hI.nodeQ
  refine ⟨⟨nQ, hnQ, LegalAt_congr _ _ Q nQ (fun q _ => by simp [h q]) hl⟩, ?_, ?_⟩
  · intro r hr; exact hI.below r ((h r).2 hr)
  · intro r hr; exact hI.valid r ((h r).2 hr)

/-- what `_record_history` computes for an active owner of a legal configuration satisfies `HistInv` -/
theorem recRem_inv (m : Machine) (hwf : WF m.root) (cfg : List Path) (hL : Legal m.root cfg) (P : Path)
    (hP : P ∈ cfg) : HistInv m.root P (recRem m cfg P) := by
  refine HistInv_congr ?_ (recorded_inv m.root hwf cfg hL P hP)
  intro q
  rw [mem_recorded, mem_recRem]
  constructor
  · rintro ⟨a, b, c⟩; exact ⟨a, c, b⟩
  · rintro ⟨a, b, c⟩; exact ⟨a, c, b⟩

/-- every non-empty remembered list is a legal selection of its owner's subtree -/
def HistAll (m : Machine) (hist : List (Path × List Path)) : Prop :=
  ∀ P R, histGet hist P = some R → R ≠ [] → HistInv m.root P R

/-- the history invariant is preserved by recording at the exit from a legal configuration -/
theorem histAll_recordHistory (m : Machine) (hwf : WF m.root) (ex : List Path) (s : St)
    (hL : Legal m.root s.cfg) (hex : ∀ e ∈ ex, e ∈ s.cfg) (hA : HistAll m s.hist) :
    HistAll m (recordHistory m ex s).hist := by
  intro P R hg hR
  rw [histGet_recordHistory] at hg
  split at hg
  · rename_i hc
    obtain ⟨⟨e, he, hPe⟩, _⟩ := hc
    cases hg
    exact recRem_inv m hwf s.cfg hL P (prefix_closed hL.parent_active hPe (hex e he))
  · exact hA P R hg hR

theorem histAll_nil (m : Machine) : HistAll m [] := by
  intro P R hg; simp [histGet] at hg

end Hist
end XSM
