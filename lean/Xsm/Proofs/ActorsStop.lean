import Xsm.Proofs.ActorsQuiet
/-!
`stop()` takes a whole subtree down.  `stopA` is a fuel-bounded recursion over a tree stored as uid
references; the proof runs on three relations between the state before and after:

* `Mono s s'`  — monotone facts: what is dead stays dead, what is stopped stays stopped, nothing starts
  running, a children map is either unchanged or emptied, and the map of a survivor is unchanged;
* `DC s s'`    — "down-closed": every actor that was running and no longer is, is `Dead`, has an empty
  children map, and every child of it that was running is `Dead` too;
* `WF s`       — children are later, existing actors (uid of a child > uid of its parent).
-/
namespace XSM.Actors

def R (s : Sys) (u : Nat) : Prop := (s.get u).status = .running

/-- children point to later, existing actors -/
def WF (s : Sys) : Prop := ∀ u kv, kv ∈ (s.get u).kids → u < kv.2 ∧ kv.2 < s.actors.length

structure Mono (s s' : Sys) : Prop where
  flavor : s'.flavor = s.flavor
  n : s'.actors.length = s.actors.length
  dead : ∀ u, Dead s u → Dead s' u
  stopped : ∀ u, (s.get u).status = .stopped → (s'.get u).status = .stopped
  run : ∀ u, R s' u → R s u
  kids : ∀ u, (s'.get u).kids = (s.get u).kids ∨ (s'.get u).kids = []
  frame : ∀ u, R s' u → (s'.get u).kids = (s.get u).kids
  uninit : ∀ u, (s.get u).status = .uninit → (s'.get u).status = .uninit

def DC (s s' : Sys) : Prop :=
  ∀ u, R s u → ¬ R s' u →
    Dead s' u ∧ (s'.get u).kids = [] ∧ ∀ kv ∈ (s.get u).kids, R s kv.2 → Dead s' kv.2

theorem Mono.refl (s : Sys) : Mono s s :=
  ⟨rfl, rfl, fun _ h => h, fun _ h => h, fun _ h => h, fun _ => Or.inl rfl, fun _ _ => rfl, fun _ h => h⟩

theorem Mono.trans {a b c : Sys} (h1 : Mono a b) (h2 : Mono b c) : Mono a c := by
  refine ⟨h2.flavor.trans h1.flavor, h2.n.trans h1.n, fun u h => h2.dead u (h1.dead u h),
    fun u h => h2.stopped u (h1.stopped u h), fun u h => h1.run u (h2.run u h), fun u => ?_, fun u h => ?_,
    fun u h => h2.uninit u (h1.uninit u h)⟩
  · rcases h2.kids u with e2 | e2
    · rcases h1.kids u with e1 | e1
      · exact Or.inl (e2.trans e1)
      · exact Or.inr (e2.trans e1)
    · exact Or.inr e2
  · exact (h2.frame u h).trans (h1.frame u (h2.run u h))

theorem DC.refl (s : Sys) : DC s s := fun _ h1 h2 => absurd h1 h2

theorem DC.trans {a b c : Sys} (m1 : Mono a b) (m2 : Mono b c) (d1 : DC a b) (d2 : DC b c) : DC a c := by
  intro u hua huc
  by_cases hub : R b u
  · have ⟨dd, dk, dkids⟩ := d2 u hub huc
    refine ⟨dd, dk, fun kv hkv hr => ?_⟩
    have hk : (b.get u).kids = (a.get u).kids := m1.frame u hub
    by_cases hrb : R b kv.2
    · exact dkids kv (by rw [hk]; exact hkv) hrb
    · exact m2.dead _ (d1 kv.2 hr hrb).1
  · have ⟨dd, dk, dkids⟩ := d1 u hua hub
    refine ⟨m2.dead u dd, ?_, fun kv hkv hr => m2.dead _ (dkids kv hkv hr)⟩
    rcases m2.kids u with e | e
    · exact e.trans dk
    · exact e

theorem WF.mono {s s' : Sys} (h : WF s) (m : Mono s s') : WF s' := by
  intro u kv hkv
  rcases m.kids u with e | e
  · rw [e] at hkv
    have := h u kv hkv
    exact ⟨this.1, by rw [m.n]; exact this.2⟩
  · rw [e] at hkv; cases hkv

/-! ### the pieces of `stopA` -/

/-- an update that touches neither status nor kids, and can only switch `alive` off -/
theorem mono_upd_inert (s : Sys) (x : Nat) (f : Actor → Actor) (h1 : ∀ a, (f a).status = a.status)
    (h2 : ∀ a, (f a).kids = a.kids) (h3 : ∀ a, a.alive = false → (f a).alive = false) : Mono s (s.upd x f) := by
  have hst : ∀ u, ((s.upd x f).get u).status = (s.get u).status := fun u => get_upd_proj (·.status) s x u f h1
  have hk : ∀ u, ((s.upd x f).get u).kids = (s.get u).kids := fun u => get_upd_proj (·.kids) s x u f h2
  have hal : ∀ u, (s.get u).alive = false → ((s.upd x f).get u).alive = false := by
    intro u hu
    rw [get_upd]; split
    · next hc => rw [← hc.1]; exact h3 _ hu
    · exact hu
  exact ⟨rfl, n_upd s x f, fun u hd => ⟨by rw [hst]; exact hd.1, fun ha => hal u (hd.2 ha)⟩,
    fun u h => by rw [hst]; exact h, fun u h => by unfold R at *; rw [← hst]; exact h,
    fun u => Or.inl (hk u), fun u _ => hk u, fun u h => by rw [hst]; exact h⟩

theorem mono_of_actors_eq {s s' : Sys} (hf : s'.flavor = s.flavor) (ha : s'.actors = s.actors) : Mono s s' := by
  have hg : ∀ u, s'.get u = s.get u := get_congr ha
  exact ⟨hf, by rw [ha], fun u hd => ⟨by rw [hg]; exact hd.1, by rw [hg, hf]; exact hd.2⟩,
    fun u h => by rw [hg]; exact h, fun u h => by unfold R at *; rw [← hg]; exact h,
    fun u => Or.inl (by rw [hg]), fun u _ => by rw [hg], fun u h => by rw [hg]; exact h⟩

theorem mono_drainAll (busy : Option Nat) (s : Sys) : Mono s (drainAll busy s) := by
  have hst : ∀ u, ((drainAll busy s).get u).status = (s.get u).status := by
    intro u; rw [get_drainAll]; unfold drainActor
    split
    · rfl
    · split
      · rfl
      · split <;> rfl
  have hk : ∀ u, ((drainAll busy s).get u).kids = (s.get u).kids := by
    intro u; rw [get_drainAll]; unfold drainActor
    split
    · rfl
    · split
      · rfl
      · split <;> rfl
  have hal : ∀ u, (s.get u).alive = false → ((drainAll busy s).get u).alive = false := by
    intro u hu; rw [get_drainAll]; unfold drainActor; simp [hu]
  exact ⟨rfl, n_drainAll busy s, fun u hd => ⟨by rw [hst]; exact hd.1, fun ha => hal u (hd.2 ha)⟩,
    fun u h => by rw [hst]; exact h, fun u h => by unfold R at *; rw [← hst]; exact h,
    fun u => Or.inl (hk u), fun u _ => hk u, fun u h => by rw [hst]; exact h⟩

/-- the status of every actor is the same in both states -/
def SameStatus (s s' : Sys) : Prop := ∀ u, (s'.get u).status = (s.get u).status

theorem sameStatus_drainAll (busy : Option Nat) (s : Sys) : SameStatus s (drainAll busy s) := by
  intro u; rw [get_drainAll]; unfold drainActor
  split
  · rfl
  · split
    · rfl
    · split <;> rfl

theorem mono_stopTasks (busy : Option Nat) (s : Sys) (x : Nat) : Mono s (stopTasks busy s x) ∧ SameStatus s (stopTasks busy s x) := by
  unfold stopTasks
  split
  · refine ⟨(mono_of_actors_eq (s := s) (s' := killTasks s x) rfl rfl).trans (mono_drainAll busy _), fun u => ?_⟩
    rw [sameStatus_drainAll busy (killTasks s x) u]; rfl
  · exact ⟨Mono.refl s, fun _ => rfl⟩

theorem mono_stopLoop (busy : Option Nat) (s : Sys) (x : Nat) : Mono s (stopLoop busy s x) ∧ SameStatus s (stopLoop busy s x) := by
  unfold stopLoop
  split
  · refine ⟨(mono_upd_inert s x (fun a => { a with alive := false }) (fun _ => rfl) (fun _ => rfl) (fun _ _ => rfl)).trans
      (mono_drainAll busy _), fun u => ?_⟩
    rw [sameStatus_drainAll busy _ u]
    exact get_upd_proj (·.status) s x u _ (fun _ => rfl)
  · exact ⟨Mono.refl s, fun _ => rfl⟩

theorem stopLoop_alive (busy : Option Nat) (s : Sys) (x : Nat) : ((stopLoop busy s x).get x).alive = false := by
  unfold stopLoop
  by_cases h : (s.get x).alive = true
  · simp only [h, if_true]
    rw [get_drainAll]
    by_cases hx : x < s.actors.length
    · rw [get_upd_self s _ hx]; simp [drainActor]
    · have : (s.upd x fun a => { a with alive := false }).get x = default := by
        apply get_oob; rw [n_upd]; exact hx
      rw [this, drainActor_default]; rfl
  · simp only [h]
    simpa using h

theorem mono_stopTail (busy : Option Nat) (s : Sys) (x : Nat) : Mono s (stopTail busy s x) ∧ SameStatus s (stopTail busy s x) := by
  unfold stopTail
  split
  · refine ⟨(mono_upd_inert s x (fun a => { a with sends := [] }) (fun _ => rfl) (fun _ => rfl) (fun _ h => h)).trans
      (mono_of_actors_eq (s' := killTasks (s.upd x (fun a => { a with sends := [] })) x) rfl rfl), fun u => ?_⟩
    show ((s.upd x (fun a => { a with sends := [] })).get u).status = _
    exact get_upd_proj (·.status) s x u _ (fun _ => rfl)
  · have ⟨m1, s1⟩ := mono_stopTasks busy s x
    have ⟨m2, s2⟩ := mono_stopLoop busy (stopTasks busy s x) x
    exact ⟨m1.trans m2, fun u => (s2 u).trans (s1 u)⟩

theorem stopTail_dead (busy : Option Nat) (s : Sys) (x : Nat) (h : (s.get x).status = .stopped) : Dead (stopTail busy s x) x := by
  have ⟨m, ss⟩ := mono_stopTail busy s x
  refine ⟨by rw [ss x]; exact h, fun hfl => ?_⟩
  have hs : s.flavor = .async := by rw [← m.flavor]; exact hfl
  unfold stopTail
  simp only [hs]
  exact stopLoop_alive busy _ x

theorem mono_markStopped (s : Sys) (x : Nat) (hr : R s x) : Mono s (markStopped s x) := by
  unfold markStopped
  have hk : ∀ u, ((s.upd x fun a => { a with status := .stopped }).get u).kids = (s.get u).kids :=
    fun u => get_upd_proj (·.kids) s x u _ (fun _ => rfl)
  have hal : ∀ u, ((s.upd x fun a => { a with status := .stopped }).get u).alive = (s.get u).alive :=
    fun u => get_upd_proj (·.alive) s x u _ (fun _ => rfl)
  have hne : ∀ u, u ≠ x → (s.upd x fun a => { a with status := .stopped }).get u = s.get u := fun u h => get_upd_ne s _ h
  refine ⟨rfl, n_upd s x _, fun u hd => ?_, fun u h => ?_, fun u h => ?_, fun u => Or.inl (hk u), fun u _ => hk u, fun u h => ?_⟩
  rotate_left 3
  · have : u ≠ x := by
      intro e; subst e; unfold R at hr; rw [hr] at h; cases h
    rw [hne u this]; exact h
  · have : u ≠ x := by
      intro e; subst e; unfold R at hr; have h1 := hd.1; rw [hr] at h1; cases h1
    have hg := hne u this
    exact ⟨by rw [hg]; exact hd.1, by intro ha; rw [hg]; exact hd.2 ha⟩
  · by_cases e : u = x
    · subst e; unfold R at hr; rw [hr] at h; cases h
    · rw [hne u e]; exact h
  · by_cases e : u = x
    · subst e; exact hr
    · unfold R at *; rw [hne u e] at h; exact h

theorem markStopped_status (s : Sys) (x : Nat) (hx : x < s.actors.length) : ((markStopped s x).get x).status = .stopped := by
  unfold markStopped; rw [get_upd_self s _ hx]

theorem mono_clearKids (s : Sys) (x : Nat) (hnr : ¬ R s x) : Mono s (clearKids s x) ∧ SameStatus s (clearKids s x) := by
  unfold clearKids
  have hst : ∀ u, ((s.upd x fun a => { a with kids := [] }).get u).status = (s.get u).status :=
    fun u => get_upd_proj (·.status) s x u _ (fun _ => rfl)
  have hal : ∀ u, ((s.upd x fun a => { a with kids := [] }).get u).alive = (s.get u).alive :=
    fun u => get_upd_proj (·.alive) s x u _ (fun _ => rfl)
  have hne : ∀ u, u ≠ x → (s.upd x fun a => { a with kids := [] }).get u = s.get u := fun u h => get_upd_ne s _ h
  refine ⟨⟨rfl, n_upd s x _, fun u hd => ⟨by rw [hst]; exact hd.1, fun ha => by rw [hal]; exact hd.2 ha⟩,
    fun u h => by rw [hst]; exact h, fun u h => by unfold R at *; rw [← hst]; exact h, fun u => ?_, fun u h => ?_,
    fun u h => by rw [hst]; exact h⟩, hst⟩
  · by_cases e : u = x
    · subst e
      by_cases hx : u < s.actors.length
      · right; rw [get_upd_self s _ hx]
      · left; rw [get_upd]; simp [hx]
    · left; rw [hne u e]
  · have : u ≠ x := by
      intro e; subst e; apply hnr; unfold R at *; rw [← hst]; exact h
    rw [hne u this]

theorem clearKids_kids (s : Sys) (x : Nat) (hx : x < s.actors.length) : ((clearKids s x).get x).kids = [] := by
  unfold clearKids; rw [get_upd_self s _ hx]

theorem stopA_not_running (busy : Option Nat) (fuel : Nat) (s : Sys) (x : Nat) (h : ¬ R s x) : stopA busy fuel s x = s := by
  cases fuel with
  | zero => rfl
  | succ f => unfold stopA; unfold R at h; simp [h]

/-! ### the recursion -/

theorem stopA_spec (busy : Option Nat) : ∀ (fuel : Nat) (s : Sys) (x : Nat), WF s → s.actors.length ≤ x + fuel →
    x < s.actors.length → R s x →
    Dead (stopA busy fuel s x) x ∧ Mono s (stopA busy fuel s x) ∧ DC s (stopA busy fuel s x) := by
  intro fuel
  induction fuel with
  | zero => intro s x _ h1 h2 _; omega
  | succ fuel ih =>
    intro s x hwf hfuel hx hr
    -- the fold over the children
    have fold : ∀ (l : List (String × Nat)) (acc : Sys), WF acc → acc.actors.length = s.actors.length →
        (∀ kv ∈ l, x < kv.2 ∧ kv.2 < s.actors.length) →
        Mono acc (l.foldl (fun a kv => stopA busy fuel a kv.2) acc) ∧ DC acc (l.foldl (fun a kv => stopA busy fuel a kv.2) acc) ∧
        ∀ kv ∈ l, R acc kv.2 → Dead (l.foldl (fun a kv => stopA busy fuel a kv.2) acc) kv.2 := by
      intro l
      induction l with
      | nil => intro acc _ _ _; exact ⟨Mono.refl acc, DC.refl acc, fun _ h => by cases h⟩
      | cons kv r ihl =>
        intro acc hwa hna hl
        have hkv := hl kv (List.mem_cons_self ..)
        have hr' : ∀ kv' ∈ r, x < kv'.2 ∧ kv'.2 < s.actors.length := fun kv' h => hl kv' (List.mem_cons_of_mem _ h)
        simp only [List.foldl_cons]
        by_cases hrc : R acc kv.2
        · have ⟨d1, m1, c1⟩ := ih acc kv.2 hwa (by rw [hna]; omega) (by rw [hna]; exact hkv.2) hrc
          have ⟨m2, c2, p2⟩ := ihl (stopA busy fuel acc kv.2) (hwa.mono m1) (by rw [m1.n]; exact hna) hr'
          refine ⟨m1.trans m2, DC.trans m1 m2 c1 c2, fun kv' hmem hrk => ?_⟩
          rcases List.mem_cons.mp hmem with e | hmem
          · subst e; exact m2.dead _ d1
          · by_cases hrk' : R (stopA busy fuel acc kv.2) kv'.2
            · exact p2 kv' hmem hrk'
            · exact m2.dead _ (c1 kv'.2 hrk hrk').1
        · rw [stopA_not_running busy fuel acc kv.2 hrc]
          have ⟨m2, c2, p2⟩ := ihl acc hwa hna hr'
          refine ⟨m2, c2, fun kv' hmem hrk => ?_⟩
          rcases List.mem_cons.mp hmem with e | hmem
          · subst e; exact absurd hrk hrc
          · exact p2 kv' hmem hrk
    unfold stopA
    have hr0 : (s.get x).status = .running := hr
    simp only [hr0, if_true]
    have m01 : Mono s (unregister (markStopped s x) x) :=
      (mono_markStopped s x hr).trans (mono_of_actors_eq (s' := unregister (markStopped s x) x) rfl rfl)
    have hkids1 : ∀ kv ∈ (s.get x).kids, x < kv.2 ∧ kv.2 < s.actors.length := fun kv h => hwf x kv h
    have ⟨m12, c12, p12⟩ := fold (s.get x).kids (unregister (markStopped s x) x) (hwf.mono m01) m01.n hkids1
    generalize hfin : (s.get x).kids.foldl (fun a kv => stopA busy fuel a kv.2) (unregister (markStopped s x) x) = fin at m12 c12 p12
    have hxs1 : ((unregister (markStopped s x) x).get x).status = .stopped := markStopped_status s x hx
    have hxfin : (fin.get x).status = .stopped := m12.stopped x hxs1
    have hnrfin : ¬ R fin x := by unfold R; rw [hxfin]; decide
    have ⟨m23, s23⟩ := mono_clearKids fin x hnrfin
    have ⟨m34, s34⟩ := mono_stopTail busy (clearKids fin x) x
    have hx3 : ((clearKids fin x).get x).status = .stopped := by rw [s23 x]; exact hxfin
    have hdead : Dead (stopTail busy (clearKids fin x) x) x := stopTail_dead busy _ x hx3
    have mfin' : Mono fin (stopTail busy (clearKids fin x) x) := m23.trans m34
    have mall : Mono s (stopTail busy (clearKids fin x) x) := (m01.trans m12).trans mfin'
    have hne : ∀ u, u ≠ x → (unregister (markStopped s x) x).get u = s.get u := fun u h => by
      show (markStopped s x).get u = s.get u
      unfold markStopped; exact get_upd_ne s _ h
    have hkx : ((stopTail busy (clearKids fin x) x).get x).kids = [] := by
      have hxn : x < fin.actors.length := by rw [m12.n, m01.n]; exact hx
      rcases m34.kids x with e | e
      · rw [e]; exact clearKids_kids fin x hxn
      · exact e
    refine ⟨hdead, mall, fun u hus hus' => ?_⟩
    by_cases e : u = x
    · subst e
      refine ⟨hdead, hkx, fun kv hkv hrk => ?_⟩
      have hne' : kv.2 ≠ u := by have := (hwf u kv hkv).1; omega
      have : R (unregister (markStopped s u) u) kv.2 := by unfold R; rw [hne _ hne']; exact hrk
      exact mfin'.dead _ (p12 kv hkv this)
    · have hu1 : R (unregister (markStopped s x) x) u := by unfold R; rw [hne u e]; exact hus
      have hufin : ¬ R fin u := by
        intro h; apply hus'; unfold R at *
        rw [s34 u, s23 u]; exact h
      have ⟨dd, dk, dkids⟩ := c12 u hu1 hufin
      refine ⟨mfin'.dead u dd, ?_, fun kv hkv hrk => ?_⟩
      · rcases mfin'.kids u with e2 | e2
        · exact e2.trans dk
        · exact e2
      · by_cases e2 : kv.2 = x
        · rw [e2]; exact hdead
        · have hk1 : ((unregister (markStopped s x) x).get u).kids = (s.get u).kids := by rw [hne u e]
          have : R (unregister (markStopped s x) x) kv.2 := by unfold R; rw [hne _ e2]; exact hrk
          exact mfin'.dead _ (dkids kv (by rw [hk1]; exact hkv) this)

theorem stop_spec (busy : Option Nat) (s : Sys) (x : Nat) (hwf : WF s) (hx : x < s.actors.length) (hr : R s x) :
    Dead (stop busy s x) x ∧ Mono s (stop busy s x) ∧ DC s (stop busy s x) :=
  stopA_spec busy s.actors.length s x hwf (by omega) hx hr

/-! ### descendants -/

/-- `d` is `x` or below it in the children maps of `s` -/
inductive Desc (s : Sys) : Nat → Nat → Prop
  | self (x : Nat) : Desc s x x
  | kid {x d : Nat} (kv : String × Nat) : kv ∈ (s.get x).kids → Desc s kv.2 d → Desc s x d

/-- at an observation point every actor is running or completely stopped … -/
def Settled (s : Sys) : Prop := ∀ u, u < s.actors.length → R s u ∨ Dead s u

/-- … and a stopped actor has an empty children map -/
def Tidy (s : Sys) : Prop := ∀ u, Dead s u → (s.get u).kids = []

theorem desc_down {s s' : Sys} (hwf : WF s) (hset : Settled s) (htidy : Tidy s) (m : Mono s s') (c : DC s s')
    {y d : Nat} (h : Desc s y d) : y < s.actors.length → Dead s' y → Dead s' d ∧ (s'.get d).kids = [] := by
  induction h with
  | self x =>
    intro hx hd
    refine ⟨hd, ?_⟩
    rcases hset x hx with hr | hdd
    · have : ¬ R s' x := by unfold R; rw [hd.1]; decide
      exact (c x hr this).2.1
    · rcases m.kids x with e | e
      · rw [e]; exact htidy x hdd
      · exact e
  | @kid x d kv hkv _ ih =>
    intro hx hd
    have hc := hwf x kv hkv
    apply ih hc.2
    rcases hset x hx with hr | hdd
    · have hnr : ¬ R s' x := by unfold R; rw [hd.1]; decide
      rcases hset kv.2 hc.2 with hrk | hdk
      · exact (c x hr hnr).2.2 kv hkv hrk
      · exact m.dead _ hdk
    · rw [htidy x hdd] at hkv; cases hkv

end XSM.Actors
