import Xsm.Proofs.Termination
import Xsm.Proofs.SyncDrain
/-!
# Whole-run agreement of the sync and the async engine (C05)

`Sim T a b` relates an async-engine state `a` and a sync-engine state `b`: everything equal except the
chain-breaker bookkeeping (`raiseDepth`, the `self` flags of queued entries) and — through the list
relation `T` — the trace. Every layer of the EXECUTE side preserves it when run with hooks that agree up
to that bookkeeping (`HSim`), so do the two run loops as long as neither bound is reached.
-/
namespace XSM.Bisim
open XSM XSM.Term XSM.Done

/-- two traces related record by record -/
inductive TrRel (tr : String → String → Prop) : List String → List String → Prop
  | nil : TrRel tr [] []
  | cons {a b : String} {l1 l2 : List String} : tr a b → TrRel tr l1 l2 → TrRel tr (a :: l1) (b :: l2)

theorem TrRel.refl {tr : String → String → Prop} (hr : ∀ r, tr r r) : ∀ l, TrRel tr l l
  | [] => .nil
  | r :: l => .cons (hr r) (TrRel.refl hr l)

theorem trRel_eq_iff : ∀ (l1 l2 : List String), TrRel Eq l1 l2 ↔ l1 = l2 := by
  intro l1 l2
  constructor
  · intro h
    induction h with
    | nil => rfl
    | cons h _ ih => rw [h, ih]
  · intro h; subst h; exact TrRel.refl (fun _ => rfl) _

/-- the events of a queue, in order (flags forgotten) -/
def evsOf (l : List QEv) : List Ev := l.map (·.ev)

/-- **the erasure**: forget the async chain-breaker bookkeeping — the counter and the `self` flags -/
def eraseQ (s : St) : St := { s with raiseDepth := 0, queue := s.queue.map (fun q => ⟨q.ev, false⟩) }

/-- hook-level relation between an async state `a` and a sync state `b` -/
structure Sim (T : List String → List String → Prop) (a b : St) : Prop where
  cfg : a.cfg = b.cfg
  hist : a.hist = b.hist
  status : a.status = b.status
  ctx : a.ctx = b.ctx
  err : a.err = b.err
  errors : a.errors = b.errors
  trace : T a.trace b.trace
  queue : evsOf a.queue = evsOf b.queue
  expCut : a.expCut = b.expCut

theorem map_erase_eq_iff (l1 l2 : List QEv) :
    l1.map (fun q => (⟨q.ev, false⟩ : QEv)) = l2.map (fun q => (⟨q.ev, false⟩ : QEv)) ↔ evsOf l1 = evsOf l2 := by
  unfold evsOf
  constructor
  · intro h
    have := congrArg (List.map (fun q : QEv => q.ev)) h
    simpa [List.map_map, Function.comp_def] using this
  · intro h
    have := congrArg (List.map (fun e : Ev => (⟨e, false⟩ : QEv))) h
    simpa [List.map_map, Function.comp_def] using this

/-- with equal traces, `Sim` is equality of the erasures -/
theorem sim_eq_iff (a b : St) : Sim Eq a b ↔ eraseQ a = eraseQ b := by
  constructor
  · intro h
    obtain ⟨h1, h2, h3, h4, h5, h6, h7, h8, h9⟩ := h
    cases a; cases b
    simp only [eraseQ] at *
    subst h1 h2 h3 h4 h5 h6 h7 h9
    simp only [St.mk.injEq, true_and, and_true]
    exact (map_erase_eq_iff _ _).2 h8
  · intro h
    cases a; cases b
    simp only [eraseQ, St.mk.injEq] at h
    obtain ⟨h1, h2, h3, h4, h5, h6, h7, _, h9, h10⟩ := h
    exact ⟨h1, h2, h4, h7, h6, h9, h5, (map_erase_eq_iff _ _).1 h3, h10⟩

section sim
variable {T : List String → List String → Prop} {a b : St}

theorem Sim.refl (hr : ∀ l, T l l) (s : St) : Sim T s s :=
  ⟨rfl, rfl, rfl, rfl, rfl, rfl, hr _, rfl, rfl⟩

theorem Sim.emit (h : Sim T a b) {r1 r2 : String} (hr : T (r1 :: a.trace) (r2 :: b.trace)) :
    Sim T (emit r1 a) (emit r2 b) :=
  ⟨h.cfg, h.hist, h.status, h.ctx, h.err, h.errors, hr, h.queue, h.expCut⟩

theorem Sim.setCtx (h : Sim T a b) (c : Ctx) : Sim T { a with ctx := c } { b with ctx := c } :=
  ⟨h.cfg, h.hist, h.status, rfl, h.err, h.errors, h.trace, h.queue, h.expCut⟩

theorem Sim.setCfg (h : Sim T a b) {c1 c2 : List Path} (hc : c1 = c2) : Sim T { a with cfg := c1 } { b with cfg := c2 } :=
  ⟨hc, h.hist, h.status, h.ctx, h.err, h.errors, h.trace, h.queue, h.expCut⟩

theorem Sim.setHist (h : Sim T a b) {c1 c2 : List (Path × List Path)} (hc : c1 = c2) :
    Sim T { a with hist := c1 } { b with hist := c2 } :=
  ⟨h.cfg, hc, h.status, h.ctx, h.err, h.errors, h.trace, h.queue, h.expCut⟩

theorem Sim.setErr (h : Sim T a b) (e : Option EErr) : Sim T { a with err := e } { b with err := e } :=
  ⟨h.cfg, h.hist, h.status, h.ctx, rfl, h.errors, h.trace, h.queue, h.expCut⟩

theorem Sim.setExpCut (h : Sim T a b) (x : Bool) : Sim T { a with expCut := x } { b with expCut := x } :=
  ⟨h.cfg, h.hist, h.status, h.ctx, h.err, h.errors, h.trace, h.queue, rfl⟩

theorem Sim.setStatus (h : Sim T a b) (st : String) : Sim T { a with status := st } { b with status := st } :=
  ⟨h.cfg, h.hist, rfl, h.ctx, h.err, h.errors, h.trace, h.queue, h.expCut⟩

theorem Sim.setDepth (h : Sim T a b) (n : Nat) : Sim T { a with raiseDepth := n } b :=
  ⟨h.cfg, h.hist, h.status, h.ctx, h.err, h.errors, h.trace, h.queue, h.expCut⟩

theorem Sim.setQueue (h : Sim T a b) {q1 q2 : List QEv} (hq : evsOf q1 = evsOf q2) :
    Sim T { a with queue := q1 } { b with queue := q2 } :=
  ⟨h.cfg, h.hist, h.status, h.ctx, h.err, h.errors, h.trace, hq, h.expCut⟩

theorem Sim.fail (h : Sim T a b) (e : EErr) : Sim T (a.fail e) (b.fail e) := by
  unfold St.fail
  rw [h.err]
  split
  · exact h
  · exact h.setErr _

theorem Sim.addActive (h : Sim T a b) (p : Path) : Sim T (addActive p a) (addActive p b) := by
  unfold XSM.addActive
  rw [h.cfg]
  split
  · exact h
  · exact h.setCfg rfl

theorem Sim.delActive (h : Sim T a b) (p : Path) : Sim T (delActive p a) (delActive p b) := by
  unfold XSM.delActive
  exact h.setCfg (by rw [h.cfg])

theorem Sim.complete (h : Sim T a b) : Sim T (complete a) (complete b) := by
  unfold XSM.complete
  rw [h.status]
  split
  · exact h.setStatus _
  · exact h

theorem Sim.recordHistory (h : Sim T a b) (m : Machine) (ex : List Path) :
    Sim T (recordHistory m ex a) (recordHistory m ex b) := by
  unfold XSM.recordHistory
  exact h.setHist (by rw [h.cfg, h.hist])

theorem Sim.assignStep (h : Sim T a b) (canon : String) (cut : Bool) (x : ActionRef) :
    Sim T (assignStep canon cut x a) (assignStep canon cut x b) := by
  unfold XSM.assignStep
  split
  · exact h.setExpCut _
  · split
    · rw [h.ctx]; exact h.setCtx _
    · exact h

theorem Sim.endExpansion (h : Sim T a b) (f : Nat) : Sim T (endExpansion f a) (endExpansion f b) := by
  unfold XSM.endExpansion
  split
  · exact h.setExpCut _
  · exact h

theorem Sim.enqueueQ (h : Sim T a b) (f1 f2 : Bool) (e : Ev) : Sim T (enqueueQ f1 e a) (enqueueQ f2 e b) := by
  unfold XSM.enqueueQ
  have hq : evsOf (a.queue ++ [⟨e, f1⟩]) = evsOf (b.queue ++ [⟨e, f2⟩]) := by
    have := h.queue
    unfold evsOf at this ⊢
    rw [List.map_append, List.map_append, this]; rfl
  by_cases hr : b.status = "running"
  · rw [if_pos (h.status.trans hr), if_pos hr]
    exact h.setQueue hq
  · rw [if_neg (fun hh => hr (h.status.symm.trans hh)), if_neg hr]
    exact h

end sim

/-- what the simulation needs of two hook sets, the first handed event name `e1` and the second `e2`:
    the same user registry and guard evaluator (at those names), no coroutine action (the sync engine
    refuses them, the async engine runs them), sends that preserve `Sim`, and records related by `R`, a
    relation under which `T` is closed when related records are logged -/
structure HSim (R : String → String → Prop) (T : List String → List String → Prop) (h1 h2 : Hooks)
    (e1 e2 : String) : Prop where
  act : ∀ n c, h1.act n c e1 = h2.act n c e2
  noCoro : ∀ n c c', h2.act n c e2 ≠ .isAsync c'
  geval : ∀ g (a b : St), a.cfg = b.cfg → a.ctx = b.ctx → h1.geval g a e1 = h2.geval g b e2
  snd : ∀ e a b, Sim T a b → Sim T (h1.snd e a) (h2.snd e b)
  sndRaise : ∀ e a b, Sim T a b → Sim T (h1.sndRaise e a) (h2.sndRaise e b)
  record : ∀ n : String, R s!"{n}@{e1}" s!"{n}@{e2}"
  refl : ∀ r, R r r
  cons : ∀ {r1 r2 : String} {l1 l2 : List String}, R r1 r2 → T l1 l2 → T (r1 :: l1) (r2 :: l2)

section layers
variable {R : String → String → Prop} {T : List String → List String → Prop} {h1 h2 : Hooks} {e1 e2 : String}

theorem HSim.emit (hh : HSim R T h1 h2 e1 e2) {a b : St} (hs : Sim T a b) {r1 r2 : String} (hr : R r1 r2) :
    Sim T (emit r1 a) (emit r2 b) := hs.emit (hh.cons hr hs.trace)

theorem pickBranch_sim (hh : HSim R T h1 h2 e1 e2) {a b : St} (hc : a.cfg = b.cfg) (hx : a.ctx = b.ctx) :
    ∀ bs, pickBranch h1 a e1 bs = pickBranch h2 b e2 bs := by
  intro bs
  induction bs with
  | nil => rfl
  | cons br rest ih =>
    obtain ⟨g, acts⟩ := br
    simp only [pickBranch]
    split
    · rfl
    · rfl
    · split
      · rfl
      · rw [hh.geval _ a b hc hx, ih]

theorem finishBuiltin_sim (hh : HSim R T h1 h2 e1 e2) (canon : String) (x : ActionRef) {a b : St} (hs : Sim T a b) :
    Sim T (finishBuiltin h1 canon x a).1 (finishBuiltin h2 canon x b).1 ∧
    (finishBuiltin h1 canon x a).2 = (finishBuiltin h2 canon x b).2 := by
  unfold finishBuiltin
  rw [hs.err]
  split
  · exact ⟨hh.emit (hs.setErr none) (hh.refl _), rfl⟩
  · split
    · refine ⟨?_, rfl⟩
      cases raisedEvent x with
      | none => exact hs
      | some e => exact hh.sndRaise e a b hs
    · exact ⟨hs, rfl⟩

theorem builtinStep_sim (hh : HSim R T h1 h2 e1 e2) (n1 n2 : List ActionRef → String → St → St)
    (hn : ∀ as a b, Sim T a b → Sim T (n1 as e1 a) (n2 as e2 b)) (cut : Bool) (canon : String) (x : ActionRef)
    {a b : St} (hs : Sim T a b) :
    Sim T (builtinStep h1 n1 cut e1 canon x a).1 (builtinStep h2 n2 cut e2 canon x b).1 ∧
    (builtinStep h1 n1 cut e1 canon x a).2 = (builtinStep h2 n2 cut e2 canon x b).2 := by
  unfold builtinStep
  simp only
  rw [pickBranch_sim hh hs.cfg hs.ctx, hs.expCut]
  split
  · exact ⟨hh.emit hs (hh.refl _), rfl⟩
  · rename_i fs _
    apply finishBuiltin_sim hh
    split
    · exact hs.assignStep _ _ _
    · exact hn _ _ _ (hs.assignStep _ _ _)

theorem actStep_sim (hh : HSim R T h1 h2 e1 e2) (n1 n2 : List ActionRef → String → St → St)
    (hn : ∀ as a b, Sim T a b → Sim T (n1 as e1 a) (n2 as e2 b)) (cut : Bool)
    (acc1 acc2 : St × Bool) (hs : Sim T acc1.1 acc2.1) (hb : acc1.2 = acc2.2) (x : ActionRef) :
    Sim T (actStep h1 n1 cut e1 acc1 x).1 (actStep h2 n2 cut e2 acc2 x).1 ∧
    (actStep h1 n1 cut e1 acc1 x).2 = (actStep h2 n2 cut e2 acc2 x).2 := by
  unfold actStep
  rw [hb, hs.err]
  split
  · exact ⟨hs, hb⟩
  · rw [hs.ctx, hh.act]
    cases hact : h2.act x.type acc2.1.ctx e2 with
    | ok c => exact ⟨hh.emit (hs.setCtx c) (hh.record _), rfl⟩
    | isAsync c => exact absurd hact (hh.noCoro _ _ _)
    | raises => exact ⟨hh.emit (hh.emit hs (hh.record _)) (hh.refl _), rfl⟩
    | missing =>
      simp only
      cases canonicalBuiltin x.type with
      | none => exact ⟨hs.fail _, rfl⟩
      | some canon => exact builtinStep_sim hh n1 n2 hn cut canon x hs

theorem foldl_actStep_sim (hh : HSim R T h1 h2 e1 e2) (n1 n2 : List ActionRef → String → St → St)
    (hn : ∀ as a b, Sim T a b → Sim T (n1 as e1 a) (n2 as e2 b)) (cut : Bool) :
    ∀ (as : List ActionRef) (acc1 acc2 : St × Bool), Sim T acc1.1 acc2.1 → acc1.2 = acc2.2 →
      Sim T (as.foldl (actStep h1 n1 cut e1) acc1).1 (as.foldl (actStep h2 n2 cut e2) acc2).1 := by
  intro as
  induction as with
  | nil => intro acc1 acc2 hs _; exact hs
  | cons x rest ih =>
    intro acc1 acc2 hs hb
    simp only [List.foldl_cons]
    obtain ⟨k1, k2⟩ := actStep_sim hh n1 n2 hn cut acc1 acc2 hs hb x
    exact ih _ _ k1 k2

theorem execActionsF_sim (hh : HSim R T h1 h2 e1 e2) :
    ∀ (f : Nat) (as : List ActionRef) (a b : St), Sim T a b →
      Sim T (execActionsF h1 f as e1 a) (execActionsF h2 f as e2 b) := by
  intro f
  induction f with
  | zero =>
    intro as a b hs
    simp only [execActionsF]
    exact foldl_actStep_sim hh _ _ (fun _ _ _ h => h) true as _ _ hs rfl
  | succ f ih =>
    intro as a b hs
    simp only [execActionsF]
    exact foldl_actStep_sim hh _ _ (fun as a b h => (ih as a b h).endExpansion _) false as _ _ hs rfl

theorem execActions_sim (hh : HSim R T h1 h2 e1 e2) (as : List ActionRef) {a b : St} (hs : Sim T a b) :
    Sim T (execActions h1 as e1 a) (execActions h2 as e2 b) :=
  execActionsF_sim hh _ as a b hs

theorem checkAndFireOnDone_sim (hh : HSim R T h1 h2 e1 e2) (m : Machine) (fin : Path) {a b : St} (hs : Sim T a b) :
    Sim T (checkAndFireOnDone h1 m fin a) (checkAndFireOnDone h2 m fin b) := by
  unfold checkAndFireOnDone
  simp only
  rw [hs.cfg]
  split
  · exact hh.snd _ _ _ hs
  · split
    · exact hs.complete
    · exact hs

theorem foldl_sim {α : Type} (f1 f2 : St → α → St)
    (hf : ∀ a b x, Sim T a b → Sim T (f1 a x) (f2 b x)) :
    ∀ (l : List α) (a b : St), Sim T a b → Sim T (l.foldl f1 a) (l.foldl f2 b) := by
  intro l
  induction l with
  | nil => intro a b h; exact h
  | cons x rest ih => intro a b h; simp only [List.foldl_cons]; exact ih _ _ (hf a b x h)

/-- one entry, the two sides possibly handed different event names -/
theorem enterOne_sim (fl1 fl2 : Flavor) (m : Machine) (ev1 ev2 : Option String) (e : Entry)
    (hh : HSim R T h1 h2 (entryEvName fl1 m e ev1) (entryEvName fl2 m e ev2)) {a b : St} (hs : Sim T a b) :
    Sim T (enterOne h1 fl1 m ev1 a e) (enterOne h2 fl2 m ev2 b e) := by
  unfold enterOne
  rw [hs.err]
  split
  · exact hs
  · cases m.defAt e.path with
    | none => exact hs
    | some d =>
      simp only
      have k := execActions_sim hh d.entry (hs.addActive e.path)
      rw [k.err]
      split
      · exact k
      · split
        · exact checkAndFireOnDone_sim hh m e.path k
        · exact k

theorem exitOne_sim (fl1 fl2 : Flavor) (m : Machine) (ev1 ev2 : Option String) (p : Path)
    (hh : HSim R T h1 h2 (exitEvName fl1 m p ev1) (exitEvName fl2 m p ev2)) {a b : St} (hs : Sim T a b) :
    Sim T (exitOne h1 fl1 m ev1 a p) (exitOne h2 fl2 m ev2 b p) := by
  unfold exitOne
  rw [hs.err]
  split
  · exact hs
  · cases m.defAt p with
    | none => exact hs
    | some d => exact (execActions_sim hh d.exit hs).delActive p

/-- a transition's three phases; the triggering event is known, so the flavours are irrelevant -/
theorem runPlan_sim (fl1 fl2 : Flavor) (m : Machine) (ev : Ev) (pl : Plan)
    (hh : HSim R T h1 h2 ev.type ev.type) {a b : St} (hs : Sim T a b) :
    Sim T (runPlan h1 fl1 m ev pl a) (runPlan h2 fl2 m ev pl b) := by
  unfold runPlan
  have k2 : Sim T (pl.exits.foldl (exitOne h1 fl1 m (some ev.type)) (recordHistory m pl.exits a))
      (pl.exits.foldl (exitOne h2 fl2 m (some ev.type)) (recordHistory m pl.exits b)) := by
    apply foldl_sim _ _ _ _ _ _ (hs.recordHistory m pl.exits)
    intro a b p h
    exact exitOne_sim fl1 fl2 m _ _ p (by cases fl1 <;> cases fl2 <;> exact hh) h
  simp only
  generalize (pl.exits.foldl (exitOne h1 fl1 m (some ev.type)) (recordHistory m pl.exits a)) = a2 at k2 ⊢
  generalize (pl.exits.foldl (exitOne h2 fl2 m (some ev.type)) (recordHistory m pl.exits b)) = b2 at k2 ⊢
  have k3 : Sim T (if a2.err.isSome then a2 else execActions h1 pl.actions ev.type a2)
      (if b2.err.isSome then b2 else execActions h2 pl.actions ev.type b2) := by
    rw [k2.err]
    split
    · exact k2
    · exact execActions_sim hh _ k2
  generalize (if a2.err.isSome then a2 else execActions h1 pl.actions ev.type a2) = a3 at k3 ⊢
  generalize (if b2.err.isSome then b2 else execActions h2 pl.actions ev.type b2) = b3 at k3 ⊢
  have k4 : Sim T (pl.entries.foldl (enterOne h1 fl1 m (some ev.type)) a3)
      (pl.entries.foldl (enterOne h2 fl2 m (some ev.type)) b3) := by
    apply foldl_sim _ _ _ _ _ _ k3
    intro a b e h
    exact enterOne_sim fl1 fl2 m _ _ e (by cases fl1 <;> cases fl2 <;> exact hh) h
  cases pl.err with
  | none => exact k4
  | some e => exact k4.fail e

theorem executeCore_sim (fl1 fl2 : Flavor) (m : Machine) (ev : Ev) (pl : Plan)
    (hh : HSim R T h1 h2 ev.type ev.type) {a b : St} (hs : Sim T a b) :
    Sim T (executeCore h1 fl1 m ev pl a) (executeCore h2 fl2 m ev pl b) := by
  unfold executeCore
  split
  · cases pl.err with
    | none => exact execActions_sim hh _ hs
    | some e => exact hs.fail e
  · have k := runPlan_sim fl1 fl2 m ev pl hh hs
    simp only
    by_cases he : (runPlan h2 fl2 m ev pl b).err.isSome = true
    · rw [if_pos (by rw [k.err]; exact he), if_pos he]
      exact k.setCfg hs.cfg
    · rw [if_neg (by rw [k.err]; exact he), if_neg he]
      exact k

theorem execute_sim (fl1 fl2 : Flavor) (m : Machine) (ev : Ev) (pl : Plan)
    (hh : HSim R T h1 h2 ev.type ev.type) {a b : St} (hs : Sim T a b) :
    Sim T (execute h1 fl1 m ev pl a) (execute h2 fl2 m ev pl b) := by
  unfold execute
  have k := executeCore_sim fl1 fl2 m ev pl hh hs
  simp only
  rw [k.err]
  split
  · exact k
  · refine hh.emit k ?_
    unfold obsRecord
    rw [k.cfg]
    exact hh.refl _

theorem processEvent_sim (fl1 fl2 : Flavor) (m : Machine) (u : UEnv) (ev : Ev)
    (hh : HSim R T h1 h2 ev.type ev.type) {a b : St} (hs : Sim T a b) :
    Sim T (processEvent h1 fl1 m u ev a) (processEvent h2 fl2 m u ev b) := by
  unfold processEvent
  rw [hs.cfg, hs.ctx]
  cases selectTransitions m b.cfg (u.genv b.ctx ev.type) ev with
  | error e =>
    cases e with
    | missing n => exact hs.fail _
  | ok sel =>
    simp only
    apply foldl_sim _ _ _ _ _ _ hs
    intro a b c h
    rw [h.err, h.status, h.cfg, h.hist]
    split
    · exact h
    · split
      · exact h
      · split
        · exact h
        · exact execute_sim fl1 fl2 m ev _ hh h

theorem transientLoop_sim (fl1 fl2 : Flavor) (m : Machine) (u : UEnv) (hh : HSim R T h1 h2 "" "") :
    ∀ (n : Nat) (a b : St), Sim T a b →
      Sim T (transientLoop h1 fl1 m u n a) (transientLoop h2 fl2 m u n b) := by
  intro n
  induction n with
  | zero => intro a b hs; exact hs
  | succ n ih =>
    intro a b hs
    simp only [transientLoop]
    rw [hs.err, hs.cfg, hs.ctx]
    split
    · exact hs
    · cases selectTransitions m b.cfg (u.genv b.ctx "") (.user "") with
      | error e =>
        cases e with
        | missing n => exact hs.fail _
      | ok sel =>
        simp only
        split
        · exact ih _ _ (processEvent_sim fl1 fl2 m u (.user "") hh hs)
        · exact hs

end layers

/-! ## the engines' hooks -/

/-- the user registers no coroutine function as an action (the sync engine refuses to run one and
    raises `NotSupportedError`; the async engine awaits it) -/
def NoCoroutine (u : UEnv) : Prop := ∀ (n : String) (c : Ctx) (e : String) (c' : Ctx), u.a n c e ≠ .isAsync c'

section hooks
variable {T : List String → List String → Prop}

/-- while the async loop is processing: counted, self-flagged sends vs the sync engine's marked enqueue -/
theorem hsim_async (hT : ∀ r l1 l2, T l1 l2 → T (r :: l1) (r :: l2)) (u : UEnv) (hu : NoCoroutine u)
    (m : Machine) (t : String) : HSim Eq T (hooksAsync u m) (hooksFlagged u m) t t where
  act := fun _ _ => rfl
  noCoro := fun n c c' => hu n c t c'
  geval := fun g a b hc hx => by
    show evalGuard m a.cfg (u.genv a.ctx t) g = evalGuard m b.cfg (u.genv b.ctx t) g
    rw [hc, hx]
  snd := fun e a b h => (h.setDepth _).enqueueQ true true e
  sndRaise := fun e a b h => (h.setDepth _).enqueueQ true true e
  record := fun _ => rfl
  refl := fun _ => rfl
  cons := fun h ht => h ▸ hT _ _ _ ht

/-- during the async `start()` (no loop yet): both only enqueue (the sync engine marks, the async one does not) -/
theorem hsim_asyncStart (hT : ∀ r l1 l2, T l1 l2 → T (r :: l1) (r :: l2)) (u : UEnv) (hu : NoCoroutine u)
    (m : Machine) (t : String) : HSim Eq T (hooksAsyncStart u m) (hooksFlagged u m) t t where
  act := fun _ _ => rfl
  noCoro := fun n c c' => hu n c t c'
  geval := fun g a b hc hx => by
    show evalGuard m a.cfg (u.genv a.ctx t) g = evalGuard m b.cfg (u.genv b.ctx t) g
    rw [hc, hx]
  snd := fun e a b h => h.enqueueQ false true e
  sndRaise := fun e a b h => h.enqueueQ false true e
  record := fun _ => rfl
  refl := fun _ => rfl
  cons := fun h ht => h ▸ hT _ _ _ ht

end hooks

/-! ## the start tag -/

/-- the event name the async engine hands to the entry actions run by `start()` -/
def initTag : String := "___xstate_statemachine_init___"

/-- how a record of the async engine relates to the sync engine's record at the same position: equal, or
    the same action run by `start()`, tagged with the init event by the async engine and with the synthetic
    `entry.<state id>` event by the sync engine -/
def StartTag (m : Machine) (ra rs : String) : Prop :=
  ra = rs ∨ ∃ (n : String) (p : Path), ra = s!"{n}@{initTag}" ∧ rs = s!"{n}@{"entry." ++ m.idOf p}"

theorem StartTag.refl (m : Machine) (r : String) : StartTag m r r := Or.inl rfl

/-- user code does not tell the two synthetic start events apart: every action and every guard answers
    the same under the async engine's init event and under the sync engine's `entry.<state id>` -/
def StartBlind (m : Machine) (u : UEnv) : Prop :=
  ∀ (p : Path) (n : String) (c : Ctx),
    u.a n c initTag = u.a n c ("entry." ++ m.idOf p) ∧ u.g n c initTag = u.g n c ("entry." ++ m.idOf p)

theorem hsim_start (u : UEnv) (hu : NoCoroutine u) (m : Machine) (hb : StartBlind m u) (p : Path) :
    HSim (StartTag m) (TrRel (StartTag m)) (hooksAsyncStart u m) (hooksFlagged u m) initTag
      ("entry." ++ m.idOf p) where
  act := fun n c => (hb p n c).1
  noCoro := fun n c c' => hu n c _ c'
  geval := fun g a b hc hx => by
    show evalGuard m a.cfg (u.genv a.ctx initTag) g = evalGuard m b.cfg (u.genv b.ctx ("entry." ++ m.idOf p)) g
    have : u.genv b.ctx initTag = u.genv b.ctx ("entry." ++ m.idOf p) := by
      funext n; exact (hb p n b.ctx).2
    rw [hc, hx, this]
  snd := fun e a b h => h.enqueueQ false true e
  sndRaise := fun e a b h => h.enqueueQ false true e
  record := fun n => Or.inr ⟨n, p, rfl, rfl⟩
  refl := StartTag.refl m
  cons := TrRel.cons

theorem startT_cons (m : Machine) (r : String) (l1 l2 : List String) (h : TrRel (StartTag m) l1 l2) :
    TrRel (StartTag m) (r :: l1) (r :: l2) := .cons (StartTag.refl m r) h

/-! ## one dequeued event -/

section drain
variable {T : List String → List String → Prop} {m : Machine} {u : UEnv}

theorem processed_sim (hT : ∀ r l1 l2, T l1 l2 → T (r :: l1) (r :: l2)) (hu : NoCoroutine u) (e : Ev) {a b : St} (hs : Sim T a b) :
    Sim T (asyncProcessed m u e a) (syncProcessed m u e b) := by
  unfold asyncProcessed syncProcessed
  apply transientLoop_sim _ _ m u (hsim_async hT u hu m "")
  exact processEvent_sim _ _ m u e (hsim_async hT u hu m e.type) (hs.emit (hT _ _ _ hs.trace))

theorem Sim.chainEnd {a b : St} (h : Sim T a b) (d : Nat) : Sim T (asyncChainEnd d a) b := by
  unfold asyncChainEnd
  split
  · exact h.setDepth 0
  · exact h

/-- a successful macrostep: the async loop's iteration against the sync state after processing -/
theorem asyncProcess_sim (hT : ∀ r l1 l2, T l1 l2 → T (r :: l1) (r :: l2)) (hu : NoCoroutine u) (e : Ev) {a b : St} (hs : Sim T a b)
    (he : (syncProcessed m u e b).err = none) : Sim T (asyncProcess m u e a) (syncProcessed m u e b) := by
  have k := processed_sim (m := m) hT hu e hs
  rw [asyncProcess_succeeded m u e a (k.err.trans he)]
  exact k.chainEnd _

theorem drainLoop_step (n c : Nat) {s : St} {e : Ev} {f : Bool} {rest : List QEv} (hq : s.queue = ⟨e, f⟩ :: rest)
    (hr : s.status = "running") (ht : syncTrips m c ⟨e, f⟩ = false) :
    drainLoop m u (n + 1) c s =
      if (syncProcessed m u e { s with queue := rest }).err.isSome then syncProcessed m u e { s with queue := rest }
      else drainLoop m u n (chainedNext c ⟨e, f⟩) (syncProcessed m u e { s with queue := rest }) :=
  XSM.drainLoop_step m u n c s ⟨e, f⟩ rest hq hr ht

theorem drainCut_step (n c : Nat) {s : St} {e : Ev} {f : Bool} {rest : List QEv} (hq : s.queue = ⟨e, f⟩ :: rest)
    (hr : s.status = "running") (ht : syncTrips m c ⟨e, f⟩ = false) :
    drainCut m u (n + 1) c s =
      if (syncProcessed m u e { s with queue := rest }).err.isSome then false
      else drainCut m u n (chainedNext c ⟨e, f⟩) (syncProcessed m u e { s with queue := rest }) :=
  Term.drainCut_step m u n c s ⟨e, f⟩ rest hq hr ht

theorem drainSteps_step' (n c : Nat) {s : St} {e : Ev} {f : Bool} {rest : List QEv} (hq : s.queue = ⟨e, f⟩ :: rest)
    (hr : s.status = "running") (ht : syncTrips m c ⟨e, f⟩ = false) :
    drainSteps m u (n + 1) c s =
      if (syncProcessed m u e { s with queue := rest }).err.isSome then 1
      else 1 + drainSteps m u n (chainedNext c ⟨e, f⟩) (syncProcessed m u e { s with queue := rest }) :=
  Term.drainSteps_step m u n c s ⟨e, f⟩ rest hq hr ht

/-- a drain that is not cut does not trip at its head -/
theorem not_trips_of_not_cut (n c : Nat) {s : St} {q : QEv} {rest : List QEv} (hq : s.queue = q :: rest)
    (hr : s.status = "running") (hc : drainCut m u (n + 1) c s = false) : syncTrips m c q = false := by
  cases ht : syncTrips m c q with
  | false => rfl
  | true => rw [Term.drainCut_trip m u n c s q rest hq hr ht] at hc; exact absurd hc (by simp)

theorem drainLoop_dead (n c : Nat) {s : St} (hr : s.status ≠ "running") :
    drainLoop m u n c s = s ∨ drainLoop m u n c s = { s with queue := [] } := by
  cases n with
  | zero =>
    rw [drainLoop_zero]; split
    · exact Or.inl rfl
    · exact Or.inr rfl
  | succ n =>
    rw [drainLoop_not_running m u n c hr]; split
    · exact Or.inl rfl
    · exact Or.inr rfl

theorem asyncDrain_step (F : Nat) {s : St} {q : QEv} {rest : List QEv} (hq : s.queue = q :: rest)
    (hr : s.status = "running") :
    asyncDrain m u (F + 1) s = asyncDrain m u F (asyncStep m u q { s with queue := rest }) := by
  simp [asyncDrain, hr, hq]

theorem asyncTrips_step (F : Nat) {s : St} {q : QEv} {rest : List QEv} (hq : s.queue = q :: rest)
    (hr : s.status = "running") :
    asyncTrips m u (F + 1) s =
      (if s.raiseDepth > m.maxIterations then 1 else 0) + asyncTrips m u F (asyncStep m u q { s with queue := rest }) := by
  simp [asyncTrips, hr, hq]

theorem asyncSelfSends_step (F : Nat) {s : St} {q : QEv} {rest : List QEv} (hq : s.queue = q :: rest)
    (hr : s.status = "running") :
    asyncSelfSends m u (F + 1) s =
      (if s.raiseDepth > m.maxIterations ∧ q.self = true then 0
       else selfSendsOf m u q.ev (asyncBase m { s with queue := rest }))
        + asyncSelfSends m u F (asyncStep m u q { s with queue := rest }) := by
  simp [asyncSelfSends, hr, hq]

theorem evsOf_cons_inv {l : List QEv} {e : Ev} {es : List Ev} (h : evsOf l = e :: es) :
    ∃ q rest, l = q :: rest ∧ q.ev = e ∧ evsOf rest = es := by
  cases l with
  | nil => exact absurd h (by simp [evsOf])
  | cons q rest =>
    simp only [evsOf, List.map_cons, List.cons.injEq] at h
    exact ⟨q, rest, rfl, h.1, h.2⟩

theorem evsOf_nil_inv {l : List QEv} (h : evsOf l = []) : l = [] := by
  cases l with
  | nil => rfl
  | cons q rest => exact absurd h (by simp [evsOf])

/-! ## what a caller can see: the queue of an interpreter that is not running is dead -/

/-- the queue of an interpreter that is not running is never read again (`enqueue` refuses, `send`
    returns at once): the sync drain clears it, the async loop just exits and leaves it -/
def dropDead (s : St) : St := if s.status = "running" then s else { s with queue := [] }

/-- command-level relation: `Sim` up to dead queues -/
def Agrees (T : List String → List String → Prop) (a b : St) : Prop := Sim T (dropDead a) (dropDead b)

theorem dropDead_running {s : St} (h : s.status = "running") : dropDead s = s := by
  unfold dropDead; rw [if_pos h]
theorem dropDead_dead {s : St} (h : s.status ≠ "running") : dropDead s = { s with queue := [] } := by
  unfold dropDead; rw [if_neg h]

theorem dropDead_fields (s : St) :
    (dropDead s).cfg = s.cfg ∧ (dropDead s).hist = s.hist ∧ (dropDead s).status = s.status ∧
    (dropDead s).ctx = s.ctx ∧ (dropDead s).err = s.err ∧ (dropDead s).errors = s.errors ∧
    (dropDead s).trace = s.trace ∧ (dropDead s).raiseDepth = s.raiseDepth := by
  unfold dropDead; split <;> exact ⟨rfl, rfl, rfl, rfl, rfl, rfl, rfl, rfl⟩

theorem dropDead_expCut (s : St) : (dropDead s).expCut = s.expCut := by
  unfold dropDead; split <;> rfl

theorem Sim.agree {a b : St} (h : Sim T a b) : Agrees T a b := by
  unfold Agrees
  by_cases hr : a.status = "running"
  · rw [dropDead_running hr, dropDead_running (h.status ▸ hr)]; exact h
  · rw [dropDead_dead hr, dropDead_dead (h.status ▸ hr)]; exact h.setQueue rfl

theorem Agrees.status {a b : St} (h : Agrees T a b) : a.status = b.status := by
  have := Sim.status h
  rwa [(dropDead_fields a).2.2.1, (dropDead_fields b).2.2.1] at this

theorem Agrees.sim {a b : St} (h : Agrees T a b) (hr : a.status = "running") : Sim T a b := by
  have hb : b.status = "running" := h.status ▸ hr
  unfold Agrees at h
  rwa [dropDead_running hr, dropDead_running hb] at h

/-- a dead pair: whatever the queues hold -/
theorem Sim.agree_dead {a b : St} (h : Sim T a b) (hr : a.status ≠ "running") (q1 q2 : List QEv) :
    Agrees T { a with queue := q1 } { b with queue := q2 } := by
  unfold Agrees
  rw [dropDead_dead (s := { a with queue := q1 }) hr, dropDead_dead (s := { b with queue := q2 }) (h.status ▸ hr)]
  exact h.setQueue rfl

theorem Agrees.of_dead {a b : St} (h : Agrees T a b) (hr : a.status ≠ "running") (q1 q2 : List QEv) :
    Agrees T { a with queue := q1 } { b with queue := q2 } := by
  have hb : b.status ≠ "running" := h.status ▸ hr
  unfold Agrees at h ⊢
  rw [dropDead_dead hr, dropDead_dead hb] at h
  rw [dropDead_dead (s := { a with queue := q1 }) hr, dropDead_dead (s := { b with queue := q2 }) hb]
  exact h

/-- with equal traces, `Agrees` is equality of the erasures of what a caller can see -/
theorem agree_eq_iff (a b : St) : Agrees Eq a b ↔ eraseQ (dropDead a) = eraseQ (dropDead b) := sim_eq_iff _ _

/-! ## the two drains, cut-free and error-free -/

/-- the MODEL's fuel ran out (`asyncDrain … 0` with events pending on a running interpreter): the model
    marks it — the code has no such bound -/
theorem asyncDrain_zero_hang {s : St} {q : QEv} {rest : List QEv} (hq : s.queue = q :: rest) (hr : s.status = "running") :
    (asyncDrain m u 0 s).status = "HANG" := by
  simp [asyncDrain, hq, hr]

/-- **the loops agree.** From `Sim`-related states, if the async breaker never trips, the sync drain is not
    cut (`drainCut`: no marked event trips the bound, and the sync MODEL's fuel does not run out) and no
    macrostep of the sync drain fails, the async loop — with any fuel at least the number of events the sync
    drain processes, or any fuel that does not run out (the MODEL's marker "HANG" is not reached) — and the
    sync drain end in `Agrees`-related states. -/
theorem drain_agree_gen (hT : ∀ r l1 l2, T l1 l2 → T (r :: l1) (r :: l2)) (hu : NoCoroutine u) :
    ∀ (n F c : Nat) (a b : St), (drainSteps m u n c b ≤ F ∨ (asyncDrain m u F a).status ≠ "HANG") → Sim T a b →
      asyncTrips m u F a = 0 → drainCut m u n c b = false →
      (drainLoop m u n c b).err = none → Agrees T (asyncDrain m u F a) (drainLoop m u n c b) := by
  intro n
  induction n with
  | zero =>
    intro F c a b _ hs _ hc _
    by_cases hra : a.status = "running"
    · have hrb : b.status = "running" := hs.status ▸ hra
      have hqb : b.queue = [] := by
        rw [Term.drainCut_zero] at hc
        cases hq : b.queue with
        | nil => rfl
        | cons q rest => simp [hq, hrb] at hc
      rw [drainLoop_zero]
      simp only [hqb, List.isEmpty_nil, if_true]
      have hqa : a.queue = [] := evsOf_nil_inv (by rw [hs.queue, hqb]; rfl)
      rw [asyncDrain_queue_nil m u F hqa]
      exact hs.agree
    · have hrb : b.status ≠ "running" := hs.status ▸ hra
      rw [asyncDrain_not_running m u _ hra]
      rcases drainLoop_dead (m := m) (u := u) 0 c hrb with h | h
      · rw [h]; exact hs.agree
      · rw [h]; exact hs.agree_dead hra a.queue []
  | succ n ih =>
    intro F c a b hF hs ht hc he
    by_cases hra : a.status = "running"
    · have hrb : b.status = "running" := hs.status ▸ hra
      cases hqb : b.queue with
      | nil =>
        have hqa : a.queue = [] := evsOf_nil_inv (by rw [hs.queue, hqb]; rfl)
        rw [drainLoop_nil m u _ c b hqb, asyncDrain_queue_nil m u _ hqa]
        exact hs.agree
      | cons qb rest =>
        obtain ⟨e, f⟩ := qb
        have htr : syncTrips m c ⟨e, f⟩ = false := not_trips_of_not_cut n c hqb hrb hc
        obtain ⟨qa, resta, hqa, hev, hrest⟩ := evsOf_cons_inv (l := a.queue) (e := e) (es := evsOf rest)
          (by rw [hs.queue, hqb]; rfl)
        obtain ⟨F, rfl⟩ : ∃ F', F = F' + 1 := by
          cases F with
          | succ F' => exact ⟨F', rfl⟩
          | zero =>
            rcases hF with hF | hF
            · rw [drainSteps_step' n c hqb hrb htr] at hF
              split at hF <;> omega
            · exact absurd (asyncDrain_zero_hang hqa hra) hF
        rw [asyncTrips_step F hqa hra] at ht
        have hd : a.raiseDepth ≤ m.maxIterations := by
          by_cases hgt : a.raiseDepth > m.maxIterations
          · rw [if_pos hgt] at ht; omega
          · omega
        have ht' : asyncTrips m u F (asyncStep m u qa { a with queue := resta }) = 0 := by omega
        rw [asyncStep_below_bound m u qa { a with queue := resta } hd, hev] at ht'
        rw [asyncDrain_step F hqa hra, asyncStep_below_bound m u qa { a with queue := resta } hd, hev]
        rw [drainLoop_step n c hqb hrb htr] at he ⊢
        rw [drainCut_step n c hqb hrb htr] at hc
        have hs' : Sim T { a with queue := resta } { b with queue := rest } := hs.setQueue hrest
        by_cases hee : (syncProcessed m u e { b with queue := rest }).err.isSome = true
        · rw [if_pos hee] at he
          rw [he] at hee
          exact absurd hee (by simp)
        · rw [if_neg hee] at he hc ⊢
          have hnone : (syncProcessed m u e { b with queue := rest }).err = none := by
            cases hx : (syncProcessed m u e { b with queue := rest }).err with
            | none => rfl
            | some _ => rw [hx] at hee; exact absurd rfl hee
          have hF' : drainSteps m u n (chainedNext c ⟨e, f⟩) (syncProcessed m u e { b with queue := rest }) ≤ F ∨
              (asyncDrain m u F (asyncProcess m u e { a with queue := resta })).status ≠ "HANG" := by
            rcases hF with hF | hF
            · rw [drainSteps_step' n c hqb hrb htr, if_neg hee] at hF
              exact Or.inl (by omega)
            · rw [asyncDrain_step F hqa hra, asyncStep_below_bound m u qa { a with queue := resta } hd, hev] at hF
              exact Or.inr hF
          exact ih F _ _ _ hF' (asyncProcess_sim hT hu e hs' hnone) ht' hc he
    · have hrb : b.status ≠ "running" := hs.status ▸ hra
      rw [asyncDrain_not_running m u _ hra]
      rcases drainLoop_dead (m := m) (u := u) (n + 1) c hrb with h | h
      · rw [h]; exact hs.agree
      · rw [h]
        have := hs.agree_dead hra a.queue []
        exact this

theorem drain_agree (hT : ∀ r l1 l2, T l1 l2 → T (r :: l1) (r :: l2)) (hu : NoCoroutine u)
    (n F c : Nat) (a b : St) (hF : drainSteps m u n c b ≤ F) (hs : Sim T a b) (ht : asyncTrips m u F a = 0)
    (hc : drainCut m u n c b = false)
    (he : (drainLoop m u n c b).err = none) : Agrees T (asyncDrain m u F a) (drainLoop m u n c b) :=
  drain_agree_gen hT hu n F c a b (Or.inl hF) hs ht hc he

/-- what one processed event appends to the async queue is bounded by what it counted -/
theorem asyncProcessed_queue_length (e : Ev) (a : St) :
    (asyncProcessed m u e a).queue.length ≤ a.queue.length + selfSendsOf m u e a := by
  have G : Grow true (emit ("#recv:" ++ e.type) a) (asyncProcessed m u e a) :=
    (processEvent_grow _ (hooksAsync_grow u m) .async m u e _).trans
      (transientLoop_grow _ (hooksAsync_grow u m) .async m u _ _)
  obtain ⟨⟨l, hq, hl, hd, _⟩, _⟩ := G
  have hq' : (asyncProcessed m u e a).queue = a.queue ++ l := hq
  have hd' : a.raiseDepth + cntSelf l ≤ (asyncProcessed m u e a).raiseDepth := hd
  rw [(cntSelf_all_true hl).1] at hd'
  unfold selfSendsOf
  rw [hq', List.length_append]
  omega

theorem evsOf_length (l : List QEv) : (evsOf l).length = l.length := by simp [evsOf]

/-- **the sufficient condition, sync side.** If the sync counter, the events queued and the events the machine
    sends itself during the async run of the loop together stay within `maxIterations` (so that no marked
    event can trip the bound: every queued event may be a marked one) — and the async counter stays within
    the bound — the sync drain is not cut, provided both MODEL fuels cover the events queued plus sent; and it
    processes at most that many events. -/
theorem drainCut_of_selfSends (hT : ∀ r l1 l2, T l1 l2 → T (r :: l1) (r :: l2)) (hu : NoCoroutine u) :
    ∀ (n F c : Nat) (a b : St), Sim T a b →
      (a.status = "running" → a.raiseDepth + asyncSelfSends m u F a ≤ m.maxIterations) →
      c + b.queue.length + asyncSelfSends m u F a ≤ m.maxIterations →
      b.queue.length + asyncSelfSends m u F a ≤ n → b.queue.length + asyncSelfSends m u F a ≤ F →
      drainCut m u n c b = false ∧ drainSteps m u n c b ≤ b.queue.length + asyncSelfSends m u F a := by
  intro n
  induction n with
  | zero =>
    intro F c a b _ _ _ hl _
    have : b.queue = [] := List.length_eq_zero_iff.1 (by omega)
    rw [Term.drainCut_zero, Term.drainSteps_zero]
    simp [this]
  | succ n ih =>
    intro F c a b hs hd hb hl hlF
    cases hqb : b.queue with
    | nil => rw [Term.drainCut_nil m u n c b hqb, Term.drainSteps_nil m u n c b hqb]; exact ⟨rfl, Nat.zero_le _⟩
    | cons qb rest =>
      obtain ⟨e, f⟩ := qb
      by_cases hrb : b.status = "running"
      · have hra : a.status = "running" := hs.status.trans hrb
        obtain ⟨F, rfl⟩ : ∃ F', F = F' + 1 := ⟨F - 1, by rw [hqb, List.length_cons] at hlF; omega⟩
        obtain ⟨qa, resta, hqa, hev, hrest⟩ := evsOf_cons_inv (l := a.queue) (e := e) (es := evsOf rest)
          (by rw [hs.queue, hqb]; rfl)
        replace hd := hd hra
        rw [asyncSelfSends_step F hqa hra] at hd hl hb hlF ⊢
        have hdle : ¬ a.raiseDepth > m.maxIterations := by omega
        have hdle' : ¬ (a.raiseDepth > m.maxIterations ∧ qa.self = true) := fun hh => hdle hh.1
        have hbase : asyncBase m { a with queue := resta } = { a with queue := resta } := by
          unfold asyncBase; rw [if_neg hdle]
        rw [if_neg hdle', hbase, asyncStep_below_bound m u qa { a with queue := resta } (by show a.raiseDepth ≤ _; omega),
          hev] at hd hl hb hlF ⊢
        rw [hqb, List.length_cons] at hl hb hlF
        have htr : syncTrips m c ⟨e, f⟩ = false := by
          rw [Term.syncTrips_eq_false]; right; omega
        rw [drainCut_step n c hqb hrb htr, drainSteps_step' n c hqb hrb htr, List.length_cons]
        by_cases hee : (syncProcessed m u e { b with queue := rest }).err.isSome = true
        · rw [if_pos hee, if_pos hee]; exact ⟨rfl, by omega⟩
        · rw [if_neg hee, if_neg hee]
          have hnone : (syncProcessed m u e { b with queue := rest }).err = none := by
            cases hx : (syncProcessed m u e { b with queue := rest }).err with
            | none => rfl
            | some _ => rw [hx] at hee; exact absurd rfl hee
          have hs' : Sim T { a with queue := resta } { b with queue := rest } := hs.setQueue hrest
          have k := asyncProcess_sim (m := m) hT hu e hs' hnone
          have hdep := asyncProcess_depth_le m u e { a with queue := resta }
          have hlen := asyncProcessed_queue_length (m := m) (u := u) e { a with queue := resta }
          have hpq : (asyncProcess m u e { a with queue := resta }).queue =
              (asyncProcessed m u e { a with queue := resta }).queue := by
            rw [asyncProcess_eq, (asyncChainEnd_fields _ _).2.2.1]
            split <;> rfl
          rw [← hpq] at hlen
          have hql : (syncProcessed m u e { b with queue := rest }).queue.length =
              (asyncProcess m u e { a with queue := resta }).queue.length := by
            rw [← evsOf_length, ← k.queue, evsOf_length]
          have e1 : ({ a with queue := resta } : St).raiseDepth = a.raiseDepth := rfl
          have e2 : ({ a with queue := resta } : St).queue.length = rest.length := by
            show resta.length = rest.length
            rw [← evsOf_length, hrest, evsOf_length]
          have hcn : chainedNext c ⟨e, f⟩ ≤ c + 1 := by unfold chainedNext; split <;> omega
          obtain ⟨i1, i2⟩ := ih F (chainedNext c ⟨e, f⟩) _ _ k (fun _ => by omega) (by omega) (by omega) (by omega)
          exact ⟨i1, by omega⟩
      · rw [Term.drainCut_dead m u n c b hrb, Term.drainSteps_dead m u n c b hrb]; exact ⟨rfl, Nat.zero_le _⟩

end drain

/-! ## `send` -/

/-- the state `send` hands to the loop / the drain: the event appended, as an external one -/
def pushExt (e : Ev) (s : St) : St := { s with queue := s.queue ++ [⟨e, false⟩] }

/-- how often the async chain breaker fires while `send e` is digested from `a` -/
def sendTrips (m : Machine) (u : UEnv) (e : Ev) (a : St) : Nat :=
  if a.status = "running" then asyncTrips m u (asyncFuel m) (pushExt e a) else 0

/-- is the sync drain started by `send e` from `b` cut — does a MARKED event trip the bound (`chained >
    maxIterations`: the marked entries are purged)? (`drainCut` with the model's fuel `drainFuel`, which never
    runs out: `Term.drainCut_iff_trips`, `Term.drain_no_hang`) -/
def sendCut (m : Machine) (u : UEnv) (e : Ev) (b : St) : Bool :=
  if b.status = "running" then drainCut m u (drainFuel m (pushExt e b)) 0 (pushExt e b) else false

section send
variable {T : List String → List String → Prop} {m : Machine} {u : UEnv}

theorem asyncFuel_ge_max (m : Machine) : m.maxIterations ≤ asyncFuel m := by unfold asyncFuel; omega

theorem Sim.pushExt {a b : St} (h : Sim T a b) (e : Ev) : Sim T (pushExt e a) (pushExt e b) := by
  unfold XSM.Bisim.pushExt
  refine h.setQueue ?_
  have := h.queue
  unfold evsOf at this ⊢
  rw [List.map_append, List.map_append, this]

theorem syncSend_running (e : Ev) {b : St} (h : b.status = "running") :
    syncSend m u e b = drainLoop m u (drainFuel m (pushExt e b)) 0 (pushExt e b) := by
  unfold syncSend sndUnflagged drainFlagged pushExt
  rw [if_pos h]

theorem syncSend_not_running (e : Ev) {b : St} (h : b.status ≠ "running") : syncSend m u e b = b := by
  unfold syncSend sndUnflagged
  rw [if_neg h]

/-- **one `send`, two states.** From `Agrees`-related states, if the breaker does not trip, the sync drain is
    not cut and the sync `send` raises nothing, the two engines end in `Agrees`-related states — provided the
    MODEL's async fuel covers the events the sync drain processes or does not run out (the code has no such
    bound). -/
theorem send_sim_gen (hT : ∀ r l1 l2, T l1 l2 → T (r :: l1) (r :: l2)) (hu : NoCoroutine u) (e : Ev) {a b : St} (hs : Agrees T a b)
    (hF : a.status = "running" →
      (drainSteps m u (drainFuel m (pushExt e b)) 0 (pushExt e b) ≤ asyncFuel m ∨ (asyncSend m u e a).status ≠ "HANG"))
    (ht : sendTrips m u e a = 0) (hc : sendCut m u e b = false) (he : (syncSend m u e b).err = none) :
    Agrees T (asyncSend m u e a) (syncSend m u e b) := by
  by_cases hra : a.status = "running"
  · have hrb : b.status = "running" := hs.status ▸ hra
    unfold sendTrips at ht; rw [if_pos hra] at ht
    unfold sendCut at hc; rw [if_pos hrb] at hc
    rw [syncSend_running e hrb] at he ⊢
    replace hF := hF hra
    rw [asyncSend_eq m u e a hra] at hF ⊢
    exact drain_agree_gen hT hu _ _ _ _ _ hF ((hs.sim hra).pushExt e) ht hc he
  · have hrb : b.status ≠ "running" := hs.status ▸ hra
    rw [asyncSend_not_running m u e hra, syncSend_not_running e hrb]
    exact hs

/-- … stated with "the async model's fuel does not run out" -/
theorem send_sim (hT : ∀ r l1 l2, T l1 l2 → T (r :: l1) (r :: l2)) (hu : NoCoroutine u) (e : Ev) {a b : St} (hs : Agrees T a b)
    (hh : (asyncSend m u e a).status ≠ "HANG")
    (ht : sendTrips m u e a = 0) (hc : sendCut m u e b = false) (he : (syncSend m u e b).err = none) :
    Agrees T (asyncSend m u e a) (syncSend m u e b) :=
  send_sim_gen hT hu e hs (fun _ => Or.inr hh) ht hc he

theorem drainFuel_pushExt_idle (e : Ev) {b : St} (hq : b.queue = []) :
    drainFuel m (pushExt e b) = 2 * (m.maxIterations + 2) := by
  unfold drainFuel pushExt extCount
  simp [hq]

/-- a `send` to a sync interpreter with nothing queued processes at most `2 * maxIterations + 1` events -/
theorem drainSteps_pushExt_idle (e : Ev) {b : St} (hq : b.queue = []) (F : Nat) :
    drainSteps m u F 0 (pushExt e b) ≤ 2 * m.maxIterations + 1 := by
  have h := Term.drainSteps_le m u F (pushExt e b)
  have hc : cntExt (pushExt e b).queue = 1 := by
    unfold pushExt; simp [hq, cntExt]
  rw [hc] at h
  omega

/-- … for a sync interpreter with nothing queued (what every command of a run finds): the drain processes
    at most `2 * maxIterations + 1` events, which the model's async fuel covers -/
theorem send_sim_idle (hT : ∀ r l1 l2, T l1 l2 → T (r :: l1) (r :: l2)) (hu : NoCoroutine u) (e : Ev) {a b : St} (hs : Agrees T a b)
    (hq : b.status = "running" → b.queue = [])
    (ht : sendTrips m u e a = 0) (hc : sendCut m u e b = false) (he : (syncSend m u e b).err = none) :
    Agrees T (asyncSend m u e a) (syncSend m u e b) :=
  send_sim_gen hT hu e hs
    (fun hra => Or.inl (by
      have := drainSteps_pushExt_idle (m := m) (u := u) e (hq (hs.status ▸ hra)) (drainFuel m (pushExt e b))
      unfold asyncFuel; omega)) ht hc he

/-- the sufficient condition for one `send` to an idle interpreter: fewer than `maxIterations` events sent
    to itself while the event is digested -/
theorem send_cutFree_of_short (hT : ∀ r l1 l2, T l1 l2 → T (r :: l1) (r :: l2)) (hu : NoCoroutine u) (e : Ev) {a b : St} (hs : Agrees T a b)
    (hq : a.status = "running" → Quiet a)
    (hshort : a.status = "running" → asyncSelfSends m u (asyncFuel m) (pushExt e a) < m.maxIterations) :
    sendTrips m u e a = 0 ∧ sendCut m u e b = false := by
  unfold sendTrips sendCut
  by_cases hra : a.status = "running"
  · have hrb : b.status = "running" := hs.status ▸ hra
    rw [if_pos hra, if_pos hrb]
    obtain ⟨hq0, hd0⟩ := hq hra
    have hsim := hs.sim hra
    have hd : (pushExt e a).raiseDepth = 0 := hd0
    have hqb : b.queue = [] := evsOf_nil_inv (by rw [← hsim.queue, hq0]; rfl)
    have hlen : (pushExt e b).queue.length = 1 := by
      show (b.queue ++ [_]).length = 1
      rw [hqb]; rfl
    have hsh := hshort hra
    refine ⟨short_chain_not_cut m u _ _ (by omega), ?_⟩
    rw [drainFuel_pushExt_idle e hqb]
    exact (drainCut_of_selfSends (m := m) (u := u) hT hu (2 * (m.maxIterations + 2)) (asyncFuel m) 0 _ _
      (hsim.pushExt e) (fun _ => by omega) (by omega) (by omega) (by have := asyncFuel_ge_max m; omega)).1
  · have hrb : b.status ≠ "running" := hs.status ▸ hra
    rw [if_neg hra, if_neg hrb]
    exact ⟨rfl, rfl⟩

end send

/-! ## `start()` -/

/-- `SyncInterpreter.start()`, first phase: `_enter_states([machine])` (every state gets its own synthetic
    entry event) -/
def syncStartEntered (m : Machine) (u : UEnv) (s : St) : St :=
  let s := { s with status := "running", ctx := m.ctx0 }
  let (es, e) := startEntries m
  let s := es.foldl (enterOne (hooksFlagged u m) .sync m none) s
  match e with | some err => s.fail err | none => s

/-- … second phase: the eventless settling (the queue is drained afterwards) -/
def syncStartSettled (m : Machine) (u : UEnv) (s : St) : St :=
  transientLoop (hooksFlagged u m) .sync m u m.maxIterations (syncStartEntered m u s)

theorem syncStart_phases (m : Machine) (u : UEnv) (s : St) :
    syncStart m u s =
      if (syncStartEntered m u s).err.isSome then syncStartEntered m u s
      else if (syncStartSettled m u s).err.isSome then syncStartSettled m u s
      else drainLoop m u (drainFuel m (syncStartSettled m u s)) 0 (syncStartSettled m u s) := rfl

section start
variable {m : Machine} {u : UEnv}

theorem startEntered_sim (hu : NoCoroutine u) (hb : StartBlind m u) {a b : St} (hs : Sim (TrRel (StartTag m)) a b) :
    Sim (TrRel (StartTag m)) (asyncStartEntered m u a) (syncStartEntered m u b) := by
  unfold asyncStartEntered syncStartEntered
  simp only
  generalize startEntries m = se
  obtain ⟨es, e⟩ := se
  simp only
  have k : Sim (TrRel (StartTag m))
      (es.foldl (enterOne (hooksAsyncStart u m) .async m (some "___xstate_statemachine_init___"))
        { a with status := "running", ctx := m.ctx0 })
      (es.foldl (enterOne (hooksFlagged u m) .sync m none) { b with status := "running", ctx := m.ctx0 }) := by
    apply foldl_sim _ _ _ _ _ _ ((hs.setStatus "running").setCtx m.ctx0)
    intro a b en h
    exact enterOne_sim .async .sync m _ _ en (hsim_start u hu m hb en.path) h
  cases e with
  | none => exact k
  | some err => exact k.fail err

theorem startSettled_sim (hu : NoCoroutine u) (hb : StartBlind m u) {a b : St} (hs : Sim (TrRel (StartTag m)) a b) :
    Sim (TrRel (StartTag m)) (asyncStartSettled m u a) (syncStartSettled m u b) := by
  unfold asyncStartSettled syncStartSettled
  exact transientLoop_sim _ _ m u (hsim_asyncStart (startT_cons m) u hu m "") _ _ _ (startEntered_sim hu hb hs)

theorem isSome_false_iff {α : Type} (o : Option α) : ¬ (o.isSome = true) ↔ o = none := by
  cases o <;> simp

/-- **`start()`, two states.** -/
theorem start_sim_gen (hu : NoCoroutine u) (hb : StartBlind m u) {a b : St} (hs : Sim (TrRel (StartTag m)) a b)
    (hF : drainSteps m u (drainFuel m (syncStartSettled m u b)) 0 (syncStartSettled m u b) ≤ asyncFuel m ∨
      (asyncStart m u a).status ≠ "HANG")
    (ht : asyncTrips m u (asyncFuel m) (asyncStartSettled m u a) = 0)
    (hc : drainCut m u (drainFuel m (syncStartSettled m u b)) 0 (syncStartSettled m u b) = false)
    (he : (syncStart m u b).err = none) :
    Agrees (TrRel (StartTag m)) (asyncStart m u a) (syncStart m u b) := by
  have k1 := startEntered_sim hu hb hs
  have k2 := startSettled_sim hu hb hs
  rw [syncStart_phases] at he ⊢
  rw [Term.asyncStart_eq] at hF ⊢
  by_cases h1 : (syncStartEntered m u b).err.isSome = true
  · rw [if_pos h1] at he; rw [he] at h1; exact absurd h1 (by simp)
  · rw [if_neg h1] at he ⊢
    rw [if_neg (by rw [k1.err]; exact h1)] at hF ⊢
    by_cases h2 : (syncStartSettled m u b).err.isSome = true
    · rw [if_pos h2] at he; rw [he] at h2; exact absurd h2 (by simp)
    · rw [if_neg h2] at he ⊢
      rw [if_neg (by rw [k2.err]; exact h2)] at hF ⊢
      exact drain_agree_gen (startT_cons m) hu _ _ _ _ _ hF k2 ht hc he

/-- … stated with "the async model's fuel does not run out" (the code has no such bound) -/
theorem start_sim (hu : NoCoroutine u) (hb : StartBlind m u) {a b : St} (hs : Sim (TrRel (StartTag m)) a b)
    (hh : (asyncStart m u a).status ≠ "HANG")
    (ht : asyncTrips m u (asyncFuel m) (asyncStartSettled m u a) = 0)
    (hc : drainCut m u (drainFuel m (syncStartSettled m u b)) 0 (syncStartSettled m u b) = false)
    (he : (syncStart m u b).err = none) :
    Agrees (TrRel (StartTag m)) (asyncStart m u a) (syncStart m u b) :=
  start_sim_gen hu hb hs (Or.inr hh) ht hc he

/-- the sufficient condition for `start()`: what the initial entry and settling queued (on the sync engine
    every such event is marked: `_is_processing` is set during `start()`) plus what the machine sends itself
    while that is digested fits `maxIterations`; then the sync drain also processes at most `maxIterations`
    events, within the async MODEL's fuel -/
theorem start_cutFree_of_short' (hu : NoCoroutine u) (hb : StartBlind m u) {a b : St} (hs : Sim (TrRel (StartTag m)) a b)
    (hd : a.raiseDepth = 0)
    (hshort : (asyncStartSettled m u a).queue.length + asyncSelfSends m u (asyncFuel m) (asyncStartSettled m u a)
      ≤ m.maxIterations) :
    asyncTrips m u (asyncFuel m) (asyncStartSettled m u a) = 0 ∧
    drainCut m u (drainFuel m (syncStartSettled m u b)) 0 (syncStartSettled m u b) = false ∧
    drainSteps m u (drainFuel m (syncStartSettled m u b)) 0 (syncStartSettled m u b) ≤ m.maxIterations := by
  have k2 := startSettled_sim hu hb hs
  have hdep : (asyncStartSettled m u a).status = "running" → (asyncStartSettled m u a).raiseDepth = 0 := by
    intro hr
    obtain ⟨⟨l, _, hl, _, hx⟩, _⟩ := asyncStartSettled_grow m u a
    have := hx hr
    rw [(cntSelf_all_false hl).1] at this
    have e0 : ({ a with status := "running", ctx := m.ctx0 } : St).raiseDepth = a.raiseDepth := rfl
    omega
  constructor
  · by_cases hr : (asyncStartSettled m u a).status = "running"
    · exact short_chain_not_cut m u _ _ (by have := hdep hr; omega)
    · have : asyncFuel m = (10 * m.maxIterations + 49) + 1 := by unfold asyncFuel; omega
      rw [this]
      simp [asyncTrips, hr]
  · have hlen : (syncStartSettled m u b).queue.length = (asyncStartSettled m u a).queue.length := by
      rw [← evsOf_length, ← k2.queue, evsOf_length]
    have hfuel : m.maxIterations + 2 ≤ drainFuel m (syncStartSettled m u b) := by
      unfold drainFuel; rw [Nat.add_mul, Nat.one_mul]; omega
    obtain ⟨i1, i2⟩ := drainCut_of_selfSends (m := m) (u := u) (startT_cons m) hu (drainFuel m (syncStartSettled m u b)) (asyncFuel m) 0 _ _ k2
      (fun hr => by have := hdep hr; omega) (by omega) (by omega) (by have := asyncFuel_ge_max m; omega)
    exact ⟨i1, by omega⟩

theorem start_cutFree_of_short (hu : NoCoroutine u) (hb : StartBlind m u) {a b : St} (hs : Sim (TrRel (StartTag m)) a b)
    (hd : a.raiseDepth = 0)
    (hshort : (asyncStartSettled m u a).queue.length + asyncSelfSends m u (asyncFuel m) (asyncStartSettled m u a)
      ≤ m.maxIterations) :
    asyncTrips m u (asyncFuel m) (asyncStartSettled m u a) = 0 ∧
    drainCut m u (drainFuel m (syncStartSettled m u b)) 0 (syncStartSettled m u b) = false :=
  ⟨(start_cutFree_of_short' hu hb hs hd hshort).1, (start_cutFree_of_short' hu hb hs hd hshort).2.1⟩

end start

/-! ## whole runs: `start()`, then the events one by one -/

/-- the side condition "neither bound is reached", for the commands `evs` sent one by one (each once the
    previous one is digested) from the async state `a` / the sync state `b` -/
def cutFreeFrom (m : Machine) (u : UEnv) : List Ev → St → St → Bool
  | [], _, _ => true
  | e :: es, a, b =>
    decide (sendTrips m u e { a with err := none } = 0) && !sendCut m u e { b with err := none } &&
      cutFreeFrom m u es (cmd .async m u a e) (cmd .sync m u b e)

/-- no `send` of the sync engine raises -/
def noFailFrom (m : Machine) (u : UEnv) : List Ev → St → Bool
  | [], _ => true
  | e :: es, b => (cmd .sync m u b e).err.isNone && noFailFrom m u es (cmd .sync m u b e)

/-- every `send` reaches an async interpreter whose chain of self-sent events stays below the bound -/
def shortFrom (m : Machine) (u : UEnv) : List Ev → St → Bool
  | [], _ => true
  | e :: es, a =>
    decide (a.status = "running" →
      asyncSelfSends m u (asyncFuel m) (pushExt e { a with err := none }) < m.maxIterations) &&
      shortFrom m u es (cmd .async m u a e)

section run
variable {T : List String → List String → Prop} {m : Machine} {u : UEnv}

theorem dropDead_clearErr (s : St) : dropDead { s with err := none } = { dropDead s with err := none } := by
  unfold dropDead
  split <;> rfl

theorem Agrees.clearErr {a b : St} (h : Agrees T a b) : Agrees T { a with err := none } { b with err := none } := by
  unfold Agrees at h ⊢
  rw [dropDead_clearErr, dropDead_clearErr]
  exact h.setErr none

/-- the sync drain ends with an empty queue unless a macrostep failed -/
theorem drainLoop_queue_nil_of_ok (n c : Nat) (s : St) (he : (drainLoop m u n c s).err = none) :
    (drainLoop m u n c s).queue = [] := Term.drainLoop_queue_nil_of_ok m u n c s he

/-- the sync drain leaves the status alone or completes the machine -/
theorem drainLoop_status_ok (n c : Nat) (s : St) (h : s.status = "running" ∨ s.status = "done") :
    ((drainLoop m u n c s).status = "running" ∨ (drainLoop m u n c s).status = "done") := by
  rcases drainLoop_status m u n c s with h1 | ⟨_, h1⟩
  · rw [h1]; exact h
  · right; exact h1

theorem syncStart_status_ok {a : St} (hu : NoCoroutine u) (hb : StartBlind m u) (b : St)
    (hs : Sim (TrRel (StartTag m)) a b) (he : (syncStart m u b).err = none) :
    (syncStart m u b).status = "running" ∨ (syncStart m u b).status = "done" := by
  have k2 := startSettled_sim hu hb hs
  have hst : (syncStartSettled m u b).status = "running" ∨ (syncStartSettled m u b).status = "done" := by
    rw [← k2.status]
    rcases (asyncStartSettled_grow m u a).2 with h | h
    · left; rw [h]
    · right; exact h
  rw [syncStart_phases] at he ⊢
  by_cases h1 : (syncStartEntered m u b).err.isSome = true
  · rw [if_pos h1] at he; rw [he] at h1; exact absurd h1 (by simp)
  · rw [if_neg h1] at he ⊢
    by_cases h2 : (syncStartSettled m u b).err.isSome = true
    · rw [if_pos h2] at he; rw [he] at h2; exact absurd h2 (by simp)
    · rw [if_neg h2] at he ⊢
      exact drainLoop_status_ok _ _ _ hst

/-- under the short-chain condition of `start_cutFree_of_short` the async MODEL's fuel does not run out
    during `start()` either -/
theorem start_noHang_of_short (hu : NoCoroutine u) (hb : StartBlind m u) {a b : St} (hs : Sim (TrRel (StartTag m)) a b)
    (hd : a.raiseDepth = 0)
    (hshort : (asyncStartSettled m u a).queue.length + asyncSelfSends m u (asyncFuel m) (asyncStartSettled m u a)
      ≤ m.maxIterations)
    (he : (syncStart m u b).err = none) : (asyncStart m u a).status ≠ "HANG" := by
  obtain ⟨c1, c2, c3⟩ := start_cutFree_of_short' hu hb hs hd hshort
  have hfuel : drainSteps m u (drainFuel m (syncStartSettled m u b)) 0 (syncStartSettled m u b) ≤ asyncFuel m := by
    unfold asyncFuel; omega
  have h0 := start_sim_gen hu hb hs (Or.inl hfuel) c1 c2 he
  rw [h0.status]
  rcases syncStart_status_ok hu hb b hs he with h | h <;> (rw [h]; decide)

theorem syncSend_queue_nil (e : Ev) {s : St} (hq : s.status ≠ "running" → s.queue = [])
    (he : (syncSend m u e s).err = none) : (syncSend m u e s).queue = [] := by
  by_cases hr : s.status = "running"
  · rw [syncSend_running e hr] at he ⊢
    exact drainLoop_queue_nil_of_ok _ _ _ he
  · rw [syncSend_not_running e hr]; exact hq hr

theorem syncStart_queue_nil (s : St) (he : (syncStart m u s).err = none) : (syncStart m u s).queue = [] := by
  rw [syncStart_phases] at he ⊢
  by_cases h1 : (syncStartEntered m u s).err.isSome = true
  · rw [if_pos h1] at he; rw [he] at h1; exact absurd h1 (by simp)
  · rw [if_neg h1] at he ⊢
    by_cases h2 : (syncStartSettled m u s).err.isSome = true
    · rw [if_pos h2] at he; rw [he] at h2; exact absurd h2 (by simp)
    · rw [if_neg h2] at he ⊢
      exact drainLoop_queue_nil_of_ok _ _ _ he

theorem isNone_iff {α : Type} (o : Option α) : o.isNone = true ↔ o = none := by
  cases o <;> simp

/-- the run lemma: agreement at every prefix; the sync engine raised nothing and left nothing queued at
    any prefix -/
theorem run_from (hT : ∀ r l1 l2, T l1 l2 → T (r :: l1) (r :: l2)) (hu : NoCoroutine u) :
    ∀ (evs : List Ev) (a b : St), Agrees T a b → b.err = none → b.queue = [] →
      cutFreeFrom m u evs a b = true → noFailFrom m u evs b = true →
      ∀ k, Agrees T ((evs.take k).foldl (cmd .async m u) a) ((evs.take k).foldl (cmd .sync m u) b) ∧
        ((evs.take k).foldl (cmd .sync m u) b).err = none ∧
        ((evs.take k).foldl (cmd .sync m u) b).queue = [] := by
  intro evs
  induction evs with
  | nil => intro a b hs he hq _ _ k; simpa using ⟨hs, he, hq⟩
  | cons e es ih =>
    intro a b hs he hq hc hf k
    cases k with
    | zero => simpa using ⟨hs, he, hq⟩
    | succ k =>
      simp only [List.take_succ_cons, List.foldl_cons]
      simp only [cutFreeFrom, Bool.and_eq_true, decide_eq_true_eq, Bool.not_eq_true'] at hc
      simp only [noFailFrom, Bool.and_eq_true] at hf
      obtain ⟨⟨hc1, hc2⟩, hc3⟩ := hc
      obtain ⟨hf1, hf2⟩ := hf
      have hf1' : (cmd .sync m u b e).err = none := (isNone_iff _).1 hf1
      have hstep : Agrees T (cmd .async m u a e) (cmd .sync m u b e) :=
        send_sim_idle hT hu e hs.clearErr (fun _ => hq) hc1 hc2 hf1'
      have hq' : (cmd .sync m u b e).queue = [] :=
        syncSend_queue_nil e (s := { b with err := none }) (fun _ => hq) hf1'
      exact ih _ _ hstep hf1' hq' hc3 hf2 k

/-- short chains at every step imply the side condition (given that no `send` raises) -/
theorem cutFreeFrom_of_short (hT : ∀ r l1 l2, T l1 l2 → T (r :: l1) (r :: l2)) (hu : NoCoroutine u) :
    ∀ (evs : List Ev) (a b : St), Agrees T a b → (a.status = "running" → Quiet a) →
      shortFrom m u evs a = true → noFailFrom m u evs b = true → cutFreeFrom m u evs a b = true := by
  intro evs
  induction evs with
  | nil => intro a b _ _ _ _; rfl
  | cons e es ih =>
    intro a b hs hq hsh hf
    simp only [shortFrom, Bool.and_eq_true, decide_eq_true_eq] at hsh
    simp only [noFailFrom, Bool.and_eq_true] at hf
    obtain ⟨hsh1, hsh2⟩ := hsh
    obtain ⟨hf1, hf2⟩ := hf
    have hf1' : (cmd .sync m u b e).err = none := (isNone_iff _).1 hf1
    obtain ⟨c1, c2⟩ := send_cutFree_of_short (m := m) hT hu e hs.clearErr (a := { a with err := none }) hq hsh1
    have hqb : ({ b with err := none } : St).status = "running" → ({ b with err := none } : St).queue = [] := by
      intro hrb
      have hra : ({ a with err := none } : St).status = "running" := hs.clearErr.status ▸ hrb
      exact evsOf_nil_inv (by rw [← (hs.clearErr.sim hra).queue, (hq hra).1]; rfl)
    have hstep : Agrees T (cmd .async m u a e) (cmd .sync m u b e) := send_sim_idle hT hu e hs.clearErr hqb c1 c2 hf1'
    have hq' : (cmd .async m u a e).status = "running" → Quiet (cmd .async m u a e) :=
      fun h => asyncSend_quiet m u e { a with err := none } hq h
    simp only [cutFreeFrom, Bool.and_eq_true, decide_eq_true_eq, Bool.not_eq_true']
    exact ⟨⟨c1, c2⟩, ih _ _ hstep hq' hsh2 hf2⟩

end run

/-! ## the side conditions of a whole run, as decidable predicates -/

/-- **neither bound is reached** in the run `start()`, then `evs` one by one: while `start()` digests what
    the initial entry and settling queued, and while each `send` is digested, the async chain breaker never
    fires (`asyncTrips … = 0`) and the sync drain is never cut (`drainCut … = false`: no marked event — one
    enqueued while `_is_processing` was set — is dequeued as the `maxIterations + 1`-st of its drain since the
    last cut; the model's fuel `drainFuel` never runs out, `Term.drain_no_hang`).
    Last clause, MODEL only: the fuel constant of the async model's run loop (`asyncFuel`; the code has no
    such bound, C13 §3) does not run out while `start()` digests what the initial entry and settling queued
    (every later command starts from an empty queue: there the fuel always suffices). -/
def CutFree (m : Machine) (u : UEnv) (evs : List Ev) : Prop :=
  asyncTrips m u (asyncFuel m) (asyncStartSettled m u {}) = 0 ∧
  drainCut m u (drainFuel m (syncStartSettled m u {})) 0 (syncStartSettled m u {}) = false ∧
  cutFreeFrom m u evs (asyncStart m u {}) (syncStart m u {}) = true ∧
  (asyncStart m u {}).status ≠ "HANG"

/-- **no macrostep fails**: neither `start()` nor any `send` of the sync engine raises -/
def NoFail (m : Machine) (u : UEnv) (evs : List Ev) : Prop :=
  (syncStart m u {}).err.isNone = true ∧ noFailFrom m u evs (syncStart m u {}) = true

/-- **short chains**: what `start()` queues plus what the machine sends itself while that is digested fits
    `maxIterations`, and while each `send` is digested the machine sends itself fewer than `maxIterations`
    events (counted on the async run: `asyncSelfSends`) -/
def ShortChains (m : Machine) (u : UEnv) (evs : List Ev) : Prop :=
  (asyncStartSettled m u {}).queue.length + asyncSelfSends m u (asyncFuel m) (asyncStartSettled m u {})
    ≤ m.maxIterations ∧
  shortFrom m u evs (asyncStart m u {}) = true

instance (m : Machine) (u : UEnv) (evs : List Ev) : Decidable (CutFree m u evs) := by
  unfold CutFree; exact inferInstance
instance (m : Machine) (u : UEnv) (evs : List Ev) : Decidable (NoFail m u evs) := by
  unfold NoFail; exact inferInstance
instance (m : Machine) (u : UEnv) (evs : List Ev) : Decidable (ShortChains m u evs) := by
  unfold ShortChains; exact inferInstance

section whole
variable {T : List String → List String → Prop} {m : Machine} {u : UEnv}

/-- `Agrees`, spelled out -/
theorem agree_iff (a b : St) :
    Agrees T a b ↔
      (a.cfg = b.cfg ∧ a.hist = b.hist ∧ a.status = b.status ∧ a.ctx = b.ctx ∧ a.err = b.err ∧
       a.errors = b.errors ∧ T a.trace b.trace ∧ (a.status = "running" → evsOf a.queue = evsOf b.queue) ∧
       a.expCut = b.expCut) := by
  constructor
  · intro h
    have hst := h.status
    obtain ⟨h1, h2, h3, h4, h5, h6, h7, h8, h9⟩ := (show Sim T (dropDead a) (dropDead b) from h)
    obtain ⟨a1, a2, a3, a4, a5, a6, a7, _⟩ := dropDead_fields a
    obtain ⟨b1, b2, b3, b4, b5, b6, b7, _⟩ := dropDead_fields b
    rw [a1, b1] at h1; rw [a2, b2] at h2; rw [a4, b4] at h4; rw [a5, b5] at h5; rw [a6, b6] at h6
    rw [a7, b7] at h7
    rw [dropDead_expCut, dropDead_expCut] at h9
    refine ⟨h1, h2, hst, h4, h5, h6, h7, fun hr => ?_, h9⟩
    rw [dropDead_running hr, dropDead_running (hst ▸ hr)] at h8
    exact h8
  · rintro ⟨h1, h2, h3, h4, h5, h6, h7, h8, h9⟩
    by_cases hr : a.status = "running"
    · exact (Sim.mk h1 h2 h3 h4 h5 h6 h7 (h8 hr) h9).agree
    · show Sim T (dropDead a) (dropDead b)
      rw [dropDead_dead hr, dropDead_dead (h3 ▸ hr)]
      exact ⟨h1, h2, h3, h4, h5, h6, h7, rfl, h9⟩

/-- the traces of two runs that continue from `oa` / `ob` with the SAME new records (newest first) -/
def SplitAt (oa ob : List String) (ta tb : List String) : Prop := ∃ new, ta = new ++ oa ∧ tb = new ++ ob

theorem splitAt_cons (oa ob : List String) (r : String) (l1 l2 : List String) (h : SplitAt oa ob l1 l2) :
    SplitAt oa ob (r :: l1) (r :: l2) := by
  obtain ⟨new, h1, h2⟩ := h
  exact ⟨r :: new, by rw [h1]; rfl, by rw [h2]; rfl⟩

/-- change the trace relation of an `Agrees` pair -/
theorem Agrees.retrace {T' : List String → List String → Prop} {a b : St} (h : Agrees T a b)
    (ht : T' a.trace b.trace) : Agrees T' a b := by
  obtain ⟨h1, h2, h3, h4, h5, h6, _, h8, h9⟩ := (agree_iff a b).1 h
  exact (agree_iff a b).2 ⟨h1, h2, h3, h4, h5, h6, ht, h8, h9⟩

theorem trRel_refl_startTag (m : Machine) (l : List String) : TrRel (StartTag m) l l :=
  TrRel.refl (StartTag.refl m) l

theorem start_agree_core (hu : NoCoroutine u) (hb : StartBlind m u) (evs : List Ev)
    (hc : CutFree m u evs) (hf : NoFail m u evs) :
    Agrees (TrRel (StartTag m)) (asyncStart m u {}) (syncStart m u {}) :=
  start_sim hu hb (Sim.refl (trRel_refl_startTag m) {}) hc.2.2.2 hc.1 hc.2.1 ((isNone_iff _).1 hf.1)

/-- **whole runs.** The records logged by the sends are the same on both sides; those of `start()` stay
    below them. -/
theorem run_agree_core (hu : NoCoroutine u) (hb : StartBlind m u) (evs : List Ev)
    (hc : CutFree m u evs) (hf : NoFail m u evs) (k : Nat) :
    Agrees (SplitAt (asyncStart m u {}).trace (syncStart m u {}).trace)
      ((evs.take k).foldl (cmd .async m u) (asyncStart m u {}))
      ((evs.take k).foldl (cmd .sync m u) (syncStart m u {})) ∧
    ((evs.take k).foldl (cmd .sync m u) (syncStart m u {})).err = none ∧
    ((evs.take k).foldl (cmd .sync m u) (syncStart m u {})).queue = [] := by
  have h0 := (start_agree_core hu hb evs hc hf).retrace
    (T' := SplitAt (asyncStart m u {}).trace (syncStart m u {}).trace) ⟨[], rfl, rfl⟩
  exact run_from (splitAt_cons _ _) hu evs _ _ h0 ((isNone_iff _).1 hf.1)
    (syncStart_queue_nil {} ((isNone_iff _).1 hf.1)) hc.2.2.1 hf.2 k

theorem cutFree_of_shortChains (hu : NoCoroutine u) (hb : StartBlind m u) (evs : List Ev)
    (hs : ShortChains m u evs) (hf : NoFail m u evs) : CutFree m u evs := by
  obtain ⟨s1, s2⟩ := hs
  obtain ⟨f1, f2⟩ := hf
  have f1' : (syncStart m u {}).err = none := (isNone_iff _).1 f1
  obtain ⟨c1, c2⟩ := start_cutFree_of_short hu hb (Sim.refl (trRel_refl_startTag m) {}) rfl s1
  have hnh : (asyncStart m u {}).status ≠ "HANG" :=
    start_noHang_of_short hu hb (Sim.refl (trRel_refl_startTag m) {}) rfl s1 f1'
  have h0 : Agrees (TrRel (StartTag m)) (asyncStart m u {}) (syncStart m u {}) :=
    start_sim hu hb (Sim.refl (trRel_refl_startTag m) {}) hnh c1 c2 f1'
  exact ⟨c1, c2, cutFreeFrom_of_short (startT_cons m) hu evs _ _ h0
    (fun hr => asyncStart_quiet m u {} rfl hr) s2 f2, hnh⟩

end whole

end XSM.Bisim
