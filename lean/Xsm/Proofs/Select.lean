import Xsm.Proofs.SelSound
/-
Helper lemmas for C02 (transition selection): `firstMaxBy`, the stable sort, the de-duplicating
accumulation, a pure specification of the upward walk (`chainSpec`) relative to a guard oracle,
the per-leaf eligible lists (`eligLoop`) and the executed sub-list (`firedOf`).
-/
namespace XSM

-- ---------------------------------------------------------------------------------------------
-- firstMaxBy
-- ---------------------------------------------------------------------------------------------

/-- the fold inside `firstMaxBy` -/
def fmFold (f : Cand → Nat) (b : Cand) (ys : List Cand) : Cand :=
  ys.foldl (fun best y => if f y > f best then y else best) b

theorem firstMaxBy_cons (f : Cand → Nat) (x : Cand) (xs : List Cand) :
    firstMaxBy f (x :: xs) = some (fmFold f x xs) := rfl

theorem fmFold_cons (f : Cand → Nat) (b y : Cand) (ys : List Cand) :
    fmFold f b (y :: ys) = fmFold f (if f y > f b then y else b) ys := rfl

/-- nothing later is strictly bigger: the start value survives -/
theorem fmFold_keep (f : Cand → Nat) : ∀ (ys : List Cand) (b : Cand),
    (∀ y ∈ ys, f y ≤ f b) → fmFold f b ys = b := by
  intro ys
  induction ys with
  | nil => intro b _; rfl
  | cons y ys ih =>
    intro b h
    have hy : ¬ f y > f b := Nat.not_lt.2 (h y (by simp))
    rw [fmFold_cons, if_neg hy]
    exact ih b (fun z hz => h z (List.mem_cons_of_mem _ hz))

/-- shape of the fold result: either the start value (and nothing is bigger) or the first strict
    improvement that is never strictly improved again -/
theorem fmFold_shape (f : Cand → Nat) : ∀ (ys : List Cand) (b : Cand),
    (fmFold f b ys = b ∧ ∀ y ∈ ys, f y ≤ f b) ∨
    (∃ pre post, ys = pre ++ fmFold f b ys :: post ∧ f b < f (fmFold f b ys) ∧
      (∀ x ∈ pre, f x < f (fmFold f b ys)) ∧ (∀ x ∈ post, f x ≤ f (fmFold f b ys))) := by
  intro ys
  induction ys with
  | nil => intro b; left; exact ⟨rfl, by simp⟩
  | cons y ys ih =>
    intro b
    rw [fmFold_cons]
    by_cases hgt : f y > f b
    · rw [if_pos hgt]
      right
      rcases ih y with ⟨h1, h2⟩ | ⟨pre, post, h1, h2, h3, h4⟩
      · refine ⟨[], ys, ?_, ?_, by simp, ?_⟩
        · rw [h1]; rfl
        · rw [h1]; exact hgt
        · rw [h1]; exact h2
      · refine ⟨y :: pre, post, ?_, Nat.lt_trans hgt h2, ?_, h4⟩
        · rw [List.cons_append, ← h1]
        · intro x hx
          rcases List.mem_cons.1 hx with rfl | hx
          · exact h2
          · exact h3 x hx
    · rw [if_neg hgt]
      rcases ih b with ⟨h1, h2⟩ | ⟨pre, post, h1, h2, h3, h4⟩
      · left
        refine ⟨h1, ?_⟩
        intro z hz
        rcases List.mem_cons.1 hz with rfl | hz
        · exact Nat.not_lt.1 hgt
        · exact h2 z hz
      · right
        refine ⟨y :: pre, post, ?_, h2, ?_, h4⟩
        · rw [List.cons_append, ← h1]
        · intro x hx
          rcases List.mem_cons.1 hx with rfl | hx
          · exact Nat.lt_of_le_of_lt (Nat.not_lt.1 hgt) h2
          · exact h3 x hx

theorem fmFold_mem (f : Cand → Nat) (ys : List Cand) (b : Cand) :
    fmFold f b ys = b ∨ fmFold f b ys ∈ ys := by
  rcases fmFold_shape f ys b with ⟨h, _⟩ | ⟨pre, post, h, _⟩
  · exact Or.inl h
  · right
    have : fmFold f b ys ∈ pre ++ fmFold f b ys :: post := by simp
    rw [← h] at this; exact this

theorem firstMaxBy_eq_none (f : Cand → Nat) (l : List Cand) : firstMaxBy f l = none ↔ l = [] := by
  cases l <;> simp [firstMaxBy]

/-- **`firstMaxBy` is "first element attaining the maximum"**: everything before the winner is
    strictly smaller, everything after is not bigger. -/
theorem firstMaxBy_spec (f : Cand → Nat) (l : List Cand) (w : Cand) :
    firstMaxBy f l = some w ↔
      ∃ pre post, l = pre ++ w :: post ∧ (∀ x ∈ pre, f x < f w) ∧ (∀ x ∈ post, f x ≤ f w) := by
  constructor
  · intro h
    cases l with
    | nil => simp [firstMaxBy] at h
    | cons x xs =>
      rw [firstMaxBy_cons, Option.some.injEq] at h
      rcases fmFold_shape f xs x with ⟨h1, h2⟩ | ⟨pre, post, h1, h2, h3, h4⟩
      · rw [h] at h1; subst h1
        exact ⟨[], xs, rfl, by simp, h2⟩
      · rw [h] at h1 h2 h3 h4
        refine ⟨x :: pre, post, by rw [List.cons_append, ← h1], ?_, h4⟩
        intro y hy
        rcases List.mem_cons.1 hy with rfl | hy
        · exact h2
        · exact h3 y hy
  · rintro ⟨pre, post, rfl, h1, h2⟩
    cases pre with
    | nil =>
      rw [List.nil_append, firstMaxBy_cons, fmFold_keep f post w h2]
    | cons x pre =>
      rw [List.cons_append, firstMaxBy_cons]
      unfold fmFold
      rw [List.foldl_append]
      have hb : f (fmFold f x pre) < f w := by
        rcases fmFold_mem f pre x with h | h
        · rw [h]; exact h1 x (by simp)
        · exact h1 _ (List.mem_cons_of_mem _ h)
      show some (fmFold f (fmFold f x pre) (w :: post)) = some w
      rw [fmFold_cons, if_pos hb, fmFold_keep f post w h2]

theorem firstMaxBy_max (f : Cand → Nat) (l : List Cand) (w : Cand) (h : firstMaxBy f l = some w) :
    w ∈ l ∧ ∀ x ∈ l, f x ≤ f w := by
  obtain ⟨pre, post, rfl, h1, h2⟩ := (firstMaxBy_spec f l w).1 h
  refine ⟨by simp, ?_⟩
  intro x hx
  simp only [List.mem_append, List.mem_cons] at hx
  rcases hx with hx | rfl | hx
  · exact Nat.le_of_lt (h1 x hx)
  · exact Nat.le_refl _
  · exact h2 x hx

/-- on a list whose keys never increase the first maximum is the head -/
theorem firstMaxBy_head_of_antitone (f : Cand → Nat) (l : List Cand)
    (h : l.Pairwise (fun a b => f b ≤ f a)) : firstMaxBy f l = l.head? := by
  cases l with
  | nil => rfl
  | cons x xs =>
    rw [firstMaxBy_cons, List.head?_cons, fmFold_keep f xs x (fun y hy => List.rel_of_pairwise_cons h hy)]

-- ---------------------------------------------------------------------------------------------
-- sortBy with a numeric key, descending: permutation, sorted, stable
-- ---------------------------------------------------------------------------------------------

theorem insertBy_perm {α} (le : α → α → Bool) (x : α) : ∀ ys : List α, (insertBy le x ys).Perm (x :: ys) := by
  intro ys
  induction ys with
  | nil => exact List.Perm.refl _
  | cons y ys ih =>
    simp only [insertBy]
    split
    · exact List.Perm.refl _
    · exact (List.Perm.cons y ih).trans (List.Perm.swap x y ys)

theorem sortBy_cons {α} (le : α → α → Bool) (x : α) (xs : List α) :
    sortBy le (x :: xs) = insertBy le x (sortBy le xs) := rfl

theorem sortBy_perm {α} (le : α → α → Bool) : ∀ xs : List α, (sortBy le xs).Perm xs := by
  intro xs
  induction xs with
  | nil => exact List.Perm.refl _
  | cons x xs ih =>
    rw [sortBy_cons]
    exact (insertBy_perm le x _).trans (List.Perm.cons x ih)

theorem sortBy_eq_nil {α} (le : α → α → Bool) (xs : List α) : sortBy le xs = [] ↔ xs = [] := by
  constructor
  · intro h
    have := sortBy_perm le xs
    rw [h] at this
    exact List.Perm.eq_nil this.symm
  · rintro rfl; rfl

theorem sortBy_length {α} (le : α → α → Bool) (xs : List α) : (sortBy le xs).length = xs.length :=
  (sortBy_perm le xs).length_eq

section keyed
variable {α : Type} (key : α → Nat)

/-- the comparison used by `selectTransitions` (descending key) -/
def geKey : α → α → Bool := fun a b => decide (key a ≥ key b)

theorem insertBy_sorted (x : α) : ∀ ys : List α, ys.Pairwise (fun a b => key b ≤ key a) →
    (insertBy (geKey key) x ys).Pairwise (fun a b => key b ≤ key a) := by
  intro ys
  induction ys with
  | nil => intro _; simp [insertBy]
  | cons y ys ih =>
    intro h
    simp only [insertBy]
    split
    · rename_i hle
      have hxy : key y ≤ key x := by simpa [geKey] using hle
      refine List.Pairwise.cons ?_ h
      intro z hz
      rcases List.mem_cons.1 hz with rfl | hz
      · exact hxy
      · exact Nat.le_trans (List.rel_of_pairwise_cons h hz) hxy
    · rename_i hle
      have hxy : key x ≤ key y := by
        have : ¬ key y ≤ key x := by simpa [geKey] using hle
        exact Nat.le_of_lt (Nat.not_le.1 this)
      refine List.Pairwise.cons ?_ (ih (List.Pairwise.of_cons h))
      intro z hz
      rcases (mem_insertBy _ x z ys).1 hz with rfl | hz
      · exact hxy
      · exact List.rel_of_pairwise_cons h hz

theorem sortBy_sorted (xs : List α) : (sortBy (geKey key) xs).Pairwise (fun a b => key b ≤ key a) := by
  induction xs with
  | nil => exact List.Pairwise.nil
  | cons x xs ih => rw [sortBy_cons]; exact insertBy_sorted key x _ ih

/-- insertion goes after every element with a strictly bigger key and before every other one, so
    among elements of equal key the new one comes first -/
theorem insertBy_filter (k : Nat) (x : α) : ∀ ys : List α,
    (insertBy (geKey key) x ys).filter (fun a => key a = k) =
      (if key x = k then [x] else []) ++ ys.filter (fun a => key a = k) := by
  intro ys
  induction ys with
  | nil => simp only [insertBy, List.filter_cons, List.filter_nil]; split <;> simp_all
  | cons y ys ih =>
    simp only [insertBy]
    split
    · simp only [List.filter_cons]; split <;> simp_all
    · rename_i hle
      have hlt : key x < key y := by
        have : ¬ key y ≤ key x := by simpa [geKey] using hle
        exact Nat.not_le.1 this
      rw [List.filter_cons, ih]
      by_cases hx : key x = k
      · have hy : ¬ key y = k := by omega
        simp [hx, hy]
      · simp [hx, List.filter_cons]

/-- **stability**: elements of equal key keep their relative order -/
theorem sortBy_stable (k : Nat) (xs : List α) :
    (sortBy (geKey key) xs).filter (fun a => key a = k) = xs.filter (fun a => key a = k) := by
  induction xs with
  | nil => rfl
  | cons x xs ih =>
    rw [sortBy_cons, insertBy_filter, ih, List.filter_cons]
    split <;> simp_all
end keyed

-- ---------------------------------------------------------------------------------------------
-- de-duplication by transition identity, keeping the first (Python: `seen`)
-- ---------------------------------------------------------------------------------------------

/-- what `selectLoop` does with its accumulator when it is handed the winners one by one -/
def dedupAppend (acc : List Cand) (ws : List Cand) : List Cand :=
  ws.foldl (fun acc w => if acc.any (fun x => x.t.tid = w.t.tid) then acc else acc ++ [w]) acc

/-- the same with an explicit `seen` set of transition identities -/
def dedupSeen : List Nat → List Cand → List Cand
  | _, [] => []
  | seen, w :: ws =>
    if seen.contains w.t.tid then dedupSeen seen ws else w :: dedupSeen (seen ++ [w.t.tid]) ws

theorem any_tid_eq_contains (acc : List Cand) (n : Nat) :
    acc.any (fun x => x.t.tid = n) = (acc.map (·.t.tid)).contains n := by
  induction acc with
  | nil => rfl
  | cons a acc ih =>
    simp only [List.any_cons, List.map_cons, List.contains_cons, ih]
    congr 1
    by_cases h : a.t.tid = n
    · subst h; simp
    · have h' : ¬ n = a.t.tid := fun e => h e.symm
      simp [h, h']

theorem dedupAppend_eq : ∀ (ws acc : List Cand),
    dedupAppend acc ws = acc ++ dedupSeen (acc.map (·.t.tid)) ws := by
  intro ws
  induction ws with
  | nil => intro acc; simp [dedupAppend, dedupSeen]
  | cons w ws ih =>
    intro acc
    have hstep : dedupAppend acc (w :: ws) =
        dedupAppend (if acc.any (fun x => x.t.tid = w.t.tid) then acc else acc ++ [w]) ws := rfl
    rw [hstep, any_tid_eq_contains]
    simp only [dedupSeen]
    split
    · exact ih acc
    · rw [ih (acc ++ [w])]; simp

theorem mem_dedupSeen : ∀ (ws : List Cand) (seen : List Nat) (x : Cand),
    x ∈ dedupSeen seen ws → x ∈ ws ∧ x.t.tid ∉ seen := by
  intro ws
  induction ws with
  | nil => intro seen x h; simp [dedupSeen] at h
  | cons w ws ih =>
    intro seen x h
    simp only [dedupSeen] at h
    split at h
    · obtain ⟨h1, h2⟩ := ih seen x h
      exact ⟨List.mem_cons_of_mem _ h1, h2⟩
    · rename_i hc
      rcases List.mem_cons.1 h with rfl | h
      · exact ⟨by simp, by simpa using hc⟩
      · obtain ⟨h1, h2⟩ := ih _ x h
        exact ⟨List.mem_cons_of_mem _ h1, fun hm => h2 (List.mem_append_left _ hm)⟩

/-- the result is a sub-list: order of first occurrences is kept -/
theorem dedupSeen_sublist : ∀ (ws : List Cand) (seen : List Nat), (dedupSeen seen ws).Sublist ws := by
  intro ws
  induction ws with
  | nil => intro seen; simp [dedupSeen]
  | cons w ws ih =>
    intro seen
    simp only [dedupSeen]
    split
    · exact (ih seen).cons _
    · exact (ih _).cons_cons _

/-- no identity occurs twice -/
theorem dedupSeen_nodup : ∀ (ws : List Cand) (seen : List Nat),
    (dedupSeen seen ws).Pairwise (fun a b => a.t.tid ≠ b.t.tid) := by
  intro ws
  induction ws with
  | nil => intro seen; simp [dedupSeen]
  | cons w ws ih =>
    intro seen
    simp only [dedupSeen]
    split
    · exact ih seen
    · refine List.Pairwise.cons ?_ (ih _)
      intro x hx heq
      exact (mem_dedupSeen ws _ x hx).2 (by rw [← heq]; simp)

/-- every identity not already seen survives -/
theorem dedupSeen_cover : ∀ (ws : List Cand) (seen : List Nat) (w : Cand), w ∈ ws →
    w.t.tid ∈ seen ∨ ∃ x ∈ dedupSeen seen ws, x.t.tid = w.t.tid := by
  intro ws
  induction ws with
  | nil => intro seen w h; simp at h
  | cons v ws ih =>
    intro seen w h
    simp only [dedupSeen]
    rcases List.mem_cons.1 h with rfl | h
    · split
      · rename_i hc; left; simpa using hc
      · right; exact ⟨w, by simp, rfl⟩
    · split
      · exact ih seen w h
      · rcases ih (seen ++ [v.t.tid]) w h with h1 | ⟨x, hx, hxe⟩
        · rcases List.mem_append.1 h1 with h1 | h1
          · exact Or.inl h1
          · right; exact ⟨v, by simp, (List.mem_singleton.1 h1).symm⟩
        · right; exact ⟨x, List.mem_cons_of_mem _ hx, hxe⟩

theorem dedupSeen_nil_eq_nil (ws : List Cand) : dedupSeen [] ws = [] ↔ ws = [] := by
  cases ws with
  | nil => simp [dedupSeen]
  | cons w ws => simp [dedupSeen]

/-- in a list without repeated identities an identity that occurs, occurs exactly once -/
theorem countP_tid_eq_one : ∀ (l : List Cand), l.Pairwise (fun a b => a.t.tid ≠ b.t.tid) →
    ∀ x ∈ l, l.countP (fun y => y.t.tid = x.t.tid) = 1 := by
  intro l
  induction l with
  | nil => intro _ x hx; simp at hx
  | cons a l ih =>
    intro hp x hx
    have hal : ∀ y ∈ l, a.t.tid ≠ y.t.tid := fun y hy => List.rel_of_pairwise_cons hp hy
    by_cases hax : a.t.tid = x.t.tid
    · have hz : l.countP (fun y => y.t.tid = x.t.tid) = 0 := by
        rw [List.countP_eq_zero]
        intro y hy
        have := hal y hy
        simp only [decide_eq_true_eq]
        omega
      rw [List.countP_cons, hz]; simp [hax]
    · have hxl : x ∈ l := by
        rcases List.mem_cons.1 hx with rfl | h
        · exact absurd rfl hax
        · exact h
      rw [List.countP_cons, ih (List.Pairwise.of_cons hp) x hxl]; simp [hax]

-- ---------------------------------------------------------------------------------------------
-- a pure specification of the upward walk, relative to a guard oracle
-- ---------------------------------------------------------------------------------------------

/-- the transition list stored under one `on` key -/
def lookupOn (d : StateDef) (key : String) : List Trans :=
  ((d.on.find? (fun kv => kv.1 = key)).map (·.2)).getD []

/-- the transitions of `ts` whose guard passes (oracle `g`), in order, as candidates of `src` -/
def enabledAt (g : Trans → Bool) (src : Path) (ts : List Trans) : List Cand :=
  (ts.filter g).map (fun t => { src := src, t := t })

theorem enabledAt_cons (g : Trans → Bool) (src : Path) (t : Trans) (ts : List Trans) :
    enabledAt g src (t :: ts) = (if g t then [{ src := src, t := t }] else []) ++ enabledAt g src ts := by
  simp only [enabledAt, List.filter_cons]
  cases g t <;> simp

theorem enabledAt_append (g : Trans → Bool) (src : Path) (a b : List Trans) :
    enabledAt g src (a ++ b) = enabledAt g src a ++ enabledAt g src b := by
  simp [enabledAt]

theorem enabledAt_src {g : Trans → Bool} {src : Path} {ts : List Trans} {c : Cand}
    (h : c ∈ enabledAt g src ts) : c.src = src ∧ c.t ∈ ts ∧ g c.t = true := by
  simp only [enabledAt, List.mem_map, List.mem_filter] at h
  obtain ⟨t, ⟨h1, h2⟩, rfl⟩ := h
  exact ⟨rfl, h1, h2⟩

/-- the cache agrees with the oracle on the transitions in `T` -/
def Agree (g : Trans → Bool) (T : Trans → Prop) (c : GCache) : Prop :=
  ∀ t, T t → ∀ kv, c.find? (fun kv => kv.1 = t.tid) = some kv → kv.2 = g t

theorem agree_nil (g : Trans → Bool) (T : Trans → Prop) : Agree g T [] := by
  intro t _ kv h; simp at h

/-- `g` tells the guard result of every transition in `T`, and transitions in `T` with the same
    identity get the same answer (so a cache keyed by identity cannot lie) -/
structure OracleOK (m : Machine) (cfg : List Path) (env : GEnv) (T : Trans → Prop) (g : Trans → Bool) :
    Prop where
  guard : ∀ t, T t → ∀ b, guardOk m cfg env t.guard = .ok b → b = g t
  tid : ∀ t t', T t → T t' → t.tid = t'.tid → g t = g t'

section oracle
variable {m : Machine} {cfg : List Path} {env : GEnv} {T : Trans → Prop} {g : Trans → Bool}

theorem passes_spec (ho : OracleOK m cfg env T g) {c : GCache} {t : Trans} (hT : T t)
    (ha : Agree g T c) {b : Bool} {c1 : GCache} (h : passes m cfg env c t = .ok (b, c1)) :
    b = g t ∧ Agree g T c1 := by
  unfold passes at h
  cases hf : c.find? (fun kv => kv.1 = t.tid) with
  | some kv =>
    obtain ⟨k, b'⟩ := kv
    simp only [hf, pure, Except.pure, Except.ok.injEq, Prod.mk.injEq] at h
    obtain ⟨rfl, rfl⟩ := h
    exact ⟨ha t hT _ hf, ha⟩
  | none =>
    simp only [hf, bind, Except.bind] at h
    cases hg : guardOk m cfg env t.guard with
    | error e => simp [hg] at h
    | ok b' =>
      simp only [hg, pure, Except.pure, Except.ok.injEq, Prod.mk.injEq] at h
      obtain ⟨rfl, rfl⟩ := h
      have hb := ho.guard t hT _ hg
      refine ⟨hb, ?_⟩
      intro t' hT' kv hkv
      rw [List.find?_append] at hkv
      cases hf' : c.find? (fun kv => kv.1 = t'.tid) with
      | some kv' =>
        rw [hf'] at hkv
        simp only [Option.some_or, Option.some.injEq] at hkv
        subst hkv
        exact ha t' hT' _ hf'
      | none =>
        rw [hf'] at hkv
        simp only [Option.none_or, List.find?_cons, List.find?_nil] at hkv
        split at hkv
        · rename_i heq
          simp only [Option.some.injEq] at hkv
          subst hkv
          have : t.tid = t'.tid := by simpa using heq
          show b' = g t'
          rw [hb]; exact ho.tid t t' hT hT' this
        · simp at hkv

theorem filterPassing_spec (ho : OracleOK m cfg env T g) (src : Path) :
    ∀ (ts : List Trans) (c0 : GCache) (out : List Cand) (c1 : GCache), (∀ t ∈ ts, T t) → Agree g T c0 →
      filterPassing m cfg env src ts c0 = .ok (out, c1) → out = enabledAt g src ts ∧ Agree g T c1 := by
  intro ts
  induction ts with
  | nil =>
    intro c0 out c1 _ ha h
    simp only [filterPassing, pure, Except.pure, Except.ok.injEq, Prod.mk.injEq] at h
    obtain ⟨rfl, rfl⟩ := h
    exact ⟨rfl, ha⟩
  | cons t ts ih =>
    intro c0 out c1 hT ha h
    simp only [filterPassing, bind, Except.bind] at h
    cases hp : passes m cfg env c0 t with
    | error e => simp [hp] at h
    | ok r =>
      obtain ⟨b, c0'⟩ := r
      simp only [hp] at h
      obtain ⟨hb, ha'⟩ := passes_spec ho (hT t (by simp)) ha hp
      cases hr : filterPassing m cfg env src ts c0' with
      | error e => simp [hr] at h
      | ok r2 =>
        obtain ⟨rest, c2⟩ := r2
        simp only [hr, pure, Except.pure, Except.ok.injEq, Prod.mk.injEq] at h
        obtain ⟨rfl, rfl⟩ := h
        obtain ⟨h1, h2⟩ := ih c0' rest c2 (fun t' ht' => hT t' (List.mem_cons_of_mem _ ht')) ha' hr
        refine ⟨?_, h2⟩
        rw [enabledAt_cons, h1, hb]

/-- one key's list: candidates in declaration order up to the first forbidden transition, and
    whether one was met -/
def walkSpec (g : Trans → Bool) (src : Path) : List Trans → List Cand × Bool
  | [] => ([], false)
  | t :: rest =>
    if t.forbidden then ([], true)
    else ((if g t then [{ src := src, t := t }] else []) ++ (walkSpec g src rest).1, (walkSpec g src rest).2)

theorem walkSpec_append (g : Trans → Bool) (src : Path) (a b : List Trans) :
    walkSpec g src (a ++ b) =
      if (walkSpec g src a).2 then walkSpec g src a
      else ((walkSpec g src a).1 ++ (walkSpec g src b).1, (walkSpec g src b).2) := by
  induction a with
  | nil => simp [walkSpec]
  | cons t a ih =>
    simp only [List.cons_append, walkSpec]
    by_cases hf : t.forbidden = true
    · simp [hf]
    · simp only [hf, if_false, Bool.false_eq_true]
      rw [ih]
      by_cases hb : (walkSpec g src a).2 = true
      · simp [hb]
      · simp [hb]

/-- declarative reading of `walkSpec` -/
theorem walkSpec_eq (g : Trans → Bool) (src : Path) (ts : List Trans) :
    walkSpec g src ts =
      (enabledAt g src (ts.takeWhile (fun t => !t.forbidden)), ts.any (fun t => t.forbidden)) := by
  induction ts with
  | nil => rfl
  | cons t ts ih =>
    simp only [walkSpec, List.takeWhile_cons, List.any_cons]
    by_cases hf : t.forbidden = true
    · simp [hf, enabledAt]
    · simp only [hf, if_false, Bool.false_eq_true] at *
      simp only [Bool.not_false, if_true, Bool.false_or, enabledAt_cons, ih]

theorem walkSpec_src {g : Trans → Bool} {src : Path} {ts : List Trans} {c : Cand}
    (h : c ∈ (walkSpec g src ts).1) : c.src = src ∧ c.t ∈ ts ∧ g c.t = true := by
  rw [walkSpec_eq] at h
  obtain ⟨h1, h2, h3⟩ := enabledAt_src h
  exact ⟨h1, (List.takeWhile_sublist _).subset h2, h3⟩

theorem walk_spec (ho : OracleOK m cfg env T g) (src : Path) :
    ∀ (ts : List Trans) (c0 : GCache) (out : List Cand) (blk : Bool) (c1 : GCache),
      (∀ t ∈ ts, T t) → Agree g T c0 → onCands.walk m cfg env src ts c0 = .ok (out, blk, c1) →
        (out, blk) = walkSpec g src ts ∧ Agree g T c1 := by
  intro ts
  induction ts with
  | nil =>
    intro c0 out blk c1 _ ha h
    simp only [onCands.walk, pure, Except.pure, Except.ok.injEq, Prod.mk.injEq] at h
    obtain ⟨rfl, rfl, rfl⟩ := h
    exact ⟨rfl, ha⟩
  | cons t ts ih =>
    intro c0 out blk c1 hT ha h
    simp only [onCands.walk] at h
    split at h
    · rename_i hf
      simp only [pure, Except.pure, Except.ok.injEq, Prod.mk.injEq] at h
      obtain ⟨rfl, rfl, rfl⟩ := h
      exact ⟨by simp [walkSpec, hf], ha⟩
    · rename_i hf
      simp only [bind, Except.bind] at h
      cases hp : passes m cfg env c0 t with
      | error e => simp [hp] at h
      | ok r =>
        obtain ⟨b, c0'⟩ := r
        simp only [hp] at h
        obtain ⟨hb, ha'⟩ := passes_spec ho (hT t (by simp)) ha hp
        cases hr : onCands.walk m cfg env src ts c0' with
        | error e => simp [hr] at h
        | ok r2 =>
          obtain ⟨more, blk2, c2⟩ := r2
          simp only [hr, pure, Except.pure, Except.ok.injEq, Prod.mk.injEq] at h
          obtain ⟨rfl, rfl, rfl⟩ := h
          obtain ⟨h1, h2⟩ := ih c0' more blk2 c2 (fun t' ht' => hT t' (List.mem_cons_of_mem _ ht')) ha' hr
          refine ⟨?_, h2⟩
          simp only [walkSpec, hf, if_false, Bool.false_eq_true, ← h1, hb]

/-- the `on` transitions consulted at a state for an event, most specific descriptor first -/
def onTrans (d : StateDef) (keys : List String) : List Trans := keys.flatMap (lookupOn d)

theorem onTrans_sub (d : StateDef) (keys : List String) : ∀ t ∈ onTrans d keys, t ∈ d.on.flatMap (·.2) := by
  intro t ht
  simp only [onTrans, List.mem_flatMap] at ht
  obtain ⟨key, _, ht⟩ := ht
  exact find_sub_flatMap d key t ht

theorem onCands_spec (ho : OracleOK m cfg env T g) (src : Path) (d : StateDef) (ev : Ev)
    (hT : ∀ t ∈ d.on.flatMap (·.2), T t) :
    ∀ (keys : List String) (c0 : GCache) (out : List Cand) (blk : Bool) (c1 : GCache),
      Agree g T c0 → onCands m cfg env src d ev keys c0 = .ok (out, blk, c1) →
        (out, blk) = walkSpec g src (onTrans d keys) ∧ Agree g T c1 := by
  intro keys
  induction keys with
  | nil =>
    intro c0 out blk c1 ha h
    simp only [onCands, pure, Except.pure, Except.ok.injEq, Prod.mk.injEq] at h
    obtain ⟨rfl, rfl, rfl⟩ := h
    exact ⟨rfl, ha⟩
  | cons key keys ih =>
    intro c0 out blk c1 ha h
    simp only [onCands, bind, Except.bind] at h
    cases hw : onCands.walk m cfg env src
        (((d.on.find? (fun kv => kv.1 = key)).map (·.2)).getD []) c0 with
    | error e => simp [hw] at h
    | ok r =>
      obtain ⟨here, blk1, c0'⟩ := r
      simp only [hw] at h
      obtain ⟨hh, ha'⟩ := walk_spec ho src (lookupOn d key) c0 here blk1 c0'
        (fun t ht => hT t (find_sub_flatMap d key t ht)) ha hw
      have hon : onTrans d (key :: keys) = lookupOn d key ++ onTrans d keys := by
        simp [onTrans]
      rw [hon, walkSpec_append, ← hh]
      split at h
      · rename_i hb
        simp only [pure, Except.pure, Except.ok.injEq, Prod.mk.injEq] at h
        obtain ⟨rfl, rfl, rfl⟩ := h
        exact ⟨by simp [hb], ha'⟩
      · rename_i hb
        cases hr : onCands m cfg env src d ev keys c0' with
        | error e => simp [hr] at h
        | ok r2 =>
          obtain ⟨more, blk2, c2⟩ := r2
          simp only [hr, pure, Except.pure, Except.ok.injEq, Prod.mk.injEq] at h
          obtain ⟨rfl, rfl, rfl⟩ := h
          obtain ⟨h1, h2⟩ := ih c0' more blk2 c2 ha' hr
          refine ⟨?_, h2⟩
          simp only [hb, if_false, Bool.false_eq_true, ← h1]

/-- a producer, started on a cache that agrees with the oracle, yields exactly `l` and leaves a
    cache that still agrees -/
def ProdSpec (g : Trans → Bool) (T : Trans → Prop) (a : CProd) (l : List Cand) : Prop :=
  ∀ c0 out c1, Agree g T c0 → a c0 = .ok (out, c1) → out = l ∧ Agree g T c1

theorem cNone_spec : ProdSpec g T cNone [] := by
  intro c0 out c1 ha h
  simp only [cNone, Except.ok.injEq, Prod.mk.injEq] at h
  obtain ⟨rfl, rfl⟩ := h
  exact ⟨rfl, ha⟩

theorem seqC_spec {a b : CProd} {la lb : List Cand} (ha : ProdSpec g T a la) (hb : ProdSpec g T b lb) :
    ProdSpec g T (seqC a b) (la ++ lb) := by
  intro c0 out c1 hag h
  simp only [seqC] at h
  cases hx : a c0 with
  | error e => simp [hx] at h
  | ok r =>
    obtain ⟨xs, c'⟩ := r
    simp only [hx] at h
    obtain ⟨rfl, hag'⟩ := ha c0 xs c' hag hx
    cases hy : b c' with
    | error e => simp [hy] at h
    | ok r2 =>
      obtain ⟨ys, c''⟩ := r2
      simp only [hy, Except.ok.injEq, Prod.mk.injEq] at h
      obtain ⟨rfl, rfl⟩ := h
      obtain ⟨rfl, hag''⟩ := hb c' ys c'' hag' hy
      exact ⟨rfl, hag''⟩

theorem filterPassing_prodSpec (ho : OracleOK m cfg env T g) (src : Path) (ts : List Trans)
    (hT : ∀ t ∈ ts, T t) : ProdSpec g T (filterPassing m cfg env src ts) (enabledAt g src ts) :=
  fun c0 out c1 ha h => filterPassing_spec ho src ts c0 out c1 hT ha h

/-- the transitions of the non-`on` buckets consulted at a state, in the order they are tried:
    eventless (only for an ordinary event), `onDone`, `after`, invoke handlers -/
def bucketTrans (d : StateDef) (ev : Ev) (isTransientCheck : Bool) : List Trans :=
  (if isTransientCheck then lookupOn d "" else []) ++
  ((match d.onDone with
    | some t => if t.event = ev.type then [t] else []
    | none => []) ++
  ((match ev with
    | .after _ => (d.after.flatMap (·.2)).filter (fun t => t.event = ev.type)
    | _ => []) ++
  (match ev with
    | .done _ src =>
      (d.invoke.filter (fun i => i.id = src)).flatMap
        (fun i => (i.onDone ++ i.onError).filter (fun t => t.event = ev.type))
    | _ => [])))

theorem bucketTrans_sub (d : StateDef) (ev : Ev) (b : Bool) : ∀ t ∈ bucketTrans d ev b, t ∈ allTrans d := by
  intro t ht
  simp only [bucketTrans, List.mem_append] at ht
  rcases ht with ht | ht | ht | ht
  · split at ht
    · exact mem_allTrans_on (find_sub_flatMap d "" t ht)
    · simp at ht
  · split at ht
    · rename_i t' hod
      split at ht
      · simp only [List.mem_singleton] at ht
        subst ht
        simp only [allTrans, List.mem_append, hod]
        exact Or.inl (Or.inl (Or.inr (by simp)))
      · simp at ht
    · simp at ht
  · split at ht
    · simp only [List.mem_filter] at ht
      simp only [allTrans, List.mem_append]
      exact Or.inl (Or.inr ht.1)
    · simp at ht
  · split at ht
    · simp only [List.mem_flatMap, List.mem_filter] at ht
      obtain ⟨i, ⟨hi, _⟩, ht2, _⟩ := ht
      simp only [allTrans, List.mem_append]
      exact Or.inr (List.mem_flatMap.2 ⟨i, hi, ht2⟩)
    · simp at ht

theorem nodeBuckets_spec (ho : OracleOK m cfg env T g) (cur : Path) (d : StateDef) (ev : Ev) (b : Bool)
    (hT : ∀ t ∈ allTrans d, T t) :
    ProdSpec g T (nodeBuckets m cfg env cur d ev b) (enabledAt g cur (bucketTrans d ev b)) := by
  unfold bucketTrans
  simp only [enabledAt_append]
  unfold nodeBuckets
  simp only
  refine seqC_spec ?_ (seqC_spec ?_ (seqC_spec ?_ ?_))
  · cases b
    · exact cNone_spec
    · exact filterPassing_prodSpec ho _ _
        (fun t ht => hT t (mem_allTrans_on (find_sub_flatMap d "" t ht)))
  · cases hod : d.onDone with
    | none => exact cNone_spec
    | some t =>
      dsimp only
      by_cases he : t.event = ev.type
      · simp only [he, if_true]
        apply filterPassing_prodSpec ho
        intro t' ht'
        simp only [List.mem_singleton] at ht'
        subst ht'
        apply hT
        simp only [allTrans, List.mem_append, hod]
        exact Or.inl (Or.inl (Or.inr (by simp)))
      · simp only [he, if_false]
        exact cNone_spec
  · cases ev with
    | after ty =>
      apply filterPassing_prodSpec ho
      intro t ht
      simp only [List.mem_filter] at ht
      apply hT
      simp only [allTrans, List.mem_append]
      exact Or.inl (Or.inr ht.1)
    | user ty => exact cNone_spec
    | done ty src => exact cNone_spec
  · cases ev with
    | done ty src =>
      apply filterPassing_prodSpec ho
      intro t ht
      simp only [List.mem_flatMap, List.mem_filter] at ht
      obtain ⟨i, ⟨hi, _⟩, ht2, _⟩ := ht
      apply hT
      simp only [allTrans, List.mem_append]
      exact Or.inr (List.mem_flatMap.2 ⟨i, hi, ht2⟩)
    | user ty => exact cNone_spec
    | after ty => exact cNone_spec

/-- the `on` part of one state: nothing for the explicit eventless event, otherwise the matching
    descriptors' lists walked in order up to the first forbidden transition -/
def onPart (g : Trans → Bool) (cur : Path) (d : StateDef) (ev : Ev) (iet : Bool) : List Cand × Bool :=
  if iet then ([], false)
  else walkSpec g cur (onTrans d (matchingDescriptors (d.on.map (·.1)) ev.type))

/-- what one state on the chain contributes, and whether the upward walk stops there: its `on`
    candidates, then — unless a forbidden transition blocked — the eventless / `onDone` / `after` /
    invoke buckets -/
def nodeSpec (g : Trans → Bool) (m : Machine) (ev : Ev) (itc iet : Bool) (cur : Path) : List Cand × Bool :=
  match m.defAt cur with
  | none => ([], true)
  | some d =>
    if (onPart g cur d ev iet).2 then ((onPart g cur d ev iet).1, true)
    else ((onPart g cur d ev iet).1 ++ enabledAt g cur (bucketTrans d ev itc), false)

theorem nodeSpec_none {g : Trans → Bool} {m : Machine} {ev : Ev} {itc iet : Bool} {cur : Path}
    (hd : m.defAt cur = none) : nodeSpec g m ev itc iet cur = ([], true) := by
  simp only [nodeSpec, hd]

theorem nodeSpec_some {g : Trans → Bool} {m : Machine} {ev : Ev} {itc iet : Bool} {cur : Path} {d : StateDef}
    (hd : m.defAt cur = some d) : nodeSpec g m ev itc iet cur =
      if (onPart g cur d ev iet).2 then ((onPart g cur d ev iet).1, true)
      else ((onPart g cur d ev iet).1 ++ enabledAt g cur (bucketTrans d ev itc), false) := by
  simp only [nodeSpec, hd]

/-- the eligible list of the walk along `chain`: node contributions concatenated from the leaf upward,
    stopping after a node that blocks -/
def chainSpec (g : Trans → Bool) (m : Machine) (ev : Ev) (itc iet : Bool) : List Path → List Cand
  | [] => []
  | cur :: ups =>
    if (nodeSpec g m ev itc iet cur).2 then (nodeSpec g m ev itc iet cur).1
    else (nodeSpec g m ev itc iet cur).1 ++ chainSpec g m ev itc iet ups

/-- first enabled candidate of the nearest state on the chain that has one (none above a block) -/
def nomineeSpec (g : Trans → Bool) (m : Machine) (ev : Ev) (itc iet : Bool) : List Path → Option Cand
  | [] => none
  | cur :: ups =>
    match (nodeSpec g m ev itc iet cur).1 with
    | w :: _ => some w
    | [] => if (nodeSpec g m ev itc iet cur).2 then none else nomineeSpec g m ev itc iet ups

theorem head?_chainSpec (g : Trans → Bool) (m : Machine) (ev : Ev) (itc iet : Bool) :
    ∀ chain, (chainSpec g m ev itc iet chain).head? = nomineeSpec g m ev itc iet chain := by
  intro chain
  induction chain with
  | nil => rfl
  | cons cur ups ih =>
    simp only [chainSpec, nomineeSpec]
    cases h1 : (nodeSpec g m ev itc iet cur).1 with
    | nil =>
      by_cases h2 : (nodeSpec g m ev itc iet cur).2 = true
      · simp [h2]
      · simp [h2, ih]
    | cons w ws =>
      by_cases h2 : (nodeSpec g m ev itc iet cur).2 = true
      · simp [h2]
      · simp [h2]

theorem nodeSpec_src {g : Trans → Bool} {m : Machine} {ev : Ev} {itc iet : Bool} {cur : Path} {c : Cand}
    (h : c ∈ (nodeSpec g m ev itc iet cur).1) :
    c.src = cur ∧ g c.t = true ∧ ∃ d, m.defAt cur = some d ∧ c.t ∈ allTrans d := by
  cases hd : m.defAt cur with
  | none => rw [nodeSpec_none hd] at h; simp at h
  | some d =>
    rw [nodeSpec_some hd] at h
    have key : ∀ x : Cand, x ∈ (onPart g cur d ev iet).1 →
        x.src = cur ∧ g x.t = true ∧ x.t ∈ allTrans d := by
      intro x hx
      unfold onPart at hx
      split at hx
      · simp at hx
      · obtain ⟨h1, h2, h3⟩ := walkSpec_src hx
        exact ⟨h1, h3, mem_allTrans_on (onTrans_sub d _ _ h2)⟩
    by_cases hb : (onPart g cur d ev iet).2 = true
    · simp only [hb, if_true] at h
      obtain ⟨h1, h2, h3⟩ := key c h
      exact ⟨h1, h2, d, rfl, h3⟩
    · simp only [hb, if_false, Bool.false_eq_true] at h
      rcases List.mem_append.1 h with h | h
      · obtain ⟨h1, h2, h3⟩ := key c h
        exact ⟨h1, h2, d, rfl, h3⟩
      · obtain ⟨h1, h2, h3⟩ := enabledAt_src h
        exact ⟨h1, h3, d, rfl, bucketTrans_sub d ev itc _ h2⟩

/-- **the upward walk computes `chainSpec`** (whenever it does not raise) -/
theorem collectChain_spec (ho : OracleOK m cfg env T g)
    (hcov : ∀ p d, m.defAt p = some d → ∀ t ∈ allTrans d, T t) (ev : Ev) (b1 b2 : Bool) :
    ∀ chain : List Path,
      ProdSpec g T (collectChain m cfg env ev b1 b2 chain) (chainSpec g m ev b1 b2 chain) := by
  intro chain
  induction chain with
  | nil =>
    intro c0 out c1 ha h
    simp only [collectChain, Except.ok.injEq, Prod.mk.injEq] at h
    obtain ⟨rfl, rfl⟩ := h
    exact ⟨rfl, ha⟩
  | cons cur ups ih =>
    intro c0 out c1 ha h
    simp only [collectChain] at h
    cases hd : m.defAt cur with
    | none =>
      simp only [hd, Except.ok.injEq, Prod.mk.injEq] at h
      obtain ⟨rfl, rfl⟩ := h
      exact ⟨by simp [chainSpec, nodeSpec_none hd], ha⟩
    | some d =>
      simp only [hd] at h
      simp only [chainSpec, nodeSpec_some hd]
      have hTd := hcov cur d hd
      have hon : ∀ (r : List Cand × Bool × GCache),
          (if b2 = true then (.ok ([], false, c0) : Except GErr (List Cand × Bool × GCache))
           else onCands m cfg env cur d ev (matchingDescriptors (d.on.map (·.1)) ev.type) c0) = .ok r →
          (r.1, r.2.1) = onPart g cur d ev b2 ∧ Agree g T r.2.2 := by
        intro r hr
        unfold onPart
        split at hr
        · rename_i hb2
          simp only [Except.ok.injEq] at hr; subst hr; exact ⟨by simp [hb2], ha⟩
        · rename_i hb2
          obtain ⟨o, bl, cc⟩ := r
          simp only [hb2, if_false, Bool.false_eq_true]
          exact onCands_spec ho cur d ev (fun t ht => hTd t (mem_allTrans_on ht)) _ c0 o bl cc ha hr
      cases hx : (if b2 = true then (.ok ([], false, c0) : Except GErr (List Cand × Bool × GCache))
           else onCands m cfg env cur d ev (matchingDescriptors (d.on.map (·.1)) ev.type) c0) with
      | error e => simp [hx] at h
      | ok r =>
        obtain ⟨onC, blocked, c0'⟩ := r
        simp only [hx] at h
        obtain ⟨hspec, ha'⟩ := hon _ hx
        simp only at hspec ha'
        rw [← hspec]
        simp only
        split at h
        · rename_i hb
          simp only [Except.ok.injEq, Prod.mk.injEq] at h
          obtain ⟨rfl, rfl⟩ := h
          exact ⟨by simp [hb], ha'⟩
        · rename_i hb
          cases hs : seqC (nodeBuckets m cfg env cur d ev b1) (collectChain m cfg env ev b1 b2 ups) c0' with
          | error e => simp [hs] at h
          | ok r2 =>
            obtain ⟨rest, c2⟩ := r2
            simp only [hs, Except.ok.injEq, Prod.mk.injEq] at h
            obtain ⟨rfl, rfl⟩ := h
            obtain ⟨rfl, ha''⟩ := seqC_spec (nodeBuckets_spec ho cur d ev b1 hTd) ih c0' rest c2 ha' hs
            exact ⟨by simp [hb], ha''⟩

end oracle

-- ---------------------------------------------------------------------------------------------
-- depth never increases along the eligible list (no hypothesis on the machine)
-- ---------------------------------------------------------------------------------------------

theorem chainUp_lengths (p : Path) : (chainUp p).Pairwise (fun a b => b.length ≤ a.length) := by
  simp only [chainUp, List.pairwise_map]
  refine List.Pairwise.imp ?_ (List.pairwise_lt_range (n := p.length + 1))
  intro i j hij
  simp only [List.length_take]
  omega

theorem collectChain_antitone (m : Machine) (cfg : List Path) (env : GEnv) (ev : Ev) (b1 b2 : Bool) :
    ∀ (chain : List Path) (c0 : GCache) (out : List Cand) (c1 : GCache),
      collectChain m cfg env ev b1 b2 chain c0 = .ok (out, c1) →
      chain.Pairwise (fun a b => b.length ≤ a.length) →
        out.Pairwise (fun a b => b.src.length ≤ a.src.length) := by
  intro chain
  induction chain with
  | nil =>
    intro c0 out c1 h _
    simp only [collectChain, Except.ok.injEq, Prod.mk.injEq] at h
    obtain ⟨rfl, _⟩ := h; exact List.Pairwise.nil
  | cons cur ups ih =>
    intro c0 out c1 h hch
    have hsame : ∀ l : List Cand, (∀ x ∈ l, x.src = cur) →
        l.Pairwise (fun a b => b.src.length ≤ a.src.length) := by
      intro l hl
      rw [List.pairwise_iff_forall_sublist]
      intro a b hab
      have ha := hl a (hab.subset (by simp))
      have hb := hl b (hab.subset (by simp))
      rw [ha, hb]; exact Nat.le_refl _
    simp only [collectChain] at h
    cases hd : m.defAt cur with
    | none =>
      simp only [hd, Except.ok.injEq, Prod.mk.injEq] at h
      obtain ⟨rfl, _⟩ := h; exact List.Pairwise.nil
    | some d =>
      simp only [hd] at h
      have hon : ∀ (r : List Cand × Bool × GCache),
          (if b2 = true then (.ok ([], false, c0) : Except GErr (List Cand × Bool × GCache))
           else onCands m cfg env cur d ev (matchingDescriptors (d.on.map (·.1)) ev.type) c0) = .ok r →
          ∀ x ∈ r.1, x.src = cur := by
        intro r hr x hx
        split at hr
        · simp only [Except.ok.injEq] at hr; subst hr; simp at hx
        · obtain ⟨o, bl, cc⟩ := r
          exact (onCands_sound m cfg env cur d ev _ c0 o bl cc hr x hx).1
      cases hx : (if b2 = true then (.ok ([], false, c0) : Except GErr (List Cand × Bool × GCache))
           else onCands m cfg env cur d ev (matchingDescriptors (d.on.map (·.1)) ev.type) c0) with
      | error e => simp [hx] at h
      | ok r =>
        obtain ⟨onC, blocked, c0'⟩ := r
        simp only [hx] at h
        have honC := hon _ hx
        split at h
        · simp only [Except.ok.injEq, Prod.mk.injEq] at h
          obtain ⟨rfl, _⟩ := h
          exact hsame _ honC
        · cases hs : seqC (nodeBuckets m cfg env cur d ev b1) (collectChain m cfg env ev b1 b2 ups) c0' with
          | error e => simp [hs] at h
          | ok r2 =>
            obtain ⟨rest, c2⟩ := r2
            simp only [hs, Except.ok.injEq, Prod.mk.injEq] at h
            obtain ⟨rfl, _⟩ := h
            simp only [seqC] at hs
            cases hb : nodeBuckets m cfg env cur d ev b1 c0' with
            | error e => simp [hb] at hs
            | ok rb =>
              obtain ⟨xs, cb⟩ := rb
              simp only [hb] at hs
              cases hu : collectChain m cfg env ev b1 b2 ups cb with
              | error e => simp [hu] at hs
              | ok ru =>
                obtain ⟨ys, cu⟩ := ru
                simp only [hu, Except.ok.injEq, Prod.mk.injEq] at hs
                obtain ⟨rfl, _⟩ := hs
                have hxs : ∀ x ∈ xs, x.src = cur :=
                  fun x hx' => (nodeBuckets_sound m cfg env cur d ev b1 c0' xs cb hb x hx').1
                have hys := ih cb ys cu hu (List.Pairwise.of_cons hch)
                have hup : ∀ y ∈ ys, y.src.length ≤ cur.length := by
                  intro y hy
                  have := (collectChain_sound m cfg env ev b1 b2 ups cb ys cu hu y hy).1
                  exact List.rel_of_pairwise_cons hch this
                rw [← List.append_assoc]
                rw [List.pairwise_append]
                refine ⟨hsame _ ?_, hys, ?_⟩
                · intro x hx'
                  rcases List.mem_append.1 hx' with h1 | h1
                  · exact honC x h1
                  · exact hxs x h1
                · intro a ha b hb'
                  have : a.src = cur := by
                    rcases List.mem_append.1 ha with h1 | h1
                    · exact honC a h1
                    · exact hxs a h1
                  rw [this]; exact hup b hb'

/-- **depth is non-increasing along a leaf's eligible list** -/
theorem collectEligible_antitone (m : Machine) (cfg : List Path) (env : GEnv) (leaf : Path) (ev : Ev)
    (c0 : GCache) (elig : List Cand) (c1 : GCache)
    (h : collectEligible m cfg env leaf ev c0 = .ok (elig, c1)) :
    elig.Pairwise (fun a b => b.src.length ≤ a.src.length) :=
  collectChain_antitone m cfg env ev _ _ (chainUp leaf) c0 elig c1 h (chainUp_lengths leaf)

/-- the per-leaf winner is simply the head of the eligible list -/
theorem collectEligible_winner (m : Machine) (cfg : List Path) (env : GEnv) (leaf : Path) (ev : Ev)
    (c0 : GCache) (elig : List Cand) (c1 : GCache)
    (h : collectEligible m cfg env leaf ev c0 = .ok (elig, c1)) :
    firstMaxBy (fun x => x.src.length) elig = elig.head? :=
  firstMaxBy_head_of_antitone _ _ (collectEligible_antitone m cfg env leaf ev c0 elig c1 h)

-- ---------------------------------------------------------------------------------------------
-- the selection loop = per-leaf eligible lists, then winners, then de-duplication
-- ---------------------------------------------------------------------------------------------

/-- the eligible lists of the leaves, in order, with the guard cache threaded exactly as `selectLoop`
    threads it -/
def eligLoop (m : Machine) (cfg : List Path) (env : GEnv) (ev : Ev) :
    List Path → GCache → Except GErr (List (List Cand))
  | [], _ => .ok []
  | leaf :: ls, c =>
    match collectEligible m cfg env leaf ev c with
    | .error e => .error e
    | .ok (elig, c1) =>
      match eligLoop m cfg env ev ls c1 with
      | .error e => .error e
      | .ok es => .ok (elig :: es)

/-- the winners (deepest source, first among equals) of the non-empty eligible lists -/
def winnersOf (es : List (List Cand)) : List Cand := es.filterMap (firstMaxBy (fun x => x.src.length))

theorem selectLoop_eq (m : Machine) (cfg : List Path) (env : GEnv) (ev : Ev) :
    ∀ (leaves : List Path) (c : GCache) (acc : List Cand),
      selectLoop m cfg env ev leaves c acc =
        match eligLoop m cfg env ev leaves c with
        | .error e => .error e
        | .ok es => .ok (dedupAppend acc (winnersOf es)) := by
  intro leaves
  induction leaves with
  | nil => intro c acc; rfl
  | cons leaf ls ih =>
    intro c acc
    simp only [selectLoop, eligLoop]
    cases hce : collectEligible m cfg env leaf ev c with
    | error e => rfl
    | ok r =>
      obtain ⟨elig, c1⟩ := r
      simp only
      cases hw : firstMaxBy (fun x => x.src.length) elig with
      | none =>
        simp only
        rw [ih c1 acc]
        cases eligLoop m cfg env ev ls c1 with
        | error e => rfl
        | ok es => simp [winnersOf, hw]
      | some w =>
        simp only
        have hd : ∀ es, dedupAppend acc (winnersOf (elig :: es)) =
            dedupAppend (if acc.any (fun x => x.t.tid = w.t.tid) then acc else acc ++ [w]) (winnersOf es) := by
          intro es
          have : winnersOf (elig :: es) = w :: winnersOf es := by simp [winnersOf, hw]
          rw [this]; rfl
        split
        · rename_i hany
          rw [ih c1 acc]
          cases eligLoop m cfg env ev ls c1 with
          | error e => rfl
          | ok es => simp only [hd, hany, if_true]
        · rename_i hany
          rw [ih c1 (acc ++ [w])]
          cases eligLoop m cfg env ev ls c1 with
          | error e => rfl
          | ok es => simp only [hd, hany, Bool.false_eq_true, if_false]

/-- **`selectTransitions` factored**: eligible lists per leaf, winners, de-duplication keeping the
    first, stable sort by descending source depth — and it raises exactly when a guard raises
    somewhere in the per-leaf walks -/
theorem selectTransitions_eq (m : Machine) (cfg : List Path) (env : GEnv) (ev : Ev) :
    selectTransitions m cfg env ev =
      match eligLoop m cfg env ev (leavesSorted m cfg) [] with
      | .error e => .error e
      | .ok es => .ok (sortBy (geKey (fun c : Cand => c.src.length)) (dedupSeen [] (winnersOf es))) := by
  simp only [selectTransitions, selectLoop_eq]
  cases eligLoop m cfg env ev (leavesSorted m cfg) [] with
  | error e => rfl
  | ok es =>
    simp only [dedupAppend_eq, List.map_nil, List.nil_append]
    rfl

/-- every list produced by `eligLoop` is the eligible list of the corresponding leaf -/
theorem eligLoop_mem (m : Machine) (cfg : List Path) (env : GEnv) (ev : Ev) :
    ∀ (leaves : List Path) (c : GCache) (es : List (List Cand)), eligLoop m cfg env ev leaves c = .ok es →
      (∀ e ∈ es, ∃ leaf ∈ leaves, ∃ c0 c1, collectEligible m cfg env leaf ev c0 = .ok (e, c1)) ∧
      (∀ leaf ∈ leaves, ∃ e ∈ es, ∃ c0 c1, collectEligible m cfg env leaf ev c0 = .ok (e, c1)) := by
  intro leaves
  induction leaves with
  | nil =>
    intro c es h
    simp only [eligLoop, Except.ok.injEq] at h
    subst h; simp
  | cons leaf ls ih =>
    intro c es h
    simp only [eligLoop] at h
    cases hce : collectEligible m cfg env leaf ev c with
    | error e => simp [hce] at h
    | ok r =>
      obtain ⟨elig, c1⟩ := r
      simp only [hce] at h
      cases hr : eligLoop m cfg env ev ls c1 with
      | error e => simp [hr] at h
      | ok es' =>
        simp only [hr, Except.ok.injEq] at h
        subst h
        obtain ⟨h1, h2⟩ := ih c1 es' hr
        constructor
        · intro e he
          rcases List.mem_cons.1 he with rfl | he
          · exact ⟨leaf, by simp, c, c1, hce⟩
          · obtain ⟨l, hl, hx⟩ := h1 e he
            exact ⟨l, List.mem_cons_of_mem _ hl, hx⟩
        · intro l hl
          rcases List.mem_cons.1 hl with rfl | hl
          · exact ⟨elig, by simp, c, c1, hce⟩
          · obtain ⟨e, he, hx⟩ := h2 l hl
            exact ⟨e, List.mem_cons_of_mem _ he, hx⟩

theorem filterMap_congr' {α β} {f g : α → Option β} : ∀ {l : List α}, (∀ x ∈ l, f x = g x) →
    l.filterMap f = l.filterMap g := by
  intro l
  induction l with
  | nil => intro _; rfl
  | cons a l ih =>
    intro h
    rw [List.filterMap_cons, List.filterMap_cons, h a (by simp),
      ih (fun x hx => h x (List.mem_cons_of_mem _ hx))]

/-- winners are heads -/
theorem winnersOf_eq_heads (m : Machine) (cfg : List Path) (env : GEnv) (ev : Ev)
    (leaves : List Path) (c : GCache) (es : List (List Cand)) (h : eligLoop m cfg env ev leaves c = .ok es) :
    winnersOf es = es.filterMap List.head? := by
  unfold winnersOf
  apply filterMap_congr'
  intro e he
  obtain ⟨leaf, _, c0, c1, hce⟩ := (eligLoop_mem m cfg env ev leaves c es h).1 e he
  exact collectEligible_winner m cfg env leaf ev c0 e c1 hce

/-- the flags `_collect_eligible_transitions` derives from the event name -/
def itcOf (ev : Ev) : Bool := !(Tables.nonTransientPrefixes.any (fun p => sStartsWith ev.type p))
def ietOf (ev : Ev) : Bool := decide (ev.type = "")

/-- eligible list of a leaf, as a pure function of the guard oracle -/
def eligSpec (g : Trans → Bool) (m : Machine) (ev : Ev) (leaf : Path) : List Cand :=
  chainSpec g m ev (itcOf ev) (ietOf ev) (chainUp leaf)

/-- nominee of a leaf, as a pure function of the guard oracle -/
def nomineeOf (g : Trans → Bool) (m : Machine) (ev : Ev) (leaf : Path) : Option Cand :=
  nomineeSpec g m ev (itcOf ev) (ietOf ev) (chainUp leaf)

theorem eligLoop_spec {m : Machine} {cfg : List Path} {env : GEnv} {T : Trans → Prop} {g : Trans → Bool}
    (ho : OracleOK m cfg env T g) (hcov : ∀ p d, m.defAt p = some d → ∀ t ∈ allTrans d, T t) (ev : Ev) :
    ∀ (leaves : List Path) (c : GCache) (es : List (List Cand)), Agree g T c →
      eligLoop m cfg env ev leaves c = .ok es → es = leaves.map (eligSpec g m ev) := by
  intro leaves
  induction leaves with
  | nil =>
    intro c es _ h
    simp only [eligLoop, Except.ok.injEq] at h
    subst h; rfl
  | cons leaf ls ih =>
    intro c es ha h
    simp only [eligLoop] at h
    cases hce : collectEligible m cfg env leaf ev c with
    | error e => simp [hce] at h
    | ok r =>
      obtain ⟨elig, c1⟩ := r
      simp only [hce] at h
      obtain ⟨h1, ha1⟩ := collectChain_spec ho hcov ev _ _ (chainUp leaf) c elig c1 ha hce
      cases hr : eligLoop m cfg env ev ls c1 with
      | error e => simp [hr] at h
      | ok es' =>
        simp only [hr, Except.ok.injEq] at h
        subst h
        rw [ih c1 es' ha1 hr, h1]
        rfl

-- ---------------------------------------------------------------------------------------------
-- the canonical oracle: the guard's own value
-- ---------------------------------------------------------------------------------------------

/-- a transition declared somewhere in the machine -/
def DeclT (m : Machine) (t : Trans) : Prop := ∃ p d, m.defAt p = some d ∧ t ∈ allTrans d

/-- transition identities determine the guard (the parser hands out fresh `tid`s, so distinct
    declared transitions never share one) -/
def TidOK (m : Machine) : Prop := ∀ t t', DeclT m t → DeclT m t' → t.tid = t'.tid → t.guard = t'.guard

/-- the guard's value; `false` if evaluating it raises -/
def gOf (m : Machine) (cfg : List Path) (env : GEnv) (t : Trans) : Bool :=
  match guardOk m cfg env t.guard with
  | .ok b => b
  | .error _ => false

theorem oracleOK_gOf (m : Machine) (cfg : List Path) (env : GEnv) (h : TidOK m) :
    OracleOK m cfg env (DeclT m) (gOf m cfg env) := by
  constructor
  · intro _ _ b hb; simp [gOf, hb]
  · intro t t' ht ht' he; simp only [gOf, h t t' ht ht' he]

theorem declT_cover (m : Machine) : ∀ p d, m.defAt p = some d → ∀ t ∈ allTrans d, DeclT m t :=
  fun p d hd _ ht => ⟨p, d, hd, ht⟩

-- ---------------------------------------------------------------------------------------------
-- what `processEvent` executes
-- ---------------------------------------------------------------------------------------------

/-- one iteration of the loop in `_process_event`; `multi` is `len(transitions) > 1` -/
def stepSel (h : Hooks) (fl : Flavor) (m : Machine) (ev : Ev) (multi : Bool) (s : St) (c : Cand) : St :=
  if s.err.isSome then s
  else if finished s.status then s
  else if multi && !(s.cfg.contains c.src) then s
  else execute h fl m ev (planTransition m s.cfg s.hist c) s

/-- the candidates of `cs` that are really executed from state `s`: those reached without a pending
    error, before the machine has finished (`break` once the status is no longer running), whose
    source is still active (the test is only made when several were selected) -/
def firedOf (h : Hooks) (fl : Flavor) (m : Machine) (ev : Ev) (multi : Bool) : List Cand → St → List Cand
  | [], _ => []
  | c :: cs, s =>
    if s.err.isSome then []
    else if finished s.status then []
    else if multi && !(s.cfg.contains c.src) then firedOf h fl m ev multi cs s
    else c :: firedOf h fl m ev multi cs (execute h fl m ev (planTransition m s.cfg s.hist c) s)

theorem firedOf_sublist (h : Hooks) (fl : Flavor) (m : Machine) (ev : Ev) (multi : Bool) :
    ∀ (cs : List Cand) (s : St), (firedOf h fl m ev multi cs s).Sublist cs := by
  intro cs
  induction cs with
  | nil => intro s; simp [firedOf]
  | cons c cs ih =>
    intro s
    simp only [firedOf]
    split
    · exact List.nil_sublist _
    · split
      · exact List.nil_sublist _
      · split
        · exact (ih s).cons _
        · exact (ih _).cons_cons _

theorem foldl_stepSel_err (h : Hooks) (fl : Flavor) (m : Machine) (ev : Ev) (multi : Bool) :
    ∀ (cs : List Cand) (s : St), s.err.isSome = true → cs.foldl (stepSel h fl m ev multi) s = s := by
  intro cs
  induction cs with
  | nil => intro s _; rfl
  | cons c cs ih =>
    intro s hs
    simp only [List.foldl_cons, stepSel, hs, if_true]
    exact ih s hs

theorem foldl_stepSel_finished (h : Hooks) (fl : Flavor) (m : Machine) (ev : Ev) (multi : Bool) :
    ∀ (cs : List Cand) (s : St), finished s.status = true → cs.foldl (stepSel h fl m ev multi) s = s := by
  intro cs
  induction cs with
  | nil => intro s _; rfl
  | cons c cs ih =>
    intro s hs
    have : stepSel h fl m ev multi s c = s := by
      unfold stepSel; simp only [hs, if_true]; split <;> rfl
    rw [List.foldl_cons, this]
    exact ih s hs

/-- the executing step, applied unconditionally -/
def execSel (h : Hooks) (fl : Flavor) (m : Machine) (ev : Ev) (s : St) (c : Cand) : St :=
  execute h fl m ev (planTransition m s.cfg s.hist c) s

theorem foldl_stepSel_eq (h : Hooks) (fl : Flavor) (m : Machine) (ev : Ev) (multi : Bool) :
    ∀ (cs : List Cand) (s : St),
      cs.foldl (stepSel h fl m ev multi) s = (firedOf h fl m ev multi cs s).foldl (execSel h fl m ev) s := by
  intro cs
  induction cs with
  | nil => intro s; rfl
  | cons c cs ih =>
    intro s
    by_cases hs : s.err.isSome = true
    · rw [foldl_stepSel_err h fl m ev multi _ s hs]
      simp [firedOf, hs]
    · by_cases hfin : finished s.status = true
      · rw [foldl_stepSel_finished h fl m ev multi _ s hfin]
        simp [firedOf, hs, hfin]
      by_cases hst : (multi && !(s.cfg.contains c.src)) = true
      · simp only [List.foldl_cons, stepSel, firedOf, hs, hfin, hst, if_true, if_false, Bool.false_eq_true]
        exact ih s
      · simp only [List.foldl_cons, stepSel, firedOf, hs, hfin, hst, if_false, Bool.false_eq_true]
        rw [ih]; rfl

theorem processEvent_ok (h : Hooks) (fl : Flavor) (m : Machine) (u : UEnv) (ev : Ev) (s : St)
    (sel : List Cand) (hsel : selectTransitions m s.cfg (u.genv s.ctx ev.type) ev = .ok sel) :
    processEvent h fl m u ev s = sel.foldl (stepSel h fl m ev (decide (sel.length > 1))) s := by
  simp only [processEvent, hsel]
  rfl

-- ---------------------------------------------------------------------------------------------
-- the closed form of selection under `TidOK`
-- ---------------------------------------------------------------------------------------------

theorem nomineeOf_eq_head (g : Trans → Bool) (m : Machine) (ev : Ev) (leaf : Path) :
    nomineeOf g m ev leaf = (eligSpec g m ev leaf).head? :=
  (head?_chainSpec g m ev _ _ _).symm

/-- under `TidOK` the per-leaf eligible lists are the pure `eligSpec` of the guards' own values -/
theorem eligLoop_gOf (m : Machine) (cfg : List Path) (env : GEnv) (ev : Ev) (htid : TidOK m)
    (leaves : List Path) (es : List (List Cand)) (h : eligLoop m cfg env ev leaves [] = .ok es) :
    es = leaves.map (eligSpec (gOf m cfg env) m ev) :=
  eligLoop_spec (oracleOK_gOf m cfg env htid) (declT_cover m) ev leaves [] es (agree_nil _ _) h

/-- **closed form of `selectTransitions`** (when it does not raise): the nominees of the active leaves
    in `leavesSorted` order, de-duplicated by identity keeping the first, stably sorted by descending
    source depth -/
theorem select_closed_form (m : Machine) (cfg : List Path) (env : GEnv) (ev : Ev) (htid : TidOK m)
    (sel : List Cand) (h : selectTransitions m cfg env ev = .ok sel) :
    sel = sortBy (geKey (fun c : Cand => c.src.length))
      (dedupSeen [] ((leavesSorted m cfg).filterMap (nomineeOf (gOf m cfg env) m ev))) := by
  rw [selectTransitions_eq] at h
  cases he : eligLoop m cfg env ev (leavesSorted m cfg) [] with
  | error e => simp [he] at h
  | ok es =>
    simp only [he, Except.ok.injEq] at h
    subst h
    rw [winnersOf_eq_heads m cfg env ev _ _ es he, eligLoop_gOf m cfg env ev htid _ es he,
      List.filterMap_map]
    congr 2
    apply filterMap_congr'
    intro leaf _
    exact (nomineeOf_eq_head _ m ev leaf).symm

-- ---------------------------------------------------------------------------------------------
-- a checkable sufficient condition for `TidOK`
-- ---------------------------------------------------------------------------------------------

mutual
theorem at_mem_allPaths (n : SNode) (base q : Path) (n' : SNode) (h : n.at q = some n') :
    base ++ q ∈ n.allPaths base := by
  match n, q with
  | .mk d ks, [] => simp [SNode.allPaths]
  | .mk d ks, k :: q =>
    simp only [SNode.at] at h
    cases hf : findKid k ks with
    | none => simp [hf] at h
    | some c =>
      simp only [hf] at h
      simp only [SNode.allPaths]
      exact List.mem_cons_of_mem _ (kids_mem_allPaths ks base k q c n' hf h)
theorem kids_mem_allPaths (ks : List (String × SNode)) (base : Path) (k : String) (q : Path) (c n' : SNode)
    (hf : findKid k ks = some c) (h : c.at q = some n') : base ++ k :: q ∈ allPathsKids ks base := by
  match ks with
  | [] => simp [findKid] at hf
  | (k', c') :: rest =>
    simp only [findKid] at hf
    simp only [allPathsKids, List.mem_append]
    split at hf
    · rename_i hk
      simp only [Option.some.injEq] at hf
      subst hf; subst hk
      left
      have := at_mem_allPaths c' (base ++ [k']) q n' h
      simpa using this
    · right
      exact kids_mem_allPaths rest base k q c n' hf h
end

/-- every transition declared in the machine, in document order -/
def allDeclTrans (m : Machine) : List Trans :=
  (m.root.allPaths []).flatMap (fun p => match m.defAt p with | some d => allTrans d | none => [])

theorem declT_mem (m : Machine) (t : Trans) (h : DeclT m t) : t ∈ allDeclTrans m := by
  obtain ⟨p, d, hd, ht⟩ := h
  simp only [allDeclTrans, List.mem_flatMap]
  refine ⟨p, ?_, by simp [hd, ht]⟩
  simp only [Machine.defAt] at hd
  cases hn : m.root.at p with
  | none => simp [hn] at hd
  | some n => simpa using at_mem_allPaths m.root [] p n hn

theorem eq_of_nodup_map {α β} (f : α → β) : ∀ (l : List α), (l.map f).Nodup →
    ∀ a ∈ l, ∀ b ∈ l, f a = f b → a = b := by
  intro l
  induction l with
  | nil => intro _ a ha; simp at ha
  | cons x l ih =>
    intro hn a ha b hb hab
    simp only [List.map_cons, List.nodup_cons, List.mem_map, not_exists, not_and] at hn
    rcases List.mem_cons.1 ha with hax | ha
    · rcases List.mem_cons.1 hb with hbx | hb
      · rw [hax, hbx]
      · exact absurd (by rw [← hab, hax]) (hn.1 b hb)
    · rcases List.mem_cons.1 hb with hbx | hb
      · exact absurd (by rw [hab, hbx]) (hn.1 a ha)
      · exact ih hn.2 a ha b hb hab

/-- distinct identities (what the parser's `freshTid` produces) imply `TidOK` -/
theorem tidOK_of_nodup (m : Machine) (h : ((allDeclTrans m).map (·.tid)).Nodup) : TidOK m := by
  intro t t' ht ht' he
  rw [eq_of_nodup_map _ _ h t (declT_mem m t ht) t' (declT_mem m t' ht') he]

-- ---------------------------------------------------------------------------------------------
-- a small machine for the examples in `Xsm/Properties/C02.lean`
-- ---------------------------------------------------------------------------------------------
namespace SelEx
/-
m (compound, initial P)
├─ P (parallel)   on E: t0    on K: t8
│  ├─ A (compound, initial a1)   on F: t6
│  │  ├─ a1   on F: [t1 (guard g1), t2]   on X: t4 → #m.Q   on K: t7 (forbidden)
│  │  └─ a2
│  └─ B (compound, initial b1)
│     └─ b1   on F: t3   on X: t5
└─ Q
-/
def mkT (tid : Nat) (event : String) (target : Option String := none) (guard : Option GuardExpr := none)
    (acts : List String := []) (forbidden := false) : Trans :=
  { tid, event, target, guard, actions := acts.map (fun a => { type := a }), reenter := false, forbidden }

def mkD (kind : Kind) (initial : Option String := none) (on : List (String × List Trans) := []) : StateDef :=
  { kind, initial, entry := [], exit := [], on, onDone := none, after := [], invoke := [], deep := false,
    historyTarget := none, customId := none, tags := [] }

def t0 := mkT 0 "E" none none ["shared"]
def t1 := mkT 1 "F" none (some (.named "g1" none)) ["never"]
def t2 := mkT 2 "F" none none ["a1F"]
def t3 := mkT 3 "F" none none ["b1F"]
def t4 := mkT 4 "X" (some "#m.Q") none ["leave"]
def t5 := mkT 5 "X" none none ["b1X"]
def t6 := mkT 6 "F" none none ["AF"]
def t7 := mkT 7 "K" none none [] true
def t8 := mkT 8 "K" none none ["PK"]

def exM : Machine :=
  { id := "m", maxIterations := 10, customIds := [],
    root := .mk (mkD .compound (some "P")) [
      ("P", .mk (mkD .parallel none [("E", [t0]), ("K", [t8])]) [
        ("A", .mk (mkD .compound (some "a1") [("F", [t6])]) [
          ("a1", .mk (mkD .atomic none [("F", [t1, t2]), ("X", [t4]), ("K", [t7])]) []),
          ("a2", .mk (mkD .atomic) [])]),
        ("B", .mk (mkD .compound (some "b1")) [
          ("b1", .mk (mkD .atomic none [("F", [t3]), ("X", [t5])]) [])])]),
      ("Q", .mk (mkD .atomic) [])] }

def exCfg : List Path := [[], ["P"], ["P", "A"], ["P", "A", "a1"], ["P", "B"], ["P", "B", "b1"]]
/-- `g1` is implemented and false -/
def exEnv : GEnv := fun n => if n = "g1" then .f else .missing
/-- `g1` has no implementation -/
def exEnvMissing : GEnv := fun _ => .missing
def exS : St := { cfg := exCfg, status := "running" }
/-- user code for the examples: guards by table (independent of context/event), every action a marker -/
def exU : UEnv := { g := fun n _ _ => exEnv n, a := fun _ c _ => .ok c }
def exUMissing : UEnv := { g := fun n _ _ => exEnvMissing n, a := fun _ c _ => .ok c }

def tidsOf (r : Except GErr (List Cand)) : Option (List Nat) :=
  match r with | .ok sel => some (sel.map (·.t.tid)) | .error _ => none

end SelEx

end XSM
