import Xsm.Proofs.Select
import Xsm.Proofs.Bridge
import Xsm.Proofs.Run
/-
Order-independence helpers for C16: the active configuration is a set in the implementation and a
`List Path` in the model; every consumer of `cfg` gives the same result on any permutation of it.
-/
namespace XSM
open XSM.Spec

-- ---------------------------------------------------------------------------------------------
-- 0. sorting: two sorted permutations of a list with unique keys are equal
-- ---------------------------------------------------------------------------------------------
section sort
variable {α : Type}

theorem insertBy_pairwise (le : α → α → Bool) (P : α → Prop)
    (htot : ∀ a b, P a → P b → le a b = true ∨ le b a = true)
    (htr : ∀ a b c, P a → P b → P c → le a b = true → le b c = true → le a c = true)
    (x : α) (hx : P x) : ∀ ys : List α, (∀ y ∈ ys, P y) → ys.Pairwise (fun a b => le a b = true) →
      (insertBy le x ys).Pairwise (fun a b => le a b = true) := by
  intro ys
  induction ys with
  | nil => intro _ _; simp [insertBy]
  | cons y ys ih =>
    intro hP h
    have hy : P y := hP y List.mem_cons_self
    have hPs : ∀ z ∈ ys, P z := fun z hz => hP z (List.mem_cons_of_mem _ hz)
    simp only [insertBy]
    split
    · rename_i hle
      refine List.Pairwise.cons ?_ h
      intro z hz
      rcases List.mem_cons.1 hz with rfl | hz
      · exact hle
      · exact htr x y z hx hy (hPs z hz) hle (List.rel_of_pairwise_cons h hz)
    · rename_i hle
      have hyx : le y x = true := by
        rcases htot x y hx hy with h1 | h1
        · exact absurd h1 hle
        · exact h1
      refine List.Pairwise.cons ?_ (ih hPs (List.Pairwise.of_cons h))
      intro z hz
      rcases (mem_insertBy _ x z ys).1 hz with rfl | hz
      · exact hyx
      · exact List.rel_of_pairwise_cons h hz

theorem sortBy_pairwise (le : α → α → Bool) (P : α → Prop)
    (htot : ∀ a b, P a → P b → le a b = true ∨ le b a = true)
    (htr : ∀ a b c, P a → P b → P c → le a b = true → le b c = true → le a c = true) :
    ∀ xs : List α, (∀ x ∈ xs, P x) → (sortBy le xs).Pairwise (fun a b => le a b = true) := by
  intro xs
  induction xs with
  | nil => intro _; exact List.Pairwise.nil
  | cons x xs ih =>
    intro hP
    rw [sortBy_cons]
    refine insertBy_pairwise le P htot htr x (hP x List.mem_cons_self) _ ?_
      (ih (fun z hz => hP z (List.mem_cons_of_mem _ hz)))
    intro y hy
    exact hP y (List.mem_cons_of_mem _ ((mem_sortBy le y xs).1 hy))

/-- **the sorting lemma**: when `le` is, on the elements of `xs`, total, transitive and antisymmetric
    (the sort key is injective), sorting any permutation of `xs` gives the same list. -/
theorem sortBy_perm_eq (le : α → α → Bool) {xs ys : List α} (hp : xs.Perm ys)
    (htot : ∀ a ∈ xs, ∀ b ∈ xs, le a b = true ∨ le b a = true)
    (htr : ∀ a ∈ xs, ∀ b ∈ xs, ∀ c ∈ xs, le a b = true → le b c = true → le a c = true)
    (hanti : ∀ a ∈ xs, ∀ b ∈ xs, le a b = true → le b a = true → a = b) :
    sortBy le xs = sortBy le ys := by
  have hs1 := sortBy_pairwise le (· ∈ xs) (fun a b ha hb => htot a ha b hb)
    (fun a b c ha hb hc => htr a ha b hb c hc) xs (fun _ h => h)
  have hs2 := sortBy_pairwise le (· ∈ xs) (fun a b ha hb => htot a ha b hb)
    (fun a b c ha hb hc => htr a ha b hb c hc) ys (fun _ h => hp.symm.subset h)
  refine List.Perm.eq_of_pairwise (le := fun a b => le a b = true) ?_ hs1 hs2
    ((sortBy_perm le xs).trans (hp.trans (sortBy_perm le ys).symm))
  intro a b ha hb
  exact hanti a ((mem_sortBy le a xs).1 ha) b (hp.symm.subset ((mem_sortBy le b ys).1 hb))

/-- the two comparators of the model: (−depth, id) and (depth, id) -/
def leDesc (d : α → Nat) (s : α → String) : α → α → Bool :=
  fun a b => d a > d b || (d a == d b && decide (s a ≤ s b))
def leAsc (d : α → Nat) (s : α → String) : α → α → Bool :=
  fun a b => d a < d b || (d a == d b && decide (s a ≤ s b))

theorem leDesc_total (d : α → Nat) (s : α → String) (a b : α) :
    leDesc d s a b = true ∨ leDesc d s b a = true := by
  simp only [leDesc, Bool.or_eq_true, Bool.and_eq_true, decide_eq_true_eq, beq_iff_eq]
  rcases Nat.lt_trichotomy (d a) (d b) with h | h | h
  · exact Or.inr (Or.inl h)
  · rcases String.le_total (s a) (s b) with h1 | h1
    · exact Or.inl (Or.inr ⟨h, h1⟩)
    · exact Or.inr (Or.inr ⟨h.symm, h1⟩)
  · exact Or.inl (Or.inl h)

theorem leDesc_trans (d : α → Nat) (s : α → String) (a b c : α)
    (h1 : leDesc d s a b = true) (h2 : leDesc d s b c = true) : leDesc d s a c = true := by
  simp only [leDesc, Bool.or_eq_true, Bool.and_eq_true, decide_eq_true_eq, beq_iff_eq] at *
  rcases h1 with h1 | ⟨e1, l1⟩ <;> rcases h2 with h2 | ⟨e2, l2⟩
  · exact Or.inl (by omega)
  · exact Or.inl (by omega)
  · exact Or.inl (by omega)
  · exact Or.inr ⟨by omega, String.le_trans l1 l2⟩

theorem leDesc_antisymm (d : α → Nat) (s : α → String) (a b : α)
    (h1 : leDesc d s a b = true) (h2 : leDesc d s b a = true) : d a = d b ∧ s a = s b := by
  simp only [leDesc, Bool.or_eq_true, Bool.and_eq_true, decide_eq_true_eq, beq_iff_eq] at *
  rcases h1 with h1 | ⟨e1, l1⟩ <;> rcases h2 with h2 | ⟨e2, l2⟩
  · omega
  · omega
  · omega
  · exact ⟨e1, String.le_antisymm l1 l2⟩

theorem leAsc_total (d : α → Nat) (s : α → String) (a b : α) :
    leAsc d s a b = true ∨ leAsc d s b a = true := by
  simp only [leAsc, Bool.or_eq_true, Bool.and_eq_true, decide_eq_true_eq, beq_iff_eq]
  rcases Nat.lt_trichotomy (d a) (d b) with h | h | h
  · exact Or.inl (Or.inl h)
  · rcases String.le_total (s a) (s b) with h1 | h1
    · exact Or.inl (Or.inr ⟨h, h1⟩)
    · exact Or.inr (Or.inr ⟨h.symm, h1⟩)
  · exact Or.inr (Or.inl h)

theorem leAsc_trans (d : α → Nat) (s : α → String) (a b c : α)
    (h1 : leAsc d s a b = true) (h2 : leAsc d s b c = true) : leAsc d s a c = true := by
  simp only [leAsc, Bool.or_eq_true, Bool.and_eq_true, decide_eq_true_eq, beq_iff_eq] at *
  rcases h1 with h1 | ⟨e1, l1⟩ <;> rcases h2 with h2 | ⟨e2, l2⟩
  · exact Or.inl (by omega)
  · exact Or.inl (by omega)
  · exact Or.inl (by omega)
  · exact Or.inr ⟨by omega, String.le_trans l1 l2⟩

theorem leAsc_antisymm (d : α → Nat) (s : α → String) (a b : α)
    (h1 : leAsc d s a b = true) (h2 : leAsc d s b a = true) : d a = d b ∧ s a = s b := by
  simp only [leAsc, Bool.or_eq_true, Bool.and_eq_true, decide_eq_true_eq, beq_iff_eq] at *
  rcases h1 with h1 | ⟨e1, l1⟩ <;> rcases h2 with h2 | ⟨e2, l2⟩
  · omega
  · omega
  · omega
  · exact ⟨e1, String.le_antisymm l1 l2⟩

/-- sorting by (−depth, id) is order-independent when the id is injective on the elements -/
theorem sortBy_leDesc_perm (d : α → Nat) (s : α → String) {xs ys : List α} (hp : xs.Perm ys)
    (hinj : ∀ a ∈ xs, ∀ b ∈ xs, s a = s b → a = b) :
    sortBy (leDesc d s) xs = sortBy (leDesc d s) ys :=
  sortBy_perm_eq _ hp (fun a _ b _ => leDesc_total d s a b)
    (fun a _ b _ c _ => leDesc_trans d s a b c)
    (fun a ha b hb h1 h2 => hinj a ha b hb (leDesc_antisymm d s a b h1 h2).2)

theorem sortBy_leAsc_perm (d : α → Nat) (s : α → String) {xs ys : List α} (hp : xs.Perm ys)
    (hinj : ∀ a ∈ xs, ∀ b ∈ xs, s a = s b → a = b) :
    sortBy (leAsc d s) xs = sortBy (leAsc d s) ys :=
  sortBy_perm_eq _ hp (fun a _ b _ => leAsc_total d s a b)
    (fun a _ b _ c _ => leAsc_trans d s a b c)
    (fun a ha b hb h1 h2 => hinj a ha b hb (leAsc_antisymm d s a b h1 h2).2)
end sort

-- ---------------------------------------------------------------------------------------------
-- 1. the dotted id is injective on paths whose keys contain no '.'
-- ---------------------------------------------------------------------------------------------

/-- the suffix `idOf` appends to the machine id -/
def encPath (p : Path) : List Char := p.flatMap (fun k => '.' :: k.toList)

theorem foldl_id_toList (p : Path) : ∀ s : String,
    (p.foldl (fun acc k => acc ++ "." ++ k) s).toList = s.toList ++ encPath p := by
  induction p with
  | nil => intro s; simp [encPath]
  | cons k p ih =>
    intro s
    have hd : (".": String).toList = ['.'] := rfl
    rw [List.foldl_cons, ih]
    simp [encPath, String.toList_append, hd]

theorem idOf_toList (m : Machine) (p : Path) : (m.idOf p).toList = m.id.toList ++ encPath p :=
  foldl_id_toList p m.id

/-- cutting at the first dot is unambiguous -/
theorem dot_split : ∀ (k k' r r' : List Char), '.' ∉ k → '.' ∉ k' →
    (r = [] ∨ ∃ t, r = '.' :: t) → (r' = [] ∨ ∃ t, r' = '.' :: t) →
    k ++ r = k' ++ r' → k = k' ∧ r = r' := by
  intro k
  induction k with
  | nil =>
    intro k' r r' _ hk' hr hr' h
    cases k' with
    | nil => exact ⟨rfl, by simpa using h⟩
    | cons c k'' =>
      exfalso
      simp only [List.nil_append, List.cons_append] at h
      rcases hr with rfl | ⟨t, rfl⟩
      · simp at h
      · simp only [List.cons.injEq] at h
        exact hk' (h.1 ▸ List.mem_cons_self)
  | cons c k ih =>
    intro k' r r' hk hk' hr hr' h
    cases k' with
    | nil =>
      exfalso
      simp only [List.nil_append, List.cons_append] at h
      rcases hr' with rfl | ⟨t, rfl⟩
      · simp at h
      · simp only [List.cons.injEq] at h
        exact hk (h.1 ▸ List.mem_cons_self)
    | cons c' k'' =>
      simp only [List.cons_append, List.cons.injEq] at h
      obtain ⟨h1, h2⟩ := ih k'' r r' (fun hm => hk (List.mem_cons_of_mem _ hm))
        (fun hm => hk' (List.mem_cons_of_mem _ hm)) hr hr' h.2
      exact ⟨by rw [h.1, h1], h2⟩

theorem encPath_shape (p : Path) : encPath p = [] ∨ ∃ t, encPath p = '.' :: t := by
  cases p with
  | nil => exact Or.inl rfl
  | cons k p => exact Or.inr ⟨k.toList ++ encPath p, by simp [encPath]⟩

theorem encPath_inj : ∀ (p q : Path), (∀ k ∈ p, '.' ∉ k.toList) → (∀ k ∈ q, '.' ∉ k.toList) →
    encPath p = encPath q → p = q := by
  intro p
  induction p with
  | nil =>
    intro q _ _ h
    cases q with
    | nil => rfl
    | cons k q => simp [encPath] at h
  | cons k p ih =>
    intro q hp hq h
    cases q with
    | nil => simp [encPath] at h
    | cons k' q =>
      have h' : k.toList ++ encPath p = k'.toList ++ encPath q := by
        simpa [encPath] using h
      obtain ⟨h1, h2⟩ := dot_split _ _ _ _ (hp k List.mem_cons_self) (hq k' List.mem_cons_self)
        (encPath_shape p) (encPath_shape q) h'
      rw [String.toList_inj.1 h1, ih q (fun x hx => hp x (List.mem_cons_of_mem _ hx))
        (fun x hx => hq x (List.mem_cons_of_mem _ hx)) h2]

/-- **`idOf` is injective on dot-free paths** (whatever the machine id is: it is a common prefix) -/
theorem idOf_injective (m : Machine) (p q : Path)
    (hp : ∀ k ∈ p, '.' ∉ k.toList) (hq : ∀ k ∈ q, '.' ∉ k.toList)
    (h : m.idOf p = m.idOf q) : p = q := by
  have h1 := congrArg String.toList h
  rw [idOf_toList, idOf_toList] at h1
  exact encPath_inj p q hp hq (List.append_cancel_left h1)

/-- key injectivity on a list of paths: the hypothesis of every ordering theorem -/
def IdInj (m : Machine) (c : List Path) : Prop := ∀ a ∈ c, ∀ b ∈ c, m.idOf a = m.idOf b → a = b

def DotFree (c : List Path) : Prop := ∀ p ∈ c, ∀ k ∈ p, '.' ∉ k.toList
instance (c : List Path) : Decidable (DotFree c) :=
  inferInstanceAs (Decidable (∀ p ∈ c, ∀ k ∈ p, '.' ∉ k.toList))

theorem idInj_of_dotFree (m : Machine) (c : List Path) (h : DotFree c) : IdInj m c :=
  fun a ha b hb e => idOf_injective m a b (h a ha) (h b hb) e

theorem IdInj.sub {m : Machine} {c c' : List Path} (h : IdInj m c) (hs : ∀ q ∈ c', q ∈ c) : IdInj m c' :=
  fun a ha b hb e => h a (hs a ha) b (hs b hb) e

theorem IdInj.perm {m : Machine} {c c' : List Path} (h : IdInj m c) (hp : c.Perm c') : IdInj m c' :=
  h.sub (fun _ hq => hp.symm.subset hq)

-- ---------------------------------------------------------------------------------------------
-- 2a. selection
-- ---------------------------------------------------------------------------------------------

theorem leaves_aux (m : Machine) (f : Path → Bool) {cfg cfg' : List Path} (hp : cfg.Perm cfg')
    (hinj : IdInj m cfg) :
    sortBy (leDesc List.length m.idOf) (if (cfg.filter f).isEmpty then cfg else cfg.filter f) =
      sortBy (leDesc List.length m.idOf) (if (cfg'.filter f).isEmpty then cfg' else cfg'.filter f) := by
  have hf := hp.filter f
  rw [← hf.isEmpty_eq]
  split
  · exact sortBy_leDesc_perm _ _ hp hinj
  · exact sortBy_leDesc_perm _ _ hf (hinj.sub (fun q hq => (List.mem_filter.1 hq).1))

theorem leavesSorted_perm (m : Machine) {cfg cfg' : List Path} (hp : cfg.Perm cfg') (hinj : IdInj m cfg) :
    leavesSorted m cfg = leavesSorted m cfg' := by
  unfold leavesSorted
  exact leaves_aux m _ hp hinj

theorem isStateIn_perm (m : Machine) {cfg cfg' : List Path} (hp : cfg.Perm cfg') (params : Option J) :
    isStateIn m cfg params = isStateIn m cfg' params := by
  unfold isStateIn
  split
  · rfl
  · exact hp.any_eq

mutual
theorem evalGuard_perm (m : Machine) {cfg cfg' : List Path} (hp : cfg.Perm cfg') (env : GEnv) :
    ∀ g, evalGuard m cfg env g = evalGuard m cfg' env g
  | .and cs => by simp only [evalGuard]; exact evalAll_perm m hp env cs
  | .or cs => by simp only [evalGuard]; exact evalAny_perm m hp env cs
  | .not c => by simp only [evalGuard, evalGuard_perm m hp env c]
  | .stateIn ps => by simp only [evalGuard, isStateIn_perm m hp ps]
  | .named _ _ => by simp only [evalGuard]
theorem evalAll_perm (m : Machine) {cfg cfg' : List Path} (hp : cfg.Perm cfg') (env : GEnv) :
    ∀ cs, evalAll m cfg env cs = evalAll m cfg' env cs
  | [] => by simp only [evalAll]
  | c :: cs => by simp only [evalAll, evalGuard_perm m hp env c, evalAll_perm m hp env cs]
theorem evalAny_perm (m : Machine) {cfg cfg' : List Path} (hp : cfg.Perm cfg') (env : GEnv) :
    ∀ cs, evalAny m cfg env cs = evalAny m cfg' env cs
  | [] => by simp only [evalAny]
  | c :: cs => by simp only [evalAny, evalGuard_perm m hp env c, evalAny_perm m hp env cs]
end

theorem guardOk_perm (m : Machine) {cfg cfg' : List Path} (hp : cfg.Perm cfg') (env : GEnv)
    (g : Option GuardExpr) : guardOk m cfg env g = guardOk m cfg' env g := by
  cases g with
  | none => rfl
  | some g => exact evalGuard_perm m hp env g

theorem passes_perm (m : Machine) {cfg cfg' : List Path} (hp : cfg.Perm cfg') (env : GEnv)
    (c : GCache) (t : Trans) : passes m cfg env c t = passes m cfg' env c t := by
  simp only [passes, guardOk_perm m hp env]

theorem filterPassing_perm (m : Machine) {cfg cfg' : List Path} (hp : cfg.Perm cfg') (env : GEnv)
    (src : Path) : ∀ (ts : List Trans) (c : GCache),
      filterPassing m cfg env src ts c = filterPassing m cfg' env src ts c := by
  intro ts
  induction ts with
  | nil => intro c; rfl
  | cons t ts ih =>
    intro c
    simp only [filterPassing, passes_perm m hp env, ih]

theorem onCands_walk_perm (m : Machine) {cfg cfg' : List Path} (hp : cfg.Perm cfg') (env : GEnv)
    (src : Path) : ∀ (ts : List Trans) (c : GCache),
      onCands.walk m cfg env src ts c = onCands.walk m cfg' env src ts c := by
  intro ts
  induction ts with
  | nil => intro c; rfl
  | cons t ts ih =>
    intro c
    simp only [onCands.walk, passes_perm m hp env, ih]

theorem onCands_perm (m : Machine) {cfg cfg' : List Path} (hp : cfg.Perm cfg') (env : GEnv)
    (src : Path) (d : StateDef) (ev : Ev) : ∀ (keys : List String) (c : GCache),
      onCands m cfg env src d ev keys c = onCands m cfg' env src d ev keys c := by
  intro keys
  induction keys with
  | nil => intro c; rfl
  | cons k keys ih =>
    intro c
    simp only [onCands, onCands_walk_perm m hp env, ih]

theorem nodeBuckets_perm (m : Machine) {cfg cfg' : List Path} (hp : cfg.Perm cfg') (env : GEnv)
    (cur : Path) (d : StateDef) (ev : Ev) (b : Bool) :
    nodeBuckets m cfg env cur d ev b = nodeBuckets m cfg' env cur d ev b := by
  have h : filterPassing m cfg env cur = filterPassing m cfg' env cur := by
    funext ts c; exact filterPassing_perm m hp env cur ts c
  simp only [nodeBuckets, h]

theorem collectChain_perm (m : Machine) {cfg cfg' : List Path} (hp : cfg.Perm cfg') (env : GEnv)
    (ev : Ev) (b1 b2 : Bool) : ∀ (ps : List Path) (c : GCache),
      collectChain m cfg env ev b1 b2 ps c = collectChain m cfg' env ev b1 b2 ps c := by
  intro ps
  induction ps with
  | nil => intro c; rfl
  | cons cur ups ih =>
    intro c
    have h : collectChain m cfg env ev b1 b2 ups = collectChain m cfg' env ev b1 b2 ups := by
      funext c; exact ih c
    simp only [collectChain, onCands_perm m hp env, nodeBuckets_perm m hp env, h]

theorem collectEligible_perm (m : Machine) {cfg cfg' : List Path} (hp : cfg.Perm cfg') (env : GEnv)
    (leaf : Path) (ev : Ev) (c : GCache) :
    collectEligible m cfg env leaf ev c = collectEligible m cfg' env leaf ev c := by
  simp only [collectEligible, collectChain_perm m hp env]

theorem selectLoop_perm (m : Machine) {cfg cfg' : List Path} (hp : cfg.Perm cfg') (env : GEnv) (ev : Ev) :
    ∀ (ls : List Path) (c : GCache) (acc : List Cand),
      selectLoop m cfg env ev ls c acc = selectLoop m cfg' env ev ls c acc := by
  intro ls
  induction ls with
  | nil => intro c acc; rfl
  | cons l ls ih =>
    intro c acc
    simp only [selectLoop, collectEligible_perm m hp env, ih]

theorem selectTransitions_perm (m : Machine) {cfg cfg' : List Path} (hp : cfg.Perm cfg')
    (hinj : IdInj m cfg) (env : GEnv) (ev : Ev) :
    selectTransitions m cfg env ev = selectTransitions m cfg' env ev := by
  simp only [selectTransitions, leavesSorted_perm m hp hinj, selectLoop_perm m hp env]

theorem can_perm (m : Machine) {cfg cfg' : List Path} (hp : cfg.Perm cfg')
    (hinj : IdInj m cfg) (env : GEnv) (ev : Ev) : can m cfg env ev = can m cfg' env ev := by
  simp only [can, selectTransitions_perm m hp hinj]

-- ---------------------------------------------------------------------------------------------
-- 2b. planning: exit order, exit set, the whole plan
-- ---------------------------------------------------------------------------------------------

theorem sortExit_perm (m : Machine) {xs ys : List Path} (hp : xs.Perm ys) (hinj : IdInj m xs) :
    sortExit m xs = sortExit m ys := by
  unfold sortExit
  exact congrArg List.reverse (sortBy_leAsc_perm List.length m.idOf hp hinj)

theorem exitSet_perm (m : Machine) {c c' : List Path} (hp : c.Perm c') (dom tgt : Path) :
    (exitSet m c dom tgt).Perm (exitSet m c' dom tgt) := by
  unfold exitSet Spec.exitSet
  simp only
  split
  · exact (hp.filter _).filter _
  · exact hp.filter _

theorem mem_exitSet_sub (m : Machine) (c : List Path) (dom tgt : Path) :
    ∀ q ∈ exitSet m c dom tgt, q ∈ c := by
  intro q hq
  unfold exitSet Spec.exitSet at hq
  simp only at hq
  split at hq
  · exact (List.mem_filter.1 (List.mem_filter.1 hq).1).1
  · exact (List.mem_filter.1 hq).1

/-- the ordered exit list of a transition with domain `domO` -/
theorem exits_perm (m : Machine) {cfg cfg' : List Path} (hp : cfg.Perm cfg') (hinj : IdInj m cfg)
    (domO : Option Path) (tgt : Path) :
    sortExit m (match domO with | none => cfg | some dom => exitSet m cfg dom tgt) =
      sortExit m (match domO with | none => cfg' | some dom => exitSet m cfg' dom tgt) := by
  cases domO with
  | none => exact sortExit_perm m hp hinj
  | some dom => exact sortExit_perm m (exitSet_perm m hp dom tgt) (hinj.sub (mem_exitSet_sub m cfg dom tgt))

theorem planTransition_perm (m : Machine) {cfg cfg' : List Path} (hp : cfg.Perm cfg') (hinj : IdInj m cfg)
    (hist : List (Path × List Path)) (c : Cand) :
    planTransition m cfg hist c = planTransition m cfg' hist c := by
  simp only [planTransition]
  split
  · rfl
  · split
    · rfl
    · split
      · rfl
      · rename_i tgt _
        have h1 := sortExit_perm m hp hinj
        have h2 := fun dom => sortExit_perm m (exitSet_perm m hp dom tgt)
          (hinj.sub (mem_exitSet_sub m cfg dom tgt))
        cases domainO m c.src tgt with
        | none => simp only [h1]
        | some dom => simp only [h2]

-- ---------------------------------------------------------------------------------------------
-- 2c. history recording
-- ---------------------------------------------------------------------------------------------

theorem recordHistory_perm (m : Machine) (ex : List Path) (s s' : St) (hp : s.cfg.Perm s'.cfg)
    (hh : s.hist = s'.hist) (hinj : IdInj m s.cfg) :
    (recordHistory m ex s).hist = (recordHistory m ex s').hist := by
  have key : ∀ st : Path,
      sortBy (fun a b : Path => a.length < b.length || (a.length == b.length && decide (m.idOf a ≤ m.idOf b)))
        (s.cfg.filter (fun q => q != st && st.isPrefixOf q)) =
      sortBy (fun a b : Path => a.length < b.length || (a.length == b.length && decide (m.idOf a ≤ m.idOf b)))
        (s'.cfg.filter (fun q => q != st && st.isPrefixOf q)) := by
    intro st
    exact sortBy_leAsc_perm List.length m.idOf (hp.filter _) (hinj.sub (fun q hq => (List.mem_filter.1 hq).1))
  simp only [recordHistory, key, hh]

theorem recordHistory_other (m : Machine) (ex : List Path) (s : St) :
    recordHistory m ex s = { s with hist := (recordHistory m ex s).hist } := rfl

-- ---------------------------------------------------------------------------------------------
-- 2d. done-ness
-- ---------------------------------------------------------------------------------------------

theorem find?_perm_unique {α : Type} (f : α → Bool) {xs ys : List α} (hp : xs.Perm ys)
    (hu : ∀ a ∈ xs, ∀ b ∈ xs, f a = true → f b = true → a = b) : xs.find? f = ys.find? f := by
  cases hx : xs.find? f with
  | none =>
    symm
    rw [List.find?_eq_none] at hx ⊢
    intro y hy; exact hx y (hp.symm.subset hy)
  | some a =>
    have ha := List.mem_of_find?_eq_some hx
    have hfa := List.find?_some hx
    cases hy : ys.find? f with
    | none =>
      rw [List.find?_eq_none] at hy
      exact absurd hfa (hy a (hp.subset ha))
    | some b =>
      have hb := hp.symm.subset (List.mem_of_find?_eq_some hy)
      rw [hu a ha b hb hfa (List.find?_some hy)]

/-- at most one active child of `p` -/
def UniqAt (cfg : List Path) (p : Path) : Prop :=
  ∀ q₁ ∈ cfg, ∀ q₂ ∈ cfg, q₁.dropLast = p → q₂.dropLast = p → q₁ ≠ [] → q₂ ≠ [] → q₁ = q₂

mutual
/-- every compound state of the subtree `n` (placed at `p`) has at most one active child -/
def CompUniq (cfg : List Path) (p : Path) : SNode → Prop
  | .mk d kids => (d.kind = .compound → UniqAt cfg p) ∧ CompUniqKids cfg p kids
def CompUniqKids (cfg : List Path) (p : Path) : List (String × SNode) → Prop
  | [] => True
  | (k, c) :: rest => CompUniq cfg (p ++ [k]) c ∧ CompUniqKids cfg p rest
end

theorem UniqAt.perm {cfg cfg' : List Path} {p : Path} (h : UniqAt cfg p) (hs : ∀ q ∈ cfg', q ∈ cfg) :
    UniqAt cfg' p :=
  fun q₁ h₁ q₂ h₂ => h q₁ (hs q₁ h₁) q₂ (hs q₂ h₂)

mutual
theorem CompUniq.sub {cfg cfg' : List Path} (hs : ∀ q ∈ cfg', q ∈ cfg) :
    ∀ (p : Path) (n : SNode), CompUniq cfg p n → CompUniq cfg' p n
  | p, .mk d kids, h => by
    simp only [CompUniq] at h ⊢
    exact ⟨fun hk => (h.1 hk).perm hs, CompUniqKids.sub hs p kids h.2⟩
theorem CompUniqKids.sub {cfg cfg' : List Path} (hs : ∀ q ∈ cfg', q ∈ cfg) :
    ∀ (p : Path) (ks : List (String × SNode)), CompUniqKids cfg p ks → CompUniqKids cfg' p ks
  | _, [], _ => by simp only [CompUniqKids]
  | p, (k, c) :: rest, h => by
    simp only [CompUniqKids] at h ⊢
    exact ⟨CompUniq.sub hs (p ++ [k]) c h.1, CompUniqKids.sub hs p rest h.2⟩
end

mutual
theorem doneNode_perm {cfg cfg' : List Path} (hp : cfg.Perm cfg') :
    ∀ (p : Path) (n : SNode), CompUniq cfg p n → doneNode cfg p n = doneNode cfg' p n
  | p, .mk d kids, h => by
    simp only [CompUniq] at h
    unfold doneNode
    cases hk : d.kind with
    | final => rfl
    | atomic => rfl
    | history => rfl
    | parallel => exact doneRegions_perm hp p kids h.2
    | compound =>
      have hu := h.1 hk
      have hf : cfg.find? (fun q => q != [] && q.dropLast == p) =
          cfg'.find? (fun q => q != [] && q.dropLast == p) := by
        apply find?_perm_unique _ hp
        intro a ha b hb fa fb
        simp only [Bool.and_eq_true, bne_iff_ne, ne_eq, beq_iff_eq] at fa fb
        exact hu a ha b hb fa.2 fb.2 fa.1 fb.1
      simp only [hf]
      split
      · exact doneKid_perm hp p _ kids h.2
      · rfl
theorem doneKid_perm {cfg cfg' : List Path} (hp : cfg.Perm cfg') :
    ∀ (p : Path) (k : String) (ks : List (String × SNode)), CompUniqKids cfg p ks →
      doneKid cfg p k ks = doneKid cfg' p k ks
  | _, _, [], _ => by simp only [doneKid]
  | p, k, (k', c) :: rest, h => by
    simp only [CompUniqKids] at h
    simp only [doneKid]
    split
    · exact doneNode_perm hp (p ++ [k']) c h.1
    · exact doneKid_perm hp p k rest h.2
theorem doneRegions_perm {cfg cfg' : List Path} (hp : cfg.Perm cfg') :
    ∀ (p : Path) (ks : List (String × SNode)), CompUniqKids cfg p ks →
      doneRegions cfg p ks = doneRegions cfg' p ks
  | _, [], _ => by simp only [doneRegions]
  | p, (k, c) :: rest, h => by
    simp only [CompUniqKids] at h
    simp only [doneRegions]
    rw [doneNode_perm hp (p ++ [k]) c h.1, doneRegions_perm hp p rest h.2, hp.any_eq]
end

theorem compUniqKids_find {cfg : List Path} {p : Path} {k : String} :
    ∀ {ks : List (String × SNode)} {c : SNode}, CompUniqKids cfg p ks → findKid k ks = some c →
      CompUniq cfg (p ++ [k]) c := by
  intro ks
  induction ks with
  | nil => intro c _ hf; simp [findKid] at hf
  | cons hd rest ih =>
    obtain ⟨k', n⟩ := hd
    intro c h hf
    simp only [CompUniqKids] at h
    simp only [findKid] at hf
    split at hf
    · rename_i hk; simp only [Option.some.injEq] at hf; subst hf; subst hk; exact h.1
    · exact ih h.2 hf

/-- the predicate descends to every state of the tree -/
theorem compUniq_at {cfg : List Path} : ∀ (p q : Path) (n n' : SNode), CompUniq cfg q n →
    n.at p = some n' → CompUniq cfg (q ++ p) n' := by
  intro p
  induction p with
  | nil => intro q n n' h hat; simp only [SNode.at, Option.some.injEq] at hat; subst hat; simpa using h
  | cons k p ih =>
    intro q n n' h hat
    match n, h, hat with
    | .mk d kids, h, hat =>
      simp only [SNode.at] at hat
      simp only [CompUniq] at h
      cases hf : findKid k kids with
      | none => simp [hf] at hat
      | some c =>
        simp only [hf] at hat
        have := ih (q ++ [k]) c n' (compUniqKids_find h.2 hf) hat
        simpa using this

theorem isStateDone_perm (m : Machine) {cfg cfg' : List Path} (hp : cfg.Perm cfg')
    (hu : CompUniq cfg [] m.root) (p : Path) : isStateDone m cfg p = isStateDone m cfg' p := by
  unfold isStateDone
  cases hat : m.root.at p with
  | none => rfl
  | some n =>
    have := compUniq_at p [] m.root n hu hat
    simp only [List.nil_append] at this
    exact doneNode_perm hp p n this

/-- `Legal` gives the uniqueness hypothesis: an active-or-not compound state has at most one active child -/
theorem uniqAt_of_legal {root : SNode} {c : List Path} (hL : Legal root c) {p : Path} {d : StateDef}
    {kids : List (String × SNode)} (hat : root.at p = some (.mk d kids)) (hk : d.kind = .compound) :
    UniqAt c p := by
  intro q₁ h₁ q₂ h₂ e₁ e₂ n₁ n₂
  have hpc : p ∈ c := e₁ ▸ hL.parent_active q₁ h₁
  have hq₁ : q₁ = p ++ [q₁.getLast n₁] := by rw [← e₁]; exact (List.dropLast_concat_getLast n₁).symm
  have hq₂ : q₂ = p ++ [q₂.getLast n₂] := by rw [← e₂]; exact (List.dropLast_concat_getLast n₂).symm
  have hne : kids ≠ [] := by
    rintro rfl
    obtain ⟨n, hn, _⟩ := hL.states q₁ h₁
    rw [hq₁, at_snoc root p d [] _ hat] at hn
    simp [findKid] at hn
  obtain ⟨k, _, hk'⟩ := hL.compound_one p hpc d kids hat hk hne
  have a₁ : q₁.getLast n₁ = k := hk' _ (hq₁ ▸ h₁)
  have a₂ : q₂.getLast n₂ = k := hk' _ (hq₂ ▸ h₂)
  rw [hq₁, hq₂, a₁, a₂]

mutual
theorem compUniq_of_legal {root : SNode} (hwf : WF root) {c : List Path} (hL : Legal root c) :
    ∀ (p : Path) (n : SNode), root.at p = some n → CompUniq c p n
  | p, .mk d kids, hat => by
    simp only [CompUniq]
    refine ⟨fun hk => uniqAt_of_legal hL hat hk, compUniqKids_of_legal hwf hL p kids ?_⟩
    intro k ch hm
    rw [at_snoc root p d kids k hat]
    have hw := wf_at hwf p _ hat
    simp only [WF] at hw
    exact findKid_of_mem_nodup hw.2.1 hm
theorem compUniqKids_of_legal {root : SNode} (hwf : WF root) {c : List Path} (hL : Legal root c) :
    ∀ (p : Path) (ks : List (String × SNode)), (∀ k ch, (k, ch) ∈ ks → root.at (p ++ [k]) = some ch) →
      CompUniqKids c p ks
  | _, [], _ => by simp only [CompUniqKids]
  | p, (k, ch) :: rest, h => by
    simp only [CompUniqKids]
    exact ⟨compUniq_of_legal hwf hL (p ++ [k]) ch (h k ch List.mem_cons_self),
      compUniqKids_of_legal hwf hL p rest (fun k' ch' hm => h k' ch' (List.mem_cons_of_mem _ hm))⟩
end

theorem compUniq_root_of_legal {root : SNode} (hwf : WF root) {c : List Path} (hL : Legal root c) :
    CompUniq c [] root := compUniq_of_legal hwf hL [] root rfl

-- ---------------------------------------------------------------------------------------------
-- 3. the step level: states equal up to the order of `cfg`
-- ---------------------------------------------------------------------------------------------

/-- two trace records agree up to the order in which a `#t:` observer record lists the configuration -/
def RecEq (m : Machine) (r r' : String) : Prop :=
  r = r' ∨ ∃ c c' : List Path, c.Perm c' ∧
    r = "#t:" ++ ",".intercalate (c.map m.idOf) ∧ r' = "#t:" ++ ",".intercalate (c'.map m.idOf)

/-- traces of the same length whose records agree pairwise (`RecEq`) -/
inductive TraceEq (m : Machine) : List String → List String → Prop
  | nil : TraceEq m [] []
  | cons {r r' : String} {t t' : List String} : RecEq m r r' → TraceEq m t t' → TraceEq m (r :: t) (r' :: t')

theorem TraceEq.refl (m : Machine) : ∀ t, TraceEq m t t
  | [] => TraceEq.nil
  | _ :: t => TraceEq.cons (Or.inl rfl) (TraceEq.refl m t)

/-- same state up to the list order of the configuration (and of its echo in `#t:` records) -/
structure St.equiv (m : Machine) (s s' : St) : Prop where
  cfg : s.cfg.Perm s'.cfg
  hist : s.hist = s'.hist
  queue : s.queue = s'.queue
  status : s.status = s'.status
  trace : TraceEq m s.trace s'.trace
  err : s.err = s'.err
  ctx : s.ctx = s'.ctx
  raiseDepth : s.raiseDepth = s'.raiseDepth
  errors : s.errors = s'.errors
  expCut : s.expCut = s'.expCut

namespace St.equiv
variable {m : Machine} {s s' : St}

theorem refl (m : Machine) (s : St) : St.equiv m s s :=
  ⟨List.Perm.refl _, rfl, rfl, rfl, TraceEq.refl m _, rfl, rfl, rfl, rfl, rfl⟩

theorem setErr (h : St.equiv m s s') (e : Option EErr) :
    St.equiv m { s with err := e } { s' with err := e } :=
  ⟨h.cfg, h.hist, h.queue, h.status, h.trace, rfl, h.ctx, h.raiseDepth, h.errors, h.expCut⟩
theorem setCtx (h : St.equiv m s s') (c : Ctx) :
    St.equiv m { s with ctx := c } { s' with ctx := c } :=
  ⟨h.cfg, h.hist, h.queue, h.status, h.trace, h.err, rfl, h.raiseDepth, h.errors, h.expCut⟩
theorem setCfg (h : St.equiv m s s') {c c' : List Path} (hc : c.Perm c') :
    St.equiv m { s with cfg := c } { s' with cfg := c' } :=
  ⟨hc, h.hist, h.queue, h.status, h.trace, h.err, h.ctx, h.raiseDepth, h.errors, h.expCut⟩
theorem setHist (h : St.equiv m s s') (x : List (Path × List Path)) :
    St.equiv m { s with hist := x } { s' with hist := x } :=
  ⟨h.cfg, rfl, h.queue, h.status, h.trace, h.err, h.ctx, h.raiseDepth, h.errors, h.expCut⟩
theorem setStatus (h : St.equiv m s s') (x : String) :
    St.equiv m { s with status := x } { s' with status := x } :=
  ⟨h.cfg, h.hist, h.queue, rfl, h.trace, h.err, h.ctx, h.raiseDepth, h.errors, h.expCut⟩
theorem setQueue (h : St.equiv m s s') (x : List QEv) :
    St.equiv m { s with queue := x } { s' with queue := x } :=
  ⟨h.cfg, h.hist, rfl, h.status, h.trace, h.err, h.ctx, h.raiseDepth, h.errors, h.expCut⟩
theorem setExpCut (h : St.equiv m s s') (x : Bool) :
    St.equiv m { s with expCut := x } { s' with expCut := x } :=
  ⟨h.cfg, h.hist, h.queue, h.status, h.trace, h.err, h.ctx, h.raiseDepth, h.errors, rfl⟩
theorem setRaiseDepth (h : St.equiv m s s') (x : Nat) :
    St.equiv m { s with raiseDepth := x } { s' with raiseDepth := x } :=
  ⟨h.cfg, h.hist, h.queue, h.status, h.trace, h.err, h.ctx, rfl, h.errors, h.expCut⟩

theorem emitRec (h : St.equiv m s s') {r r' : String} (hr : RecEq m r r') :
    St.equiv m (emit r s) (emit r' s') :=
  ⟨h.cfg, h.hist, h.queue, h.status, TraceEq.cons hr h.trace, h.err, h.ctx, h.raiseDepth, h.errors, h.expCut⟩
theorem emit (h : St.equiv m s s') (r : String) : St.equiv m (XSM.emit r s) (XSM.emit r s') :=
  h.emitRec (Or.inl rfl)

theorem fail (h : St.equiv m s s') (e : EErr) : St.equiv m (s.fail e) (s'.fail e) := by
  unfold St.fail
  rw [← h.err]
  split
  · exact h
  · exact h.setErr _

theorem addActive (h : St.equiv m s s') (p : Path) : St.equiv m (addActive p s) (addActive p s') := by
  unfold XSM.addActive
  rw [← h.cfg.contains_eq]
  split
  · exact h
  · exact h.setCfg (h.cfg.append_right _)

theorem delActive (h : St.equiv m s s') (p : Path) : St.equiv m (delActive p s) (delActive p s') :=
  h.setCfg (h.cfg.filter _)

theorem complete (h : St.equiv m s s') : St.equiv m (complete s) (complete s') := by
  unfold XSM.complete
  rw [← h.status]
  split
  · exact h.setStatus _
  · exact h

theorem enqueueQ (h : St.equiv m s s') (b : Bool) (e : Ev) :
    St.equiv m (enqueueQ b e s) (enqueueQ b e s') := by
  unfold XSM.enqueueQ
  by_cases hs : s.status = "running"
  · rw [if_pos hs, if_pos (h.status ▸ hs), ← h.queue]; exact h.setQueue _
  · rw [if_neg hs, if_neg (h.status ▸ hs)]; exact h

theorem obs (h : St.equiv m s s') : St.equiv m (XSM.emit (obsRecord m s) s) (XSM.emit (obsRecord m s') s') :=
  h.emitRec (Or.inr ⟨s.cfg, s'.cfg, h.cfg, rfl, rfl⟩)
end St.equiv

/-- hooks that respect the equivalence (every engine's hooks do: `hooks*_perm`) -/
structure HooksPerm (m : Machine) (h : Hooks) : Prop where
  snd : ∀ e s s', St.equiv m s s' → St.equiv m (h.snd e s) (h.snd e s')
  sndRaise : ∀ e s s', St.equiv m s s' → St.equiv m (h.sndRaise e s) (h.sndRaise e s')
  geval : ∀ g s s' ev, St.equiv m s s' → h.geval g s ev = h.geval g s' ev

theorem mkHooks_geval_perm (u : UEnv) (m : Machine) (b : Bool) (f g : Snd) :
    ∀ ge s s' ev, St.equiv m s s' → (mkHooks u m b f g).geval ge s ev = (mkHooks u m b f g).geval ge s' ev := by
  intro ge s s' ev h
  simp only [mkHooks]
  rw [← h.ctx]
  exact evalGuard_perm m h.cfg _ ge

theorem hooksFlagged_perm (u : UEnv) (m : Machine) : HooksPerm m (hooksFlagged u m) :=
  ⟨fun e _ _ h => h.enqueueQ true e, fun e _ _ h => h.enqueueQ true e, mkHooks_geval_perm u m _ _ _⟩
theorem hooksAsyncStart_perm (u : UEnv) (m : Machine) : HooksPerm m (hooksAsyncStart u m) :=
  ⟨fun e _ _ h => h.enqueueQ false e, fun e _ _ h => h.enqueueQ false e, mkHooks_geval_perm u m _ _ _⟩
theorem hooksAsync_perm (u : UEnv) (m : Machine) : HooksPerm m (hooksAsync u m) := by
  refine ⟨?_, ?_, mkHooks_geval_perm u m _ _ _⟩
  · intro e s s' h
    simp only [hooksAsync, mkHooks]
    rw [← h.raiseDepth]
    exact (h.setRaiseDepth _).enqueueQ true e
  · intro e s s' h
    simp only [hooksAsync, mkHooks]
    rw [← h.raiseDepth]
    exact (h.setRaiseDepth _).enqueueQ true e

/-- accumulator of `_execute_actions` -/
def AccEq (m : Machine) (a a' : St × Bool) : Prop := St.equiv m a.1 a'.1 ∧ a.2 = a'.2

theorem pickBranch_perm {m : Machine} {h : Hooks} (hh : HooksPerm m h) {s s' : St} (he : St.equiv m s s')
    (evType : String) : ∀ bs, pickBranch h s evType bs = pickBranch h s' evType bs := by
  intro bs
  induction bs with
  | nil => rfl
  | cons b bs ih =>
    obtain ⟨g, acts⟩ := b
    simp only [pickBranch, ih]
    split
    · rfl
    · rfl
    · split
      · rfl
      · rw [hh.geval _ s s' evType he]

theorem assignStep_equiv {m : Machine} {s s' : St} (he : St.equiv m s s') (canon : String) (cut : Bool)
    (a : ActionRef) : St.equiv m (assignStep canon cut a s) (assignStep canon cut a s') := by
  unfold assignStep
  split
  · exact he.setExpCut _
  · split
    · rw [← he.ctx]; exact he.setCtx _
    · exact he

theorem endExpansion_equiv {m : Machine} {s s' : St} (he : St.equiv m s s') (f : Nat) :
    St.equiv m (endExpansion f s) (endExpansion f s') := by
  unfold endExpansion
  split
  · exact he.setExpCut _
  · exact he

theorem finishBuiltin_equiv {m : Machine} {h : Hooks} (hh : HooksPerm m h) {s s' : St} (he : St.equiv m s s')
    (canon : String) (a : ActionRef) : AccEq m (finishBuiltin h canon a s) (finishBuiltin h canon a s') := by
  unfold finishBuiltin
  rw [← he.err]
  split
  · exact ⟨(he.setErr none).emit _, rfl⟩
  · split
    · split
      · exact ⟨hh.sndRaise _ _ _ he, rfl⟩
      · exact ⟨he, rfl⟩
    · exact ⟨he, rfl⟩

theorem builtinStep_equiv {m : Machine} {h : Hooks} (hh : HooksPerm m h)
    (nested : List ActionRef → String → St → St)
    (hn : ∀ fs ev s s', St.equiv m s s' → St.equiv m (nested fs ev s) (nested fs ev s'))
    (cut : Bool) (evType canon : String) (a : ActionRef) {s s' : St} (he : St.equiv m s s') :
    AccEq m (builtinStep h nested cut evType canon a s) (builtinStep h nested cut evType canon a s') := by
  unfold builtinStep
  simp only
  rw [← pickBranch_perm hh he evType, ← he.expCut]
  split
  · exact ⟨he.emit _, rfl⟩
  · apply finishBuiltin_equiv hh
    split
    · exact assignStep_equiv he _ _ _
    · exact hn _ _ _ _ (assignStep_equiv he _ _ _)

theorem actStep_equiv {m : Machine} {h : Hooks} (hh : HooksPerm m h)
    (nested : List ActionRef → String → St → St)
    (hn : ∀ fs ev s s', St.equiv m s s' → St.equiv m (nested fs ev s) (nested fs ev s'))
    (cut : Bool) (evType : String) {acc acc' : St × Bool} (he : AccEq m acc acc') (a : ActionRef) :
    AccEq m (actStep h nested cut evType acc a) (actStep h nested cut evType acc' a) := by
  obtain ⟨h1, h2⟩ := he
  unfold actStep
  rw [← h2, ← h1.err, ← h1.ctx]
  split
  · exact ⟨h1, h2⟩
  · split
    · exact ⟨(h1.setCtx _).emit _, rfl⟩
    · split
      · exact ⟨h1.fail _, rfl⟩
      · exact ⟨(h1.setCtx _).emit _, rfl⟩
    · exact ⟨(h1.emit _).emit _, rfl⟩
    · split
      · exact ⟨h1.fail _, rfl⟩
      · exact builtinStep_equiv hh nested hn cut evType _ a h1

theorem foldl_actStep_equiv {m : Machine} {h : Hooks} (hh : HooksPerm m h)
    (nested : List ActionRef → String → St → St)
    (hn : ∀ fs ev s s', St.equiv m s s' → St.equiv m (nested fs ev s) (nested fs ev s'))
    (cut : Bool) (evType : String) : ∀ (as : List ActionRef) {acc acc' : St × Bool}, AccEq m acc acc' →
      AccEq m (as.foldl (actStep h nested cut evType) acc) (as.foldl (actStep h nested cut evType) acc') := by
  intro as
  induction as with
  | nil => intro acc acc' he; exact he
  | cons a as ih =>
    intro acc acc' he
    simp only [List.foldl_cons]
    exact ih (actStep_equiv hh nested hn cut evType he a)

theorem execActionsF_equiv {m : Machine} {h : Hooks} (hh : HooksPerm m h) :
    ∀ (fuel : Nat) (as : List ActionRef) (evType : String) (s s' : St), St.equiv m s s' →
      St.equiv m (execActionsF h fuel as evType s) (execActionsF h fuel as evType s') := by
  intro fuel
  induction fuel with
  | zero =>
    intro as evType s s' he
    unfold execActionsF
    exact (foldl_actStep_equiv hh _ (fun _ _ _ _ h => h) true evType as (acc := (s, false)) (acc' := (s', false)) ⟨he, rfl⟩).1
  | succ f ih =>
    intro as evType s s' he
    unfold execActionsF
    exact (foldl_actStep_equiv hh _ (fun fs ev s s' h => endExpansion_equiv (ih fs ev s s' h) _) false evType as (acc := (s, false)) (acc' := (s', false)) ⟨he, rfl⟩).1

/-- **actions**: running an action list on equivalent states gives equivalent states -/
theorem execActions_equiv {m : Machine} {h : Hooks} (hh : HooksPerm m h) (as : List ActionRef)
    (evType : String) {s s' : St} (he : St.equiv m s s') :
    St.equiv m (execActions h as evType s) (execActions h as evType s') :=
  execActionsF_equiv hh _ as evType s s' he

theorem isStateDone_fun_perm (m : Machine) {cfg cfg' : List Path} (hp : cfg.Perm cfg')
    (hu : CompUniq cfg [] m.root) : isStateDone m cfg = isStateDone m cfg' :=
  funext (fun p => isStateDone_perm m hp hu p)

theorem checkAndFireOnDone_equiv {m : Machine} {h : Hooks} (hh : HooksPerm m h) (fin : Path) {s s' : St}
    (he : St.equiv m s s') (hu : CompUniq s.cfg [] m.root) :
    St.equiv m (checkAndFireOnDone h m fin s) (checkAndFireOnDone h m fin s') := by
  unfold checkAndFireOnDone
  simp only [← isStateDone_fun_perm m he.cfg hu]
  split
  · exact hh.snd _ _ _ he
  · split
    · exact he.complete
    · exact he

/-- the configuration after one entry is the old one or the old one plus the entered state -/
theorem enterOne_cfg (h : Hooks) (hok : HooksOK h) (fl : Flavor) (m : Machine) (ev : Option String)
    (s : St) (e : Entry) :
    (enterOne h fl m ev s e).cfg = s.cfg ∨ (enterOne h fl m ev s e).cfg = (addActive e.path s).cfg := by
  unfold enterOne
  split
  · exact Or.inl rfl
  · split
    · exact Or.inl rfl
    · rename_i d _
      have hc := execActions_cfg h hok (entryEvName fl m e ev) d.entry (addActive e.path s)
      simp only
      split
      · exact Or.inr hc
      · split
        · exact Or.inr ((checkDone_cfg_err h hok m e.path _).1.trans hc)
        · exact Or.inr hc

theorem addActive_sup (p : Path) (s : St) : ∀ q ∈ s.cfg, q ∈ (addActive p s).cfg :=
  fun _ hq => mem_addActive.2 (Or.inl hq)

theorem enterOne_sup (h : Hooks) (hok : HooksOK h) (fl : Flavor) (m : Machine) (ev : Option String)
    (s : St) (e : Entry) : ∀ q ∈ s.cfg, q ∈ (enterOne h fl m ev s e).cfg := by
  intro q hq
  rcases enterOne_cfg h hok fl m ev s e with hc | hc
  · rw [hc]; exact hq
  · rw [hc]; exact addActive_sup _ _ q hq

theorem enterFold_sup (h : Hooks) (hok : HooksOK h) (fl : Flavor) (m : Machine) (ev : Option String) :
    ∀ (es : List Entry) (s : St), ∀ q ∈ s.cfg, q ∈ (es.foldl (enterOne h fl m ev) s).cfg := by
  intro es
  induction es with
  | nil => intro s q hq; exact hq
  | cons e es ih =>
    intro s q hq
    simp only [List.foldl_cons]
    exact ih _ q (enterOne_sup h hok fl m ev s e q hq)

/-- one entry. The uniqueness hypothesis is about the configuration the entry produces (done-ness is
    evaluated there). -/
theorem enterOne_equiv {m : Machine} {h : Hooks} (hok : HooksOK h) (hh : HooksPerm m h) (fl : Flavor)
    (ev : Option String) {s s' : St} (he : St.equiv m s s') (e : Entry)
    (hu : CompUniq (enterOne h fl m ev s e).cfg [] m.root) :
    St.equiv m (enterOne h fl m ev s e) (enterOne h fl m ev s' e) := by
  by_cases herr : s.err.isSome = true
  · have herr' : s'.err.isSome = true := he.err ▸ herr
    unfold enterOne; rw [if_pos herr, if_pos herr']; exact he
  · have herr' : ¬ s'.err.isSome = true := he.err ▸ herr
    cases hd : m.defAt e.path with
    | none => unfold enterOne; simp only [if_neg herr, if_neg herr', hd]; exact he
    | some d =>
      have h1 := execActions_equiv hh d.entry (entryEvName fl m e ev) (he.addActive e.path)
      unfold enterOne at hu ⊢
      simp only [if_neg herr, if_neg herr', hd] at hu ⊢
      by_cases he2 : (execActions h d.entry (entryEvName fl m e ev) (addActive e.path s)).err.isSome = true
      · have he2' := h1.err ▸ he2
        rw [if_pos he2, if_pos he2']; exact h1
      · have he2' := h1.err ▸ he2
        rw [if_neg he2] at hu
        rw [if_neg he2, if_neg he2']
        split
        · rename_i hfin
          rw [if_pos hfin, (checkDone_cfg_err h hok m e.path _).1] at hu
          exact checkAndFireOnDone_equiv hh e.path h1 hu
        · exact h1

theorem enterFold_equiv {m : Machine} {h : Hooks} (hok : HooksOK h) (hh : HooksPerm m h) (fl : Flavor)
    (ev : Option String) : ∀ (es : List Entry) {s s' : St}, St.equiv m s s' →
      CompUniq (es.foldl (enterOne h fl m ev) s).cfg [] m.root →
      St.equiv m (es.foldl (enterOne h fl m ev) s) (es.foldl (enterOne h fl m ev) s') := by
  intro es
  induction es with
  | nil => intro s s' he _; exact he
  | cons e es ih =>
    intro s s' he hu
    simp only [List.foldl_cons] at hu ⊢
    refine ih (enterOne_equiv hok hh fl ev he e ?_) hu
    exact CompUniq.sub (enterFold_sup h hok fl m ev es _) [] m.root hu

theorem exitOne_equiv {m : Machine} {h : Hooks} (hh : HooksPerm m h) (fl : Flavor)
    (ev : Option String) {s s' : St} (he : St.equiv m s s') (p : Path) :
    St.equiv m (exitOne h fl m ev s p) (exitOne h fl m ev s' p) := by
  unfold exitOne
  rw [← he.err]
  split
  · exact he
  · split
    · exact he
    · exact (execActions_equiv hh _ _ he).delActive p

theorem exitFold_equiv {m : Machine} {h : Hooks} (hh : HooksPerm m h) (fl : Flavor)
    (ev : Option String) : ∀ (ps : List Path) {s s' : St}, St.equiv m s s' →
      St.equiv m (ps.foldl (exitOne h fl m ev) s) (ps.foldl (exitOne h fl m ev) s') := by
  intro ps
  induction ps with
  | nil => intro s s' he; exact he
  | cons p ps ih => intro s s' he; exact ih (exitOne_equiv hh fl ev he p)

theorem recordHistory_equiv {m : Machine} (ex : List Path) {s s' : St} (he : St.equiv m s s')
    (hinj : IdInj m s.cfg) : St.equiv m (recordHistory m ex s) (recordHistory m ex s') := by
  rw [recordHistory_other m ex s, recordHistory_other m ex s', ← recordHistory_perm m ex s s' he.cfg he.hist hinj]
  exact he.setHist _

theorem runPlan_equiv {m : Machine} {h : Hooks} (hok : HooksOK h) (hh : HooksPerm m h) (fl : Flavor)
    (ev : Ev) (pl : Plan) {s s' : St} (he : St.equiv m s s') (hinj : IdInj m s.cfg)
    (hu : CompUniq (runPlan h fl m ev pl s).cfg [] m.root) :
    St.equiv m (runPlan h fl m ev pl s) (runPlan h fl m ev pl s') := by
  unfold runPlan at hu ⊢
  simp only at hu ⊢
  have h2 := exitFold_equiv hh fl (some ev.type) pl.exits (recordHistory_equiv pl.exits he hinj)
  have h3 : St.equiv m
      (if (pl.exits.foldl (exitOne h fl m (some ev.type)) (recordHistory m pl.exits s)).err.isSome then
        pl.exits.foldl (exitOne h fl m (some ev.type)) (recordHistory m pl.exits s)
       else execActions h pl.actions ev.type
        (pl.exits.foldl (exitOne h fl m (some ev.type)) (recordHistory m pl.exits s)))
      (if (pl.exits.foldl (exitOne h fl m (some ev.type)) (recordHistory m pl.exits s')).err.isSome then
        pl.exits.foldl (exitOne h fl m (some ev.type)) (recordHistory m pl.exits s')
       else execActions h pl.actions ev.type
        (pl.exits.foldl (exitOne h fl m (some ev.type)) (recordHistory m pl.exits s'))) := by
    rw [← h2.err]
    split
    · exact h2
    · exact execActions_equiv hh _ _ h2
  have hu' : CompUniq (pl.entries.foldl (enterOne h fl m (some ev.type))
      (if (pl.exits.foldl (exitOne h fl m (some ev.type)) (recordHistory m pl.exits s)).err.isSome then
        pl.exits.foldl (exitOne h fl m (some ev.type)) (recordHistory m pl.exits s)
       else execActions h pl.actions ev.type
        (pl.exits.foldl (exitOne h fl m (some ev.type)) (recordHistory m pl.exits s)))).cfg [] m.root := by
    split at hu
    · rwa [fail_cfg'] at hu
    · exact hu
  have h4 := enterFold_equiv hok hh fl (some ev.type) pl.entries h3 hu'
  split
  · exact h4.fail _
  · exact h4

/-- **one transition, whole state**: from states that differ only in the order of `cfg`, executing the
    same plan gives states that differ only in the order of `cfg` (and of its echo in the `#t:` record).
    `hu`: in the configuration the plan produces every compound state has at most one active child. -/
theorem execute_equiv {m : Machine} {h : Hooks} (hok : HooksOK h) (hh : HooksPerm m h) (fl : Flavor)
    (ev : Ev) (pl : Plan) {s s' : St} (he : St.equiv m s s') (hinj : IdInj m s.cfg)
    (hu : pl.internal = false → CompUniq (runPlan h fl m ev pl s).cfg [] m.root) :
    St.equiv m (execute h fl m ev pl s) (execute h fl m ev pl s') := by
  have hc : St.equiv m (executeCore h fl m ev pl s) (executeCore h fl m ev pl s') := by
    unfold executeCore
    split
    · split
      · exact he.fail _
      · exact execActions_equiv hh _ _ he
    · rename_i hi
      have hr := runPlan_equiv hok hh fl ev pl he hinj (hu (by simpa using hi))
      simp only
      by_cases hre : (runPlan h fl m ev pl s).err.isSome = true
      · rw [if_pos hre, if_pos (hr.err ▸ hre)]; exact hr.setCfg he.cfg
      · rw [if_neg hre, if_neg (hr.err ▸ hre)]; exact hr
  unfold execute
  simp only
  rw [← hc.err]
  split
  · exact hc
  · exact hc.obs

-- ---------------------------------------------------------------------------------------------
-- 3b. select + plan + execute, one event, the eventless loop
-- ---------------------------------------------------------------------------------------------

theorem select_equiv (m : Machine) (u : UEnv) (ev : Ev) (et : String) {s s' : St} (he : St.equiv m s s')
    (hinj : IdInj m s.cfg) :
    selectTransitions m s.cfg (u.genv s.ctx et) ev = selectTransitions m s'.cfg (u.genv s'.ctx et) ev := by
  rw [← he.ctx]; exact selectTransitions_perm m he.cfg hinj _ ev

/-- one selected transition: plan it in each state, execute it in each state -/
theorem microstep_equiv {m : Machine} {h : Hooks} (hok : HooksOK h) (hh : HooksPerm m h) (fl : Flavor)
    (ev : Ev) (c : Cand) {s s' : St} (he : St.equiv m s s') (hinj : IdInj m s.cfg)
    (hu : (planTransition m s.cfg s.hist c).internal = false →
      CompUniq (runPlan h fl m ev (planTransition m s.cfg s.hist c) s).cfg [] m.root) :
    St.equiv m (execute h fl m ev (planTransition m s.cfg s.hist c) s)
      (execute h fl m ev (planTransition m s'.cfg s'.hist c) s') := by
  rw [← he.hist, ← planTransition_perm m he.cfg hinj]
  exact execute_equiv hok hh fl ev _ he hinj hu

/-- an invariant of the run that provides the two hypotheses at every step (for a well-formed machine
    with dot-free keys: "the configuration is legal", by C01 and `idInj_of_dotFree`) -/
structure StepInv (m : Machine) (h : Hooks) (fl : Flavor) (P : St → Prop) : Prop where
  inj : ∀ s, P s → IdInj m s.cfg
  uniq : ∀ s ev c, P s → (planTransition m s.cfg s.hist c).internal = false →
    CompUniq (runPlan h fl m ev (planTransition m s.cfg s.hist c) s).cfg [] m.root
  step : ∀ s ev c, P s → P (execute h fl m ev (planTransition m s.cfg s.hist c) s)
  fail : ∀ s e, P s → P (s.fail e)

theorem selFold_equiv {m : Machine} {h : Hooks} (hok : HooksOK h) (hh : HooksPerm m h) (fl : Flavor)
    (ev : Ev) {P : St → Prop} (hP : StepInv m h fl P) (b : Bool) : ∀ (l : List Cand) {s s' : St},
      St.equiv m s s' → P s →
      St.equiv m
        (l.foldl (fun s c => if s.err.isSome then s else if finished s.status then s
          else if b && !(s.cfg.contains c.src) then s
          else execute h fl m ev (planTransition m s.cfg s.hist c) s) s)
        (l.foldl (fun s c => if s.err.isSome then s else if finished s.status then s
          else if b && !(s.cfg.contains c.src) then s
          else execute h fl m ev (planTransition m s.cfg s.hist c) s) s') ∧
      P (l.foldl (fun s c => if s.err.isSome then s else if finished s.status then s
          else if b && !(s.cfg.contains c.src) then s
          else execute h fl m ev (planTransition m s.cfg s.hist c) s) s) := by
  intro l
  induction l with
  | nil => intro s s' he hs; exact ⟨he, hs⟩
  | cons c l ih =>
    intro s s' he hs
    simp only [List.foldl_cons]
    by_cases h1 : s.err.isSome = true
    · have h1' : s'.err.isSome = true := he.err ▸ h1
      rw [if_pos h1, if_pos h1']; exact ih he hs
    · have h1' : ¬ s'.err.isSome = true := he.err ▸ h1
      rw [if_neg h1, if_neg h1']
      by_cases h3 : finished s.status = true
      · have h3' : finished s'.status = true := he.status ▸ h3
        rw [if_pos h3, if_pos h3']; exact ih he hs
      have h3' : ¬ finished s'.status = true := he.status ▸ h3
      rw [if_neg h3, if_neg h3']
      by_cases h2 : (b && !(s.cfg.contains c.src)) = true
      · have h2' : (b && !(s'.cfg.contains c.src)) = true := he.cfg.contains_eq ▸ h2
        rw [if_pos h2, if_pos h2']; exact ih he hs
      · have h2' : ¬ (b && !(s'.cfg.contains c.src)) = true := he.cfg.contains_eq ▸ h2
        rw [if_neg h2, if_neg h2']
        exact ih (microstep_equiv hok hh fl ev c he (hP.inj s hs) (hP.uniq s ev c hs)) (hP.step s ev c hs)

/-- **one event**: selection, planning and execution of every selected transition -/
theorem processEvent_equiv {m : Machine} {h : Hooks} (hok : HooksOK h) (hh : HooksPerm m h) (fl : Flavor)
    (u : UEnv) (ev : Ev) {P : St → Prop} (hP : StepInv m h fl P) {s s' : St} (he : St.equiv m s s') (hs : P s) :
    St.equiv m (processEvent h fl m u ev s) (processEvent h fl m u ev s') ∧ P (processEvent h fl m u ev s) := by
  unfold processEvent
  rw [← select_equiv m u ev ev.type he (hP.inj s hs)]
  split
  · exact ⟨he.fail _, hP.fail _ _ hs⟩
  · rename_i sel _
    exact selFold_equiv hok hh fl ev hP _ sel he hs

/-- **the eventless loop** -/
theorem transientLoop_equiv {m : Machine} {h : Hooks} (hok : HooksOK h) (hh : HooksPerm m h) (fl : Flavor)
    (u : UEnv) {P : St → Prop} (hP : StepInv m h fl P) : ∀ (fuel : Nat) {s s' : St}, St.equiv m s s' → P s →
      St.equiv m (transientLoop h fl m u fuel s) (transientLoop h fl m u fuel s') ∧
        P (transientLoop h fl m u fuel s) := by
  intro fuel
  induction fuel with
  | zero => intro s s' he hs; exact ⟨he, hs⟩
  | succ f ih =>
    intro s s' he hs
    unfold transientLoop
    by_cases h1 : s.err.isSome = true
    · have h1' : s'.err.isSome = true := he.err ▸ h1
      rw [if_pos h1, if_pos h1']; exact ⟨he, hs⟩
    · have h1' : ¬ s'.err.isSome = true := he.err ▸ h1
      rw [if_neg h1, if_neg h1', ← select_equiv m u (.user "") "" he (hP.inj s hs)]
      split
      · exact ⟨he.fail _, hP.fail _ _ hs⟩
      · split
        · obtain ⟨h2, h3⟩ := processEvent_equiv hok hh fl u (.user "") hP he hs
          exact ih h2 h3
        · exact ⟨he, hs⟩

-- ---------------------------------------------------------------------------------------------
-- 3c. discharging the hypotheses from C01 (`Legal`) for a transition that completes
-- ---------------------------------------------------------------------------------------------

theorem runPlan_cfg_of_ok (h : Hooks) (fl : Flavor) (m : Machine) (ev : Ev) (pl : Plan) (s : St)
    (hint : pl.internal = false) (herr : (execute h fl m ev pl s).err = none) :
    (runPlan h fl m ev pl s).cfg = (execute h fl m ev pl s).cfg := by
  rw [execute_err_eq] at herr
  rw [execute_cfg_eq]
  unfold executeCore at herr ⊢
  simp only [hint, Bool.false_eq_true, if_false] at herr ⊢
  by_cases hr : (runPlan h fl m ev pl s).err.isSome = true
  · rw [if_pos hr] at herr
    simp only at herr
    rw [herr] at hr; simp at hr
  · rw [if_neg hr]

theorem compUniq_runPlan_of_legal (h : Hooks) (fl : Flavor) (m : Machine) (ev : Ev) (pl : Plan) (s : St)
    (hwf : WF m.root) (hint : pl.internal = false) (herr : (execute h fl m ev pl s).err = none)
    (hL : Legal m.root (execute h fl m ev pl s).cfg) :
    CompUniq (runPlan h fl m ev pl s).cfg [] m.root := by
  rw [runPlan_cfg_of_ok h fl m ev pl s hint herr]
  exact compUniq_root_of_legal hwf hL

/-- one completed transition from a legal configuration with dot-free keys: every hypothesis of
    `microstep_equiv` follows from C01 (`legal_microstep`) and `idOf_injective` -/
theorem microstep_equiv_legal {m : Machine} {h : Hooks} (hok : HooksOK h) (hh : HooksPerm m h) (fl : Flavor)
    (ev : Ev) (c : Cand) {s s' : St} (he : St.equiv m s s')
    (hwf : WF m.root) (hi : InitOK m.root) (hl : Legal m.root s.cfg) (hc : CandOK m c) (hsrc : c.src ∈ s.cfg)
    (hdf : DotFree s.cfg)
    (herr : (execute h fl m ev (planTransition m s.cfg s.hist c) s).err = none) :
    St.equiv m (execute h fl m ev (planTransition m s.cfg s.hist c) s)
      (execute h fl m ev (planTransition m s'.cfg s'.hist c) s') :=
  microstep_equiv hok hh fl ev c he (idInj_of_dotFree m s.cfg hdf)
    (fun hint => compUniq_runPlan_of_legal h fl m ev _ s hwf hint herr
      (legal_microstep h hok fl m ev c s hwf hi hl hc hsrc))

mutual
theorem compUniq_of_forall {cfg : List Path} (hU : ∀ p, UniqAt cfg p) : ∀ (p : Path) (n : SNode), CompUniq cfg p n
  | p, .mk d kids => by
    simp only [CompUniq]
    exact ⟨fun _ => hU p, compUniqKids_of_forall hU p kids⟩
theorem compUniqKids_of_forall {cfg : List Path} (hU : ∀ p, UniqAt cfg p) :
    ∀ (p : Path) (ks : List (String × SNode)), CompUniqKids cfg p ks
  | _, [] => by simp only [CompUniqKids]
  | p, (k, c) :: rest => by
    simp only [CompUniqKids]
    exact ⟨compUniq_of_forall hU (p ++ [k]) c, compUniqKids_of_forall hU p rest⟩
end

end XSM
