import Xsm.Proofs.Done
import Xsm.Proofs.Faults
/-
Helper definitions and lemmas for C13 (bounded self-feeding chains; `start()` / `send()` return).
Everything is about the executable model (`Xsm/Model/Engine.lean`); nothing here changes it.

Contents
  1. `Grow b s s'`      — "append-only": the step from `s` to `s'` only appended `b`-flagged entries
                          to the queue, counted every self-flagged one in `raiseDepth`, and left
                          `status` alone or set it to "done".  Proved for every function of the
                          EXECUTE side (`actStep` … `transientLoop`) under `HooksGrow b h`.
  2. `AInv`, `potential` — the invariant and the measure of the async run loop; `asyncStep_measure`.
  3. `asyncDrain`       — fuel irrelevance above `potential`, no "HANG".
  4. instrumented twins of `transientLoop` (iteration counter, cut flag); those of the sync drain
     `drainLoop` are in `Xsm/Proofs/SyncDrain.lean`.
  5. example machines for `Xsm/Properties/C13.lean`.
-/
namespace XSM.Term
open XSM XSM.Done

/-! ## 1. append-only steps -/

/-- number of queued events the interpreter raised at itself -/
def cntSelf (l : List QEv) : Nat := l.countP (fun q => q.self)
/-- number of queued events that came from outside (`send`) -/
def cntExt (l : List QEv) : Nat := l.countP (fun q => !q.self)

theorem cntSelf_append (a b : List QEv) : cntSelf (a ++ b) = cntSelf a + cntSelf b := by
  simp [cntSelf, List.countP_append]
theorem cntExt_append (a b : List QEv) : cntExt (a ++ b) = cntExt a + cntExt b := by
  simp [cntExt, List.countP_append]
theorem cntSelf_cons (q : QEv) (l : List QEv) : cntSelf (q :: l) = (if q.self then 1 else 0) + cntSelf l := by
  simp only [cntSelf, List.countP_cons]; omega
theorem cntExt_cons (q : QEv) (l : List QEv) : cntExt (q :: l) = (if q.self then 0 else 1) + cntExt l := by
  simp only [cntExt, List.countP_cons]
  cases q.self <;> simp <;> omega
theorem cntSelf_all_true {l : List QEv} (h : ∀ q ∈ l, q.self = true) : cntSelf l = l.length ∧ cntExt l = 0 := by
  induction l with
  | nil => exact ⟨rfl, rfl⟩
  | cons q l ih =>
    have hq := h q (by simp)
    obtain ⟨h1, h2⟩ := ih (fun q' hq' => h q' (List.mem_cons_of_mem _ hq'))
    rw [cntSelf_cons, cntExt_cons, h1, h2, hq]
    simp; omega
theorem cntSelf_all_false {l : List QEv} (h : ∀ q ∈ l, q.self = false) : cntSelf l = 0 ∧ cntExt l = l.length := by
  induction l with
  | nil => exact ⟨rfl, rfl⟩
  | cons q l ih =>
    have hq := h q (by simp)
    obtain ⟨h1, h2⟩ := ih (fun q' hq' => h q' (List.mem_cons_of_mem _ hq'))
    rw [cntSelf_cons, cntExt_cons, h1, h2, hq]
    simp; omega
theorem cnt_total (l : List QEv) : cntSelf l + cntExt l = l.length := by
  induction l with
  | nil => rfl
  | cons q l ih =>
    rw [cntSelf_cons, cntExt_cons, List.length_cons]
    cases q.self <;> simp <;> omega
/-- the purge of the chain breaker keeps exactly the external events -/
theorem cnt_purge (l : List QEv) :
    cntSelf (l.filter (fun q => !q.self)) = 0 ∧ cntExt (l.filter (fun q => !q.self)) = cntExt l := by
  induction l with
  | nil => exact ⟨rfl, rfl⟩
  | cons q l ih =>
    cases hq : q.self with
    | true => simp only [List.filter_cons, hq, Bool.not_true, Bool.false_eq_true, if_false, cntExt_cons, if_true]
              exact ⟨ih.1, by rw [ih.2]; omega⟩
    | false => simp only [List.filter_cons, hq, Bool.not_false, if_true, cntExt_cons, cntSelf_cons,
                 Bool.false_eq_true, if_false]
               exact ⟨by rw [ih.1], by rw [ih.2]⟩
theorem cntSelf_zero_of_any_false {l : List QEv} (h : l.any (fun q => q.self) = false) : cntSelf l = 0 := by
  induction l with
  | nil => rfl
  | cons q l ih =>
    simp only [List.any_cons, Bool.or_eq_false_iff] at h
    rw [cntSelf_cons, ih h.2, h.1]; simp

/-- `Grow b s s'`: from `s` to `s'` the queue was only appended to, by entries flagged `b`; every
    appended self-flagged entry was counted in `raiseDepth` — exactly those if the machine is still
    running afterwards (a raise refused by a machine that is not running is still counted, so in
    general only `≤`); `status` is unchanged or became "done". -/
def Grow (b : Bool) (s s' : St) : Prop :=
  (∃ l, s'.queue = s.queue ++ l ∧ (∀ q ∈ l, q.self = b) ∧ s.raiseDepth + cntSelf l ≤ s'.raiseDepth ∧
    (s'.status = "running" → s'.raiseDepth = s.raiseDepth + cntSelf l)) ∧
  (s'.status = s.status ∨ s'.status = "done")

theorem Grow.refl (b : Bool) (s : St) : Grow b s s :=
  ⟨⟨[], by simp, by simp, by simp [cntSelf], by simp [cntSelf]⟩, Or.inl rfl⟩

/-- a step that touches neither the queue, nor the counter, nor the status -/
theorem Grow.same {b : Bool} {s s' : St} (hq : s'.queue = s.queue) (hd : s'.raiseDepth = s.raiseDepth)
    (hs : s'.status = s.status) : Grow b s s' :=
  ⟨⟨[], by simp [hq], by simp, by simp [cntSelf, hd], by simp [cntSelf, hd]⟩, Or.inl hs⟩

theorem Grow.trans {b : Bool} {s s' s'' : St} (h1 : Grow b s s') (h2 : Grow b s' s'') : Grow b s s'' := by
  obtain ⟨⟨l1, q1, f1, d1, x1⟩, st1⟩ := h1
  obtain ⟨⟨l2, q2, f2, d2, x2⟩, st2⟩ := h2
  refine ⟨⟨l1 ++ l2, by rw [q2, q1, List.append_assoc], ?_, ?_, ?_⟩, ?_⟩
  · intro q hq
    rcases List.mem_append.1 hq with h | h
    · exact f1 q h
    · exact f2 q h
  · rw [cntSelf_append]; omega
  · intro hr
    have hr' : s'.status = "running" := by
      rcases st2 with h | h
      · rw [← h]; exact hr
      · rw [h] at hr; exact absurd hr (by decide)
    rw [cntSelf_append, x2 hr, x1 hr']; omega
  · rcases st2 with h | h
    · rcases st1 with h' | h'
      · exact Or.inl (h.trans h')
      · exact Or.inr (h.trans h')
    · exact Or.inr h

/-- both send hooks are append-only -/
structure HooksGrow (b : Bool) (h : Hooks) : Prop where
  snd : ∀ e s, Grow b s (h.snd e s)
  raise : ∀ e s, Grow b s (h.sndRaise e s)

theorem enqueue_grow (e : Ev) (s : St) : Grow false s (enqueue e s) := by
  unfold enqueue enqueueQ
  split
  · exact ⟨⟨[⟨e, false⟩], rfl, by simp, by simp [cntSelf], by simp [cntSelf]⟩, Or.inl rfl⟩
  · exact Grow.refl _ _

theorem countedEnqueue_grow (e : Ev) (s : St) :
    Grow true s (enqueueQ true e { s with raiseDepth := s.raiseDepth + 1 }) := by
  unfold enqueueQ
  split
  · exact ⟨⟨[⟨e, true⟩], rfl, by simp, by simp [cntSelf], by simp [cntSelf]⟩, Or.inl rfl⟩
  · rename_i hr
    exact ⟨⟨[], by simp, by simp, by simp [cntSelf], fun h => absurd h hr⟩, Or.inl rfl⟩

theorem hooksAsyncStart_grow (u : UEnv) (m : Machine) : HooksGrow false (hooksAsyncStart u m) :=
  ⟨enqueue_grow, enqueue_grow⟩
theorem hooksAsync_grow (u : UEnv) (m : Machine) : HooksGrow true (hooksAsync u m) :=
  ⟨countedEnqueue_grow, countedEnqueue_grow⟩

theorem fail_grow (b : Bool) (s : St) (e : EErr) : Grow b s (s.fail e) := by
  unfold St.fail; split
  · exact Grow.refl _ _
  · exact Grow.same rfl rfl rfl

theorem assignStep_grow (b : Bool) (canon : String) (cut : Bool) (a : ActionRef) (s : St) :
    Grow b s (assignStep canon cut a s) := by
  unfold assignStep; split
  · exact Grow.same rfl rfl rfl
  · split
    · exact Grow.same rfl rfl rfl
    · exact Grow.refl _ _

theorem endExpansion_grow (b : Bool) (f : Nat) (s : St) : Grow b s (endExpansion f s) := by
  unfold endExpansion; split
  · exact Grow.same rfl rfl rfl
  · exact Grow.refl _ _

theorem finishBuiltin_grow {b : Bool} (h : Hooks) (hg : HooksGrow b h) (canon : String) (a : ActionRef) (s2 : St) :
    Grow b s2 (finishBuiltin h canon a s2).1 := by
  unfold finishBuiltin
  split
  · exact Grow.same rfl rfl rfl
  · split
    · split
      · exact hg.raise _ _
      · exact Grow.refl _ _
    · exact Grow.refl _ _

theorem builtinStep_grow {b : Bool} (h : Hooks) (hg : HooksGrow b h) (nested : List ActionRef → String → St → St)
    (hn : ∀ as ev s, Grow b s (nested as ev s)) (cut : Bool) (evType canon : String)
    (a : ActionRef) (s : St) : Grow b s (builtinStep h nested cut evType canon a s).1 := by
  unfold builtinStep
  simp only
  split
  · exact Grow.same rfl rfl rfl
  · refine Grow.trans ?_ (finishBuiltin_grow h hg _ _ _)
    split
    · exact assignStep_grow _ _ _ _ _
    · exact (assignStep_grow _ _ _ _ _).trans (hn _ _ _)

theorem actStep_grow {b : Bool} (h : Hooks) (hg : HooksGrow b h) (nested : List ActionRef → String → St → St)
    (hn : ∀ as ev s, Grow b s (nested as ev s)) (cut : Bool) (evType : String)
    (acc : St × Bool) (a : ActionRef) : Grow b acc.1 (actStep h nested cut evType acc a).1 := by
  unfold actStep
  split
  · exact Grow.refl _ _
  · split
    · exact Grow.same rfl rfl rfl
    · split
      · exact fail_grow _ _ _
      · exact Grow.same rfl rfl rfl
    · exact Grow.same rfl rfl rfl
    · split
      · exact fail_grow _ _ _
      · exact builtinStep_grow h hg nested hn cut evType _ a acc.1

theorem foldl_actStep_grow {b : Bool} (h : Hooks) (hg : HooksGrow b h) (nested : List ActionRef → String → St → St)
    (hn : ∀ as ev s, Grow b s (nested as ev s)) (cut : Bool) (evType : String) :
    ∀ (as : List ActionRef) (acc : St × Bool), Grow b acc.1 (as.foldl (actStep h nested cut evType) acc).1 := by
  intro as
  induction as with
  | nil => intro acc; exact Grow.refl _ _
  | cons a as ih =>
    intro acc
    simp only [List.foldl_cons]
    exact (actStep_grow h hg nested hn cut evType acc a).trans (ih _)

theorem execActionsF_grow {b : Bool} (h : Hooks) (hg : HooksGrow b h) :
    ∀ (fuel : Nat) (as : List ActionRef) (evType : String) (s : St), Grow b s (execActionsF h fuel as evType s) := by
  intro fuel
  induction fuel with
  | zero =>
    intro as evType s
    unfold execActionsF
    exact foldl_actStep_grow h hg _ (fun _ _ _ => Grow.refl _ _) true evType as (s, false)
  | succ f ih =>
    intro as evType s
    unfold execActionsF
    exact foldl_actStep_grow h hg _ (fun as ev s => (ih as ev s).trans (endExpansion_grow _ _ _)) false evType as (s, false)

/-- **actions are append-only** (user code, `assign`, `choose`, `raise`) -/
theorem execActions_grow {b : Bool} (h : Hooks) (hg : HooksGrow b h) (as : List ActionRef) (evType : String) (s : St) :
    Grow b s (execActions h as evType s) := execActionsF_grow h hg _ as evType s

theorem complete_grow (b : Bool) (s : St) : Grow b s (complete s) := by
  unfold complete; split
  · exact ⟨⟨[], by simp, by simp, by simp [cntSelf], fun h => absurd (show ("done" : String) = "running" from h) (by decide)⟩, Or.inr rfl⟩
  · exact Grow.refl _ _

theorem checkAndFireOnDone_grow {b : Bool} (h : Hooks) (hg : HooksGrow b h) (m : Machine) (fin : Path) (s : St) :
    Grow b s (checkAndFireOnDone h m fin s) := by
  unfold checkAndFireOnDone
  simp only
  split
  · exact hg.snd _ _
  · split
    · exact complete_grow _ _
    · exact Grow.refl _ _

theorem addActive_grow (b : Bool) (p : Path) (s : St) : Grow b s (addActive p s) := by
  unfold addActive; split
  · exact Grow.refl _ _
  · exact Grow.same rfl rfl rfl

theorem enterOne_grow {b : Bool} (h : Hooks) (hg : HooksGrow b h) (fl : Flavor) (m : Machine) (ev : Option String)
    (s : St) (e : Entry) : Grow b s (enterOne h fl m ev s e) := by
  unfold enterOne
  split
  · exact Grow.refl _ _
  · split
    · exact Grow.refl _ _
    · rename_i d _
      have h1 := (addActive_grow b e.path s).trans
        (execActions_grow h hg d.entry (entryEvName fl m e ev) (addActive e.path s))
      simp only
      split
      · exact h1
      · split
        · exact h1.trans (checkAndFireOnDone_grow h hg m e.path _)
        · exact h1

theorem exitOne_grow {b : Bool} (h : Hooks) (hg : HooksGrow b h) (fl : Flavor) (m : Machine) (ev : Option String)
    (s : St) (p : Path) : Grow b s (exitOne h fl m ev s p) := by
  unfold exitOne
  split
  · exact Grow.refl _ _
  · split
    · exact Grow.refl _ _
    · rename_i d _
      exact (execActions_grow h hg d.exit (exitEvName fl m p ev) s).trans (Grow.same rfl rfl rfl)

theorem foldl_grow {b : Bool} {α : Type} (f : St → α → St) (hf : ∀ s a, Grow b s (f s a)) :
    ∀ (l : List α) (s : St), Grow b s (l.foldl f s) := by
  intro l
  induction l with
  | nil => intro s; exact Grow.refl _ _
  | cons a l ih => intro s; simp only [List.foldl_cons]; exact (hf s a).trans (ih _)

theorem runPlan_grow {b : Bool} (h : Hooks) (hg : HooksGrow b h) (fl : Flavor) (m : Machine) (ev : Ev) (pl : Plan)
    (s : St) : Grow b s (runPlan h fl m ev pl s) := by
  unfold runPlan
  simp only
  have h1 : Grow b s (recordHistory m pl.exits s) := Grow.same rfl rfl rfl
  have h2 := h1.trans (foldl_grow (exitOne h fl m (some ev.type)) (exitOne_grow h hg fl m _) pl.exits _)
  generalize pl.exits.foldl (exitOne h fl m (some ev.type)) (recordHistory m pl.exits s) = s2 at h2 ⊢
  have h3 : Grow b s (if s2.err.isSome = true then s2 else execActions h pl.actions ev.type s2) := by
    split
    · exact h2
    · exact h2.trans (execActions_grow h hg _ _ _)
  generalize (if s2.err.isSome = true then s2 else execActions h pl.actions ev.type s2) = s3 at h3 ⊢
  have h4 := h3.trans (foldl_grow (enterOne h fl m (some ev.type)) (enterOne_grow h hg fl m _) pl.entries s3)
  split
  · exact h4.trans (fail_grow _ _ _)
  · exact h4

theorem execute_grow {b : Bool} (h : Hooks) (hg : HooksGrow b h) (fl : Flavor) (m : Machine) (ev : Ev) (pl : Plan)
    (s : St) : Grow b s (execute h fl m ev pl s) := by
  have hc : Grow b s (executeCore h fl m ev pl s) := by
    unfold executeCore
    split
    · split
      · exact fail_grow _ _ _
      · exact execActions_grow h hg _ _ _
    · simp only
      split
      · exact (runPlan_grow h hg fl m ev pl s).trans (Grow.same rfl rfl rfl)
      · exact runPlan_grow h hg fl m ev pl s
  unfold execute
  simp only
  split
  · exact hc
  · exact hc.trans (Grow.same rfl rfl rfl)

/-- **one macrostep is append-only**: whatever the selected transitions do -/
theorem processEvent_grow {b : Bool} (h : Hooks) (hg : HooksGrow b h) (fl : Flavor) (m : Machine) (u : UEnv)
    (ev : Ev) (s : St) : Grow b s (processEvent h fl m u ev s) := by
  unfold processEvent
  split
  · exact fail_grow _ _ _
  · rename_i sel _
    apply foldl_grow
    intro s' c
    split
    · exact Grow.refl _ _
    · split
      · exact Grow.refl _ _
      · split
        · exact Grow.refl _ _
        · exact execute_grow h hg fl m ev _ s'

theorem transientLoop_grow {b : Bool} (h : Hooks) (hg : HooksGrow b h) (fl : Flavor) (m : Machine) (u : UEnv) :
    ∀ (n : Nat) (s : St), Grow b s (transientLoop h fl m u n s) := by
  intro n
  induction n with
  | zero => intro s; exact Grow.refl _ _
  | succ n ih =>
    intro s
    simp only [transientLoop]
    split
    · exact Grow.refl _ _
    · split
      · exact fail_grow _ _ _
      · split
        · exact (processEvent_grow h hg fl m u _ s).trans (ih _)
        · exact Grow.refl _ _

/-! ## 2. the invariant and the measure of the async run loop -/

/-- every self-raised event still queued was counted since the last reset of `raiseDepth` -/
def AInv (s : St) : Prop := cntSelf s.queue ≤ s.raiseDepth

/-- chain part of the measure: `0` when no self-raised event is pending; otherwise one more than the
    room left for `raiseDepth - pending` (the self-raised events already consumed since the last
    reset) below `L + 2` -/
def chainPot (L cs d : Nat) : Nat := if cs = 0 then 0 else 1 + (L + 2 - (d - cs))

/-- the measure: `(L + 4)` per pending external event, plus the chain part -/
def potential (L : Nat) (s : St) : Nat := cntExt s.queue * (L + 4) + chainPot L (cntSelf s.queue) s.raiseDepth

theorem chainPot_le (L cs d : Nat) : chainPot L cs d ≤ L + 3 := by
  unfold chainPot; split <;> omega

theorem chainPot_lt (L cs d cs' d' k : Nat) (hcs : 0 < cs) (hI : cs ≤ d) (hd : d ≤ L)
    (h1 : cs' + 1 = cs + k) (h2 : d + k ≤ d') : chainPot L cs' d' < chainPot L cs d := by
  unfold chainPot
  have : ¬ cs = 0 := by omega
  simp only [this, if_false]
  split <;> omega

theorem chainPot_zero_lt (L cs d : Nat) (hcs : 0 < cs) : chainPot L 0 0 < chainPot L cs d := by
  unfold chainPot
  have : ¬ cs = 0 := by omega
  simp only [this, if_false, if_true]
  omega

/-- the arithmetic of one iteration. `f = 1` iff the popped event is self-raised; `csr`/`extr` count
    the rest of the queue; `d` is the counter before, primed values are after. Three shapes: the breaker
    trips on a self-raised event (dropped, chain purged); the event is processed below the bound; the
    breaker trips on an EXTERNAL event (`f = 0`), which is processed after the purge. -/
theorem pot_arith (L f csr extr d cs' ext' d' : Nat) (hf : f ≤ 1) (hI : f + csr ≤ d) (hext : ext' = extr)
    (h : (L < d ∧ cs' = 0 ∧ d' = 0) ∨
         (d ≤ L ∧ ∃ k, cs' = csr + k ∧ (d + k ≤ d' ∨ (cs' = 0 ∧ d' = 0))) ∨
         (L < d ∧ f = 0 ∧ cs' ≤ d')) :
    cs' ≤ d' ∧
      ext' * (L + 4) + chainPot L cs' d' < ((1 - f) + extr) * (L + 4) + chainPot L (f + csr) d := by
  subst hext
  constructor
  · rcases h with ⟨_, h1, h2⟩ | ⟨_, k, h1, h2 | ⟨h2, h3⟩⟩ | ⟨_, _, h3⟩ <;> omega
  · have hb := chainPot_le L cs' d'
    rcases Nat.le_one_iff_eq_zero_or_eq_one.1 hf with rfl | rfl
    · -- an external event was popped: it pays `L + 4`, more than any chain part
      have : (1 - 0 + ext') * (L + 4) = (L + 4) + ext' * (L + 4) := by
        rw [Nat.sub_zero, Nat.add_mul, Nat.one_mul]
      rw [this]; omega
    · -- a self-raised event was popped
      have : (1 - 1 + ext') * (L + 4) = ext' * (L + 4) := by simp
      rw [this]
      apply Nat.add_lt_add_left
      rcases h with ⟨_, h1, h2⟩ | ⟨hd, k, h1, h2 | ⟨h2, h3⟩⟩ | ⟨_, h0, _⟩
      · subst h1 h2; exact chainPot_zero_lt L _ _ (by omega)
      · exact chainPot_lt L (1 + csr) d cs' d' k (by omega) hI hd (by omega) h2
      · rw [h2, h3]; exact chainPot_zero_lt L _ _ (by omega)
      · omega

/-- **what processing one event does to queue, counter and status** (`asyncProcess`: macrostep,
    settling, error logging, end-of-chain test): self-flagged entries `l` are appended, each counted —
    unless the counter is reset, which happens only when no self-raised event is queued any more.
    While the machine keeps running the count is exact. -/
theorem asyncProcess_cases (m : Machine) (u : UEnv) (e : Ev) (s0 : St) :
    ∃ l, (∀ q ∈ l, q.self = true) ∧
        (asyncProcess m u e s0).queue = s0.queue ++ l ∧
        (s0.raiseDepth + l.length ≤ (asyncProcess m u e s0).raiseDepth ∨
          (cntSelf (asyncProcess m u e s0).queue = 0 ∧ (asyncProcess m u e s0).raiseDepth = 0)) ∧
        ((asyncProcess m u e s0).status = "running" →
          (asyncProcess m u e s0).raiseDepth = s0.raiseDepth + l.length ∨ (asyncProcess m u e s0).raiseDepth = 0) ∧
        ((asyncProcess m u e s0).status = s0.status ∨ (asyncProcess m u e s0).status = "done") := by
  unfold asyncProcess
  have G : Grow true (emit ("#recv:" ++ e.type) s0)
      (transientLoop (hooksAsync u m) .async m u m.maxIterations
        (processEvent (hooksAsync u m) .async m u e (emit ("#recv:" ++ e.type) s0))) :=
    (processEvent_grow _ (hooksAsync_grow u m) .async m u e _).trans
      (transientLoop_grow _ (hooksAsync_grow u m) .async m u _ _)
  simp only
  generalize (transientLoop (hooksAsync u m) .async m u m.maxIterations
        (processEvent (hooksAsync u m) .async m u e (emit ("#recv:" ++ e.type) s0))) = s2 at G ⊢
  obtain ⟨⟨l, hq, hl, hd, hx⟩, hs⟩ := G
  have hq' : s2.queue = s0.queue ++ l := hq
  have hc := (cntSelf_all_true hl).1
  have hd' : s0.raiseDepth + l.length ≤ s2.raiseDepth := by
    have hd2 : s0.raiseDepth + cntSelf l ≤ s2.raiseDepth := hd
    omega
  have hx' : s2.status = "running" → s2.raiseDepth = s0.raiseDepth + l.length := by
    intro hr
    have : s2.raiseDepth = s0.raiseDepth + cntSelf l := hx hr
    omega
  have hs' : s2.status = s0.status ∨ s2.status = "done" := hs
  refine ⟨l, hl, ?_⟩
  -- the failure handler touches neither queue, counter nor status
  generalize hs3 : (if s2.err.isSome = true then { s2 with err := none, errors := s2.errors + 1 } else s2) = s3
  have q3 : s3.queue = s2.queue := by rw [← hs3]; split <;> rfl
  have d3 : s3.raiseDepth = s2.raiseDepth := by rw [← hs3]; split <;> rfl
  have t3 : s3.status = s2.status := by rw [← hs3]; split <;> rfl
  unfold asyncChainEnd
  split
  · rename_i hc
    simp only [Bool.and_eq_true, Bool.not_eq_true', decide_eq_true_eq] at hc
    exact ⟨q3.trans hq', Or.inr ⟨cntSelf_zero_of_any_false hc.2, rfl⟩, fun _ => Or.inr rfl, t3 ▸ hs'⟩
  · exact ⟨q3.trans hq', Or.inl (d3 ▸ hd'), fun hr => Or.inl (d3 ▸ hx' (t3 ▸ hr)), t3 ▸ hs'⟩

/-- **what one iteration of the run loop does to queue, counter and status.** Either the chain
    breaker trips on a SELF-RAISED event (counter above the bound: the popped event is dropped, every
    queued self-raised event is purged, the counter is reset), or it trips on an EXTERNAL event (same
    purge and reset, then the event is processed), or the event is processed as it is. -/
theorem asyncStep_cases (m : Machine) (u : UEnv) (q : QEv) (s0 : St) :
    (m.maxIterations < s0.raiseDepth ∧ q.self = true ∧
        (asyncStep m u q s0).queue = s0.queue.filter (fun q => !q.self) ∧
        (asyncStep m u q s0).raiseDepth = 0 ∧ (asyncStep m u q s0).status = s0.status) ∨
    (m.maxIterations < s0.raiseDepth ∧ q.self = false ∧ ∃ l, (∀ q ∈ l, q.self = true) ∧
        (asyncStep m u q s0).queue = s0.queue.filter (fun q => !q.self) ++ l ∧
        (l.length ≤ (asyncStep m u q s0).raiseDepth ∨
          (cntSelf (asyncStep m u q s0).queue = 0 ∧ (asyncStep m u q s0).raiseDepth = 0)) ∧
        ((asyncStep m u q s0).status = "running" →
          (asyncStep m u q s0).raiseDepth = l.length ∨ (asyncStep m u q s0).raiseDepth = 0) ∧
        ((asyncStep m u q s0).status = s0.status ∨ (asyncStep m u q s0).status = "done")) ∨
    (s0.raiseDepth ≤ m.maxIterations ∧ ∃ l, (∀ q ∈ l, q.self = true) ∧
        (asyncStep m u q s0).queue = s0.queue ++ l ∧
        (s0.raiseDepth + l.length ≤ (asyncStep m u q s0).raiseDepth ∨
          (cntSelf (asyncStep m u q s0).queue = 0 ∧ (asyncStep m u q s0).raiseDepth = 0)) ∧
        ((asyncStep m u q s0).status = "running" →
          (asyncStep m u q s0).raiseDepth = s0.raiseDepth + l.length ∨ (asyncStep m u q s0).raiseDepth = 0) ∧
        ((asyncStep m u q s0).status = s0.status ∨ (asyncStep m u q s0).status = "done")) := by
  unfold asyncStep
  split
  · rename_i h
    cases hs : q.self with
    | true => exact Or.inl ⟨h, rfl, rfl, rfl, rfl⟩
    | false =>
      right; left
      refine ⟨h, rfl, ?_⟩
      obtain ⟨l, hl, h1, h2, h3, h4⟩ := asyncProcess_cases m u q.ev (asyncPurge s0)
      simp only [Bool.false_eq_true, if_false]
      refine ⟨l, hl, h1, ?_, ?_, h4⟩
      · rcases h2 with h2 | h2
        · left; simpa [asyncPurge] using h2
        · exact Or.inr h2
      · intro hr; rcases h3 hr with h3 | h3
        · left; simpa [asyncPurge] using h3
        · exact Or.inr h3
  · rename_i h
    right; right
    exact ⟨by omega, asyncProcess_cases m u q.ev s0⟩

/-- **(b) + (c): one iteration keeps the invariant and strictly decreases the measure**; the status
    is unchanged or became "done". `s` is the state before the event `q` is taken off the queue. -/
theorem asyncStep_measure (m : Machine) (u : UEnv) (s : St) (q : QEv) (rest : List QEv)
    (hq : s.queue = q :: rest) (hI : AInv s) :
    AInv (asyncStep m u q { s with queue := rest }) ∧
    potential m.maxIterations (asyncStep m u q { s with queue := rest }) < potential m.maxIterations s ∧
    ((asyncStep m u q { s with queue := rest }).status = s.status ∨
      (asyncStep m u q { s with queue := rest }).status = "done") := by
  have hc := asyncStep_cases m u q { s with queue := rest }
  generalize asyncStep m u q { s with queue := rest } = s' at hc ⊢
  simp only at hc
  have e1 : cntSelf s.queue = (if q.self then 1 else 0) + cntSelf rest := by rw [hq, cntSelf_cons]
  have e2 : cntExt s.queue = (1 - (if q.self then 1 else 0)) + cntExt rest := by
    rw [hq, cntExt_cons]; cases q.self <;> simp
  have hf : (if q.self then 1 else 0) ≤ 1 := by split <;> omega
  have hf0 : q.self = false → (if q.self then 1 else 0) = 0 := by intro h; simp [h]
  unfold AInv at hI ⊢
  unfold potential
  rw [e1] at hI
  rw [e1, e2]
  generalize (if q.self then 1 else 0) = f at hI hf hf0 ⊢
  have key : cntExt s'.queue = cntExt rest ∧
      ((m.maxIterations < s.raiseDepth ∧ cntSelf s'.queue = 0 ∧ s'.raiseDepth = 0) ∨
       (s.raiseDepth ≤ m.maxIterations ∧ ∃ k, cntSelf s'.queue = cntSelf rest + k ∧
          (s.raiseDepth + k ≤ s'.raiseDepth ∨ (cntSelf s'.queue = 0 ∧ s'.raiseDepth = 0))) ∨
       (m.maxIterations < s.raiseDepth ∧ f = 0 ∧ cntSelf s'.queue ≤ s'.raiseDepth)) ∧
      (s'.status = s.status ∨ s'.status = "done") := by
    rcases hc with ⟨hd, _, hq', hd', hs'⟩ | ⟨hd, hself, l, hl, hq', hdd, _, hs'⟩ | ⟨hd, l, hl, hq', hdd, _, hs'⟩
    · rw [hq']
      exact ⟨(cnt_purge rest).2, Or.inl ⟨hd, (cnt_purge rest).1, hd'⟩, Or.inl hs'⟩
    · obtain ⟨c1, c2⟩ := cntSelf_all_true hl
      refine ⟨by rw [hq', cntExt_append, c2, (cnt_purge rest).2]; rfl, Or.inr (Or.inr ⟨hd, hf0 hself, ?_⟩), hs'⟩
      rcases hdd with h | ⟨h1, h2⟩
      · rw [hq', cntSelf_append, c1, (cnt_purge rest).1]; omega
      · omega
    · obtain ⟨c1, c2⟩ := cntSelf_all_true hl
      refine ⟨by rw [hq', cntExt_append, c2]; rfl, Or.inr (Or.inl ⟨hd, l.length, ?_, hdd⟩), hs'⟩
      rw [hq', cntSelf_append, c1]
  obtain ⟨k1, k2, k3⟩ := key
  obtain ⟨a1, a2⟩ := pot_arith m.maxIterations f (cntSelf rest) (cntExt rest) s.raiseDepth
    (cntSelf s'.queue) (cntExt s'.queue) s'.raiseDepth hf hI k1 k2
  exact ⟨a1, a2, k3⟩

/-! ## 3. the run loop: the model fuel is irrelevant -/

theorem potential_le (L : Nat) (s : St) : potential L s ≤ (cntExt s.queue + 1) * (L + 4) := by
  unfold potential
  have := chainPot_le L (cntSelf s.queue) s.raiseDepth
  rw [Nat.add_mul, Nat.one_mul]; omega

theorem queue_nil_of_potential_zero {L : Nat} {s : St} (h : potential L s = 0) : s.queue = [] := by
  unfold potential at h
  have h1 : cntExt s.queue * (L + 4) = 0 := by omega
  have h2 : chainPot L (cntSelf s.queue) s.raiseDepth = 0 := by omega
  have h3 : cntExt s.queue = 0 := by
    rcases Nat.mul_eq_zero.1 h1 with h | h
    · exact h
    · omega
  have h4 : cntSelf s.queue = 0 := by
    unfold chainPot at h2
    split at h2
    · assumption
    · omega
  have := cnt_total s.queue
  exact List.length_eq_zero_iff.1 (by omega)

theorem asyncDrain_queue_nil (m : Machine) (u : UEnv) (F : Nat) {s : St} (h : s.queue = []) :
    asyncDrain m u F s = s := by
  cases F with
  | zero => simp [asyncDrain, h]
  | succ n => simp [asyncDrain, h]

/-- **fuel irrelevance.** Under the invariant, any two fuels at least `potential` give the same run. -/
theorem asyncDrain_fuel_irrelevant (m : Machine) (u : UEnv) :
    ∀ (F : Nat) (s : St), AInv s → potential m.maxIterations s ≤ F →
      ∀ F', F ≤ F' → asyncDrain m u F' s = asyncDrain m u F s := by
  intro F
  induction F with
  | zero =>
    intro s _ hp F' _
    have hq := queue_nil_of_potential_zero (Nat.le_zero.1 hp)
    rw [asyncDrain_queue_nil m u F' hq, asyncDrain_queue_nil m u 0 hq]
  | succ F ih =>
    intro s hI hp F' hF'
    obtain ⟨F'', rfl⟩ : ∃ F'', F' = F'' + 1 := ⟨F' - 1, by omega⟩
    simp only [asyncDrain]
    split
    · rfl
    · split
      · rfl
      · rename_i q rest hq
        obtain ⟨i1, i2, _⟩ := asyncStep_measure m u s q rest hq hI
        exact ih _ i1 (by omega) F'' (by omega)

/-- **no hang, and the status a caller sees.** Under the invariant and with fuel at least `potential`
    the run ends with the status it started with, or "done" — never the model's "HANG" marker. -/
theorem asyncDrain_status (m : Machine) (u : UEnv) :
    ∀ (F : Nat) (s : St), AInv s → potential m.maxIterations s ≤ F →
      (asyncDrain m u F s).status = s.status ∨ (asyncDrain m u F s).status = "done" := by
  intro F
  induction F with
  | zero =>
    intro s _ hp
    rw [asyncDrain_queue_nil m u 0 (queue_nil_of_potential_zero (Nat.le_zero.1 hp))]
    exact Or.inl rfl
  | succ F ih =>
    intro s hI hp
    simp only [asyncDrain]
    split
    · exact Or.inl rfl
    · split
      · exact Or.inl rfl
      · rename_i q rest hq
        obtain ⟨i1, i2, i3⟩ := asyncStep_measure m u s q rest hq hI
        rcases ih _ i1 (by omega) with h | h
        · rcases i3 with h' | h'
          · exact Or.inl (h.trans h')
          · exact Or.inr (h.trans h')
        · exact Or.inr h

/-- whatever the fuel: a run that returns with status "running" has emptied the queue -/
theorem asyncDrain_running_queue_nil (m : Machine) (u : UEnv) :
    ∀ (F : Nat) (s : St), (asyncDrain m u F s).status = "running" → (asyncDrain m u F s).queue = [] := by
  intro F
  induction F with
  | zero =>
    intro s h
    by_cases hr : s.status = "running"
    · by_cases hq : s.queue = []
      · rw [asyncDrain_queue_nil m u 0 hq]; exact hq
      · have : asyncDrain m u 0 s = { s with status := "HANG" } := by
          simp [asyncDrain, hr, hq]
        rw [this] at h
        have h' : ("HANG" : String) = "running" := h
        exact absurd h' (by decide)
    · rw [asyncDrain_not_running m u 0 hr] at h
      exact absurd h hr
  | succ F ih =>
    intro s h
    by_cases hr : s.status = "running"
    · cases hq : s.queue with
      | nil => rw [asyncDrain_queue_nil m u _ hq]; exact hq
      | cons q rest =>
        have : asyncDrain m u (F + 1) s = asyncDrain m u F (asyncStep m u q { s with queue := rest }) := by
          simp [asyncDrain, hr, hq]
        rw [this] at h ⊢
        exact ih _ h
    · rw [asyncDrain_not_running m u _ hr] at h
      exact absurd h hr

/-- the explicit bound: `(n0 + 1) * (L + 4)` with `n0` the number of pending external events -/
theorem asyncDrain_no_hang_aux (m : Machine) (u : UEnv) (s : St) (hI : AInv s) (F : Nat)
    (hF : (cntExt s.queue + 1) * (m.maxIterations + 4) ≤ F) :
    ((asyncDrain m u F s).status = s.status ∨ (asyncDrain m u F s).status = "done") ∧
    ∀ F', F ≤ F' → asyncDrain m u F' s = asyncDrain m u F s :=
  have hp : potential m.maxIterations s ≤ F := Nat.le_trans (potential_le _ _) hF
  ⟨asyncDrain_status m u F s hI hp, asyncDrain_fuel_irrelevant m u F s hI hp⟩

theorem asyncFuel_ge (m : Machine) (n : Nat) (hn : n ≤ 9) : (n + 1) * (m.maxIterations + 4) ≤ asyncFuel m := by
  have : (n + 1) * (m.maxIterations + 4) ≤ 10 * (m.maxIterations + 4) := Nat.mul_le_mul_right _ (by omega)
  unfold asyncFuel; omega

/-- `send` on the async engine: the state handed to the run loop -/
theorem asyncSend_eq (m : Machine) (u : UEnv) (e : Ev) (s : St) (hr : s.status = "running") :
    asyncSend m u e s = asyncDrain m u (asyncFuel m) { s with queue := s.queue ++ [⟨e, false⟩] } := by
  simp [asyncSend, hr]

theorem AInv_push_ext {s : St} (hI : AInv s) (e : Ev) : AInv { s with queue := s.queue ++ [⟨e, false⟩] } := by
  unfold AInv at hI ⊢
  show cntSelf (s.queue ++ [⟨e, false⟩]) ≤ s.raiseDepth
  rw [cntSelf_append]
  simp [cntSelf]; exact hI

/-- `asyncStart` by the two phases of `start()` before the run loop takes over (`asyncStartEntered`,
    `asyncStartSettled`: defined with the model) -/
theorem asyncStart_eq (m : Machine) (u : UEnv) (s : St) :
    asyncStart m u s =
      if (asyncStartEntered m u s).err.isSome then { asyncStartEntered m u s with status := "stopped" }
      else if (asyncStartSettled m u s).err.isSome then { asyncStartSettled m u s with status := "stopped" }
      else asyncDrain m u (asyncFuel m) (asyncStartSettled m u s) := asyncStart_phases m u s

theorem asyncStartSettled_grow (m : Machine) (u : UEnv) (s : St) :
    Grow false { s with status := "running", ctx := m.ctx0 } (asyncStartSettled m u s) := by
  unfold asyncStartSettled
  refine Grow.trans ?_ (transientLoop_grow _ (hooksAsyncStart_grow u m) .async m u _ _)
  unfold asyncStartEntered
  simp only
  generalize startEntries m = se
  obtain ⟨es, e⟩ := se
  simp only
  have h1 := foldl_grow (b := false)
    (enterOne (hooksAsyncStart u m) .async m (some "___xstate_statemachine_init___"))
    (enterOne_grow _ (hooksAsyncStart_grow u m) .async m _) es { s with status := "running", ctx := m.ctx0 }
  split
  · exact h1.trans (fail_grow _ _ _)
  · exact h1

/-! ## 4. instrumented twins of the two sync loops -/

/-- "one more iteration of `_process_transient_transitions` would do something": no error is pending
    and selection either raises or yields an eventless transition -/
def transientPending (m : Machine) (u : UEnv) (s : St) : Bool :=
  !s.err.isSome &&
    match selectTransitions m s.cfg (u.genv s.ctx "") (.user "") with
    | .error _ => true
    | .ok sel => !sel.isEmpty && sel.any (fun c => c.t.event = "")

/-- twin of `transientLoop`: the number of times `processEvent` is called -/
def transientSteps (h : Hooks) (fl : Flavor) (m : Machine) (u : UEnv) : Nat → St → Nat
  | 0, _ => 0
  | fuel + 1, s =>
    if s.err.isSome then 0 else
    match selectTransitions m s.cfg (u.genv s.ctx "") (.user "") with
    | .error _ => 0
    | .ok sel =>
      if !sel.isEmpty && sel.any (fun c => c.t.event = "") then
        1 + transientSteps h fl m u fuel (processEvent h fl m u (.user "") s)
      else 0

/-- twin of `transientLoop`: did the loop stop because the counter ran out while work was pending? -/
def transientCut (h : Hooks) (fl : Flavor) (m : Machine) (u : UEnv) : Nat → St → Bool
  | 0, s => transientPending m u s
  | fuel + 1, s =>
    if s.err.isSome then false else
    match selectTransitions m s.cfg (u.genv s.ctx "") (.user "") with
    | .error _ => false
    | .ok sel =>
      if !sel.isEmpty && sel.any (fun c => c.t.event = "") then
        transientCut h fl m u fuel (processEvent h fl m u (.user "") s)
      else false

theorem transientSteps_le (h : Hooks) (fl : Flavor) (m : Machine) (u : UEnv) :
    ∀ (n : Nat) (s : St), transientSteps h fl m u n s ≤ n := by
  intro n
  induction n with
  | zero => intro s; simp [transientSteps]
  | succ n ih =>
    intro s
    simp only [transientSteps]
    split
    · omega
    · split
      · omega
      · split
        · have := ih (processEvent h fl m u (.user "") s); omega
        · omega

theorem transientLoop_not_pending (h : Hooks) (fl : Flavor) (m : Machine) (u : UEnv) (n : Nat) {s : St}
    (hp : transientPending m u s = false) : transientLoop h fl m u n s = s := by
  cases n with
  | zero => rfl
  | succ n =>
    simp only [transientLoop]
    unfold transientPending at hp
    split
    · rfl
    · rename_i he
      simp only [he, Bool.not_false, Bool.true_and] at hp
      split
      · rename_i hs; rw [hs] at hp; exact absurd hp (by simp)
      · rename_i sel hs
        rw [hs] at hp
        simp only at hp
        simp [hp]

/-- **fuel monotonicity**: if with budget `n` the loop is not cut, any larger budget gives the same result -/
theorem transientLoop_fuel_mono (h : Hooks) (fl : Flavor) (m : Machine) (u : UEnv) :
    ∀ (n : Nat) (s : St), transientCut h fl m u n s = false →
      ∀ n', n ≤ n' → transientLoop h fl m u n' s = transientLoop h fl m u n s := by
  intro n
  induction n with
  | zero =>
    intro s hc n' _
    simp only [transientCut] at hc
    rw [transientLoop_not_pending h fl m u n' hc]; rfl
  | succ n ih =>
    intro s hc n' hn'
    obtain ⟨n'', rfl⟩ : ∃ n'', n' = n'' + 1 := ⟨n' - 1, by omega⟩
    simp only [transientCut] at hc
    simp only [transientLoop]
    split
    · rfl
    · rename_i he
      simp only [he, Bool.false_eq_true, if_false] at hc
      split
      · rfl
      · rename_i sel hs
        rw [hs] at hc
        simp only at hc
        split
        · rename_i hcond
          simp only [hcond, if_true] at hc
          exact ih _ hc n'' (by omega)
        · rfl

/-- a loop that used fewer iterations than its budget was not cut -/
theorem transientCut_false_of_steps_lt (h : Hooks) (fl : Flavor) (m : Machine) (u : UEnv) :
    ∀ (n : Nat) (s : St), transientSteps h fl m u n s < n → transientCut h fl m u n s = false := by
  intro n
  induction n with
  | zero => intro s hlt; omega
  | succ n ih =>
    intro s hlt
    simp only [transientSteps] at hlt
    simp only [transientCut]
    split
    · rfl
    · rename_i he
      simp only [he, Bool.false_eq_true, if_false] at hlt
      split
      · rfl
      · rename_i sel hs
        rw [hs] at hlt
        simp only at hlt
        split
        · rename_i hcond
          simp only [hcond, if_true] at hlt
          exact ih _ (by omega)
        · rfl

/-! ## 5. nested action expansion -/

/-- once the depth counter is exhausted (`cut = true`) a built-in produces no follow-ups: the
    function that would run them is never consulted -/
theorem builtinStep_cut_ignores_nested (h : Hooks) (nested nested' : List ActionRef → String → St → St)
    (evType canon : String) (a : ActionRef) (s : St) :
    builtinStep h nested true evType canon a s = builtinStep h nested' true evType canon a s := by
  simp [builtinStep]

theorem actStep_cut_ignores_nested (h : Hooks) (nested nested' : List ActionRef → String → St → St)
    (evType : String) (acc : St × Bool) (a : ActionRef) :
    actStep h nested true evType acc a = actStep h nested' true evType acc a := by
  unfold actStep
  simp only [builtinStep_cut_ignores_nested h nested nested']

/-! ### 5b. once the bound tripped, the rest of the expansion produces no follow-ups (`_expansion_cut`) -/

/-- the send hooks never touch `_expansion_cut` -/
structure HooksCutOK (h : Hooks) : Prop where
  snd : ∀ e s, (h.snd e s).expCut = s.expCut
  raise : ∀ e s, (h.sndRaise e s).expCut = s.expCut

theorem enqueueQ_expCut (b : Bool) (e : Ev) (s : St) : (enqueueQ b e s).expCut = s.expCut := by
  unfold enqueueQ; split <;> rfl
theorem hooksFlagged_cutOK (u : UEnv) (m : Machine) : HooksCutOK (hooksFlagged u m) :=
  ⟨enqueueQ_expCut true, enqueueQ_expCut true⟩
theorem hooksAsyncStart_cutOK (u : UEnv) (m : Machine) : HooksCutOK (hooksAsyncStart u m) :=
  ⟨enqueueQ_expCut false, enqueueQ_expCut false⟩
theorem hooksAsync_cutOK (u : UEnv) (m : Machine) : HooksCutOK (hooksAsync u m) :=
  ⟨fun e _ => enqueueQ_expCut true e _, fun e _ => enqueueQ_expCut true e _⟩

/-- what `_collect_builtin_followups` does to the flag: set at the cut level, otherwise left alone -/
theorem assignStep_expCut (canon : String) (cut : Bool) (a : ActionRef) (s : St) :
    (assignStep canon cut a s).expCut = (cut || s.expCut) := by
  unfold assignStep
  cases cut with
  | true => rfl
  | false =>
    simp only [Bool.false_eq_true, if_false, Bool.false_or]
    split <;> rfl

theorem finishBuiltin_expCut (h : Hooks) (hc : HooksCutOK h) (canon : String) (a : ActionRef) (s2 : St) :
    (finishBuiltin h canon a s2).1.expCut = s2.expCut := by
  unfold finishBuiltin
  split
  · rfl
  · split
    · split
      · exact hc.raise _ _
      · rfl
    · rfl

theorem endExpansion_top (s : St) : endExpansion Tables.maxActionDepth s = { s with expCut := false } := by
  unfold endExpansion; rw [if_pos rfl]
theorem endExpansion_below {f : Nat} (hf : f ≠ Tables.maxActionDepth) (s : St) : endExpansion f s = s := by
  unfold endExpansion; rw [if_neg hf]

/-- **the trip is recorded**: at the cut level (`_action_depth > MAX_ACTION_DEPTH`) every built-in that is
    reached sets the flag (and, as before, produces nothing — `builtinStep_cut_ignores_nested`) -/
theorem builtinStep_cut_trips (h : Hooks) (hc : HooksCutOK h) (nested : List ActionRef → String → St → St)
    (evType canon : String) (a : ActionRef) (s : St) :
    (builtinStep h nested true evType canon a s).1.expCut = true := by
  simp [builtinStep, finishBuiltin_expCut h hc, assignStep_expCut]

/-- **once the bound tripped, a `choose` produces no follow-ups**, at any level of the expansion: the
    function that would run them is never consulted … -/
theorem builtinStep_tripped_ignores_nested (h : Hooks) (nested nested' : List ActionRef → String → St → St)
    (evType canon : String) (a : ActionRef) (s : St) (ht : s.expCut = true) :
    builtinStep h nested false evType canon a s = builtinStep h nested' false evType canon a s := by
  simp [builtinStep, ht]

theorem actStep_tripped_ignores_nested (h : Hooks) (nested nested' : List ActionRef → String → St → St)
    (evType : String) (acc : St × Bool) (a : ActionRef) (ht : acc.1.expCut = true) :
    actStep h nested false evType acc a = actStep h nested' false evType acc a := by
  unfold actStep
  simp only [builtinStep_tripped_ignores_nested h nested nested' evType _ a acc.1 ht]

/-- … and the `choose` itself is a no-op: its guards are not even evaluated (so it cannot fail either) -/
theorem choose_after_trip (h : Hooks) (nested : List ActionRef → String → St → St) (evType : String)
    (a : ActionRef) (s : St) (ht : s.expCut = true) (he : s.err = none) :
    builtinStep h nested false evType Tables.act_CHOOSE a s = (s, false) := by
  have h1 : Tables.act_CHOOSE ≠ Tables.act_ASSIGN := by decide
  have h2 : Tables.act_CHOOSE ≠ Tables.act_RAISE := by decide
  simp [builtinStep, ht, assignStep, finishBuiltin, he, h1, h2]

/-- the flag through one list, for a value `v` the nested executor keeps: it only ever changes at the cut
    level (to `true`) and where the nested executor changes it -/
theorem builtinStep_expCut (h : Hooks) (hc : HooksCutOK h) (nested : List ActionRef → String → St → St) (v : Bool)
    (hn : ∀ fs e s, s.expCut = v → (nested fs e s).expCut = v) (cut : Bool) (hcut : cut = true → v = true)
    (evType canon : String) (a : ActionRef) (s : St) (hs : s.expCut = v) :
    (builtinStep h nested cut evType canon a s).1.expCut = v := by
  have ha : (assignStep canon cut a s).expCut = v := by
    rw [assignStep_expCut, hs]
    cases cut with
    | true => rw [hcut rfl]; rfl
    | false => rfl
  unfold builtinStep
  simp only
  split
  · exact hs
  · rw [finishBuiltin_expCut h hc]
    split
    · exact ha
    · exact hn _ _ _ ha

theorem fail_expCut (s : St) (e : EErr) : (s.fail e).expCut = s.expCut := by
  unfold St.fail; split <;> rfl

theorem actStep_expCut (h : Hooks) (hc : HooksCutOK h) (nested : List ActionRef → String → St → St) (v : Bool)
    (hn : ∀ fs e s, s.expCut = v → (nested fs e s).expCut = v) (cut : Bool) (hcut : cut = true → v = true)
    (evType : String) (acc : St × Bool) (a : ActionRef) (hs : acc.1.expCut = v) :
    (actStep h nested cut evType acc a).1.expCut = v := by
  unfold actStep
  split
  · exact hs
  · split
    · exact hs
    · split
      · rw [fail_expCut]; exact hs
      · exact hs
    · exact hs
    · split
      · rw [fail_expCut]; exact hs
      · exact builtinStep_expCut h hc nested v hn cut hcut evType _ a acc.1 hs

theorem foldl_actStep_expCut (h : Hooks) (hc : HooksCutOK h) (nested : List ActionRef → String → St → St) (v : Bool)
    (hn : ∀ fs e s, s.expCut = v → (nested fs e s).expCut = v) (cut : Bool) (hcut : cut = true → v = true)
    (evType : String) : ∀ (as : List ActionRef) (acc : St × Bool), acc.1.expCut = v →
      (as.foldl (actStep h nested cut evType) acc).1.expCut = v := by
  intro as
  induction as with
  | nil => intro acc hs; exact hs
  | cons a as ih =>
    intro acc hs
    simp only [List.foldl_cons]
    exact ih _ (actStep_expCut h hc nested v hn cut hcut evType acc a hs)

/-- **the trip is seen by every later sibling of the same expansion**: below the top level a set flag
    stays set through any list, whatever it contains -/
theorem execActionsF_tripped (h : Hooks) (hc : HooksCutOK h) :
    ∀ (fuel : Nat), fuel ≤ Tables.maxActionDepth → ∀ (as : List ActionRef) (evType : String) (s : St),
      s.expCut = true → (execActionsF h fuel as evType s).expCut = true := by
  intro fuel
  induction fuel with
  | zero =>
    intro _ as evType s hs
    unfold execActionsF
    exact foldl_actStep_expCut h hc _ true (fun _ _ _ h => h) true (fun _ => rfl) evType as (s, false) hs
  | succ f ih =>
    intro hle as evType s hs
    unfold execActionsF
    refine foldl_actStep_expCut h hc _ true (fun fs e s hs => ?_) false (fun _ => rfl) evType as (s, false) hs
    rw [endExpansion_below (by omega)]
    exact ih (by omega) fs e s hs

/-- **a fresh top-level list expands again**: while a top-level list runs the flag is clear before every
    one of its actions (the code's `if depth == 0: self._expansion_cut = False`; the model clears it when
    the expansion of a top-level built-in ends, `endExpansion`), whatever happened inside the expansions
    of the earlier ones -/
theorem foldl_top_expCut (h : Hooks) (hc : HooksCutOK h) (evType : String) (as : List ActionRef) (acc : St × Bool)
    (hs : acc.1.expCut = false) :
    (as.foldl (actStep h (fun fs e s => endExpansion Tables.maxActionDepth (execActionsF h Tables.maxActionDepth fs e s))
      false evType) acc).1.expCut = false :=
  foldl_actStep_expCut h hc _ false (fun _ _ _ _ => by rw [endExpansion_top]) false (fun hf => by cases hf)
    evType as acc hs

theorem execActions_expCut (h : Hooks) (hc : HooksCutOK h) (as : List ActionRef) (evType : String) (s : St)
    (hs : s.expCut = false) : (execActions h as evType s).expCut = false :=
  foldl_top_expCut h hc evType as (s, false) hs

/-! ## 6. events sent while the interpreter is idle are never dropped -/

/-- below the bound the dequeued event is processed (`asyncProcess`: defined with the model) -/
theorem asyncStep_below_bound (m : Machine) (u : UEnv) (q : QEv) (s : St) (h : s.raiseDepth ≤ m.maxIterations) :
    asyncStep m u q s = asyncProcess m u q.ev s := by
  unfold asyncStep
  rw [if_neg (by omega)]

/-- above the bound a SELF-RAISED event is dropped with the rest of its chain … -/
theorem asyncStep_above_bound_self (m : Machine) (u : UEnv) (q : QEv) (s : St) (h : m.maxIterations < s.raiseDepth)
    (hq : q.self = true) :
    asyncStep m u q s = { s with raiseDepth := 0, queue := s.queue.filter (fun q => !q.self) } := by
  unfold asyncStep
  rw [if_pos h, if_pos hq]; rfl

/-- … an EXTERNAL one is processed, after the purge and with the counter at 0 -/
theorem asyncStep_above_bound_ext (m : Machine) (u : UEnv) (q : QEv) (s : St) (h : m.maxIterations < s.raiseDepth)
    (hq : q.self = false) :
    asyncStep m u q s =
      asyncProcess m u q.ev { s with raiseDepth := 0, queue := s.queue.filter (fun q => !q.self) } := by
  unfold asyncStep
  rw [if_pos h, if_neg (by simp [hq])]; rfl

/-- the state the run loop processes the dequeued event in, if it does: purged when the breaker fired -/
def asyncBase (m : Machine) (s : St) : St := if s.raiseDepth > m.maxIterations then asyncPurge s else s

/-- **an externally sent event is never dropped**: whatever the counter says, the iteration that dequeues
    it processes it (`on_event_received`, macrostep, settling) -/
theorem asyncStep_external (m : Machine) (u : UEnv) (q : QEv) (s : St) (hq : q.self = false) :
    asyncStep m u q s = asyncProcess m u q.ev (asyncBase m s) := by
  unfold asyncStep asyncBase
  split
  · rw [if_neg (by simp [hq])]
  · rfl

/-- the interpreter is idle: nothing queued, and the counter is within the bound -/
def Idle (m : Machine) (s : St) : Prop := s.queue = [] ∧ s.raiseDepth ≤ m.maxIterations

theorem asyncStep_idle_depth (m : Machine) (u : UEnv) (q : QEv) (s0 : St)
    (hr : (asyncStep m u q s0).status = "running") (hq : (asyncStep m u q s0).queue = []) :
    (asyncStep m u q s0).raiseDepth ≤ m.maxIterations := by
  rcases asyncStep_cases m u q s0 with ⟨_, _, _, hd, _⟩ | ⟨_, _, l, _, hq', _, hx, _⟩ | ⟨hd, l, _, hq', _, hx, _⟩
  · omega
  · rw [hq'] at hq
    have hl : l = [] := (List.append_eq_nil_iff.1 hq).2
    subst hl
    rcases hx hr with h | h
    · simp at h; omega
    · omega
  · rw [hq'] at hq
    have hl : l = [] := (List.append_eq_nil_iff.1 hq).2
    subst hl
    rcases hx hr with h | h
    · simp at h; omega
    · omega

theorem asyncDrain_idle_depth (m : Machine) (u : UEnv) :
    ∀ (F : Nat) (s : St), (s.queue = [] → s.raiseDepth ≤ m.maxIterations) →
      (asyncDrain m u F s).status = "running" → (asyncDrain m u F s).raiseDepth ≤ m.maxIterations := by
  intro F
  induction F with
  | zero =>
    intro s h0 hr
    have hq := asyncDrain_running_queue_nil m u 0 s hr
    by_cases hs : s.status = "running"
    · by_cases hqs : s.queue = []
      · rw [asyncDrain_queue_nil m u 0 hqs]; exact h0 hqs
      · have : asyncDrain m u 0 s = { s with status := "HANG" } := by simp [asyncDrain, hs, hqs]
        rw [this] at hr
        exact absurd (show ("HANG" : String) = "running" from hr) (by decide)
    · rw [asyncDrain_not_running m u 0 hs] at hr; exact absurd hr hs
  | succ F ih =>
    intro s h0 hr
    by_cases hs : s.status = "running"
    · cases hqs : s.queue with
      | nil => rw [asyncDrain_queue_nil m u _ hqs]; exact h0 hqs
      | cons q rest =>
        have hstep : asyncDrain m u (F + 1) s = asyncDrain m u F (asyncStep m u q { s with queue := rest }) := by
          simp [asyncDrain, hs, hqs]
        rw [hstep] at hr ⊢
        by_cases hs1 : (asyncStep m u q { s with queue := rest }).status = "running"
        · exact ih _ (asyncStep_idle_depth m u q _ hs1) hr
        · rw [asyncDrain_not_running m u F hs1] at hr; exact absurd hr hs1
    · rw [asyncDrain_not_running m u _ hs] at hr; exact absurd hr hs

/-- `send` keeps "running ⇒ idle" -/
theorem asyncSend_idle (m : Machine) (u : UEnv) (e : Ev) (s : St) (h : s.status = "running" → Idle m s)
    (hr : (asyncSend m u e s).status = "running") : Idle m (asyncSend m u e s) := by
  by_cases hs : s.status = "running"
  · rw [asyncSend_eq m u e s hs] at hr ⊢
    refine ⟨asyncDrain_running_queue_nil m u _ _ hr, asyncDrain_idle_depth m u _ _ ?_ hr⟩
    intro hq
    simp at hq
  · rw [asyncSend_not_running m u e hs] at hr ⊢
    exact h hr

/-- `start()` leaves a running interpreter idle (here from any state whose counter is within the bound) -/
theorem asyncStart_idle (m : Machine) (u : UEnv) (s : St) (hd : s.raiseDepth ≤ m.maxIterations)
    (hr : (asyncStart m u s).status = "running") : Idle m (asyncStart m u s) := by
  rw [asyncStart_eq] at hr ⊢
  split at hr
  · exact absurd (show ("stopped" : String) = "running" from hr) (by decide)
  · split at hr
    · exact absurd (show ("stopped" : String) = "running" from hr) (by decide)
    · rename_i h1 h2
      rw [if_neg h1, if_neg h2]
      refine ⟨asyncDrain_running_queue_nil m u _ _ hr, asyncDrain_idle_depth m u _ _ ?_ hr⟩
      intro _
      obtain ⟨⟨l, _, hl, _, hx⟩, _⟩ := asyncStartSettled_grow m u s
      by_cases hs1 : (asyncStartSettled m u s).status = "running"
      · have := hx hs1
        rw [(cntSelf_all_false hl).1] at this
        have e0 : ({ s with status := "running", ctx := m.ctx0 } : St).raiseDepth = s.raiseDepth := rfl
        omega
      · rw [asyncDrain_not_running m u _ hs1] at hr; exact absurd hr hs1

/-- **an event sent to an idle running interpreter is processed, not dropped** -/
theorem asyncSend_at_idle_processes (m : Machine) (u : UEnv) (e : Ev) (s : St) (hs : s.status = "running")
    (hi : Idle m s) :
    asyncSend m u e s =
      asyncDrain m u (10 * m.maxIterations + 49) (asyncProcess m u e { s with queue := [] }) := by
  rw [asyncSend_eq m u e s hs]
  have : asyncFuel m = (10 * m.maxIterations + 49) + 1 := by unfold asyncFuel; omega
  rw [this]
  have hstep : ∀ (F : Nat) (s' : St), s'.status = "running" → s'.queue = [⟨e, false⟩] →
      asyncDrain m u (F + 1) s' = asyncDrain m u F (asyncStep m u ⟨e, false⟩ { s' with queue := [] }) := by
    intro F s' h1 h2
    rw [asyncDrain, if_neg (by simp [h1])]
    split
    · rename_i h3; rw [h3] at h2; exact absurd h2 (by simp)
    · rename_i q rest h3
      rw [h3] at h2
      simp only [List.cons.injEq] at h2
      rw [h2.1, h2.2]
  rw [hstep (10 * m.maxIterations + 49) { s with queue := s.queue ++ [⟨e, false⟩] } hs (by simp [hi.1])]
  exact congrArg _ (asyncStep_below_bound m u ⟨e, false⟩ _ hi.2)

/-- the external events of a queue, in order -/
def extOf (l : List QEv) : List QEv := l.filter (fun q => !q.self)

/-- **queued external events are never discarded by the run loop**: one iteration — tripping or not —
    leaves the external events that were queued exactly as they were, in order (what it appends is
    self-raised). -/
theorem asyncStep_keeps_queued_external (m : Machine) (u : UEnv) (q : QEv) (s0 : St) :
    extOf (asyncStep m u q s0).queue = extOf s0.queue := by
  unfold extOf
  have hnil : ∀ l : List QEv, (∀ q ∈ l, q.self = true) → l.filter (fun q => !q.self) = [] := by
    intro l hl; rw [List.filter_eq_nil_iff]; intro q hq; simp [hl q hq]
  rcases asyncStep_cases m u q s0 with ⟨_, _, hq, _, _⟩ | ⟨_, _, l, hl, hq, _, _, _⟩ | ⟨_, l, hl, hq, _, _, _⟩
  · rw [hq, List.filter_filter]; simp
  · rw [hq, List.filter_append, hnil l hl, List.append_nil, List.filter_filter]; simp
  · rw [hq, List.filter_append, hnil l hl, List.append_nil]

/-! ## 6a. the counter is reset whenever a chain ends — after a FAILED macrostep too -/

theorem any_self_false_of_cntSelf_zero {l : List QEv} (h : cntSelf l = 0) : l.any (fun q => q.self) = false := by
  induction l with
  | nil => rfl
  | cons q l ih =>
    rw [cntSelf_cons] at h
    have h1 : q.self = false := by
      cases hq : q.self with
      | false => rfl
      | true => rw [hq] at h; simp at h
    simp only [List.any_cons, h1, Bool.false_or]
    exact ih (by omega)

/-- **the chain counter does not leak.** Once an event has been processed (successfully or not) and the
    machine is still running with no self-raised event queued, the counter is 0. -/
theorem asyncProcess_counter_zero (m : Machine) (u : UEnv) (e : Ev) (s0 : St)
    (hr : (asyncProcess m u e s0).status = "running") (hq : cntSelf (asyncProcess m u e s0).queue = 0) :
    (asyncProcess m u e s0).raiseDepth = 0 := by
  unfold asyncProcess at hr hq ⊢
  have G : Grow true (emit ("#recv:" ++ e.type) s0)
      (transientLoop (hooksAsync u m) .async m u m.maxIterations
        (processEvent (hooksAsync u m) .async m u e (emit ("#recv:" ++ e.type) s0))) :=
    (processEvent_grow _ (hooksAsync_grow u m) .async m u e _).trans
      (transientLoop_grow _ (hooksAsync_grow u m) .async m u _ _)
  simp only at hr hq ⊢
  generalize (transientLoop (hooksAsync u m) .async m u m.maxIterations
        (processEvent (hooksAsync u m) .async m u e (emit ("#recv:" ++ e.type) s0))) = s2 at G hr hq ⊢
  obtain ⟨⟨l, hql, hl, _, hx⟩, _⟩ := G
  have hql' : s2.queue = s0.queue ++ l := hql
  generalize hs3 : (if s2.err.isSome = true then { s2 with err := none, errors := s2.errors + 1 } else s2) = s3
    at hr hq ⊢
  have q3 : s3.queue = s2.queue := by rw [← hs3]; split <;> rfl
  have d3 : s3.raiseDepth = s2.raiseDepth := by rw [← hs3]; split <;> rfl
  have t3 : s3.status = s2.status := by rw [← hs3]; split <;> rfl
  have hf := (asyncChainEnd_fields s0.raiseDepth s3)
  rw [hf.2.2.2.1] at hr
  rw [hf.2.2.1] at hq
  have hx' : s2.raiseDepth = s0.raiseDepth + cntSelf l := hx (t3 ▸ hr)
  have hl0 : cntSelf l = 0 := by
    rw [q3, hql', cntSelf_append] at hq; omega
  have hany := any_self_false_of_cntSelf_zero hq
  unfold asyncChainEnd
  have hd0 : s3.raiseDepth = s0.raiseDepth := by rw [d3, hx', hl0]; rfl
  simp only [hd0, hany, decide_true, Bool.not_false, Bool.and_self, if_true]

theorem asyncStep_counter_zero (m : Machine) (u : UEnv) (q : QEv) (s0 : St)
    (hr : (asyncStep m u q s0).status = "running") (hq : cntSelf (asyncStep m u q s0).queue = 0) :
    (asyncStep m u q s0).raiseDepth = 0 := by
  unfold asyncStep at hr hq ⊢
  split
  · split
    · rfl
    · rename_i h1 h2
      rw [if_pos h1, if_neg h2] at hr hq
      exact asyncProcess_counter_zero m u q.ev _ hr hq
  · rename_i h1
    rw [if_neg h1] at hr hq
    exact asyncProcess_counter_zero m u q.ev _ hr hq

/-- **what the loop leaves behind, sharpened:** a run that returns "running" has emptied the queue AND
    reset the counter — whatever happened on the way (failed macrosteps included) — provided the counter
    was 0 whenever the queue was empty at the start -/
theorem asyncDrain_counter_zero (m : Machine) (u : UEnv) :
    ∀ (F : Nat) (s : St), (s.queue = [] → s.raiseDepth = 0) →
      (asyncDrain m u F s).status = "running" → (asyncDrain m u F s).raiseDepth = 0 := by
  intro F
  induction F with
  | zero =>
    intro s h0 hr
    by_cases hs : s.status = "running"
    · by_cases hqs : s.queue = []
      · rw [asyncDrain_queue_nil m u 0 hqs]; exact h0 hqs
      · have : asyncDrain m u 0 s = { s with status := "HANG" } := by simp [asyncDrain, hs, hqs]
        rw [this] at hr
        exact absurd (show ("HANG" : String) = "running" from hr) (by decide)
    · rw [asyncDrain_not_running m u 0 hs] at hr; exact absurd hr hs
  | succ F ih =>
    intro s h0 hr
    by_cases hs : s.status = "running"
    · cases hqs : s.queue with
      | nil => rw [asyncDrain_queue_nil m u _ hqs]; exact h0 hqs
      | cons q rest =>
        have hstep : asyncDrain m u (F + 1) s = asyncDrain m u F (asyncStep m u q { s with queue := rest }) := by
          simp [asyncDrain, hs, hqs]
        rw [hstep] at hr ⊢
        by_cases hs1 : (asyncStep m u q { s with queue := rest }).status = "running"
        · refine ih _ ?_ hr
          intro hq1
          exact asyncStep_counter_zero m u q _ hs1 (by rw [hq1]; rfl)
        · rw [asyncDrain_not_running m u F hs1] at hr; exact absurd hr hs1
    · rw [asyncDrain_not_running m u _ hs] at hr; exact absurd hr hs

/-- nothing pending and the counter at 0: what every digested `send` and `start()` leave behind -/
def Quiet (s : St) : Prop := s.queue = [] ∧ s.raiseDepth = 0

theorem asyncSend_quiet (m : Machine) (u : UEnv) (e : Ev) (s : St) (h : s.status = "running" → Quiet s)
    (hr : (asyncSend m u e s).status = "running") : Quiet (asyncSend m u e s) := by
  by_cases hs : s.status = "running"
  · rw [asyncSend_eq m u e s hs] at hr ⊢
    refine ⟨asyncDrain_running_queue_nil m u _ _ hr, asyncDrain_counter_zero m u _ _ ?_ hr⟩
    intro hq
    simp at hq
  · rw [asyncSend_not_running m u e hs] at hr ⊢
    exact h hr

theorem asyncStart_quiet (m : Machine) (u : UEnv) (s : St) (hd : s.raiseDepth = 0)
    (hr : (asyncStart m u s).status = "running") : Quiet (asyncStart m u s) := by
  rw [asyncStart_eq] at hr ⊢
  split at hr
  · exact absurd (show ("stopped" : String) = "running" from hr) (by decide)
  · split at hr
    · exact absurd (show ("stopped" : String) = "running" from hr) (by decide)
    · rename_i h1 h2
      rw [if_neg h1, if_neg h2]
      refine ⟨asyncDrain_running_queue_nil m u _ _ hr, asyncDrain_counter_zero m u _ _ ?_ hr⟩
      intro _
      obtain ⟨⟨l, _, hl, _, hx⟩, _⟩ := asyncStartSettled_grow m u s
      by_cases hs1 : (asyncStartSettled m u s).status = "running"
      · have := hx hs1
        rw [(cntSelf_all_false hl).1] at this
        have e0 : ({ s with status := "running", ctx := m.ctx0 } : St).raiseDepth = s.raiseDepth := rfl
        omega
      · rw [asyncDrain_not_running m u _ hs1] at hr; exact absurd hr hs1

/-- **whole runs: the counter never leaks from one command into the next.** After `start()` and after
    each of any sequence of events (each sent once the previous `send` has been digested) a running
    interpreter has an empty queue and the counter at 0. -/
theorem async_run_quiet (m : Machine) (u : UEnv) (evs : List Ev) :
    (evs.foldl (cmd .async m u) (asyncStart m u {})).status = "running" →
      Quiet (evs.foldl (cmd .async m u) (asyncStart m u {})) := by
  have h0 : (asyncStart m u {}).status = "running" → Quiet (asyncStart m u {}) :=
    fun hr => asyncStart_quiet m u {} rfl hr
  generalize asyncStart m u {} = s0 at h0
  induction evs generalizing s0 with
  | nil => exact h0
  | cons e evs ih =>
    simp only [List.foldl_cons]
    apply ih
    intro hr
    exact asyncSend_quiet m u e { s0 with err := none } h0 hr

/-! ## 6c. a chain no longer than the bound is never cut -/

/-- the number of events the machine sends ITSELF while `e` is processed in `s` (every zero-delay
    delivery to itself made while `_processing` is set increments `_raise_depth`) -/
def selfSendsOf (m : Machine) (u : UEnv) (e : Ev) (s : St) : Nat := (asyncProcessed m u e s).raiseDepth - s.raiseDepth

/-- twin of `asyncDrain`: the number of iterations in which the chain breaker fired -/
def asyncTrips (m : Machine) (u : UEnv) : Nat → St → Nat
  | 0, _ => 0
  | fuel + 1, s =>
    if s.status ≠ "running" then 0 else
    match s.queue with
    | [] => 0
    | q :: rest =>
      (if s.raiseDepth > m.maxIterations then 1 else 0) + asyncTrips m u fuel (asyncStep m u q { s with queue := rest })

/-- twin of `asyncDrain`: the number of events the machine sent itself, over all processed events -/
def asyncSelfSends (m : Machine) (u : UEnv) : Nat → St → Nat
  | 0, _ => 0
  | fuel + 1, s =>
    if s.status ≠ "running" then 0 else
    match s.queue with
    | [] => 0
    | q :: rest =>
      (if s.raiseDepth > m.maxIterations ∧ q.self = true then 0
       else selfSendsOf m u q.ev (asyncBase m { s with queue := rest }))
        + asyncSelfSends m u fuel (asyncStep m u q { s with queue := rest })

theorem asyncProcess_depth_le (m : Machine) (u : UEnv) (e : Ev) (s : St) :
    (asyncProcess m u e s).raiseDepth ≤ s.raiseDepth + selfSendsOf m u e s := by
  have G : Grow true (emit ("#recv:" ++ e.type) s) (asyncProcessed m u e s) :=
    (processEvent_grow _ (hooksAsync_grow u m) .async m u e _).trans
      (transientLoop_grow _ (hooksAsync_grow u m) .async m u _ _)
  obtain ⟨⟨l, _, _, hd, _⟩, _⟩ := G
  have hd' : s.raiseDepth ≤ (asyncProcessed m u e s).raiseDepth := by
    have : s.raiseDepth + cntSelf l ≤ (asyncProcessed m u e s).raiseDepth := hd
    omega
  rw [asyncProcess_eq]
  unfold selfSendsOf
  generalize hs3 : (if (asyncProcessed m u e s).err.isSome = true then
      { asyncProcessed m u e s with err := none, errors := (asyncProcessed m u e s).errors + 1 }
    else asyncProcessed m u e s) = s3
  have d3 : s3.raiseDepth = (asyncProcessed m u e s).raiseDepth := by rw [← hs3]; split <;> rfl
  unfold asyncChainEnd
  split
  · show 0 ≤ _; omega
  · omega

/-- **chains shorter than the bound run to their natural end (async).** If the counter at the start plus
    the number of events the machine sends itself during this run of the loop does not exceed
    `maxIterations`, the chain breaker never fires. -/
theorem short_chain_not_cut (m : Machine) (u : UEnv) :
    ∀ (F : Nat) (s : St), s.raiseDepth + asyncSelfSends m u F s ≤ m.maxIterations → asyncTrips m u F s = 0 := by
  intro F
  induction F with
  | zero => intro s _; rfl
  | succ F ih =>
    intro s h
    simp only [asyncSelfSends] at h
    simp only [asyncTrips]
    split
    · rfl
    · rename_i hrun
      simp only [hrun, if_false] at h
      split
      · rfl
      · rename_i q rest hq
        rw [hq] at h
        simp only at h
        have hd : ¬ s.raiseDepth > m.maxIterations := by omega
        have hd' : ¬ (s.raiseDepth > m.maxIterations ∧ q.self = true) := fun hh => hd hh.1
        rw [if_neg hd, Nat.zero_add]
        rw [if_neg hd'] at h
        have hb : asyncBase m { s with queue := rest } = { s with queue := rest } := by
          unfold asyncBase; rw [if_neg hd]
        rw [hb] at h
        have hstep : asyncStep m u q { s with queue := rest } = asyncProcess m u q.ev { s with queue := rest } :=
          asyncStep_below_bound m u q _ (by show s.raiseDepth ≤ _; omega)
        have hle := asyncProcess_depth_le m u q.ev { s with queue := rest }
        rw [← hstep] at hle
        apply ih
        have : ({ s with queue := rest } : St).raiseDepth = s.raiseDepth := rfl
        omega

/-! ## 6b. `send` / `start()` / whole runs never hang -/

theorem pushed_fuel_ok (m : Machine) (e : Ev) (s : St) (hn : cntExt s.queue ≤ 8) :
    (cntExt ({ s with queue := s.queue ++ [⟨e, false⟩] } : St).queue + 1) * (m.maxIterations + 4)
      ≤ asyncFuel m := by
  have : cntExt (s.queue ++ [⟨e, false⟩]) = cntExt s.queue + 1 := by
    rw [cntExt_append]; simp [cntExt]
  show (cntExt (s.queue ++ [⟨e, false⟩]) + 1) * (m.maxIterations + 4) ≤ asyncFuel m
  rw [this]
  exact asyncFuel_ge m _ (by omega)

/-- `send` on the async engine returns (never the "HANG" marker): the status afterwards is the one
    before, or "done" — provided at most 8 external events were already pending -/
theorem asyncSend_status (m : Machine) (u : UEnv) (e : Ev) (s : St) (hI : AInv s) (hn : cntExt s.queue ≤ 8) :
    (asyncSend m u e s).status = s.status ∨ (asyncSend m u e s).status = "done" := by
  by_cases hs : s.status = "running"
  · rw [asyncSend_eq m u e s hs]
    exact (asyncDrain_no_hang_aux m u _ (AInv_push_ext hI e) _ (pushed_fuel_ok m e s hn)).1
  · rw [asyncSend_not_running m u e hs]; exact Or.inl rfl

/-- … and the model's fuel constant is not observable: any larger fuel gives the same result -/
theorem asyncSend_fuel_irrelevant (m : Machine) (u : UEnv) (e : Ev) (s : St) (hI : AInv s)
    (hn : cntExt s.queue ≤ 8) (hs : s.status = "running") (F : Nat) (hF : asyncFuel m ≤ F) :
    asyncSend m u e s = asyncDrain m u F { s with queue := s.queue ++ [⟨e, false⟩] } := by
  rw [asyncSend_eq m u e s hs]
  exact ((asyncDrain_no_hang_aux m u _ (AInv_push_ext hI e) _ (pushed_fuel_ok m e s hn)).2 F hF).symm

theorem asyncStartSettled_facts (m : Machine) (u : UEnv) (s : St) (hI : AInv s) :
    AInv (asyncStartSettled m u s) ∧
    ((asyncStartSettled m u s).status = "running" ∨ (asyncStartSettled m u s).status = "done") := by
  obtain ⟨⟨l, hq, hl, hd, _⟩, hs⟩ := asyncStartSettled_grow m u s
  constructor
  · unfold AInv at hI ⊢
    rw [hq, cntSelf_append, (cntSelf_all_false hl).1]
    have e0 : ({ s with status := "running", ctx := m.ctx0 } : St).raiseDepth = s.raiseDepth := rfl
    have e1 : ({ s with status := "running", ctx := m.ctx0 } : St).queue = s.queue := rfl
    rw [e1]; rw [e0] at hd; omega
  · exact hs

/-- `start()` on the async engine returns, provided at most 9 events are pending once the initial
    entry and settling are over (events already queued in `s` plus those raised by entry actions and
    by the initial `always` transitions) -/
theorem asyncStart_status (m : Machine) (u : UEnv) (s : St) (hI : AInv s)
    (hn : cntExt (asyncStartSettled m u s).queue ≤ 9) :
    (asyncStart m u s).status = "running" ∨ (asyncStart m u s).status = "done" ∨
      (asyncStart m u s).status = "stopped" := by
  rw [asyncStart_eq]
  split
  · exact Or.inr (Or.inr rfl)
  · split
    · exact Or.inr (Or.inr rfl)
    · obtain ⟨hI1, hs1⟩ := asyncStartSettled_facts m u s hI
      rcases (asyncDrain_no_hang_aux m u _ hI1 _ (asyncFuel_ge m _ hn)).1 with h | h
      · rcases hs1 with h' | h'
        · exact Or.inl (h.trans h')
        · exact Or.inr (Or.inl (h.trans h'))
      · exact Or.inr (Or.inl h)

/-- what a sequence of commands can rely on between commands: a proper status, and a running
    interpreter is idle -/
def RunOK (m : Machine) (s : St) : Prop :=
  (s.status = "running" ∨ s.status = "done" ∨ s.status = "stopped") ∧ (s.status = "running" → Idle m s)

theorem cmd_runOK (m : Machine) (u : UEnv) (e : Ev) (s : St) (h : RunOK m s) : RunOK m (cmd .async m u s e) := by
  show RunOK m (asyncSend m u e { s with err := none })
  by_cases hs : s.status = "running"
  · have hi : Idle m ({ s with err := none } : St) := h.2 hs
    have hI : AInv ({ s with err := none } : St) := by
      unfold AInv; rw [hi.1]; simp [cntSelf]
    have hn : cntExt ({ s with err := none } : St).queue ≤ 8 := by rw [hi.1]; simp [cntExt]
    refine ⟨?_, fun hr => asyncSend_idle m u e _ (fun _ => hi) hr⟩
    rcases asyncSend_status m u e _ hI hn with h1 | h1
    · exact Or.inl (h1.trans hs)
    · exact Or.inr (Or.inl h1)
  · rw [asyncSend_not_running m u e (s := { s with err := none }) hs]
    exact h

theorem asyncStart_runOK (m : Machine) (u : UEnv) (hn : cntExt (asyncStartSettled m u {}).queue ≤ 9) :
    RunOK m (asyncStart m u {}) :=
  ⟨asyncStart_status m u {} (by simp [AInv, cntSelf]) hn,
   fun hr => asyncStart_idle m u {} (Nat.zero_le _) hr⟩

/-- **whole runs of the async engine**: after `start()` and after each of any sequence of events
    (each sent once the previous `send` has been digested) the status is "running", "done" or
    "stopped" — never "HANG" —, and a running interpreter is idle -/
theorem async_run_ok (m : Machine) (u : UEnv) (hn : cntExt (asyncStartSettled m u {}).queue ≤ 9)
    (evs : List Ev) : RunOK m (evs.foldl (cmd .async m u) (asyncStart m u {})) := by
  have h0 := asyncStart_runOK m u hn
  generalize asyncStart m u {} = s0 at h0
  induction evs generalizing s0 with
  | nil => exact h0
  | cons e evs ih => simp only [List.foldl_cons]; exact ih _ (cmd_runOK m u e s0 h0)

/-! ## 7. example machines for `Xsm/Properties/C13.lean` -/
namespace Ex
open XSM.Done.Ex

def raiseA (e : String) : ActionRef := { type := "raise", params := some (.obj [("event", .str e)]) }
/-- user code: every guard true; every action a marker that succeeds — except that `raise`, `assign`
    and `choose` are left to the built-ins and `nope` is not implemented at all -/
def u0 : UEnv :=
  { g := fun _ _ _ => .t,
    a := fun n c _ => if n = "raise" ∨ n = "assign" ∨ n = "choose" ∨ n = "nope" then .missing else .ok c }
/-- `assign({x: 1})`, as JSON and as an action -/
def assignJ : J := .obj [("type", .str "assign"), ("params", .obj [("assignment", .obj [("x", .num 1)])])]
def assignA : ActionRef := { type := "assign", params := some (.obj [("assignment", .obj [("x", .num 1)])]) }
/-- `choose([{actions: [assign({x: 1})]}])`: one unguarded branch whose follow-up is the assignment -/
def chooseA : ActionRef :=
  { type := "choose", params := some (.obj [("conditions", .arr [.obj [("actions", .arr [assignJ])]])]) }
def tE (tid : Nat) (ev : String) (acts : List ActionRef) (target : Option String := none) : Trans :=
  { tid, event := ev, target, guard := none, actions := acts, reenter := false, forbidden := false }
def mkM (L : Nat) (on : List (String × List Trans)) : Machine :=
  { id := "m", maxIterations := L, customIds := [],
    root := .mk (mkD .compound (some "a")) [("a", .mk (mkD .atomic none none [] on) [])] }

/-- `E` raises its own trigger twice (fan-out 2); bound 3 -/
def fanM : Machine :=
  mkM 3 [("E", [tE 0 "E" [{ type := "sawE" }, raiseA "E", raiseA "E"]]), ("X", [tE 1 "X" [{ type := "sawX" }]])]
/-- `E` raises `R` once; `R` is handled and raises nothing: a chain of length 1, bound 3 -/
def shortM : Machine :=
  mkM 3 [("E", [tE 0 "E" [raiseA "R"]]), ("R", [tE 1 "R" [{ type := "sawR" }]])]
/-- `E` raises `R` four times in ONE step (more than the bound 3) -/
def burstM : Machine :=
  mkM 3 [("E", [tE 0 "E" [raiseA "R", raiseA "R", raiseA "R", raiseA "R"]]),
         ("R", [tE 1 "R" [{ type := "sawR" }]]), ("X", [tE 2 "X" [{ type := "sawX" }]])]
/-- `E` raises `R`; handling `R` runs `sawR`, then fails (`nope` is not implemented) -/
def errChainM : Machine :=
  mkM 3 [("E", [tE 0 "E" [raiseA "R"]]), ("R", [tE 1 "R" [{ type := "sawR" }, { type := "nope" }]])]
/-- two states whose `always` transitions target each other; bound 4 -/
def pingPongM : Machine :=
  { id := "m", maxIterations := 4, customIds := [],
    root := .mk (mkD .compound (some "a")) [
      ("a", .mk (mkD .atomic none none [] [("", [tE 0 "" [{ type := "toB" }] (some "b")])]) []),
      ("b", .mk (mkD .atomic none none [] [("", [tE 1 "" [{ type := "toA" }] (some "a")])]) [])] }
/-- `a` moves to `b` by an `always` transition, `b` is stable: a chain of length 1; bound 4 -/
def settleM : Machine :=
  { id := "m", maxIterations := 4, customIds := [],
    root := .mk (mkD .compound (some "a")) [
      ("a", .mk (mkD .atomic none none [] [("", [tE 0 "" [{ type := "toB" }] (some "b")])]) []),
      ("b", .mk (mkD .atomic none none [] [("X", [tE 1 "X" [{ type := "sawX" }]])]) [])] }

/-- `p` (initial child: the final state `f`) declares an `onDone` that re-enters `p` itself: every
    entry completes `p` again; bound 3 -/
def reT : Trans :=
  { tid := 0, event := "done.state.m.p", target := some "p", guard := none, actions := [{ type := "again" }],
    reenter := true, forbidden := false }
def reDoneM : Machine :=
  { id := "m", maxIterations := 3, customIds := [],
    root := .mk (mkD .compound (some "p")) [("p", .mk (mkD .compound (some "f") (some reT)) [("f", fin)])] }
/-- the entry actions of the initial state raise `R` sixty times; bound 0 -/
def manyM : Machine :=
  { id := "m", maxIterations := 0, customIds := [],
    root := .mk (mkD .compound (some "a")) [
      ("a", .mk { (mkD .atomic none none [] [("R", [tE 0 "R" [{ type := "sawR" }]])]) with
                  entry := List.replicate 60 (raiseA "R") } [])] }

def count (r : String) (s : St) : Nat := s.trace.count r
def running : St := { cfg := [[], ["a"]], status := "running" }

end Ex

end XSM.Term
