import Xsm.Model.Parse
import Xsm.Proofs.Guard
/-!
Helper definitions and lemmas for property C18 (config front end).

* §1 the monad `PM = StateT PState (Except PErr)`: `throw_bind`, post-conditions (`PM.Post`), error
  predicates (`PM.ErrOK`), loops as `foldlM`;
* §2 a restructured copy of `parseStateDef` (the model's `StateNode.__init__`): first in
  continuation-passing style, block by block, **definitionally equal** to the original
  (`parseStateDef_eq_CPS : … := rfl`), then in direct style (`parseStateDef_eq`), which is what the
  spelling and error theorems are proved about;
* §3 spellings of transitions, actions, `always` / `on[""]`, inferred `initial`;
* §4 errors of the parser;
* (target spellings through `resolveTarget` / `resolveRobust`: `Xsm/Proofs/Targets.lean`).
-/
namespace XSM

/-! ## 1. The parser monad -/

theorem PM.throw_bind {α β : Type} (e : PErr) (f : α → PM β) : ((throw e : PM α) >>= f) = throw e := by
  funext s; rfl

theorem PM.map_throw {α β : Type} (e : PErr) (f : α → β) : (f <$> (throw e : PM α)) = throw e := by
  funext s; rfl

/-- a loop whose body always yields is a left fold -/
theorem forIn_yield_foldlM {m : Type → Type} [Monad m] [LawfulMonad m] {α β : Type}
    (l : List α) (init : β) (step : α → β → m β) :
    forIn l init (fun a b => step a b >>= fun c => pure (ForInStep.yield c)) =
      l.foldlM (fun b a => step a b) init := by
  induction l generalizing init with
  | nil => simp
  | cons a l ih => simp

/-! ## 2. `parseStateDef`, block by block -/

section
variable {α : Type}

def customIdK (idJ : Option J) (sid : String) (path : Path) (isRoot : Bool)
    (K : Unit → Option String → PM α) : PM α :=
  if (!isRoot) = true then
    match idJ with
    | none => K () none
    | some J.null => K () none
    | some (J.str s) =>
      have jp1 : Unit → PM α := fun _ => do
        let st ← get
        have jp2 : Unit → PM α := fun _ => do
          set { st with customIds := st.customIds ++ [(s, path)] }
          K () (some s)
        if st.customIds.any (fun kv => kv.1 == s) then do
          let r ← (throw s!"InvalidConfigError: duplicate state id '{s}'" : PM Unit)
          jp2 r
        else jp2 ()
      if s = "" then do
        let r ← (throw s!"InvalidConfigError: state '{sid}' has an invalid 'id'" : PM Unit)
        jp1 r
      else jp1 ()
    | some _ => do
      let r ← (throw s!"InvalidConfigError: state '{sid}' has an invalid 'id'" : PM Unit)
      K r none
  else K () none

def initialRawK (iJ : Option J) (sid : String) (K : Option String → PM α) : PM α :=
  match iJ with
  | none => (pure none : PM (Option String)) >>= K
  | some J.null => (pure none : PM (Option String)) >>= K
  | some (J.str s) => (pure (some s) : PM (Option String)) >>= K
  | some _ => (throw s!"InvalidConfigError: state '{sid}' has an invalid 'initial'" : PM (Option String)) >>= K

def inferInitialK (kind : Kind) (initialRaw : Option String) (statesJ : J) (K : Option String → PM α) : PM α :=
  if (kind != Kind.compound || (initialRaw.map (· != "")).getD false) = true then
    (pure initialRaw : PM (Option String)) >>= K
  else
    match statesJ with
    | J.obj kvs =>
      have cands := kvs.filter (fun kv => !(isHistoryCfg kv.2))
      (pure (match cands with | [kv] => some kv.1 | _ => initialRaw) : PM (Option String)) >>= K
    | _ => (throw "InvalidConfigError: invalid 'states' value (not an object)" : PM (Option String)) >>= K

def tagsK (tJ : Option J) (sid : String) (K : List String → PM α) : PM α :=
  match tJ with
  | none => (pure [] : PM (List String)) >>= K
  | some (J.str s) => (pure [s] : PM (List String)) >>= K
  | some (J.arr xs) =>
    (xs.mapM (fun | J.str s => pure s | _ => throw s!"InvalidConfigError: state '{sid}' has non-string tag(s)") : PM (List String)) >>= K
  | some _ => (throw s!"InvalidConfigError: state '{sid}' has an invalid 'tags' value" : PM (List String)) >>= K

def metaK (mJ : Option J) (sid : String) (K : Unit → PM α) : PM α :=
  match mJ with
  | none => K ()
  | some v =>
    if truthy v = true then
      (match v with
        | J.obj _ => (pure () : PM Unit)
        | _ => throw s!"InvalidConfigError: state '{sid}' has an invalid 'meta' value") >>= K
    else K ()

def onBody (x : String × J) (on : List (String × List Trans)) : PM (ForInStep (List (String × List Trans))) :=
  match x with
  | (ev, tc) => do
    let ts ← parseTransList ev tc
    pure (ForInStep.yield ((on.filter (fun kv => kv.1 != ev)) ++ [(ev, ts)]))

def onK (onJ : J) (sid : String) (K : Unit → List (String × List Trans) → PM α) : PM α :=
  match onJ with
  | J.obj kvs => (forIn kvs ([] : List (String × List Trans)) onBody) >>= fun s => K () s
  | _ => (throw s!"InvalidConfigError: state '{sid}' has an invalid 'on' value" : PM Unit) >>= fun r => K r []

def mergeAlways (on : List (String × List Trans)) (ts : List Trans) : List (String × List Trans) :=
  match on.find? (fun kv => kv.1 == "") with
  | some _ => on.map (fun kv => if kv.1 == "" then (kv.1, kv.2 ++ ts) else kv)
  | none => on ++ [("", ts)]

def alwaysK (aJ : Option J) (on : List (String × List Trans)) (K : Unit → List (String × List Trans) → PM α) : PM α :=
  match aJ with
  | none => K () on
  | some J.null => K () on
  | some a => parseTransList "" a >>= fun ts => K () (mergeAlways on ts)

def onDoneK (dJ : Option J) (sid : String) (K : Option Trans → PM α) : PM α :=
  match dJ with
  | none => (pure none : PM (Option Trans)) >>= K
  | some v =>
    if (!truthy v) = true then (pure none : PM (Option Trans)) >>= K
    else
      (liftM (normalizeTransitions v) : PM (List J)) >>= fun cfgs =>
        match cfgs with
        | [] => (pure none : PM (Option Trans)) >>= K
        | c :: _ => parseTransition ("done.state." ++ sid) c >>= fun t => (pure (some t) : PM (Option Trans)) >>= K

def afterBody (sid : String) (x : String × J) (after : List (String × List Trans)) : PM (ForInStep (List (String × List Trans))) :=
  match x with
  | (delay, tc) => do
    let cfgs ← (normalizeTransitions tc : Except PErr _)
    let ts ← cfgs.mapM (parseTransition ("after." ++ delay ++ "." ++ sid))
    pure (ForInStep.yield (after ++ [(delay, ts)]))

def afterK (afterJ : J) (sid : String) (K : Unit → List (String × List Trans) → PM α) : PM α :=
  match afterJ with
  | J.obj kvs => (forIn kvs ([] : List (String × List Trans)) (afterBody sid)) >>= fun s => K () s
  | _ => (throw s!"InvalidConfigError: state '{sid}' has an invalid 'after' value" : PM Unit) >>= fun r => K r []

def invokeBody (sid : String) (ic : J) (invoke : List Invoke) : PM (ForInStep (List Invoke)) :=
  match ic with
  | J.obj _ =>
    have iid := match ic.get? "id" with | some (J.str s) => s | _ => sid
    have jpOd : List Trans → PM (ForInStep (List Invoke)) := fun od =>
      have jpOe : List Trans → PM (ForInStep (List Invoke)) := fun oe =>
        have src := match ic.get? "src" with | some (J.str s) => some s | _ => none
        pure (ForInStep.yield (invoke ++ [{ id := iid, src := src, onDone := od, onError := oe }]))
      match ic.get? "onError" with
      | none => (pure [] : PM (List Trans)) >>= jpOe
      | some v => parseTransList ("error.platform." ++ iid) v >>= jpOe
    match ic.get? "onDone" with
    | none => (pure [] : PM (List Trans)) >>= jpOd
    | some v => parseTransList ("done.invoke." ++ iid) v >>= jpOd
  | _ => (throw s!"InvalidConfigError: state '{sid}' has an invalid 'invoke' entry" : PM Unit) >>= fun _ => pure (ForInStep.yield invoke)

def kidsBody (sid : String) (kvs : List (String × J)) (x : String × J) (_s : PUnit) : PM (ForInStep PUnit) :=
  match x with
  | (k, c) =>
    have jp : Unit → PM (ForInStep PUnit) := fun _ =>
      if k.contains '.' = true then
        have head := (splitDot k).headD ""
        if (kvs.any fun kv => kv.1 == head) = true then
          (throw s!"InvalidConfigError: state key '{k}' in '{sid}' is ambiguous" : PM Unit) >>= fun _ => pure (ForInStep.yield PUnit.unit)
        else pure (ForInStep.yield PUnit.unit)
      else pure (ForInStep.yield PUnit.unit)
    match c with
    | J.obj _ => jp ()
    | _ => (throw s!"InvalidConfigError: state '{sid}.{k}' must be an object/dict" : PM Unit) >>= jp

def kidsK (statesJ : J) (sid : String) (K : Unit → PM α) : PM α :=
  match statesJ with
  | J.obj kvs => (forIn kvs PUnit.unit (kidsBody sid kvs)) >>= fun _ => K ()
  | _ => (throw s!"InvalidConfigError: state '{sid}' has an invalid 'states' value" : PM Unit) >>= K

end

def kindOf (cfg : J) : Kind :=
  let tyStr : Option String := match cfg.get? "type" with | some (.str s) => some s | _ => none
  if cfg.hasKey "states" then (if tyStr = some "parallel" then .parallel else .compound)
  else if tyStr = some "final" then .final
  else if tyStr = some "history" then .history
  else .atomic

def statesJOf (cfg : J) : J := (cfg.get? "states").getD (.obj [])

def parseStateDefCPS (cfg : J) (sid : String) (path : Path) (isRoot : Bool) : PM StateDef :=
  customIdK (cfg.get? "id") sid path isRoot fun _ customId =>
  initialRawK (cfg.get? "initial") sid fun initialRaw =>
  inferInitialK (kindOf cfg) initialRaw (statesJOf cfg) fun initial =>
  tagsK (cfg.get? "tags") sid fun tags =>
  metaK (cfg.get? "meta") sid fun _ =>
  (liftM (parseActions (cfg.get? "entry")) : PM (List ActionRef)) >>= fun entry =>
  (liftM (parseActions (cfg.get? "exit")) : PM (List ActionRef)) >>= fun exit =>
  onK ((cfg.get? "on").getD (.obj [])) sid fun _ on =>
  alwaysK (cfg.get? "always") on fun _ on =>
  onDoneK (cfg.get? "onDone") sid fun onDone =>
  afterK ((cfg.get? "after").getD (.obj [])) sid fun _ after =>
  (forIn (ensureList ((cfg.get? "invoke").getD (.arr []))) ([] : List Invoke) (invokeBody sid)) >>= fun invoke =>
  kidsK (statesJOf cfg) sid fun _ =>
  pure { kind := kindOf cfg, initial, entry, exit, on, onDone, after, invoke,
         deep := kindOf cfg == .history && (match cfg.get? "history" with | some (.str "deep") => true | _ => false),
         historyTarget := (match cfg.get? "target" with | some (.str s) => some s | _ => none),
         customId, tags }

theorem parseStateDef_eq_CPS (cfg : J) (sid : String) (path : Path) (isRoot : Bool) :
    parseStateDef cfg sid path isRoot = parseStateDefCPS cfg sid path isRoot := rfl


/-! ### direct style: each block as a computation of its own -/

/-- custom `id` of a non-root state: validated, checked for duplicates, registered -/
def pCustomId (idJ : Option J) (sid : String) (path : Path) (isRoot : Bool) : PM (Option String) :=
  if isRoot then pure none else
  match idJ with
  | none => pure none
  | some J.null => pure none
  | some (J.str s) =>
    if s = "" then throw s!"InvalidConfigError: state '{sid}' has an invalid 'id'"
    else get >>= fun st =>
      if st.customIds.any (fun kv => kv.1 == s) then throw s!"InvalidConfigError: duplicate state id '{s}'"
      else set { st with customIds := st.customIds ++ [(s, path)] } >>= fun _ => pure (some s)
  | some _ => throw s!"InvalidConfigError: state '{sid}' has an invalid 'id'"

def pInitialRaw (iJ : Option J) (sid : String) : PM (Option String) :=
  match iJ with
  | none => pure none
  | some J.null => pure none
  | some (J.str s) => pure (some s)
  | some _ => throw s!"InvalidConfigError: state '{sid}' has an invalid 'initial'"

/-- `_parse_initial`: an explicit non-empty `initial` (or a non-compound state) is taken as it is;
otherwise the only non-history child is inferred -/
def pInferInitial (kind : Kind) (initialRaw : Option String) (statesJ : J) : PM (Option String) :=
  if (kind != Kind.compound || (initialRaw.map (· != "")).getD false) = true then pure initialRaw
  else
    match statesJ with
    | J.obj kvs => pure (match kvs.filter (fun kv => !(isHistoryCfg kv.2)) with | [kv] => some kv.1 | _ => initialRaw)
    | _ => throw "InvalidConfigError: invalid 'states' value (not an object)"

def pTags (tJ : Option J) (sid : String) : PM (List String) :=
  match tJ with
  | none => pure []
  | some (J.str s) => pure [s]
  | some (J.arr xs) =>
    xs.mapM (fun | J.str s => pure s | _ => throw s!"InvalidConfigError: state '{sid}' has non-string tag(s)")
  | some _ => throw s!"InvalidConfigError: state '{sid}' has an invalid 'tags' value"

def pMeta (mJ : Option J) (sid : String) : PM Unit :=
  match mJ with
  | none => pure ()
  | some v =>
    if truthy v = true then
      (match v with
        | J.obj _ => pure ()
        | _ => throw s!"InvalidConfigError: state '{sid}' has an invalid 'meta' value")
    else pure ()

/-- one `on` entry: parse its transitions, (re)place the bucket at the end -/
def onStep (x : String × J) (on : List (String × List Trans)) : PM (List (String × List Trans)) :=
  parseTransList x.1 x.2 >>= fun ts => pure ((on.filter (fun kv => kv.1 != x.1)) ++ [(x.1, ts)])

def pOn (onJ : J) (sid : String) : PM (List (String × List Trans)) :=
  match onJ with
  | J.obj kvs => kvs.foldlM (fun on x => onStep x on) []
  | _ => throw s!"InvalidConfigError: state '{sid}' has an invalid 'on' value"

/-- the `always` key merged into the `""` bucket (after the entries `on[""]` already has) -/
def pAlways (aJ : Option J) (on : List (String × List Trans)) : PM (List (String × List Trans)) :=
  match aJ with
  | none => pure on
  | some J.null => pure on
  | some a => parseTransList "" a >>= fun ts => pure (mergeAlways on ts)

def pOnDone (dJ : Option J) (sid : String) : PM (Option Trans) :=
  match dJ with
  | none => pure none
  | some v =>
    if (!truthy v) = true then pure none
    else
      (liftM (normalizeTransitions v) : PM (List J)) >>= fun cfgs =>
        match cfgs with
        | [] => pure none
        | c :: _ => parseTransition ("done.state." ++ sid) c >>= fun t => pure (some t)

def afterStep (sid : String) (x : String × J) (after : List (String × List Trans)) : PM (List (String × List Trans)) :=
  (liftM (normalizeTransitions x.2) : PM (List J)) >>= fun cfgs =>
    cfgs.mapM (parseTransition ("after." ++ x.1 ++ "." ++ sid)) >>= fun ts => pure (after ++ [(x.1, ts)])

def pAfter (afterJ : J) (sid : String) : PM (List (String × List Trans)) :=
  match afterJ with
  | J.obj kvs => kvs.foldlM (fun after x => afterStep sid x after) []
  | _ => throw s!"InvalidConfigError: state '{sid}' has an invalid 'after' value"

def invokeStep (sid : String) (ic : J) (invoke : List Invoke) : PM (List Invoke) :=
  match ic with
  | J.obj _ =>
    let iid := match ic.get? "id" with | some (J.str s) => s | _ => sid
    (match ic.get? "onDone" with
      | none => pure []
      | some v => parseTransList ("done.invoke." ++ iid) v) >>= fun od =>
    (match ic.get? "onError" with
      | none => pure []
      | some v => parseTransList ("error.platform." ++ iid) v) >>= fun oe =>
    pure (invoke ++ [{ id := iid, src := (match ic.get? "src" with | some (J.str s) => some s | _ => none),
                       onDone := od, onError := oe }])
  | _ => throw s!"InvalidConfigError: state '{sid}' has an invalid 'invoke' entry"

def pInvoke (iJ : J) (sid : String) : PM (List Invoke) :=
  (ensureList iJ).foldlM (fun inv ic => invokeStep sid ic inv) []

def kidStep (sid : String) (kvs : List (String × J)) (x : String × J) : PM Unit :=
  (match x.2 with
    | J.obj _ => pure ()
    | _ => throw s!"InvalidConfigError: state '{sid}.{x.1}' must be an object/dict") >>= fun _ =>
  if x.1.contains '.' = true then
    if (kvs.any fun kv => kv.1 == (splitDot x.1).headD "") = true then
      throw s!"InvalidConfigError: state key '{x.1}' in '{sid}' is ambiguous"
    else pure ()
  else pure ()

def pKids (statesJ : J) (sid : String) : PM Unit :=
  match statesJ with
  | J.obj kvs => kvs.foldlM (fun _ x => kidStep sid kvs x) ()
  | _ => throw s!"InvalidConfigError: state '{sid}' has an invalid 'states' value"

/-- the `on` object, then the `always` key on top of it -/
def pOnAlways (onJ : J) (aJ : Option J) (sid : String) : PM (List (String × List Trans)) :=
  pOn onJ sid >>= fun on0 => pAlways aJ on0

/-- `parseStateDef` in direct style -/
def parseStateDefD (cfg : J) (sid : String) (path : Path) (isRoot : Bool) : PM StateDef :=
  pCustomId (cfg.get? "id") sid path isRoot >>= fun customId =>
  pInitialRaw (cfg.get? "initial") sid >>= fun initialRaw =>
  pInferInitial (kindOf cfg) initialRaw (statesJOf cfg) >>= fun initial =>
  pTags (cfg.get? "tags") sid >>= fun tags =>
  pMeta (cfg.get? "meta") sid >>= fun _ =>
  (liftM (parseActions (cfg.get? "entry")) : PM (List ActionRef)) >>= fun entry =>
  (liftM (parseActions (cfg.get? "exit")) : PM (List ActionRef)) >>= fun exit =>
  pOnAlways ((cfg.get? "on").getD (.obj [])) (cfg.get? "always") sid >>= fun on =>
  pOnDone (cfg.get? "onDone") sid >>= fun onDone =>
  pAfter ((cfg.get? "after").getD (.obj [])) sid >>= fun after =>
  pInvoke ((cfg.get? "invoke").getD (.arr [])) sid >>= fun invoke =>
  pKids (statesJOf cfg) sid >>= fun _ =>
  pure { kind := kindOf cfg, initial, entry, exit, on, onDone, after, invoke,
         deep := kindOf cfg == .history && (match cfg.get? "history" with | some (.str "deep") => true | _ => false),
         historyTarget := (match cfg.get? "target" with | some (.str s) => some s | _ => none),
         customId, tags }

section Bridge
variable {α : Type}

theorem customIdK_eq (idJ : Option J) (sid : String) (path : Path) (isRoot : Bool) (K : Unit → Option String → PM α) :
    customIdK idJ sid path isRoot K = pCustomId idJ sid path isRoot >>= fun c => K () c := by
  unfold customIdK pCustomId
  cases isRoot
  · simp only [Bool.not_false, if_true, Bool.false_eq_true, if_false]
    split
    · simp
    · simp
    · rename_i s
      by_cases hs : s = ""
      · simp [hs, PM.throw_bind]
      · simp only [hs, if_false, bind_assoc]
        congr 1; funext st
        split
        · simp [PM.throw_bind]
        · simp
    · simp [PM.throw_bind]
  · simp

theorem initialRawK_eq (iJ : Option J) (sid : String) (K : Option String → PM α) :
    initialRawK iJ sid K = pInitialRaw iJ sid >>= K := by
  unfold initialRawK pInitialRaw; split <;> rfl

theorem inferInitialK_eq (kind : Kind) (ir : Option String) (st : J) (K : Option String → PM α) :
    inferInitialK kind ir st K = pInferInitial kind ir st >>= K := by
  unfold inferInitialK pInferInitial
  split
  · rfl
  · split <;> rfl

theorem tagsK_eq (tJ : Option J) (sid : String) (K : List String → PM α) :
    tagsK tJ sid K = pTags tJ sid >>= K := by
  unfold tagsK pTags; split <;> rfl

theorem metaK_eq (mJ : Option J) (sid : String) (K : Unit → PM α) :
    metaK mJ sid K = pMeta mJ sid >>= K := by
  unfold metaK pMeta
  split
  · simp
  · split
    · rfl
    · simp

theorem onBody_eq (x : String × J) (on : List (String × List Trans)) :
    onBody x on = onStep x on >>= fun c => pure (ForInStep.yield c) := by
  obtain ⟨ev, tc⟩ := x
  simp [onBody, onStep]

theorem onK_eq (onJ : J) (sid : String) (K : Unit → List (String × List Trans) → PM α) :
    onK onJ sid K = pOn onJ sid >>= fun on => K () on := by
  unfold onK pOn
  split
  · have : (onBody : String × J → _) = fun x on => onStep x on >>= fun c => pure (ForInStep.yield c) := by
      funext x on; exact onBody_eq x on
    rw [this, forIn_yield_foldlM]
  · simp [PM.throw_bind]

theorem alwaysK_eq (aJ : Option J) (on : List (String × List Trans)) (K : Unit → List (String × List Trans) → PM α) :
    alwaysK aJ on K = pAlways aJ on >>= fun on => K () on := by
  unfold alwaysK pAlways
  split <;> simp

theorem onDoneK_eq (dJ : Option J) (sid : String) (K : Option Trans → PM α) :
    onDoneK dJ sid K = pOnDone dJ sid >>= K := by
  unfold onDoneK pOnDone
  split
  · rfl
  · split
    · rfl
    · simp only [bind_assoc]
      congr 1; funext cfgs
      split <;> simp

theorem afterBody_eq (sid : String) (x : String × J) (a : List (String × List Trans)) :
    afterBody sid x a = afterStep sid x a >>= fun c => pure (ForInStep.yield c) := by
  obtain ⟨d, tc⟩ := x
  simp [afterBody, afterStep]

theorem afterK_eq (afterJ : J) (sid : String) (K : Unit → List (String × List Trans) → PM α) :
    afterK afterJ sid K = pAfter afterJ sid >>= fun a => K () a := by
  unfold afterK pAfter
  split
  · have : (afterBody sid : String × J → _) = fun x a => afterStep sid x a >>= fun c => pure (ForInStep.yield c) := by
      funext x a; exact afterBody_eq sid x a
    rw [this, forIn_yield_foldlM]
  · simp [PM.throw_bind]

theorem invokeBody_eq (sid : String) (ic : J) (inv : List Invoke) :
    invokeBody sid ic inv = invokeStep sid ic inv >>= fun c => pure (ForInStep.yield c) := by
  cases ic <;> simp only [invokeBody, invokeStep, PM.throw_bind, PM.map_throw, bind_pure_comp]
  case obj kvs =>
    cases (J.obj kvs).get? "onDone" <;> cases (J.obj kvs).get? "onError" <;> simp

theorem invokeLoop_eq (iJ : J) (sid : String) :
    forIn (ensureList iJ) ([] : List Invoke) (invokeBody sid) = pInvoke iJ sid := by
  have : (invokeBody sid : J → _) = fun ic inv => invokeStep sid ic inv >>= fun c => pure (ForInStep.yield c) := by
    funext ic inv; exact invokeBody_eq sid ic inv
  rw [this, forIn_yield_foldlM]; rfl

theorem kidsBody_eq (sid : String) (kvs : List (String × J)) (x : String × J) (u : PUnit) :
    kidsBody sid kvs x u = kidStep sid kvs x >>= fun c => pure (ForInStep.yield c) := by
  obtain ⟨k, c⟩ := x
  cases c <;> simp only [kidsBody, kidStep, PM.throw_bind, pure_bind]
  case obj kvs' =>
    split
    · split
      · simp [PM.throw_bind, PM.map_throw]
      · simp
    · simp

theorem kidsK_eq (statesJ : J) (sid : String) (K : Unit → PM α) :
    kidsK statesJ sid K = pKids statesJ sid >>= K := by
  unfold kidsK pKids
  split
  · rename_i kvs
    have : (kidsBody sid kvs : String × J → _) = fun x u => kidStep sid kvs x >>= fun c => pure (ForInStep.yield c) := by
      funext x u; exact kidsBody_eq sid kvs x u
    rw [this, forIn_yield_foldlM]
  · rfl

end Bridge

/-- the executable model's `parseStateDef` IS the direct-style composition of the blocks above -/
theorem parseStateDef_eq (cfg : J) (sid : String) (path : Path) (isRoot : Bool) :
    parseStateDef cfg sid path isRoot = parseStateDefD cfg sid path isRoot := by
  rw [parseStateDef_eq_CPS]
  simp only [parseStateDefCPS, parseStateDefD, customIdK_eq, initialRawK_eq, inferInitialK_eq, tagsK_eq, metaK_eq,
    onK_eq, alwaysK_eq, onDoneK_eq, afterK_eq, invokeLoop_eq, kidsK_eq, pOnAlways, bind_assoc]

/-! ### post-conditions of parser computations -/

/-- every successful run of `x` returns a value satisfying `P` -/
def PM.Post {α : Type} (x : PM α) (P : α → Prop) : Prop := ∀ s a s', x s = .ok (a, s') → P a

theorem PM.bind_ok {α β : Type} {x : PM α} {f : α → PM β} {s s' : PState} {a : α}
    (h : x s = .ok (a, s')) : (x >>= f) s = f a s' := by
  simp [bind, StateT.bind, h, Except.bind]

theorem PM.bind_err {α β : Type} {x : PM α} {f : α → PM β} {s : PState} {e : PErr}
    (h : x s = .error e) : (x >>= f) s = .error e := by
  simp [bind, StateT.bind, h, Except.bind]

theorem PM.bind_congr_post {α β : Type} {x : PM α} {P : α → Prop} (hP : x.Post P) {f g : α → PM β}
    (h : ∀ a, P a → f a = g a) : x >>= f = x >>= g := by
  funext s
  cases hx : x s with
  | error e => rw [PM.bind_err hx, PM.bind_err hx]
  | ok r =>
    obtain ⟨a, s'⟩ := r
    rw [PM.bind_ok hx, PM.bind_ok hx, h a (hP s a s' hx)]

theorem PM.Post_pure {α : Type} (a : α) (P : α → Prop) (h : P a) : (pure a : PM α).Post P := by
  intro s a' s' hr
  have : (a, s) = (a', s') := Except.ok.inj hr
  cases this; exact h

theorem PM.Post_bind {α β : Type} {x : PM α} {f : α → PM β} {P : α → Prop} {Q : β → Prop}
    (hx : x.Post P) (hf : ∀ a, P a → (f a).Post Q) : (x >>= f).Post Q := by
  intro s b s' hr
  cases hxs : x s with
  | error e => rw [PM.bind_err hxs] at hr; cases hr
  | ok r =>
    obtain ⟨a, s1⟩ := r
    rw [PM.bind_ok hxs] at hr
    exact hf a (hx s a s1 hxs) s1 b s' hr

theorem PM.Post_foldlM {α β : Type} (l : List α) (step : β → α → PM β) (Inv : β → Prop)
    (hstep : ∀ b, ∀ a ∈ l, Inv b → (step b a).Post Inv) (init : β) (h0 : Inv init) :
    (l.foldlM step init).Post Inv := by
  induction l generalizing init with
  | nil => simpa using PM.Post_pure init Inv h0
  | cons a l ih =>
    rw [List.foldlM_cons]
    exact PM.Post_bind (hstep init a (by simp) h0)
      (fun b hb => ih (fun b' a' ha' => hstep b' a' (by simp [ha'])) b hb)

/-! ## 3. Spellings -/

/-! ### transitions: string, object, one-element list -/

theorem normalizeTransitions_str (t : String) :
    normalizeTransitions (.str t) = .ok [.obj [("target", .str t)]] := rfl

theorem normalizeTransitions_obj (kvs : List (String × J)) :
    normalizeTransitions (.obj kvs) = .ok [.obj kvs] := rfl

/-- the per-item normalisation inside a list -/
def normItem : J → Except PErr J
  | .str s => .ok (.obj [("target", .str s)])
  | .obj kvs => .ok (.obj kvs)
  | _ => .error "InvalidConfigError: invalid transition item in list"

theorem normalizeTransitions_arr (xs : List J) : normalizeTransitions (.arr xs) = xs.mapM normItem := by
  simp only [normalizeTransitions]
  congr 1

theorem normalizeTransitions_singleton (x : J) (y : J) (h : normItem x = .ok y) :
    normalizeTransitions (.arr [x]) = .ok [y] := by
  rw [normalizeTransitions_arr]
  simp [List.mapM_cons, h, bind, Except.bind, pure, Except.pure]

/-- inside a list, an item may be respelled whenever the two spellings normalise alike -/
theorem normalizeTransitions_item_congr (pre post : List J) (a b : J) (h : normItem a = normItem b) :
    normalizeTransitions (.arr (pre ++ a :: post)) = normalizeTransitions (.arr (pre ++ b :: post)) := by
  simp only [normalizeTransitions_arr, List.mapM_append, List.mapM_cons, h]

/-- `parseTransList` sees its config only through `normalizeTransitions` -/
theorem parseTransList_congr (ev : String) (c1 c2 : J) (h : normalizeTransitions c1 = normalizeTransitions c2) :
    parseTransList ev c1 = parseTransList ev c2 := by
  simp only [parseTransList, h]

/-- what the target-only spellings parse to, in parser state `s`: ONE transition to `t`, unguarded,
without actions -/
theorem parseTransList_str_run (ev t : String) (s : PState) :
    (parseTransList ev (.str t)).run s =
      .ok ([{ tid := s.nextTid, event := ev, target := some t, guard := none, actions := [], reenter := false,
              forbidden := false }], { s with nextTid := s.nextTid + 1 }) := by
  simp [parseTransList, normalizeTransitions, parseTransition, rawGuardOf, parseGuardOpt, parseActions, J.get?, J.hasKey,
    freshTid, StateT.run, bind, StateT.bind, Except.bind, pure, StateT.pure, Except.pure,
    liftM, monadLift, MonadLift.monadLift, StateT.lift, get, getThe, MonadStateOf.get, StateT.get,
    set, StateT.set, List.mapM_cons]

/-! ### actions: a single action, a one-element list, a string, an object -/

theorem parseAction_str_obj (s : String) : parseAction (.str s) = parseAction (.obj [("type", .str s)]) := by
  simp [parseAction, J.get?]

/-- inside a list, an action item may be respelled whenever the two spellings parse alike
(`parseAction_str_obj`: `"a"` and `{"type": "a"}` do) -/
theorem parseActions_item_congr (pre post : List J) (a b : J) (h : parseAction a = parseAction b) :
    parseActions (some (.arr (pre ++ a :: post))) = parseActions (some (.arr (pre ++ b :: post))) := by
  simp [parseActions, truthy, ensureList, List.mapM_append, List.mapM_cons, h]

/-- a truthy non-list value is the one-element list of itself -/
theorem parseActions_single_eq_list (a : J) (ht : truthy a = true) (hna : ∀ xs, a ≠ .arr xs) :
    parseActions (some a) = parseActions (some (.arr [a])) := by
  cases a <;> simp_all [parseActions, truthy, ensureList]

/-! ### `always` vs `on[""]` -/

theorem mergeAlways_fresh (on : List (String × List Trans)) (ts : List Trans) (h : ∀ kv ∈ on, kv.1 ≠ "") :
    mergeAlways on ts = on ++ [("", ts)] := by
  have : on.find? (fun kv => kv.1 == "") = none := by
    rw [List.find?_eq_none]; intro kv hkv; simpa using h kv hkv
  simp [mergeAlways, this]

theorem filter_ne_empty_of_fresh (on : List (String × List Trans)) (h : ∀ kv ∈ on, kv.1 ≠ "") :
    on.filter (fun kv => kv.1 != "") = on := by
  rw [List.filter_eq_self]; intro kv hkv; simpa using h kv hkv

/-- both present: the entries of `on[""]` come first, those of `always` after them, in one bucket
that stays where `on[""]` was -/
theorem mergeAlways_order (pre post : List (String × List Trans)) (ts1 ts2 : List Trans)
    (hpre : ∀ kv ∈ pre, kv.1 ≠ "") (hpost : ∀ kv ∈ post, kv.1 ≠ "") :
    mergeAlways (pre ++ ("", ts1) :: post) ts2 = pre ++ ("", ts1 ++ ts2) :: post := by
  have hf : (pre ++ ("", ts1) :: post).find? (fun kv => kv.1 == "") = some ("", ts1) := by
    have : pre.find? (fun kv => kv.1 == "") = none := by
      rw [List.find?_eq_none]; intro kv hkv; simpa using hpre kv hkv
    simp [List.find?_append, this]
  have hm : ∀ l : List (String × List Trans), (∀ kv ∈ l, kv.1 ≠ "") →
      l.map (fun kv => if kv.1 = "" then (kv.1, kv.2 ++ ts2) else kv) = l := by
    intro l hl
    induction l with
    | nil => rfl
    | cons x l ih =>
      simp only [List.map_cons, hl x (by simp), if_false]
      rw [ih (fun kv hkv => hl kv (by simp [hkv]))]
  simp [mergeAlways, hf, hm pre hpre, hm post hpost]

/-- the buckets built from `on` entries whose keys are not `""` contain no `""` bucket -/
theorem onLoop_post (kvs : List (String × J)) (hne : ∀ kv ∈ kvs, kv.1 ≠ "") :
    (kvs.foldlM (fun on x => onStep x on) ([] : List (String × List Trans))).Post (fun on => ∀ kv ∈ on, kv.1 ≠ "") := by
  apply PM.Post_foldlM
  · intro on x hx hinv
    unfold onStep
    refine PM.Post_bind (P := fun _ => True) (fun _ _ _ _ => trivial) (fun ts _ => PM.Post_pure _ _ ?_)
    intro kv hkv
    rcases List.mem_append.1 hkv with h | h
    · exact hinv kv (List.mem_filter.1 h).1
    · simp only [List.mem_singleton] at h; subst h; exact hne x hx
  · intro kv hkv; cases hkv

/-- the `on` / `always` part of a state: `always: X` on top of `on: {…}` (no `""` key) builds the same
buckets, in the same order, with the same transition ids, as `on: {…, "": X}` without `always` -/
theorem onAlways_eq (kvs : List (String × J)) (X : J) (sid : String) (hX : X ≠ .null)
    (hne : ∀ kv ∈ kvs, kv.1 ≠ "") :
    pOnAlways (.obj kvs) (some X) sid = pOnAlways (.obj (kvs ++ [("", X)])) none sid := by
  unfold pOnAlways
  have hA : ∀ on, pAlways (some X) on = parseTransList "" X >>= fun ts => pure (mergeAlways on ts) := by
    intro on; cases X <;> first | exact absurd rfl hX | rfl
  simp only [pOn, pAlways, hA, List.foldlM_append, List.foldlM_cons, List.foldlM_nil, bind_assoc, bind_pure]
  apply PM.bind_congr_post (onLoop_post kvs hne)
  intro on hon
  simp only [onStep, bind_assoc, pure_bind]
  congr 1; funext ts
  rw [mergeAlways_fresh on ts hon, filter_ne_empty_of_fresh on hon]

/-! ### object look-ups on appended key lists -/

theorem get?_append_left (a b : List (String × J)) (k : String) (hb : ∀ kv ∈ b, kv.1 ≠ k) :
    (J.obj (a ++ b)).get? k = (J.obj a).get? k := by
  have : b.find? (fun kv => kv.1 == k) = none := by
    rw [List.find?_eq_none]; intro kv hkv; simpa using hb kv hkv
  simp only [J.get?, List.find?_append, this]
  cases a.find? (fun kv => kv.1 == k) <;> rfl

theorem get?_append_right (a b : List (String × J)) (k : String) (ha : ∀ kv ∈ a, kv.1 ≠ k) :
    (J.obj (a ++ b)).get? k = (J.obj b).get? k := by
  have : a.find? (fun kv => kv.1 == k) = none := by
    rw [List.find?_eq_none]; intro kv hkv; simpa using ha kv hkv
  simp only [J.get?, List.find?_append, this]
  rfl

theorem hasKey_append (a b : List (String × J)) (k : String) :
    (J.obj (a ++ b)).hasKey k = ((J.obj a).hasKey k || (J.obj b).hasKey k) := by
  simp [J.hasKey, List.any_append]

theorem kindOf_congr (c1 c2 : J) (ht : c1.get? "type" = c2.get? "type") (hs : c1.hasKey "states" = c2.hasKey "states") :
    kindOf c1 = kindOf c2 := by
  simp only [kindOf, ht, hs]

/-- `parseStateDef` sees its config only through key look-ups -/
theorem parseStateDef_congr (c1 c2 : J) (sid : String) (path : Path) (isRoot : Bool)
    (h : ∀ k, c1.get? k = c2.get? k) (hs : c1.hasKey "states" = c2.hasKey "states") :
    parseStateDef c1 sid path isRoot = parseStateDef c2 sid path isRoot := by
  simp only [parseStateDef, h, hs]

/-- **`always: X` is `on: {…, "": X}`** (look-up form). Two state configs that agree on every key
other than `on` / `always`, the first with `on = {kvs}` (or no `on`) and `always = X`, the second with
`on = {kvs, "": X}` and no `always`, parse to the same state definition in every parser state — same
buckets in the same order and the same transition ids. Hypotheses: `X` is not `null`; no key of `kvs`
is `""`. -/
theorem parseStateDef_always_eq_on (c1 c2 : J) (sid : String) (path : Path) (isRoot : Bool)
    (kvs : List (String × J)) (X : J)
    (hsame : ∀ k, k ≠ "on" → k ≠ "always" → c1.get? k = c2.get? k)
    (hst : c1.hasKey "states" = c2.hasKey "states")
    (h1on : (c1.get? "on").getD (.obj []) = .obj kvs) (h1al : c1.get? "always" = some X) (hX : X ≠ .null)
    (h2on : c2.get? "on" = some (.obj (kvs ++ [("", X)]))) (h2al : c2.get? "always" = none)
    (hne : ∀ kv ∈ kvs, kv.1 ≠ "") :
    parseStateDef c1 sid path isRoot = parseStateDef c2 sid path isRoot := by
  rw [parseStateDef_eq, parseStateDef_eq]
  have hk : kindOf c1 = kindOf c2 := kindOf_congr c1 c2 (hsame "type" (by decide) (by decide)) hst
  have hsj : statesJOf c1 = statesJOf c2 := by simp only [statesJOf, hsame "states" (by decide) (by decide)]
  simp only [parseStateDefD, hk, hsj, h1on, h1al, h2on, h2al, Option.getD_some,
    hsame "id" (by decide) (by decide), hsame "initial" (by decide) (by decide), hsame "tags" (by decide) (by decide),
    hsame "meta" (by decide) (by decide), hsame "entry" (by decide) (by decide), hsame "exit" (by decide) (by decide),
    hsame "onDone" (by decide) (by decide), hsame "after" (by decide) (by decide), hsame "invoke" (by decide) (by decide),
    hsame "history" (by decide) (by decide), hsame "target" (by decide) (by decide), onAlways_eq kvs X sid hX hne]

/-- **an omitted `initial` with exactly one non-history child is that child** (look-up form): a
compound state config without `initial` whose `states` have exactly one non-history entry `k`, and
the same config with `"initial": k`, parse to the same state definition. -/
theorem parseStateDef_initial_inferred (c1 c2 : J) (sid : String) (path : Path) (isRoot : Bool)
    (kids : List (String × J)) (k : String) (ck : J)
    (hsame : ∀ key, key ≠ "initial" → c1.get? key = c2.get? key)
    (hst : c1.hasKey "states" = true) (hst2 : c2.hasKey "states" = true)
    (hstates : c1.get? "states" = some (.obj kids))
    (hnp : c1.get? "type" ≠ some (.str "parallel"))
    (hone : kids.filter (fun kv => !(isHistoryCfg kv.2)) = [(k, ck)])
    (h1 : c1.get? "initial" = none) (h2 : c2.get? "initial" = some (.str k)) :
    parseStateDef c1 sid path isRoot = parseStateDef c2 sid path isRoot := by
  rw [parseStateDef_eq, parseStateDef_eq]
  have hk : kindOf c1 = kindOf c2 := kindOf_congr c1 c2 (hsame "type" (by decide)) (hst.trans hst2.symm)
  have hk1 : kindOf c1 = .compound := by
    cases hty : c1.get? "type" with
    | none => simp [kindOf, hst, hty]
    | some v =>
      cases v with
      | str s =>
        have : s ≠ "parallel" := fun e => hnp (by rw [hty, e])
        simp [kindOf, hst, hty, this]
      | _ => simp [kindOf, hst, hty]
  have hsj : statesJOf c1 = statesJOf c2 := by simp only [statesJOf, hsame "states" (by decide)]
  have hsj1 : statesJOf c1 = .obj kids := by simp [statesJOf, hstates]
  have hI : (pInitialRaw (c1.get? "initial") sid >>= fun ir => pInferInitial (kindOf c1) ir (statesJOf c1)) =
      (pInitialRaw (c2.get? "initial") sid >>= fun ir => pInferInitial (kindOf c1) ir (statesJOf c1)) := by
    simp only [h1, h2, pInitialRaw, pure_bind, pInferInitial, hk1, hsj1, hone]
    by_cases hk0 : k = "" <;> simp [hk0]
  have hI' : ∀ {β : Type} (R : Option String → PM β),
      (pInitialRaw (c1.get? "initial") sid >>= fun ir => pInferInitial (kindOf c1) ir (statesJOf c1) >>= R) =
      (pInitialRaw (c2.get? "initial") sid >>= fun ir => pInferInitial (kindOf c1) ir (statesJOf c1) >>= R) := by
    intro β R
    rw [← bind_assoc, ← bind_assoc, hI]
  simp only [parseStateDefD, ← hk, ← hsj,
    hsame "id" (by decide), hsame "tags" (by decide),
    hsame "meta" (by decide), hsame "entry" (by decide), hsame "exit" (by decide), hsame "on" (by decide),
    hsame "always" (by decide),
    hsame "onDone" (by decide), hsame "after" (by decide), hsame "invoke" (by decide),
    hsame "history" (by decide), hsame "target" (by decide)]
  congr 1; funext customId
  exact hI' _

theorem get?_singleton_self (k : String) (v : J) : (J.obj [(k, v)]).get? k = some v := by simp [J.get?]

/-- **`always: X` is `on: {…, "": X}`** on concrete syntax: a state object whose other keys `kvs0`
are arbitrary (no `on` / `always` among them) -/
theorem always_spelling (kvs0 onkvs : List (String × J)) (X : J) (sid : String) (path : Path) (isRoot : Bool)
    (h0 : ∀ kv ∈ kvs0, kv.1 ≠ "on" ∧ kv.1 ≠ "always") (hX : X ≠ .null) (hne : ∀ kv ∈ onkvs, kv.1 ≠ "") :
    parseStateDef (.obj (kvs0 ++ [("on", .obj onkvs), ("always", X)])) sid path isRoot =
    parseStateDef (.obj (kvs0 ++ [("on", .obj (onkvs ++ [("", X)]))])) sid path isRoot := by
  have hon0 := fun kv hkv => (h0 kv hkv).1
  have hal0 := fun kv hkv => (h0 kv hkv).2
  refine parseStateDef_always_eq_on _ _ sid path isRoot onkvs X ?_ ?_ ?_ ?_ hX ?_ ?_ hne
  · intro k h1 h2
    rw [get?_append_left, get?_append_left]
    · intro kv hkv; simp only [List.mem_singleton] at hkv; subst hkv; exact fun e => h1 e.symm
    · intro kv hkv
      simp only [List.mem_cons, List.mem_nil_iff, or_false] at hkv
      rcases hkv with rfl | rfl
      · exact fun e => h1 e.symm
      · exact fun e => h2 e.symm
  · simp [hasKey_append, J.hasKey]
  · rw [get?_append_right _ _ _ hon0]; simp [J.get?]
  · rw [get?_append_right _ _ _ hal0]; simp [J.get?]
  · rw [get?_append_right _ _ _ hon0]; simp [J.get?]
  · rw [get?_append_right _ _ _ hal0]; simp [J.get?]

/-- the same when the state has no `on` at all: `always: X` is `on: {"": X}` -/
theorem always_spelling_no_on (kvs0 : List (String × J)) (X : J) (sid : String) (path : Path) (isRoot : Bool)
    (h0 : ∀ kv ∈ kvs0, kv.1 ≠ "on" ∧ kv.1 ≠ "always") (hX : X ≠ .null) :
    parseStateDef (.obj (kvs0 ++ [("always", X)])) sid path isRoot =
    parseStateDef (.obj (kvs0 ++ [("on", .obj [("", X)])])) sid path isRoot := by
  have hon0 := fun kv hkv => (h0 kv hkv).1
  have hal0 := fun kv hkv => (h0 kv hkv).2
  refine parseStateDef_always_eq_on _ _ sid path isRoot [] X ?_ ?_ ?_ ?_ hX ?_ ?_ (by simp)
  · intro k h1 h2
    rw [get?_append_left, get?_append_left]
    · intro kv hkv; simp only [List.mem_singleton] at hkv; subst hkv; exact fun e => h1 e.symm
    · intro kv hkv; simp only [List.mem_singleton] at hkv; subst hkv; exact fun e => h2 e.symm
  · simp [hasKey_append, J.hasKey]
  · rw [get?_append_right _ _ _ hon0]; simp [J.get?]
  · rw [get?_append_right _ _ _ hal0]; simp [J.get?]
  · rw [get?_append_right _ _ _ hon0]; simp [J.get?]
  · rw [get?_append_right _ _ _ hal0]; simp [J.get?]

/-- **omitted `initial`** on concrete syntax -/
theorem initial_spelling (kvs0 kids : List (String × J)) (k : String) (ck : J) (sid : String) (path : Path) (isRoot : Bool)
    (h0 : ∀ kv ∈ kvs0, kv.1 ≠ "initial" ∧ kv.1 ≠ "states")
    (hnp : (J.obj kvs0).get? "type" ≠ some (.str "parallel"))
    (hone : kids.filter (fun kv => !(isHistoryCfg kv.2)) = [(k, ck)]) :
    parseStateDef (.obj (kvs0 ++ [("states", .obj kids)])) sid path isRoot =
    parseStateDef (.obj (kvs0 ++ [("initial", .str k), ("states", .obj kids)])) sid path isRoot := by
  have hin0 := fun kv hkv => (h0 kv hkv).1
  have hst0 := fun kv hkv => (h0 kv hkv).2
  refine parseStateDef_initial_inferred _ _ sid path isRoot kids k ck ?_ ?_ ?_ ?_ ?_ hone ?_ ?_
  · intro key hk
    by_cases hs : key = "states"
    · subst hs
      rw [get?_append_right _ _ _ hst0, get?_append_right _ _ _ hst0]
      simp [J.get?]
    · rw [get?_append_left, get?_append_left]
      · intro kv hkv
        simp only [List.mem_cons, List.mem_nil_iff, or_false] at hkv
        rcases hkv with rfl | rfl
        · exact fun e => hk e.symm
        · exact fun e => hs e.symm
      · intro kv hkv; simp only [List.mem_singleton] at hkv; subst hkv; exact fun e => hs e.symm
  · simp [hasKey_append, J.hasKey]
  · simp [hasKey_append, J.hasKey]
  · rw [get?_append_right _ _ _ hst0]; simp [J.get?]
  · rw [get?_append_left]
    · exact hnp
    · intro kv hkv; simp only [List.mem_singleton] at hkv; subst hkv; exact (by decide : "states" ≠ "type")
  · rw [get?_append_right _ _ _ hin0]; simp [J.get?]
  · rw [get?_append_right _ _ _ hin0]; simp [J.get?]


/-! ## 4. Errors of the parser -/

/-- a library error of the config front end: the text starts with the class name `InvalidConfigError` -/
def LibErr (e : PErr) : Prop := sStartsWith e "InvalidConfigError: " = true

theorem LibErr_append (a b : String) (h : LibErr a) : LibErr (a ++ b) := by
  unfold LibErr sStartsWith at *
  rw [String.toList_append]
  rw [List.isPrefixOf_iff_prefix] at *
  exact List.IsPrefix.trans h (List.prefix_append _ _)

theorem LibErr_lit (a : String) (h : sStartsWith a "InvalidConfigError: " = true) : LibErr (toString a) := h

/-- the literal most messages begin with (checked once; evaluating a string literal in the kernel is slow) -/
theorem LibErr_state : LibErr (toString "InvalidConfigError: state '") := by unfold LibErr; decide

/-- closes `LibErr <message>` for the (interpolated) messages of `Parse.lean` -/
macro "liberr" : tactic =>
  `(tactic| (repeat (first
      | (with_reducible exact LibErr_state)
      | (with_reducible apply LibErr_append)
      | (with_reducible refine LibErr_lit _ ?_; decide)
      | (unfold LibErr; decide))))

/-- every failing run of `x` fails with an error satisfying `G` -/
def PM.ErrOK {α : Type} (x : PM α) (G : PErr → Prop) : Prop := ∀ s e, x s = .error e → G e

theorem PM.ErrOK_pure {α : Type} (a : α) (G : PErr → Prop) : (pure a : PM α).ErrOK G := by
  intro s e h; cases h

theorem PM.ErrOK_throw {α : Type} (e : PErr) (G : PErr → Prop) (h : G e) : (throw e : PM α).ErrOK G := by
  intro s e' h'
  have : e = e' := Except.error.inj h'
  exact this ▸ h

theorem PM.ErrOK_bind {α β : Type} {x : PM α} {f : α → PM β} {G : PErr → Prop}
    (hx : x.ErrOK G) (hf : ∀ a, (f a).ErrOK G) : (x >>= f).ErrOK G := by
  intro s e h
  cases hxs : x s with
  | error e' => rw [PM.bind_err hxs] at h; cases h; exact hx s _ hxs
  | ok r => obtain ⟨a, s1⟩ := r; rw [PM.bind_ok hxs] at h; exact hf a s1 e h

theorem PM.ErrOK_lift {α : Type} (x : Except PErr α) (G : PErr → Prop) (h : ∀ e, x = .error e → G e) :
    (liftM x : PM α).ErrOK G := by
  intro s e he
  cases x with
  | error e' =>
    have : e' = e := Except.error.inj he
    exact this ▸ h e' rfl
  | ok a => cases he

theorem PM.ErrOK_get (G : PErr → Prop) : (get : PM PState).ErrOK G := by
  intro s e h; cases h

theorem PM.ErrOK_set (st : PState) (G : PErr → Prop) : (set st : PM PUnit).ErrOK G := by
  intro s e h; cases h

theorem PM.ErrOK_foldlM {α β : Type} (l : List α) (step : β → α → PM β) (G : PErr → Prop)
    (hstep : ∀ b, ∀ a ∈ l, (step b a).ErrOK G) (init : β) : (l.foldlM step init).ErrOK G := by
  induction l generalizing init with
  | nil => simpa using PM.ErrOK_pure init G
  | cons a l ih =>
    rw [List.foldlM_cons]
    exact PM.ErrOK_bind (hstep init a (by simp)) (fun b => ih (fun b' a' ha' => hstep b' a' (by simp [ha'])) b)

theorem PM.ErrOK_mapM {α β : Type} (l : List α) (f : α → PM β) (G : PErr → Prop)
    (hf : ∀ a ∈ l, (f a).ErrOK G) : (l.mapM f).ErrOK G := by
  induction l with
  | nil => simpa using PM.ErrOK_pure ([] : List β) G
  | cons a l ih =>
    rw [List.mapM_cons]
    exact PM.ErrOK_bind (hf a (by simp)) (fun b =>
      PM.ErrOK_bind (ih (fun a' ha' => hf a' (by simp [ha']))) (fun bs => PM.ErrOK_pure _ G))

/-- an error of `mapM` in `Except` is the error of one element -/
theorem Except.mapM_error {α β : Type} (f : α → Except PErr β) (l : List α) (e : PErr)
    (h : l.mapM f = .error e) : ∃ a ∈ l, f a = .error e := by
  induction l with
  | nil => simp [pure, Except.pure] at h
  | cons a l ih =>
    rw [List.mapM_cons] at h
    cases hfa : f a with
    | error e' =>
      simp [hfa, bind, Except.bind] at h
      exact ⟨a, by simp, by rw [hfa, h]⟩
    | ok b =>
      simp only [hfa, bind, Except.bind] at h
      cases hl : l.mapM f with
      | error e' =>
        simp [hl] at h
        obtain ⟨a', ha', he'⟩ := ih (by rw [hl, h])
        exact ⟨a', by simp [ha'], he'⟩
      | ok bs => simp [hl, pure, Except.pure] at h

theorem normalizeTransitions_err (c : J) (e : PErr) (h : normalizeTransitions c = .error e) : LibErr e := by
  cases c with
  | arr xs =>
    rw [normalizeTransitions_arr] at h
    obtain ⟨a, _, ha⟩ := Except.mapM_error _ _ _ h
    cases a <;> simp [normItem] at ha <;> (subst ha; liberr)
  | null => cases h
  | str s => cases h
  | obj kvs => cases h
  | bool b => simp [normalizeTransitions] at h; subst h; liberr
  | num n => simp [normalizeTransitions] at h; subst h; liberr

theorem parseAction_err (a : J) (e : PErr) (h : parseAction a = .error e) : LibErr e := by
  cases a <;> simp [parseAction] at h <;> (subst h; liberr)

theorem parseActions_err (j : Option J) (e : PErr) (h : parseActions j = .error e) : LibErr e := by
  cases j with
  | none => cases h
  | some v =>
    simp only [parseActions] at h
    split at h
    · cases h
    · obtain ⟨a, _, ha⟩ := Except.mapM_error _ _ _ h
      exact parseAction_err a e ha

theorem guardTypeOf_err (o : J) (e : PErr) (h : guardTypeOf o = .error e) : LibErr e := by
  unfold guardTypeOf at h
  split at h
  · split at h
    · cases h; liberr
    · cases h
  · cases h; liberr

theorem finishGuard_err (ty : String) (ps : Option J) (cs : List GuardExpr) (e : PErr)
    (h : finishGuard ty ps cs = .error e) : LibErr e := by
  unfold finishGuard at h
  simp only at h
  repeat' split at h
  all_goals (cases h; try liberr)

theorem parseGuard_err : ∀ (j : J) (e : PErr), parseGuard j = .error e → LibErr e := by
  intro j
  induction j using WellFounded.induction (measure (fun j : J => sizeOf j)).wf with
  | _ j ih =>
    intro e h
    cases j with
    | obj kvs =>
      rw [parseGuard_obj] at h
      cases hty : guardTypeOf (.obj kvs) with
      | error e' =>
        simp [hty, bind, Except.bind] at h
        exact guardTypeOf_err _ _ (by rw [hty, h])
      | ok ty =>
        simp only [hty, bind, Except.bind] at h
        cases hch : List.mapM parseGuard (guardChildrenJ (J.obj kvs) (decide (ty = "and") || decide (ty = "or") || decide (ty = "not"))) with
        | error e' =>
          simp [hch] at h
          obtain ⟨c, hc, hce⟩ := Except.mapM_error _ _ _ hch
          exact ih c (guardChildrenJ_sizeOf_lt _ _ c hc) e (by rw [hce, h])
        | ok ch =>
          simp only [hch] at h
          exact finishGuard_err _ _ _ _ h
    | str s => rw [parseGuard.eq_1] at h; cases h
    | null =>
      rw [parseGuard] at h
      · cases h; liberr
      · intro _ h'; cases h'
      · intro _ h'; cases h'
    | bool b =>
      rw [parseGuard] at h
      · cases h; liberr
      · intro _ h'; cases h'
      · intro _ h'; cases h'
    | num n =>
      rw [parseGuard] at h
      · cases h; liberr
      · intro _ h'; cases h'
      · intro _ h'; cases h'
    | arr xs =>
      rw [parseGuard] at h
      · cases h; liberr
      · intro _ h'; cases h'
      · intro _ h'; cases h'

theorem parseGuardOpt_err (j : Option J) (e : PErr) (h : parseGuardOpt j = .error e) : LibErr e := by
  unfold parseGuardOpt at h
  split at h
  · cases h
  · cases h
  · rename_i g _
    cases hg : parseGuard g with
    | error e' =>
      simp [hg, bind, Except.bind] at h
      exact parseGuard_err g e (by rw [hg, h])
    | ok ge => simp [hg, bind, Except.bind, pure, Except.pure] at h

theorem freshTid_ErrOK (G : PErr → Prop) : freshTid.ErrOK G := by
  intro s e h; cases h

theorem parseTransition_ErrOK (ev : String) (cfg : J) : (parseTransition ev cfg).ErrOK LibErr := by
  unfold parseTransition
  refine PM.ErrOK_bind (PM.ErrOK_lift _ _ (parseActions_err _)) (fun actions => ?_)
  refine PM.ErrOK_bind (PM.ErrOK_lift _ _ (parseGuardOpt_err _)) (fun guard => ?_)
  exact PM.ErrOK_bind (freshTid_ErrOK _) (fun tid => PM.ErrOK_pure _ _)

theorem parseTransList_ErrOK (ev : String) (cfg : J) : (parseTransList ev cfg).ErrOK LibErr := by
  unfold parseTransList
  exact PM.ErrOK_bind (PM.ErrOK_lift _ _ (normalizeTransitions_err _))
    (fun cfgs => PM.ErrOK_mapM _ _ _ (fun c _ => parseTransition_ErrOK ev c))

/-- the errors of one state's own definition: library errors, and the raw `AttributeError` of
`_parse_initial` on a non-dict `states` -/
def StateErr (e : PErr) : Prop := LibErr e ∨ e = "InvalidConfigError: invalid 'states' value (not an object)"

theorem PM.ErrOK_mono {α : Type} {x : PM α} {G G' : PErr → Prop} (h : x.ErrOK G) (hi : ∀ e, G e → G' e) :
    x.ErrOK G' := fun s e he => hi e (h s e he)

theorem pCustomId_ErrOK (idJ : Option J) (sid : String) (path : Path) (isRoot : Bool) :
    (pCustomId idJ sid path isRoot).ErrOK LibErr := by
  unfold pCustomId
  split
  · exact PM.ErrOK_pure _ _
  · split
    · exact PM.ErrOK_pure _ _
    · exact PM.ErrOK_pure _ _
    · split
      · exact PM.ErrOK_throw _ _ (by liberr)
      · refine PM.ErrOK_bind (PM.ErrOK_get _) (fun st => ?_)
        split
        · exact PM.ErrOK_throw _ _ (by liberr)
        · exact PM.ErrOK_bind (PM.ErrOK_set _ _) (fun _ => PM.ErrOK_pure _ _)
    · exact PM.ErrOK_throw _ _ (by liberr)

theorem pInitialRaw_ErrOK (iJ : Option J) (sid : String) : (pInitialRaw iJ sid).ErrOK LibErr := by
  unfold pInitialRaw
  split
  · exact PM.ErrOK_pure _ _
  · exact PM.ErrOK_pure _ _
  · exact PM.ErrOK_pure _ _
  · exact PM.ErrOK_throw _ _ (by liberr)

theorem pInferInitial_ErrOK (kind : Kind) (ir : Option String) (st : J) : (pInferInitial kind ir st).ErrOK StateErr := by
  unfold pInferInitial
  split
  · exact PM.ErrOK_pure _ _
  · split
    · exact PM.ErrOK_pure _ _
    · exact PM.ErrOK_throw _ _ (Or.inr rfl)

theorem pTags_ErrOK (tJ : Option J) (sid : String) : (pTags tJ sid).ErrOK LibErr := by
  unfold pTags
  split
  · exact PM.ErrOK_pure _ _
  · exact PM.ErrOK_pure _ _
  · apply PM.ErrOK_mapM
    intro a _
    split
    · exact PM.ErrOK_pure _ _
    · exact PM.ErrOK_throw _ _ (by liberr)
  · exact PM.ErrOK_throw _ _ (by liberr)

theorem pMeta_ErrOK (mJ : Option J) (sid : String) : (pMeta mJ sid).ErrOK LibErr := by
  unfold pMeta
  split
  · exact PM.ErrOK_pure _ _
  · split
    · split
      · exact PM.ErrOK_pure _ _
      · exact PM.ErrOK_throw _ _ (by liberr)
    · exact PM.ErrOK_pure _ _

theorem pOnAlways_ErrOK (onJ : J) (aJ : Option J) (sid : String) : (pOnAlways onJ aJ sid).ErrOK LibErr := by
  unfold pOnAlways
  refine PM.ErrOK_bind ?_ (fun on0 => ?_)
  · unfold pOn
    split
    · apply PM.ErrOK_foldlM
      intro on x _
      exact PM.ErrOK_bind (parseTransList_ErrOK _ _) (fun ts => PM.ErrOK_pure _ _)
    · exact PM.ErrOK_throw _ _ (by liberr)
  · unfold pAlways
    split
    · exact PM.ErrOK_pure _ _
    · exact PM.ErrOK_pure _ _
    · exact PM.ErrOK_bind (parseTransList_ErrOK _ _) (fun ts => PM.ErrOK_pure _ _)

theorem pOnDone_ErrOK (dJ : Option J) (sid : String) : (pOnDone dJ sid).ErrOK LibErr := by
  unfold pOnDone
  split
  · exact PM.ErrOK_pure _ _
  · split
    · exact PM.ErrOK_pure _ _
    · refine PM.ErrOK_bind (PM.ErrOK_lift _ _ (normalizeTransitions_err _)) (fun cfgs => ?_)
      split
      · exact PM.ErrOK_pure _ _
      · exact PM.ErrOK_bind (parseTransition_ErrOK _ _) (fun t => PM.ErrOK_pure _ _)

theorem pAfter_ErrOK (aJ : J) (sid : String) : (pAfter aJ sid).ErrOK LibErr := by
  unfold pAfter
  split
  · apply PM.ErrOK_foldlM
    intro a x _
    exact PM.ErrOK_bind (PM.ErrOK_lift _ _ (normalizeTransitions_err _)) (fun cfgs =>
      PM.ErrOK_bind (PM.ErrOK_mapM _ _ _ (fun c _ => parseTransition_ErrOK _ c)) (fun ts => PM.ErrOK_pure _ _))
  · exact PM.ErrOK_throw _ _ (by liberr)

theorem pInvoke_ErrOK (iJ : J) (sid : String) : (pInvoke iJ sid).ErrOK LibErr := by
  unfold pInvoke
  apply PM.ErrOK_foldlM
  intro inv ic _
  unfold invokeStep
  split
  · refine PM.ErrOK_bind ?_ (fun od => PM.ErrOK_bind ?_ (fun oe => PM.ErrOK_pure _ _))
    · split
      · exact PM.ErrOK_pure _ _
      · exact parseTransList_ErrOK _ _
    · split
      · exact PM.ErrOK_pure _ _
      · exact parseTransList_ErrOK _ _
  · exact PM.ErrOK_throw _ _ (by liberr)

theorem pKids_ErrOK (stJ : J) (sid : String) : (pKids stJ sid).ErrOK LibErr := by
  unfold pKids
  split
  · apply PM.ErrOK_foldlM
    intro _ x _
    unfold kidStep
    refine PM.ErrOK_bind ?_ (fun _ => ?_)
    · split
      · exact PM.ErrOK_pure _ _
      · exact PM.ErrOK_throw _ _ (by liberr)
    · split
      · split
        · exact PM.ErrOK_throw _ _ (by liberr)
        · exact PM.ErrOK_pure _ _
      · exact PM.ErrOK_pure _ _
  · exact PM.ErrOK_throw _ _ (by liberr)

theorem parseStateDef_ErrOK (cfg : J) (sid : String) (path : Path) (isRoot : Bool) :
    (parseStateDef cfg sid path isRoot).ErrOK StateErr := by
  rw [parseStateDef_eq]
  unfold parseStateDefD
  have L : ∀ {α : Type} {x : PM α}, x.ErrOK LibErr → x.ErrOK StateErr := fun h => PM.ErrOK_mono h (fun _ => Or.inl)
  refine PM.ErrOK_bind (L (pCustomId_ErrOK _ _ _ _)) (fun _ => ?_)
  refine PM.ErrOK_bind (L (pInitialRaw_ErrOK _ _)) (fun _ => ?_)
  refine PM.ErrOK_bind (pInferInitial_ErrOK _ _ _) (fun _ => ?_)
  refine PM.ErrOK_bind (L (pTags_ErrOK _ _)) (fun _ => ?_)
  refine PM.ErrOK_bind (L (pMeta_ErrOK _ _)) (fun _ => ?_)
  refine PM.ErrOK_bind (L (PM.ErrOK_lift _ _ (parseActions_err _))) (fun _ => ?_)
  refine PM.ErrOK_bind (L (PM.ErrOK_lift _ _ (parseActions_err _))) (fun _ => ?_)
  refine PM.ErrOK_bind (L (pOnAlways_ErrOK _ _ _)) (fun _ => ?_)
  refine PM.ErrOK_bind (L (pOnDone_ErrOK _ _)) (fun _ => ?_)
  refine PM.ErrOK_bind (L (pAfter_ErrOK _ _)) (fun _ => ?_)
  refine PM.ErrOK_bind (L (pInvoke_ErrOK _ _)) (fun _ => ?_)
  refine PM.ErrOK_bind (L (pKids_ErrOK _ _)) (fun _ => ?_)
  exact PM.ErrOK_pure _ _

theorem PM.ErrOK_forIn' {α β : Type} (l : List α) (f : (a : α) → a ∈ l → β → PM (ForInStep β)) (G : PErr → Prop)
    (hf : ∀ a h b, (f a h b).ErrOK G) (init : β) : (forIn' l init f).ErrOK G := by
  induction l generalizing init with
  | nil => simpa using PM.ErrOK_pure init G
  | cons a l ih =>
    rw [List.forIn'_cons]
    refine PM.ErrOK_bind (hf a _ init) (fun r => ?_)
    cases r with
    | done b => exact PM.ErrOK_pure _ _
    | yield b => exact ih _ (fun a' h' b' => hf a' _ b') b

theorem parseState_ErrOK : ∀ (cfg : J) (key sid : String) (path : Path) (isRoot : Bool),
    (parseState cfg key sid path isRoot).ErrOK StateErr := by
  intro cfg
  induction cfg using WellFounded.induction (measure (fun j : J => sizeOf j)).wf with
  | _ cfg ih =>
    intro key sid path isRoot
    rw [parseState.eq_1]
    refine PM.ErrOK_bind (parseStateDef_ErrOK _ _ _ _) (fun d => ?_)
    refine PM.ErrOK_bind ?_ (fun kids => PM.ErrOK_pure _ _)
    apply PM.ErrOK_forIn'
    intro kc hkc kids
    exact PM.ErrOK_bind (ih kc.2 (stateKidsJ_sizeOf_lt cfg kc hkc) _ _ _ _) (fun child => PM.ErrOK_pure _ _)

/-- the errors of `parseMachine` that model RAW Python exceptions (not library errors), with the place
in the code that raises them -/
def rawErrors : List PErr :=
  ["InvalidConfigError: machine configuration must be a dictionary",      -- factory.create_machine: `config.get("id")`, config not a dict
   "InvalidConfigError: invalid 'maxIterations' (not a number)",  -- MachineNode.__init__: int(maxIterations), None / list / dict
   "InvalidConfigError: invalid 'maxIterations' (not an integer literal)",                        -- MachineNode.__init__: int(maxIterations), non-numeric string
   "InvalidConfigError: invalid 'states' value (not an object)"]                                               -- StateNode._parse_initial: `.items()` on a non-dict `states`

section MachineBlocks
variable {α : Type}

def mObjK (cfg : J) (K : Unit → Except PErr α) : Except PErr α :=
  match cfg with
  | J.obj _ => K ()
  | _ => (throw "InvalidConfigError: machine configuration must be a dictionary" : Except PErr Unit) >>= K

def mIdK (cfg : J) (K : String → Except PErr α) : Except PErr α :=
  match cfg.get? "id" with
  | some (J.str s) =>
    if s = "" then (throw "InvalidConfigError: machine configuration must have a non-empty 'id' string" : Except PErr String) >>= K
    else (pure s : Except PErr String) >>= K
  | _ => (throw "InvalidConfigError: machine configuration must have a non-empty 'id' string" : Except PErr String) >>= K

def mStatesK (cfg : J) (K : Unit → Except PErr α) : Except PErr α :=
  if (!cfg.hasKey "states") = true then
    (throw "InvalidConfigError: must be a dict with 'id' and 'states' keys" : Except PErr Unit) >>= K
  else K ()

def mCtxK (cfg : J) (mid : String) (K : Unit → Except PErr α) : Except PErr α :=
  match cfg.get? "context" with
  | none => K ()
  | some (J.obj _) => K ()
  | some (J.str _) => K ()
  | some _ => (throw s!"InvalidConfigError: machine '{mid}' has an invalid 'context'" : Except PErr Unit) >>= K

def mMaxItK (cfg : J) (K : Nat → Except PErr α) : Except PErr α :=
  match cfg.get? "maxIterations" with
  | none => (pure Tables.defaultMaxIterations : Except PErr Nat) >>= K
  | some (J.num n) => (pure n.toNat : Except PErr Nat) >>= K
  | some (J.bool b) => (pure (if b = true then 1 else 0) : Except PErr Nat) >>= K
  | some (J.str s) =>
    (match pyIntOfStr s with
      | some n => (pure n.toNat : Except PErr Nat)
      | none => throw "InvalidConfigError: invalid 'maxIterations' (not an integer literal)") >>= K
  | some _ => (throw "InvalidConfigError: invalid 'maxIterations' (not a number)" : Except PErr Nat) >>= K

end MachineBlocks

def ctx0Of (cfg : J) : List (String × Int) :=
  match cfg.get? "context" with
  | some (.obj kvs) => kvs.filterMap (fun kv => match kv.2 with | .num n => some (kv.1, n) | _ => none)
  | _ => []

/-- `parseMachine`, block by block (definitionally the executable model's function) -/
theorem parseMachine_eq_blocks (cfg : J) :
    parseMachine cfg =
      mObjK cfg fun _ => mIdK cfg fun mid => mStatesK cfg fun _ => mCtxK cfg mid fun _ => mMaxItK cfg fun maxIt =>
        (parseState cfg mid mid [] true).run {} >>= fun x =>
          match x with
          | (root, st) => pure { id := mid, root, maxIterations := maxIt, customIds := st.customIds, ctx0 := ctx0Of cfg } := rfl

theorem Except.throw_bind {α β : Type} (e : PErr) (f : α → Except PErr β) :
    ((throw e : Except PErr α) >>= f) = .error e := rfl

theorem mCtxK_error {α : Type} (cfg : J) (mid : String) (K : Unit → Except PErr α) (e : PErr)
    (h : mCtxK cfg mid K = .error e) : LibErr e ∨ K () = .error e := by
  unfold mCtxK at h
  split at h
  · exact Or.inr h
  · exact Or.inr h
  · exact Or.inr h
  · cases h; exact Or.inl (by liberr)

theorem mMaxItK_error {α : Type} (cfg : J) (K : Nat → Except PErr α) (e : PErr)
    (h : mMaxItK cfg K = .error e) :
    e = "InvalidConfigError: invalid 'maxIterations' (not an integer literal)" ∨
    e = "InvalidConfigError: invalid 'maxIterations' (not a number)" ∨ ∃ n, K n = .error e := by
  unfold mMaxItK at h
  split at h
  · exact Or.inr (Or.inr ⟨_, h⟩)
  · exact Or.inr (Or.inr ⟨_, h⟩)
  · exact Or.inr (Or.inr ⟨_, h⟩)
  · split at h
    · exact Or.inr (Or.inr ⟨_, h⟩)
    · cases h; exact Or.inl rfl
  · cases h; exact Or.inr (Or.inl rfl)

/-- **every error of the model's `parseMachine` is a library `InvalidConfigError`, except the four
explicitly listed `RAW:` ones** -/
theorem parseMachine_errors (cfg : J) (e : PErr) (h : parseMachine cfg = .error e) :
    LibErr e ∨ e ∈ rawErrors := by
  rw [parseMachine_eq_blocks] at h
  cases cfg with
  | obj kvs =>
    simp only [mObjK] at h
    -- id
    unfold mIdK at h
    split at h
    case h_2 => cases h; exact Or.inl (by liberr)
    rename_i mid _
    split at h
    · cases h; exact Or.inl (by liberr)
    simp only [pure_bind] at h
    -- states
    unfold mStatesK at h
    split at h
    · cases h; exact Or.inl (by liberr)
    -- context
    rcases mCtxK_error _ _ _ _ h with h | h
    · exact Or.inl h
    -- maxIterations
    rcases mMaxItK_error _ _ _ h with h | h | ⟨maxIt, h⟩
    · exact Or.inr (by subst h; simp [rawErrors])
    · exact Or.inr (by subst h; simp [rawErrors])
    -- the state tree
    cases hrun : (parseState (J.obj kvs) mid mid [] true).run {} with
    | error e' =>
      rw [hrun] at h
      cases h
      rcases parseState_ErrOK _ _ _ _ _ _ _ hrun with h1 | h1
      · exact Or.inl h1
      · exact Or.inr (by subst h1; simp [rawErrors])
    | ok r =>
      rw [hrun] at h
      obtain ⟨root, st⟩ := r
      cases h
  | _ => cases h; exact Or.inr (by simp [rawErrors])


end XSM
