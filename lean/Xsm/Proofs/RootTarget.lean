import Xsm.Proofs.Bridge
/-
A transition whose target is the machine root (`#m`, `.` from a top-level state, a re-entering
transition declared on the root): since the fix commit "a transition targeting the machine root
re-enters the machine" the domain is `None`, everything is exited and the root is re-entered.
-/
namespace XSM
open Spec

theorem legal_enterDefault_root (root : SNode) (hwf : WF root) (hk : root.kind ≠ .history)
    (c : List Path) (hc : ∀ q, q ∈ c ↔ q ∈ enterDefault [] root) : Legal root c := by
  apply legal_of_legalAt root hwf c
  · exact LegalAt_congr _ c [] root (fun q _ => (hc q).symm) (enterDefault_legal [] root hwf hk)
  · intro q hq
    exact enterDefault_at root [] root rfl hwf q ((hc q).1 hq)


theorem regionsNotIn_root (p : Path) (L : List Path) (hL : ∀ k, (p ++ [k]) ∉ L) :
    ∀ kids : List (String × SNode), regionsNotIn L p kids = enterRegions p kids := by
  intro kids
  induction kids with
  | nil => simp [regionsNotIn, enterRegions]
  | cons kc rest ih =>
    obtain ⟨k, c⟩ := kc
    simp only [regionsNotIn, enterRegions, ih, hL k, or_false]

theorem enterStates_root (root : SNode) : enterStates root [[]] = enterDefault [] root := by
  obtain ⟨d, kids⟩ := root
  have hx : hasExplicitChild [[]] [] = false := by simp [hasExplicitChild]
  simp only [enterStates, List.flatMap_cons, List.flatMap_nil, List.append_nil, extra, SNode.at]
  rw [enterDefault]
  congr 1
  cases hk : d.kind <;> simp only [hx, Bool.false_eq_true, if_false]
  · exact regionsNotIn_root [] [[]] (by intro k; simp) kids

theorem pathFromO_none_nil : pathFromO none [] = [[]] := by
  simp [pathFromO]

theorem domainO_root (m : Machine) (src : Path) : domainO m src [] = none := by
  unfold domainO
  by_cases h : [] = src
  · subst h; simp
  · simp [h]

/-- **C01, root target**: a transition to the machine root leaves a legal configuration (the full
    default entry of the machine), or — if it fails midway — the configuration it started from. -/
theorem legal_microstep_root (h : Hooks) (hok : HooksOK h) (fl : Flavor) (m : Machine) (ev : Ev)
    (c : Cand) (s : St) (hwf : WF m.root) (hi : InitOK m.root) (hk : m.root.kind ≠ .history)
    (hL : Legal m.root s.cfg)
    (tstr : String) (ht : c.t.target = some tstr) (hne : tstr ≠ "")
    (hres : resolveRobust m c.src tstr = some [])
    (hext : ¬ ([] = c.src ∧ c.t.reenter = false)) :
    Legal m.root (execute h fl m ev (planTransition m s.cfg s.hist c) s).cfg := by
  have hnotint : (([] : Path) = c.src && !c.t.reenter) = false := by
    cases hr : c.t.reenter with
    | true => simp
    | false =>
      by_cases he : ([] : Path) = c.src
      · exact absurd ⟨he, hr⟩ hext
      · simp [he]
  have hkh : ¬ (m.kindAt [] = some Kind.history) := by
    simp only [Machine.kindAt, SNode.at, Option.map_some, Option.some.injEq]
    exact hk
  have hvL : ∀ p ∈ ([[]] : List Path), ∃ n, m.root.at p = some n := by
    intro p hp; simp at hp; subst hp; exact ⟨m.root, rfl⟩
  obtain ⟨hperr, hpent⟩ := planEnter_eq m [[]] hwf hi hvL
  have hplan : planTransition m s.cfg s.hist c =
      { exits := sortExit m s.cfg, actions := c.t.actions,
        entries := (planEnter m [[]]).1, err := (planEnter m [[]]).2 } := by
    unfold planTransition
    simp only [ht, hne, if_false, hres, hnotint, Bool.false_eq_true, hkh, domainO_root, pathFromO_none_nil]
  rw [hplan]
  cases herr : (execute h fl m ev
      { exits := sortExit m s.cfg, actions := c.t.actions,
        entries := (planEnter m [[]]).1, err := (planEnter m [[]]).2 } s).err with
  | some e =>
    rw [execute_rollback h fl m ev _ s rfl (by rw [herr]; simp)]
    exact hL
  | none =>
    have hvx : ∀ p ∈ sortExit m s.cfg, (m.defAt p).isSome := by
      intro p hp
      rw [mem_sortExit] at hp
      obtain ⟨n, hn, _⟩ := hL.states p hp
      exact defAt_isSome_of_at hn
    have hve : ∀ e ∈ (planEnter m [[]]).1, (m.defAt e.path).isSome := by
      intro e he
      have : e.path ∈ enterStates m.root [[]] := by rw [← hpent]; exact List.mem_map_of_mem he
      obtain ⟨n, hn⟩ := enterStates_at m.root hwf _ hvL e.path this
      exact defAt_isSome_of_at hn
    obtain ⟨_, hmem⟩ := execute_cfg h hok fl m ev
      { exits := sortExit m s.cfg, actions := c.t.actions,
        entries := (planEnter m [[]]).1, err := (planEnter m [[]]).2 } s rfl hvx hve herr
    apply legal_enterDefault_root m.root hwf hk
    intro q
    rw [hmem q, hpent, enterStates_root]
    simp only [mem_sortExit]
    constructor
    · rintro (⟨a, b⟩ | h2)
      · exact absurd a b
      · exact h2
    · intro h2; exact Or.inr h2

end XSM
